(* Dyadic-number lemmas for C31: order, f64::min, and the rounding bound that keeps a decayed
   score below the maximum. *)
From FC Require Import P2P.Model.
From Coq Require Import ZifyBool Lia.
Open Scope Z_scope.

Lemma pow2_pos k : 0 <= k -> 0 < 2 ^ k.
Proof. intro H. apply Z.pow_pos_nonneg; lia. Qed.

Lemma pow2_split a b : 0 <= a -> 0 <= b -> 2 ^ (a + b) = 2 ^ a * 2 ^ b.
Proof. intros. apply Z.pow_add_r; assumption. Qed.

(* comparing at any common exponent below both *)
Lemma dy_leb_shift m1 e1 m2 e2 t : t <= e1 -> t <= e2 ->
  (dy_leb (m1, e1) (m2, e2) = true <-> m1 * 2 ^ (e1 - t) <= m2 * 2 ^ (e2 - t)).
Proof.
  intros H1 H2. unfold dy_leb. set (e := Z.min e1 e2). rewrite Z.leb_le.
  assert (He : t <= e) by (unfold e; lia).
  replace (e1 - t) with ((e1 - e) + (e - t)) by lia.
  replace (e2 - t) with ((e2 - e) + (e - t)) by lia.
  rewrite !pow2_split by (unfold e; lia).
  pose proof (pow2_pos (e - t) ltac:(lia)) as HP.
  rewrite !Z.mul_assoc. split; intro H.
  - apply Z.mul_le_mono_nonneg_r; lia.
  - apply Z.mul_le_mono_pos_r in H; assumption.
Qed.

Lemma dy_ltb_leb a b : dy_ltb a b = true -> dy_leb a b = true.
Proof. destruct a as [m1 e1], b as [m2 e2]. unfold dy_ltb, dy_leb. lia. Qed.

Lemma dy_leb_refl a : dy_leb a a = true.
Proof. destruct a as [m e]. unfold dy_leb. lia. Qed.

(* f64::min never exceeds its receiver *)
Lemma dy_min_le self other : dy_leb (dy_min self other) self = true.
Proof.
  unfold dy_min. destruct (dy_ltb other self) eqn:E.
  - now apply dy_ltb_leb.
  - apply dy_leb_refl.
Qed.

Lemma dy_nonpos_le_max m e : m <= 0 -> dy_leb (m, e) MAX_APP_SCORE = true.
Proof.
  intro H. unfold dy_leb, MAX_APP_SCORE. apply Z.leb_le.
  pose proof (pow2_pos (e - Z.min e 0) ltac:(lia)).
  pose proof (pow2_pos (0 - Z.min e 0) ltac:(lia)).
  nia.
Qed.

(* rounding a non-positive number gives a non-positive number *)
Lemma round53_nonpos m e : m <= 0 -> fst (round53 m e) <= 0.
Proof.
  intro H. unfold round53.
  destruct (Z.log2 (Z.abs m) + 1 <=? 53); [exact H|]. cbn [fst].
  set (k := Z.log2 (Z.abs m) + 1 - 53).
  assert (Hq : 0 <= Z.abs m / 2 ^ k) by (apply Z.div_pos; [lia|apply pow2_pos; unfold k; pose proof (Z.log2_nonneg (Z.abs m)); lia] || apply Z_div_nonneg_nonneg; lia).
  assert (Hs : Z.sgn m <= 0) by lia.
  destruct (Z.abs m mod 2 ^ k <? 2 ^ (k - 1)); [nia|].
  destruct (2 ^ (k - 1) <? Z.abs m mod 2 ^ k); [nia|].
  destruct (Z.even (Z.abs m / 2 ^ k)); nia.
Qed.

(* relative error of rounding a positive number to 53 bits: at most one part in 2^52 upwards *)
Lemma round53_bound m e : 0 < m ->
  exists k, 0 <= k /\ snd (round53 m e) = e + k /\ 0 <= fst (round53 m e) /\
            fst (round53 m e) * 2 ^ k * 2 ^ 52 <= m * (2 ^ 52 + 1).
Proof.
  intro Hm. unfold round53. rewrite (Z.abs_eq m) by lia.
  destruct (Z.log2 m + 1 <=? 53) eqn:Ed.
  - exists 0. cbn [fst snd]. rewrite Z.pow_0_r. split; [lia|]. split; [lia|]. split; lia.
  - set (k := Z.log2 m + 1 - 53). assert (Hk : 0 < k) by (unfold k; lia).
    exists k. cbn [fst snd]. split; [lia|]. split; [reflexivity|].
    pose proof (Z.log2_spec m Hm) as [Hlo _].
    replace (Z.log2 m) with (k + 52) in Hlo by (unfold k; lia).
    rewrite pow2_split in Hlo by lia.
    pose proof (pow2_pos k ltac:(lia)) as HK.
    set (K := 2 ^ k) in *.
    pose proof (Z.mul_div_le m K HK) as Hq.
    assert (Hq0 : 0 <= m / K) by (apply Z.div_pos; lia).
    set (q := m / K) in *.
    rewrite (Z.sgn_pos m) by lia.
    assert (Hgoal : forall q', 0 <= q' <= q + 1 ->
              0 <= 1 * q' /\ 1 * q' * K * 2 ^ 52 <= m * (2 ^ 52 + 1)).
    { intros q' Hq'. split; [lia|]. nia. }
    destruct (m mod K <? 2 ^ (k - 1)); [apply Hgoal; lia|].
    destruct (2 ^ (k - 1) <? m mod K); [apply Hgoal; lia|].
    destruct (Z.even q); apply Hgoal; lia.
Qed.

(* the decay never lifts a score above the maximum *)
Lemma decay_le x : dy_leb x MAX_APP_SCORE = true ->
  dy_leb (dy_mul x DECAY_APP_SCORE) MAX_APP_SCORE = true.
Proof.
  destruct x as [m e]. intro Hx. unfold dy_mul, DECAY_APP_SCORE.
  destruct (Z_le_gt_dec m 0) as [Hneg|Hpos].
  - pose proof (round53_nonpos (m * 8106479329266893) (e + -53) ltac:(nia)) as H.
    destruct (round53 (m * 8106479329266893) (e + -53)) as [m' e']. cbn [fst] in H.
    now apply dy_nonpos_le_max.
  - destruct (round53_bound (m * 8106479329266893) (e + -53) ltac:(nia)) as [k [Hk [He' [Hm' Hb]]]].
    destruct (round53 (m * 8106479329266893) (e + -53)) as [m' e']. cbn [fst snd] in *.
    set (t := Z.min e 0 - 53).
    unfold MAX_APP_SCORE in *.
    apply (dy_leb_shift m e 150 0 t) in Hx; [|unfold t; lia|unfold t; lia].
    apply (dy_leb_shift m' e' 150 0 t); [unfold t; lia|unfold t; lia|].
    set (u := e - 53 - t). assert (Hu : 0 <= u) by (unfold u, t; lia).
    replace (e - t) with (53 + u) in Hx by (unfold u; lia).
    replace (e' - t) with (k + u) by (unfold u; lia).
    rewrite pow2_split in Hx by lia. rewrite pow2_split by lia.
    pose proof (pow2_pos u Hu) as HS. pose proof (pow2_pos k Hk) as HK.
    set (S := 2 ^ u) in *. set (K := 2 ^ k) in *. set (TT := 2 ^ (0 - t)) in *.
    assert (HC : 8106479329266893 * (2 ^ 52 + 1) <= 2 ^ 53 * 2 ^ 52) by (apply Z.leb_le; vm_compute; reflexivity).
    assert (H1 : m' * K * S * 2 ^ 52 <= m * (2 ^ 53 * 2 ^ 52) * S).
    { transitivity (m * 8106479329266893 * (2 ^ 52 + 1) * S).
      - replace (m' * K * S * 2 ^ 52) with (m' * K * 2 ^ 52 * S) by ring.
        apply Z.mul_le_mono_nonneg_r; lia.
      - apply Z.mul_le_mono_nonneg_r; [lia|].
        rewrite <- Z.mul_assoc. apply Z.mul_le_mono_nonneg_l; lia. }
    assert (H2 : m * (2 ^ 53 * 2 ^ 52) * S = m * (2 ^ 53 * S) * 2 ^ 52) by ring.
    rewrite H2 in H1.
    assert (H3 : m' * K * S * 2 ^ 52 <= 150 * TT * 2 ^ 52).
    { etransitivity; [exact H1|]. apply Z.mul_le_mono_nonneg_r; [lia|exact Hx]. }
    apply Z.mul_le_mono_pos_r in H3; [|lia].
    replace (m' * (K * S)) with (m' * K * S) by ring. exact H3.
Qed.

(* sanity: the model's arithmetic on values with known f64 results
   (150.0 * 0.9 == 135.0, 1.0 * 0.9 == 0.9, 0.1 + 0.2 == 0.30000000000000004) *)
Example dy_examples :
  dy_norm (dy_mul (150, 0) DECAY_APP_SCORE) = (135, 0) /\
  dy_norm (dy_mul (1, 0) DECAY_APP_SCORE) = (8106479329266893, -53) /\
  dy_norm (dy_add (3602879701896397, -55) (3602879701896397, -54)) = (1351079888211149, -52).
Proof. vm_compute. repeat split; reflexivity. Qed.
