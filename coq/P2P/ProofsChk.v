(* C31: the decidable trace checker, its meaning, and the model's trace passing it. *)
From FC Require Import P2P.Model P2P.ProofsDy P2P.Proofs31.
From Coq Require Import ZifyBool ZifyN ZifyNat Lia.
Open Scope N_scope.

Lemma mem_In p l : mem p l = true <-> In p l.
Proof.
  unfold mem. rewrite existsb_exists. split.
  - intros [x [Hx E]]. apply N.eqb_eq in E. now subst.
  - intro H. exists p. split; [assumption|apply N.eqb_refl].
Qed.

Lemma negb_mem_In p l : negb (mem p l) = true <-> ~ In p l.
Proof.
  rewrite <- mem_In. destruct (mem p l); cbn; split; intro H; try discriminate; try reflexivity;
    try (exfalso; now apply H).
Qed.

(* ---------- the specification in readable form ---------- *)

Definition SnapSpec (cf : bool) (reserved : list N) (max : N) (sn : snap) : Prop :=
  (* slots *) len (o_non_reserved sn) <= max /\
  (* the two tables hold the right kind of peer *)
  Forall (fun x => ~ In (p_id x) reserved) (o_non_reserved sn) /\
  Forall (fun x => In (p_id x) reserved) (o_reserved sn) /\
  (* no score above the maximum *)
  Forall score_ok (o_non_reserved sn ++ o_reserved sn) /\
  (* the connection tracker admits every reserved peer *)
  o_allow_reserved sn = true /\
  (* no reserved peer is banned *)
  Forall (fun b => ~ In b reserved) (o_bans sn) /\
  (* the connection tracker admits other peers exactly when a slot is free *)
  (cf = true -> (o_allow_other sn = true <-> len (o_non_reserved sn) < max)).

Definition StepSpec (reserved : list N) (max : N) (o : op) (before after : snap) : Prop :=
  match o with
  | OConnect p =>
      (In p reserved -> o_ret after = 0%Z /\ In p (ids (o_reserved after))) /\
      (~ In p reserved -> In p (ids (o_non_reserved before)) -> o_ret after = 0%Z) /\
      (~ In p reserved -> ~ In p (ids (o_non_reserved before)) ->
       (o_ret after = 0%Z <-> len (o_non_reserved before) < max) /\
       (In p (ids (o_non_reserved after)) <-> o_ret after = 0%Z))
  | _ => True
  end.

Fixpoint StepsSpec (cf : bool) (reserved : list N) (max : N) (before : snap)
         (ops : list op) (obs : list snap) : Prop :=
  match ops, obs with
  | [], [] => True
  | o :: r, sn :: obs' =>
      SnapSpec cf reserved max sn /\ StepSpec reserved max o before sn /\
      StepsSpec cf reserved max sn r obs'
  | _, _ => False
  end.

Definition TraceSpec (cf : bool) (reserved : list N) (max : N) (ops : list op) (obs : list snap) : Prop :=
  match obs with
  | s0 :: obs' => SnapSpec cf reserved max s0 /\ StepsSpec cf reserved max s0 ops obs'
  | [] => False
  end.

Lemma snap_okb_iff cf reserved max sn :
  snap_okb cf reserved max sn = true <-> SnapSpec cf reserved max sn.
Proof.
  unfold snap_okb, SnapSpec, score_ok.
  rewrite !andb_true_iff, N.leb_le, !forallb_forall, !Forall_forall.
  assert (G : (negb cf || Bool.eqb (o_allow_other sn) (len (o_non_reserved sn) <? max)) = true <->
              (cf = true -> (o_allow_other sn = true <-> len (o_non_reserved sn) < max))).
  { destruct cf; cbn [negb orb]; [|split; [discriminate|reflexivity]].
    destruct (o_allow_other sn); destruct (len (o_non_reserved sn) <? max) eqn:E; cbn;
      split; intro H; try reflexivity; try discriminate; try (intros _; split; intro; (lia || discriminate || reflexivity)).
    - specialize (H eq_refl). lia.
    - specialize (H eq_refl). destruct H as [_ H]. specialize (H ltac:(lia)). discriminate. }
  rewrite G. clear G.
  split.
  - intros [[[[[[A B] C] D] E] F] H]. repeat split; try assumption.
    + intros x Hx. apply negb_mem_In. now apply B.
    + intros x Hx. apply mem_In. now apply C.
    + intros b Hb. apply negb_mem_In. now apply F.
    + now apply H.
    + now apply H.
  - intros [A [B [C [D [E [F H]]]]]]. repeat split; try assumption.
    + intros x Hx. apply negb_mem_In. now apply B.
    + intros x Hx. apply mem_In. now apply C.
    + intros b Hb. apply negb_mem_In. now apply F.
    + now apply H.
    + now apply H.
Qed.

Lemma step_okb_iff reserved max o before after :
  step_okb reserved max o before after = true <-> StepSpec reserved max o before after.
Proof.
  destruct o as [p|p|p|p d| |p d]; cbn [step_okb StepSpec]; try (split; [intros _; exact Logic.I|reflexivity]).
  pose proof (mem_In p reserved) as M1.
  pose proof (mem_In p (ids (o_non_reserved before))) as M2.
  pose proof (mem_In p (ids (o_reserved after))) as M3.
  pose proof (mem_In p (ids (o_non_reserved after))) as M4.
  destruct (mem p reserved) eqn:E1.
  - rewrite andb_true_iff, Z.eqb_eq. rewrite M3. split.
    + intros [A B]. split; [intros _; split; assumption|]. split; intros Hn; exfalso; apply Hn; now apply M1.
    + intros [A _]. apply A. now apply M1.
  - assert (Hn : ~ In p reserved) by (intro H; apply M1 in H; discriminate).
    destruct (mem p (ids (o_non_reserved before))) eqn:E2.
    + rewrite Z.eqb_eq. split.
      * intro A. split; [intro H; contradiction|]. split; [intros _ _; exact A|].
        intros _ Hn2. exfalso. apply Hn2. now apply M2.
      * intros [_ [A _]]. apply A; [exact Hn|now apply M2].
    + assert (Hn2 : ~ In p (ids (o_non_reserved before))) by (intro H; apply M2 in H; discriminate).
      rewrite andb_true_iff. rewrite !Bool.eqb_true_iff.
      split.
      * intros [A B]. split; [intro H; contradiction|]. split; [intros _ H; contradiction|].
        intros _ _. split.
        -- rewrite <- Z.eqb_eq. rewrite A. lia.
        -- rewrite <- M4, B. apply Z.eqb_eq.
      * intros [_ [_ A]]. destruct (A Hn Hn2) as [A1 A2]. split.
        -- destruct (o_ret after =? 0)%Z eqn:E3; destruct (len (o_non_reserved before) <? max) eqn:E4;
             try reflexivity; exfalso.
           ++ apply Z.eqb_eq in E3. apply A1 in E3. lia.
           ++ assert (o_ret after = 0%Z) by (apply A1; lia). lia.
        -- destruct (mem p (ids (o_non_reserved after))) eqn:E5; destruct (o_ret after =? 0)%Z eqn:E3;
             try reflexivity; exfalso.
           ++ assert (o_ret after = 0%Z) by (apply A2; now apply M4). lia.
           ++ apply Z.eqb_eq in E3. apply A2 in E3. apply M4 in E3. discriminate.
Qed.

Lemma steps_okb_iff cf reserved max ops : forall before obs,
  steps_okb cf reserved max before ops obs = true <-> StepsSpec cf reserved max before ops obs.
Proof.
  induction ops as [|o r IH]; intros before obs; destruct obs as [|sn obs']; cbn [steps_okb StepsSpec];
    try (split; [intros _; exact Logic.I|reflexivity]); try (split; [discriminate|intros []]).
  rewrite !andb_true_iff, snap_okb_iff, step_okb_iff, IH. tauto.
Qed.

Theorem trace_okb_iff cf reserved max ops obs :
  trace_okb cf reserved max ops obs = true <-> TraceSpec cf reserved max ops obs.
Proof.
  destruct obs as [|s0 obs']; cbn [trace_okb TraceSpec]; [split; [discriminate|intros []]|].
  rewrite andb_true_iff, snap_okb_iff, steps_okb_iff. tauto.
Qed.

(* ---------- the model's trace passes the checker ---------- *)

Lemma snap_ok_of_inv cf s ret bans :
  Inv cf s -> Forall (fun b => mem b (reserved_peers s) = false) bans ->
  snap_okb cf (reserved_peers s) (max_non_reserved_peers s) (observe s ret bans) = true.
Proof.
  intros [H1 H2 H3 H4 H5 H6] Hb. apply snap_okb_iff. unfold SnapSpec, observe; cbn.
  split; [exact H1|]. split.
  { eapply Forall_impl; [|exact H2]. intros x Hx Hin. apply mem_In in Hin. congruence. }
  split.
  { eapply Forall_impl; [|exact H3]. intros x Hx. now apply mem_In. }
  split; [apply Forall_app; split; assumption|]. split.
  { apply forallb_forall. intros p Hp. unfold allow_peer, is_reserved.
    apply mem_In in Hp. now rewrite Hp. }
  split.
  { eapply Forall_impl; [|exact Hb]. intros b Hx Hin. apply mem_In in Hin. congruence. }
  intro Hc. rewrite (H6 Hc). lia.
Qed.

Lemma step_ok_model s o r0 b0 :
  step_okb (reserved_peers s) (max_non_reserved_peers s) o (observe s r0 b0)
           (observe (st (step s o)) (snd (fst (step s o))) (bans_of (step s o))) = true.
Proof.
  destruct o as [p|p|p|p d| |p d]; try reflexivity.
  unfold st, bans_of. cbn [step step_okb].
  destruct (handle_initial_connection s p) as [s' b] eqn:Eh. cbn [fst snd observe o_ret o_reserved o_non_reserved].
  destruct (mem p (reserved_peers s)) eqn:E1.
  - destruct (connect_reserved s p E1) as [A [B _]]. rewrite Eh in A, B. cbn [fst snd] in A, B.
    rewrite A, mem_ids, B. reflexivity.
  - rewrite mem_ids. destruct (contains_key (non_reserved_connected_peers s) p) eqn:E2.
    + rewrite (connect_known_non_reserved s p E1 E2) in Eh. injection Eh as <- <-. reflexivity.
    + destruct (connect_new_non_reserved s p E1 E2) as [A B]. rewrite Eh in A, B. cbn [fst snd] in A, B.
      rewrite mem_ids, B. destruct b; cbn.
      * destruct (len (non_reserved_connected_peers s) <? max_non_reserved_peers s) eqn:E3; [|reflexivity].
        exfalso. assert (true = false) by (apply A; lia). discriminate.
      * destruct (len (non_reserved_connected_peers s) <? max_non_reserved_peers s) eqn:E3; [reflexivity|].
        exfalso. assert (len (non_reserved_connected_peers s) < max_non_reserved_peers s) by (now apply A). lia.
Qed.

Lemma run_ops_ok cf ops : forall s r0 b0,
  max_non_reserved_peers s <= usizemax -> Inv cf s ->
  steps_okb cf (reserved_peers s) (max_non_reserved_peers s) (observe s r0 b0) ops (run_ops s ops) = true.
Proof.
  induction ops as [|o r IH]; intros s r0 b0 Hmax HI; cbn [run_ops steps_okb]; [reflexivity|].
  pose proof (step_inv cf s o Hmax HI) as [A [[B1 B2] C]].
  pose proof (step_ok_model s o r0 b0) as D.
  unfold st, bans_of in *. destruct (step s o) as [[s' ret] bans]. cbn [fst snd] in *.
  cbn [steps_okb]. rewrite !andb_true_iff. split; [split|].
  - rewrite <- B1, <- B2. apply snap_ok_of_inv; [exact A|]. now rewrite B1.
  - exact D.
  - rewrite <- B1, <- B2. apply IH; [lia|exact A].
Qed.

Theorem model_trace_ok cf reserved max ops :
  max <= usizemax -> (cf = true -> 1 <= max) ->
  trace_okb cf reserved max ops (trace reserved max ops) = true.
Proof.
  intros Hmax Hcf. unfold trace. cbn [trace_okb].
  pose proof (inv_new cf reserved max Hcf) as HI.
  rewrite andb_true_iff. split.
  - apply (snap_ok_of_inv cf (pm_new reserved max) (-1)%Z [] HI). constructor.
  - apply (run_ops_ok cf ops (pm_new reserved max) (-1)%Z [] Hmax HI).
Qed.

(* the full property (flag included) is refuted for a limit of 0, already by the empty history *)
Theorem model_trace_zero_refuted :
  exists reserved ops, trace_okb true reserved 0 ops (trace reserved 0 ops) = false.
Proof. exists [], []. vm_compute. reflexivity. Qed.

(* non-vacuity: a history that fills the table, is refused, loses a peer, is scored and banned *)
Example trace_nonvacuous :
  let ops := [OConnect 1; OConnect 2; OConnect 3; OConnect 0; ODisconnect 1; OConnect 3;
              OScore 2 (-51, 0)%Z; OScore 3 (301, -1)%Z; ODecay; OGossip 0 (-16001, 0)%Z; OGossip 3 (-16001, 0)%Z] in
  trace_okb true [0] 2 ops (trace [0] 2 ops) = true /\
  map o_ret (trace [0] 2 ops) = [-1; 0; 0; 1; 0; 0; 0; -1; -1; -1; -1; -1]%Z /\
  map o_bans (trace [0] 2 ops) = [[]; []; []; []; []; []; []; [2]; []; []; []; [3]] /\
  map o_allow_other (trace [0] 2 ops) =
    [true; true; false; false; false; true; false; false; false; false; false; false].
Proof. vm_compute. repeat split; reflexivity. Qed.

(* ---------- record of defect N1 (the disconnect rule before the repair) ---------- *)

(* handle_peer_disconnect as it was: `all_slots_taken` compared the limit with len + 1 although
   the peer had not been removed yet *)
Definition handle_peer_disconnect_before_fix (s : pm) (p : N) : pm * bool :=
  if negb (is_reserved s p) then
    let all_slots_taken :=
      (max_non_reserved_peers s =? sat_add usizemax (len (non_reserved_connected_peers s)) 1) in
    let removed := contains_key (non_reserved_connected_peers s) p in
    let s1 := set_non_reserved s (remove_key (non_reserved_connected_peers s) p) in
    (if removed && all_slots_taken then set_allowed s1 true else s1, false)
  else if contains_key (reserved_connected_peers s) p then
    (set_reserved s (remove_key (reserved_connected_peers s) p), true)
  else (s, false).

(* a full table (limit 2) loses a peer: one slot is free but the flag still denies *)
Example n1_before_fix_flag_stuck :
  let s := fst (handle_initial_connection (fst (handle_initial_connection (pm_new [] 2) 5)) 6) in
  let s' := fst (handle_peer_disconnect_before_fix s 5) in
  len (non_reserved_connected_peers s') = 1 /\ peers_allowed s' = false /\
  peers_allowed (fst (handle_peer_disconnect s 5)) = true.
Proof. vm_compute. repeat split; reflexivity. Qed.

Theorem flag_zero_refuted_all :
  exists reserved s, reachable reserved 0 s /\
    ~ (peers_allowed s = true <-> len (non_reserved_connected_peers s) < 0).
Proof.
  exists [], (pm_new [] 0). split; [constructor|].
  intros [H _]. specialize (H eq_refl). lia.
Qed.
