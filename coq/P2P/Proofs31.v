(* Proofs for C31: slots, reserved peers, scores and the ConnectionState flag, for all event
   sequences. *)
From FC Require Import P2P.Model P2P.ProofsDy.
From Coq Require Import ZifyBool ZifyN ZifyNat Lia.
Open Scope N_scope.

(* ---------- small list facts ---------- *)

Lemma mem_ids l p : mem p (ids l) = contains_key l p.
Proof.
  unfold mem, ids, contains_key. induction l as [|x l IH]; cbn; [reflexivity|].
  rewrite IH. now rewrite (N.eqb_sym p (p_id x)).
Qed.

Lemma remove_key_length l p : (length (remove_key l p) <= length l)%nat.
Proof. unfold remove_key. induction l as [|x l IH]; cbn; [lia|]. destruct (negb _); cbn; lia. Qed.

Lemma remove_key_shorter l p : contains_key l p = true ->
  (length (remove_key l p) < length l)%nat.
Proof.
  unfold remove_key, contains_key. induction l as [|x l IH]; cbn; [discriminate|].
  pose proof (remove_key_length l p) as Hl. unfold remove_key in Hl.
  destruct (p_id x =? p) eqn:E; cbn; [lia|]. intro H. specialize (IH H). lia.
Qed.

Lemma remove_key_absent l p : contains_key l p = false -> remove_key l p = l.
Proof.
  unfold remove_key, contains_key. induction l as [|x l IH]; cbn; [reflexivity|].
  destruct (p_id x =? p) eqn:E; cbn; [discriminate|]. intro H. now rewrite IH.
Qed.

Lemma Forall_filter {A} (P : A -> Prop) f l : Forall P l -> Forall P (filter f l).
Proof.
  rewrite !Forall_forall. intros H x Hx. apply filter_In in Hx. now apply H.
Qed.

Lemma Forall_map_pres {A} (P : A -> Prop) f l :
  (forall x, P x -> P (f x)) -> Forall P l -> Forall P (map f l).
Proof. intros Hf H. induction H; cbn; constructor; auto. Qed.

Lemma find_peer_some l p x : find_peer l p = Some x -> In x l /\ p_id x = p.
Proof.
  induction l as [|y l IH]; cbn; [discriminate|].
  destruct (p_id y =? p) eqn:E.
  - intro H. injection H as <-. split; [now left|lia].
  - intro H. destruct (IH H). split; [now right|assumption].
Qed.

(* ---------- the invariant ---------- *)

Definition score_ok (x : peer) : Prop := dy_leb (p_score x) MAX_APP_SCORE = true.

(* [cf]: the flag part is included *)
Record Inv (cf : bool) (s : pm) : Prop := {
  inv_slots : len (non_reserved_connected_peers s) <= max_non_reserved_peers s;
  inv_nr : Forall (fun x => mem (p_id x) (reserved_peers s) = false) (non_reserved_connected_peers s);
  inv_r : Forall (fun x => mem (p_id x) (reserved_peers s) = true) (reserved_connected_peers s);
  inv_score_nr : Forall score_ok (non_reserved_connected_peers s);
  inv_score_r : Forall score_ok (reserved_connected_peers s);
  inv_flag : cf = true ->
             peers_allowed s = (len (non_reserved_connected_peers s) <? max_non_reserved_peers s)
}.

Lemma score_ok_new p : score_ok (peer_info_new p).
Proof. unfold score_ok, peer_info_new; cbn. reflexivity. Qed.

Lemma inv_new cf reserved max : (cf = true -> 1 <= max) -> Inv cf (pm_new reserved max).
Proof.
  intro H. constructor; cbn; try constructor; try lia.
Qed.

Definition same_config (s s' : pm) : Prop :=
  reserved_peers s' = reserved_peers s /\ max_non_reserved_peers s' = max_non_reserved_peers s.

(* ---------- connect ---------- *)

Lemma connect_inv cf s p :
  max_non_reserved_peers s <= usizemax -> Inv cf s ->
  Inv cf (fst (handle_initial_connection s p)) /\
  same_config s (fst (handle_initial_connection s p)).
Proof.
  intros Hmax [H1 H2 H3 H4 H5 H6]. unfold handle_initial_connection, is_reserved.
  destruct (mem p (reserved_peers s)) eqn:Er; cbn [negb andb].
  - destruct (contains_key (reserved_connected_peers s) p) eqn:Ec; cbn [negb fst].
    + split; [constructor; assumption|split; reflexivity].
    + split; [|split; reflexivity].
      constructor; cbn; try assumption.
      * constructor; [exact Er|assumption].
      * constructor; [apply score_ok_new|assumption].
  - destruct (contains_key (non_reserved_connected_peers s) p) eqn:Ec; cbn [negb fst].
    + split; [constructor; assumption|split; reflexivity].
    + destruct (max_non_reserved_peers s <=? len (non_reserved_connected_peers s)) eqn:Efull; cbn [fst].
      * split; [constructor; assumption|split; reflexivity].
      * assert (Hsat : sat_add usizemax (len (non_reserved_connected_peers s)) 1 =
                       len (non_reserved_connected_peers s) + 1) by (unfold sat_add; lia).
        rewrite Hsat.
        destruct (len (non_reserved_connected_peers s) + 1 =? max_non_reserved_peers s) eqn:Elast.
        -- split; [|split; reflexivity].
           constructor; cbn; try assumption.
           ++ unfold len in *; cbn [length]. lia.
           ++ constructor; [exact Er|assumption].
           ++ constructor; [apply score_ok_new|assumption].
           ++ intros _. unfold len in *; cbn [length]. lia.
        -- split; [|split; reflexivity].
           constructor; cbn; try assumption.
           ++ unfold len in *; cbn [length]. lia.
           ++ constructor; [exact Er|assumption].
           ++ constructor; [apply score_ok_new|assumption].
           ++ intros Hc. rewrite (H6 Hc). unfold len in *; cbn [length]. lia.
Qed.

(* reserved peers are always admitted: never asked to disconnect, present afterwards, and
   allowed by the connection tracker whatever the flag says *)
Lemma connect_reserved s p : mem p (reserved_peers s) = true ->
  snd (handle_initial_connection s p) = false /\
  contains_key (reserved_connected_peers (fst (handle_initial_connection s p))) p = true /\
  allow_peer s p = true.
Proof.
  intro Er. unfold handle_initial_connection, allow_peer, is_reserved. rewrite Er. cbn [negb andb orb].
  destruct (contains_key (reserved_connected_peers s) p) eqn:Ec; cbn [negb fst snd].
  - repeat split; assumption.
  - repeat split. cbn. now rewrite N.eqb_refl.
Qed.

(* a new non-reserved peer is admitted exactly when a slot is free *)
Lemma connect_new_non_reserved s p :
  mem p (reserved_peers s) = false -> contains_key (non_reserved_connected_peers s) p = false ->
  (snd (handle_initial_connection s p) = false <->
   len (non_reserved_connected_peers s) < max_non_reserved_peers s) /\
  (contains_key (non_reserved_connected_peers (fst (handle_initial_connection s p))) p =
   negb (snd (handle_initial_connection s p))).
Proof.
  intros Er Ec. unfold handle_initial_connection, is_reserved. rewrite Er, Ec. cbn [negb andb].
  destruct (max_non_reserved_peers s <=? len (non_reserved_connected_peers s)) eqn:Efull; cbn [fst snd negb].
  - split; [split; [discriminate|lia]|exact Ec].
  - split; [split; [lia|reflexivity]|].
    destruct (sat_add usizemax (len (non_reserved_connected_peers s)) 1 =? max_non_reserved_peers s);
      cbn; now rewrite N.eqb_refl.
Qed.

Lemma connect_known_non_reserved s p :
  mem p (reserved_peers s) = false -> contains_key (non_reserved_connected_peers s) p = true ->
  handle_initial_connection s p = (s, false).
Proof.
  intros Er Ec. unfold handle_initial_connection, is_reserved. rewrite Er, Ec. reflexivity.
Qed.

(* ---------- disconnect ---------- *)

Lemma disconnect_inv cf s p : Inv cf s ->
  Inv cf (fst (handle_peer_disconnect s p)) /\ same_config s (fst (handle_peer_disconnect s p)).
Proof.
  intros [H1 H2 H3 H4 H5 H6]. unfold handle_peer_disconnect, is_reserved.
  destruct (mem p (reserved_peers s)) eqn:Er; cbn [negb].
  - destruct (contains_key (reserved_connected_peers s) p); cbn [fst].
    + split; [|split; reflexivity]. constructor; cbn; try assumption.
      * now apply Forall_filter.
      * now apply Forall_filter.
    + split; [constructor; assumption|split; reflexivity].
  - cbn [fst].
    pose proof (remove_key_length (non_reserved_connected_peers s) p) as Hle.
    destruct (contains_key (non_reserved_connected_peers s) p) eqn:Ec; cbn [andb].
    + pose proof (remove_key_shorter _ _ Ec) as Hlt.
      destruct (max_non_reserved_peers s =? len (non_reserved_connected_peers s)) eqn:Efull.
      * split; [|split; reflexivity]. constructor; cbn; try assumption.
        -- unfold len in *. lia.
        -- now apply Forall_filter.
        -- now apply Forall_filter.
        -- intros _. unfold len in *. lia.
      * split; [|split; reflexivity]. constructor; cbn; try assumption.
        -- unfold len in *. lia.
        -- now apply Forall_filter.
        -- now apply Forall_filter.
        -- intros Hc. rewrite (H6 Hc). unfold len in *. lia.
    + rewrite (remove_key_absent _ _ Ec).
      split; [|split; reflexivity]. constructor; cbn; assumption.
Qed.

(* ---------- identify, decay, scores ---------- *)

Lemma set_ident_length l p : length (set_ident l p) = length l.
Proof. unfold set_ident. apply map_length. Qed.

Lemma identify_inv cf s p : Inv cf s ->
  Inv cf (handle_peer_identified s p) /\ same_config s (handle_peer_identified s p).
Proof.
  intros [H1 H2 H3 H4 H5 H6]. unfold handle_peer_identified, is_reserved.
  destruct (mem p (reserved_peers s)).
  - split; [|split; reflexivity]. constructor; cbn; try assumption.
    + apply Forall_map_pres; [|assumption]. intros x Hx. destruct (p_id x =? p); exact Hx.
    + apply Forall_map_pres; [|assumption]. intros x Hx. destruct (p_id x =? p); exact Hx.
  - split; [|split; reflexivity]. constructor; cbn; try assumption.
    + unfold len. rewrite set_ident_length. exact H1.
    + apply Forall_map_pres; [|assumption]. intros x Hx. destruct (p_id x =? p); exact Hx.
    + apply Forall_map_pres; [|assumption]. intros x Hx. destruct (p_id x =? p); exact Hx.
    + intros Hc. unfold len. rewrite set_ident_length. exact (H6 Hc).
Qed.

Lemma decay_inv cf s : Inv cf s ->
  Inv cf (batch_update_score_with_decay s) /\ same_config s (batch_update_score_with_decay s).
Proof.
  intros [H1 H2 H3 H4 H5 H6]. unfold batch_update_score_with_decay.
  split; [|split; reflexivity]. constructor; cbn; try assumption.
  - unfold len. rewrite map_length. exact H1.
  - apply Forall_map_pres; [|assumption]. intros x Hx. exact Hx.
  - apply Forall_map_pres; [|assumption]. intros x Hx. unfold score_ok in *; cbn.
    now apply decay_le.
  - intros Hc. unfold len. rewrite map_length. exact (H6 Hc).
Qed.

Lemma new_score_le old d : dy_leb (new_score old d) MAX_APP_SCORE = true.
Proof. unfold new_score. apply dy_min_le. Qed.

Lemma score_inv cf s p d : Inv cf s ->
  Inv cf (fst (update_app_score s p d)) /\ same_config s (fst (update_app_score s p d)) /\
  Forall (fun b => mem b (reserved_peers s) = false) (snd (update_app_score s p d)).
Proof.
  intros [H1 H2 H3 H4 H5 H6]. unfold update_app_score.
  destruct (find_peer (non_reserved_connected_peers s) p) as [x|] eqn:Ef; cbn [fst snd].
  - split; [|split; [split; reflexivity|]].
    + constructor; cbn; try assumption.
      * unfold len. rewrite map_length. exact H1.
      * apply Forall_map_pres; [|assumption]. intros y Hy. destruct (p_id y =? p); exact Hy.
      * apply Forall_map_pres; [|assumption]. intros y Hy. destruct (p_id y =? p); [|exact Hy].
        unfold score_ok; cbn. apply new_score_le.
      * intros Hc. unfold len. rewrite map_length. exact (H6 Hc).
    + destruct (dy_ltb _ _); [|constructor]. constructor; [|constructor].
      apply find_peer_some in Ef. destruct Ef as [Hin Hid].
      rewrite Forall_forall in H2. rewrite <- Hid. now apply H2.
  - split; [constructor; assumption|]. split; [split; reflexivity|constructor].
Qed.

Lemma gossip_bans s p d :
  Forall (fun b => mem b (reserved_peers s) = false) (handle_gossip_score_update s p d).
Proof.
  unfold handle_gossip_score_update, is_reserved.
  destruct (dy_ltb d MIN_GOSSIPSUB_SCORE_BEFORE_BAN); cbn [andb]; [|constructor].
  destruct (mem p (reserved_peers s)) eqn:E; cbn [negb]; constructor; [exact E|constructor].
Qed.

(* ---------- one event ---------- *)

Definition st (r : pm * Z * list N) : pm := fst (fst r).
Definition bans_of (r : pm * Z * list N) : list N := snd r.

Lemma step_inv cf s o :
  max_non_reserved_peers s <= usizemax -> Inv cf s ->
  Inv cf (st (step s o)) /\ same_config s (st (step s o)) /\
  Forall (fun b => mem b (reserved_peers s) = false) (bans_of (step s o)).
Proof.
  intros Hmax HI. unfold st, bans_of. destruct o as [p|p|p|p d| |p d]; cbn [step].
  - destruct (connect_inv cf s p Hmax HI) as [A B].
    destruct (handle_initial_connection s p) as [s' b]; cbn in *. repeat split; try apply A; try apply B. constructor.
  - destruct (identify_inv cf s p HI) as [A B]. cbn. repeat split; try apply A; try apply B. constructor.
  - destruct (disconnect_inv cf s p HI) as [A B].
    destruct (handle_peer_disconnect s p) as [s' b]; cbn in *. repeat split; try apply A; try apply B. constructor.
  - destruct (score_inv cf s p d HI) as [A [B C]].
    destruct (update_app_score s p d) as [s' bans]; cbn in *. repeat split; try apply A; try apply B. exact C.
  - destruct (decay_inv cf s HI) as [A B]. cbn. repeat split; try apply A; try apply B. constructor.
  - cbn. split; [exact HI|]. split; [split; reflexivity|]. apply gossip_bans.
Qed.

(* ---------- all event sequences: reachable states ---------- *)

Inductive reachable (reserved : list N) (max : N) : pm -> Prop :=
| reach_init : reachable reserved max (pm_new reserved max)
| reach_step s o : reachable reserved max s -> reachable reserved max (st (step s o)).

Lemma reachable_inv cf reserved max s :
  max <= usizemax -> (cf = true -> 1 <= max) -> reachable reserved max s ->
  Inv cf s /\ reserved_peers s = reserved /\ max_non_reserved_peers s = max.
Proof.
  intros Hmax Hcf H. induction H as [|s o H [IH [Er Em]]].
  - split; [now apply inv_new|split; reflexivity].
  - destruct (step_inv cf s o ltac:(lia) IH) as [A [[B1 B2] _]].
    split; [exact A|]. split; congruence.
Qed.

Theorem slots_bounded_all reserved max s :
  max <= usizemax -> reachable reserved max s ->
  len (non_reserved_connected_peers s) <= max.
Proof.
  intros Hmax H. destruct (reachable_inv false reserved max s Hmax ltac:(discriminate) H) as [I [_ Em]].
  rewrite <- Em. apply I.
Qed.

Theorem tables_disjoint_all reserved max s :
  max <= usizemax -> reachable reserved max s ->
  Forall (fun x => mem (p_id x) reserved = false) (non_reserved_connected_peers s) /\
  Forall (fun x => mem (p_id x) reserved = true) (reserved_connected_peers s).
Proof.
  intros Hmax H. destruct (reachable_inv false reserved max s Hmax ltac:(discriminate) H) as [I [Er _]].
  rewrite <- Er. split; apply I.
Qed.

Theorem reserved_always_admitted_all reserved max s p :
  reachable reserved max s -> mem p reserved = true ->
  snd (handle_initial_connection s p) = false /\
  contains_key (reserved_connected_peers (fst (handle_initial_connection s p))) p = true /\
  allow_peer s p = true.
Proof.
  intros H Hp. apply connect_reserved.
  assert (E : reserved_peers s = reserved).
  { clear Hp. induction H as [|s o H IH]; [reflexivity|].
    destruct o as [q|q|q|q d| |q d]; unfold st; cbn [step].
    - unfold handle_initial_connection.
      repeat match goal with |- context [if ?b then _ else _] => destruct b end; cbn; exact IH.
    - unfold handle_peer_identified. destruct (is_reserved s q); cbn; exact IH.
    - unfold handle_peer_disconnect.
      repeat match goal with |- context [if ?b then _ else _] => destruct b end; cbn; exact IH.
    - unfold update_app_score. destruct (find_peer _ _); cbn; exact IH.
    - cbn. exact IH.
    - cbn. exact IH. }
  now rewrite E.
Qed.

Theorem reserved_never_banned_all reserved max s o :
  max <= usizemax -> reachable reserved max s ->
  Forall (fun b => mem b reserved = false) (bans_of (step s o)).
Proof.
  intros Hmax H. destruct (reachable_inv false reserved max s Hmax ltac:(discriminate) H) as [I [Er Em]].
  destruct (step_inv false s o ltac:(lia) I) as [_ [_ C]]. now rewrite Er in C.
Qed.

Theorem score_le_max_all reserved max s :
  max <= usizemax -> reachable reserved max s ->
  Forall score_ok (non_reserved_connected_peers s ++ reserved_connected_peers s).
Proof.
  intros Hmax H. destruct (reachable_inv false reserved max s Hmax ltac:(discriminate) H) as [I _].
  apply Forall_app. split; apply I.
Qed.

Theorem flag_iff_free_slot_pos reserved max s :
  1 <= max -> max <= usizemax -> reachable reserved max s ->
  (peers_allowed s = true <-> len (non_reserved_connected_peers s) < max) /\
  (forall p, mem p reserved = false -> (allow_peer s p = true <-> len (non_reserved_connected_peers s) < max)).
Proof.
  intros H1 Hmax H.
  destruct (reachable_inv true reserved max s Hmax ltac:(intros; exact H1) H) as [I [Er Em]].
  pose proof (inv_flag _ _ I eq_refl) as F. rewrite Em in F.
  split; [rewrite F; lia|].
  intros p Hp. unfold allow_peer, is_reserved. rewrite Er, Hp. cbn [orb]. rewrite F. lia.
Qed.

(* with a limit of 0 the flag is never cleared although no slot is ever free *)
Theorem flag_iff_free_slot_zero reserved s :
  reachable reserved 0 s ->
  peers_allowed s = true /\ ~ len (non_reserved_connected_peers s) < 0.
Proof.
  intro H. split; [|lia].
  assert (G : peers_allowed s = true /\ non_reserved_connected_peers s = [] /\
              max_non_reserved_peers s = 0).
  { induction H as [|s o H [IH1 [IH2 IH3]]]; [repeat split|].
    destruct o as [q|q|q|q d| |q d]; unfold st; cbn [step].
    - unfold handle_initial_connection. rewrite IH2, IH3. cbn.
      destruct (is_reserved s q); cbn; [|repeat split; assumption].
      destruct (contains_key (reserved_connected_peers s) q); cbn; repeat split; assumption.
    - unfold handle_peer_identified. destruct (is_reserved s q); cbn; rewrite ?IH2; repeat split; assumption.
    - unfold handle_peer_disconnect. rewrite IH2, IH3. cbn.
      destruct (is_reserved s q); cbn; [|repeat split; assumption].
      destruct (contains_key (reserved_connected_peers s) q); cbn; repeat split; assumption.
    - unfold update_app_score. rewrite IH2. cbn. repeat split; assumption.
    - unfold batch_update_score_with_decay. rewrite IH2. cbn. repeat split; assumption.
    - cbn. repeat split; assumption. }
  apply G.
Qed.

Theorem new_peer_admitted_iff_free_slot_all reserved max s p :
  reachable reserved max s -> mem p reserved = false ->
  contains_key (non_reserved_connected_peers s) p = false ->
  (snd (handle_initial_connection s p) = false <-> len (non_reserved_connected_peers s) < max).
Proof.
  intros H Hp Hc.
  destruct (Nat.eq_dec 0 0) as [_|]; [|lia].
  assert (E : reserved_peers s = reserved /\ max_non_reserved_peers s = max).
  { clear Hp Hc. induction H as [|s o H [IH1 IH2]]; [split; reflexivity|].
    destruct o as [q|q|q|q d| |q d]; unfold st; cbn [step].
    - unfold handle_initial_connection.
      repeat match goal with |- context [if ?b then _ else _] => destruct b end; cbn; split; assumption.
    - unfold handle_peer_identified. destruct (is_reserved s q); cbn; split; assumption.
    - unfold handle_peer_disconnect.
      repeat match goal with |- context [if ?b then _ else _] => destruct b end; cbn; split; assumption.
    - unfold update_app_score. destruct (find_peer _ _); cbn; split; assumption.
    - cbn. split; assumption.
    - cbn. split; assumption. }
  destruct E as [E1 E2]. rewrite <- E1 in Hp.
  destruct (connect_new_non_reserved s p Hp Hc) as [A _]. now rewrite E2 in A.
Qed.
