(* Whole histories: the model passes the specification replay (refinement), and what a
   passed replay means (announcements = successful imports, consecutive heights, each
   announcement right after the commit of its block). *)
From FC Require Import Importer.Model Importer.ProofsBase Importer.ProofsCall.
From Coq Require Import ZifyBool ZifyN ZifyNat.
Open Scope N_scope.

(* ---------------- one guarded call ---------------- *)

Lemma busy_rejects_all : forall st c, busy st = true -> run_call st c = (st, RSemaphore, []).
Proof. intros st c H. unfold run_call, lock. rewrite H. reflexivity. Qed.

Lemma set_busy_back : forall st, busy st = false -> set_busy (set_busy st true) false = st.
Proof. intros [d b h c] H. cbn in H. subst b. reflexivity. Qed.

Lemma run_call_spec : forall st c, wf_call c -> busy st = false -> call_spec st c (run_call st c).
Proof.
  intros st c Hwf Hb. unfold run_call, lock. rewrite Hb.
  pose proof (body_spec (set_busy st true) c Hwf) as H. unfold call_spec in *.
  destruct (body (set_busy st true) c) as [[st2 r] ev].
  change (obs_of (set_busy st true)) with (obs_of st) in H.
  change (cap (set_busy st true)) with (cap st) in H.
  destruct H as [H1 [H2 H3]]. split; [exact H1|]. split.
  - intro Hr. destruct (H2 Hr) as [Ha [Ho [He [Hbb Hc]]]].
    change (obs_of (set_busy st2 false)) with (obs_of st2).
    repeat split; try assumption. cbn. symmetry. exact Hb.
  - intro Hr. destruct (H3 Hr) as [Ha [Hs Hp]]. subst st2.
    split; [exact Ha|]. split; [apply set_busy_back; exact Hb | exact Hp].
Qed.

Lemma run_call_keeps : forall st c, wf_call c -> busy st = false ->
  busy (fst (fst (run_call st c))) = false /\ cap (fst (fst (run_call st c))) = cap st.
Proof.
  intros st c Hwf Hb. pose proof (run_call_spec st c Hwf Hb) as H. unfold call_spec in H.
  destruct (run_call st c) as [[st' r] ev]. cbn [fst]. destruct H as [_ [H2 H3]].
  destruct r; try (destruct (H3 ltac:(discriminate)) as [_ [-> _]]; split; [exact Hb | reflexivity]).
  destruct (H2 eq_refl) as [_ [_ [_ [Hbb Hc]]]]. split; congruence.
Qed.

(* ---------------- the model passes the replay ---------------- *)

Lemma phase_okb_of_spec : forall cp o c r o' ev,
  r <> RInFlight ->
  (r = ROk -> call_okb cp o c = true /\ o' = after o c /\ ev = ok_events c) ->
  (r <> ROk -> call_okb cp o c = false /\ o' = o /\ forallb is_publish ev = true) ->
  phase_okb cp false o c {| p_res := Some r; p_db := o'; p_evs := ev |} = true.
Proof.
  intros cp o c r o' ev Hn Hok Herr. unfold phase_okb. cbn [p_res p_db p_evs].
  destruct r; try (destruct (Herr ltac:(discriminate)) as [-> [-> ->]];
                   rewrite dbobs_eqb_refl; reflexivity).
  - destruct (Hok eq_refl) as [-> [-> ->]]. rewrite dbobs_eqb_refl, events_eqb_refl. reflexivity.
  - exfalso. apply Hn. reflexivity.
Qed.

Definition rejected_phase (st : state) : phase :=
  {| p_res := Some RSemaphore; p_db := obs_of st; p_evs := [] |}.

(* while the guard is taken every call is rejected and nothing changes *)
Lemma run_calls_busy : forall cs st, busy st = true ->
  run_calls st cs = (st, map (fun _ => rejected_phase st) cs).
Proof.
  induction cs as [|c cs IH]; intros st Hb; [reflexivity|].
  cbn [run_calls map]. rewrite (busy_rejects_all st c Hb), (IH st Hb). reflexivity.
Qed.

Lemma rejected_okb_model : forall cp st cs,
  rejected_okb cp (obs_of st) cs (map (fun _ => rejected_phase st) cs) = true.
Proof.
  induction cs as [|c cs IH]; [reflexivity|]. cbn [map rejected_okb]. rewrite IH.
  unfold phase_okb, rejected_phase. cbn [p_res p_db p_evs is_nil]. rewrite dbobs_eqb_refl. reflexivity.
Qed.

Lemma split_last_app : forall {A} (xs : list A) x, split_last (xs ++ [x]) = Some (xs, x).
Proof.
  induction xs as [|y xs IH]; intro x; [reflexivity|]. cbn [app split_last].
  rewrite IH. destruct (xs ++ [x]) eqn:E; [destruct xs; discriminate | reflexivity].
Qed.

Lemma model_passes_from : forall ops st,
  Forall wf_op ops -> busy st = false ->
  trace_okb (cap st) (obs_of st) ops (run st ops) = true.
Proof.
  induction ops as [|o ops IH]; intros st Hwf Hb; [reflexivity|].
  inversion Hwf as [|? ? Hwo Hwr]; subst. cbn [run].
  destruct o as [c | a b | | a bs]; cbn [step wf_op] in *.
  - pose proof (run_call_spec st c Hwo Hb) as Hs.
    pose proof (run_call_keeps st c Hwo Hb) as [Hb' Hc'].
    unfold call_spec in Hs. destruct (run_call st c) as [[st' r] ev]. cbn [fst] in *.
    cbn [trace_okb]. cbn [p_db]. destruct Hs as [H1 [H2 H3]].
    rewrite phase_okb_of_spec.
    + cbn [andb]. rewrite <- Hc'. apply IH; assumption.
    + exact H1.
    + intro Hr. destruct (H2 Hr) as [? [? [? _]]]. auto.
    + intro Hr. destruct (H3 Hr) as [? [-> ?]]. auto.
  - destruct Hwo as [Hwa Hwb]. unfold lock. rewrite Hb.
    rewrite (busy_rejects_all (set_busy st true) b eq_refl).
    pose proof (body_spec (set_busy st true) a Hwa) as Hs. unfold call_spec in Hs.
    destruct (body (set_busy st true) a) as [[st3 ra] eva].
    change (obs_of (set_busy st true)) with (obs_of st) in *.
    change (cap (set_busy st true)) with (cap st) in *.
    cbn [trace_okb p_db].
    change (obs_of (set_busy st3 false)) with (obs_of st3).
    destruct Hs as [H1 [H2 H3]].
    assert (Hpb : phase_okb (cap st) true (obs_of st) b
              {| p_res := Some RSemaphore; p_db := obs_of st; p_evs := [] |} = true).
    { unfold phase_okb. cbn [p_res p_db p_evs is_nil]. rewrite dbobs_eqb_refl. reflexivity. }
    rewrite Hpb. cbn [andb].
    rewrite phase_okb_of_spec.
    + cbn [andb].
      assert (Hk : busy (set_busy st3 false) = false /\ cap (set_busy st3 false) = cap st
                   /\ obs_of (set_busy st3 false) = obs_of st3).
      { repeat split. cbn [cap set_busy].
        destruct ra; try (destruct (H3 ltac:(discriminate)) as [_ [-> _]]; reflexivity).
        destruct (H2 eq_refl) as [_ [_ [_ [_ Hc]]]]. exact Hc. }
      destruct Hk as [Hk1 [Hk2 Hk3]]. rewrite <- Hk2, <- Hk3. apply IH; assumption.
    + exact H1.
    + intro Hr. destruct (H2 Hr) as [? [? [? _]]]. auto.
    + intro Hr. destruct (H3 Hr) as [? [-> ?]]. auto.
  - cbn [trace_okb p_res p_db p_evs is_nil].
    change (obs_of (set_held st 0)) with (with_held (obs_of st) 0).
    rewrite dbobs_eqb_refl. cbn [andb].
    change (with_held (obs_of st) 0) with (obs_of (set_held st 0)).
    change (cap st) with (cap (set_held st 0)). apply IH; assumption.
  - (* a call parked on back-pressure *)
    destruct Hwo as [Hwa Hwbs]. rewrite Hb. cbn [negb andb].
    rewrite (parks_spec st a Hwa).
    destruct (parksb (cap st) (obs_of st) a) eqn:Ep.
    + rewrite (run_calls_busy bs (set_busy st true) eq_refl).
      pose proof (body_spec (set_held (set_busy st true) 0) a Hwa) as Hs. unfold call_spec in Hs.
      destruct (body (set_held (set_busy st true) 0) a) as [[st4 ra] eva].
      change (obs_of (set_held (set_busy st true) 0)) with (with_held (obs_of st) 0) in *.
      change (cap (set_held (set_busy st true) 0)) with (cap st) in *.
      cbn [trace_okb]. rewrite split_last_app, Ep.
      change (rejected_phase (set_busy st true)) with (rejected_phase st).
      rewrite rejected_okb_model. cbn [andb p_db].
      change (obs_of (set_busy st4 false)) with (obs_of st4).
      destruct Hs as [H1 [H2 H3]].
      rewrite phase_okb_of_spec.
      * cbn [andb].
        assert (Hk : busy (set_busy st4 false) = false /\ cap (set_busy st4 false) = cap st
                     /\ obs_of (set_busy st4 false) = obs_of st4).
        { repeat split. cbn [cap set_busy].
          destruct ra; try (destruct (H3 ltac:(discriminate)) as [_ [-> _]]; reflexivity).
          destruct (H2 eq_refl) as [_ [_ [_ [_ Hc]]]]. exact Hc. }
        destruct Hk as [Hk1 [Hk2 Hk3]]. rewrite <- Hk2, <- Hk3. apply IH; assumption.
      * exact H1.
      * intro Hr. destruct (H2 Hr) as [? [? [? _]]]. auto.
      * intro Hr. destruct (H3 Hr) as [? [-> ?]]. auto.
    + pose proof (run_call_spec st a Hwa Hb) as Hs.
      pose proof (run_call_keeps st a Hwa Hb) as [Hb' Hc'].
      unfold call_spec in Hs. destruct (run_call st a) as [[st1 ra] eva]. cbn [fst] in *.
      cbn [trace_okb split_last]. rewrite Ep. cbn [p_res p_db p_evs is_nil].
      destruct Hs as [H1 [H2 H3]].
      rewrite phase_okb_of_spec.
      * change (obs_of (set_held st1 0)) with (with_held (obs_of st1) 0).
        rewrite dbobs_eqb_refl. cbn [andb].
        change (with_held (obs_of st1) 0) with (obs_of (set_held st1 0)).
        rewrite <- Hc'. change (cap st1) with (cap (set_held st1 0)). apply IH; assumption.
      * exact H1.
      * intro Hr. destruct (H2 Hr) as [? [? [? _]]]. auto.
      * intro Hr. destruct (H3 Hr) as [? [-> ?]]. auto.
Qed.

Lemma model_passes_all : forall cp pre_cons pre_txs ops,
  Forall wf_op ops ->
  trace_okb cp (obs_of (init cp pre_cons pre_txs)) ops (run (init cp pre_cons pre_txs) ops) = true.
Proof.
  intros. exact (model_passes_from ops (init cp pre_cons pre_txs) H eq_refl).
Qed.

(* ---------------- what a passed replay means ---------------- *)

Fixpoint calls_of (ops : list op) (obs : list (list phase)) : list (call * phase) :=
  match ops, obs with
  | OCall c :: ops', [p] :: obs' => (c, p) :: calls_of ops' obs'
  | OConc a b :: ops', [pb; pa] :: obs' => (b, pb) :: (a, pa) :: calls_of ops' obs'
  | ORelease :: ops', _ :: obs' => calls_of ops' obs'
  | OPark a bs :: ops', ps :: obs' =>
      match split_last ps with
      | Some (pre, lst) =>
          match p_res lst with
          | Some _ => combine bs pre ++ [(a, lst)]        (* rejected calls; the parked call *)
          | None => match pre with [pa] => [(a, pa)] | _ => [] end   (* the call; the release *)
          end
      | None => []
      end ++ calls_of ops' obs'
  | _, _ => []
  end.

Definition success_of (cp : call * phase) : list N :=
  match p_res (snd cp) with Some ROk => [bh (call_block (fst cp))] | _ => [] end.
Definition successes (cs : list (call * phase)) : list N := flat_map success_of cs.

Definition all_events (obs : list (list phase)) : list event := flat_map (flat_map p_evs) obs.
Definition announce_of (e : event) : list N :=
  match e with EAnnounce h _ _ => [h] | _ => [] end.
Definition announced (evs : list event) : list N := flat_map announce_of evs.

(* heights are consecutive; the first one follows [prev] if there is one *)
Fixpoint chain (prev : option N) (l : list N) : Prop :=
  match l with
  | [] => True
  | h :: r => match prev with Some p => h = p + 1 | None => True end /\ chain (Some h) r
  end.

(* the event log is a sequence of write-port calls and (commit of one block row; announcement
   of that block, found readable) pairs *)
Fixpoint shape_okb (evs : list event) : bool :=
  match evs with
  | [] => true
  | EPublish _ :: r => shape_okb r
  | ECommit [h] :: EAnnounce h' _ true :: r => (h =? h') && shape_okb r
  | _ => false
  end.

Lemma phase_facts : forall cp o c p, phase_okb cp false o c p = true ->
  (p_res p = Some ROk /\ call_okb cp o c = true /\ p_db p = after o c /\ p_evs p = ok_events c) \/
  (exists r, p_res p = Some r /\ r <> ROk /\ r <> RInFlight /\ call_okb cp o c = false /\
             p_db p = o /\ forallb is_publish (p_evs p) = true).
Proof.
  intros cp o c [pr pd pe]. unfold phase_okb. cbn [p_res p_db p_evs].
  destruct pr as [r|]; [|discriminate].
  destruct r; intro H; try discriminate;
    try (right; eexists; apply Bool.andb_true_iff in H; destruct H as [H Hp];
         apply Bool.andb_true_iff in H; destruct H as [Hc Hd];
         apply Bool.negb_true_iff in Hc; apply dbobs_eqb_eq in Hd;
         repeat split; [discriminate | discriminate | exact Hc | exact Hd | exact Hp]).
  left. apply Bool.andb_true_iff in H. destruct H as [H He].
  apply Bool.andb_true_iff in H. destruct H as [Hc Hd].
  apply dbobs_eqb_eq in Hd. apply events_eqb_eq in He. repeat split; assumption.
Qed.

Lemma phase_facts_busy : forall cp o c p, phase_okb cp true o c p = true ->
  p_res p = Some RSemaphore /\ p_db p = o /\ p_evs p = [].
Proof.
  intros cp o c [pr pd pe]. unfold phase_okb. cbn [p_res p_db p_evs].
  destruct pr as [r|]; [|discriminate].
  destruct r; intro H; try discriminate.
  apply Bool.andb_true_iff in H. destruct H as [H Hn]. apply dbobs_eqb_eq in H.
  destruct pe; [|discriminate]. repeat split. exact H.
Qed.

Lemma announced_app : forall a b, announced (a ++ b) = announced a ++ announced b.
Proof. intros. unfold announced. apply flat_map_app. Qed.

Lemma announced_publish : forall evs, forallb is_publish evs = true -> announced evs = [].
Proof.
  induction evs as [|e r IH]; [reflexivity|]. cbn [forallb]. intro H.
  apply Bool.andb_true_iff in H. destruct H as [He Hr]. destruct e; try discriminate.
  cbn. apply IH. exact Hr.
Qed.

Lemma announced_ok_events : forall c, announced (ok_events c) = [bh (call_block c)].
Proof. intro c. unfold ok_events. destruct (call_local c); reflexivity. Qed.

Lemma shape_publish_app : forall evs r, forallb is_publish evs = true ->
  shape_okb (evs ++ r) = shape_okb r.
Proof.
  induction evs as [|e evs IH]; intros r H; [reflexivity|]. cbn [forallb] in H.
  apply Bool.andb_true_iff in H. destruct H as [He Hr]. destruct e; try discriminate.
  cbn [app shape_okb]. apply IH. exact Hr.
Qed.

Lemma shape_ok_events_app : forall c r, shape_okb (ok_events c ++ r) = shape_okb r.
Proof.
  intros c r. unfold ok_events. destruct (call_local c); cbn [app shape_okb];
    rewrite N.eqb_refl; reflexivity.
Qed.

Lemma next_height_chain : forall cp o c rest,
  call_okb cp o c = true -> chain (Some (bh (call_block c))) rest ->
  chain (o_latest o) (bh (call_block c) :: rest).
Proof.
  intros cp o c rest H Hc. cbn [chain]. split; [|exact Hc].
  unfold call_okb in H. apply Bool.andb_true_iff in H. destruct H as [H _].
  apply Bool.andb_true_iff in H. destruct H as [H _].
  apply Bool.andb_true_iff in H. destruct H as [_ H]. unfold next_heightb in H.
  destruct (o_latest o) as [l|]; [|exact Logic.I].
  destruct (bcons (call_block c)); [discriminate|]. lia.
Qed.

Lemma one_phase : forall cp o c p rest_succ rest_evs,
  phase_okb cp false o c p = true ->
  announced rest_evs = rest_succ -> chain (o_latest (p_db p)) rest_succ -> shape_okb rest_evs = true ->
  announced (p_evs p ++ rest_evs) = success_of (c, p) ++ rest_succ /\
  chain (o_latest o) (success_of (c, p) ++ rest_succ) /\
  shape_okb (p_evs p ++ rest_evs) = true.
Proof.
  intros cp o c p rs re Hp IA IC IS. rewrite announced_app.
  destruct (phase_facts _ _ _ _ Hp) as [[Hr [Hok [Hd He]]] | [r [Hr [Hn [_ [Hok [Hd He]]]]]]].
  - unfold success_of. cbn [fst snd]. rewrite Hr, He, announced_ok_events, IA.
    rewrite Hd in IC. cbn [after o_latest] in IC.
    split; [reflexivity|]. split.
    + cbn [app]. eapply next_height_chain; eassumption.
    + rewrite shape_ok_events_app. exact IS.
  - unfold success_of. cbn [fst snd]. rewrite Hr.
    replace (match r with ROk => [bh (call_block c)] | _ => [] end) with (@nil N)
      by (destruct r; try reflexivity; contradiction).
    rewrite (announced_publish _ He), IA. rewrite Hd in IC.
    split; [reflexivity|]. split; [exact IC|].
    rewrite shape_publish_app; assumption.
Qed.

Lemma split_last_some : forall {A} (l : list A) pre x, split_last l = Some (pre, x) -> l = pre ++ [x].
Proof.
  induction l as [|y l IH]; intros pre x H; [discriminate|]. cbn [split_last] in H.
  destruct l as [|z l'].
  - injection H as <- <-. reflexivity.
  - destruct (split_last (z :: l')) as [[pre' x']|] eqn:E; [|discriminate].
    injection H as <- <-. rewrite (IH pre' x' eq_refl). reflexivity.
Qed.

Lemma rejected_facts : forall cp o bs pre, rejected_okb cp o bs pre = true ->
  flat_map p_evs pre = [] /\ successes (combine bs pre) = [] /\
  Forall (fun p => p_res p = Some RSemaphore /\ p_db p = o) pre.
Proof.
  induction bs as [|b bs IH]; intros pre H; destruct pre as [|p pre]; try discriminate.
  - repeat split. constructor.
  - cbn [rejected_okb] in H. apply Bool.andb_true_iff in H. destruct H as [Hp Hr].
    destruct (phase_facts_busy _ _ _ _ Hp) as [H1 [H2 H3]]. destruct (IH _ Hr) as [I1 [I2 I3]].
    cbn [flat_map combine successes]. rewrite H3, I1. unfold success_of at 1. cbn [fst snd]. rewrite H1.
    fold (successes (combine bs pre)). rewrite I2. repeat split. constructor; [split; assumption | exact I3].
Qed.

Lemma replay_meaning_all : forall cp ops o obs,
  trace_okb cp o ops obs = true ->
  announced (all_events obs) = successes (calls_of ops obs) /\
  chain (o_latest o) (successes (calls_of ops obs)) /\
  shape_okb (all_events obs) = true.
Proof.
  intros cp. induction ops as [|op ops IH]; intros o obs H.
  - destruct obs; [|discriminate]. repeat split.
  - destruct op as [c | a b | | a bs]; cbn [trace_okb] in H.
    4:{ (* a call parked on back-pressure *)
      destruct obs as [|ps obs]; [discriminate|].
      destruct (split_last ps) as [[pre lst]|] eqn:Esl; [|discriminate].
      pose proof (split_last_some _ _ _ Esl) as Hps. subst ps.
      cbn [calls_of all_events flat_map]. rewrite Esl. fold (all_events obs).
      rewrite flat_map_app. cbn [flat_map]. rewrite app_nil_r.
      destruct (parksb cp o a).
      - apply Bool.andb_true_iff in H. destruct H as [H Ht].
        apply Bool.andb_true_iff in H. destruct H as [Hrej Hpa].
        specialize (IH _ _ Ht). destruct IH as [IA [IC IS]].
        destruct (rejected_facts _ _ _ _ Hrej) as [Hev [Hsu _]].
        rewrite Hev. cbn [app].
        assert (Hres : exists r, p_res lst = Some r).
        { destruct (phase_facts _ _ _ _ Hpa) as [[Hr _] | [r [Hr _]]]; eexists; exact Hr. }
        destruct Hres as [r Hres]. rewrite Hres.
        unfold successes. rewrite !flat_map_app. fold (successes (combine bs pre)).
        fold (successes (calls_of ops obs)). rewrite Hsu. cbn [app flat_map]. rewrite app_nil_r.
        pose proof (one_phase cp (with_held o 0) a lst _ _ Hpa IA IC IS) as H1.
        exact H1.
      - destruct pre as [|pa [|? ?]]; try discriminate.
        apply Bool.andb_true_iff in H. destruct H as [H Ht].
        apply Bool.andb_true_iff in H. destruct H as [H Hnil].
        apply Bool.andb_true_iff in H. destruct H as [H Hdb].
        apply Bool.andb_true_iff in H. destruct H as [Hpa Hnone].
        apply dbobs_eqb_eq in Hdb.
        specialize (IH _ _ Ht). destruct IH as [IA [IC IS]].
        destruct (p_res lst) eqn:Eres; [discriminate|].
        destruct (p_evs lst); [|discriminate]. cbn [flat_map app]. rewrite app_nil_r.
        unfold successes. cbn [app flat_map]. fold (successes (calls_of ops obs)).
        rewrite Hdb in IC. cbn [with_held o_latest] in IC.
        pose proof (one_phase cp o a pa _ _ Hpa IA IC IS) as H1. rewrite app_nil_r.
        exact H1. }
    + destruct obs as [|[|p [|? ?]] obs]; try discriminate.
      apply Bool.andb_true_iff in H. destruct H as [Hp Ht].
      specialize (IH _ _ Ht). destruct IH as [IA [IC IS]].
      cbn [calls_of all_events flat_map successes]. fold (all_events obs).
      fold (successes (calls_of ops obs)). rewrite app_nil_r, announced_app.
      destruct (phase_facts _ _ _ _ Hp) as [[Hr [Hok [Hd He]]] | [r [Hr [Hn [_ [Hok [Hd He]]]]]]].
      * unfold success_of. cbn [fst snd]. rewrite Hr, He, announced_ok_events, IA.
        rewrite Hd in IC. cbn [after o_latest] in IC.
        split; [reflexivity|]. split.
        -- cbn [app]. eapply next_height_chain; eassumption.
        -- rewrite shape_ok_events_app. exact IS.
      * unfold success_of. cbn [fst snd]. rewrite Hr.
        replace (match r with ROk => [bh (call_block c)] | _ => [] end) with (@nil N)
          by (destruct r; try reflexivity; contradiction).
        rewrite (announced_publish _ He), IA. rewrite Hd in IC.
        split; [reflexivity|]. split; [exact IC|].
        rewrite shape_publish_app; assumption.
    + destruct obs as [|[|pb [|pa [|? ?]]] obs]; try discriminate.
      apply Bool.andb_true_iff in H. destruct H as [H Ht].
      apply Bool.andb_true_iff in H. destruct H as [Hpb Hpa].
      specialize (IH _ _ Ht). destruct IH as [IA [IC IS]].
      destruct (phase_facts_busy _ _ _ _ Hpb) as [Hrb [Hdb Heb]].
      cbn [calls_of all_events flat_map successes]. fold (all_events obs).
      fold (successes (calls_of ops obs)).
      rewrite Heb, app_nil_r. cbn [app]. rewrite announced_app.
      unfold success_of. cbn [fst snd]. rewrite Hrb. cbn [app].
      destruct (phase_facts _ _ _ _ Hpa) as [[Hr [Hok [Hd He]]] | [r [Hr [Hn [_ [Hok [Hd He]]]]]]].
      * unfold success_of. cbn [fst snd]. rewrite Hr, He, announced_ok_events, IA.
        rewrite Hd in IC. cbn [after o_latest] in IC.
        split; [reflexivity|]. split.
        -- cbn [app]. eapply next_height_chain; eassumption.
        -- rewrite shape_ok_events_app. exact IS.
      * unfold success_of. cbn [fst snd]. rewrite Hr.
        replace (match r with ROk => [bh (call_block a)] | _ => [] end) with (@nil N)
          by (destruct r; try reflexivity; contradiction).
        rewrite (announced_publish _ He), IA. rewrite Hd in IC.
        split; [reflexivity|]. split; [exact IC|].
        rewrite shape_publish_app; assumption.
    + destruct obs as [|[|p [|? ?]] obs]; try discriminate.
      apply Bool.andb_true_iff in H. destruct H as [H Ht].
      apply Bool.andb_true_iff in H. destruct H as [H Hn].
      apply Bool.andb_true_iff in H. destruct H as [_ Hd].
      apply dbobs_eqb_eq in Hd.
      specialize (IH _ _ Ht). destruct IH as [IA [IC IS]].
      cbn [calls_of all_events flat_map]. fold (all_events obs).
      destruct (p_evs p); [|discriminate]. cbn [app].
      rewrite Hd in IC. cbn [with_held o_latest] in IC. repeat split; assumption.
Qed.

Lemma chain_none_consecutive : forall l, chain None l ->
  forall i a b, nth_error l i = Some a -> nth_error l (S i) = Some b -> b = a + 1.
Proof.
  assert (G : forall l prev, chain prev l ->
            forall i a b, nth_error l i = Some a -> nth_error l (S i) = Some b -> b = a + 1).
  { induction l as [|h r IH]; intros prev Hc i a b Ha Hb.
    - destruct i; discriminate.
    - cbn [chain] in Hc. destruct Hc as [_ Hc]. destruct i as [|i].
      + cbn in Ha. injection Ha as ->. destruct r as [|h2 r]; [discriminate|].
        cbn in Hb. injection Hb as ->. cbn [chain] in Hc. destruct Hc as [Hc _]. exact Hc.
      + cbn [nth_error] in Ha. exact (IH _ Hc i a b Ha Hb). }
  intros l Hc. exact (G l None Hc).
Qed.
