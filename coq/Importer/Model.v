(* Executable model of the block importer:
     crates/services/importer/src/importer.rs   (Importer::commit_result, execute_and_commit,
        ImporterInner::commit_result / _commit_result / prepare_import_result /
        verify_and_execute_block_inner, create_block_changes, Importer::lock)
     crates/services/importer/src/ports.rs      (DatabaseTransaction::store_new_block)
   The database is abstracted to the key sets of the tables the importer writes
   (FuelBlocks, SealedBlockConsensus, Transactions), the Latest row of the block Merkle
   metadata (a marker that changes exactly when a FuelBlocks row is inserted) and the rows
   written by the execution change set (marker rows).  Verifier, executor, reconciliation
   write port and the storage commit are scripted outcomes carried by the request.
   No proofs in this file. *)
From FC Require Export Common.T.
Open Scope N_scope.

(* ------------------------------------------------------------------ *)
(* key sets: sorted duplicate-free lists (tables are ordered by key)   *)

Fixpoint mem (x : N) (l : list N) : bool :=
  match l with [] => false | y :: r => (x =? y) || mem x r end.

Fixpoint insert (x : N) (l : list N) : list N :=
  match l with
  | [] => [x]
  | y :: r => if x <? y then x :: l else if x =? y then l else y :: insert x r
  end.

Definition insert_all (xs : list N) (l : list N) : list N :=
  fold_left (fun acc x => insert x acc) xs l.

(* the last key in key order (reverse iteration, first item) *)
Fixpoint max_list (l : list N) : option N :=
  match l with
  | [] => None
  | x :: r => match max_list r with None => Some x | Some m => Some (N.max x m) end
  end.

(* ------------------------------------------------------------------ *)
(* blocks, database, change sets                                       *)

Inductive consensus := CGenesis | CPoA.
Record block := { bh : N; bcons : consensus; btxs : list N }.

Record db := {
  blocks : list N;     (* heights with a FuelBlocks row *)
  cons : list N;       (* heights with a SealedBlockConsensus row *)
  txs : list N;        (* ids with a Transactions row *)
  root : N;            (* FuelBlockMerkleMetadata[Latest]: 0 = no row, n = n-th value it took *)
  marks : list N       (* rows written by execution change sets *)
}.

Record changes := {
  c_blocks : list N; c_cons : list N; c_txs : list N;
  c_root : option N;   (* Some r = the change set writes the Latest row *)
  c_marks : list N
}.

Definition apply_changes (d : db) (c : changes) : db :=
  {| blocks := insert_all (c_blocks c) (blocks d);
     cons := insert_all (c_cons c) (cons d);
     txs := insert_all (c_txs c) (txs d);
     root := match c_root c with Some r => r | None => root d end;
     marks := insert_all (c_marks c) (marks d) |}.

Definition latest_block_height (d : db) : option N := max_list (blocks d).
Definition latest_block_root (d : db) : option N :=
  if root d =? 0 then None else Some (root d).

Definition optN_eqb (a b : option N) : bool :=
  match a, b with
  | None, None => true
  | Some x, Some y => x =? y
  | _, _ => false
  end.

(* ------------------------------------------------------------------ *)
(* results (Error variants of error.rs that the modelled paths produce) *)

Inductive res :=
| ROk
| RSemaphore
| RInvalidGenesisState           (* InvalidUnderlyingDatabaseGenesisState *)
| RInvalidDbStateAfterExec       (* InvalidDatabaseStateAfterExecution *)
| ROverflow
| RZeroNonGenericHeight
| RIncorrectBlockHeight (expected actual : N)
| RFailedVerification
| RFailedExecution
| RExecuteGenesis
| RNotUnique (h : N)
| RPrevNotFinished               (* PreviousBlockProcessingNotFinished *)
| RFailedReconWrite              (* FailedBlockReconciliationWrite *)
| RStorageNotFound               (* Storage(NotFound) *)
| RStorageOther                  (* Storage(other) *)
| ROther (tag : N)               (* variants no modelled path produces (observed only) *)
| RInFlight.                     (* observation only: the call did not return *)

(* ------------------------------------------------------------------ *)
(* ports.rs: store_new_block on a transaction over [d] with no changes yet *)

(* Transactions.replace for every transaction in order; found = some id was present *)
Fixpoint store_txs (view : list N) (ts : list N) : list N * bool :=
  match ts with
  | [] => (view, false)
  | t :: r => let '(v', f) := store_txs (insert t view) r in (v', mem t view || f)
  end.

(* None = storage error: the Merklized FuelBlocks table refuses to replace a stored key.
   Some (changes, is_new) *)
Definition store_new_block (d : db) (b : block) : option (changes * bool) :=
  if mem (bh b) (blocks d) then None
  else
    let found_c := mem (bh b) (cons d) in
    let found_t := snd (store_txs (txs d) (btxs b)) in
    Some ({| c_blocks := [bh b]; c_cons := [bh b]; c_txs := btxs b;
             c_root := Some (root d + 1); c_marks := [] |},
          negb (found_c || found_t)).

(* importer.rs: create_block_changes *)
Definition create_block_changes (d : db) (b : block) : res + changes :=
  let expected :=
    match bcons b with
    | CGenesis =>
        match latest_block_height d with
        | Some _ => inl RInvalidGenesisState
        | None => inr (bh b)
        end
    | CPoA =>
        if bh b =? 0 then inl RZeroNonGenericHeight
        else match latest_block_height d with
             | None => inl RStorageNotFound
             | Some l => match checked_add u32max l 1 with
                         | None => inl ROverflow
                         | Some n => inr n
                         end
             end
    end in
  match expected with
  | inl e => inl e
  | inr exp =>
      if negb (exp =? bh b) then inl (RIncorrectBlockHeight exp (bh b))
      else match store_new_block d b with
           | None => inl RStorageOther
           | Some (c, true) => inr c
           | Some (_, false) => inl (RNotUnique (bh b))
           end
  end.

(* the change set of an execution: one marker row; mroot <> 0: it also writes the Latest row
   of the block Merkle metadata with a value different from the current one *)
Definition exec_changes (d : db) (mroot mark : N) : changes :=
  {| c_blocks := []; c_cons := []; c_txs := [];
     c_root := if mroot =? 0 then None else Some (root d + 2);
     c_marks := [mark] |}.

(* ------------------------------------------------------------------ *)
(* importer state, events                                              *)

Inductive event :=
| EPublish (h : N)                          (* reconciliation write port called *)
| ECommit (hs : list N)                     (* storage commit; FuelBlocks rows it inserts *)
| EAnnounce (h : N) (local present : bool). (* broadcast received; block row readable then *)

Record state := {
  sdb : db;
  busy : bool;      (* guard semaphore taken *)
  held : N;         (* announced results not yet released by the subscriber *)
  cap : N           (* max_block_notify_buffer *)
}.

Definition set_db (st : state) (d : db) (h : N) : state :=
  {| sdb := d; busy := busy st; held := h; cap := cap st |}.
Definition set_busy (st : state) (b : bool) : state :=
  {| sdb := sdb st; busy := b; held := held st; cap := cap st |}.
Definition set_held (st : state) (h : N) : state :=
  {| sdb := sdb st; busy := busy st; held := h; cap := cap st |}.

(* importer.rs: _commit_result *)
Definition commit_result_inner (st : state) (b : block) (local : bool) (ch bc : changes)
           (wp_ok dbc_ok : bool) : state * res * list event :=
  let d := sdb st in
  let expected_block_root := latest_block_root d in
  let actual_block_root := latest_block_root (apply_changes d ch) in
  if negb (optN_eqb actual_block_root expected_block_root)
  then (st, RInvalidDbStateAfterExec, [])
  else
    let ev1 := if local then [EPublish (bh b)] else [] in
    if local && negb wp_ok then (st, RFailedReconWrite, ev1)
    else if negb dbc_ok then (st, RStorageOther, ev1)
    else
      let d' := apply_changes (apply_changes d bc) ch in
      (set_db st d' (held st + 1), ROk,
       ev1 ++ [ECommit (c_blocks bc ++ c_blocks ch);
               EAnnounce (bh b) local (mem (bh b) (blocks d'))]).

(* the back-pressure semaphore: a permit is free iff fewer than cap results are held *)
Definition acquire (st : state) : bool := held st <? cap st.

Inductive call :=
| Commit (b : block) (local : bool) (mroot mark : N) (wp_ok dbc_ok : bool)
| Exec (b : block) (verify_ok : bool) (exec : option (N * N)) (dbc_ok : bool).

Definition call_block (c : call) : block :=
  match c with Commit b _ _ _ _ _ => b | Exec b _ _ _ => b end.

(* Importer::commit_result after the guard is taken *)
Definition do_commit_result (st : state) (b : block) (local : bool) (mroot mark : N)
           (wp_ok dbc_ok : bool) : state * res * list event :=
  if negb (acquire st) then (st, RPrevNotFinished, [])
  else match create_block_changes (sdb st) b with
       | inl e => (st, e, [])
       | inr bc => commit_result_inner st b local (exec_changes (sdb st) mroot mark) bc wp_ok dbc_ok
       end.

(* importer.rs: verify_and_execute_block_inner *)
Definition verify_and_execute (b : block) (verify_ok : bool) (exec : option (N * N))
  : res + (N * N) :=
  if negb verify_ok then inl RFailedVerification
  else match bcons b with
       | CGenesis => inl RExecuteGenesis
       | CPoA => match exec with None => inl RFailedExecution | Some c => inr c end
       end.

(* Importer::execute_and_commit after the guard is taken: prepare_import_result runs
   create_block_changes and the execution side by side and looks at the execution result first *)
Definition do_execute_and_commit (st : state) (b : block) (verify_ok : bool)
           (exec : option (N * N)) (dbc_ok : bool) : state * res * list event :=
  let block_changes_result := create_block_changes (sdb st) b in
  match verify_and_execute b verify_ok exec with
  | inl e => (st, e, [])
  | inr (mroot, mark) =>
      match block_changes_result with
      | inl e => (st, e, [])
      | inr bc =>
          if negb (acquire st) then (st, RPrevNotFinished, [])
          else commit_result_inner st b false (exec_changes (sdb st) mroot mark) bc true dbc_ok
      end
  end.

Definition body (st : state) (c : call) : state * res * list event :=
  match c with
  | Commit b local mroot mark wp_ok dbc_ok => do_commit_result st b local mroot mark wp_ok dbc_ok
  | Exec b verify_ok exec dbc_ok => do_execute_and_commit st b verify_ok exec dbc_ok
  end.

(* Importer::lock = guard.try_acquire *)
Definition lock (st : state) : option state :=
  if busy st then None else Some (set_busy st true).

Definition run_call (st : state) (c : call) : state * res * list event :=
  match lock st with
  | None => (st, RSemaphore, [])
  | Some st1 => let '(st2, r, ev) := body st1 c in (set_busy st2 false, r, ev)
  end.

(* ------------------------------------------------------------------ *)
(* observations                                                        *)

Record dbobs := {
  o_latest : option N; o_blocks : list N; o_cons : list N; o_txs : list N;
  o_root : option N; o_marks : list N; o_held : N
}.

Definition obs_of (st : state) : dbobs :=
  {| o_latest := latest_block_height (sdb st); o_blocks := blocks (sdb st);
     o_cons := cons (sdb st); o_txs := txs (sdb st);
     o_root := latest_block_root (sdb st); o_marks := marks (sdb st); o_held := held st |}.

Record phase := { p_res : option res; p_db : dbobs; p_evs : list event }.

Inductive op :=
| OCall (c : call)
| OConc (a b : call)
| ORelease
| OPark (a : call) (bs : list call).

(* the part of a call that runs before the back-pressure permit is awaited succeeds:
   commit_result waits for the permit first; execute_and_commit prepares (verification,
   execution, create_block_changes) first *)
Definition prepare_ok (st : state) (c : call) : bool :=
  match c with
  | Commit _ _ _ _ _ _ => true
  | Exec b verify_ok exec _ =>
      match verify_and_execute b verify_ok exec, create_block_changes (sdb st) b with
      | inr _, inr _ => true
      | _, _ => false
      end
  end.

(* the call parks on the back-pressure semaphore (no permit is free), holding the guard *)
Definition parks (st : state) (c : call) : bool := negb (acquire st) && prepare_ok st c.

(* calls made one after the other *)
Fixpoint run_calls (st : state) (cs : list call) : state * list phase :=
  match cs with
  | [] => (st, [])
  | c :: r =>
      let '(st1, res, ev) := run_call st c in
      let '(st2, ps) := run_calls st1 r in
      (st2, {| p_res := Some res; p_db := obs_of st1; p_evs := ev |} :: ps)
  end.

(* OConc a b: b is attempted while a holds the guard, then a runs to completion.
   OPark a bs: a parks on back-pressure (notification buffer full); the calls bs are attempted
   meanwhile; then the subscriber releases its results and a proceeds.  If a does not park it
   simply runs, bs are not attempted, and the subscriber releases afterwards. *)
Definition step (st : state) (o : op) : state * list phase :=
  match o with
  | OCall c =>
      let '(st', r, ev) := run_call st c in
      (st', [{| p_res := Some r; p_db := obs_of st'; p_evs := ev |}])
  | OConc a b =>
      match lock st with
      | None =>
          (st, [{| p_res := Some RSemaphore; p_db := obs_of st; p_evs := [] |};
                {| p_res := Some RSemaphore; p_db := obs_of st; p_evs := [] |}])
      | Some st1 =>
          let '(st2, rb, evb) := run_call st1 b in
          let '(st3, ra, eva) := body st2 a in
          let st4 := set_busy st3 false in
          (st4, [{| p_res := Some rb; p_db := obs_of st2; p_evs := evb |};
                 {| p_res := Some ra; p_db := obs_of st4; p_evs := eva |}])
      end
  | ORelease =>
      let st' := set_held st 0 in
      (st', [{| p_res := None; p_db := obs_of st'; p_evs := [] |}])
  | OPark a bs =>
      if negb (busy st) && parks st a then
        let st1 := set_busy st true in
        let '(st2, psb) := run_calls st1 bs in        (* the guard is taken: all rejected *)
        let st3 := set_held st2 0 in                  (* the subscriber releases *)
        let '(st4, ra, eva) := body st3 a in
        let st5 := set_busy st4 false in
        (st5, psb ++ [{| p_res := Some ra; p_db := obs_of st5; p_evs := eva |}])
      else
        let '(st1, ra, eva) := run_call st a in
        let st2 := set_held st1 0 in
        (st2, [{| p_res := Some ra; p_db := obs_of st1; p_evs := eva |};
               {| p_res := None; p_db := obs_of st2; p_evs := [] |}])
  end.

Fixpoint run (st : state) (ops : list op) : list (list phase) :=
  match ops with
  | [] => []
  | o :: r => let '(st', ph) := step st o in ph :: run st' r
  end.

Definition init (cp : N) (pre_cons pre_txs : list N) : state :=
  {| sdb := {| blocks := []; cons := insert_all pre_cons []; txs := insert_all pre_txs [];
               root := 0; marks := [] |};
     busy := false; held := 0; cap := cp |}.

(* ------------------------------------------------------------------ *)
(* the specification replayed by Pcheck: a next-height automaton over the observed
   database, knowing nothing about error variants or the order of the checks          *)

Fixpoint nodupb (l : list N) : bool :=
  match l with [] => true | x :: r => negb (mem x r) && nodupb r end.
Definition disjointb (ts stored : list N) : bool := forallb (fun t => negb (mem t stored)) ts.

Definition next_heightb (o : dbobs) (b : block) : bool :=
  match bcons b with
  | CGenesis => match o_latest o with None => true | Some _ => false end
  | CPoA => match o_latest o with Some l => bh b =? l + 1 | None => false end
  end.

Definition freshb (o : dbobs) (b : block) : bool :=
  negb (mem (bh b) (o_blocks o)) && negb (mem (bh b) (o_cons o)) &&
  nodupb (btxs b) && disjointb (btxs b) (o_txs o).

Definition ports_okb (c : call) : bool :=
  match c with
  | Commit _ local mroot _ wp_ok dbc_ok => (mroot =? 0) && (negb local || wp_ok) && dbc_ok
  | Exec b verify_ok exec dbc_ok =>
      verify_ok && match bcons b with CPoA => true | CGenesis => false end &&
      match exec with Some (m, _) => m =? 0 | None => false end && dbc_ok
  end.

Definition call_okb (cp : N) (o : dbobs) (c : call) : bool :=
  (o_held o <? cp) && next_heightb o (call_block c) && freshb o (call_block c) && ports_okb c.

Definition call_local (c : call) : bool :=
  match c with Commit _ local _ _ _ _ => local | Exec _ _ _ _ => false end.
Definition call_mark (c : call) : list N :=
  match c with
  | Commit _ _ _ mark _ _ => [mark]
  | Exec _ _ (Some (_, mark)) _ => [mark]
  | Exec _ _ None _ => []
  end.

Definition root_num (r : option N) : N := match r with None => 0 | Some n => n end.

(* the database after a successful import of the call's block *)
Definition after (o : dbobs) (c : call) : dbobs :=
  let b := call_block c in
  {| o_latest := Some (bh b);
     o_blocks := insert (bh b) (o_blocks o);
     o_cons := insert (bh b) (o_cons o);
     o_txs := insert_all (btxs b) (o_txs o);
     o_root := Some (root_num (o_root o) + 1);
     o_marks := insert_all (call_mark c) (o_marks o);
     o_held := o_held o + 1 |}.

Definition ok_events (c : call) : list event :=
  let h := bh (call_block c) in
  (if call_local c then [EPublish h] else []) ++ [ECommit [h]; EAnnounce h (call_local c) true].

Fixpoint listN_eqb (a b : list N) : bool :=
  match a, b with
  | [], [] => true
  | x :: a', y :: b' => (x =? y) && listN_eqb a' b'
  | _, _ => false
  end.

Definition dbobs_eqb (a b : dbobs) : bool :=
  optN_eqb (o_latest a) (o_latest b) && listN_eqb (o_blocks a) (o_blocks b) &&
  listN_eqb (o_cons a) (o_cons b) && listN_eqb (o_txs a) (o_txs b) &&
  optN_eqb (o_root a) (o_root b) && listN_eqb (o_marks a) (o_marks b) &&
  (o_held a =? o_held b).

Definition event_eqb (a b : event) : bool :=
  match a, b with
  | EPublish x, EPublish y => x =? y
  | ECommit x, ECommit y => listN_eqb x y
  | EAnnounce h l p, EAnnounce h' l' p' => (h =? h') && Bool.eqb l l' && Bool.eqb p p'
  | _, _ => false
  end.

Fixpoint events_eqb (a b : list event) : bool :=
  match a, b with
  | [], [] => true
  | x :: a', y :: b' => event_eqb x y && events_eqb a' b'
  | _, _ => false
  end.

Definition is_publish (e : event) : bool :=
  match e with EPublish _ => true | _ => false end.

Definition is_nil {A} (l : list A) : bool := match l with [] => true | _ => false end.

(* one call against the observed database [o]; [guard_taken] = another call is in flight *)
Definition phase_okb (cp : N) (guard_taken : bool) (o : dbobs) (c : call) (p : phase) : bool :=
  match p_res p with
  | None => false
  | Some r =>
      if guard_taken
      then match r with RSemaphore => true | _ => false end && dbobs_eqb (p_db p) o && is_nil (p_evs p)
      else match r with
           | ROk => call_okb cp o c && dbobs_eqb (p_db p) (after o c) && events_eqb (p_evs p) (ok_events c)
           | RInFlight => false
           | _ => negb (call_okb cp o c) && dbobs_eqb (p_db p) o && forallb is_publish (p_evs p)
           end
  end.

Definition with_held (o : dbobs) (h : N) : dbobs :=
  {| o_latest := o_latest o; o_blocks := o_blocks o; o_cons := o_cons o; o_txs := o_txs o;
     o_root := o_root o; o_marks := o_marks o; o_held := h |}.

(* preparation of the call succeeds on the observed database (no verifier / executor failure,
   next height, nothing stored for the block yet) *)
Definition prepare_okb (o : dbobs) (c : call) : bool :=
  match c with
  | Commit _ _ _ _ _ _ => true
  | Exec b verify_ok exec _ =>
      verify_ok && match bcons b with CPoA => true | CGenesis => false end &&
      match exec with Some _ => true | None => false end &&
      next_heightb o b && freshb o b
  end.
Definition parksb (cp : N) (o : dbobs) (c : call) : bool := negb (o_held o <? cp) && prepare_okb o c.

Fixpoint split_last {A} (l : list A) : option (list A * A) :=
  match l with
  | [] => None
  | [x] => Some ([], x)
  | x :: r => match split_last r with Some (pre, y) => Some (x :: pre, y) | None => None end
  end.

(* calls attempted while another call holds the guard: each rejected, nothing changes *)
Fixpoint rejected_okb (cp : N) (o : dbobs) (cs : list call) (ps : list phase) : bool :=
  match cs, ps with
  | [], [] => true
  | c :: cs', p :: ps' => phase_okb cp true o c p && rejected_okb cp o cs' ps'
  | _, _ => false
  end.

Fixpoint trace_okb (cp : N) (o : dbobs) (ops : list op) (obs : list (list phase)) : bool :=
  match ops, obs with
  | [], [] => true
  | OCall c :: ops', [p] :: obs' =>
      phase_okb cp false o c p && trace_okb cp (p_db p) ops' obs'
  | OConc a b :: ops', [pb; pa] :: obs' =>
      phase_okb cp true o b pb && phase_okb cp false o a pa && trace_okb cp (p_db pa) ops' obs'
  | ORelease :: ops', [p] :: obs' =>
      match p_res p with None => true | Some _ => false end &&
      dbobs_eqb (p_db p) (with_held o 0) && is_nil (p_evs p) && trace_okb cp (p_db p) ops' obs'
  | OPark a bs :: ops', ps :: obs' =>
      match split_last ps with
      | None => false
      | Some (pre, lst) =>
          if parksb cp o a
          then (* [rejected calls ..; the parked call after the release] *)
               rejected_okb cp o bs pre && phase_okb cp false (with_held o 0) a lst &&
               trace_okb cp (p_db lst) ops' obs'
          else (* [the call; the release] *)
               match pre with
               | [pa] =>
                   phase_okb cp false o a pa &&
                   match p_res lst with None => true | Some _ => false end &&
                   dbobs_eqb (p_db lst) (with_held (p_db pa) 0) && is_nil (p_evs lst) &&
                   trace_okb cp (p_db lst) ops' obs'
               | _ => false
               end
      end
  | _, _ => false
  end.

(* ------------------------------------------------------------------ *)
(* T codecs and entry point                                            *)

Definition res_T (r : res) : T :=
  match r with
  | ROk => L [I 0]
  | RSemaphore => L [I 1]
  | RInvalidGenesisState => L [I 2]
  | RInvalidDbStateAfterExec => L [I 3]
  | ROverflow => L [I 4]
  | RZeroNonGenericHeight => L [I 5]
  | RIncorrectBlockHeight e a => L [I 6; tN e; tN a]
  | RFailedVerification => L [I 8]
  | RFailedExecution => L [I 9]
  | RExecuteGenesis => L [I 10]
  | RNotUnique h => L [I 11; tN h]
  | RPrevNotFinished => L [I 12]
  | RFailedReconWrite => L [I 13]
  | RStorageNotFound => L [I 16]
  | RStorageOther => L [I 17]
  | ROther t => L [tN t]
  | RInFlight => L [I (-1)]
  end.

Definition T_res (t : T) : option res :=
  match t with
  | L [I 0%Z] => Some ROk
  | L [I 1%Z] => Some RSemaphore
  | L [I 2%Z] => Some RInvalidGenesisState
  | L [I 3%Z] => Some RInvalidDbStateAfterExec
  | L [I 4%Z] => Some ROverflow
  | L [I 5%Z] => Some RZeroNonGenericHeight
  | L [I 6%Z; e; a] => match getN e, getN a with
                       | Some e, Some a => Some (RIncorrectBlockHeight e a) | _, _ => None end
  | L [I 8%Z] => Some RFailedVerification
  | L [I 9%Z] => Some RFailedExecution
  | L [I 10%Z] => Some RExecuteGenesis
  | L [I 11%Z; h] => option_map RNotUnique (getN h)
  | L [I 12%Z] => Some RPrevNotFinished
  | L [I 13%Z] => Some RFailedReconWrite
  | L [I 16%Z] => Some RStorageNotFound
  | L [I 17%Z] => Some RStorageOther
  | L [I (-1)%Z] => Some RInFlight
  | L [I z] => option_map ROther (getN (I z))
  | _ => None
  end.

Definition event_T (e : event) : T :=
  match e with
  | EPublish h => L [I 0; tN h]
  | ECommit hs => L (I 1 :: map tN hs)
  | EAnnounce h l p => L [I 2; tN h; tB l; tB p]
  end.

Definition T_event (t : T) : option event :=
  match t with
  | L [I 0%Z; h] => option_map EPublish (getN h)
  | L (I 1%Z :: hs) => option_map ECommit (mapM getN hs)
  | L [I 2%Z; h; l; p] => match getN h, getB l, getB p with
                          | Some h, Some l, Some p => Some (EAnnounce h l p) | _, _, _ => None end
  | _ => None
  end.

Definition dbobs_T (o : dbobs) : T :=
  L [tOptN (o_latest o); tListN (o_blocks o); tListN (o_cons o); tListN (o_txs o);
     tOptN (o_root o); tListN (o_marks o); tN (o_held o)].

Definition T_dbobs (t : T) : option dbobs :=
  match t with
  | L [la; bl; co; tx; ro; ma; he] =>
      match getOptN la, getListN bl, getListN co, getListN tx, getOptN ro, getListN ma, getN he with
      | Some la, Some bl, Some co, Some tx, Some ro, Some ma, Some he =>
          Some {| o_latest := la; o_blocks := bl; o_cons := co; o_txs := tx; o_root := ro;
                  o_marks := ma; o_held := he |}
      | _, _, _, _, _, _, _ => None
      end
  | _ => None
  end.

Definition phase_T (p : phase) : T :=
  L [match p_res p with None => L [] | Some r => res_T r end; dbobs_T (p_db p);
     L (map event_T (p_evs p))].

Definition T_phase (t : T) : option phase :=
  match t with
  | L [r; d; L evs] =>
      let r' := match r with L [] => Some None | _ => option_map Some (T_res r) end in
      match r', T_dbobs d, mapM T_event evs with
      | Some r, Some d, Some evs => Some {| p_res := r; p_db := d; p_evs := evs |}
      | _, _, _ => None
      end
  | _ => None
  end.

Definition T_phases (t : T) : option (list phase) :=
  match t with L ps => mapM T_phase ps | _ => None end.

Definition T_block (t : T) : option block :=
  match t with
  | L [h; I 0%Z; ts] => match getN h, getListN ts with
                        | Some h, Some ts => Some {| bh := h; bcons := CGenesis; btxs := ts |}
                        | _, _ => None end
  | L [h; I 1%Z; ts] => match getN h, getListN ts with
                        | Some h, Some ts => Some {| bh := h; bcons := CPoA; btxs := ts |}
                        | _, _ => None end
  | _ => None
  end.

Definition T_exec (t : T) : option (option (N * N)) :=
  match t with
  | L [] => Some None
  | L [m; k] => match getN m, getN k with Some m, Some k => Some (Some (m, k)) | _, _ => None end
  | _ => None
  end.

Definition T_call (t : T) : option call :=
  match t with
  | L [I 0%Z; b; lo; mr; mk; wp; dc] =>
      match T_block b, getB lo, getN mr, getN mk, getB wp, getB dc with
      | Some b, Some lo, Some mr, Some mk, Some wp, Some dc => Some (Commit b lo mr mk wp dc)
      | _, _, _, _, _, _ => None
      end
  | L [I 1%Z; b; v; e; dc] =>
      match T_block b, getB v, T_exec e, getB dc with
      | Some b, Some v, Some e, Some dc => Some (Exec b v e dc)
      | _, _, _, _ => None
      end
  | _ => None
  end.

Definition T_op (t : T) : option op :=
  match t with
  | L [I 0%Z; c] => option_map OCall (T_call c)
  | L [I 1%Z; a; b] => match T_call a, T_call b with
                       | Some a, Some b => Some (OConc a b) | _, _ => None end
  | L [I 2%Z] => Some ORelease
  | L [I 3%Z; a; L bs] => match T_call a, mapM T_call bs with
                          | Some a, Some bs => Some (OPark a bs) | _, _ => None end
  | _ => None
  end.

(* input: (cap pre_cons pre_txs ops) *)
Definition main08 (input observed : T) : T :=
  match input with
  | L [cp; pc; pt; L ops] =>
      match getN cp, getListN pc, getListN pt, mapM T_op ops with
      | Some cp, Some pc, Some pt, Some ops =>
          let st0 := init cp pc pt in
          let model := L (map (fun ph => L (map phase_T ph)) (run st0 ops)) in
          let pc := match observed with
                    | L o => match mapM T_phases o with
                             | Some o => trace_okb cp (obs_of st0) ops o
                             | None => false
                             end
                    | _ => false
                    end in
          L [model; tB pc]
      | _, _, _, _ => tErr 2
      end
  | _ => tErr 1
  end.

Definition main_T (req : T) : T :=
  match req with
  | L [I 8%Z; input; observed] => main08 input observed
  | _ => tErr 0
  end.
