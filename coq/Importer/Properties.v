(* Property theorems of the Importer cluster (C08). Statements, [exact], Print Assumptions only.
   Model: Importer/Model.v.  run_call st c = one Importer::commit_result / execute_and_commit
   call (guard, back-pressure permit, create_block_changes, verification/execution, root check,
   write port, storage commit, broadcast) returning (state', result, events);  run = a whole
   history of calls, concurrent second calls and subscriber releases. *)
From FC Require Import Importer.Model Importer.ProofsBase Importer.ProofsCall Importer.ProofsTrace
  Importer.ProofsSpec.
Open Scope N_scope.

(* A call succeeds iff the block is the next one (latest+1 for PoA, anything on a database
   without blocks for genesis), no block / consensus / transaction row for it exists (and the
   block does not repeat a transaction), the execution change set left the block Merkle root
   alone, verifier / executor / write port / storage commit did not fail, and a notification
   permit is free. *)
Theorem commit_ok_iff : forall st c, wf_call c -> busy st = false ->
  (snd (fst (run_call st c)) = ROk <-> call_ok (cap st) (obs_of st) c).
Proof. exact commit_ok_iff_all. Qed.
Print Assumptions commit_ok_iff.

(* Every Err path returns the identical state (database, held permits, guard); the only
   thing it may have done is call the reconciliation write port. *)
Theorem failure_leaves_db : forall st c, wf_call c ->
  snd (fst (run_call st c)) <> ROk ->
  fst (fst (run_call st c)) = st /\ publish_only (snd (run_call st c)).
Proof. exact failure_leaves_db_all. Qed.
Print Assumptions failure_leaves_db.

(* While a call holds the guard every other call is rejected with Semaphore, changes
   nothing and emits nothing; the first call then proceeds as if it had run alone. *)
Theorem busy_rejects : forall st c, busy st = true -> run_call st c = (st, RSemaphore, []).
Proof. exact busy_rejects_all. Qed.
Print Assumptions busy_rejects.

Theorem busy_rejects_concurrent : forall st a b, busy st = false ->
  step st (OConc a b) =
  (fst (step st (OCall a)),
   {| p_res := Some RSemaphore; p_db := obs_of st; p_evs := [] |} :: snd (step st (OCall a))).
Proof. exact busy_rejects_conc_all. Qed.
Print Assumptions busy_rejects_concurrent.

(* The same for a call that is parked on back-pressure (notification buffer full): it keeps the
   guard for the whole wait, so every call attempted meanwhile -- for the same height, the next
   one, anything -- is rejected and changes nothing; after the subscriber's release the parked
   call ends exactly as if it had been made alone at that point. *)
Theorem parked_call_rejects_others : forall st a bs, busy st = false -> parks st a = true ->
  step st (OPark a bs) =
  (fst (step (set_held st 0) (OCall a)),
   map (fun _ => {| p_res := Some RSemaphore; p_db := obs_of st; p_evs := [] |}) bs ++
   snd (step (set_held st 0) (OCall a))).
Proof. exact parked_rejects_all. Qed.
Print Assumptions parked_call_rejects_others.

Theorem parks_meaning : forall st c, wf_call c -> parks st c = parksb (cap st) (obs_of st) c.
Proof. exact parks_spec. Qed.
Print Assumptions parks_meaning.

(* Over all histories from any initial database without blocks (orphan consensus /
   transaction rows allowed): the announced heights are exactly the heights of the successful
   calls, in the same order; successive successful heights differ by exactly one; and the event
   log is a sequence of write-port calls and (commit of one block row, announcement of that
   block with the row readable) pairs -- each announcement directly follows its commit. *)
Theorem broadcast_trace : forall cp pre_cons pre_txs ops,
  Forall wf_op ops ->
  let tr := run (init cp pre_cons pre_txs) ops in
  announced (all_events tr) = successes (calls_of ops tr) /\
  (forall i a b, nth_error (successes (calls_of ops tr)) i = Some a ->
                 nth_error (successes (calls_of ops tr)) (S i) = Some b -> b = a + 1) /\
  shape_okb (all_events tr) = true.
Proof. exact broadcast_trace_all. Qed.
Print Assumptions broadcast_trace.

(* Refinement: every history of the model passes the specification replay that is evaluated
   as Pcheck on the implementation's observations. *)
Theorem model_refines_spec : forall cp pre_cons pre_txs ops,
  Forall wf_op ops ->
  trace_okb cp (obs_of (init cp pre_cons pre_txs)) ops (run (init cp pre_cons pre_txs) ops) = true.
Proof. exact model_passes_all. Qed.
Print Assumptions model_refines_spec.

(* Meaning of Pcheck = true on an observed trace. *)
Theorem trace_okb_sound : forall cp ops o obs,
  trace_okb cp o ops obs = true <-> trace_spec cp o ops obs.
Proof. exact trace_okb_iff. Qed.
Print Assumptions trace_okb_sound.

Theorem replay_meaning : forall cp pre_cons pre_txs ops obs,
  trace_okb cp (obs_of (init cp pre_cons pre_txs)) ops obs = true ->
  announced (all_events obs) = successes (calls_of ops obs) /\
  (forall i a b, nth_error (successes (calls_of ops obs)) i = Some a ->
                 nth_error (successes (calls_of ops obs)) (S i) = Some b -> b = a + 1) /\
  shape_okb (all_events obs) = true.
Proof. exact replay_meaning_init. Qed.
Print Assumptions replay_meaning.
