(* One call of the model against the specification automaton. *)
From FC Require Import Importer.Model Importer.ProofsBase.
From Coq Require Import ZifyBool ZifyN ZifyNat.
Open Scope N_scope.

Definition wf_block (b : block) : Prop := bh b <= u32max.
Definition wf_call (c : call) : Prop := wf_block (call_block c).
Definition wf_op (o : op) : Prop :=
  match o with
  | OCall c => wf_call c
  | OConc a b => wf_call a /\ wf_call b
  | ORelease => True
  | OPark a bs => wf_call a /\ Forall wf_call bs
  end.

Definition block_changes_of (d : db) (b : block) : changes :=
  {| c_blocks := [bh b]; c_cons := [bh b]; c_txs := btxs b;
     c_root := Some (root d + 1); c_marks := [] |}.

Definition good_err (e : res) : Prop := e <> ROk /\ e <> RInFlight.

Lemma create_block_changes_spec : forall st b, wf_block b ->
  match create_block_changes (sdb st) b with
  | inr bc => next_heightb (obs_of st) b = true /\ freshb (obs_of st) b = true /\
              bc = block_changes_of (sdb st) b
  | inl e => next_heightb (obs_of st) b && freshb (obs_of st) b = false /\ good_err e
  end.
Proof.
  intros st b Hwf. unfold wf_block in Hwf.
  unfold create_block_changes, next_heightb, freshb, store_new_block, obs_of, latest_block_height.
  cbn [o_latest o_blocks o_cons o_txs].
  rewrite store_txs_found.
  destruct (bcons b).
  - (* genesis *)
    destruct (max_list (blocks (sdb st))) as [l|] eqn:El.
    + split; [reflexivity | split; discriminate].
    + rewrite N.eqb_refl. cbn [negb].
      destruct (mem (bh b) (blocks (sdb st))), (mem (bh b) (cons (sdb st))),
        (nodupb (btxs b)), (disjointb (btxs b) (txs (sdb st)));
        cbn [negb orb andb]; repeat split; discriminate.
  - (* PoA *)
    destruct (bh b =? 0) eqn:E0.
    + apply N.eqb_eq in E0. split; [|split; discriminate].
      destruct (max_list (blocks (sdb st))) as [l|]; [|reflexivity].
      replace (bh b =? l + 1) with false by lia. reflexivity.
    + destruct (max_list (blocks (sdb st))) as [l|] eqn:El.
      * unfold checked_add. destruct (l + 1 <=? u32max) eqn:Eov.
        -- rewrite (N.eqb_sym (l + 1) (bh b)).
           destruct (bh b =? l + 1) eqn:Eh; cbn [negb].
           ++ destruct (mem (bh b) (blocks (sdb st))), (mem (bh b) (cons (sdb st))),
                (nodupb (btxs b)), (disjointb (btxs b) (txs (sdb st)));
                cbn [negb orb andb]; repeat split; discriminate.
           ++ split; [reflexivity | split; discriminate].
        -- split; [|split; discriminate].
           replace (bh b =? l + 1) with false; [reflexivity|]. unfold u32max in *. lia.
      * split; [reflexivity | split; discriminate].
Qed.

Lemma root_num_latest : forall d, root_num (latest_block_root d) = root d.
Proof.
  intro d. unfold latest_block_root. destruct (root d =? 0) eqn:E; cbn [root_num]; [lia | reflexivity].
Qed.

Lemma root_check : forall d mroot mark,
  optN_eqb (latest_block_root (apply_changes d (exec_changes d mroot mark))) (latest_block_root d)
  = (mroot =? 0).
Proof.
  intros d mroot mark. unfold latest_block_root, apply_changes, exec_changes. cbn [root c_root].
  destruct (mroot =? 0).
  - apply optN_eqb_refl.
  - replace (root d + 2 =? 0) with false by lia.
    destruct (root d =? 0) eqn:E; cbn [optN_eqb]; [reflexivity | lia].
Qed.

(* what a successful commit does to the observation *)
Lemma obs_after_commit : forall st b mark (o : dbobs) lat,
  o = obs_of st ->
  next_heightb o b = true ->
  lat = Some (bh b) ->
  obs_of (set_db st (apply_changes (apply_changes (sdb st) (block_changes_of (sdb st) b))
                                   (exec_changes (sdb st) 0 mark)) (held st + 1))
  = {| o_latest := lat;
       o_blocks := insert (bh b) (o_blocks o);
       o_cons := insert (bh b) (o_cons o);
       o_txs := insert_all (btxs b) (o_txs o);
       o_root := Some (root_num (o_root o) + 1);
       o_marks := insert_all [mark] (o_marks o);
       o_held := o_held o + 1 |}.
Proof.
  intros st b mark o lat -> Hn ->.
  unfold obs_of, set_db, apply_changes, block_changes_of, exec_changes, latest_block_height.
  cbn [sdb held blocks cons txs root marks c_blocks c_cons c_txs c_root c_marks
       o_latest o_blocks o_cons o_txs o_root o_marks o_held insert_all fold_left].
  replace (0 =? 0) with true by reflexivity. cbv iota.
  f_equal.
  - rewrite max_list_insert. unfold next_heightb, obs_of, latest_block_height in Hn.
    cbn [o_latest] in Hn.
    destruct (bcons b); destruct (max_list (blocks (sdb st))) as [l|]; try discriminate; try reflexivity.
    f_equal. lia.
  - rewrite root_num_latest. unfold latest_block_root. cbn [root].
    replace (root (sdb st) + 1 =? 0) with false by lia. reflexivity.
Qed.

Definition call_spec (st : state) (c : call) (out : state * res * list event) : Prop :=
  let '(st', r, ev) := out in
  r <> RInFlight /\
  (r = ROk -> call_okb (cap st) (obs_of st) c = true /\ obs_of st' = after (obs_of st) c /\
              ev = ok_events c /\ busy st' = busy st /\ cap st' = cap st) /\
  (r <> ROk -> call_okb (cap st) (obs_of st) c = false /\ st' = st /\ forallb is_publish ev = true).

Lemma set_db_obs_busy : forall st d h, busy (set_db st d h) = busy st /\ cap (set_db st d h) = cap st.
Proof. intros. split; reflexivity. Qed.

Lemma commit_result_inner_spec : forall st b local mroot mark wp_ok dbc_ok,
  next_heightb (obs_of st) b = true ->
  let out := commit_result_inner st b local (exec_changes (sdb st) mroot mark)
               (block_changes_of (sdb st) b) wp_ok dbc_ok in
  let '(st', r, ev) := out in
  r <> RInFlight /\
  (r = ROk -> ((mroot =? 0) && (negb local || wp_ok) && dbc_ok = true) /\
     obs_of st' = {| o_latest := Some (bh b);
       o_blocks := insert (bh b) (o_blocks (obs_of st));
       o_cons := insert (bh b) (o_cons (obs_of st));
       o_txs := insert_all (btxs b) (o_txs (obs_of st));
       o_root := Some (root_num (o_root (obs_of st)) + 1);
       o_marks := insert_all [mark] (o_marks (obs_of st));
       o_held := o_held (obs_of st) + 1 |} /\
     ev = (if local then [EPublish (bh b)] else []) ++ [ECommit [bh b]; EAnnounce (bh b) local true] /\
     busy st' = busy st /\ cap st' = cap st) /\
  (r <> ROk -> ((mroot =? 0) && (negb local || wp_ok) && dbc_ok = false) /\ st' = st /\
               forallb is_publish ev = true).
Proof.
  intros st b local mroot mark wp_ok dbc_ok Hn. unfold commit_result_inner.
  rewrite root_check.
  destruct (mroot =? 0) eqn:Em; cbn [negb andb].
  2:{ split; [discriminate|]. split; [discriminate|]. intros _. repeat split. }
  apply N.eqb_eq in Em. subst mroot.
  destruct local; cbn [andb negb orb].
  - destruct wp_ok; cbn [negb andb].
    + destruct dbc_ok; cbn [negb].
      * split; [discriminate|]. split; [|intro H; exfalso; apply H; reflexivity].
        intros _. split; [reflexivity|]. split.
        { apply (obs_after_commit st b mark (obs_of st) (Some (bh b)) eq_refl Hn eq_refl). }
        split.
        { cbn [block_changes_of exec_changes c_blocks app apply_changes blocks insert_all fold_left].
          rewrite mem_insert, N.eqb_refl. reflexivity. }
        split; reflexivity.
      * split; [discriminate|]. split; [discriminate|]. intros _. repeat split.
    + split; [discriminate|]. split; [discriminate|]. intros _. repeat split.
  - destruct dbc_ok; cbn [negb].
    + split; [discriminate|]. split; [|intro H; exfalso; apply H; reflexivity].
      intros _. split; [reflexivity|]. split.
      { apply (obs_after_commit st b mark (obs_of st) (Some (bh b)) eq_refl Hn eq_refl). }
      split.
      { cbn [block_changes_of exec_changes c_blocks app apply_changes blocks insert_all fold_left].
        rewrite mem_insert, N.eqb_refl. reflexivity. }
      split; reflexivity.
    + split; [discriminate|]. split; [discriminate|]. intros _. repeat split.
Qed.

Lemma body_spec : forall st c, wf_call c -> call_spec st c (body st c).
Proof.
  intros st c Hwf. unfold call_spec, call_okb.
  destruct c as [b local mroot mark wp_ok dbc_ok | b verify_ok exec dbc_ok];
    unfold wf_call in Hwf; cbn [call_block] in Hwf; cbn [body call_block ports_okb].
  - (* commit_result *)
    unfold do_commit_result, acquire.
    change (held st) with (o_held (obs_of st)).
    destruct (o_held (obs_of st) <? cap st) eqn:Eh; cbn [negb andb].
    2:{ split; [discriminate|]. split; [discriminate|]. intros _. repeat split. }
    pose proof (create_block_changes_spec st b Hwf) as Hc.
    destruct (create_block_changes (sdb st) b) as [e|bc].
    + destruct Hc as [Hf [He1 He2]]. split; [exact He2|]. split; [intro; contradiction|].
      intros _. rewrite Hf. repeat split.
    + destruct Hc as [Hn [Hf ->]]. rewrite Hn, Hf. cbn [andb].
      pose proof (commit_result_inner_spec st b local mroot mark wp_ok dbc_ok Hn) as Hi.
      cbv zeta in Hi.
      destruct (commit_result_inner st b local (exec_changes (sdb st) mroot mark)
                  (block_changes_of (sdb st) b) wp_ok dbc_ok) as [[st' r] ev].
      destruct Hi as [H1 [H2 H3]]. split; [exact H1|]. split.
      * intro Hr. destruct (H2 Hr) as [Hp [Ho [He [Hb Hc]]]].
        split; [exact Hp|]. split; [|split; [|split]]; try assumption.
      * intro Hr. exact (H3 Hr).
  - (* execute_and_commit *)
    unfold do_execute_and_commit, verify_and_execute, acquire.
    destruct verify_ok; cbn [negb andb].
    2:{ split; [discriminate|]. split; [discriminate|]. intros _.
        rewrite !Bool.andb_false_r. repeat split. }
    destruct (bcons b) eqn:Econs.
    { split; [discriminate|]. split; [discriminate|]. intros _.
      rewrite !Bool.andb_false_r. repeat split. }
    destruct exec as [[mroot mark]|].
    2:{ split; [discriminate|]. split; [discriminate|]. intros _.
        rewrite !Bool.andb_false_r. repeat split. }
    pose proof (create_block_changes_spec st b Hwf) as Hc.
    destruct (create_block_changes (sdb st) b) as [e|bc].
    + destruct Hc as [Hf [He1 He2]]. split; [exact He2|]. split; [intro; contradiction|].
      intros _. split; [|split; reflexivity].
      destruct (o_held (obs_of st) <? cap st); cbn [andb]; [|reflexivity].
      rewrite Hf. reflexivity.
    + destruct Hc as [Hn [Hf ->]]. rewrite Hn, Hf. cbn [andb].
      change (held st) with (o_held (obs_of st)).
      destruct (o_held (obs_of st) <? cap st) eqn:Eh; cbn [negb andb].
      2:{ split; [discriminate|]. split; [discriminate|]. intros _. repeat split. }
      pose proof (commit_result_inner_spec st b false mroot mark true dbc_ok Hn) as Hi.
      cbv zeta in Hi.
      destruct (commit_result_inner st b false (exec_changes (sdb st) mroot mark)
                  (block_changes_of (sdb st) b) true dbc_ok) as [[st' r] ev].
      destruct Hi as [H1 [H2 H3]]. split; [exact H1|]. split.
      * intro Hr. destruct (H2 Hr) as [Hp [Ho [He [Hb Hc]]]].
        cbn [negb orb andb] in Hp. rewrite Bool.andb_true_r in Hp.
        split; [exact Hp|]. split; [|split; [|split]]; try assumption.
      * intro Hr. destruct (H3 Hr) as [Hp Hrest]. cbn [negb orb] in Hp.
        rewrite Bool.andb_true_r in Hp. split; [exact Hp | exact Hrest].
Qed.

(* the prepare step of the model succeeds exactly when the specification says so *)
Lemma prepare_ok_spec : forall st c, wf_call c -> prepare_ok st c = prepare_okb (obs_of st) c.
Proof.
  intros st c Hwf. destruct c as [b local mroot mark wp dbc | b v ex dbc]; [reflexivity|].
  unfold wf_call in Hwf. cbn [call_block] in Hwf. cbn [prepare_ok prepare_okb].
  pose proof (create_block_changes_spec st b Hwf) as Hc.
  unfold verify_and_execute.
  destruct v; cbn [negb andb]; [|reflexivity].
  destruct (bcons b); cbn [andb]; [reflexivity|].
  destruct ex as [p|]; cbn [andb].
  - destruct (create_block_changes (sdb st) b) as [e|bc].
    + destruct Hc as [Hf _]. symmetry. exact Hf.
    + destruct Hc as [Hn [Hf _]]. rewrite Hn, Hf. reflexivity.
  - reflexivity.
Qed.

Lemma parks_spec : forall st c, wf_call c -> parks st c = parksb (cap st) (obs_of st) c.
Proof.
  intros st c Hwf. unfold parks, parksb, acquire. rewrite (prepare_ok_spec st c Hwf). reflexivity.
Qed.
