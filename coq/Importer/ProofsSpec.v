(* The declarative reading of the checker: call_ok / phase_spec / trace_spec, and
   trace_okb = true <-> trace_spec. *)
From FC Require Import Importer.Model Importer.ProofsBase Importer.ProofsCall Importer.ProofsTrace.
From Coq Require Import ZifyBool ZifyN ZifyNat.
Open Scope N_scope.

Definition next_height (o : dbobs) (b : block) : Prop :=
  match bcons b with
  | CGenesis => o_latest o = None
  | CPoA => exists l, o_latest o = Some l /\ bh b = l + 1
  end.

Definition fresh (o : dbobs) (b : block) : Prop :=
  ~ In (bh b) (o_blocks o) /\ ~ In (bh b) (o_cons o) /\
  NoDup (btxs b) /\ (forall t, In t (btxs b) -> ~ In t (o_txs o)).

Definition ports_ok (c : call) : Prop :=
  match c with
  | Commit _ local mroot _ wp_ok dbc_ok =>
      mroot = 0 /\ (local = true -> wp_ok = true) /\ dbc_ok = true
  | Exec b verify_ok exec dbc_ok =>
      verify_ok = true /\ bcons b = CPoA /\ (exists mark, exec = Some (0, mark)) /\ dbc_ok = true
  end.

(* the import of the call's block must succeed on the observed database [o] *)
Definition call_ok (cp : N) (o : dbobs) (c : call) : Prop :=
  o_held o < cp /\ next_height o (call_block c) /\ fresh o (call_block c) /\ ports_ok c.

Lemma next_heightb_iff : forall o b, next_heightb o b = true <-> next_height o b.
Proof.
  intros o b. unfold next_heightb, next_height. destruct (bcons b); destruct (o_latest o) as [l|].
  - split; intro; discriminate.
  - split; reflexivity.
  - rewrite N.eqb_eq. split.
    + intro H. exists l. split; [reflexivity | exact H].
    + intros [l' [H1 H2]]. injection H1 as ->. exact H2.
  - split; [discriminate|]. intros [l' [H1 _]]. discriminate.
Qed.

Lemma freshb_iff : forall o b, freshb o b = true <-> fresh o b.
Proof.
  intros o b. unfold freshb, fresh.
  rewrite !Bool.andb_true_iff, !Bool.negb_true_iff, !mem_false_In, nodupb_NoDup, disjointb_spec.
  tauto.
Qed.

Lemma ports_okb_iff : forall c, ports_okb c = true <-> ports_ok c.
Proof.
  destruct c as [b local mroot mark wp dbc | b v ex dbc]; cbn [ports_okb ports_ok].
  - rewrite !Bool.andb_true_iff, N.eqb_eq. split.
    + intros [[H1 H2] H3]. repeat split; auto. intro Hl. subst local. exact H2.
    + intros [H1 [H2 H3]]. repeat split; auto. destruct local; cbn [negb orb]; auto.
  - rewrite !Bool.andb_true_iff. destruct (bcons b).
    + split; [intros [[[_ H] _] _]; discriminate | intros [_ [H _]]; discriminate].
    + destruct ex as [[m k]|].
      * rewrite N.eqb_eq. split.
        -- intros [[[H1 _] H2] H3]. subst m. repeat split; auto. exists k. reflexivity.
        -- intros [H1 [_ [[mk Hm] H3]]]. injection Hm as -> _. repeat split; auto.
      * split; [intros [[_ H] _]; discriminate | intros [_ [_ [[mk Hm] _]]]; discriminate].
Qed.

Lemma call_okb_iff : forall cp o c, call_okb cp o c = true <-> call_ok cp o c.
Proof.
  intros. unfold call_okb, call_ok.
  rewrite !Bool.andb_true_iff, N.ltb_lt, next_heightb_iff, freshb_iff, ports_okb_iff. tauto.
Qed.

Definition publish_only (evs : list event) : Prop := Forall (fun e => exists h, e = EPublish h) evs.

Lemma publish_only_iff : forall evs, forallb is_publish evs = true <-> publish_only evs.
Proof.
  intro evs. unfold publish_only. rewrite forallb_forall, Forall_forall.
  split; intros H e He; specialize (H e He).
  - destruct e; try discriminate. eexists. reflexivity.
  - destruct H as [h ->]. reflexivity.
Qed.

(* one call observed against the database [o] *)
Definition phase_spec (cp : N) (guard_taken : bool) (o : dbobs) (c : call) (p : phase) : Prop :=
  if guard_taken
  then p_res p = Some RSemaphore /\ p_db p = o /\ p_evs p = []
  else (p_res p = Some ROk /\ call_ok cp o c /\ p_db p = after o c /\ p_evs p = ok_events c) \/
       (exists r, p_res p = Some r /\ r <> ROk /\ r <> RInFlight /\ ~ call_ok cp o c /\
                  p_db p = o /\ publish_only (p_evs p)).

Lemma phase_okb_iff : forall cp g o c p, phase_okb cp g o c p = true <-> phase_spec cp g o c p.
Proof.
  intros cp g o c p. destruct g.
  - split.
    + apply phase_facts_busy.
    + intros [H1 [H2 H3]]. unfold phase_okb. rewrite H1, H2, H3, dbobs_eqb_refl. reflexivity.
  - unfold phase_spec. split.
    + intro H. destruct (phase_facts _ _ _ _ H) as [[Hr [Hok [Hd He]]] | [r [Hr [Hn [Hi [Hok [Hd He]]]]]]].
      * left. rewrite call_okb_iff in Hok. tauto.
      * right. exists r. rewrite <- publish_only_iff. repeat split; try assumption.
        rewrite <- call_okb_iff. congruence.
    + intros [[Hr [Hok [Hd He]]] | [r [Hr [Hn [Hi [Hok [Hd He]]]]]]]; unfold phase_okb.
      * apply call_okb_iff in Hok. rewrite Hr, Hok, Hd, He, dbobs_eqb_refl, events_eqb_refl. reflexivity.
      * apply publish_only_iff in He. rewrite <- call_okb_iff in Hok.
        destruct (call_okb cp o c) eqn:E; [exfalso; apply Hok; reflexivity|].
        rewrite Hr, Hd, He, dbobs_eqb_refl. destruct r; try reflexivity; contradiction.
Qed.

Inductive trace_spec (cp : N) : dbobs -> list op -> list (list phase) -> Prop :=
| TS_nil : forall o, trace_spec cp o [] []
| TS_call : forall o c p ops obs,
    phase_spec cp false o c p -> trace_spec cp (p_db p) ops obs ->
    trace_spec cp o (OCall c :: ops) ([p] :: obs)
| TS_conc : forall o a b pa pb ops obs,
    phase_spec cp true o b pb -> phase_spec cp false o a pa -> trace_spec cp (p_db pa) ops obs ->
    trace_spec cp o (OConc a b :: ops) ([pb; pa] :: obs)
| TS_release : forall o p ops obs,
    p_res p = None -> p_db p = with_held o 0 -> p_evs p = [] -> trace_spec cp (p_db p) ops obs ->
    trace_spec cp o (ORelease :: ops) ([p] :: obs)
| TS_park_parked : forall o a bs pre pa ops obs,
    (* the notification buffer is full and the call gets as far as the back-pressure wait: every
       call attempted meanwhile is rejected; after the release the call is judged as usual *)
    parksb cp o a = true ->
    Forall2 (fun b p => phase_spec cp true o b p) bs pre ->
    phase_spec cp false (with_held o 0) a pa -> trace_spec cp (p_db pa) ops obs ->
    trace_spec cp o (OPark a bs :: ops) ((pre ++ [pa]) :: obs)
| TS_park_free : forall o a bs pa pr ops obs,
    parksb cp o a = false ->
    phase_spec cp false o a pa ->
    p_res pr = None -> p_db pr = with_held (p_db pa) 0 -> p_evs pr = [] ->
    trace_spec cp (p_db pr) ops obs ->
    trace_spec cp o (OPark a bs :: ops) ([pa; pr] :: obs).

Lemma rejected_okb_iff : forall cp o bs pre,
  rejected_okb cp o bs pre = true <-> Forall2 (fun b p => phase_spec cp true o b p) bs pre.
Proof.
  induction bs as [|b bs IH]; intros pre; destruct pre as [|p pre]; cbn [rejected_okb].
  - split; [constructor | reflexivity].
  - split; [discriminate | intro H; inversion H].
  - split; [discriminate | intro H; inversion H].
  - rewrite Bool.andb_true_iff, phase_okb_iff, IH. split.
    + intros [H1 H2]. constructor; assumption.
    + intro H. inversion H; subst. split; assumption.
Qed.

Lemma trace_okb_iff : forall cp ops o obs, trace_okb cp o ops obs = true <-> trace_spec cp o ops obs.
Proof.
  intros cp. induction ops as [|op ops IH]; intros o obs.
  - split.
    + destruct obs; [constructor | discriminate].
    + intro H. inversion H. reflexivity.
  - split.
    + intro H. destruct op as [c | a b | | a bs]; cbn [trace_okb] in H.
      4:{ destruct obs as [|ps obs]; [discriminate|].
          destruct (split_last ps) as [[pre lst]|] eqn:Esl; [|discriminate].
          pose proof (split_last_some _ _ _ Esl) as Hps. subst ps.
          destruct (parksb cp o a) eqn:Ep.
          - apply Bool.andb_true_iff in H. destruct H as [H Ht].
            apply Bool.andb_true_iff in H. destruct H as [Hrej Hpa].
            apply TS_park_parked; [exact Ep | apply rejected_okb_iff; exact Hrej
                                  | apply phase_okb_iff; exact Hpa | apply IH; exact Ht].
          - destruct pre as [|pa [|? ?]]; try discriminate.
            apply Bool.andb_true_iff in H. destruct H as [H Ht].
            apply Bool.andb_true_iff in H. destruct H as [H Hnil].
            apply Bool.andb_true_iff in H. destruct H as [H Hdb].
            apply Bool.andb_true_iff in H. destruct H as [Hpa Hnone].
            apply dbobs_eqb_eq in Hdb.
            apply (TS_park_free cp o a bs pa lst);
              [exact Ep | apply phase_okb_iff; exact Hpa
              | destruct (p_res lst); [discriminate | reflexivity] | exact Hdb
              | destruct (p_evs lst); [reflexivity | discriminate] | apply IH; exact Ht]. }
      * destruct obs as [|[|p [|? ?]] obs]; try discriminate.
        apply Bool.andb_true_iff in H. destruct H as [Hp Ht].
        constructor; [apply phase_okb_iff; exact Hp | apply IH; exact Ht].
      * destruct obs as [|[|pb [|pa [|? ?]]] obs]; try discriminate.
        apply Bool.andb_true_iff in H. destruct H as [H Ht].
        apply Bool.andb_true_iff in H. destruct H as [Hpb Hpa].
        constructor; [apply phase_okb_iff; exact Hpb | apply phase_okb_iff; exact Hpa | apply IH; exact Ht].
      * destruct obs as [|[|p [|? ?]] obs]; try discriminate.
        apply Bool.andb_true_iff in H. destruct H as [H Ht].
        apply Bool.andb_true_iff in H. destruct H as [H Hn].
        apply Bool.andb_true_iff in H. destruct H as [Hr Hd].
        apply dbobs_eqb_eq in Hd.
        constructor; [destruct (p_res p); [discriminate | reflexivity] | exact Hd
                     | destruct (p_evs p); [reflexivity | discriminate] | apply IH; exact Ht].
    + intro H.
      inversion H as [ | ? c' p ops' obs' Hp Ht | ? a' b' pa pb ops' obs' Hpb Hpa Ht
                       | ? p ops' obs' Hr Hd He Ht
                       | ? a' bs' pre pa ops' obs' Hpk Hrej Hpa Ht
                       | ? a' bs' pa pr ops' obs' Hpk Hpa Hr Hd He Ht]; subst; cbn [trace_okb].
      * rewrite (proj2 (phase_okb_iff _ _ _ _ _) Hp), (proj2 (IH _ _) Ht). reflexivity.
      * rewrite (proj2 (phase_okb_iff _ _ _ _ _) Hpb), (proj2 (phase_okb_iff _ _ _ _ _) Hpa),
          (proj2 (IH _ _) Ht). reflexivity.
      * rewrite (proj2 (IH _ _) Ht), Hr, Hd, He, dbobs_eqb_refl. reflexivity.
      * rewrite split_last_app, Hpk, (proj2 (rejected_okb_iff _ _ _ _) Hrej),
          (proj2 (phase_okb_iff _ _ _ _ _) Hpa), (proj2 (IH _ _) Ht). reflexivity.
      * cbn [split_last]. rewrite Hpk, (proj2 (IH _ _) Ht), (proj2 (phase_okb_iff _ _ _ _ _) Hpa), Hr, Hd, He,
          dbobs_eqb_refl. reflexivity.
Qed.

(* ---------------- non-vacuity ---------------- *)

Definition ex_block (h : N) (g : bool) (ts : list N) : block :=
  {| bh := h; bcons := if g then CGenesis else CPoA; btxs := ts |}.

Definition ex_ops : list op :=
  [ OCall (Commit (ex_block 5 true [1]) false 0 1 true true);
    OCall (Exec (ex_block 6 false [2; 3]) true (Some (0, 2)) true);
    OCall (Commit (ex_block 6 false [4]) true 0 3 true true);          (* duplicate height *)
    OCall (Exec (ex_block 7 false [2]) true (Some (0, 4)) true);       (* stored transaction *)
    OCall (Exec (ex_block 7 false [5]) true (Some (1, 5)) true);       (* execution moved the root *)
    OConc (Commit (ex_block 7 false [5]) true 0 6 true true)
          (Exec (ex_block 8 false []) true (Some (0, 7)) true);
    ORelease;
    OCall (Exec (ex_block 8 false []) true (Some (0, 8)) true);
    OCall (Exec (ex_block 9 false []) true (Some (0, 9)) true);
    OCall (Exec (ex_block 10 false []) true (Some (0, 10)) true);
    (* the buffer (3) is full after 8, 9, 10: block 11 parks, a second import of 11 and one of
       12 are rejected meanwhile *)
    OPark (Exec (ex_block 11 false []) true (Some (0, 11)) true)
          [Exec (ex_block 11 false [6]) true (Some (0, 12)) true;
           Commit (ex_block 12 false []) false 0 13 true true] ].

Example ex_wf : Forall wf_op ex_ops.
Proof.
  unfold ex_ops.
  repeat (apply Forall_cons;
          [cbn [wf_op]; unfold wf_call, wf_block, u32max; cbn; try split; try lia;
           try exact Logic.I; repeat (constructor; try (unfold wf_call, wf_block, u32max; cbn; lia)) |]).
  apply Forall_nil.
Qed.

Example ex_successes :
  successes (calls_of ex_ops (run (init 3 [] []) ex_ops)) = [5; 6; 7; 8; 9; 10; 11] /\
  announced (all_events (run (init 3 [] []) ex_ops)) = [5; 6; 7; 8; 9; 10; 11] /\
  map (fun ph => map p_res ph) (run (init 3 [] []) ex_ops) =
    [[Some ROk]; [Some ROk]; [Some (RIncorrectBlockHeight 7 6)]; [Some (RNotUnique 7)];
     [Some RInvalidDbStateAfterExec]; [Some RSemaphore; Some ROk]; [None]; [Some ROk]; [Some ROk];
     [Some ROk]; [Some RSemaphore; Some RSemaphore; Some ROk]].
Proof. vm_compute. repeat split. Qed.

(* ---------------- the property statements ---------------- *)

Lemma commit_ok_iff_all : forall st c, wf_call c -> busy st = false ->
  (snd (fst (run_call st c)) = ROk <-> call_ok (cap st) (obs_of st) c).
Proof.
  intros st c Hwf Hb. pose proof (run_call_spec st c Hwf Hb) as H. unfold call_spec in H.
  destruct (run_call st c) as [[st' r] ev]. cbn [fst snd]. destruct H as [_ [H2 H3]].
  rewrite <- call_okb_iff. split.
  - intro Hr. exact (proj1 (H2 Hr)).
  - intro Hok. destruct r; try reflexivity;
      (destruct (H3 ltac:(discriminate)) as [Hf _]; congruence).
Qed.

Lemma failure_leaves_db_all : forall st c, wf_call c ->
  snd (fst (run_call st c)) <> ROk ->
  fst (fst (run_call st c)) = st /\ publish_only (snd (run_call st c)).
Proof.
  intros st c Hwf. destruct (busy st) eqn:Hb.
  - rewrite (busy_rejects_all st c Hb). cbn [fst snd]. intros _. split; [reflexivity | constructor].
  - pose proof (run_call_spec st c Hwf Hb) as H. unfold call_spec in H.
    destruct (run_call st c) as [[st' r] ev]. cbn [fst snd]. destruct H as [_ [_ H3]].
    intro Hr. destruct (H3 Hr) as [_ [Hs Hp]]. split; [exact Hs | apply publish_only_iff; exact Hp].
Qed.

Lemma busy_rejects_conc_all : forall st a b, busy st = false ->
  step st (OConc a b) =
  (fst (step st (OCall a)),
   {| p_res := Some RSemaphore; p_db := obs_of st; p_evs := [] |} :: snd (step st (OCall a))).
Proof.
  intros st a b Hb. unfold step, run_call, lock. rewrite Hb. cbn [busy set_busy].
  destruct (body (set_busy st true) a) as [[st3 ra] eva]. reflexivity.
Qed.

Lemma broadcast_trace_all : forall cp pre_cons pre_txs ops,
  Forall wf_op ops ->
  let tr := run (init cp pre_cons pre_txs) ops in
  announced (all_events tr) = successes (calls_of ops tr) /\
  (forall i a b, nth_error (successes (calls_of ops tr)) i = Some a ->
                 nth_error (successes (calls_of ops tr)) (S i) = Some b -> b = a + 1) /\
  shape_okb (all_events tr) = true.
Proof.
  intros cp pc pt ops Hwf tr.
  pose proof (model_passes_all cp pc pt ops Hwf) as Hm. fold tr in Hm.
  destruct (replay_meaning_all _ _ _ _ Hm) as [HA [HC HS]].
  split; [exact HA|]. split; [|exact HS].
  apply chain_none_consecutive. exact HC.
Qed.

Lemma replay_meaning_init : forall cp pre_cons pre_txs ops obs,
  trace_okb cp (obs_of (init cp pre_cons pre_txs)) ops obs = true ->
  announced (all_events obs) = successes (calls_of ops obs) /\
  (forall i a b, nth_error (successes (calls_of ops obs)) i = Some a ->
                 nth_error (successes (calls_of ops obs)) (S i) = Some b -> b = a + 1) /\
  shape_okb (all_events obs) = true.
Proof.
  intros cp pc pt ops obs H.
  destruct (replay_meaning_all _ _ _ _ H) as [HA [HC HS]].
  split; [exact HA|]. split; [|exact HS].
  apply chain_none_consecutive. exact HC.
Qed.

(* a call parked on back-pressure keeps the guard: every call attempted meanwhile is rejected and
   changes nothing, and after the release the parked call ends exactly as if it had been made
   alone at that point *)
Lemma parked_rejects_all : forall st a bs, busy st = false -> parks st a = true ->
  step st (OPark a bs) =
  (fst (step (set_held st 0) (OCall a)),
   map (fun _ => {| p_res := Some RSemaphore; p_db := obs_of st; p_evs := [] |}) bs ++
   snd (step (set_held st 0) (OCall a))).
Proof.
  intros st a bs Hb Hp. cbn [step]. rewrite Hb, Hp. cbn [negb andb].
  rewrite (run_calls_busy bs (set_busy st true) eq_refl).
  unfold run_call, lock. cbn [busy set_held]. rewrite Hb.
  change (set_busy (set_held st 0) true) with (set_held (set_busy st true) 0).
  destruct (body (set_held (set_busy st true) 0) a) as [[st4 ra] eva]. reflexivity.
Qed.
