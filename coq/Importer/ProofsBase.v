(* Basic facts about the key-set operations and the boolean equalities of the
   Importer model. *)
From FC Require Import Importer.Model.
From Coq Require Import ZifyBool ZifyN ZifyNat.
Open Scope N_scope.

Lemma mem_In : forall x l, mem x l = true <-> In x l.
Proof.
  induction l as [|y r IH]; cbn [mem In].
  - split; [discriminate | tauto].
  - rewrite Bool.orb_true_iff, IH, N.eqb_eq. split; intros [H|H]; auto.
Qed.

Lemma mem_false_In : forall x l, mem x l = false <-> ~ In x l.
Proof.
  intros. rewrite <- mem_In. destruct (mem x l); split; intro H; congruence.
Qed.

Lemma mem_insert : forall x y l, mem x (insert y l) = (x =? y) || mem x l.
Proof.
  induction l as [|z r IH]; cbn [insert mem].
  - reflexivity.
  - destruct (y <? z) eqn:E1.
    + reflexivity.
    + destruct (y =? z) eqn:E2.
      * cbn [mem]. apply N.eqb_eq in E2. subst z.
        destruct (x =? y); reflexivity.
      * cbn [mem]. rewrite IH.
        destruct (x =? y), (x =? z); reflexivity.
Qed.

Lemma max_list_insert : forall h l,
  max_list (insert h l) = Some (match max_list l with None => h | Some m => N.max h m end).
Proof.
  induction l as [|z r IH]; cbn [insert max_list].
  - reflexivity.
  - destruct (h <? z) eqn:E1.
    + cbn [max_list]. destruct (max_list r); f_equal; lia.
    + destruct (h =? z) eqn:E2.
      * cbn [max_list]. apply N.eqb_eq in E2. subst z.
        destruct (max_list r); f_equal; lia.
      * cbn [max_list]. rewrite IH. destruct (max_list r); f_equal; lia.
Qed.

Lemma max_list_None : forall l, max_list l = None -> l = [].
Proof.
  destruct l as [|x r]; cbn [max_list]; [reflexivity|].
  destruct (max_list r); discriminate.
Qed.

Lemma max_list_mem : forall l m, max_list l = Some m -> mem m l = true.
Proof.
  induction l as [|x r IH]; cbn [max_list mem]; intros m H; [discriminate|].
  destruct (max_list r) as [m'|] eqn:E.
  - injection H as H. destruct (N.max_spec x m') as [[_ Hm]|[_ Hm]]; rewrite Hm in H; subst m.
    + rewrite (IH m' eq_refl). apply Bool.orb_true_r.
    + rewrite N.eqb_refl. reflexivity.
  - injection H as H. subst. rewrite N.eqb_refl. reflexivity.
Qed.

Lemma max_list_ge : forall l m x, max_list l = Some m -> mem x l = true -> x <= m.
Proof.
  induction l as [|y r IH]; cbn [max_list mem]; intros m x H Hx; [discriminate|].
  destruct (max_list r) as [m'|] eqn:E.
  - injection H as H. apply Bool.orb_true_iff in Hx. destruct Hx as [Hx|Hx].
    + apply N.eqb_eq in Hx. lia.
    + specialize (IH m' x eq_refl Hx). lia.
  - injection H as H. apply max_list_None in E. subst r. cbn [mem] in Hx.
    rewrite Bool.orb_false_r in Hx. apply N.eqb_eq in Hx. lia.
Qed.

(* ---------------- store_txs vs. the declarative freshness ---------------- *)

Lemma nodupb_NoDup : forall l, nodupb l = true <-> NoDup l.
Proof.
  induction l as [|x r IH]; cbn [nodupb].
  - split; [constructor | reflexivity].
  - rewrite Bool.andb_true_iff, Bool.negb_true_iff, mem_false_In, IH.
    split.
    + intros [H1 H2]. constructor; assumption.
    + intro H. inversion H; subst. split; assumption.
Qed.

Lemma disjointb_spec : forall ts st,
  disjointb ts st = true <-> forall t, In t ts -> ~ In t st.
Proof.
  intros. unfold disjointb. rewrite forallb_forall. split; intros H t Ht.
  - apply mem_false_In. apply Bool.negb_true_iff. auto.
  - apply Bool.negb_true_iff. apply mem_false_In. auto.
Qed.

Lemma disjointb_insert : forall ts t v,
  disjointb ts (insert t v) = negb (mem t ts) && disjointb ts v.
Proof.
  induction ts as [|x r IH]; intros t v; cbn [disjointb forallb mem].
  - reflexivity.
  - fold (disjointb r (insert t v)). fold (disjointb r v). rewrite IH, mem_insert.
    rewrite (N.eqb_sym t x).
    destruct (x =? t), (mem x v), (mem t r), (disjointb r v); reflexivity.
Qed.

Lemma store_txs_found : forall ts v,
  snd (store_txs v ts) = negb (nodupb ts && disjointb ts v).
Proof.
  induction ts as [|t r IH]; intros v; cbn [store_txs nodupb disjointb forallb].
  - reflexivity.
  - fold (disjointb r v).
    specialize (IH (insert t v)). destruct (store_txs (insert t v) r) as [v' f].
    cbn [snd] in *. rewrite IH, disjointb_insert.
    destruct (mem t v), (mem t r), (nodupb r), (disjointb r v); reflexivity.
Qed.

(* ---------------- boolean equalities ---------------- *)

Lemma optN_eqb_eq : forall a b, optN_eqb a b = true <-> a = b.
Proof.
  destruct a, b; cbn [optN_eqb]; try rewrite N.eqb_eq; split; intro H;
    try discriminate; try congruence; reflexivity.
Qed.

Lemma optN_eqb_refl : forall a, optN_eqb a a = true.
Proof. intro. apply optN_eqb_eq. reflexivity. Qed.

Lemma listN_eqb_eq : forall a b, listN_eqb a b = true <-> a = b.
Proof.
  induction a as [|x a IH]; destruct b as [|y b]; cbn [listN_eqb];
    try (split; intro H; [discriminate | congruence]).
  - split; reflexivity.
  - rewrite Bool.andb_true_iff, N.eqb_eq, IH. split.
    + intros [-> ->]. reflexivity.
    + intro H. injection H as -> ->. split; reflexivity.
Qed.

Lemma listN_eqb_refl : forall a, listN_eqb a a = true.
Proof. intro. apply listN_eqb_eq. reflexivity. Qed.

Lemma dbobs_eqb_eq : forall a b, dbobs_eqb a b = true <-> a = b.
Proof.
  intros [a1 a2 a3 a4 a5 a6 a7] [b1 b2 b3 b4 b5 b6 b7]. unfold dbobs_eqb.
  cbn [o_latest o_blocks o_cons o_txs o_root o_marks o_held].
  rewrite !Bool.andb_true_iff, !optN_eqb_eq, !listN_eqb_eq, N.eqb_eq.
  split.
  - intros [[[[[[-> ->] ->] ->] ->] ->] ->]. reflexivity.
  - intro H. injection H as -> -> -> -> -> -> ->. tauto.
Qed.

Lemma dbobs_eqb_refl : forall a, dbobs_eqb a a = true.
Proof. intro. apply dbobs_eqb_eq. reflexivity. Qed.

Lemma bool_eqb_eq : forall a b, Bool.eqb a b = true <-> a = b.
Proof. destruct a, b; cbn; split; intro; congruence. Qed.

Lemma event_eqb_eq : forall a b, event_eqb a b = true <-> a = b.
Proof.
  destruct a, b; cbn [event_eqb]; try (split; intro H; [discriminate | congruence]).
  - rewrite N.eqb_eq. split; congruence.
  - rewrite listN_eqb_eq. split; congruence.
  - rewrite !Bool.andb_true_iff, N.eqb_eq, !bool_eqb_eq. split.
    + intros [[-> ->] ->]. reflexivity.
    + intro H. injection H as -> -> ->. tauto.
Qed.

Lemma events_eqb_eq : forall a b, events_eqb a b = true <-> a = b.
Proof.
  induction a as [|x a IH]; destruct b as [|y b]; cbn [events_eqb];
    try (split; intro H; [discriminate | congruence]).
  - split; reflexivity.
  - rewrite Bool.andb_true_iff, event_eqb_eq, IH. split.
    + intros [-> ->]. reflexivity.
    + intro H. injection H as -> ->. split; reflexivity.
Qed.

Lemma events_eqb_refl : forall a, events_eqb a a = true.
Proof. intro. apply events_eqb_eq. reflexivity. Qed.
