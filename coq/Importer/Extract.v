From FC Require Import Importer.Model.
Require Extraction.
Require Import ExtrOcamlBasic.
Extraction "importer_model.ml" main_T.
