(* Property theorems of the Compress cluster (C33). Statements, [exact], Print Assumptions only.
   KS = number of writable registry keys (implementation: 2^24 - 1; the key KS itself is
   RegistryKey::DEFAULT_VALUE), r = temporal registry retention in seconds.  A block is its header,
   its timestamp and, per transaction, the registry-substituted fields (keyspace, value) in traversal
   order, plus a marker of its malleable (compress(skip)) fields; the rest of a transaction is
   carried verbatim by the fuel-compression derive macros (trusted).  [hint]s are the iteration orders of the HashMaps of registrations: every theorem
   holds for every order. *)
From FC Require Import Compress.Model Compress.Proofs Compress.Proofs2 Compress.Proofs3.
Open Scope N_scope.

(* C33. For EVERY sequence of blocks (and evictor-cursor presets) compressed in order and
   decompressed in order, starting from registries with equal tables: every block is compressed,
   the decompressor returns the original block with its malleable fields reset to their defaults
   ([strip]: same header, same transaction ids, every registry-substituted field exact), and the
   registry / timestamp / reverse-index tables of both sides are equal again after the block --
   across key reuse, eviction of live keys, wrap-around of the key cursor, overwrite and expiry.
   Hypotheses: the compressor's registry is well formed (reverse index sound, keys writable);
   every block carries at least its mint transaction and preset cursors are writable keys;
   block timestamps do not decrease and are not older than the registry (otherwise compression is
   refused with "Invalid timestamp ordering", see roundtrip_history_any);
   TERMINATION SIDE CONDITION of CacheEvictor::next_key: per block and keyspace the number of
   distinct non-default values is below the number of writable keys (then the kept keys plus the
   new keys never exhaust the key space, which is exactly what the debug_assert of next_key and
   the termination of its while loop need). *)
Theorem roundtrip_history_up_to_malleable : forall KS r ops C D T,
  0 < KS -> WF KS C -> tables_eq C D -> ts_le T C ->
  Forall (fun oh => op_wf KS (fst oh)) ops ->
  Forall (fun oh => op_fits KS (fst oh)) ops ->
  times_mono T ops ->
  history_all KS r C D ops.
Proof. exact roundtrip_history_all. Qed.
Print Assumptions roundtrip_history_up_to_malleable.

(* The literal statement of C33 -- every block is reproduced EXACTLY -- holds for the histories
   outside the known class K-C33-malleable, i.e. when no transaction carries a non-default
   malleable (fuel-tx compress(skip)) field ... *)
Theorem roundtrip_history_partial : forall KS r ops C D T,
  0 < KS -> WF KS C -> tables_eq C D -> ts_le T C ->
  Forall (fun oh => op_wf KS (fst oh)) ops ->
  Forall (fun oh => op_fits KS (fst oh)) ops ->
  times_mono T ops ->
  Forall (fun oh => op_canonical (fst oh)) ops ->
  history_exact KS r C D ops.
Proof. exact roundtrip_history_exact_all. Qed.
Print Assumptions roundtrip_history_partial.

(* ... and is false inside it: one block with one transaction in executed form satisfies every
   other hypothesis, round-trips up to malleable fields, and is not reproduced exactly. *)
Theorem roundtrip_history_refuted :
  exists KS r ops,
    0 < KS /\ Forall (fun oh => op_wf KS (fst oh)) ops /\ Forall (fun oh => op_fits KS (fst oh)) ops /\
    times_mono 0 ops /\ ~ Forall (fun oh => op_canonical (fst oh)) ops /\
    history_all KS r st_empty st_empty ops /\ ~ history_exact KS r st_empty st_empty ops.
Proof. exact roundtrip_history_refuted_all. Qed.
Print Assumptions roundtrip_history_refuted.

(* ... in particular when both sides start from the empty registry, as in the harness *)
Theorem roundtrip_from_empty : forall KS r ops,
  0 < KS ->
  Forall (fun oh => op_wf KS (fst oh)) ops ->
  Forall (fun oh => op_fits KS (fst oh)) ops ->
  times_mono 0 ops ->
  history_all KS r st_empty st_empty ops.
Proof. exact roundtrip_from_empty_all. Qed.
Print Assumptions roundtrip_from_empty.

(* Without the timestamp and key-space hypotheses: whenever compression returns a compressed
   block, decompression reproduces the block (up to malleable fields) and the tables stay coupled; a refused block
   (timestamp ordering, exhausted key space) produces nothing and changes nothing. *)
Theorem roundtrip_history_any : forall KS r ops C D,
  0 < KS -> WF KS C -> tables_eq C D -> Forall (fun oh => op_wf KS (fst oh)) ops ->
  history_ok KS r C D ops.
Proof. exact roundtrip_history_any_all. Qed.
Print Assumptions roundtrip_history_any.

(* the inductive step: coupling invariant "compressor registry = decompressor registry" *)
Theorem roundtrip_one_block : forall KS r C D b hint cb C',
  0 < KS -> WF KS C -> tables_eq C D -> b_txs b <> [] ->
  compress_block KS r C b hint = Okay (cb, C') ->
  exists D', decompress_block KS r D cb = Okay (strip b, D') /\ tables_eq C' D' /\ WF KS C'.
Proof. exact roundtrip_block. Qed.
Print Assumptions roundtrip_one_block.

(* the key lemma: a key handed out for value v of keyspace s (default key for the default value,
   a key registered in this block, or a kept key of a fresh-enough registry entry) still maps to v,
   with an accessible timestamp, after this block's registrations have been written in any order *)
Theorem handed_out_key_decodes : forall KS r t st acc cx regs D1 s v k,
  WF KS st -> cinv KS acc cx ->
  same_regs (pget regs s) (changes (pget cx s)) ->
  reg (pget D1 s) = reg_after (pget regs s) t (reg (pget st s)) ->
  kok KS r t st acc cx s v k ->
  decompress_item KS r t D1 (s, k) = Okay (s, v).
Proof. exact decompress_item_ok. Qed.
Print Assumptions handed_out_key_decodes.

(* keys in use by the current block are never reassigned within it, fresh keys are distinct and
   writable: the invariant of the CompressCtx pass is kept by every step *)
Theorem compress_step_invariant : forall KS r t st acc cx s v k cx',
  0 < KS -> WF KS st -> cinv KS acc cx ->
  (forall found, v <> 0 -> db_lookup r t (pget st s) v = Okay (Some found) -> In found (pget acc s)) ->
  compress_item KS r t st cx (s, v) = Okay (k, cx') ->
  cinv KS acc cx' /\ grows cx cx' /\ kok KS r t st acc cx' s v k.
Proof. exact compress_item_spec. Qed.
Print Assumptions compress_step_invariant.

(* CacheEvictor::next_key: terminates (within the fuel of the model) while fewer than KS keys are
   kept, returns a writable key that was not kept; and the fuel is adequate: the model gives up
   only when at least KS keys are kept, i.e. when the loop of the implementation would not end *)
Theorem next_key_terminates : forall KS e,
  nextk e < KS -> N.of_nat (length (keep e)) < KS -> exists k e', next_key KS e = Some (k, e').
Proof. exact next_key_total. Qed.
Print Assumptions next_key_terminates.

Theorem next_key_fresh : forall KS e k e',
  0 < KS -> nextk e < KS -> next_key KS e = Some (k, e') ->
  k < KS /\ ~ In k (keep e) /\ keep e' = k :: keep e /\ nextk e' = k.
Proof. exact next_key_spec. Qed.
Print Assumptions next_key_fresh.

Theorem next_key_fuel_is_adequate : forall KS e,
  nextk e < KS -> next_key KS e = None -> KS <= N.of_nat (length (keep e)).
Proof. exact next_key_fuel_adequate. Qed.
Print Assumptions next_key_fuel_is_adequate.

(* compression is never refused for a block that is not older than the registry and fits *)
Theorem compress_never_refused : forall KS r T C b hint,
  0 < KS -> WF KS C -> ts_le T C -> T <= b_time b -> fits KS (concat (b_items b)) ->
  exists cb C', compress_block KS r C b hint = Okay (cb, C').
Proof. exact compress_block_total. Qed.
Print Assumptions compress_never_refused.

(* Pcheck.  replay_core replays the SPECIFICATION decompressor on the compressed blocks of a trace
   and compares with the trace's own decompression result and registry tables; replay_okb demands
   exact transaction equality on top.  Their meaning: *)
Theorem replay_core_sound : forall KS r ops os S,
  replay_core KS r S ops os = 1 <-> ReplayCore KS r S ops os.
Proof. exact replay_core_sound_all. Qed.
Print Assumptions replay_core_sound.

Theorem replay_checker_sound : forall KS r ops os S,
  replay_okb KS r S ops os = 1 <-> ReplaySpec KS r S ops os.
Proof. exact replay_okb_sound_all. Qed.
Print Assumptions replay_checker_sound.

(* ... and the trace of the model passes: the core for every history and every registration
   order, the exact checker for every history outside the known class *)
Theorem model_trace_core_accepted : forall KS r ops C D,
  0 < KS -> WF KS C -> tables_eq C D -> Forall (fun oh => op_wf KS (fst oh)) ops ->
  replay_core KS r D (map fst ops) (run_history KS r C D (map fst ops) (map snd ops)) = 1.
Proof. exact model_trace_core_all. Qed.
Print Assumptions model_trace_core_accepted.

Theorem model_trace_accepted : forall KS r ops C D,
  0 < KS -> WF KS C -> tables_eq C D -> Forall (fun oh => op_wf KS (fst oh)) ops ->
  Forall (fun oh => op_canonical (fst oh)) ops ->
  replay_okb KS r D (map fst ops) (run_history KS r C D (map fst ops) (map snd ops)) = 1.
Proof. exact model_trace_accepted_all. Qed.
Print Assumptions model_trace_accepted.

(* the initial (empty) registries of the harness satisfy the hypotheses *)
Theorem empty_registry_wf : forall KS T, WF KS st_empty /\ ts_le T st_empty /\ tables_eq st_empty st_empty.
Proof. intros KS T. exact (conj (WF_empty KS) (conj (ts_le_empty T) (tables_eq_refl st_empty))). Qed.
Print Assumptions empty_registry_wf.
