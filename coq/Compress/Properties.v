(* placeholder while the cluster is being built *)
From FC Require Import Compress.Model Compress.Proofs.
Open Scope N_scope.
Theorem accessible_at_registration : forall r t, is_timestamp_accessible r t t = Some true.
Proof. exact accessible_now. Qed.
Print Assumptions accessible_at_registration.
