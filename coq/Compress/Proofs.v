(* C33: lemmas about the registry layer.  Part 1: tables, evictor, passes, one block. *)
From FC Require Import Compress.Model.
From Coq Require Import ZifyBool ZifyN ZifyNat.
Open Scope N_scope.

(* ------------------------------------------------------------------ *)
(* per-keyspace records                                                *)

Lemma ksid_eq_dec : forall a b : ksid, {a = b} + {a <> b}.
Proof. decide equality. Qed.

Lemma pget_pset_same : forall A (p : per A) s a, pget (pset p s a) s = a.
Proof. intros A p s a; destruct s; reflexivity. Qed.
Lemma pget_pset_other : forall A (p : per A) s s' a, s <> s' -> pget (pset p s a) s' = pget p s'.
Proof. intros A p s s' a H; destruct s, s'; try reflexivity; congruence. Qed.
Lemma pget_pinit : forall A (f : ksid -> A) s, pget (pinit f) s = f s.
Proof. intros A f s; destruct s; reflexivity. Qed.
Lemma pget_pconst : forall A (a : A) s, pget (pconst a) s = a.
Proof. intros A a s; destruct s; reflexivity. Qed.
Lemma per_ext : forall A (p q : per A), (forall s, pget p s = pget q s) -> p = q.
Proof.
  intros A [a b c d e] [a' b' c' d' e'] H.
  pose proof (H KAddr); pose proof (H KAsset); pose proof (H KContract);
  pose proof (H KScript); pose proof (H KPred). cbn in *. congruence.
Qed.

(* ------------------------------------------------------------------ *)
(* association lists                                                   *)

Lemma alookup_aremove : forall A (l : list (N * A)) k k',
  alookup (aremove l k) k' = if k =? k' then None else alookup l k'.
Proof.
  intros A l k k'. unfold aremove. induction l as [|[a b] l IH]; cbn [filter alookup fst].
  - destruct (k =? k'); reflexivity.
  - destruct (N.eqb_spec a k) as [->|Hak]; cbn [negb].
    + rewrite IH. destruct (N.eqb_spec k k'); reflexivity.
    + cbn [alookup]. rewrite IH. destruct (N.eqb_spec a k') as [->|Hak'].
      * destruct (N.eqb_spec k k'); [congruence|reflexivity].
      * reflexivity.
Qed.

Lemma alookup_aset : forall A (l : list (N * A)) k v k',
  alookup (aset l k v) k' = if k =? k' then Some v else alookup l k'.
Proof.
  intros A l k v k'. unfold aset. cbn [alookup]. destruct (N.eqb_spec k k') as [->|H]; [reflexivity|].
  rewrite alookup_aremove. destruct (N.eqb_spec k k'); [congruence|reflexivity].
Qed.

Lemma mem_In : forall k l, mem k l = true <-> In k l.
Proof.
  intros k l; induction l as [|x l IH]; cbn [mem In].
  - split; [discriminate|tauto].
  - rewrite Bool.orb_true_iff, IH. destruct (N.eqb_spec x k); intuition congruence.
Qed.
Lemma mem_false : forall k l, mem k l = false <-> ~ In k l.
Proof.
  intros k l. rewrite <- mem_In. destruct (mem k l); intuition congruence.
Qed.

Lemma alookup_In : forall A (l : list (N * A)) k v, alookup l k = Some v -> In (k, v) l.
Proof.
  intros A l k v; induction l as [|[a b] l IH]; cbn [alookup]; [discriminate|].
  destruct (N.eqb_spec a k) as [->|H]; intros E.
  - inversion E; left; reflexivity.
  - right; auto.
Qed.
Lemma alookup_None : forall A (l : list (N * A)) k, ~ In k (map fst l) -> alookup l k = None.
Proof.
  intros A l k; induction l as [|[a b] l IH]; cbn [alookup map fst In]; [reflexivity|].
  intros H. destruct (N.eqb_spec a k); [tauto|]. apply IH; tauto.
Qed.
Lemma In_alookup : forall A (l : list (N * A)) k v,
  NoDup (map fst l) -> In (k, v) l -> alookup l k = Some v.
Proof.
  intros A l k v; induction l as [|[a b] l IH]; cbn [alookup map fst In]; [tauto|].
  intros Hnd [E|Hin].
  - inversion E; subst. rewrite N.eqb_refl. reflexivity.
  - inversion Hnd as [|? ? Hna Hnd']; subst. destruct (N.eqb_spec a k) as [->|_].
    + exfalso; apply Hna. apply (in_map fst) in Hin. exact Hin.
    + auto.
Qed.

Lemma nodupb_spec : forall l, nodupb l = true -> NoDup l.
Proof.
  induction l as [|x l IH]; cbn [nodupb]; intros H; [constructor|].
  apply Bool.andb_true_iff in H as [H1 H2]. constructor; [|auto].
  apply mem_false. destruct (mem x l); [discriminate|reflexivity].
Qed.

Lemma NoDup_snoc : forall A (l : list A) x, NoDup l -> ~ In x l -> NoDup (l ++ [x]).
Proof.
  intros A l x; induction l as [|y l IH]; cbn [app]; intros Hnd Hx.
  - constructor; [intros []|constructor].
  - inversion Hnd; subst. constructor.
    + intros Hin. apply in_app_or in Hin as [Hin|[<-|[]]]; [tauto|]. apply Hx. left; reflexivity.
    + apply IH; [assumption|]. intros Hin. apply Hx. right; exact Hin.
Qed.

Lemma NoDup_map_fst : forall A B (l : list (A * B)), NoDup (map fst l) -> NoDup l.
Proof.
  intros A B l; induction l as [|[a b] l IH]; cbn [map fst]; intros H; [constructor|].
  inversion H; subst. constructor; [|auto].
  intros Hin. apply (in_map fst) in Hin. auto.
Qed.

(* ------------------------------------------------------------------ *)
(* registry writes                                                     *)

Definition tabs_eq (a b : kspace) : Prop := reg a = reg b /\ idx a = idx b.
Definition tables_eq (C D : state) : Prop := forall s, tabs_eq (pget C s) (pget D s).

Lemma tabs_eq_write : forall a b key v t,
  tabs_eq a b -> tabs_eq (write_registry a key v t) (write_registry b key v t).
Proof. intros a b key v t [H1 H2]. unfold tabs_eq, write_registry; cbn [reg idx]. rewrite H1, H2. auto. Qed.

Lemma tabs_eq_write_all : forall regs a b t, tabs_eq a b -> tabs_eq (write_all a regs t) (write_all b regs t).
Proof.
  unfold write_all. induction regs as [|kv regs IH]; intros a b t H; cbn [fold_left]; [exact H|].
  apply IH. apply tabs_eq_write. exact H.
Qed.

Definition reg_after (regs : list (N * N)) (t : N) (rg : list (N * (N * N))) : list (N * (N * N)) :=
  fold_left (fun acc kv => aset acc (fst kv) (snd kv, t)) regs rg.

Lemma reg_write_all : forall regs k t, reg (write_all k regs t) = reg_after regs t (reg k).
Proof.
  unfold write_all, reg_after. induction regs as [|kv regs IH]; intros k t; cbn [fold_left]; [reflexivity|].
  rewrite IH. reflexivity.
Qed.
Lemma latest_write_all : forall regs k t, latest (write_all k regs t) = latest k.
Proof.
  unfold write_all. induction regs as [|kv regs IH]; intros k t; cbn [fold_left]; [reflexivity|].
  rewrite IH. reflexivity.
Qed.

Lemma reg_after_other : forall regs t rg key,
  ~ In key (map fst regs) -> alookup (reg_after regs t rg) key = alookup rg key.
Proof.
  unfold reg_after. induction regs as [|[k v] regs IH]; intros t rg key H; cbn [fold_left fst snd]; [reflexivity|].
  cbn [map fst In] in H. rewrite IH by tauto. rewrite alookup_aset.
  destruct (N.eqb_spec k key); [tauto|reflexivity].
Qed.
Lemma reg_after_in : forall regs t rg key v,
  NoDup (map fst regs) -> In (key, v) regs -> alookup (reg_after regs t rg) key = Some (v, t).
Proof.
  induction regs as [|[k v0] regs IH]; intros t rg key v Hnd Hin; [destruct Hin|].
  cbn [map fst] in Hnd. inversion Hnd as [|? ? Hna Hnd']; subst.
  change (reg_after ((k, v0) :: regs) t rg) with (reg_after regs t (aset rg k (v0, t))).
  destruct Hin as [E|Hin].
  - inversion E; subst. rewrite reg_after_other by exact Hna. rewrite alookup_aset, N.eqb_refl. reflexivity.
  - apply IH; assumption.
Qed.
Lemma reg_after_cases : forall regs t rg key x,
  alookup (reg_after regs t rg) key = Some x ->
  alookup rg key = Some x \/ exists v, In (key, v) regs /\ x = (v, t).
Proof.
  induction regs as [|[k v0] regs IH]; intros t rg key x H; [left; exact H|].
  change (reg_after ((k, v0) :: regs) t rg) with (reg_after regs t (aset rg k (v0, t))) in H.
  apply IH in H as [H|[v [Hin E]]].
  - rewrite alookup_aset in H. destruct (N.eqb_spec k key) as [->|_].
    + inversion H; subst. right; exists v0; split; [left; reflexivity|reflexivity].
    + left; exact H.
  - right; exists v; split; [right; exact Hin|exact E].
Qed.

(* ------------------------------------------------------------------ *)
(* well-formed keyspace                                                *)

Definition wf_ks (KS : N) (k : kspace) : Prop :=
  (forall v key, alookup (idx k) v = Some key -> exists t, alookup (reg k) key = Some (v, t)) /\
  (forall key x, alookup (reg k) key = Some x -> key < KS) /\
  (forall l, latest k = Some l -> l < KS).
Definition WF (KS : N) (st : state) : Prop := forall s, wf_ks KS (pget st s).

Lemma wf_write : forall KS k key v t, wf_ks KS k -> key < KS -> wf_ks KS (write_registry k key v t).
Proof.
  intros KS k key v t (Hi & Hk & Hl) Hlt. unfold wf_ks, write_registry; cbn [reg idx latest].
  split; [|split].
  - intros v' key' H. rewrite alookup_aset in H. destruct (N.eqb_spec v v') as [->|Hv].
    + inversion H; subst. exists t. rewrite alookup_aset, N.eqb_refl. reflexivity.
    + assert (Hold : alookup (idx k) v' = Some key' /\
                     (forall ov ot, alookup (reg k) key = Some (ov, ot) -> ov <> v')).
      { destruct (alookup (reg k) key) as [[ov ot]|] eqn:Eo.
        - rewrite alookup_aremove in H. destruct (N.eqb_spec ov v') as [->|Hov]; [discriminate|].
          split; [exact H|]. intros ? ? E; inversion E; subst; exact Hov.
        - split; [exact H|]. intros ? ? E; discriminate. }
      destruct Hold as [Hidx Hne]. destruct (Hi _ _ Hidx) as [t' Ht'].
      exists t'. rewrite alookup_aset. destruct (N.eqb_spec key key') as [->|_]; [|exact Ht'].
      exfalso. exact (Hne _ _ Ht' eq_refl).
  - intros key' x H. rewrite alookup_aset in H. destruct (N.eqb_spec key key') as [->|_]; [exact Hlt|eauto].
  - exact Hl.
Qed.

Lemma wf_write_all : forall KS regs k t,
  wf_ks KS k -> (forall key v, In (key, v) regs -> key < KS) -> wf_ks KS (write_all k regs t).
Proof.
  unfold write_all. induction regs as [|[key v] regs IH]; intros k t Hwf Hk; cbn [fold_left fst snd]; [exact Hwf|].
  apply IH.
  - apply wf_write; [exact Hwf|]. apply (Hk key v). left; reflexivity.
  - intros key' v' Hin. apply (Hk key' v'). right; exact Hin.
Qed.

Lemma wf_set_latest : forall KS k key, wf_ks KS k -> key < KS -> wf_ks KS (set_latest_assigned_key k key).
Proof.
  intros KS k key (Hi & Hk & Hl) Hlt. unfold wf_ks, set_latest_assigned_key; cbn [reg idx latest].
  split; [exact Hi|split; [exact Hk|]]. intros l E; inversion E; subst; exact Hlt.
Qed.

(* ------------------------------------------------------------------ *)
(* keys and the evictor                                                *)

Lemma key_next_lt : forall KS k, 0 < KS -> k < KS -> key_next KS k < KS.
Proof. intros KS k H0 Hk. unfold key_next. destruct (N.eqb_spec (k + 1) KS); lia. Qed.

Lemma next_key_loop_spec : forall KS fuel kp c k,
  0 < KS -> c < KS -> next_key_loop KS fuel kp c = Some k -> k < KS /\ ~ In k kp.
Proof.
  intros KS fuel kp. induction fuel as [|f IH]; intros c k H0 Hc H; cbn [next_key_loop] in H; [discriminate|].
  destruct (mem c kp) eqn:Em.
  - apply IH in H; [exact H|exact H0|]. apply key_next_lt; assumption.
  - inversion H; subst. split; [exact Hc|]. apply mem_false; exact Em.
Qed.

Lemma next_key_spec : forall KS e k e',
  0 < KS -> nextk e < KS -> next_key KS e = Some (k, e') ->
  k < KS /\ ~ In k (keep e) /\ keep e' = k :: keep e /\ nextk e' = k.
Proof.
  intros KS e k e' H0 Hc H. unfold next_key in H.
  destruct (next_key_loop KS (S (length (keep e))) (keep e) (nextk e)) as [k0|] eqn:E; [|discriminate].
  inversion H; subst. apply next_key_loop_spec in E; [|assumption|assumption].
  destruct E as [E1 E2]. cbn [keep nextk]. auto.
Qed.

(* ------------------------------------------------------------------ *)
(* timestamps                                                          *)

Lemma accessible_now : forall r t, is_timestamp_accessible r t t = Some true.
Proof.
  intros r t. unfold is_timestamp_accessible. rewrite N.leb_refl.
  replace (t - t) with 0 by lia. destruct (N.leb_spec 0 r); [reflexivity|lia].
Qed.

(* ------------------------------------------------------------------ *)
(* reorder                                                             *)

Lemma mapM_reorder : forall (ch : list (N * N)) hint l,
  mapM (fun k => option_map (pair k) (alookup ch k)) hint = Some l ->
  map fst l = hint /\ incl l ch.
Proof.
  intros ch. induction hint as [|k hint IH]; intros l H; cbn [mapM] in H.
  - inversion H; subst. split; [reflexivity|intros x []].
  - destruct (alookup ch k) as [v|] eqn:Ek; cbn [option_map] in H; [|discriminate].
    destruct (mapM _ hint) as [l'|] eqn:El; [|discriminate].
    inversion H; subst. destruct (IH l' eq_refl) as [H1 H2]. split.
    + cbn [map fst]. rewrite H1. reflexivity.
    + intros x [<-|Hx]; [apply alookup_In; exact Ek|apply H2; exact Hx].
Qed.

Definition same_regs (regs ch : list (N * N)) : Prop :=
  NoDup (map fst regs) /\ incl regs ch /\ incl ch regs.

Lemma reorder_spec : forall hint ch, NoDup (map fst ch) -> same_regs (reorder hint ch) ch.
Proof.
  intros hint ch Hnd. unfold reorder, same_regs.
  destruct (mapM _ hint) as [l|] eqn:El.
  - destruct (nodupb hint && Nat.eqb (length l) (length ch)) eqn:Ec.
    + apply Bool.andb_true_iff in Ec as [Ec1 Ec2]. apply Nat.eqb_eq in Ec2.
      destruct (mapM_reorder _ _ _ El) as [H1 H2].
      assert (Hndl : NoDup (map fst l)) by (rewrite H1; apply nodupb_spec; exact Ec1).
      split; [exact Hndl|split; [exact H2|]].
      apply NoDup_length_incl; [apply NoDup_map_fst; exact Hndl| |exact H2].
      rewrite Ec2. apply le_n.
    + split; [exact Hnd|split; apply incl_refl].
  - split; [exact Hnd|split; apply incl_refl].
Qed.

(* ------------------------------------------------------------------ *)
(* PrepareCtx                                                          *)

Lemma db_lookup_found : forall KS r t k v found,
  wf_ks KS k -> db_lookup r t k v = Okay (Some found) ->
  alookup (idx k) v = Some found /\
  exists kt, alookup (reg k) found = Some (v, kt) /\ is_timestamp_accessible r t kt = Some true.
Proof.
  intros KS r t k v found (Hi & _ & _) H. unfold db_lookup, registry_index_lookup, read_timestamp in H.
  destruct (alookup (idx k) v) as [f|] eqn:Ei; [|discriminate].
  destruct (Hi _ _ Ei) as [t' Ht']. rewrite Ht' in H. cbn [option_map snd] in H.
  destruct (is_timestamp_accessible r t t') as [[|]|] eqn:Ea; try discriminate.
  inversion H; subst. split; [reflexivity|]. exists t'. auto.
Qed.

Lemma prepare_item_mono : forall r t st acc it acc',
  prepare_item r t st acc it = Okay acc' -> forall s k, In k (pget acc s) -> In k (pget acc' s).
Proof.
  intros r t st acc [s0 v] acc' H s k Hin. unfold prepare_item in H.
  destruct (v =? 0); [inversion H; subst; exact Hin|].
  destruct (registry_index_lookup (pget st s0) v) as [f|]; [|inversion H; subst; exact Hin].
  destruct (mem f (pget acc s0)); [inversion H; subst; exact Hin|].
  destruct (read_timestamp (pget st s0) f) as [kt|]; [|discriminate].
  destruct (is_timestamp_accessible r t kt) as [[|]|]; try discriminate; inversion H; subst; [|exact Hin].
  destruct (ksid_eq_dec s0 s) as [->|Hne].
  - rewrite pget_pset_same. right; exact Hin.
  - rewrite pget_pset_other by exact Hne. exact Hin.
Qed.

Lemma prepare_item_adds : forall r t st acc s v acc' found,
  prepare_item r t st acc (s, v) = Okay acc' -> v <> 0 ->
  db_lookup r t (pget st s) v = Okay (Some found) -> In found (pget acc' s).
Proof.
  intros r t st acc s v acc' found H Hv Hdb. unfold prepare_item in H. unfold db_lookup in Hdb.
  destruct (N.eqb_spec v 0); [contradiction|].
  destruct (registry_index_lookup (pget st s) v) as [f|]; [|discriminate].
  destruct (mem f (pget acc s)) eqn:Em.
  - inversion H; subst. apply mem_In in Em.
    destruct (read_timestamp (pget st s) f); [|discriminate].
    destruct (is_timestamp_accessible r t n0) as [[|]|]; try discriminate. inversion Hdb; subst. exact Em.
  - destruct (read_timestamp (pget st s) f) as [kt|]; [|discriminate].
    destruct (is_timestamp_accessible r t kt) as [[|]|]; try discriminate.
    inversion H; subst. inversion Hdb; subst. rewrite pget_pset_same. left; reflexivity.
Qed.

Lemma prepare_spec : forall r t st items acc acc',
  prepare r t st acc items = Okay acc' ->
  (forall s k, In k (pget acc s) -> In k (pget acc' s)) /\
  (forall s v found, In (s, v) items -> v <> 0 ->
     db_lookup r t (pget st s) v = Okay (Some found) -> In found (pget acc' s)).
Proof.
  intros r t st. induction items as [|it items IH]; intros acc acc' H; cbn [prepare] in H.
  - inversion H; subst. split; [auto|intros ? ? ? []].
  - destruct (prepare_item r t st acc it) as [acc1|] eqn:E1; [|discriminate].
    destruct (IH _ _ H) as [Hm Ha]. split.
    + intros s k Hin. apply Hm. eapply prepare_item_mono; eassumption.
    + intros s v found [->|Hin] Hv Hdb.
      * apply Hm. eapply prepare_item_adds; eassumption.
      * eapply Ha; eassumption.
Qed.

(* ------------------------------------------------------------------ *)
(* CompressCtx                                                         *)

Definition cinv_ks (KS : N) (accs : list N) (c : cks) : Prop :=
  incl accs (keep (ev c)) /\
  incl (map fst (changes c)) (keep (ev c)) /\
  NoDup (map fst (changes c)) /\
  (forall k, In k accs -> ~ In k (map fst (changes c))) /\
  (forall v k, alookup (changes_lookup c) v = Some k -> In (k, v) (changes c)) /\
  (forall k v, In (k, v) (changes c) -> k < KS) /\
  nextk (ev c) < KS.
Definition cinv (KS : N) (acc : per (list N)) (cx : per cks) : Prop :=
  forall s, cinv_ks KS (pget acc s) (pget cx s).

(* what a key handed out for value [v] of keyspace [s] is, before the registrations are written *)
Definition kok (KS r t : N) (st : state) (acc : per (list N)) (cx : per cks) (s : ksid) (v k : N) : Prop :=
  (v = 0 /\ k = KS) \/
  In (k, v) (changes (pget cx s)) \/
  (In k (pget acc s) /\ exists kt, alookup (reg (pget st s)) k = Some (v, kt) /\
                                    is_timestamp_accessible r t kt = Some true).

Definition grows (cx cx' : per cks) : Prop :=
  forall s kv, In kv (changes (pget cx s)) -> In kv (changes (pget cx' s)).

Lemma kok_grows : forall KS r t st acc cx cx' s v k,
  grows cx cx' -> kok KS r t st acc cx s v k -> kok KS r t st acc cx' s v k.
Proof.
  intros KS r t st acc cx cx' s v k Hg [H|[H|H]]; [left; exact H|right; left; apply Hg; exact H|right; right; exact H].
Qed.

Lemma cinv_init : forall KS st acc, 0 < KS -> WF KS st -> cinv KS acc (into_compression_context KS st acc).
Proof.
  intros KS st acc H0 Hwf s. unfold into_compression_context. rewrite pget_pinit.
  unfold cinv_ks; cbn [ev changes changes_lookup keep nextk new_from_db map].
  repeat split.
  - apply incl_refl.
  - intros x [].
  - constructor.
  - intros k _ [].
  - intros v k H; discriminate.
  - intros k v [].
  - destruct (Hwf s) as (_ & _ & Hl). unfold get_latest_assigned_key.
    destruct (latest (pget st s)) as [l|] eqn:El; [|exact H0].
    apply key_next_lt; [exact H0|]. apply Hl. reflexivity.
Qed.

Lemma compress_item_spec : forall KS r t st acc cx s v k cx',
  0 < KS -> WF KS st -> cinv KS acc cx ->
  (forall found, v <> 0 -> db_lookup r t (pget st s) v = Okay (Some found) -> In found (pget acc s)) ->
  compress_item KS r t st cx (s, v) = Okay (k, cx') ->
  cinv KS acc cx' /\ grows cx cx' /\ kok KS r t st acc cx' s v k.
Proof.
  intros KS r t st acc cx s v k cx' H0 Hwf Hinv Hacc H. unfold compress_item in H.
  destruct (N.eqb_spec v 0) as [Hv|Hv].
  { inversion H; subst. split; [exact Hinv|split; [intros ? ? X; exact X|left; auto]]. }
  destruct (alookup (changes_lookup (pget cx s)) v) as [f|] eqn:Ecl.
  { inversion H; subst. split; [exact Hinv|split; [intros ? ? X; exact X|]].
    right; left. destruct (Hinv s) as (_ & _ & _ & _ & Hcl & _). apply Hcl. exact Ecl. }
  destruct (db_lookup r t (pget st s) v) as [[f|]|] eqn:Edb; [| |discriminate].
  { inversion H; subst. split; [exact Hinv|split; [intros ? ? X; exact X|]].
    right; right. split; [apply Hacc; [exact Hv|reflexivity]|].
    destruct (db_lookup_found _ _ _ _ _ _ (Hwf s) Edb) as [_ Hx]. exact Hx. }
  destruct (next_key KS (ev (pget cx s))) as [[k0 e']|] eqn:Enk; [|discriminate].
  inversion H; subst k0 cx'. clear H.
  destruct (Hinv s) as (Ha & Hc & Hnd & Hdis & Hcl & Hlt & Hnx).
  destruct (next_key_spec _ _ _ _ H0 Hnx Enk) as (Hk & Hnk & Hkeep & Hnext).
  split; [|split].
  - intros s'. destruct (ksid_eq_dec s s') as [<-|Hne].
    + rewrite pget_pset_same. unfold cinv_ks; cbn [ev changes changes_lookup].
      rewrite Hkeep, Hnext, map_app. cbn [map fst].
      split; [intros x Hx; right; apply Ha; exact Hx|].
      split; [intros x Hx; apply in_app_or in Hx as [Hx|[<-|[]]]; [right; apply Hc; exact Hx|left; reflexivity]|].
      split.
      { apply NoDup_snoc; [exact Hnd|]. intros Hin. apply Hnk. apply Hc. exact Hin. }
      split.
      { intros x Hx Hin. apply in_app_or in Hin as [Hin|[<-|[]]]; [exact (Hdis x Hx Hin)|].
        apply Hnk. apply Ha. exact Hx. }
      split.
      { intros v' k' E. cbn [alookup] in E. apply in_or_app.
        destruct (N.eqb_spec v v') as [->|_]; [inversion E; subst; right; left; reflexivity|].
        left. apply Hcl. exact E. }
      split.
      { intros k' v' Hin. apply in_app_or in Hin as [Hin|[E|[]]]; [eapply Hlt; exact Hin|].
        inversion E; subst. exact Hk. }
      exact Hk.
    + rewrite pget_pset_other by exact Hne. apply Hinv.
  - intros s' kv Hin. destruct (ksid_eq_dec s s') as [<-|Hne].
    + rewrite pget_pset_same. cbn [changes]. apply in_or_app. left; exact Hin.
    + rewrite pget_pset_other by exact Hne. exact Hin.
  - right; left. rewrite pget_pset_same. cbn [changes]. apply in_or_app. right; left; reflexivity.
Qed.

(* ------------------------------------------------------------------ *)
(* the CompressCtx pass over item lists                                *)

(* keys [cks] answer the items [its] one by one *)
Definition keys_ok (KS r t : N) (st : state) (acc : per (list N)) (cx : per cks)
           (its cks : list item) : Prop :=
  Forall2 (fun it ck => fst ck = fst it /\ kok KS r t st acc cx (fst it) (snd it) (snd ck)) its cks.

Lemma keys_ok_grows : forall KS r t st acc cx cx' its cks,
  grows cx cx' -> keys_ok KS r t st acc cx its cks -> keys_ok KS r t st acc cx' its cks.
Proof.
  intros KS r t st acc cx cx' its cks Hg H. unfold keys_ok in *.
  induction H as [|it ck its cks [H1 H2] _ IH]; constructor; [|exact IH].
  split; [exact H1|]. eapply kok_grows; eassumption.
Qed.

Lemma grows_refl : forall cx, grows cx cx.
Proof. intros cx s kv H; exact H. Qed.
Lemma grows_trans : forall a b c, grows a b -> grows b c -> grows a c.
Proof. intros a b c H1 H2 s kv H. apply H2, H1, H. Qed.

Definition acc_covers (r t : N) (st : state) (acc : per (list N)) (its : list item) : Prop :=
  forall s v found, In (s, v) its -> v <> 0 ->
    db_lookup r t (pget st s) v = Okay (Some found) -> In found (pget acc s).

Lemma compress_items_spec : forall KS r t st acc, 0 < KS -> WF KS st ->
  forall its cx cks cx',
  cinv KS acc cx -> acc_covers r t st acc its ->
  compress_items KS r t st cx its = Okay (cks, cx') ->
  cinv KS acc cx' /\ grows cx cx' /\ keys_ok KS r t st acc cx' its cks.
Proof.
  intros KS r t st acc H0 Hwf. induction its as [|[s v] its IH]; intros cx cks cx' Hinv Hcov H;
    cbn [compress_items] in H.
  - inversion H; subst. split; [exact Hinv|split; [apply grows_refl|constructor]].
  - destruct (compress_item KS r t st cx (s, v)) as [[k cx1]|] eqn:E1; [|discriminate].
    destruct (compress_items KS r t st cx1 its) as [[ks cx2]|] eqn:E2; [|discriminate].
    inversion H; subst cks cx'. clear H.
    destruct (compress_item_spec KS r t st acc cx s v k cx1 H0 Hwf Hinv) as (Hinv1 & Hg1 & Hk1); [|exact E1|].
    { intros found Hv Hdb. apply (Hcov s v found); [left; reflexivity|exact Hv|exact Hdb]. }
    destruct (IH cx1 ks cx2 Hinv1) as (Hinv2 & Hg2 & Hk2); [|exact E2|].
    { intros s' v' found Hin. apply (Hcov s' v' found). right; exact Hin. }
    split; [exact Hinv2|split; [eapply grows_trans; eassumption|]].
    constructor; [|exact Hk2]. cbn [fst snd]. split; [reflexivity|].
    eapply kok_grows; eassumption.
Qed.

Definition txs_ok (KS r t : N) (st : state) (acc : per (list N)) (cx : per cks)
           (txs ctxs : list (list item)) : Prop :=
  Forall2 (keys_ok KS r t st acc cx) txs ctxs.

Lemma compress_txs_spec : forall KS r t st acc, 0 < KS -> WF KS st ->
  forall txs cx ctxs cx',
  cinv KS acc cx -> acc_covers r t st acc (concat txs) ->
  compress_txs KS r t st cx txs = Okay (ctxs, cx') ->
  cinv KS acc cx' /\ grows cx cx' /\ txs_ok KS r t st acc cx' txs ctxs.
Proof.
  intros KS r t st acc H0 Hwf. induction txs as [|tx txs IH]; intros cx ctxs cx' Hinv Hcov H;
    cbn [compress_txs] in H.
  - inversion H; subst. split; [exact Hinv|split; [apply grows_refl|constructor]].
  - destruct (compress_items KS r t st cx tx) as [[ctx cx1]|] eqn:E1; [|discriminate].
    destruct (compress_txs KS r t st cx1 txs) as [[cs cx2]|] eqn:E2; [|discriminate].
    inversion H; subst ctxs cx'. clear H. cbn [concat] in Hcov.
    destruct (compress_items_spec KS r t st acc H0 Hwf tx cx ctx cx1 Hinv) as (Hinv1 & Hg1 & Hk1); [|exact E1|].
    { intros s v found Hin. apply (Hcov s v found). apply in_or_app; left; exact Hin. }
    destruct (IH cx1 cs cx2 Hinv1) as (Hinv2 & Hg2 & Hk2); [|exact E2|].
    { intros s v found Hin. apply (Hcov s v found). apply in_or_app; right; exact Hin. }
    split; [exact Hinv2|split; [eapply grows_trans; eassumption|]].
    constructor; [|exact Hk2]. eapply keys_ok_grows; eassumption.
Qed.

(* ------------------------------------------------------------------ *)
(* after the registrations are written: every handed-out key decodes   *)

Lemma decompress_item_ok : forall KS r t st acc cx regs D1 s v k,
  WF KS st -> cinv KS acc cx ->
  same_regs (pget regs s) (changes (pget cx s)) ->
  reg (pget D1 s) = reg_after (pget regs s) t (reg (pget st s)) ->
  kok KS r t st acc cx s v k ->
  decompress_item KS r t D1 (s, k) = Okay (s, v).
Proof.
  intros KS r t st acc cx regs D1 s v k Hwf Hinv (Hnd & Hsub & Hsup) Hreg Hk.
  destruct (Hinv s) as (_ & _ & _ & Hdis & _ & Hlt & _).
  unfold decompress_item, read_timestamp, read_registry. rewrite Hreg.
  destruct Hk as [[-> ->]|[Hin|[Hacc [kt [Hold Hac]]]]].
  - rewrite N.eqb_refl. reflexivity.
  - assert (Hk : k < KS) by (eapply Hlt; exact Hin).
    destruct (N.eqb_spec k KS); [lia|].
    rewrite (reg_after_in _ t _ k v Hnd (Hsup _ Hin)). cbn [option_map snd fst].
    rewrite accessible_now. reflexivity.
  - destruct (Hwf s) as (_ & Hkeys & _). assert (Hk : k < KS) by (eapply Hkeys; exact Hold).
    destruct (N.eqb_spec k KS); [lia|].
    rewrite reg_after_other.
    + rewrite Hold. cbn [option_map snd fst]. rewrite Hac. reflexivity.
    + intros Hin. apply (Hdis k Hacc). apply in_map_iff in Hin as [[k' v'] [E Hin]]. cbn [fst] in E; subst k'.
      apply in_map_iff. exists (k, v'). split; [reflexivity|apply Hsub; exact Hin].
Qed.

Lemma mapR_items_ok : forall KS r t D1 (P : ksid -> N -> N -> Prop),
  (forall s v k, P s v k -> decompress_item KS r t D1 (s, k) = Okay (s, v)) ->
  forall its cks, Forall2 (fun it ck => fst ck = fst it /\ P (fst it) (snd it) (snd ck)) its cks ->
  mapR (decompress_item KS r t D1) cks = Okay its.
Proof.
  intros KS r t D1 P HP its cks H. induction H as [|[s v] [s' k] its cks [H1 H2] _ IH]; cbn [mapR]; [reflexivity|].
  cbn [fst snd] in H1, H2. subst s'. rewrite (HP _ _ _ H2), IH. reflexivity.
Qed.

Lemma mapR_txs_ok : forall KS r t D1 (Q : list item -> list item -> Prop),
  (forall its cks, Q its cks -> mapR (decompress_item KS r t D1) cks = Okay its) ->
  forall txs ctxs, Forall2 Q txs ctxs ->
  mapR (mapR (decompress_item KS r t D1)) ctxs = Okay txs.
Proof.
  intros KS r t D1 Q HQ txs ctxs H. induction H as [|tx ctx txs ctxs H1 _ IH]; cbn [mapR]; [reflexivity|].
  rewrite (HQ _ _ H1), IH. reflexivity.
Qed.

(* ------------------------------------------------------------------ *)
(* one block                                                           *)

Lemma roundtrip_block : forall KS r C D b hint cb C',
  0 < KS -> WF KS C -> tables_eq C D -> b_txs b <> [] ->
  compress_block KS r C b hint = Okay (cb, C') ->
  exists D', decompress_block KS r D cb = Okay (strip b, D') /\ tables_eq C' D' /\ WF KS C'.
Proof.
  intros KS r C D b hint cb C' H0 Hwf Heq Hne H. unfold compress_block in H.
  set (t := b_time b) in *.
  destruct (prepare r t C (pconst []) (concat (b_items b))) as [acc|] eqn:Ep; [|discriminate].
  destruct (compress_txs KS r t C (into_compression_context KS C acc) (b_items b)) as [[ctxs cx]|] eqn:Ec;
    [|discriminate].
  unfold finalize in H. inversion H; subst cb C'. clear H.
  destruct (prepare_spec _ _ _ _ _ _ Ep) as [_ Hcov].
  destruct (compress_txs_spec KS r t C acc H0 Hwf (b_items b) _ ctxs cx (cinv_init KS C acc H0 Hwf) Hcov Ec)
    as (Hinv & _ & Hok).
  set (regs := pinit (fun s => reorder (pget hint s) (changes (pget cx s)))).
  assert (Hregs : forall s, same_regs (pget regs s) (changes (pget cx s))).
  { intros s. unfold regs. rewrite pget_pinit. apply reorder_spec.
    destruct (Hinv s) as (_ & _ & Hnd & _). exact Hnd. }
  unfold decompress_block. cbn [c_time c_regs c_txs c_hdr].
  set (D1 := write_to_registry D regs t).
  assert (HD1 : forall s, reg (pget D1 s) = reg_after (pget regs s) t (reg (pget C s))).
  { intros s. unfold D1, write_to_registry. rewrite pget_pinit, reg_write_all.
    destruct (Heq s) as [E _]. rewrite E. reflexivity. }
  assert (Hmap : mapR (mapR (decompress_item KS r t D1)) ctxs = Okay (b_items b)).
  { apply mapR_txs_ok with (Q := keys_ok KS r t C acc cx); [|exact Hok].
    intros its cks Hk. unfold keys_ok in Hk.
    apply mapR_items_ok with (P := fun s v k => kok KS r t C acc cx s v k); [|exact Hk].
    intros s v k Hkok. eapply decompress_item_ok; eauto. }
  rewrite Hmap. destruct (b_items b) as [|tx0 txs0] eqn:Eb.
  { unfold b_items in Eb. apply map_eq_nil in Eb. congruence. }
  rewrite <- Eb.
  exists D1. split; [|split].
  - f_equal. f_equal. unfold strip, b_items. rewrite map_map. reflexivity.
  - intros s. unfold D1, write_to_registry. rewrite !pget_pinit.
    apply tabs_eq_write_all. destruct (Heq s) as [E1 E2]. split; cbn [commit set_latest_assigned_key reg idx]; assumption.
  - intros s. unfold write_to_registry. rewrite !pget_pinit.
    destruct (Hinv s) as (_ & _ & _ & _ & _ & Hlt & Hnx). destruct (Hregs s) as (_ & Hsub & _).
    apply wf_write_all.
    + apply wf_set_latest; [apply Hwf|exact Hnx].
    + intros key v Hin. eapply Hlt. apply Hsub. exact Hin.
Qed.

(* ------------------------------------------------------------------ *)
(* histories                                                           *)

(* every block for which compression returns a compressed block is reproduced by the decompressor
   up to its malleable fields, and the tables of both sides stay equal; a block whose compression is refused
   produces nothing and changes nothing *)
Fixpoint history_ok (KS r : N) (C D : state) (ops : list (op * per (list N))) : Prop :=
  match ops with
  | [] => True
  | (OCursor s k, _) :: rest => history_ok KS r (set_cursor C s k) D rest
  | (OBlock b, h) :: rest =>
      match compress_block KS r C b h with
      | Fail _ => history_ok KS r C D rest
      | Okay (cb, C') =>
          match decompress_block KS r D cb with
          | Okay (b', D') => b' = strip b /\ tables_eq C' D' /\ history_ok KS r C' D' rest
          | Fail _ => False
          end
      end
  end.

Definition op_wf (KS : N) (o : op) : Prop :=
  match o with
  | OBlock b => b_txs b <> []          (* a block always carries its mint transaction *)
  | OCursor _ k => k < KS              (* the stored cursor is a writable key *)
  end.

Lemma set_cursor_wf : forall KS C s k, WF KS C -> k < KS -> WF KS (set_cursor C s k).
Proof.
  intros KS C s k Hwf Hk s'. unfold set_cursor. destruct (ksid_eq_dec s s') as [<-|Hne].
  - rewrite pget_pset_same. apply wf_set_latest; [apply Hwf|exact Hk].
  - rewrite pget_pset_other by exact Hne. apply Hwf.
Qed.
Lemma set_cursor_tables : forall C D s k, tables_eq C D -> tables_eq (set_cursor C s k) D.
Proof.
  intros C D s k Heq s'. unfold set_cursor. destruct (ksid_eq_dec s s') as [<-|Hne].
  - rewrite pget_pset_same. destruct (Heq s) as [E1 E2]. split; assumption.
  - rewrite pget_pset_other by exact Hne. apply Heq.
Qed.

Lemma roundtrip_history_any_all : forall KS r ops C D,
  0 < KS -> WF KS C -> tables_eq C D -> Forall (fun oh => op_wf KS (fst oh)) ops ->
  history_ok KS r C D ops.
Proof.
  intros KS r. induction ops as [|[o h] ops IH]; intros C D H0 Hwf Heq Hops; cbn [history_ok]; [exact Logic.I|].
  inversion Hops as [|? ? Ho Hops']; subst. cbn [fst] in Ho. destruct o as [b|s k]; cbn [op_wf] in Ho.
  - destruct (compress_block KS r C b h) as [[cb C']|e] eqn:Ec.
    + destruct (roundtrip_block KS r C D b h cb C' H0 Hwf Heq Ho Ec) as (D' & Hd & Heq' & Hwf').
      rewrite Hd. split; [reflexivity|split; [exact Heq'|]]. apply IH; assumption.
    + apply IH; assumption.
  - apply IH; [exact H0|apply set_cursor_wf; assumption|apply set_cursor_tables; exact Heq|exact Hops'].
Qed.
