(* Executable model of the DA-compression registry layer (C33):
     crates/compression/src/compress.rs          PrepareCtx / CompressCtx passes, finalize
     crates/compression/src/eviction_policy.rs   CacheEvictor::{new_from_db, next_key, commit}
     crates/compression/src/registry.rs          RegistrationsPerTable::write_to_registry
     crates/compression/src/config.rs            Config::is_timestamp_accessible
     crates/compression/src/decompress.rs        decompress, DecompressibleBy for the registry types
     crates/services/compression/src/temporal_registry.rs   storage-backed TemporalRegistry / EvictorDb
     fuel-compression RegistryKey (24 bit, next() wraps below DEFAULT_VALUE)
   A transaction is the list of its registry-substituted fields (keyspace, value) in the traversal order
   of the fuel-compression derive macros, plus a marker [t_mal] of its malleable fields: the fields that
   fuel-tx marks compress(skip) (script receipts_root, contract-input utxo_id / balance_root / state_root
   / tx_pointer, contract-output roots, change amount, variable output, coin tx_pointer; 0 = all of them
   have their default value, the "prepared for signing" form).  Skipped fields are not part of the
   compressed transaction and decompress to their defaults.  Everything else of a transaction is
   carried verbatim by the (trusted) derive macros and is not modelled.  Value 0 is the type's default value.  The reverse index of
   script / predicate code is keyed by the SHA-256 of the bytes in the code; the model keys it by the
   value itself (collision freedom of the hash on the values in use is assumed).
   The number of writable keys [KS] (real: 2^24 - 1, the raw DEFAULT_VALUE key) is a parameter. *)
From FC Require Export Common.T.
Open Scope N_scope.

(* ------------------------------------------------------------------ *)
(* keyspaces and per-keyspace records (registry.rs: tables!)           *)

Inductive ksid := KAddr | KAsset | KContract | KScript | KPred.
Definition ks_all : list ksid := [KAddr; KAsset; KContract; KScript; KPred].
Definition ks_to_N (s : ksid) : N :=
  match s with KAddr => 0 | KAsset => 1 | KContract => 2 | KScript => 3 | KPred => 4 end.
Definition ks_of_N (n : N) : option ksid :=
  match n with
  | 0 => Some KAddr | 1 => Some KAsset | 2 => Some KContract | 3 => Some KScript | 4 => Some KPred
  | _ => None
  end.

Record per (A : Type) := mkper { p_addr : A; p_asset : A; p_contract : A; p_script : A; p_pred : A }.
Arguments mkper {A}. Arguments p_addr {A}. Arguments p_asset {A}. Arguments p_contract {A}.
Arguments p_script {A}. Arguments p_pred {A}.

Definition pget {A} (p : per A) (s : ksid) : A :=
  match s with
  | KAddr => p_addr p | KAsset => p_asset p | KContract => p_contract p
  | KScript => p_script p | KPred => p_pred p
  end.
Definition pset {A} (p : per A) (s : ksid) (a : A) : per A :=
  match s with
  | KAddr => mkper a (p_asset p) (p_contract p) (p_script p) (p_pred p)
  | KAsset => mkper (p_addr p) a (p_contract p) (p_script p) (p_pred p)
  | KContract => mkper (p_addr p) (p_asset p) a (p_script p) (p_pred p)
  | KScript => mkper (p_addr p) (p_asset p) (p_contract p) a (p_pred p)
  | KPred => mkper (p_addr p) (p_asset p) (p_contract p) (p_script p) a
  end.
Definition pconst {A} (a : A) : per A := mkper a a a a a.
Definition pinit {A} (f : ksid -> A) : per A := mkper (f KAddr) (f KAsset) (f KContract) (f KScript) (f KPred).

(* ------------------------------------------------------------------ *)
(* association lists keyed by N (storage tables)                       *)

Fixpoint alookup {A} (l : list (N * A)) (k : N) : option A :=
  match l with
  | [] => None
  | (k', v) :: r => if k' =? k then Some v else alookup r k
  end.
Definition aremove {A} (l : list (N * A)) (k : N) : list (N * A) :=
  filter (fun p => negb (fst p =? k)) l.
Definition aset {A} (l : list (N * A)) (k : N) (v : A) : list (N * A) := (k, v) :: aremove l k.
Fixpoint mem (k : N) (l : list N) : bool :=
  match l with [] => false | x :: r => (x =? k) || mem k r end.
Fixpoint ainsert_sorted {A} (kv : N * A) (l : list (N * A)) : list (N * A) :=
  match l with
  | [] => [kv]
  | x :: r => if fst kv <=? fst x then kv :: l else x :: ainsert_sorted kv r
  end.
Definition asort {A} (l : list (N * A)) : list (N * A) := fold_right ainsert_sorted [] l.

(* ------------------------------------------------------------------ *)
(* results                                                             *)

Inductive res (A : Type) := Okay (a : A) | Fail (e : N).
Arguments Okay {A}. Arguments Fail {A}.
Definition E_ORDER : N := 1.      (* "Invalid timestamp ordering" *)
Definition E_NOTS : N := 2.       (* no timestamp stored for a key *)
Definition E_KEYS : N := 3.       (* every writable key is kept: next_key would not terminate *)
Definition E_INACC : N := 4.      (* "Timestamp not accessible" *)
Definition E_NOREG : N := 5.      (* key not in the registry table *)
Definition E_NOTX : N := 6.       (* "No transactions" *)

(* ------------------------------------------------------------------ *)
(* one keyspace of the temporal registry (temporal_registry.rs)        *)

Record kspace := mkks {
  reg : list (N * (N * N));      (* key -> (value, timestamp): registry table + Timestamps table *)
  idx : list (N * N);            (* value -> key: RegistryIndex *)
  latest : option N              (* EvictorCache: latest assigned key *)
}.
Definition ks_empty : kspace := mkks [] [] None.
Definition state := per kspace.
Definition st_empty : state := pconst ks_empty.

Definition read_registry (k : kspace) (key : N) : option N := option_map fst (alookup (reg k) key).
Definition read_timestamp (k : kspace) (key : N) : option N := option_map snd (alookup (reg k) key).
Definition registry_index_lookup (k : kspace) (v : N) : option N := alookup (idx k) v.

Definition write_registry (k : kspace) (key v t : N) : kspace :=
  let old := alookup (reg k) key in
  let idx1 := match old with Some (ov, _) => aremove (idx k) ov | None => idx k end in
  mkks (aset (reg k) key (v, t)) (aset idx1 v key) (latest k).

Definition get_latest_assigned_key (k : kspace) : option N := latest k.
Definition set_latest_assigned_key (k : kspace) (key : N) : kspace := mkks (reg k) (idx k) (Some key).

(* config.rs *)
Definition is_timestamp_accessible (retention block_ts key_ts : N) : option bool :=
  if key_ts <=? block_ts then Some (block_ts - key_ts <=? retention) else None.

(* fuel-compression key.rs: next() wraps just below the default key *)
Definition key_next (KS k : N) : N := if k + 1 =? KS then 0 else k + 1.

(* ------------------------------------------------------------------ *)
(* eviction_policy.rs                                                  *)

Record evictor := mkev { keep : list N; nextk : N }.

Definition new_from_db (KS : N) (k : kspace) (keep_keys : list N) : evictor :=
  mkev keep_keys (match get_latest_assigned_key k with Some l => key_next KS l | None => 0 end).

(* the while loop; it leaves after at most |keep| steps whenever it terminates at all *)
Fixpoint next_key_loop (KS : N) (fuel : nat) (kp : list N) (c : N) : option N :=
  match fuel with
  | O => None
  | S f => if mem c kp then next_key_loop KS f kp (key_next KS c) else Some c
  end.

Definition next_key (KS : N) (e : evictor) : option (N * evictor) :=
  match next_key_loop KS (S (length (keep e))) (keep e) (nextk e) with
  | Some k => Some (k, mkev (k :: keep e) k)
  | None => None
  end.

Definition commit (e : evictor) (k : kspace) : kspace := set_latest_assigned_key k (nextk e).

(* ------------------------------------------------------------------ *)
(* blocks                                                              *)

Definition item := (ksid * N)%type.          (* (keyspace, value) or (keyspace, key) *)
Record tx := mktx { t_mal : N; t_items : list item }.
Record block := mkblock { b_hdr : N; b_time : N; b_txs : list tx }.
Definition b_items (b : block) : list (list item) := map t_items (b_txs b).
(* the block with every malleable field reset to its default: same transaction ids *)
Definition tx_strip (x : tx) : tx := mktx 0 (t_items x).
Definition strip (b : block) : block := mkblock (b_hdr b) (b_time b) (map tx_strip (b_txs b)).
Record cblock := mkcblock {
  c_hdr : N; c_time : N;
  c_regs : per (list (N * N));               (* registrations: (key, value) in header order *)
  c_txs : list (list item)
}.

(* ------------------------------------------------------------------ *)
(* compress.rs: PrepareCtx                                             *)

Definition prepare_item (r t : N) (st : state) (acc : per (list N)) (it : item) : res (per (list N)) :=
  let '(s, v) := it in
  if v =? 0 then Okay acc else
  match registry_index_lookup (pget st s) v with
  | Some found =>
      if mem found (pget acc s) then Okay acc else
      match read_timestamp (pget st s) found with
      | None => Fail E_NOTS
      | Some kt =>
          match is_timestamp_accessible r t kt with
          | None => Fail E_ORDER
          | Some true => Okay (pset acc s (found :: pget acc s))
          | Some false => Okay acc
          end
      end
  | None => Okay acc
  end.

Fixpoint prepare (r t : N) (st : state) (acc : per (list N)) (items : list item) : res (per (list N)) :=
  match items with
  | [] => Okay acc
  | it :: rest =>
      match prepare_item r t st acc it with
      | Okay acc' => prepare r t st acc' rest
      | Fail e => Fail e
      end
  end.

(* ------------------------------------------------------------------ *)
(* compress.rs: CompressCtx                                            *)

Record cks := mkcks {
  ev : evictor;
  changes : list (N * N);            (* key -> value, in assignment order *)
  changes_lookup : list (N * N)      (* value -> key *)
}.

Definition into_compression_context (KS : N) (st : state) (acc : per (list N)) : per cks :=
  pinit (fun s => mkcks (new_from_db KS (pget st s) (pget acc s)) [] []).

Definition db_lookup (r t : N) (k : kspace) (v : N) : res (option N) :=
  match registry_index_lookup k v with
  | Some found =>
      match read_timestamp k found with
      | None => Fail E_NOTS
      | Some kt =>
          match is_timestamp_accessible r t kt with
          | None => Fail E_ORDER
          | Some true => Okay (Some found)
          | Some false => Okay None
          end
      end
  | None => Okay None
  end.

Definition compress_item (KS r t : N) (st : state) (cx : per cks) (it : item) : res (N * per cks) :=
  let '(s, v) := it in
  if v =? 0 then Okay (KS, cx) else
  let c := pget cx s in
  match alookup (changes_lookup c) v with
  | Some found => Okay (found, cx)
  | None =>
      match db_lookup r t (pget st s) v with
      | Fail e => Fail e
      | Okay (Some found) => Okay (found, cx)
      | Okay None =>
          match next_key KS (ev c) with
          | None => Fail E_KEYS
          | Some (k, e') =>
              Okay (k, pset cx s (mkcks e' (changes c ++ [(k, v)]) ((v, k) :: changes_lookup c)))
          end
      end
  end.

Fixpoint compress_items (KS r t : N) (st : state) (cx : per cks) (items : list item)
  : res (list item * per cks) :=
  match items with
  | [] => Okay ([], cx)
  | it :: rest =>
      match compress_item KS r t st cx it with
      | Fail e => Fail e
      | Okay (k, cx1) =>
          match compress_items KS r t st cx1 rest with
          | Fail e => Fail e
          | Okay (ks, cx2) => Okay ((fst it, k) :: ks, cx2)
          end
      end
  end.

Fixpoint compress_txs (KS r t : N) (st : state) (cx : per cks) (txs : list (list item))
  : res (list (list item) * per cks) :=
  match txs with
  | [] => Okay ([], cx)
  | tx :: rest =>
      match compress_items KS r t st cx tx with
      | Fail e => Fail e
      | Okay (ctx, cx1) =>
          match compress_txs KS r t st cx1 rest with
          | Fail e => Fail e
          | Okay (ctxs, cx2) => Okay (ctx :: ctxs, cx2)
          end
      end
  end.

(* The registrations of a keyspace are the entries of a HashMap in iteration order.  The order is
   supplied from outside ([hint] = the keys in the order seen in the compressed block); any hint
   that is not a duplicate-free enumeration of the assigned keys is ignored. *)
Fixpoint nodupb (l : list N) : bool :=
  match l with [] => true | x :: r => negb (mem x r) && nodupb r end.
Definition reorder (hint : list N) (ch : list (N * N)) : list (N * N) :=
  match mapM (fun k => option_map (pair k) (alookup ch k)) hint with
  | Some l => if nodupb hint && Nat.eqb (length l) (length ch) then l else ch
  | None => ch
  end.

Definition write_all (k : kspace) (regs : list (N * N)) (t : N) : kspace :=
  fold_left (fun acc kv => write_registry acc (fst kv) (snd kv) t) regs k.

(* registry.rs: write_to_registry *)
Definition write_to_registry (st : state) (regs : per (list (N * N))) (t : N) : state :=
  pinit (fun s => write_all (pget st s) (pget regs s) t).

(* CompressCtx::finalize: commit every evictor, collect the registrations, write them *)
Definition finalize (st : state) (cx : per cks) (hint : per (list N)) (t : N)
  : per (list (N * N)) * state :=
  let st1 := pinit (fun s => commit (ev (pget cx s)) (pget st s)) in
  let regs := pinit (fun s => reorder (pget hint s) (changes (pget cx s))) in
  (regs, write_to_registry st1 regs t).

Definition compress_block (KS r : N) (st : state) (b : block) (hint : per (list N))
  : res (cblock * state) :=
  let t := b_time b in
  match prepare r t st (pconst []) (concat (b_items b)) with
  | Fail e => Fail e
  | Okay acc =>
      match compress_txs KS r t st (into_compression_context KS st acc) (b_items b) with
      | Fail e => Fail e
      | Okay (ctxs, cx) =>
          let '(regs, st') := finalize st cx hint t in
          Okay (mkcblock (b_hdr b) t regs ctxs, st')
      end
  end.

(* ------------------------------------------------------------------ *)
(* decompress.rs                                                       *)

Definition decompress_item (KS r t : N) (st : state) (it : item) : res item :=
  let '(s, k) := it in
  if k =? KS then Okay (s, 0) else
  match read_timestamp (pget st s) k with
  | None => Fail E_NOTS
  | Some kt =>
      match is_timestamp_accessible r t kt with
      | None => Fail E_ORDER
      | Some false => Fail E_INACC
      | Some true =>
          match read_registry (pget st s) k with
          | None => Fail E_NOREG
          | Some v => Okay (s, v)
          end
      end
  end.

Fixpoint mapR {A B} (f : A -> res B) (l : list A) : res (list B) :=
  match l with
  | [] => Okay []
  | x :: r =>
      match f x with
      | Fail e => Fail e
      | Okay y => match mapR f r with Fail e => Fail e | Okay ys => Okay (y :: ys) end
      end
  end.

Definition decompress_block (KS r : N) (st : state) (cb : cblock) : res (block * state) :=
  let t := c_time cb in
  let st1 := write_to_registry st (c_regs cb) t in
  match mapR (mapR (decompress_item KS r t st1)) (c_txs cb) with
  | Fail e => Fail e
  | Okay txs =>
      match txs with
      | [] => Fail E_NOTX
      | _ => Okay (mkblock (c_hdr cb) t (map (mktx 0) txs), st1)
      end
  end.

(* ------------------------------------------------------------------ *)
(* histories                                                           *)

Inductive op := OBlock (b : block) | OCursor (s : ksid) (k : N).

Definition set_cursor (st : state) (s : ksid) (k : N) : state :=
  pset st s (set_latest_assigned_key (pget st s) k).

(* what the harness observes *)
Inductive obs :=
| BOk (keys : list (list item)) (regs : per (list (N * N))) (dstatus : N) (hdr_eq txs_eq ids_eq : bool)
      (ctab dtab : state)
| BErr (ctab dtab : state)
| BCursor.

Fixpoint list_eqb {A} (f : A -> A -> bool) (x y : list A) : bool :=
  match x, y with
  | [], [] => true
  | p :: x', q :: y' => f p q && list_eqb f x' y'
  | _, _ => false
  end.
Definition item_eqb (x y : item) : bool := (ks_to_N (fst x) =? ks_to_N (fst y)) && (snd x =? snd y).
Definition block_eqb_items (a b : list (list item)) : bool := list_eqb (list_eqb item_eqb) a b.

Definition tx_eqb (x y : tx) : bool := (t_mal x =? t_mal y) && list_eqb item_eqb (t_items x) (t_items y).
Definition block_eqb (a b : block) : bool :=
  (b_hdr a =? b_hdr b) && (b_time a =? b_time b) && list_eqb tx_eqb (b_txs a) (b_txs b).
Definition canonicalb (b : block) : bool := forallb (fun x => t_mal x =? 0) (b_txs b).

Fixpoint run_history (KS r : N) (C D : state) (ops : list op) (hints : list (per (list N))) : list obs :=
  match ops with
  | [] => []
  | o :: rest =>
      let h := match hints with x :: _ => x | [] => pconst [] end in
      let hs := match hints with _ :: y => y | [] => [] end in
      match o with
      | OCursor s k => BCursor :: run_history KS r (set_cursor C s k) D rest hs
      | OBlock b =>
          match compress_block KS r C b h with
          | Fail _ => BErr C D :: run_history KS r C D rest hs
          | Okay (cb, C') =>
              match decompress_block KS r D cb with
              | Okay (b', D') =>
                  BOk (c_txs cb) (c_regs cb) 0 ((b_hdr b' =? b_hdr b) && (b_time b' =? b_time b))
                      (list_eqb tx_eqb (b_txs b') (b_txs b)) (block_eqb_items (b_items b') (b_items b)) C' D'
                  :: run_history KS r C' D' rest hs
              | Fail _ =>
                  BOk (c_txs cb) (c_regs cb) 1 false false false C' D :: run_history KS r C' D rest hs
              end
          end
      end
  end.

(* ------------------------------------------------------------------ *)
(* Pcheck: the specification decompressor (decompress_block from the empty registry) is replayed on
   the compressed blocks the IMPLEMENTATION produced; it must reproduce every block up to its
   malleable fields (strip), the implementation's own decompressor must have reported success, an equal
   header, equal transaction ids and -- for blocks without malleable fields -- equal transactions, and
   the registry, timestamp and reverse-index tables of both implementation stores must equal the
   specification registry after every block.  On top of that, exact equality of the transactions
   is demanded for every block.
   codes: 1 ok; 2 a compressed block does not decode to the original block under the specification;
   3 the implementation's decompressor failed or returned a different block; 4 registry tables of
   compressor / decompressor / specification differ; 5 everything above holds but some block with
   non-default malleable fields was not reproduced exactly (only its stripped form);
   0 malformed trace. *)

Definition row_eqb (x y : N * (N * N)) : bool :=
  (fst x =? fst y) && (fst (snd x) =? fst (snd y)) && (snd (snd x) =? snd (snd y)).
Definition pair_eqb (x y : N * N) : bool := (fst x =? fst y) && (snd x =? snd y).
Definition tab_eqb (a b : kspace) : bool :=
  list_eqb row_eqb (asort (reg a)) (asort (reg b)) && list_eqb pair_eqb (asort (idx a)) (asort (idx b)).

Definition tabs_eqb (a b : state) : bool := forallb (fun s => tab_eqb (pget a s) (pget b s)) ks_all.

Fixpoint replay_core (KS r : N) (S : state) (ops : list op) (os : list obs) : N :=
  match ops, os with
  | [], [] => 1
  | OCursor _ _ :: ops', BCursor :: os' => replay_core KS r S ops' os'
  | OBlock b :: ops', BErr ctab dtab :: os' =>
      if tabs_eqb ctab S && tabs_eqb dtab S then replay_core KS r S ops' os' else 4
  | OBlock b :: ops', BOk keys regs dstatus hdr_eq txs_eq ids_eq ctab dtab :: os' =>
      match decompress_block KS r S (mkcblock (b_hdr b) (b_time b) regs keys) with
      | Fail _ => 2
      | Okay (b', S') =>
          if negb (block_eqb b' (strip b)) then 2
          else if negb ((dstatus =? 0) && hdr_eq && ids_eq && (txs_eq || negb (canonicalb b))) then 3
          else if negb (tabs_eqb ctab S' && tabs_eqb dtab S') then 4
          else replay_core KS r S' ops' os'
      end
  | _, _ => 0
  end.

Definition obs_exact (o : obs) : bool :=
  match o with BOk _ _ _ _ txs_eq _ _ _ => txs_eq | _ => true end.

Definition replay_okb (KS r : N) (S : state) (ops : list op) (os : list obs) : N :=
  match replay_core KS r S ops os with
  | 1 => if forallb obs_exact os then 1 else 5
  | c => c
  end.

(* ------------------------------------------------------------------ *)
(* T codecs and entry point                                            *)

Definition KS_REAL : N := 16777215.       (* RegistryKey::DEFAULT_VALUE.as_u32() = 2^24 - 1 *)

Definition T_item2 (s : ksid) (t : T) : option item := option_map (pair s) (getN t).

(* input  = (0 contract) | (1 predicate) | (2 predicate) | (3) *)
Definition T_input (t : T) : option (list item) :=
  match t with
  | L [I 0%Z; c] => option_map (fun x => [x]) (T_item2 KContract c)
  | L [I 1%Z; p] => option_map (fun x => [x]) (T_item2 KPred p)
  | L [I 2%Z; p] => option_map (fun x => [x]) (T_item2 KPred p)
  | L [I 3%Z] => Some []
  | _ => None
  end.
(* output = (0 addr asset) | (1 addr asset) | (2 contract) | (3) | (4) *)
Definition T_output (t : T) : option (list item) :=
  match t with
  | L [I 0%Z; a; s] | L [I 1%Z; a; s] =>
      match getN a, getN s with Some a, Some s => Some [(KAddr, a); (KAsset, s)] | _, _ => None end
  | L [I 2%Z; c] => option_map (fun x => [x]) (T_item2 KContract c)
  | L [I 3%Z] => Some []
  | L [I 4%Z] => Some []
  | _ => None
  end.
(* tx = (script inputs outputs [mal]): script, then the inputs, then the outputs *)
Definition T_tx (t : T) : option tx :=
  match t with
  | L [sc; L ins; L outs] =>
      match getN sc, mapM T_input ins, mapM T_output outs with
      | Some sc, Some ins, Some outs => Some (mktx 0 ((KScript, sc) :: concat ins ++ concat outs))
      | _, _, _ => None
      end
  | L [sc; L ins; L outs; m] =>
      match getN sc, mapM T_input ins, mapM T_output outs, getN m with
      | Some sc, Some ins, Some outs, Some m => Some (mktx m ((KScript, sc) :: concat ins ++ concat outs))
      | _, _, _, _ => None
      end
  | _ => None
  end.
(* the mint transaction: input contract, then the minted asset id *)
Definition T_mint (t : T) : option tx :=
  match t with
  | L [mc; ma] =>
      match getN mc, getN ma with
      | Some mc, Some ma => Some (mktx 0 [(KContract, mc); (KAsset, ma)]) | _, _ => None end
  | L [mc; ma; mm] =>
      match getN mc, getN ma, getN mm with
      | Some mc, Some ma, Some mm => Some (mktx mm [(KContract, mc); (KAsset, ma)]) | _, _, _ => None end
  | _ => None
  end.
Definition T_op (t : T) : option op :=
  match t with
  | L [I 0%Z; h; tm; L txs; mint] =>
      match getN h, getN tm, mapM T_tx txs, T_mint mint with
      | Some h, Some tm, Some txs, Some mint =>
          (* the mint transaction comes last *)
          Some (OBlock (mkblock h tm (txs ++ [mint])))
      | _, _, _, _ => None
      end
  | L [I 1%Z; s; k] =>
      match getN s, getN k with
      | Some s, Some k =>
          match ks_of_N s with
          | Some s => if k <? KS_REAL then Some (OCursor s k) else None
          | None => None
          end
      | _, _ => None
      end
  | _ => None
  end.

Definition item_T (it : item) : T := L [tN (ks_to_N (fst it)); tN (snd it)].
Definition T_item (t : T) : option item :=
  match t with
  | L [s; k] => match getN s, getN k with
                | Some s, Some k => option_map (fun s => (s, k)) (ks_of_N s)
                | _, _ => None end
  | _ => None
  end.
Definition pair_T (p : N * N) : T := L [tN (fst p); tN (snd p)].
Definition T_pair (t : T) : option (N * N) :=
  match t with
  | L [a; b] => match getN a, getN b with Some a, Some b => Some (a, b) | _, _ => None end
  | _ => None
  end.
Definition row_T (p : N * (N * N)) : T := L [tN (fst p); tN (fst (snd p)); tN (snd (snd p))].
Definition T_row (t : T) : option (N * (N * N)) :=
  match t with
  | L [a; b; c] => match getN a, getN b, getN c with
                   | Some a, Some b, Some c => Some (a, (b, c)) | _, _, _ => None end
  | _ => None
  end.
Definition per_T {A} (f : A -> T) (p : per A) : T := L (map (fun s => f (pget p s)) ks_all).
Definition T_per {A} (f : T -> option A) (t : T) : option (per A) :=
  match t with
  | L [a; b; c; d; e] =>
      match f a, f b, f c, f d, f e with
      | Some a, Some b, Some c, Some d, Some e => Some (mkper a b c d e)
      | _, _, _, _, _ => None
      end
  | _ => None
  end.
Definition T_list {A} (f : T -> option A) (t : T) : option (list A) :=
  match t with L l => mapM f l | _ => None end.

Definition ctab_T (k : kspace) : T :=
  L [L (map row_T (asort (reg k))); L (map pair_T (asort (idx k))); tOptN (latest k)].
Definition dtab_T (k : kspace) : T :=
  L [L (map row_T (asort (reg k))); L (map pair_T (asort (idx k)))].
Definition T_tab (t : T) : option kspace :=
  match t with
  | L [rows; ix] =>
      match T_list T_row rows, T_list T_pair ix with
      | Some rows, Some ix => Some (mkks rows ix None) | _, _ => None end
  | L [rows; ix; lt] =>
      match T_list T_row rows, T_list T_pair ix, getOptN lt with
      | Some rows, Some ix, Some lt => Some (mkks rows ix lt) | _, _, _ => None end
  | _ => None
  end.

Definition obs_T (o : obs) : T :=
  match o with
  | BOk keys regs ds he te ie ctab dtab =>
      L [I 0; L (map (fun tx => L (map item_T tx)) keys); per_T (fun l => L (map pair_T l)) regs;
         tN ds; tB he; tB te; tB ie; per_T ctab_T ctab; per_T dtab_T dtab]
  | BErr ctab dtab => L [I 1; per_T ctab_T ctab; per_T dtab_T dtab]
  | BCursor => L [I 2]
  end.
Definition T_obs (t : T) : option obs :=
  match t with
  | L [I 0%Z; keys; regs; ds; he; te; ie; ctab; dtab] =>
      match T_list (T_list T_item) keys, T_per (T_list T_pair) regs, getN ds, getB he, getB te, getB ie,
            T_per T_tab ctab, T_per T_tab dtab with
      | Some keys, Some regs, Some ds, Some he, Some te, Some ie, Some ctab, Some dtab =>
          Some (BOk keys regs ds he te ie ctab dtab)
      | _, _, _, _, _, _, _, _ => None
      end
  | L [I 1%Z; ctab; dtab] =>
      match T_per T_tab ctab, T_per T_tab dtab with
      | Some ctab, Some dtab => Some (BErr ctab dtab) | _, _ => None end
  | L [I 2%Z] => Some BCursor
  | _ => None
  end.

(* the order of the registrations of one observed block (oracle for the HashMap iteration order) *)
Definition hint_of (t : T) : per (list N) :=
  match t with
  | L (I 0%Z :: _ :: regs :: _) =>
      match T_per (T_list T_pair) regs with
      | Some p => pinit (fun s => map fst (pget p s))
      | None => pconst []
      end
  | _ => pconst []
  end.

Definition main33 (input observed : T) : T :=
  match input with
  | L [r; _nanos; L ops] =>
      match getN r, mapM T_op ops with
      | Some r, Some ops =>
          let hints := match observed with L os => map hint_of os | _ => [] end in
          let model := L (map obs_T (run_history KS_REAL r st_empty st_empty ops hints)) in
          let pc := match T_list T_obs observed with
                    | Some os => replay_okb KS_REAL r st_empty ops os
                    | None => 0
                    end in
          L [model; tN pc]
      | _, _ => tErr 2
      end
  | _ => tErr 1
  end.

Definition main_T (req : T) : T :=
  match req with
  | L [I 33%Z; input; observed] => main33 input observed
  | _ => tErr 0
  end.
