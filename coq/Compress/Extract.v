From FC Require Import Compress.Model.
Require Extraction.
Require Import ExtrOcamlBasic.
Extraction "compress_model.ml" main_T.
