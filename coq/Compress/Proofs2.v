(* C33, part 2: compression never fails when block timestamps do not decrease and the keyspace
   side condition of next_key holds; the full round-trip theorem over histories. *)
From FC Require Import Compress.Model Compress.Proofs.
From Coq Require Import ZifyBool ZifyN ZifyNat.
Open Scope N_scope.

(* ------------------------------------------------------------------ *)
(* termination of CacheEvictor::next_key                               *)

(* the keys the loop looks at, starting from c *)
Fixpoint visit (KS : N) (c : N) (n : nat) : list N :=
  match n with O => [] | S m => c :: visit KS (key_next KS c) m end.

Definition pos (KS c i : N) : N := if c + i <? KS then c + i else c + i - KS.

Lemma pos_next : forall KS c i, c < KS -> i + 1 < KS -> pos KS (key_next KS c) i = pos KS c (i + 1).
Proof.
  intros KS c i Hc Hi. unfold pos, key_next.
  destruct (N.eqb_spec (c + 1) KS); destruct (N.ltb_spec (c + (i + 1)) KS);
    destruct (N.ltb_spec (0 + i) KS); destruct (N.ltb_spec (c + 1 + i) KS); lia.
Qed.
Lemma pos_ne0 : forall KS c i, c < KS -> 0 < i -> i < KS -> pos KS c i <> c.
Proof. intros KS c i Hc H0 Hi. unfold pos. destruct (N.ltb_spec (c + i) KS); lia. Qed.

Lemma visit_in : forall KS n c x, c < KS -> N.of_nat n <= KS ->
  In x (visit KS c n) -> exists i, i < N.of_nat n /\ x = pos KS c i.
Proof.
  intros KS. induction n as [|m IH]; intros c x Hc Hn H; cbn [visit] in H; [destruct H|].
  destruct H as [<-|H].
  - exists 0. split; [lia|]. unfold pos. destruct (N.ltb_spec (c + 0) KS); lia.
  - assert (H0 : 0 < KS) by lia.
    apply IH in H; [|apply key_next_lt; assumption|lia].
    destruct H as [i [Hi ->]]. exists (i + 1). split; [lia|]. apply pos_next; lia.
Qed.

Lemma visit_nodup : forall KS n c, c < KS -> N.of_nat n <= KS -> NoDup (visit KS c n).
Proof.
  intros KS. induction n as [|m IH]; intros c Hc Hn; cbn [visit]; [constructor|].
  assert (H0 : 0 < KS) by lia.
  constructor.
  - intros H. apply visit_in in H; [|apply key_next_lt; assumption|lia].
    destruct H as [i [Hi E]]. rewrite pos_next in E by lia.
    symmetry in E. revert E. apply pos_ne0; lia.
  - apply IH; [apply key_next_lt; assumption|lia].
Qed.

Lemma loop_none_visits : forall KS n kp c, next_key_loop KS n kp c = None -> incl (visit KS c n) kp.
Proof.
  intros KS. induction n as [|m IH]; intros kp c H; cbn [next_key_loop visit] in *; [intros x []|].
  destruct (mem c kp) eqn:Em; [|discriminate].
  intros x [<-|Hx]; [apply mem_In; exact Em|]. eapply IH; eassumption.
Qed.
Lemma visit_length : forall KS n c, length (visit KS c n) = n.
Proof. intros KS. induction n as [|m IH]; intros c; cbn [visit length]; [reflexivity|]. rewrite IH. reflexivity. Qed.

Lemma next_key_loop_total : forall KS kp c,
  c < KS -> N.of_nat (length kp) < KS -> exists k, next_key_loop KS (S (length kp)) kp c = Some k.
Proof.
  intros KS kp c Hc Hlen.
  destruct (next_key_loop KS (S (length kp)) kp c) as [k|] eqn:E; [exists k; reflexivity|].
  exfalso. apply loop_none_visits in E.
  assert (Hnd : NoDup (visit KS c (S (length kp)))) by (apply visit_nodup; lia).
  pose proof (NoDup_incl_length Hnd E) as Hle. rewrite visit_length in Hle. lia.
Qed.

Lemma next_key_total : forall KS e,
  nextk e < KS -> N.of_nat (length (keep e)) < KS -> exists k e', next_key KS e = Some (k, e').
Proof.
  intros KS e Hc Hlen. unfold next_key.
  destruct (next_key_loop_total KS (keep e) (nextk e) Hc Hlen) as [k ->]. eauto.
Qed.

(* the fuel of the model is adequate: when the loop of the model gives up, every writable key is
   kept, i.e. the while loop of the implementation does not terminate *)
Lemma next_key_fuel_adequate : forall KS e,
  nextk e < KS -> next_key KS e = None -> KS <= N.of_nat (length (keep e)).
Proof.
  intros KS e Hc H. destruct (N.ltb_spec (N.of_nat (length (keep e))) KS) as [Hlt|Hge]; [|exact Hge].
  destruct (next_key_total KS e Hc Hlt) as (k & e' & E). congruence.
Qed.

(* ------------------------------------------------------------------ *)
(* values of a block                                                   *)

Definition ks_eqb (a b : ksid) : bool := ks_to_N a =? ks_to_N b.
Lemma ks_eqb_eq : forall a b, ks_eqb a b = true <-> a = b.
Proof. intros a b; destruct a, b; cbn; split; intros H; congruence. Qed.

Definition vals_of (s : ksid) (its : list item) : list N :=
  map snd (filter (fun it => ks_eqb (fst it) s) its).
(* the distinct non-default values of keyspace s in a block *)
Definition distinct_vals (s : ksid) (its : list item) : list N :=
  nodup N.eq_dec (filter (fun v => negb (v =? 0)) (vals_of s its)).

Lemma distinct_vals_in : forall s v its, In (s, v) its -> v <> 0 -> In v (distinct_vals s its).
Proof.
  intros s v its Hin Hv. unfold distinct_vals, vals_of. apply nodup_In. apply filter_In. split.
  - apply in_map_iff. exists (s, v). split; [reflexivity|]. apply filter_In. split; [exact Hin|].
    cbn [fst]. apply ks_eqb_eq. reflexivity.
  - destruct (N.eqb_spec v 0); [contradiction|reflexivity].
Qed.

Lemma filter_partition_length : forall A (f : A -> bool) l,
  (length (filter f l) + length (filter (fun x => negb (f x)) l) = length l)%nat.
Proof.
  intros A f l; induction l as [|x l IH]; cbn [filter length]; [reflexivity|].
  destruct (f x); cbn [negb length]; lia.
Qed.

Definition fav (r t : N) (st : state) (s : ksid) (v : N) : bool :=
  match db_lookup r t (pget st s) v with Okay (Some _) => true | _ => false end.
Definition keyof (st : state) (s : ksid) (v : N) : N :=
  match registry_index_lookup (pget st s) v with Some f => f | None => 0 end.

Definition fits (KS : N) (its : list item) : Prop :=
  forall s, N.of_nat (length (distinct_vals s its)) < KS.

(* ------------------------------------------------------------------ *)
(* no failure when the block is not older than the registry            *)

Definition ts_le (T : N) (st : state) : Prop :=
  forall s key v kt, alookup (reg (pget st s)) key = Some (v, kt) -> kt <= T.

Lemma accessible_some : forall r t kt, kt <= t -> exists b, is_timestamp_accessible r t kt = Some b.
Proof.
  intros r t kt H. unfold is_timestamp_accessible. destruct (N.leb_spec kt t); [eauto|lia].
Qed.

Lemma db_lookup_total : forall KS r t T st s v,
  WF KS st -> ts_le T st -> T <= t -> exists o, db_lookup r t (pget st s) v = Okay o.
Proof.
  intros KS r t T st s v Hwf Hts Ht. unfold db_lookup, registry_index_lookup, read_timestamp.
  destruct (alookup (idx (pget st s)) v) as [f|] eqn:Ei; [|eauto].
  destruct (Hwf s) as (Hi & _ & _). destruct (Hi _ _ Ei) as [t' Ht']. rewrite Ht'. cbn [option_map snd].
  destruct (accessible_some r t t') as [b ->]; [pose proof (Hts _ _ _ _ Ht'); lia|].
  destruct b; eauto.
Qed.

(* ------------------------------------------------------------------ *)
(* PrepareCtx: succeeds, and keeps at most one key per accessible value *)

Definition pinv (r t : N) (st : state) (its : list item) (acc : per (list N)) : Prop :=
  forall s, NoDup (pget acc s) /\
            incl (pget acc s) (map (keyof st s) (filter (fav r t st s) (distinct_vals s its))).

Lemma prepare_item_total : forall KS r t T st its acc it,
  WF KS st -> ts_le T st -> T <= t -> pinv r t st its acc -> In it its ->
  exists acc', prepare_item r t st acc it = Okay acc' /\ pinv r t st its acc'.
Proof.
  intros KS r t T st its acc [s v] Hwf Hts Ht Hp Hin. unfold prepare_item.
  destruct (N.eqb_spec v 0) as [Hv|Hv]; [eauto|].
  destruct (registry_index_lookup (pget st s) v) as [f|] eqn:Ei; [|eauto].
  destruct (mem f (pget acc s)) eqn:Em; [eauto|].
  destruct (Hwf s) as (Hi & _ & _). unfold registry_index_lookup in Ei.
  destruct (Hi _ _ Ei) as [t' Ht']. unfold read_timestamp. rewrite Ht'. cbn [option_map snd].
  destruct (accessible_some r t t') as [b Hb]; [pose proof (Hts _ _ _ _ Ht'); lia|]. rewrite Hb.
  destruct b; [|eauto].
  eexists; split; [reflexivity|]. intros s'. destruct (ksid_eq_dec s s') as [<-|Hne].
  - rewrite pget_pset_same. destruct (Hp s) as [Hnd Hinc]. split.
    + constructor; [apply mem_false; exact Em|exact Hnd].
    + intros x [<-|Hx]; [|apply Hinc; exact Hx].
      apply in_map_iff. exists v. split.
      * unfold keyof, registry_index_lookup. rewrite Ei. reflexivity.
      * apply filter_In. split; [apply distinct_vals_in; assumption|].
        unfold fav, db_lookup, registry_index_lookup, read_timestamp. rewrite Ei, Ht'. cbn [option_map snd].
        rewrite Hb. reflexivity.
  - rewrite pget_pset_other by exact Hne. apply Hp.
Qed.

Lemma prepare_total : forall KS r t T st its, WF KS st -> ts_le T st -> T <= t ->
  forall items acc, incl items its -> pinv r t st its acc ->
  exists acc', prepare r t st acc items = Okay acc' /\ pinv r t st its acc'.
Proof.
  intros KS r t T st its Hwf Hts Ht. induction items as [|it items IH]; intros acc Hinc Hp; cbn [prepare]; [eauto|].
  destruct (prepare_item_total KS r t T st its acc it Hwf Hts Ht Hp) as (acc1 & -> & Hp1);
    [apply Hinc; left; reflexivity|].
  apply IH; [intros x Hx; apply Hinc; right; exact Hx|exact Hp1].
Qed.

Lemma pinv_init : forall r t st its, pinv r t st its (pconst []).
Proof. intros r t st its s. rewrite pget_pconst. split; [constructor|intros x []]. Qed.

Lemma pinv_length : forall r t st its acc s, pinv r t st its acc ->
  (length (pget acc s) <= length (filter (fav r t st s) (distinct_vals s its)))%nat.
Proof.
  intros r t st its acc s Hp. destruct (Hp s) as [Hnd Hinc].
  pose proof (NoDup_incl_length Hnd Hinc) as H. rewrite map_length in H. exact H.
Qed.

(* ------------------------------------------------------------------ *)
(* CompressCtx: succeeds under the keyspace side condition             *)

Definition cnt_ks (r t : N) (st : state) (its : list item) (s : ksid) (accs : list N) (c : cks) : Prop :=
  length (keep (ev c)) = (length accs + length (changes c))%nat /\
  NoDup (map snd (changes c)) /\
  incl (map snd (changes c)) (filter (fun v => negb (fav r t st s v)) (distinct_vals s its)) /\
  (forall k v, In (k, v) (changes c) -> alookup (changes_lookup c) v <> None).
Definition cnt (r t : N) (st : state) (its : list item) (acc : per (list N)) (cx : per cks) : Prop :=
  forall s, cnt_ks r t st its s (pget acc s) (pget cx s).

Lemma cnt_init : forall KS r t st its acc, cnt r t st its acc (into_compression_context KS st acc).
Proof.
  intros KS r t st its acc s. unfold into_compression_context. rewrite pget_pinit.
  unfold cnt_ks; cbn [ev changes changes_lookup keep new_from_db map length].
  split; [lia|split; [constructor|split; [intros x []|intros k v []]]].
Qed.

Lemma compress_item_total : forall KS r t T st its acc cx s v,
  0 < KS -> WF KS st -> ts_le T st -> T <= t -> fits KS its -> pinv r t st its acc ->
  cinv KS acc cx -> cnt r t st its acc cx -> In (s, v) its ->
  exists k cx', compress_item KS r t st cx (s, v) = Okay (k, cx') /\ cnt r t st its acc cx'.
Proof.
  intros KS r t T st its acc cx s v H0 Hwf Hts Ht Hfit Hp Hinv Hcnt Hin. unfold compress_item.
  destruct (N.eqb_spec v 0) as [Hv|Hv]; [eauto|].
  destruct (alookup (changes_lookup (pget cx s)) v) as [f|] eqn:Ecl; [eauto|].
  destruct (db_lookup_total KS r t T st s v Hwf Hts Ht) as [o Edb]. rewrite Edb.
  destruct o as [f|]; [eauto|].
  destruct (Hcnt s) as (Hlen & Hndv & Hincv & Hcl).
  destruct (Hinv s) as (_ & _ & _ & _ & _ & _ & Hnx).
  (* v is a new value of this block *)
  assert (HvB : In v (filter (fun v => negb (fav r t st s v)) (distinct_vals s its))).
  { apply filter_In. split; [apply distinct_vals_in; assumption|]. unfold fav. rewrite Edb. reflexivity. }
  assert (Hvn : ~ In v (map snd (changes (pget cx s)))).
  { intros Hx. apply in_map_iff in Hx as [[k' v'] [E Hx]]. cbn [snd] in E; subst v'.
    apply (Hcl _ _ Hx). exact Ecl. }
  assert (Hbound : N.of_nat (length (keep (ev (pget cx s)))) < KS).
  { assert (Hnd' : NoDup (v :: map snd (changes (pget cx s)))) by (constructor; assumption).
    assert (Hinc' : incl (v :: map snd (changes (pget cx s)))
                         (filter (fun v => negb (fav r t st s v)) (distinct_vals s its))).
    { intros x [<-|Hx]; [exact HvB|apply Hincv; exact Hx]. }
    pose proof (NoDup_incl_length Hnd' Hinc') as HB. cbn [length] in HB. rewrite map_length in HB.
    pose proof (pinv_length r t st its acc s Hp) as HA.
    pose proof (filter_partition_length N (fav r t st s) (distinct_vals s its)) as HP.
    pose proof (Hfit s). lia. }
  destruct (next_key_total KS (ev (pget cx s)) Hnx Hbound) as (k & e' & Enk). rewrite Enk.
  destruct (next_key_spec _ _ _ _ H0 Hnx Enk) as (_ & _ & Hkeep & _).
  eexists; eexists; split; [reflexivity|].
  intros s'. destruct (ksid_eq_dec s s') as [<-|Hne].
  - rewrite pget_pset_same. unfold cnt_ks; cbn [ev changes changes_lookup].
    rewrite Hkeep, map_app, app_length. cbn [map snd length].
    split; [lia|]. split; [apply NoDup_snoc; assumption|].
    split.
    + intros x Hx. apply in_app_or in Hx as [Hx|[<-|[]]]; [apply Hincv; exact Hx|exact HvB].
    + intros k' v' Hx. cbn [alookup]. destruct (N.eqb_spec v v'); [discriminate|].
      apply in_app_or in Hx as [Hx|[E|[]]]; [eapply Hcl; exact Hx|inversion E; congruence].
  - rewrite pget_pset_other by exact Hne. apply Hcnt.
Qed.

Lemma compress_items_total : forall KS r t T st its acc,
  0 < KS -> WF KS st -> ts_le T st -> T <= t -> fits KS its -> pinv r t st its acc ->
  acc_covers r t st acc its ->
  forall items cx, incl items its -> cinv KS acc cx -> cnt r t st its acc cx ->
  exists cks cx', compress_items KS r t st cx items = Okay (cks, cx') /\
                  cinv KS acc cx' /\ cnt r t st its acc cx'.
Proof.
  intros KS r t T st its acc H0 Hwf Hts Ht Hfit Hp Hcov.
  induction items as [|[s v] items IH]; intros cx Hinc Hinv Hcnt; cbn [compress_items]; [eauto|].
  assert (Hin : In (s, v) its) by (apply Hinc; left; reflexivity).
  destruct (compress_item_total KS r t T st its acc cx s v H0 Hwf Hts Ht Hfit Hp Hinv Hcnt Hin)
    as (k & cx1 & E1 & Hcnt1). rewrite E1.
  destruct (compress_item_spec KS r t st acc cx s v k cx1 H0 Hwf Hinv) as (Hinv1 & _ & _); [|exact E1|].
  { intros found Hv Hdb. apply (Hcov s v found); assumption. }
  destruct (IH cx1) as (ks & cx2 & E2 & Hinv2 & Hcnt2); [intros x Hx; apply Hinc; right; exact Hx|assumption|assumption|].
  rewrite E2. eauto.
Qed.

Lemma compress_txs_total : forall KS r t T st its acc,
  0 < KS -> WF KS st -> ts_le T st -> T <= t -> fits KS its -> pinv r t st its acc ->
  acc_covers r t st acc its ->
  forall txs cx, incl (concat txs) its -> cinv KS acc cx -> cnt r t st its acc cx ->
  exists ctxs cx', compress_txs KS r t st cx txs = Okay (ctxs, cx') /\
                   cinv KS acc cx' /\ cnt r t st its acc cx'.
Proof.
  intros KS r t T st its acc H0 Hwf Hts Ht Hfit Hp Hcov.
  induction txs as [|tx txs IH]; intros cx Hinc Hinv Hcnt; cbn [compress_txs]; [eauto|].
  cbn [concat] in Hinc.
  destruct (compress_items_total KS r t T st its acc H0 Hwf Hts Ht Hfit Hp Hcov tx cx)
    as (ctx & cx1 & E1 & Hinv1 & Hcnt1); [intros x Hx; apply Hinc; apply in_or_app; left; exact Hx|assumption|assumption|].
  rewrite E1.
  destruct (IH cx1) as (cs & cx2 & E2 & Hinv2 & Hcnt2);
    [intros x Hx; apply Hinc; apply in_or_app; right; exact Hx|assumption|assumption|].
  rewrite E2. eauto.
Qed.

Lemma compress_block_total : forall KS r T C b hint,
  0 < KS -> WF KS C -> ts_le T C -> T <= b_time b -> fits KS (concat (b_items b)) ->
  exists cb C', compress_block KS r C b hint = Okay (cb, C').
Proof.
  intros KS r T C b hint H0 Hwf Hts Ht Hfit. unfold compress_block.
  set (t := b_time b) in *. set (its := concat (b_items b)) in *.
  destruct (prepare_total KS r t T C its Hwf Hts Ht its (pconst []) (incl_refl _) (pinv_init r t C its))
    as (acc & Ep & Hp). rewrite Ep.
  destruct (prepare_spec _ _ _ _ _ _ Ep) as [_ Hcov].
  destruct (compress_txs_total KS r t T C its acc H0 Hwf Hts Ht Hfit Hp Hcov (b_items b)
              (into_compression_context KS C acc) (incl_refl _) (cinv_init KS C acc H0 Hwf)
              (cnt_init KS r t C its acc)) as (ctxs & cx & Ec & _ & _).
  rewrite Ec. destruct (finalize C cx hint t) as [regs st']. eauto.
Qed.

(* timestamps after a block *)
Lemma ts_le_after_block : forall KS r T C b hint cb C',
  ts_le T C -> T <= b_time b -> compress_block KS r C b hint = Okay (cb, C') -> ts_le (b_time b) C'.
Proof.
  intros KS r T C b hint cb C' Hts Ht H. unfold compress_block in H.
  destruct (prepare r (b_time b) C (pconst []) (concat (b_items b))) as [acc|]; [|discriminate].
  destruct (compress_txs KS r (b_time b) C (into_compression_context KS C acc) (b_items b)) as [[ctxs cx]|];
    [|discriminate].
  unfold finalize in H. inversion H; subst cb C'. clear H.
  intros s key v kt Hl. unfold write_to_registry in Hl. rewrite !pget_pinit, reg_write_all in Hl.
  cbn [commit set_latest_assigned_key reg] in Hl.
  apply reg_after_cases in Hl as [Hl|[v' [_ E]]].
  - pose proof (Hts _ _ _ _ Hl). lia.
  - inversion E; subst. lia.
Qed.

Lemma ts_le_set_cursor : forall T C s k, ts_le T C -> ts_le T (set_cursor C s k).
Proof.
  intros T C s k Hts s' key v kt Hl. unfold set_cursor in Hl. destruct (ksid_eq_dec s s') as [<-|Hne].
  - rewrite pget_pset_same in Hl. cbn [set_latest_assigned_key reg] in Hl. eapply Hts; exact Hl.
  - rewrite pget_pset_other in Hl by exact Hne. eapply Hts; exact Hl.
Qed.

(* ------------------------------------------------------------------ *)
(* the round trip of a whole history                                   *)

Fixpoint history_all (KS r : N) (C D : state) (ops : list (op * per (list N))) : Prop :=
  match ops with
  | [] => True
  | (OCursor s k, _) :: rest => history_all KS r (set_cursor C s k) D rest
  | (OBlock b, h) :: rest =>
      match compress_block KS r C b h with
      | Fail _ => False
      | Okay (cb, C') =>
          match decompress_block KS r D cb with
          | Okay (b', D') => b' = strip b /\ tables_eq C' D' /\ history_all KS r C' D' rest
          | Fail _ => False
          end
      end
  end.

(* block timestamps never decrease, starting from T *)
Fixpoint times_mono (T : N) (ops : list (op * per (list N))) : Prop :=
  match ops with
  | [] => True
  | (OBlock b, _) :: rest => T <= b_time b /\ times_mono (b_time b) rest
  | (OCursor _ _, _) :: rest => times_mono T rest
  end.

(* termination side condition of CacheEvictor::next_key: per block and keyspace the number of
   distinct non-default values is below the number of writable keys *)
Definition op_fits (KS : N) (o : op) : Prop :=
  match o with OBlock b => fits KS (concat (b_items b)) | OCursor _ _ => True end.

Lemma roundtrip_history_all : forall KS r ops C D T,
  0 < KS -> WF KS C -> tables_eq C D -> ts_le T C ->
  Forall (fun oh => op_wf KS (fst oh)) ops ->
  Forall (fun oh => op_fits KS (fst oh)) ops ->
  times_mono T ops ->
  history_all KS r C D ops.
Proof.
  intros KS r. induction ops as [|[o h] ops IH]; intros C D T H0 Hwf Heq Hts Hops Hfits Hmono;
    cbn [history_all]; [exact Logic.I|].
  inversion Hops as [|? ? Ho Hops']; subst. inversion Hfits as [|? ? Hf Hfits']; subst.
  cbn [fst] in Ho, Hf. destruct o as [b|s k]; cbn [op_wf op_fits times_mono] in Ho, Hf, Hmono.
  - destruct Hmono as [Ht Hmono].
    destruct (compress_block_total KS r T C b h H0 Hwf Hts Ht Hf) as (cb & C' & Ec). rewrite Ec.
    destruct (roundtrip_block KS r C D b h cb C' H0 Hwf Heq Ho Ec) as (D' & Hd & Heq' & Hwf').
    rewrite Hd. split; [reflexivity|split; [exact Heq'|]].
    apply IH with (T := b_time b); try assumption.
    eapply ts_le_after_block; eassumption.
  - apply IH with (T := T); try assumption.
    + apply set_cursor_wf; assumption.
    + apply set_cursor_tables; exact Heq.
    + apply ts_le_set_cursor; exact Hts.
Qed.

(* ------------------------------------------------------------------ *)
(* exact reproduction: blocks without malleable fields                 *)

Fixpoint history_exact (KS r : N) (C D : state) (ops : list (op * per (list N))) : Prop :=
  match ops with
  | [] => True
  | (OCursor s k, _) :: rest => history_exact KS r (set_cursor C s k) D rest
  | (OBlock b, h) :: rest =>
      match compress_block KS r C b h with
      | Fail _ => False
      | Okay (cb, C') =>
          match decompress_block KS r D cb with
          | Okay (b', D') => b' = b /\ tables_eq C' D' /\ history_exact KS r C' D' rest
          | Fail _ => False
          end
      end
  end.

(* no transaction of the block carries a non-default malleable (compress(skip)) field *)
Definition canonical (b : block) : Prop := Forall (fun x => t_mal x = 0) (b_txs b).
Definition op_canonical (o : op) : Prop := match o with OBlock b => canonical b | OCursor _ _ => True end.

Lemma strip_canonical : forall b, canonical b -> strip b = b.
Proof.
  intros [h t txs] Hc. unfold strip, canonical in *; cbn [b_hdr b_time b_txs] in *. f_equal.
  induction Hc as [|[m its] l Hm _ IH]; cbn [map]; [reflexivity|].
  cbn [t_mal] in Hm. subst m. rewrite IH. reflexivity.
Qed.

Lemma history_exact_of_all : forall KS r ops C D,
  Forall (fun oh => op_canonical (fst oh)) ops -> history_all KS r C D ops -> history_exact KS r C D ops.
Proof.
  intros KS r. induction ops as [|[o h] ops IH]; intros C D Hc H; cbn [history_all history_exact] in *; [exact Logic.I|].
  inversion Hc as [|? ? Ho Hc']; subst. cbn [fst] in Ho. destruct o as [b|s k]; cbn [op_canonical] in Ho.
  - destruct (compress_block KS r C b h) as [[cb C']|]; [|exact H].
    destruct (decompress_block KS r D cb) as [[b' D']|]; [|exact H].
    destruct H as (E & Ht & Hr). rewrite (strip_canonical b Ho) in E. auto.
  - auto.
Qed.

Lemma roundtrip_history_exact_all : forall KS r ops C D T,
  0 < KS -> WF KS C -> tables_eq C D -> ts_le T C ->
  Forall (fun oh => op_wf KS (fst oh)) ops ->
  Forall (fun oh => op_fits KS (fst oh)) ops ->
  times_mono T ops ->
  Forall (fun oh => op_canonical (fst oh)) ops ->
  history_exact KS r C D ops.
Proof.
  intros KS r ops C D T H0 Hwf Heq Hts H1 H2 H3 H4.
  apply history_exact_of_all; [exact H4|]. eapply roundtrip_history_all; eassumption.
Qed.

(* ------------------------------------------------------------------ *)
(* the specification decompressor replayed on a trace (Pcheck)         *)

Lemma list_eqb_eq : forall A (f : A -> A -> bool), (forall x y, f x y = true <-> x = y) ->
  forall x y, list_eqb f x y = true <-> x = y.
Proof.
  intros A f Hf. induction x as [|a x IH]; intros [|b y]; cbn [list_eqb]; try (split; [discriminate|congruence]).
  - split; reflexivity.
  - rewrite Bool.andb_true_iff, Hf, IH. split; [intros [-> ->]; reflexivity|intros E; inversion E; auto].
Qed.
Lemma item_eqb_eq : forall x y, item_eqb x y = true <-> x = y.
Proof.
  intros [s v] [s' v']. unfold item_eqb; cbn [fst snd]. rewrite Bool.andb_true_iff.
  change (ks_to_N s =? ks_to_N s') with (ks_eqb s s'). rewrite ks_eqb_eq, N.eqb_eq.
  split; [intros [-> ->]; reflexivity|intros E; inversion E; auto].
Qed.
Lemma tx_eqb_eq : forall x y, tx_eqb x y = true <-> x = y.
Proof.
  intros [m its] [m' its']. unfold tx_eqb; cbn [t_mal t_items].
  rewrite Bool.andb_true_iff, N.eqb_eq, (list_eqb_eq _ _ item_eqb_eq).
  split; [intros [-> ->]; reflexivity|intros E; inversion E; auto].
Qed.
Lemma block_eqb_eq : forall a b, block_eqb a b = true <-> a = b.
Proof.
  intros [h t x] [h' t' x']. unfold block_eqb; cbn [b_hdr b_time b_txs].
  rewrite !Bool.andb_true_iff, !N.eqb_eq.
  rewrite (list_eqb_eq _ _ tx_eqb_eq).
  split; [intros [[-> ->] ->]; reflexivity|intros E; inversion E; auto].
Qed.
Lemma canonicalb_spec : forall b, canonicalb b = true <-> canonical b.
Proof.
  intros b. unfold canonicalb, canonical. rewrite forallb_forall, Forall_forall.
  split; intros H x Hx; specialize (H x Hx); [apply N.eqb_eq|apply N.eqb_eq]; exact H.
Qed.

(* what the checker accepts, as a proposition *)
Fixpoint ReplayCore (KS r : N) (S : state) (ops : list op) (os : list obs) : Prop :=
  match ops, os with
  | [], [] => True
  | OCursor _ _ :: ops', BCursor :: os' => ReplayCore KS r S ops' os'
  | OBlock b :: ops', BErr ctab dtab :: os' =>
      tabs_eqb ctab S = true /\ tabs_eqb dtab S = true /\ ReplayCore KS r S ops' os'
  | OBlock b :: ops', BOk keys regs dstatus hdr_eq txs_eq ids_eq ctab dtab :: os' =>
      exists S', decompress_block KS r S (mkcblock (b_hdr b) (b_time b) regs keys) = Okay (strip b, S') /\
                 dstatus = 0 /\ hdr_eq = true /\ ids_eq = true /\ (canonical b -> txs_eq = true) /\
                 tabs_eqb ctab S' = true /\ tabs_eqb dtab S' = true /\
                 ReplayCore KS r S' ops' os'
  | _, _ => False
  end.

Lemma replay_core_sound_all : forall KS r ops os S, replay_core KS r S ops os = 1 <-> ReplayCore KS r S ops os.
Proof.
  intros KS r. induction ops as [|o ops IH]; intros os S.
  - destruct os; cbn [replay_core ReplayCore]; split; try tauto; try discriminate.
  - destruct o as [b|s k]; destruct os as [|ob os]; cbn [replay_core ReplayCore]; try (split; [discriminate|tauto]).
    + destruct ob as [keys regs ds he te ie ctab dtab|ctab dtab|]; try (split; [discriminate|tauto]).
      * destruct (decompress_block KS r S (mkcblock (b_hdr b) (b_time b) regs keys)) as [[b' S']|e] eqn:Ed.
        -- destruct (block_eqb b' (strip b)) eqn:Eb; cbn [negb].
           ++ apply block_eqb_eq in Eb. subst b'.
              assert (Hflag : (ds =? 0) && he && ie && (te || negb (canonicalb b)) = true <->
                              ds = 0 /\ he = true /\ ie = true /\ (canonical b -> te = true)).
              { rewrite !Bool.andb_true_iff, N.eqb_eq, Bool.orb_true_iff, Bool.negb_true_iff.
                rewrite <- canonicalb_spec. destruct te; destruct (canonicalb b); intuition congruence. }
              destruct ((ds =? 0) && he && ie && (te || negb (canonicalb b))) eqn:Ef; cbn [negb].
              ** destruct (proj1 Hflag eq_refl) as (F1 & F2 & F3 & F4).
                 destruct (tabs_eqb ctab S') eqn:E2; destruct (tabs_eqb dtab S') eqn:E3; cbn [andb negb];
                   try (split; [discriminate|intros (S2 & E & _ & _ & _ & _ & H4 & H5 & _); inversion E; subst; congruence]).
                 rewrite IH. split.
                 --- intros H. exists S'. auto 10.
                 --- intros (S2 & E & _ & _ & _ & _ & _ & _ & H). inversion E; subst. exact H.
              ** split; [discriminate|]. intros (S2 & E & F1 & F2 & F3 & F4 & _).
                 assert (Hx : false = true) by (apply Hflag; auto). discriminate Hx.
           ++ split; [discriminate|]. intros (S2 & E & _). inversion E; subst.
              assert (block_eqb (strip b) (strip b) = true) by (apply block_eqb_eq; reflexivity). congruence.
        -- split; [discriminate|]. intros (S2 & E & _). discriminate.
      * destruct (tabs_eqb ctab S) eqn:E2; destruct (tabs_eqb dtab S) eqn:E3; cbn [andb];
          try (split; [discriminate|intros (H1 & H2 & _); congruence]).
        rewrite IH. tauto.
    + destruct ob as [keys regs ds he te ie ctab dtab|ctab dtab|]; try (split; [discriminate|tauto]).
      apply IH.
Qed.

Definition ReplaySpec (KS r : N) (S : state) (ops : list op) (os : list obs) : Prop :=
  ReplayCore KS r S ops os /\ Forall (fun o => obs_exact o = true) os.

Lemma replay_okb_sound_all : forall KS r ops os S, replay_okb KS r S ops os = 1 <-> ReplaySpec KS r S ops os.
Proof.
  intros KS r ops os S. unfold replay_okb, ReplaySpec. rewrite <- replay_core_sound_all, Forall_forall, <- forallb_forall.
  destruct (replay_core KS r S ops os) as [|[p|p|]]; destruct (forallb obs_exact os);
    (split; [intros H; try discriminate H; auto | intros H; destruct H as [H1 H2]; try discriminate H1; try discriminate H2; auto]).
Qed.

(* ------------------------------------------------------------------ *)
(* non-vacuity: a history with reuse, expiry, wrap-around and eviction of a live key, in a key
   space of 3 writable keys, satisfies every hypothesis of the theorem *)

Definition ex_tx (a b c : N) : list item := [(KAddr, a); (KAddr, b); (KAsset, c)].
Definition ex_ops : list (op * per (list N)) :=
  [ (OCursor KAddr 1, pconst []);
    (OBlock (mkblock 1 10 [mktx 0 (ex_tx 1 2 1)]), pconst []);       (* keys 2, 0: wraps *)
    (OBlock (mkblock 2 12 [mktx 0 (ex_tx 2 3 1)]), pconst []);       (* 2 reused, 3 new: key 1 *)
    (OBlock (mkblock 3 20 [mktx 0 (ex_tx 2 1 0)]), pconst []);       (* both expired (retention 5) *)
    (OBlock (mkblock 4 20 [mktx 0 (ex_tx 3 4 1)]), pconst []) ].     (* evicts live keys *)

Example ex_hypotheses :
  Forall (fun oh => op_wf 3 (fst oh)) ex_ops /\ Forall (fun oh => op_fits 3 (fst oh)) ex_ops /\
  times_mono 0 ex_ops /\ Forall (fun oh => op_canonical (fst oh)) ex_ops.
Proof.
  split; [|split; [|split]].
  - repeat constructor; cbn; try lia; discriminate.
  - repeat constructor; intros s; destruct s; vm_compute; reflexivity.
  - cbn. lia.
  - repeat constructor.
Qed.

Example ex_keys :
  map (fun o => match o with BOk keys _ _ _ _ _ _ _ => keys | _ => [] end)
      (run_history 3 5 st_empty st_empty (map fst ex_ops) (map snd ex_ops))
  = [ [];
      [[(KAddr, 2); (KAddr, 0); (KAsset, 0)]];
      [[(KAddr, 0); (KAddr, 1); (KAsset, 0)]];
      [[(KAddr, 2); (KAddr, 0); (KAsset, 3)]];
      [[(KAddr, 1); (KAddr, 2); (KAsset, 0)]] ].
Proof. vm_compute. reflexivity. Qed.
