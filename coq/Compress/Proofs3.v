(* C33, part 3: the trace the model produces is accepted by the replaying checker. *)
From FC Require Import Compress.Model Compress.Proofs Compress.Proofs2.
From Coq Require Import ZifyBool ZifyN ZifyNat.
Open Scope N_scope.

Lemma list_eqb_refl : forall A (f : A -> A -> bool), (forall x, f x x = true) -> forall l, list_eqb f l l = true.
Proof. intros A f Hf. induction l as [|a l IH]; cbn [list_eqb]; [reflexivity|]. rewrite Hf, IH. reflexivity. Qed.

Lemma tabs_eqb_of_eq : forall a b, tables_eq a b -> tabs_eqb a b = true.
Proof.
  intros a b H. unfold tabs_eqb. apply forallb_forall. intros s _. destruct (H s) as [E1 E2].
  unfold tab_eqb. rewrite E1, E2. apply Bool.andb_true_iff. split; apply list_eqb_refl.
  - intros [k [v t]]. unfold row_eqb; cbn [fst snd]. rewrite !N.eqb_refl. reflexivity.
  - intros [v k]. unfold pair_eqb; cbn [fst snd]. rewrite !N.eqb_refl. reflexivity.
Qed.
Lemma tables_eq_refl : forall a, tables_eq a a.
Proof. intros a s. split; reflexivity. Qed.

Lemma compress_block_hdr : forall KS r C b h cb C',
  compress_block KS r C b h = Okay (cb, C') -> c_hdr cb = b_hdr b /\ c_time cb = b_time b.
Proof.
  intros KS r C b h cb C' H. unfold compress_block in H.
  destruct (prepare r (b_time b) C (pconst []) (concat (b_items b))) as [acc|]; [|discriminate].
  destruct (compress_txs KS r (b_time b) C (into_compression_context KS C acc) (b_items b)) as [[ctxs cx]|];
    [|discriminate].
  destruct (finalize C cx h (b_time b)) as [regs st']. inversion H; subst. cbn. auto.
Qed.

Lemma b_items_strip : forall b, b_items (strip b) = b_items b.
Proof. intros b. unfold b_items, strip; cbn [b_txs]. rewrite map_map. reflexivity. Qed.

Lemma model_trace_core_all : forall KS r ops C D,
  0 < KS -> WF KS C -> tables_eq C D -> Forall (fun oh => op_wf KS (fst oh)) ops ->
  replay_core KS r D (map fst ops) (run_history KS r C D (map fst ops) (map snd ops)) = 1.
Proof.
  intros KS r. induction ops as [|[o h] ops IH]; intros C D H0 Hwf Heq Hops; cbn [map fst snd run_history replay_core];
    [reflexivity|].
  inversion Hops as [|? ? Ho Hops']; subst. cbn [fst] in Ho. destruct o as [b|s k]; cbn [op_wf] in Ho.
  - destruct (compress_block KS r C b h) as [[cb C']|e] eqn:Ec.
    + destruct (roundtrip_block KS r C D b h cb C' H0 Hwf Heq Ho Ec) as (D' & Hd & Heq' & Hwf').
      rewrite Hd. cbn [replay_core].
      destruct (compress_block_hdr _ _ _ _ _ _ _ Ec) as [Eh Et].
      assert (Ecb : mkcblock (b_hdr b) (b_time b) (c_regs cb) (c_txs cb) = cb).
      { destruct cb; cbn in *; subst; reflexivity. }
      rewrite Ecb, Hd.
      assert (Hbb : block_eqb (strip b) (strip b) = true) by (apply block_eqb_eq; reflexivity).
      rewrite Hbb. cbn [negb].
      cbn [strip b_hdr b_time]. rewrite !N.eqb_refl.
      assert (Hit : block_eqb_items (b_items (strip b)) (b_items b) = true).
      { rewrite b_items_strip. unfold block_eqb_items. apply list_eqb_refl. intros l. apply list_eqb_refl.
        intros x. apply item_eqb_eq. reflexivity. }
      change (mkblock (b_hdr b) (b_time b) (map tx_strip (b_txs b))) with (strip b). rewrite Hit.
      assert (Hte : (list_eqb tx_eqb (b_txs (strip b)) (b_txs b) || negb (canonicalb b)) = true).
      { destruct (canonicalb b) eqn:Ecan; cbn [negb]; [|apply Bool.orb_true_r].
        apply canonicalb_spec in Ecan. rewrite (strip_canonical b Ecan).
        rewrite (list_eqb_refl _ tx_eqb); [reflexivity|]. intros x. apply tx_eqb_eq. reflexivity. }
      change (map tx_strip (b_txs b)) with (b_txs (strip b)). rewrite Hte. cbn [andb negb].
      rewrite (tabs_eqb_of_eq _ _ Heq'), (tabs_eqb_of_eq _ _ (tables_eq_refl D')). cbn [andb negb].
      apply IH; assumption.
    + cbn [replay_core]. rewrite (tabs_eqb_of_eq _ _ Heq), (tabs_eqb_of_eq _ _ (tables_eq_refl D)). cbn [andb].
      apply IH; assumption.
  - cbn [replay_core]. apply IH; [exact H0|apply set_cursor_wf; assumption|apply set_cursor_tables; exact Heq|exact Hops'].
Qed.

(* on histories without malleable fields every observed block is reproduced exactly *)
Lemma model_trace_exact : forall KS r ops C D,
  0 < KS -> WF KS C -> tables_eq C D -> Forall (fun oh => op_wf KS (fst oh)) ops ->
  Forall (fun oh => op_canonical (fst oh)) ops ->
  forallb obs_exact (run_history KS r C D (map fst ops) (map snd ops)) = true.
Proof.
  intros KS r. induction ops as [|[o h] ops IH]; intros C D H0 Hwf Heq Hops Hcan; cbn [map fst snd run_history forallb];
    [reflexivity|].
  inversion Hops as [|? ? Ho Hops']; subst. inversion Hcan as [|? ? Hc Hcan']; subst.
  cbn [fst] in Ho, Hc. destruct o as [b|s k]; cbn [op_wf op_canonical] in Ho, Hc.
  - destruct (compress_block KS r C b h) as [[cb C']|e] eqn:Ec.
    + destruct (roundtrip_block KS r C D b h cb C' H0 Hwf Heq Ho Ec) as (D' & Hd & Heq' & Hwf').
      rewrite Hd. cbn [forallb obs_exact]. rewrite (strip_canonical b Hc).
      rewrite (list_eqb_refl _ tx_eqb); [|intros x; apply tx_eqb_eq; reflexivity]. cbn [andb].
      apply IH; assumption.
    + cbn [forallb obs_exact andb]. apply IH; assumption.
  - cbn [forallb obs_exact andb].
    apply IH; [exact H0|apply set_cursor_wf; assumption|apply set_cursor_tables; exact Heq|exact Hops'|exact Hcan'].
Qed.

Lemma model_trace_accepted_all : forall KS r ops C D,
  0 < KS -> WF KS C -> tables_eq C D -> Forall (fun oh => op_wf KS (fst oh)) ops ->
  Forall (fun oh => op_canonical (fst oh)) ops ->
  replay_okb KS r D (map fst ops) (run_history KS r C D (map fst ops) (map snd ops)) = 1.
Proof.
  intros KS r ops C D H0 Hwf Heq Hops Hcan. unfold replay_okb.
  rewrite (model_trace_core_all KS r ops C D H0 Hwf Heq Hops).
  rewrite (model_trace_exact KS r ops C D H0 Hwf Heq Hops Hcan). reflexivity.
Qed.

Lemma WF_empty : forall KS, WF KS st_empty.
Proof.
  intros KS s. unfold st_empty. rewrite pget_pconst. unfold wf_ks, ks_empty; cbn [reg idx latest alookup].
  repeat split; intros; discriminate.
Qed.
Lemma ts_le_empty : forall T, ts_le T st_empty.
Proof. intros T s key v kt H. unfold st_empty in H. rewrite pget_pconst in H. discriminate. Qed.

(* both sides start from the empty registry *)
Lemma roundtrip_from_empty_all : forall KS r ops,
  0 < KS ->
  Forall (fun oh => op_wf KS (fst oh)) ops ->
  Forall (fun oh => op_fits KS (fst oh)) ops ->
  times_mono 0 ops ->
  history_all KS r st_empty st_empty ops.
Proof.
  intros KS r ops H0 H1 H2 H3.
  exact (roundtrip_history_all KS r ops st_empty st_empty 0 H0 (WF_empty KS) (tables_eq_refl st_empty)
           (ts_le_empty 0) H1 H2 H3).
Qed.

(* the non-vacuity example is an instance: all five blocks round-trip exactly in a key space of 3 keys *)
Example ex_roundtrip : history_exact 3 5 st_empty st_empty ex_ops.
Proof.
  destruct ex_hypotheses as (H1 & H2 & H3 & H4).
  apply history_exact_of_all; [exact H4|].
  apply roundtrip_from_empty_all; [reflexivity|exact H1|exact H2|exact H3].
Qed.

(* the literal statement (exact reproduction of EVERY block) fails: a block whose transaction has a
   non-default malleable field comes back in its prepared-for-signing form (same ids, see
   roundtrip_from_empty_all), not as the original *)
Definition refute_ops : list (op * per (list N)) :=
  [ (OBlock (mkblock 1 10 [mktx 7 [(KAddr, 1)]]), pconst []) ].

Lemma roundtrip_history_refuted_all :
  exists KS r ops,
    0 < KS /\ Forall (fun oh => op_wf KS (fst oh)) ops /\ Forall (fun oh => op_fits KS (fst oh)) ops /\
    times_mono 0 ops /\ ~ Forall (fun oh => op_canonical (fst oh)) ops /\
    history_all KS r st_empty st_empty ops /\ ~ history_exact KS r st_empty st_empty ops.
Proof.
  exists 3, 5, refute_ops.
  assert (H1 : Forall (fun oh => op_wf 3 (fst oh)) refute_ops) by (repeat constructor; cbn; discriminate).
  assert (H2 : Forall (fun oh => op_fits 3 (fst oh)) refute_ops)
    by (repeat constructor; intros s; destruct s; vm_compute; reflexivity).
  assert (H3 : times_mono 0 refute_ops) by (cbn; lia).
  split; [reflexivity|]. split; [exact H1|]. split; [exact H2|]. split; [exact H3|]. split; [|split].
  - intros H. inversion H as [|? ? Hc _]; subst. cbn in Hc. inversion Hc as [|? ? Hm _]; subst.
    cbn in Hm. discriminate.
  - apply roundtrip_from_empty_all; [reflexivity|exact H1|exact H2|exact H3].
  - vm_compute. intros [E _]. discriminate E.
Qed.
