(* Property theorems of the Sync cluster. Nothing but statements, [exact], and
   Print Assumptions. *)
From FC Require Import Sync.Model Sync.Proofs27 Sync.Proofs28.
Open Scope N_scope.

(* C27. For every sorted cache (a BTreeMap), every non-empty range ending below
   u32::MAX and every batch size >= 1, the emitted batches tile [s, e] exactly:
   consecutive, non-overlapping, non-empty, each at most [size] long, each cached batch
   carrying exactly the cached items of its heights and no None batch containing a
   cached height.  Stated on the decidable checker that is also evaluated on the
   implementation's output (chunks_okb_sound gives its meaning). *)
Theorem chunks_partition : forall cache s e size,
  sorted_cache cache -> s <= e -> e < u32max -> 1 <= size ->
  chunks_okb cache s e size (get_chunks cache s e size) = true.
Proof. exact chunks_partition_all. Qed.
Print Assumptions chunks_partition.

Theorem chunks_okb_sound : forall cache s e size cs,
  chunks_okb cache s e size cs = true <-> tiles (lookup cache) size s (e + 1) cs.
Proof. intros. unfold chunks_okb. exact (tilesb_iff cache size cs s (e + 1)). Qed.
Print Assumptions chunks_okb_sound.

Theorem chunks_cover : forall f size a b cs, tiles f size a b cs ->
  forall h, a <= h < b -> exists c, In c cs /\ chunk_start c <= h < chunk_end c.
Proof. exact tiles_cover. Qed.
Print Assumptions chunks_cover.

(* C28. After State::new and any sequence of observe/commit/failed events over u32
   heights, the status has the shape described by [Shape] w.r.t. the highest committed
   and highest observed heights of the history. *)
Theorem status_shape : forall c o evs,
  wfo c -> wfo o -> Forall wfe evs ->
  Shape (ghost_new c o) (st_new c o) /\
  Forall (fun p => Shape (snd p) (fst p)) (run_events (st_new c o) (ghost_new c o) evs).
Proof. exact status_shape_all. Qed.
Print Assumptions status_shape.

Theorem committed_monotone : forall c o evs,
  wfo c -> wfo o -> Forall wfe evs ->
  mono_chain (implied_committed (st_new c o)) (run_events (st_new c o) (ghost_new c o) evs).
Proof. exact committed_monotone_all. Qed.
Print Assumptions committed_monotone.

Theorem shape_checker_sound : forall g st, shape_ok g st = true <-> Shape g st.
Proof. exact shape_ok_sound. Qed.
Print Assumptions shape_checker_sound.
