(* Property theorems of the Sync cluster. Nothing but statements, [exact], and
   Print Assumptions. *)
From FC Require Import Sync.Model Sync.Import Sync.Proofs27 Sync.Proofs28 Sync.Proofs26.
Open Scope N_scope.

(* C27. For every sorted cache (a BTreeMap), every non-empty range ending below
   u32::MAX and every batch size >= 1, the emitted batches tile [s, e] exactly:
   consecutive, non-overlapping, non-empty, each at most [size] long, each cached batch
   carrying exactly the cached items of its heights and no None batch containing a
   cached height.  Stated on the decidable checker that is also evaluated on the
   implementation's output (chunks_okb_sound gives its meaning). *)
Theorem chunks_partition : forall cache s e size,
  sorted_cache cache -> s <= e -> e < u32max -> 1 <= size ->
  chunks_okb cache s e size (get_chunks cache s e size) = true.
Proof. exact chunks_partition_all. Qed.
Print Assumptions chunks_partition.

Theorem chunks_okb_sound : forall cache s e size cs,
  chunks_okb cache s e size cs = true <-> tiles (lookup cache) size s (e + 1) cs.
Proof. intros. unfold chunks_okb. exact (tilesb_iff cache size cs s (e + 1)). Qed.
Print Assumptions chunks_okb_sound.

Theorem chunks_cover : forall f size a b cs, tiles f size a b cs ->
  forall h, a <= h < b -> exists c, In c cs /\ chunk_start c <= h < chunk_end c.
Proof. exact tiles_cover. Qed.
Print Assumptions chunks_cover.

(* C28. After State::new and any sequence of observe/commit/failed events over u32
   heights, the status has the shape described by [Shape] w.r.t. the highest committed
   and highest observed heights of the history. *)
Theorem status_shape : forall c o evs,
  wfo c -> wfo o -> Forall wfe evs ->
  Shape (ghost_new c o) (st_new c o) /\
  Forall (fun p => Shape (snd p) (fst p)) (run_events (st_new c o) (ghost_new c o) evs).
Proof. exact status_shape_all. Qed.
Print Assumptions status_shape.

Theorem committed_monotone : forall c o evs,
  wfo c -> wfo o -> Forall wfe evs ->
  mono_chain (implied_committed (st_new c o)) (run_events (st_new c o) (ghost_new c o) evs).
Proof. exact committed_monotone_all. Qed.
Print Assumptions committed_monotone.

Theorem shape_checker_sound : forall g st, shape_ok g st = true <-> Shape g st.
Proof. exact shape_ok_sound. Qed.
Print Assumptions shape_checker_sound.

(* C26. One import round over ANY peer/consensus/executor script, from any cache that holds
   only checked headers and blocks: the execution log passes the checker (executed heights are
   consecutive from the start of the processing range, every executed block passed the
   consensus check and carries the transactions its header commits to, success reports only
   after complete batches) and the cache invariant is kept. *)
Theorem import_round_ok : forall size sc st c0,
  1 <= size -> CacheInv c0 ->
  (forall s e, process_range st = Some (s, e) -> s <= e /\ e < u32max) ->
  round_okb (import_round size sc st c0) = true /\ CacheInv (o_cache (import_round size sc st c0)).
Proof. exact round_ok_all. Qed.
Print Assumptions import_round_ok.

(* ... hence for every history of rounds interleaved with observed/committed-height events. *)
Theorem import_history_ok : forall size rounds, 1 <= size -> forall st c, CacheInv c -> rounds_ok size st c rounds.
Proof. exact history_ok_all. Qed.
Print Assumptions import_history_ok.

(* peers that supply bad data are reported *)
Theorem missing_headers_reported : forall sc a b p m items,
  alook (hb sc) a = Some (p, m, items) -> m = 0 \/ m = 2 -> a < b ->
  let '(peer, hs, evs) := get_headers_batch sc a b in
  N.of_nat (length hs) < b - a -> In (FRep p R_MISSING_HEADERS) evs.
Proof. exact headers_deficit_reported. Qed.
Print Assumptions missing_headers_reported.

Theorem invalid_header_reported : forall sc c0 a b p m items,
  alook (hb sc) a = Some (p, m, items) -> m = 0 \/ m = 2 ->
  snd (take_valid (snd (fst (get_headers_batch sc a b)))) = true ->
  In (FRep p R_BAD_HEADER) (snd (fetch_chunk sc c0 (CNone a b))).
Proof. exact bad_header_reported. Qed.
Print Assumptions invalid_header_reported.

Theorem bad_transactions_reported : forall sc p a b hs lst,
  last_hdr hs = Some lst ->
  let evs := snd (blocks_stage sc (Some p) a b hs) in
  match alook (tb sc) a with
  | Some (_, 0, items) =>
      ((length items < length hs)%nat -> In (FRep p R_MISSING_TXS) evs) /\
      (snd (zip_blocks hs items) = true -> In (FRep p R_INVALID_TXS) evs)
  | _ => In (FRep p R_MISSING_TXS) evs
  end.
Proof. exact transactions_deficit_reported. Qed.
Print Assumptions bad_transactions_reported.
