(* Proofs for C28: the sync status describes the gap to the best known height. *)
From FC Require Import Sync.Model.
From Coq Require Import ZifyBool ZifyN.
Open Scope N_scope.

Definition wfh (h : N) : Prop := h <= u32max.
Definition wfo (o : option N) : Prop := match o with None => True | Some h => wfh h end.
Definition wfe (ev : event) : Prop :=
  match ev with
  | EObserve h | ECommit h => wfh h
  | EFailed s e => wfh s /\ wfh e
  end.

(* Readable statement of the shape predicate. *)
Definition Shape (g : ghost) (st : status) : Prop :=
  implied_committed st = maxC g /\
  match st with
  | Uninit => clean g = true -> maxO g = None
  | Committed c => clean g = true -> forall o, maxO g = Some o -> o <= c
  | Processing s e =>
      s <= e /\ e <= u32max /\
      exists o, maxO g = Some o /\ e <= o /\ (clean g = true -> e = o)
  end.

Lemma oeqb_eq a b : oeqb a b = true <-> a = b.
Proof.
  destruct a, b; cbn; split; intro H; try discriminate; try reflexivity.
  - apply N.eqb_eq in H. now subst.
  - injection H as ->. apply N.eqb_refl.
Qed.

Lemma shape_ok_sound g st : shape_ok g st = true <-> Shape g st.
Proof.
  unfold shape_ok, Shape. rewrite andb_true_iff, oeqb_eq.
  split; intros [H1 H2]; split; try exact H1; clear H1.
  - destruct st as [|s e|c].
    + intro Hc. rewrite Hc in H2. cbn in H2. now apply oeqb_eq in H2.
    + destruct (maxO g) as [o|]; [|now rewrite andb_false_r in H2].
      repeat rewrite andb_true_iff in H2. destruct H2 as [[Hs He] [Ho Hc]].
      split; [lia|]. split; [lia|]. exists o. split; [reflexivity|]. split; [lia|].
      intro Hcl. rewrite Hcl in Hc. cbn in Hc. lia.
    + intros Hc o Ho. rewrite Hc, Ho in H2. cbn in H2. lia.
  - destruct st as [|s e|c].
    + destruct (clean g); cbn; [|reflexivity]. apply oeqb_eq. now apply H2.
    + destruct H2 as [Hs [He [o [Ho [Hle Hc]]]]]. rewrite Ho.
      repeat rewrite andb_true_iff. repeat split; try lia.
    + destruct (clean g); cbn; [|reflexivity].
      destruct (maxO g) as [o|]; cbn; [|reflexivity]. specialize (H2 eq_refl o eq_refl). lia.
Qed.

Ltac brk :=
  repeat match goal with
         | |- context [if ?b then _ else _] => destruct b eqn:?
         | H : context [if ?b then _ else _] |- _ => destruct b eqn:?
         end.

Lemma shape_new c o : wfo c -> wfo o -> shape_ok (ghost_new c o) (st_new c o) = true.
Proof.
  unfold wfo, wfh, shape_ok, ghost_new, st_new, checked_add, implied_committed, checked_sub,
    rempty, ole, oeqb, u32max.
  destruct c as [c|], o as [o|]; cbn; intros Hc Ho; brk; cbn; brk; lia.
Qed.

Lemma shape_step g st ev :
  wfe ev -> shape_ok g st = true -> shape_ok (ghost_step g ev) (step st ev) = true.
Proof.
  destruct g as [mc mo cl].
  unfold wfe, wfh, shape_ok, ghost_step, step, observe, commit, failed, apply_status,
    revert_before, implied_committed, checked_add, checked_sub, sat_add, rempty, rcontains,
    omax, ole, oeqb, u32max.
  destruct ev as [h|h|fs fe]; destruct st as [|s e|c]; destruct mc as [mc|]; destruct mo as [mo|];
    destruct cl; cbn; intros Hw H; brk; cbn in *; brk; try congruence; try lia.
Qed.

Lemma shape_run evs : forall st g,
  Forall wfe evs -> shape_ok g st = true ->
  Forall (fun p => shape_ok (snd p) (fst p) = true) (run_events st g evs).
Proof.
  induction evs as [|ev evs IH]; intros st g Hw H; cbn; [constructor|].
  inversion Hw as [|? ? Hev Hrest]; subst.
  assert (H' := shape_step g st ev Hev H).
  constructor; [exact H'|]. apply IH; assumption.
Qed.

Theorem status_shape_all c o evs :
  wfo c -> wfo o -> Forall wfe evs ->
  Shape (ghost_new c o) (st_new c o) /\
  Forall (fun p => Shape (snd p) (fst p)) (run_events (st_new c o) (ghost_new c o) evs).
Proof.
  intros Hc Ho Hw. pose proof (shape_new c o Hc Ho) as H0.
  split; [now apply shape_ok_sound|].
  pose proof (shape_run evs _ _ Hw H0) as HF.
  eapply Forall_impl; [|exact HF]. intros p Hp. now apply shape_ok_sound.
Qed.

(* committed height never decreases and never returns to "none" *)
Definition oleq (a b : option N) : Prop :=
  match a, b with
  | None, _ => True
  | Some x, Some y => x <= y
  | Some _, None => False
  end.

Lemma maxC_mono g ev : oleq (maxC g) (maxC (ghost_step g ev)).
Proof.
  destruct g as [mc mo cl]. destruct ev; cbn; destruct mc; cbn; try lia; exact Logic.I.
Qed.

Lemma committed_step g st ev :
  wfe ev -> shape_ok g st = true ->
  oleq (implied_committed st) (implied_committed (step st ev)).
Proof.
  intros Hw H. pose proof (shape_step g st ev Hw H) as H'.
  apply shape_ok_sound in H. apply shape_ok_sound in H'.
  destruct H as [-> _]. destruct H' as [-> _]. apply maxC_mono.
Qed.

Fixpoint mono_chain (prev : option N) (l : list (status * ghost)) : Prop :=
  match l with
  | [] => True
  | (st, _) :: r => oleq prev (implied_committed st) /\ mono_chain (implied_committed st) r
  end.

Theorem committed_monotone_all c o evs :
  wfo c -> wfo o -> Forall wfe evs ->
  mono_chain (implied_committed (st_new c o)) (run_events (st_new c o) (ghost_new c o) evs).
Proof.
  intros Hc Ho Hw. pose proof (shape_new c o Hc Ho) as H0.
  remember (st_new c o) as st eqn:E1. remember (ghost_new c o) as g eqn:E2. clear E1 E2 Hc Ho c o.
  revert st g H0. induction Hw as [|ev evs Hev _ IH]; intros st g H0; cbn; [exact Logic.I|].
  split; [eapply committed_step; eassumption|].
  apply IH. apply shape_step; assumption.
Qed.

(* non-vacuity: a concrete history reaching every status kind satisfies the hypotheses *)
Example shape_nonvacuous :
  map fst (run_events (st_new None None) (ghost_new None None)
             [EObserve 5; ECommit 2; EFailed 4 5; ECommit 3; EFailed 0 9]) =
  [Processing 0 5; Processing 3 5; Processing 3 3; Committed 3; Committed 3].
Proof. vm_compute. reflexivity. Qed.
