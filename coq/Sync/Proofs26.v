(* Proofs for C26: the import pipeline executes consecutive, checked blocks only. *)
From FC Require Import Sync.Model Sync.Import Sync.Proofs27 Sync.Proofs28.
From Coq Require Import ZifyBool ZifyN ZifyNat.
Open Scope N_scope.

(* a run of checked blocks at consecutive heights starting at [a] *)
Fixpoint run_from (a : N) (l : list hdr) : Prop :=
  match l with
  | [] => True
  | d :: r => hh d = a /\ consensus_ok d = true /\ run_from (a + 1) r
  end.

Lemma run_from_app a l1 l2 :
  run_from a l1 -> run_from (a + N.of_nat (length l1)) l2 -> run_from a (l1 ++ l2).
Proof.
  revert a. induction l1 as [|d r IH]; intros a H1 H2; cbn in *.
  - now replace (a + 0) with a in H2 by lia.
  - destruct H1 as (E1 & E2 & E3). repeat split; auto. apply IH; auto.
    now replace (a + 1 + N.of_nat (length r)) with (a + N.pos (Pos.of_succ_nat (length r))) by lia.
Qed.

(* ---------- the cache invariant ---------- *)

Definition entry_ok (e : N * (kind * hdr)) : Prop :=
  hh (snd (snd e)) = fst e /\ consensus_ok (snd (snd e)) = true.

Record CacheInv (c : cache) : Prop := {
  ci_sorted : sorted_cache (cache_items c);
  ci_entries : Forall entry_ok c
}.

Lemma CacheInv_nil : CacheInv [].
Proof. split; [exists 0; constructor|constructor]. Qed.

Lemma lookup_cache_items c h : lookup (cache_items c) h = option_map fst (cache_get c h).
Proof.
  induction c as [|[h' [k d]] r IH]; cbn; [reflexivity|]. destruct (h' =? h); [reflexivity|exact IH].
Qed.

Lemma cache_get_ok c h k d : Forall entry_ok c -> cache_get c h = Some (k, d) -> hh d = h /\ consensus_ok d = true.
Proof.
  induction 1 as [|[h' [k' d']] r Hx Hr IH]; cbn; [discriminate|].
  destruct (h' =? h) eqn:E.
  - intro Hs. injection Hs as -> ->. destruct Hx as [H1 H2]. cbn in *. split; [lia|exact H2].
  - exact IH.
Qed.

(* ascending lists: insertion and removal *)
Lemma ascb_items_insert c : forall m top h v,
  ascb m top (cache_items c) -> m <= h -> h <= top ->
  ascb m top (cache_items (cache_insert c h v)).
Proof.
  induction c as [|[h' [k' d']] r IH]; intros m top h [k d] Ha Hm Ht; cbn in *.
  - constructor; auto. constructor.
  - inversion Ha as [|? ? ? ? ? H1 H2 H3]; subst.
    destruct (h <? h') eqn:E1; cbn.
    + constructor; auto. constructor; auto; try lia.
    + destruct (h =? h') eqn:E2; cbn.
      * assert (h = h') by lia. subst h'. constructor; auto.
      * constructor; auto. apply IH; auto; lia.
Qed.

Lemma ascb_top_weaken m top top' l : top <= top' -> ascb m top l -> ascb m top' l.
Proof. intros Hle H. induction H; constructor; auto; lia. Qed.

Lemma sorted_insert c h v : sorted_cache (cache_items c) -> sorted_cache (cache_items (cache_insert c h v)).
Proof.
  intros [top Ha]. exists (N.max top h). apply ascb_items_insert; try lia.
  eapply ascb_top_weaken; [|exact Ha]. lia.
Qed.

Lemma entries_insert c h v : Forall entry_ok c -> entry_ok (h, v) -> Forall entry_ok (cache_insert c h v).
Proof.
  induction 1 as [|[h' v'] r Hx Hr IH]; intro Hv; cbn.
  - constructor; auto.
  - destruct (h <? h'); [constructor; auto|]. destruct (h =? h'); constructor; auto.
Qed.

Lemma ascb_items_remove c : forall m top h,
  ascb m top (cache_items c) -> ascb m top (cache_items (cache_remove c h)).
Proof.
  induction c as [|[h' [k' d']] r IH]; intros m top h Ha; cbn in *; [constructor|].
  inversion Ha as [|? ? ? ? ? H1 H2 H3]; subst.
  destruct (h' =? h); cbn.
  - eapply ascb_weaken; [|exact H3]. lia.
  - constructor; auto.
Qed.

Lemma CacheInv_insert c h v : CacheInv c -> entry_ok (h, v) -> CacheInv (cache_insert c h v).
Proof. intros [Hs He] Hv. split; [now apply sorted_insert|now apply entries_insert]. Qed.

Lemma CacheInv_remove c h : CacheInv c -> CacheInv (cache_remove c h).
Proof.
  intros [[top Hs] He]. split.
  - exists top. now apply ascb_items_remove.
  - clear Hs. induction He as [|[h' v'] r Hx Hr IH]; cbn; [constructor|].
    destruct (h' =? h); [exact Hr|constructor; auto].
Qed.

Lemma CacheInv_inserts ins : forall c, CacheInv c -> Forall entry_ok ins ->
  CacheInv (fold_left (fun c' e' => cache_insert c' (fst e') (snd e')) ins c).
Proof.
  induction ins as [|[h v] r IH]; intros c Hc Hi; cbn; [exact Hc|].
  inversion Hi; subst. apply IH; auto. now apply CacheInv_insert.
Qed.

Lemma CacheInv_removes hs : forall c, CacheInv c -> CacheInv (fold_left cache_remove hs c).
Proof. induction hs as [|h r IH]; intros c Hc; cbn; [exact Hc|]. apply IH. now apply CacheInv_remove. Qed.

Lemma CacheInv_batches l : forall c, CacheInv c -> Forall (fun ins => Forall entry_ok ins) l ->
  CacheInv (fold_left (fun c0 ins => fold_left (fun c' e' => cache_insert c' (fst e') (snd e')) ins c0) l c).
Proof.
  induction l as [|ins r IH]; intros c Hc Hl; cbn; [exact Hc|].
  inversion Hl; subst. apply IH; auto. now apply CacheInv_inserts.
Qed.

(* ---------- the stages produce runs of checked blocks ---------- *)

Lemma take_match_run items : forall a b, (forall d, In d (take_match items a b) -> True) ->
  let l := take_match items a b in
  (forall i d, nth_error l i = Some d -> hh d = a + N.of_nat i) /\ N.of_nat (length l) <= b - a.
Proof.
  induction items as [|x r IH]; intros a b _; cbn.
  - split; [intros [|i] d Hd; discriminate|lia].
  - destruct ((a <? b) && (hh x =? a)) eqn:E; cbn.
    + destruct (IH (a + 1) b (fun _ _ => Logic.I)) as [H1 H2]. split.
      * intros [|i] d Hd; cbn in Hd.
        -- injection Hd as <-. lia.
        -- rewrite (H1 i d Hd). lia.
      * lia.
    + split; [intros [|i] d Hd; discriminate|lia].
Qed.

Lemma take_valid_prefix hs : forall i d, nth_error (fst (take_valid hs)) i = Some d ->
  nth_error hs i = Some d /\ consensus_ok d = true.
Proof.
  induction hs as [|x r IH]; intros i d Hd; cbn in *.
  - destruct i; discriminate.
  - destruct (consensus_ok x) eqn:E.
    + destruct (take_valid r) as [l bad] eqn:Er. cbn in *. destruct i as [|i]; cbn in *.
      * injection Hd as <-. now split.
      * apply IH. exact Hd.
    + destruct i; discriminate.
Qed.

Lemma zip_blocks_prefix hs : forall ws i d, nth_error (fst (zip_blocks hs ws)) i = Some d -> nth_error hs i = Some d.
Proof.
  induction hs as [|h r IH]; intros ws i d Hd; cbn in *.
  - destruct i; discriminate.
  - destruct ws as [|w ws']; [destruct i; discriminate|].
    destruct (hv h =? w).
    + destruct (zip_blocks r ws') as [l bad] eqn:Ez. cbn in *. destruct i as [|i]; cbn in *; [exact Hd|].
      eapply IH. rewrite Ez. exact Hd.
    + destruct i; discriminate.
Qed.

Lemma zip_blocks_len hs : forall ws, (length (fst (zip_blocks hs ws)) <= length hs)%nat.
Proof.
  induction hs as [|h r IH]; intros ws; cbn; [lia|].
  destruct ws as [|w ws']; cbn; [lia|]. destruct (hv h =? w); cbn; [|lia].
  specialize (IH ws'). destruct (zip_blocks r ws'). cbn in *. lia.
Qed.

Lemma take_valid_len hs : (length (fst (take_valid hs)) <= length hs)%nat.
Proof.
  induction hs as [|x r IH]; cbn; [lia|]. destruct (consensus_ok x); cbn; [|lia].
  destruct (take_valid r). cbn in *. lia.
Qed.

(* pointwise description of a run *)
Lemma run_from_nth a l :
  (forall i d, nth_error l i = Some d -> hh d = a + N.of_nat i /\ consensus_ok d = true) -> run_from a l.
Proof.
  revert a. induction l as [|x r IH]; intros a Hn; cbn; [exact Logic.I|].
  destruct (Hn O x eq_refl) as [H1 H2]. repeat split; auto; [lia|].
  apply IH. intros i d Hd. destruct (Hn (S i) d Hd) as [H3 H4]. split; [lia|exact H4].
Qed.

Definition batch_good (a b : N) (bt : batch) : Prop :=
  ba bt = a /\ bb bt = b /\ run_from a (bblocks bt) /\ N.of_nat (length (bblocks bt)) <= b - a.

Lemma zip_blocks_run hs a b items :
  run_from a hs -> N.of_nat (length hs) <= b - a ->
  run_from a (fst (zip_blocks hs items)) /\ N.of_nat (length (fst (zip_blocks hs items))) <= b - a.
Proof.
  intros Hr Hl. split.
  - apply run_from_nth. intros i d Hd. apply zip_blocks_prefix in Hd.
    clear -Hr Hd. revert a i Hr Hd. induction hs as [|x r IH]; intros a i Hr Hd; [destruct i; discriminate|].
    cbn in Hr. destruct Hr as (E1 & E2 & E3). destruct i as [|i]; cbn in Hd.
    + injection Hd as <-. split; [lia|exact E2].
    + destruct (IH (a + 1) i E3 Hd) as [H1 H2]. split; [lia|exact H2].
  - pose proof (zip_blocks_len hs items). lia.
Qed.

Lemma blocks_stage_good sc peer a b hs :
  run_from a hs -> N.of_nat (length hs) <= b - a ->
  batch_good a b (fst (blocks_stage sc peer a b hs)).
Proof.
  intros Hr Hl. unfold blocks_stage.
  repeat match goal with
         | |- context [match ?x with _ => _ end] => destruct x eqn:?
         end; cbn [fst];
    try (repeat split; cbn; auto; lia);
    match goal with
    | Hz : zip_blocks hs ?items = (?l, _) |- _ =>
        destruct (zip_blocks_run hs a b items Hr Hl) as [Z1 Z2]; rewrite Hz in Z1, Z2; cbn in Z1, Z2;
        repeat split; cbn; auto
    end.
Qed.

Lemma ins_of_ok k hs a : run_from a hs -> Forall entry_ok (ins_of k hs).
Proof.
  revert a. induction hs as [|d r IH]; intros a Hr; cbn; [constructor|].
  destruct Hr as (E1 & E2 & E3). constructor; [split; cbn; auto|]. eapply IH. exact E3.
Qed.

Lemma payloads_cons c0 h r :
  payloads c0 (h :: r) = match cache_get c0 h with Some (_, d) => [d] | None => [] end ++ payloads c0 r.
Proof. reflexivity. Qed.

Lemma payloads_run c0 : Forall entry_ok c0 -> forall n a k,
  (forall h, a <= h < a + N.of_nat n -> option_map fst (cache_get c0 h) = Some k) ->
  run_from a (payloads c0 (nseq n a)) /\ length (payloads c0 (nseq n a)) = n.
Proof.
  intros He. induction n as [|n IH]; intros a k Hall; [split; [exact Logic.I|reflexivity]|].
  cbn [nseq]. rewrite payloads_cons.
  destruct (cache_get c0 a) as [[k' d]|] eqn:Eg.
  2:{ specialize (Hall a ltac:(lia)). rewrite Eg in Hall. discriminate. }
  destruct (cache_get_ok c0 a k' d He Eg) as [H1 H2].
  destruct (IH (a + 1) k) as [R1 R2].
  { intros h Hh. apply Hall. lia. }
  cbn [app length run_from]. split; [repeat split; auto|]. now rewrite R2.
Qed.

Lemma fetch_chunk_good sc c0 ch :
  CacheInv c0 -> content_ok (lookup (cache_items c0)) ch -> chunk_start ch < chunk_end ch ->
  let '(bt, ins, evs) := fetch_chunk sc c0 ch in
  batch_good (chunk_start ch) (chunk_end ch) bt /\ Forall entry_ok ins.
Proof.
  intros [Hs He] Hc Hlt. destruct ch as [a b|a b hs|a b hs]; cbn [fetch_chunk chunk_start chunk_end] in *.
  - (* fetched from the network *)
    destruct (get_headers_batch sc a b) as [[peer hs] ev1] eqn:Eg.
    destruct (take_valid hs) as [checked bad] eqn:Ev.
    assert (Hrun : run_from a checked /\ N.of_nat (length checked) <= b - a).
    { assert (Hhs : (forall i d, nth_error hs i = Some d -> hh d = a + N.of_nat i) /\ N.of_nat (length hs) <= b - a).
      { unfold get_headers_batch in Eg.
        repeat match type of Eg with context [match ?x with _ => _ end] => destruct x end;
          injection Eg as _ <- _;
          first [ apply take_match_run; auto | split; [intros [|i] d Hd; discriminate|cbn; lia] ]. }
      destruct Hhs as [Hn Hl]. split.
      - apply run_from_nth. intros i d Hd. replace checked with (fst (take_valid hs)) in Hd by now rewrite Ev.
        destruct (take_valid_prefix hs i d Hd) as [H1 H2]. split; [now apply Hn|exact H2].
      - pose proof (take_valid_len hs) as Hle. rewrite Ev in Hle. cbn in Hle. lia. }
    destruct Hrun as [Hrun Hlen].
    pose proof (blocks_stage_good sc peer a b checked Hrun Hlen) as Hg.
    destruct (blocks_stage sc peer a b checked) as [bt ev3]. cbn in Hg. split; [exact Hg|].
    apply Forall_app. split.
    + destruct (N.of_nat (length checked) <? b - a); [constructor|eapply ins_of_ok; exact Hrun].
    + destruct (batch_is_err bt); [constructor|]. destruct Hg as (_ & _ & Hr & _). eapply ins_of_ok; exact Hr.
  - (* cached headers *)
    destruct Hc as [-> Hall]. unfold heights.
    destruct (payloads_run c0 He (N.to_nat (b - a)) a KHeader) as [R1 R2].
    { intros h Hh. rewrite <- lookup_cache_items. apply Hall. lia. }
    pose proof (blocks_stage_good sc None a b _ R1 ltac:(rewrite R2; lia)) as Hg.
    destruct (blocks_stage sc None a b (payloads c0 (nseq (N.to_nat (b - a)) a))) as [bt evs]. cbn in Hg.
    split; [exact Hg|].
    destruct (batch_is_err bt); [constructor|]. destruct Hg as (_ & _ & Hr & _). eapply ins_of_ok; exact Hr.
  - (* cached blocks *)
    destruct Hc as [-> Hall]. unfold heights.
    destruct (payloads_run c0 He (N.to_nat (b - a)) a KBlock) as [R1 R2].
    { intros h Hh. rewrite <- lookup_cache_items. apply Hall. lia. }
    split; [|constructor].
    repeat split; cbn; auto. rewrite R2. lia.
Qed.

(* batches that continue each other *)
Fixpoint tiled (next : N) (bts : list batch) : Prop :=
  match bts with
  | [] => True
  | bt :: r => ba bt = next /\ next < bb bt /\ run_from next (bblocks bt) /\
               N.of_nat (length (bblocks bt)) <= bb bt - next /\ tiled (bb bt) r
  end.

Lemma fetch_all_tiled sc c0 size : CacheInv c0 -> forall chs a b,
  tiles (lookup (cache_items c0)) size a b chs ->
  tiled a (map (fun x => fst (fst x)) (fetch_all sc c0 chs)) /\
  Forall (fun x => Forall entry_ok (snd (fst x))) (fetch_all sc c0 chs).
Proof.
  intros Hinv chs. induction chs as [|ch r IH]; intros a b Ht; cbn [fetch_all map]; [split; [exact Logic.I|constructor]|].
  inversion Ht as [|? ? ? ? H1 H2 H3 H4 H5]; subst.
  pose proof (fetch_chunk_good sc c0 ch Hinv H4 H2) as Hg.
  destruct (fetch_chunk sc c0 ch) as [[bt ins] evs] eqn:Ef. destruct Hg as ((G1 & G2 & G3 & G4) & Hins).
  cbn [fst snd]. destruct (batch_is_err bt); cbn [map fst snd].
  - split; [|constructor; [exact Hins|constructor]].
    cbn. rewrite G2. repeat split; auto; lia.
  - destruct (IH _ _ H5) as [T1 T2]. split; [|constructor; auto].
    cbn. rewrite G2. repeat split; auto; lia.
Qed.

(* ---------- the execution log ---------- *)

Lemma exec_log_dead evs next : evs <> [] -> exec_log_okb next false evs = false.
Proof. destruct evs as [|[h v f w ok|p] r]; [congruence|reflexivity|reflexivity]. Qed.

Lemma exec_blocks_log bs : forall st next rest,
  run_from next bs ->
  let '(st', evs, hs, n, stop) := exec_blocks st bs in
  exec_log_okb next true (evs ++ rest) =
    (if stop then match rest with [] => true | _ => false end else exec_log_okb (next + n) true rest) /\
  n <= N.of_nat (length bs) /\ (stop = false -> n = N.of_nat (length bs)) /\ (stop = true -> n < N.of_nat (length bs)).
Proof.
  induction bs as [|d r IH]; intros st next rest Hr; cbn [exec_blocks].
  - cbn. replace (next + 0) with next by lia. repeat split; auto; try lia; try discriminate.
  - cbn in Hr. destruct Hr as (E1 & E2 & E3). destruct (exec_ok d) eqn:Eo.
    + specialize (IH (commit st (hh d)) (next + 1) rest E3).
      destruct (exec_blocks (commit st (hh d)) r) as [[[[st' evs] hs] n] stop].
      destruct IH as (I1 & I2 & I3 & I4). cbn [app exec_log_okb].
      assert (Hd : consensus_ok {| hh := hh d; hv := hv d; hf := hf d |} = true) by (destruct d; exact E2).
      rewrite Hd, !N.eqb_refl. replace (hh d =? next) with true by lia. cbn [andb].
      rewrite I1. replace (next + 1 + n) with (next + (n + 1)) by lia.
      repeat split; auto; cbn [length]; try lia;
        try (intro Hs; try specialize (I3 Hs); try specialize (I4 Hs); lia).
    + cbn [app exec_log_okb].
      assert (Hd : consensus_ok {| hh := hh d; hv := hv d; hf := hf d |} = true) by (destruct d; exact E2).
      rewrite Hd, !N.eqb_refl. replace (hh d =? next) with true by lia. cbn [andb].
      repeat split; cbn [length]; try lia; try discriminate.
      destruct rest as [|x rest']; [reflexivity|]. now apply exec_log_dead.
Qed.

Lemma exec_batches_log bts : forall st next idx,
  tiled next bts ->
  let '(st', evs, hs, n, last) := exec_batches st bts idx in
  exec_log_okb next true evs = true.
Proof.
  induction bts as [|bt r IH]; intros st next idx Ht; cbn [exec_batches]; [reflexivity|].
  cbn in Ht. destruct Ht as (T1 & T2 & T3 & T4 & T5).
  pose proof (exec_blocks_log (bblocks bt) st next) as Hb.
  destruct (exec_blocks st (bblocks bt)) as [[[[st1 evs] hs] n] stop] eqn:Eb.
  rewrite T1. destruct (n <? bb bt - next) eqn:Ec; cbn [negb].
  - (* incomplete: no report, nothing follows *)
    destruct (Hb [] T3) as (L1 & _). rewrite !app_nil_r in *. rewrite L1. destruct stop; reflexivity.
  - (* complete *)
    specialize (IH st1 (bb bt) (idx + 1) T5).
    destruct (exec_batches st1 r (idx + 1)) as [[[[st2 evs2] hs2] n2] last].
    set (rep := match bpeer bt with Some p => [XRep p] | None => [] end).
    destruct (Hb (rep ++ evs2) T3) as (L1 & L2 & L3 & L4).
    assert (Hstop : stop = false).
    { destruct stop; [|reflexivity]. specialize (L4 eq_refl). lia. }
    rewrite L1, Hstop. specialize (L3 Hstop).
    replace (next + n) with (bb bt) by lia.
    unfold rep. destruct (bpeer bt); cbn; exact IH.
Qed.

(* ---------- one round, and histories ---------- *)

Theorem round_ok_all size sc st c0 :
  1 <= size -> CacheInv c0 ->
  (forall s e, process_range st = Some (s, e) -> s <= e /\ e < u32max) ->
  round_okb (import_round size sc st c0) = true /\ CacheInv (o_cache (import_round size sc st c0)).
Proof.
  intros Hsize Hinv Hrange. unfold import_round.
  destruct (process_range st) as [[s e]|] eqn:Er; [|split; [reflexivity|exact Hinv]].
  destruct (Hrange s e eq_refl) as [Hse He].
  pose proof (get_chunks_tiles (cache_items c0) s e size (ci_sorted _ Hinv) Hse He Hsize) as Ht.
  destruct (fetch_all_tiled sc c0 size Hinv _ _ _ Ht) as [Htiled Hins].
  pose proof (exec_batches_log (map (fun x => fst (fst x)) (fetch_all sc c0 (get_chunks (cache_items c0) s e size))) st s 0 Htiled) as Hlog.
  destruct (exec_batches st _ 0) as [[[[st1 xevs] touched] count] last]. cbn [round_okb o_range o_exec o_cache].
  split; [exact Hlog|].
  apply CacheInv_removes.
  set (done := firstn (N.to_nat (last + 3)) (fetch_all sc c0 (get_chunks (cache_items c0) s e size))).
  assert (Hd : Forall (fun x => Forall entry_ok (snd (fst x))) done).
  { unfold done. clear -Hins. revert Hins. generalize (fetch_all sc c0 (get_chunks (cache_items c0) s e size)).
    generalize (N.to_nat (last + 3)). induction n as [|n IH]; intros l Hl; cbn; [constructor|].
    destruct l; [constructor|]. inversion Hl; subst. constructor; auto. }
  apply CacheInv_batches; [exact Hinv|].
  clear -Hd. induction Hd; cbn; constructor; auto.
Qed.

(* the sync status keeps the C28 shape, so the processing range is well formed *)
Definition range_wf (st : status) : Prop :=
  forall s e, process_range st = Some (s, e) -> s <= e /\ e < u32max.

Fixpoint rounds_ok (size : N) (st : status) (c : cache) (rounds : list (list event * script)) : Prop :=
  match rounds with
  | [] => True
  | (pre, sc) :: r =>
      let st0 := fold_left step pre st in
      let o := import_round size sc st0 c in
      (range_wf st0 -> round_okb o = true /\ CacheInv (o_cache o)) /\
      (range_wf st0 -> rounds_ok size (o_status o) (o_cache o) r)
  end.

Theorem history_ok_all size rounds : 1 <= size -> forall st c, CacheInv c -> rounds_ok size st c rounds.
Proof.
  intros Hsize. induction rounds as [|[pre sc] r IH]; intros st c Hinv; cbn; [exact Logic.I|].
  split; intro Hwf.
  - apply round_ok_all; auto.
  - apply IH. apply round_ok_all; auto.
Qed.

(* ---------- peers that supply bad data are reported (fetch side) ---------- *)

Lemma headers_deficit_reported sc a b p m items :
  alook (hb sc) a = Some (p, m, items) -> m = 0 \/ m = 2 -> a < b ->
  let '(peer, hs, evs) := get_headers_batch sc a b in
  N.of_nat (length hs) < b - a -> In (FRep p R_MISSING_HEADERS) evs.
Proof.
  intros Ha Hm Hab. unfold get_headers_batch. rewrite Ha. destruct Hm as [-> | ->].
  - intro Hl. replace (N.of_nat (length (take_match items a b)) =? b - a) with false by lia. right. now left.
  - intros _. replace (0 =? b - a) with false by lia. right. now left.
Qed.

Lemma bad_header_reported sc c0 a b p m items :
  alook (hb sc) a = Some (p, m, items) -> m = 0 \/ m = 2 ->
  snd (take_valid (snd (fst (get_headers_batch sc a b)))) = true ->
  In (FRep p R_BAD_HEADER) (snd (fetch_chunk sc c0 (CNone a b))).
Proof.
  intros Ha Hm Hbad. cbn [fetch_chunk].
  assert (Hp : fst (fst (get_headers_batch sc a b)) = Some p).
  { unfold get_headers_batch. rewrite Ha. destruct Hm as [-> | ->]; reflexivity. }
  destruct (get_headers_batch sc a b) as [[peer hs] ev1]. cbn in *. subst peer.
  destruct (take_valid hs) as [checked bad]. cbn in Hbad. subst bad.
  destruct (blocks_stage sc (Some p) a b checked) as [bt ev3]. cbn.
  apply in_or_app. right. cbn. now left.
Qed.

Lemma transactions_deficit_reported sc p a b hs lst :
  last_hdr hs = Some lst ->
  let evs := snd (blocks_stage sc (Some p) a b hs) in
  match alook (tb sc) a with
  | Some (_, 0, items) =>
      ((length items < length hs)%nat -> In (FRep p R_MISSING_TXS) evs) /\
      (snd (zip_blocks hs items) = true -> In (FRep p R_INVALID_TXS) evs)
  | _ => In (FRep p R_MISSING_TXS) evs
  end.
Proof.
  intros Hl. unfold blocks_stage. rewrite Hl.
  destruct (alook (tb sc) a) as [[[p' m] items]|].
  - destruct m as [|m].
    + destruct (zip_blocks hs items) as [blocks bad] eqn:Ez. cbn [snd fst]. split.
      * intro Hs. apply Nat.ltb_lt in Hs. rewrite Hs.
        apply in_or_app. right. apply in_or_app. right. apply in_or_app. left. now left.
      * intros ->. apply in_or_app. right. apply in_or_app. right. apply in_or_app. right. now left.
    + cbn [snd fst]. apply in_or_app. right. now left.
  - cbn [snd fst]. apply in_or_app. right. now left.
Qed.

(* non-vacuity: a round over a clean peer executes the whole range *)
Example round_nonvacuous :
  let sc := {| hb := [(1, (7, 0, [{| hh := 1; hv := 2; hf := 0 |}; {| hh := 2; hv := 0; hf := 0 |}]));
                      (3, (8, 0, [{| hh := 3; hv := 1; hf := 0 |}]))];
               tb := [(1, (7, 0, [2; 0])); (3, (8, 0, [1]))] |} in
  let o := import_round 2 sc (st_new (Some 0) (Some 3)) [] in
  o_ok o = true /\ o_status o = Committed 3 /\
  o_exec o = [XExec 1 2 0 2 true; XExec 2 0 0 0 true; XRep 7; XExec 3 1 0 1 true; XRep 8].
Proof. vm_compute. repeat split; reflexivity. Qed.
