(* Proofs for C27: Cache::get_chunks partitions every requested range exactly. *)
From FC Require Import Sync.Model.
From Coq Require Import ZifyBool ZifyN ZifyNat.
Open Scope N_scope.

(* ---------- arithmetic of the missing-range chunk count ---------- *)

Lemma nchunks_zero cur height size : 1 <= size -> height <= cur -> nchunks cur height size = O.
Proof.
  intros Hs Hle. unfold nchunks. replace (height - cur) with 0 by lia.
  rewrite N.div_small by lia. reflexivity.
Qed.

Lemma nchunks_step cur height size :
  1 <= size -> cur < height ->
  nchunks cur height size = S (nchunks (cur + size) height size).
Proof.
  intros Hs Hlt. unfold nchunks.
  destruct (N.le_gt_cases height (cur + size)) as [Hge|Hgt].
  - replace (height - (cur + size)) with 0 by lia.
    rewrite (N.div_small (0 + size - 1)) by lia.
    assert (E : (height - cur + size - 1) / size = 1).
    { symmetry. apply N.div_unique with (r := height - cur - 1); lia. }
    rewrite E. reflexivity.
  - replace (height - cur + size - 1) with ((height - (cur + size) + size - 1) + 1 * size) by lia.
    rewrite N.div_add by lia. lia.
Qed.

(* ---------- heights ---------- *)

Lemma nseq_In n : forall a h, In h (nseq n a) <-> a <= h < a + N.of_nat n.
Proof.
  induction n as [|n IH]; intros a h; cbn [nseq In].
  - lia.
  - rewrite IH. lia.
Qed.

Lemma heights_In a b h : In h (heights a b) <-> a <= h < b.
Proof. unfold heights. rewrite nseq_In. lia. Qed.

Lemma nseq_snoc n : forall a, nseq (S n) a = nseq n a ++ [a + N.of_nat n].
Proof.
  induction n as [|n IH]; intros a.
  - cbn. f_equal. lia.
  - change (nseq (S (S n)) a) with (a :: nseq (S n) (a + 1)). rewrite IH.
    cbn [nseq app]. do 3 f_equal. lia.
Qed.

Lemma heights_snoc a b : a <= b -> heights a (b + 1) = heights a b ++ [b].
Proof.
  intros Hle. unfold heights.
  replace (N.to_nat (b + 1 - a)) with (S (N.to_nat (b - a))) by lia.
  rewrite nseq_snoc. do 2 f_equal. lia.
Qed.

Lemma heights_single h : heights h (h + 1) = [h].
Proof. unfold heights. replace (h + 1 - h) with 1 by lia. reflexivity. Qed.

(* ---------- the tiling specification ---------- *)

Section Tiles.
  Variable f : N -> option kind.    (* the cache, as a lookup function *)
  Variable size : N.

  Definition content_ok (c : chunk) : Prop :=
    match c with
    | CNone a b => forall h, a <= h < b -> f h = None
    | CHeaders a b hs => hs = heights a b /\ forall h, a <= h < b -> f h = Some KHeader
    | CBlocks a b hs => hs = heights a b /\ forall h, a <= h < b -> f h = Some KBlock
    end.

  (* [tiles a b cs]: the batches cs are consecutive, start at a, end at b (exclusive),
     each is non-empty, at most [size] long, and carries exactly the cached items
     of its heights (a None batch contains no cached height). *)
  Inductive tiles : N -> N -> list chunk -> Prop :=
  | tiles_nil a : tiles a a []
  | tiles_cons a b c r :
      chunk_start c = a -> a < chunk_end c -> chunk_end c - a <= size ->
      content_ok c -> tiles (chunk_end c) b r -> tiles a b (c :: r).

  Lemma tiles_le a b l : tiles a b l -> a <= b.
  Proof. induction 1; lia. Qed.

  Lemma tiles_app a b c l1 l2 : tiles a b l1 -> tiles b c l2 -> tiles a c (l1 ++ l2).
  Proof.
    induction 1 as [a|a b x r H1 H2 H3 H4 H5 IH]; intros Hr; cbn; [exact Hr|].
    econstructor; eauto.
  Qed.

  Lemma tiles_one a c :
    chunk_start c = a -> a < chunk_end c -> chunk_end c - a <= size -> content_ok c ->
    tiles a (chunk_end c) [c].
  Proof. intros. econstructor; eauto. constructor. Qed.

  (* every height of [a, b) lies in some batch *)
  Lemma tiles_cover a b l : tiles a b l ->
    forall h, a <= h < b -> exists c, In c l /\ chunk_start c <= h < chunk_end c.
  Proof.
    induction 1 as [a|a b x r H1 H2 H3 H4 H5 IH]; intros h Hh; [lia|].
    destruct (N.lt_ge_cases h (chunk_end x)) as [Hlt|Hge].
    - exists x. split; [now left|lia].
    - destruct (IH h ltac:(lia)) as [c [Hin Hc]]. exists c. split; [now right|exact Hc].
  Qed.

  (* batches are pairwise disjoint and ordered: everything after the head starts at or
     after the head's end *)
  Lemma tiles_after a b l : tiles a b l ->
    forall c, In c l -> a <= chunk_start c /\ chunk_end c <= b.
  Proof.
    induction 1 as [a|a b x r H1 H2 H3 H4 H5 IH]; intros c Hin; [destruct Hin|].
    pose proof (tiles_le _ _ _ H5) as Hle.
    destruct Hin as [->|Hin].
    - lia.
    - destruct (IH c Hin). lia.
  Qed.

  (* ---------- missing ranges ---------- *)

  Lemma missing_tiles height bound :
    1 <= size -> height <= u32max -> height <= bound ->
    forall n cur, n = nchunks cur height size -> cur <= height ->
      (forall h, cur <= h < height -> f h = None) ->
      tiles cur height (missing_aux n cur size height bound).
  Proof.
    intros Hs Hmax Hb. induction n as [|n IH]; intros cur Hn Hle Hnone.
    - destruct (N.eq_dec cur height) as [->|Hne]; [constructor|].
      rewrite nchunks_step in Hn by lia. discriminate.
    - destruct (N.eq_dec cur height) as [->|Hne].
      { rewrite nchunks_zero in Hn by lia. discriminate. }
      rewrite nchunks_step in Hn by lia. injection Hn as Hn.
      cbn [missing_aux]. unfold sat_add.
      set (e' := N.min (N.min (N.min u32max (cur + size)) height) bound).
      assert (He' : e' = N.min (cur + size) height) by (unfold e'; lia).
      destruct (N.le_gt_cases height (cur + size)) as [Hge|Hgt].
      + rewrite nchunks_zero in Hn by lia. subst n. cbn [missing_aux].
        replace height with e' at 1 by lia.
        change e' with (chunk_end (CNone cur e')).
        apply tiles_one; cbn; try lia. intros h Hh. apply Hnone. lia.
      + apply tiles_cons with (c := CNone cur e'); cbn; try lia.
        * intros h Hh. apply Hnone. lia.
        * replace e' with (cur + size) by lia. apply IH; try lia.
          intros h Hh. apply Hnone. lia.
  Qed.

  Lemma push_missing_tiles cur height bound :
    1 <= size -> height <= u32max -> height <= bound -> cur <= height ->
    (forall h, cur <= h < height -> f h = None) ->
    tiles cur height (push_missing cur height size bound).
  Proof. intros. unfold push_missing. apply missing_tiles; auto. Qed.

  (* ---------- the loop ---------- *)

  Definition typed (cur : chunk) : Prop :=
    match cur with CNone _ _ => False | _ => True end.

  Definition cur_ok (a cur_h : N) (cur : chunk) : Prop :=
    (cur = CNone 0 0 /\ a = cur_h) \/
    (typed cur /\ chunk_start cur = a /\ chunk_end cur = cur_h /\ a < cur_h /\
     cur_h - a <= size /\ content_ok cur).

  Definition LInv (s : N) (st : loop_state) : Prop :=
    let '(cur_h, chunks, cur) := st in
    exists a, tiles s a chunks /\ cur_ok a cur_h cur.

  Lemma flush_tiles s a cur_h chunks cur :
    tiles s a chunks -> cur_ok a cur_h cur -> tiles s cur_h (flush chunks cur).
  Proof.
    intros Ht [[-> ->]|(Hty & Hs & He & Hlt & Hlen & Hc)]; unfold flush, chunk_empty.
    - cbn. exact Ht.
    - replace (chunk_end cur <=? chunk_start cur) with false by lia.
      eapply tiles_app; [exact Ht|]. rewrite <- He. apply tiles_one; try lia. exact Hc.
  Qed.

  Lemma new_chunk_ok k h : 1 <= size -> h < u32max -> f h = Some k -> cur_ok h (h + 1) (new_chunk k h).
  Proof.
    intros Hs Hh Hf. right. unfold new_chunk, sat_add.
    replace (N.min u32max (h + 1)) with (h + 1) by lia.
    destruct k; cbn; repeat split; try lia; try (now rewrite heights_single);
      try (intros h' Hh'; replace h' with h by lia; exact Hf).
  Qed.

  Lemma step_inv s endx cur_h chunks cur h k :
    1 <= size -> h < u32max -> h < endx ->
    LInv s (cur_h, chunks, cur) -> cur_h <= h -> f h = Some k ->
    (forall h', cur_h <= h' < h -> f h' = None) ->
    exists chunks' cur',
      chunk_step size endx (cur_h, chunks, cur) (h, k) = (h + 1, chunks', cur') /\
      LInv s (h + 1, chunks', cur').
  Proof.
    intros Hs Hmax Hend [a [Ht Hc]] Hle Hf Hgap.
    unfold chunk_step.
    assert (Hsat : sat_add u32max h 1 = h + 1) by (unfold sat_add; lia).
    rewrite Hsat.
    destruct (h =? cur_h) eqn:Eh; cbn [negb].
    - (* contiguous with the current chunk *)
      assert (h = cur_h) by lia. subst cur_h. clear Eh Hgap Hle.
      destruct Hc as [[-> ->]|(Hty & Hst & Hen & Hlt & Hlen & Hco)].
      + cbn [handle_current]. eexists _, _. split; [reflexivity|].
        exists h. split; [now rewrite app_nil_r|]. now apply new_chunk_ok.
      + destruct cur as [x y|x y hs|x y hs]; [destruct Hty| |]; cbn in Hst, Hen; subst x y;
          destruct k; cbn [handle_current].
        * (* headers + header *)
          destruct (h - a =? size) eqn:Efull.
          -- eexists _, _. split; [reflexivity|]. exists h. split; [|now apply new_chunk_ok].
             eapply tiles_app; [exact Ht|].
             apply (tiles_one a (CHeaders a h hs)); cbn; try lia. exact Hco.
          -- eexists _, _. split; [reflexivity|]. exists a. split; [now rewrite app_nil_r|].
             right. unfold sat_add. replace (N.min u32max (h + 1)) with (h + 1) by lia.
             destruct Hco as [Hhs Hall]. cbn. repeat split; try lia.
             ++ rewrite heights_snoc by lia. now rewrite Hhs.
             ++ intros h' Hh'. destruct (N.eq_dec h' h) as [->|Hne]; [exact Hf|]. apply Hall. lia.
        * (* headers + block *)
          eexists _, _. split; [reflexivity|]. exists h. split; [|now apply new_chunk_ok].
          eapply tiles_app; [exact Ht|].
          apply (tiles_one a (CHeaders a h hs)); cbn; try lia. exact Hco.
        * (* blocks + header *)
          eexists _, _. split; [reflexivity|]. exists h. split; [|now apply new_chunk_ok].
          eapply tiles_app; [exact Ht|].
          apply (tiles_one a (CBlocks a h hs)); cbn; try lia. exact Hco.
        * (* blocks + block *)
          destruct (h - a =? size) eqn:Efull.
          -- eexists _, _. split; [reflexivity|]. exists h. split; [|now apply new_chunk_ok].
             eapply tiles_app; [exact Ht|].
             apply (tiles_one a (CBlocks a h hs)); cbn; try lia. exact Hco.
          -- eexists _, _. split; [reflexivity|]. exists a. split; [now rewrite app_nil_r|].
             right. unfold sat_add. replace (N.min u32max (h + 1)) with (h + 1) by lia.
             destruct Hco as [Hhs Hall]. cbn. repeat split; try lia.
             ++ rewrite heights_snoc by lia. now rewrite Hhs.
             ++ intros h' Hh'. destruct (N.eq_dec h' h) as [->|Hne]; [exact Hf|]. apply Hall. lia.
    - (* a gap before the item *)
      assert (cur_h < h) by lia. cbn [handle_current].
      eexists _, _. split; [reflexivity|].
      exists h. split; [|now apply new_chunk_ok].
      rewrite app_nil_r. eapply tiles_app.
      + eapply flush_tiles; eassumption.
      + apply push_missing_tiles; try lia. exact Hgap.
  Qed.

End Tiles.

(* ---------- sorted item lists (what BTreeMap::range yields) ---------- *)

(* ascb m e l: strictly ascending heights, all within [m, e] *)
Inductive ascb : N -> N -> list item -> Prop :=
| ascb_nil m e : ascb m e []
| ascb_cons m e h k r : m <= h -> h <= e -> ascb (h + 1) e r -> ascb m e ((h, k) :: r).

Lemma ascb_lookup_lt m e l : ascb m e l -> forall h, h < m -> lookup l h = None.
Proof.
  induction 1 as [|m e h k r H1 H2 H3 IH]; intros x Hx; cbn; [reflexivity|].
  replace (h =? x) with false by lia. apply IH. lia.
Qed.

Lemma ascb_weaken m m' e l : m' <= m -> ascb m e l -> ascb m' e l.
Proof. intros Hle H. destruct H; constructor; auto; lia. Qed.

Lemma fold_inv size s e endx :
  1 <= size -> e < u32max -> endx = e + 1 ->
  forall todo f cur_h chunks cur,
    ascb cur_h e todo ->
    (forall h, cur_h <= h <= e -> f h = lookup todo h) ->
    LInv f size s (cur_h, chunks, cur) -> cur_h <= e + 1 ->
    exists cur_h' chunks' cur',
      fold_left (chunk_step size endx) todo (cur_h, chunks, cur) = (cur_h', chunks', cur') /\
      LInv f size s (cur_h', chunks', cur') /\ cur_h' <= e + 1 /\
      (forall h, cur_h' <= h <= e -> f h = None).
Proof.
  intros Hs He Hendx. induction todo as [|[h k] r IH]; intros f cur_h chunks cur Hasc Hag Hinv Hb.
  - cbn. eexists _, _, _. split; [reflexivity|]. split; [exact Hinv|]. split; [exact Hb|].
    intros h Hh. rewrite Hag by lia. reflexivity.
  - inversion Hasc as [|? ? ? ? ? Hmh Hhe Hr]; subst.
    assert (Hfh : f h = Some k).
    { rewrite Hag by lia. cbn. now rewrite N.eqb_refl. }
    assert (Hgap : forall h', cur_h <= h' < h -> f h' = None).
    { intros h' Hh'. rewrite Hag by lia. cbn. replace (h =? h') with false by lia.
      eapply ascb_lookup_lt; [exact Hr|lia]. }
    destruct (step_inv f size s (e + 1) cur_h chunks cur h k Hs ltac:(lia) ltac:(lia) Hinv Hmh Hfh Hgap)
      as (chunks1 & cur1 & Hstep & Hinv1).
    cbn [fold_left]. rewrite Hstep.
    apply IH; try lia; try assumption.
    intros h' Hh'. rewrite Hag by lia. cbn. replace (h =? h') with false by lia. reflexivity.
Qed.

Theorem get_chunks_items_tiles f items s e size :
  s <= e -> e < u32max -> 1 <= size ->
  ascb s e items -> (forall h, s <= h <= e -> f h = lookup items h) ->
  tiles f size s (e + 1) (get_chunks_items items s e size).
Proof.
  intros Hse He Hs Hasc Hag. unfold get_chunks_items.
  assert (Hendx : sat_add u32max e 1 = e + 1) by (unfold sat_add; lia).
  rewrite Hendx.
  destruct (fold_inv size s e (e + 1) Hs He eq_refl items f s [] (CNone 0 0) Hasc Hag)
    as (cur_h & chunks & cur & Hfold & [a [Ht Hc]] & Hb & Hnone).
  - exists s. split; [constructor|]. left. split; reflexivity.
  - lia.
  - rewrite Hfold. eapply tiles_app.
    + eapply flush_tiles; eassumption.
    + assert (Hle : cur_h <= e + 1) by exact Hb.
      apply push_missing_tiles; try lia. intros h Hh. apply Hnone. lia.
Qed.

(* ---------- from the cache (a BTreeMap: strictly ascending keys) ---------- *)

Lemma lookup_collect cache s e h :
  s <= h <= e -> lookup (collect cache s e) h = lookup cache h.
Proof.
  intros Hh. unfold collect. induction cache as [|[h' k] r IH]; cbn; [reflexivity|].
  destruct ((s <=? h') && (h' <=? e)) eqn:Ein; cbn.
  - now rewrite IH.
  - replace (h' =? h) with false by lia. exact IH.
Qed.

Lemma ascb_collect cache s e : forall m top, ascb m top cache -> ascb (N.max m s) e (collect cache s e).
Proof.
  unfold collect. induction cache as [|[h k] r IH]; intros m top H; cbn; [constructor|].
  inversion H as [|? ? ? ? ? H1 H2 H3]; subst.
  destruct ((s <=? h) && (h <=? e)) eqn:Ein; cbn.
  - constructor; try lia. replace (h + 1) with (N.max (h + 1) s) by lia. eapply IH; eassumption.
  - eapply ascb_weaken; [|eapply IH; eassumption]. lia.
Qed.

Definition sorted_cache (cache : list item) : Prop := exists top, ascb 0 top cache.

Theorem get_chunks_tiles cache s e size :
  sorted_cache cache -> s <= e -> e < u32max -> 1 <= size ->
  tiles (lookup cache) size s (e + 1) (get_chunks cache s e size).
Proof.
  intros [top Hsorted] Hse He Hs. unfold get_chunks.
  apply get_chunks_items_tiles; try assumption.
  - replace s with (N.max 0 s) at 1 by lia. eapply ascb_collect; eassumption.
  - intros h Hh. symmetry. now apply lookup_collect.
Qed.

(* ---------- reflection: the boolean checker decides [tiles] ---------- *)

Lemma listN_eqb_eq x : forall y, listN_eqb x y = true <-> x = y.
Proof.
  induction x as [|a x IH]; intros [|b y]; cbn; split; intro H; try discriminate; try reflexivity.
  - apply andb_true_iff in H. destruct H as [H1 H2]. apply N.eqb_eq in H1. apply IH in H2. now subst.
  - injection H as -> ->. rewrite N.eqb_refl. cbn. now apply IH.
Qed.

Lemma okind_eqb_eq a b : okind_eqb a b = true <-> a = b.
Proof. destruct a as [[]|], b as [[]|]; cbn; split; intro H; congruence. Qed.

Lemma content_okb_iff cache c : content_okb cache c = true <-> content_ok (lookup cache) c.
Proof.
  destruct c as [a b|a b hs|a b hs]; cbn.
  - rewrite forallb_forall. split; intros H h Hh.
    + apply okind_eqb_eq. apply H. now apply heights_In.
    + apply okind_eqb_eq. apply H. now apply heights_In in Hh.
  - rewrite andb_true_iff, listN_eqb_eq, forallb_forall. split; intros [H1 H2]; split; auto; intros h Hh.
    + apply okind_eqb_eq. apply H2. now apply heights_In.
    + apply okind_eqb_eq. apply H2. now apply heights_In in Hh.
  - rewrite andb_true_iff, listN_eqb_eq, forallb_forall. split; intros [H1 H2]; split; auto; intros h Hh.
    + apply okind_eqb_eq. apply H2. now apply heights_In.
    + apply okind_eqb_eq. apply H2. now apply heights_In in Hh.
Qed.

Lemma tilesb_iff cache size cs : forall a b,
  tilesb cache size a b cs = true <-> tiles (lookup cache) size a b cs.
Proof.
  induction cs as [|c r IH]; intros a b; cbn [tilesb].
  - split; intro H.
    + apply N.eqb_eq in H. subst. constructor.
    + inversion H; subst. apply N.eqb_refl.
  - repeat rewrite andb_true_iff. rewrite content_okb_iff, IH. split.
    + intros [[[[[H1 H2] H3] H4] H5] H6]. econstructor; eauto; lia.
    + intros H. inversion H as [|? ? ? ? H1 H2 H3 H4 H5]; subst.
      pose proof (tiles_le _ _ _ _ _ H5). repeat split; auto; lia.
Qed.

Theorem chunks_partition_all cache s e size :
  sorted_cache cache -> s <= e -> e < u32max -> 1 <= size ->
  chunks_okb cache s e size (get_chunks cache s e size) = true.
Proof.
  intros. unfold chunks_okb. apply tilesb_iff. now apply get_chunks_tiles.
Qed.

(* non-vacuity *)
Example chunks_nonvacuous :
  sorted_cache [(2, KHeader); (3, KHeader); (5, KBlock)] /\
  get_chunks [(2, KHeader); (3, KHeader); (5, KBlock)] 0 9 3 =
  [CNone 0 2; CHeaders 2 4 [2; 3]; CNone 4 5; CBlocks 5 6 [5]; CNone 6 9; CNone 9 10].
Proof.
  split; [|vm_compute; reflexivity].
  exists 9. repeat (constructor; try lia).
Qed.
