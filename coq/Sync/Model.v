(* Executable model of fuel-core-sync:
     crates/services/sync/src/state.rs          (C28)
     crates/services/sync/src/import/cache.rs   (C27)
   u32 arithmetic is explicit (saturating_add / checked_add / checked_sub). *)
From FC Require Export Common.T.
Open Scope N_scope.

(* ------------------------------------------------------------------ *)
(* C28: State                                                          *)

Inductive status := Uninit | Processing (s e : N) | Committed (c : N).

Definition status_eqb (a b : status) : bool :=
  match a, b with
  | Uninit, Uninit => true
  | Processing s e, Processing s' e' => (s =? s') && (e =? e')
  | Committed c, Committed c' => c =? c'
  | _, _ => false
  end.

(* RangeInclusive s..=e is empty iff e < s *)
Definition rempty (s e : N) : bool := e <? s.
Definition rcontains (s e x : N) : bool := (s <=? x) && (x <=? e).

Definition st_new (c o : option N) : status :=
  match c, o with
  | Some c, Some o =>
      match checked_add u32max c 1 with
      | None => Committed c
      | Some next => if rempty next o then Committed c else Processing next o
      end
  | Some c, None => Committed c
  | None, Some o => Processing 0 o
  | None, None => Uninit
  end.

Definition process_range (st : status) : option (N * N) :=
  match st with Processing s e => Some (s, e) | _ => None end.

Definition apply_status (st : status) (n : option status) : status :=
  match n with Some s => s | None => st end.

Definition commit (st : status) (h : N) : status :=
  apply_status st
    match st with
    | Processing s e =>
        if h <? s then None
        else if h <? e then Some (Processing (sat_add u32max h 1) e)
        else Some (Committed h)
    | Uninit => Some (Committed h)
    | Committed c => if h <=? c then None else Some (Committed h)
    end.

Definition observe (st : status) (h : N) : status * bool :=
  let n :=
    match st with
    | Uninit => Some (Processing 0 h)
    | Processing s e => if e <? h then Some (Processing s h) else None
    | Committed c =>
        match checked_add u32max c 1 with
        | None => None
        | Some next => if rempty next h then None else Some (Processing next h)
        end
    end in
  (apply_status st n, match n with Some _ => true | None => false end).

Definition revert_before (s : N) : status :=
  match checked_sub s 1 with None => Uninit | Some p => Committed p end.

Definition failed (st : status) (fs fe : N) : status :=
  apply_status st
    (if rempty fs fe then None
     else match st with
          | Uninit | Committed _ => None
          | Processing s e =>
              if rcontains fs fe s then Some (revert_before s)
              else if rcontains fs fe e || rcontains s e fs then
                     Some match checked_sub fs 1 with
                          | None => Uninit
                          | Some p => Processing s p
                          end
              else if rcontains s e fe then Some (revert_before s)
              else None
          end).

Inductive event := EObserve (h : N) | ECommit (h : N) | EFailed (s e : N).

Definition step (st : status) (ev : event) : status :=
  match ev with
  | EObserve h => fst (observe st h)
  | ECommit h => commit st h
  | EFailed s e => failed st s e
  end.

(* Ghost history: highest committed, highest observed, "no failure since the
   highest observation was (re)established". *)
Record ghost := { maxC : option N; maxO : option N; clean : bool }.

Definition omax (a : option N) (h : N) : option N :=
  match a with None => Some h | Some x => Some (N.max x h) end.
Definition ole (a : option N) (h : N) : bool :=     (* a <= Some h, None least *)
  match a with None => true | Some x => x <=? h end.

Definition ghost_new (c o : option N) : ghost := {| maxC := c; maxO := o; clean := true |}.
Definition ghost_step (g : ghost) (ev : event) : ghost :=
  match ev with
  | EObserve h => {| maxC := maxC g; maxO := omax (maxO g) h;
                     clean := clean g || ole (maxO g) h |}
  | ECommit h => {| maxC := omax (maxC g) h; maxO := maxO g; clean := clean g |}
  | EFailed s e => {| maxC := maxC g; maxO := maxO g;
                      clean := clean g && rempty s e |}
  end.

Definition implied_committed (st : status) : option N :=
  match st with
  | Uninit => None
  | Committed c => Some c
  | Processing s _ => checked_sub s 1
  end.

Definition oeqb (a b : option N) : bool :=
  match a, b with
  | None, None => true
  | Some x, Some y => x =? y
  | _, _ => false
  end.

(* The decidable shape predicate (Pcheck of C28). *)
Definition shape_ok (g : ghost) (st : status) : bool :=
  oeqb (implied_committed st) (maxC g) &&
  match st with
  | Uninit => negb (clean g) || oeqb (maxO g) None
  | Committed c => negb (clean g) || ole (maxO g) c
  | Processing s e =>
      (s <=? e) && (e <=? u32max) &&
      match maxO g with
      | None => false
      | Some o => (e <=? o) && (negb (clean g) || (e =? o))
      end
  end.

Fixpoint run_events (st : status) (g : ghost) (evs : list event)
  : list (status * ghost) :=
  match evs with
  | [] => []
  | ev :: r => let st' := step st ev in let g' := ghost_step g ev in
               (st', g') :: run_events st' g' r
  end.

(* ------------------------------------------------------------------ *)
(* C27: Cache::get_chunks                                               *)

Inductive kind := KHeader | KBlock.
Definition kind_eqb (a b : kind) : bool :=
  match a, b with KHeader, KHeader | KBlock, KBlock => true | _, _ => false end.

(* Range<u32> a..b (exclusive end); payloads are identified by their height *)
Inductive chunk :=
| CNone (a b : N)
| CHeaders (a b : N) (hs : list N)
| CBlocks (a b : N) (hs : list N).

Definition chunk_start (c : chunk) : N :=
  match c with CNone a _ | CHeaders a _ _ | CBlocks a _ _ => a end.
Definition chunk_end (c : chunk) : N :=
  match c with CNone _ b | CHeaders _ b _ | CBlocks _ b _ => b end.
Definition chunk_empty (c : chunk) : bool := chunk_end c <=? chunk_start c.

Definition item := (N * kind)%type.

(* (current..height).step_by(size) mapped to
   None(chunk_start .. min(min(chunk_start+size, height), end)). *)
Fixpoint missing_aux (n : nat) (start size height bound : N) : list chunk :=
  match n with
  | O => []
  | S n' => CNone start (N.min (N.min (sat_add u32max start size) height) bound)
            :: missing_aux n' (start + size) size height bound
  end.
Definition nchunks (current height size : N) : nat :=
  N.to_nat ((height - current + size - 1) / size).
Definition push_missing (current height size bound : N) : list chunk :=
  missing_aux (nchunks current height size) current size height bound.

Definition new_chunk (k : kind) (h : N) : chunk :=
  match k with
  | KHeader => CHeaders h (sat_add u32max h 1) [h]
  | KBlock => CBlocks h (sat_add u32max h 1) [h]
  end.

Definition handle_current (cur : chunk) (k : kind) (h size : N) : list chunk * chunk :=
  match cur, k with
  | CNone _ _, _ => ([], new_chunk k h)
  | CHeaders a b hs, KHeader =>
      if (b - a =? size) then ([cur], new_chunk KHeader h)
      else ([], CHeaders a (sat_add u32max b 1) (hs ++ [h]))
  | CBlocks a b hs, KBlock =>
      if (b - a =? size) then ([cur], new_chunk KBlock h)
      else ([], CBlocks a (sat_add u32max b 1) (hs ++ [h]))
  | CHeaders _ _ _, KBlock => ([cur], new_chunk KBlock h)
  | CBlocks _ _ _, KHeader => ([cur], new_chunk KHeader h)
  end.

Definition flush (chunks : list chunk) (cur : chunk) : list chunk :=
  if chunk_empty cur then chunks else chunks ++ [cur].

Definition loop_state := (N * list chunk * chunk)%type.

Definition chunk_step (size endx : N) (st : loop_state) (it : item) : loop_state :=
  let '(cur_h, chunks, cur) := st in
  let '(h, k) := it in
  let '(chunks1, cur1) :=
    if negb (h =? cur_h)
    then (flush chunks cur ++ push_missing cur_h h size endx, CNone 0 0)
    else (chunks, cur) in
  let '(pushed, cur2) := handle_current cur1 k h size in
  (sat_add u32max h 1, chunks1 ++ pushed, cur2).

Definition collect (cache : list item) (s e : N) : list item :=
  filter (fun it => (s <=? fst it) && (fst it <=? e)) cache.

Definition get_chunks_items (items : list item) (s e size : N) : list chunk :=
  let endx := sat_add u32max e 1 in
  let '(cur_h, chunks, cur) := fold_left (chunk_step size endx) items (s, [], CNone 0 0) in
  flush chunks cur ++ push_missing cur_h endx size endx.

Definition get_chunks (cache : list item) (s e size : N) : list chunk :=
  get_chunks_items (collect cache s e) s e size.

(* ---- the decidable partition checker (Pcheck of C27) ---- *)

Fixpoint lookup (cache : list item) (h : N) : option kind :=
  match cache with
  | [] => None
  | (h', k) :: r => if h' =? h then Some k else lookup r h
  end.

Fixpoint nseq (n : nat) (a : N) : list N :=
  match n with O => [] | S n' => a :: nseq n' (a + 1) end.
Definition heights (a b : N) : list N := nseq (N.to_nat (b - a)) a.

Fixpoint listN_eqb (x y : list N) : bool :=
  match x, y with
  | [], [] => true
  | a :: x', b :: y' => (a =? b) && listN_eqb x' y'
  | _, _ => false
  end.

Definition okind_eqb (a b : option kind) : bool :=
  match a, b with
  | None, None => true
  | Some x, Some y => kind_eqb x y
  | _, _ => false
  end.

Definition content_okb (cache : list item) (c : chunk) : bool :=
  match c with
  | CNone a b => forallb (fun h => okind_eqb (lookup cache h) None) (heights a b)
  | CHeaders a b hs =>
      listN_eqb hs (heights a b) &&
      forallb (fun h => okind_eqb (lookup cache h) (Some KHeader)) (heights a b)
  | CBlocks a b hs =>
      listN_eqb hs (heights a b) &&
      forallb (fun h => okind_eqb (lookup cache h) (Some KBlock)) (heights a b)
  end.

(* tilesb cache size a b cs : the chunks cs tile [a, b) consecutively, each non-empty,
   at most [size] long, with exact content *)
Fixpoint tilesb (cache : list item) (size a b : N) (cs : list chunk) : bool :=
  match cs with
  | [] => a =? b
  | c :: r =>
      (chunk_start c =? a) && (a <? chunk_end c) && (chunk_end c - a <=? size) &&
      (chunk_end c <=? b) && content_okb cache c && tilesb cache size (chunk_end c) b r
  end.

Definition chunks_okb (cache : list item) (s e size : N) (cs : list chunk) : bool :=
  tilesb cache size s (e + 1) cs.

(* ------------------------------------------------------------------ *)
(* T codecs and the entry point used by the correspondence check       *)

Definition status_T (s : status) : T :=
  match s with
  | Uninit => L [I 0]
  | Processing s e => L [I 1; tN s; tN e]
  | Committed c => L [I 2; tN c]
  end.
Definition T_status (t : T) : option status :=
  match t with
  | L [I 0%Z] => Some Uninit
  | L [I 1%Z; s; e] => match getN s, getN e with
                      | Some s, Some e => Some (Processing s e) | _, _ => None end
  | L [I 2%Z; c] => option_map Committed (getN c)
  | _ => None
  end.
Definition T_event (t : T) : option event :=
  match t with
  | L [I 0%Z; h] => option_map EObserve (getN h)
  | L [I 1%Z; h] => option_map ECommit (getN h)
  | L [I 2%Z; s; e] => match getN s, getN e with
                      | Some s, Some e => Some (EFailed s e) | _, _ => None end
  | _ => None
  end.

(* observation of one event: status after, process_range after, bool of observe *)
Definition obs_T (st_before : status) (ev : event) : T :=
  let st' := step st_before ev in
  L [status_T st';
     match process_range st' with None => L [] | Some (s, e) => L [tN s; tN e] end;
     match ev with EObserve h => tB (snd (observe st_before h)) | _ => I (-1) end].

Fixpoint run28 (st : status) (evs : list event) : list T :=
  match evs with
  | [] => []
  | ev :: r => obs_T st ev :: run28 (step st ev) r
  end.

Fixpoint pcheck28 (g : ghost) (evs : list event) (obs : list T) : bool :=
  match evs, obs with
  | [], [] => true
  | ev :: r, L (st :: _) :: obs' =>
      let g' := ghost_step g ev in
      match T_status st with
      | Some st => shape_ok g' st && pcheck28 g' r obs'
      | None => false
      end
  | _, _ => false
  end.

Definition main28 (input observed : T) : T :=
  match input with
  | L [c; o; L evs] =>
      match getOptN c, getOptN o, mapM T_event evs with
      | Some c, Some o, Some evs =>
          let st0 := st_new c o in
          let model := L (status_T st0 :: run28 st0 evs) in
          let pc := match observed with
                    | L (s0 :: obs) =>
                        match T_status s0 with
                        | Some s0 => shape_ok (ghost_new c o) s0 &&
                                     pcheck28 (ghost_new c o) evs obs
                        | None => false
                        end
                    | _ => false
                    end in
          L [model; tB pc]
      | _, _, _ => tErr 2
      end
  | _ => tErr 1
  end.

Definition kind_T (k : kind) : T := match k with KHeader => I 1 | KBlock => I 2 end.
Definition T_kind (t : T) : option kind :=
  match t with I 1%Z => Some KHeader | I 2%Z => Some KBlock | _ => None end.
Definition chunk_T (c : chunk) : T :=
  match c with
  | CNone a b => L [I 0; tN a; tN b; L []]
  | CHeaders a b hs => L [I 1; tN a; tN b; tListN hs]
  | CBlocks a b hs => L [I 2; tN a; tN b; tListN hs]
  end.
Definition T_chunk (t : T) : option chunk :=
  match t with
  | L [I k; a; b; hs] =>
      match getN a, getN b, getListN hs with
      | Some a, Some b, Some hs =>
          match k with
          | 0%Z => Some (CNone a b)
          | 1%Z => Some (CHeaders a b hs)
          | 2%Z => Some (CBlocks a b hs)
          | _ => None
          end
      | _, _, _ => None
      end
  | _ => None
  end.
Definition T_item (t : T) : option item :=
  match t with
  | L [h; k] => match getN h, T_kind k with
                | Some h, Some k => Some (h, k) | _, _ => None end
  | _ => None
  end.

Definition main27 (input observed : T) : T :=
  match input with
  | L [s; e; size; L cache] =>
      match getN s, getN e, getN size, mapM T_item cache with
      | Some s, Some e, Some size, Some cache =>
          let model := L (map chunk_T (get_chunks cache s e size)) in
          let pc := match observed with
                    | L obs => match mapM T_chunk obs with
                               | Some cs => chunks_okb cache s e size cs
                               | None => false
                               end
                    | _ => false
                    end in
          L [model; tB pc]
      | _, _, _, _ => tErr 2
      end
  | _ => tErr 1
  end.

Definition main_T_base (req : T) : T :=
  match req with
  | L [I 27%Z; input; observed] => main27 input observed
  | L [I 28%Z; input; observed] => main28 input observed
  | _ => tErr 0
  end.
