From FC Require Import Sync.Model.
Require Extraction.
Require Import ExtrOcamlBasic.
Extraction "sync_model.ml" main_T.
