From FC Require Import Sync.Model Sync.Import.
Require Extraction.
Require Import ExtrOcamlBasic.
Extraction "sync_model.ml" main_T.
