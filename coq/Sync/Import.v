(* Executable model of the import pipeline (C26):
     crates/services/sync/src/import.rs  import_inner, launch_stream, fetch_batches_task,
       get_block_stream, get_headers_batch, check_sealed_header, get_blocks, get_transactions,
       execute_and_commit, scan_err
   composed with the models of Cache::get_chunks (C27) and State (C28).
   Peers, consensus and executor are response scripts.  The asynchronous pipeline is modelled
   by its outcome under the schedule the harness forces (fetch side runs until it blocks:
   two batches ahead of the batch being executed, channel capacity 1, buffer 1). *)
From FC Require Export Sync.Model.
Open Scope N_scope.

(* a sealed header as the mocks see it: height inside the header, content variant (which
   transaction list its root commits to), flags carried in the DA height:
   bit 0: consensus says invalid; bit 1: consensus check errors; bit 2: execution fails *)
Record hdr := { hh : N; hv : N; hf : N }.
Definition consensus_ok (h : hdr) : bool := negb (N.testbit (hf h) 0) && negb (N.testbit (hf h) 1).
Definition exec_ok (h : hdr) : bool := negb (N.testbit (hf h) 2).

(* cache: ascending association list height -> (kind, header) *)
Definition cache := list (N * (kind * hdr)).
Fixpoint cache_insert (c : cache) (h : N) (v : kind * hdr) : cache :=
  match c with
  | [] => [(h, v)]
  | (h', v') :: r => if h <? h' then (h, v) :: c
                     else if h =? h' then (h, v) :: r
                     else (h', v') :: cache_insert r h v
  end.
Fixpoint cache_remove (c : cache) (h : N) : cache :=
  match c with
  | [] => []
  | (h', v') :: r => if h' =? h then r else (h', v') :: cache_remove r h
  end.
Fixpoint cache_get (c : cache) (h : N) : option (kind * hdr) :=
  match c with
  | [] => None
  | (h', v') :: r => if h' =? h then Some v' else cache_get r h
  end.
Definition cache_items (c : cache) : list item := map (fun e => (fst e, fst (snd e))) c.

(* PeerReportReason *)
Definition R_SUCCESS := 0.  Definition R_MISSING_HEADERS := 1.  Definition R_BAD_HEADER := 2.
Definition R_MISSING_TXS := 3.  Definition R_INVALID_TXS := 4.

Inductive fev :=                       (* fetch-side events, in order *)
| FReqH (a b : N)                      (* get_sealed_block_headers(a..b) *)
| FRep (peer reason : N)               (* report_peer *)
| FAwait (da : N)                      (* await_da_height *)
| FReqT (a b : N) (peer : option N).   (* get_transactions[_from_peer](a..b) *)

Inductive xev :=                       (* execution-side events, in order *)
| XExec (h v f w : N) (ok : bool)      (* execute_and_commit of (height, variant, flags), txs variant w *)
| XRep (peer : N).                     (* report_peer(SuccessfulBlockImport) *)

(* scripted answers, keyed by the start of the requested range; mode 0 = Ok(Some items),
   1 = Err, 2 = Ok(None) *)
Record script := {
  hb : list (N * (N * N * list hdr));
  tb : list (N * (N * N * list N))
}.
Fixpoint alook {A} (l : list (N * A)) (k : N) : option A :=
  match l with
  | [] => None
  | (k', v) :: r => if k' =? k then Some v else alook r k
  end.

(* zip with the expected heights a, a+1, .. < b and keep the matching prefix *)
Fixpoint take_match (items : list hdr) (a b : N) : list hdr :=
  match items with
  | [] => []
  | x :: r => if (a <? b) && (hh x =? a) then x :: take_match r (a + 1) b else []
  end.

Definition get_headers_batch (sc : script) (a b : N) : option N * list hdr * list fev :=
  match alook (hb sc) a with
  | Some (p, 0, items) =>
      let hs := take_match items a b in
      (Some p, hs, FReqH a b :: if N.of_nat (length hs) =? b - a then [] else [FRep p R_MISSING_HEADERS])
  | Some (p, 2, _) =>
      (Some p, [], FReqH a b :: if 0 =? b - a then [] else [FRep p R_MISSING_HEADERS])
  | _ => (None, [], [FReqH a b])
  end.

Fixpoint take_valid (hs : list hdr) : list hdr * bool :=      (* (checked prefix, hit an invalid one) *)
  match hs with
  | [] => ([], false)
  | x :: r => if consensus_ok x then let '(l, bad) := take_valid r in (x :: l, bad) else ([], true)
  end.

Definition report (peer : option N) (reason : N) : list fev :=
  match peer with Some p => [FRep p reason] | None => [] end.

(* a batch handed to the execution side *)
Record batch := { bpeer : option N; ba : N; bb : N; bblocks : list hdr }.
Definition batch_is_err (bt : batch) : bool := N.of_nat (length (bblocks bt)) <? bb bt - ba bt.

Fixpoint zip_blocks (hs : list hdr) (ws : list N) : list hdr * bool :=   (* (blocks, hit a mismatch) *)
  match hs, ws with
  | h :: hs', w :: ws' => if hv h =? w then let '(l, bad) := zip_blocks hs' ws' in (h :: l, bad) else ([], true)
  | _, _ => ([], false)
  end.

Definition last_hdr (hs : list hdr) : option hdr := List.last (map Some hs) None.

(* consensus/transactions stage for a batch of checked (or cached) headers *)
Definition blocks_stage (sc : script) (peer : option N) (a b : N) (hs : list hdr) : batch * list fev :=
  match last_hdr hs with
  | None => ({| bpeer := peer; ba := a; bb := b; bblocks := [] |}, [])
  | Some lst =>
      let ev0 := [FAwait (hf lst); FReqT a b peer] in
      let src :=
        match peer with
        | Some p =>
            match alook (tb sc) a with
            | Some (_, 0, items) => (Some (p, items), [])
            | _ => (None, [FRep p R_MISSING_TXS])
            end
        | None =>
            match alook (tb sc) a with
            | Some (p, 0, items) => (Some (p, items), [])
            | Some (p, 2, _) => (None, [FRep p R_MISSING_TXS])
            | _ => (None, [])
            end
        end in
      match src with
      | (None, evs) => ({| bpeer := peer; ba := a; bb := b; bblocks := [] |}, ev0 ++ evs)
      | (Some (p, items), evs) =>
          let '(blocks, bad) := zip_blocks hs items in
          let short := if (length items <? length hs)%nat then [FRep p R_MISSING_TXS] else [] in
          ({| bpeer := Some p; ba := a; bb := b; bblocks := blocks |},
           ev0 ++ evs ++ short ++ if bad then [FRep p R_INVALID_TXS] else [])
      end
  end.

Definition payloads (c : cache) (hs : list N) : list hdr :=
  flat_map (fun h => match cache_get c h with Some (_, d) => [d] | None => [] end) hs.

Definition inserts := list (N * (kind * hdr)).
Definition ins_of (k : kind) (hs : list hdr) : inserts := map (fun d => (hh d, (k, d))) hs.

(* one chunk through the fetch side: the batch, what it inserts into the cache, its events *)
Definition fetch_chunk (sc : script) (c0 : cache) (ch : chunk) : batch * inserts * list fev :=
  match ch with
  | CBlocks a b hs => ({| bpeer := None; ba := a; bb := b; bblocks := payloads c0 hs |}, [], [])
  | CHeaders a b hs =>
      let '(bt, evs) := blocks_stage sc None a b (payloads c0 hs) in
      (bt, if batch_is_err bt then [] else ins_of KBlock (bblocks bt), evs)
  | CNone a b =>
      let '(peer, hs, ev1) := get_headers_batch sc a b in
      let '(checked, bad) := take_valid hs in
      let ev2 := if bad then report peer R_BAD_HEADER else [] in
      let ins1 := if N.of_nat (length checked) <? b - a then [] else ins_of KHeader checked in
      let '(bt, ev3) := blocks_stage sc peer a b checked in
      (bt, ins1 ++ (if batch_is_err bt then [] else ins_of KBlock (bblocks bt)), ev1 ++ ev2 ++ ev3)
  end.

(* scan_err on the fetch side: batches up to and including the first erroneous one *)
Fixpoint fetch_all (sc : script) (c0 : cache) (chs : list chunk) : list (batch * inserts * list fev) :=
  match chs with
  | [] => []
  | ch :: r => let x := fetch_chunk sc c0 ch in
               if batch_is_err (fst (fst x)) then [x] else x :: fetch_all sc c0 r
  end.

(* execution of the blocks of one batch: (status, events, heights touched, successes, stopped) *)
Fixpoint exec_blocks (st : status) (bs : list hdr) : status * list xev * list N * N * bool :=
  match bs with
  | [] => (st, [], [], 0, false)
  | d :: r =>
      if exec_ok d then
        let '(st', evs, hs, n, stop) := exec_blocks (commit st (hh d)) r in
        (st', XExec (hh d) (hv d) (hf d) (hv d) true :: evs, hh d :: hs, n + 1, stop)
      else (st, [XExec (hh d) (hv d) (hf d) (hv d) false], [hh d], 0, true)
  end.

(* the execution side over the received batches; returns also the index of the last batch
   it touched (for the look-ahead of the fetch side) *)
Fixpoint exec_batches (st : status) (bts : list batch) (idx : N)
  : status * list xev * list N * N * N :=
  match bts with
  | [] => (st, [], [], 0, idx)
  | bt :: r =>
      let '(st1, evs, hs, n, stop) := exec_blocks st (bblocks bt) in
      let complete := negb (n <? bb bt - ba bt) in
      let rep := if complete then match bpeer bt with Some p => [XRep p] | None => [] end else [] in
      if complete then
        let '(st2, evs2, hs2, n2, last) := exec_batches st1 r (idx + 1) in
        (st2, evs ++ rep ++ evs2, hs ++ hs2, n + n2, last)
      else (st1, evs ++ rep, hs, n, idx)
  end.

Record round_obs := {
  o_range : option (N * N);
  o_ok : bool;
  o_fetch : list fev;
  o_exec : list xev;
  o_cache : cache;
  o_status : status
}.

Definition import_round (size : N) (sc : script) (st : status) (c0 : cache) : round_obs :=
  match process_range st with
  | None => {| o_range := None; o_ok := true; o_fetch := []; o_exec := []; o_cache := c0; o_status := st |}
  | Some (s, e) =>
      let chunks := get_chunks (cache_items c0) s e size in
      let fetched := fetch_all sc c0 chunks in
      let '(st1, xevs, touched, count, last) := exec_batches st (map (fun x => fst (fst x)) fetched) 0 in
      (* the fetch side ran at most two batches ahead of the last batch the execution side touched *)
      let done := firstn (N.to_nat (last + 3)) fetched in
      let c1 := fold_left (fun c ins => fold_left (fun c' e' => cache_insert c' (fst e') (snd e')) ins c)
                          (map (fun x => snd (fst x)) done) c0 in
      let c2 := fold_left cache_remove touched c1 in
      let range_len := e - s + 1 in
      let ok := negb (count <? range_len) in
      let st2 := if ok then st1 else failed st1 (sat_add u32max s count) e in
      {| o_range := Some (s, e); o_ok := ok; o_fetch := flat_map (fun x => snd x) done;
         o_exec := xevs; o_cache := c2; o_status := st2 |}
  end.

(* a history: rounds, each preceded by state events (observed / committed heights from the
   network and the importer) *)
Fixpoint run_rounds (size : N) (st : status) (c : cache) (rounds : list (list event * script))
  : list round_obs :=
  match rounds with
  | [] => []
  | (pre, sc) :: r =>
      let st0 := fold_left step pre st in
      let o := import_round size sc st0 c in
      o :: run_rounds size (o_status o) (o_cache o) r
  end.

(* ---------------- Pcheck: on the implementation's execution log ----------------
   executed heights are consecutive from the start of the processing range, every executed
   block passed the consensus check and carries the transactions its header commits to,
   and a success report follows only completely executed batches (it is never the first event
   of a round and never follows a failed execution). *)
Fixpoint exec_log_okb (next : N) (prev_ok : bool) (evs : list xev) : bool :=
  match evs with
  | [] => true
  | XExec h v f w ok :: r =>
      prev_ok && (h =? next) && consensus_ok {| hh := h; hv := v; hf := f |} && (v =? w) &&
      exec_log_okb (next + 1) ok r
  | XRep _ :: r => prev_ok && exec_log_okb next prev_ok r
  end.

Definition round_okb (o : round_obs) : bool :=
  match o_range o with
  | None => match o_exec o with [] => true | _ => false end
  | Some (s, _) => exec_log_okb s true (o_exec o)
  end.

(* ------------------------------------------------------------------ *)
(* T codecs and entry point                                            *)

Definition hdr_T (d : hdr) : T := L [tN (hh d); tN (hv d); tN (hf d)].
Definition T_hdr (t : T) : option hdr :=
  match t with
  | L [a; b; c] => match getN a, getN b, getN c with
                   | Some a, Some b, Some c => Some {| hh := a; hv := b; hf := c |} | _, _, _ => None end
  | _ => None
  end.
Definition fev_T (e : fev) : T :=
  match e with
  | FReqH a b => L [I 0; tN a; tN b]
  | FRep p r => L [I 1; tN p; tN r]
  | FAwait da => L [I 2; tN da]
  | FReqT a b p => L [I 3; tN a; tN b; tOptN p]
  end.
Definition xev_T (e : xev) : T :=
  match e with
  | XExec h v f w ok => L [I 0; tN h; tN v; tN f; tN w; tB ok]
  | XRep p => L [I 1; tN p]
  end.
Definition T_xev (t : T) : option xev :=
  match t with
  | L [I 0%Z; h; v; f; w; ok] =>
      match getN h, getN v, getN f, getN w, getB ok with
      | Some h, Some v, Some f, Some w, Some ok => Some (XExec h v f w ok)
      | _, _, _, _, _ => None
      end
  | L [I 1%Z; p] => option_map XRep (getN p)
  | _ => None
  end.
Definition cache_T (c : cache) : T :=
  L (map (fun e => L [tN (fst e); kind_T (fst (snd e)); hdr_T (snd (snd e))]) c).
Definition round_T (o : round_obs) : T :=
  L [match o_range o with None => L [] | Some (s, e) => L [tN s; tN e] end;
     tB (o_ok o); L (map fev_T (o_fetch o)); L (map xev_T (o_exec o)); cache_T (o_cache o);
     status_T (o_status o)].

Definition T_hresp (t : T) : option (N * (N * N * list hdr)) :=
  match t with
  | L [k; p; m; L items] =>
      match getN k, getN p, getN m, mapM T_hdr items with
      | Some k, Some p, Some m, Some items => Some (k, (p, m, items))
      | _, _, _, _ => None
      end
  | _ => None
  end.
Definition T_tresp (t : T) : option (N * (N * N * list N)) :=
  match t with
  | L [k; p; m; items] =>
      match getN k, getN p, getN m, getListN items with
      | Some k, Some p, Some m, Some items => Some (k, (p, m, items))
      | _, _, _, _ => None
      end
  | _ => None
  end.
Definition T_round (t : T) : option (list event * script) :=
  match t with
  | L [L pre; L hbs; L tbs] =>
      match mapM T_event pre, mapM T_hresp hbs, mapM T_tresp tbs with
      | Some pre, Some hbs, Some tbs => Some (pre, {| hb := hbs; tb := tbs |})
      | _, _, _ => None
      end
  | _ => None
  end.

(* the execution log of one observed round, for Pcheck *)
Definition T_obs_round (t : T) : option (option (N * N) * list xev) :=
  match t with
  | L [rng; _; _; L xs; _; _] =>
      match mapM T_xev xs with
      | Some xs =>
          match rng with
          | L [] => Some (None, xs)
          | L [s; e] => match getN s, getN e with Some s, Some e => Some (Some (s, e), xs) | _, _ => None end
          | _ => None
          end
      | None => None
      end
  | _ => None
  end.

(* input: (committed observed size (round ...)) *)
Definition main26 (input observed : T) : T :=
  match input with
  | L [c; o; size; L rounds] =>
      match getOptN c, getOptN o, getN size, mapM T_round rounds with
      | Some c, Some o, Some size, Some rounds =>
          let model := L (map round_T (run_rounds size (st_new c o) [] rounds)) in
          let pc := match observed with
                    | L os =>
                        match mapM T_obs_round os with
                        | Some os => forallb (fun ro => round_okb {| o_range := fst ro; o_ok := true; o_fetch := [];
                                                                    o_exec := snd ro; o_cache := []; o_status := Uninit |}) os
                        | None => false
                        end
                    | _ => false
                    end in
          L [model; tB pc]
      | _, _, _, _ => tErr 2
      end
  | _ => tErr 1
  end.

Definition main_T (req : T) : T :=
  match req with
  | L [I 26%Z; input; observed] => main26 input observed
  | _ => main_T_base req
  end.
