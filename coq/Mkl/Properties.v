(* Property theorems of the Mkl cluster (C13 dense, C14 sparse). Statements, [exact],
   Print Assumptions only. The hash is universally quantified. *)
From FC Require Import Mkl.Model Mkl.Proofs13 Mkl.Proofs14.
Open Scope N_scope.

(* C13. For every history of single and batched inserts/replaces/takes/removes in which no
   plain insert targets an already stored key (the complementary class is the recorded
   finding, see dense_dup_insert_refuted), the model's observations pass the specification
   checker: after every operation Latest is (count, binary root) of all leaves pushed so far,
   every replace/take/remove of a stored key fails, and Primary(k) is the root over the
   insertion-order prefix ending at k. *)
Theorem dense_exact : forall (H : bytes -> bytes) ops lgf,
  spec_log [] ops = Some lgf ->
  let '(obs, fin) := drun H dinit ops in dense_okb H ops obs (prim fin) = 1.
Proof. exact dense_exact_all. Qed.
Print Assumptions dense_exact.

Theorem dense_protected : forall (H : bytes -> bytes) st lg k v,
  DInv H st lg -> stored lg k = true ->
  (let '(st', r) := m_replace H st k v in
   r = RErr /\ prim st' = prim st /\ latest st' = latest st /\ leaves st' = leaves st) /\
  m_take st k = (st, RErr) /\ m_delete st k = (st, RErr).
Proof. exact dense_protected_all. Qed.
Print Assumptions dense_protected.

Theorem dense_reachable_inv : forall (H : bytes -> bytes) ops lgf,
  spec_log [] ops = Some lgf -> DInv H (snd (drun H dinit ops)) lgf.
Proof. intros H ops lgf. exact (reachable_inv H ops dinit [] lgf (DInv_init H)). Qed.
Print Assumptions dense_reachable_inv.

Theorem dense_prim_checker_sound : forall (H : bytes -> bytes) lg rows,
  prim_okb H lg rows = true <-> forall k, alookup rows k = expected_prim H lg k.
Proof. exact prim_okb_spec. Qed.
Print Assumptions dense_prim_checker_sound.

Theorem dense_insert_on_stored_key_refuted :
  exists ops, spec_log [] ops = None /\
    let '(obs, fin) := drun (fun x => x) dinit ops in
    map fst obs = [ROk; ROk] /\ alookup (prim fin) 0 = Some (2, binary_root (fun x => x) [[7]; [9]]).
Proof. exact dense_dup_insert_refuted. Qed.
Print Assumptions dense_insert_on_stored_key_refuted.

(* C14. For every history of single and batched operations over any primary keys, the
   recorded root of every watched primary key after every operation is the from-scratch
   sparse root of that key's current rows, and results are the plain-table results. *)
Theorem sparse_exact : forall (H : bytes -> bytes) pks ops,
  sparse_okb H pks [] ops (srun_obs H pks [] ops) = true.
Proof. intros H pks ops. exact (sparse_exact_all H pks ops [] [] (SInv_init H)). Qed.
Print Assumptions sparse_exact.

Theorem sparse_frame : forall (H : bytes -> bytes) st op pk,
  pk <> op_pk op ->
  sget (fst (sstep H st op)) pk = sget st pk /\ s_root (fst (sstep H st op)) pk = s_root st pk.
Proof. exact sparse_frame_all. Qed.
Print Assumptions sparse_frame.

Theorem sparse_okb_sound : forall (H : bytes -> bytes) pks ops sp obs,
  sparse_okb H pks sp ops obs = true <-> SparseSpec H pks sp ops obs.
Proof. exact sparse_okb_sound_all. Qed.
Print Assumptions sparse_okb_sound.
