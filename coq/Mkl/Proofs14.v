(* Proofs for C14: the recorded sparse root of every primary key is the from-scratch
   sparse root of that key's current rows; other primary keys are untouched. *)
From FC Require Import Mkl.Model Mkl.Proofs13.
From Coq Require Import ZifyBool ZifyN ZifyNat.
Open Scope N_scope.

Lemma alookup_aset_same {A} (l : list (N * A)) k v : alookup (aset l k v) k = Some v.
Proof. rewrite alookup_aset. now rewrite N.eqb_refl. Qed.

Lemma alookup_aset_other {A} (l : list (N * A)) k v k' : k <> k' -> alookup (aset l k v) k' = alookup l k'.
Proof. intro Hne. rewrite alookup_aset. destruct (k =? k') eqn:E; [lia|reflexivity]. Qed.

Lemma sres_eqb_eq a b : sres_eqb a b = true <-> a = b.
Proof.
  destruct a, b; cbn; split; intro Hh; try discriminate; try reflexivity.
  - apply bytes_eqb_eq in Hh. now subst.
  - injection Hh as ->. apply bytes_eqb_refl.
Qed.

Lemma roots_eqb_eq a : forall b, roots_eqb a b = true <-> a = b.
Proof.
  induction a as [|x a IH]; intros [|y b]; cbn; split; intro Hh; try discriminate; try reflexivity.
  - apply andb_true_iff in Hh. destruct Hh as [H1 H2]. apply bytes_eqb_eq in H1. apply IH in H2. now subst.
  - injection Hh as -> ->. rewrite bytes_eqb_refl. cbn. now apply IH.
Qed.

Section SparseProofs.
  Variable H : bytes -> bytes.

  Lemma bset_nonempty l k v : bset l k v <> [].
  Proof. destruct l as [|[k0 v0] r]; cbn; [discriminate|]. destruct (bytes_eqb k0 k); discriminate. Qed.

  Lemma fold_bset_nonempty kvs : forall l,
    kvs <> [] -> fold_left (fun acc kv => bset acc (fst kv) (snd kv)) kvs l <> [].
  Proof.
    induction kvs as [|kv r IH]; intros l Hne; [congruence|]. cbn [fold_left].
    destruct r as [|kv' r']; [cbn; apply bset_nonempty|]. apply IH. discriminate.
  Qed.

  (* per-table coupling: the tree holds exactly the table rows, and the metadata row is
     present iff there are rows, holding the root of the tree *)
  Definition TabInv (t : ptab) (rw : list (bytes * bytes)) : Prop :=
    rows t = rw /\ tree t = rw /\
    mroot t = match rw with [] => None | _ => Some (tree_root H rw) end.

  Lemma TabInv_loaded t rw : TabInv t rw -> loaded t = rw.
  Proof.
    intros (Hr & Ht & Hm). unfold loaded. rewrite Hm, Ht. destruct rw; reflexivity.
  Qed.

  Lemma TabInv_empty : TabInv pempty [].
  Proof. repeat split. Qed.

  Lemma settle_inv rw : TabInv (settle H rw rw) rw.
  Proof. unfold settle. destruct rw; repeat split. Qed.

  Lemma TabInv_root t rw : TabInv t rw ->
    match mroot t with Some r => r | None => zero32 end = root_of_rows H rw.
  Proof. intros (_ & _ & Hm). rewrite Hm. unfold root_of_rows, tree_root. destruct rw; reflexivity. Qed.

  Lemma sstep_tab_spec t rw op :
    TabInv t rw ->
    let '(t', r) := sstep_tab H t op in
    let '(rw', r') := spec_rows_step rw op in
    r = r' /\ TabInv t' rw'.
  Proof.
    intros Hinv. pose proof (TabInv_loaded _ _ Hinv) as Hl. destruct Hinv as (Hr & Ht & Hm).
    destruct op as [pk k v|pk k v|pk k|pk k|pk kvs|pk kvs|pk ks]; cbn [sstep_tab spec_rows_step].
    - (* insert *)
      split; [reflexivity|]. unfold s_insert_into_tree, with_rows, loaded in *. cbn [rows tree mroot] in *.
      rewrite Hl, Hr. repeat split.
      destruct (bset rw k v) eqn:E; [exfalso; eapply bset_nonempty; exact E|reflexivity].
    - (* replace *)
      rewrite Hr. split; [reflexivity|].
      unfold s_insert_into_tree, with_rows, loaded in *. cbn [rows tree mroot] in *.
      rewrite Hl. repeat split.
      destruct (bset rw k v) eqn:E; [exfalso; eapply bset_nonempty; exact E|reflexivity].
    - (* take *)
      rewrite Hr. split; [reflexivity|].
      unfold s_remove_from_tree, with_rows. cbn [rows tree mroot]. rewrite Hm.
      destruct rw as [|e rw'].
      + cbn. repeat split; cbn; auto.
      + rewrite Ht. apply settle_inv.
    - (* remove *)
      rewrite Hr. split; [reflexivity|].
      unfold s_remove_from_tree, with_rows. cbn [rows tree mroot]. rewrite Hm.
      destruct rw as [|e rw'].
      + cbn. repeat split; cbn; auto.
      + rewrite Ht. apply settle_inv.
    - (* init *)
      destruct kvs as [|kv kvs'].
      + split; [reflexivity|]. repeat split; assumption.
      + rewrite Hm. destruct rw as [|e rw'].
        * split; [reflexivity|]. rewrite Hr. repeat split.
          cbn [rows tree mroot].
          destruct (fold_left (fun acc kv0 => bset acc (fst kv0) (snd kv0)) (kv :: kvs') []) eqn:E;
            [exfalso; eapply fold_bset_nonempty; [|exact E]; discriminate|reflexivity].
        * split; [reflexivity|]. repeat split; assumption.
    - (* insert batch *)
      destruct kvs as [|kv kvs'].
      + split; [reflexivity|]. repeat split; assumption.
      + split; [reflexivity|]. rewrite Hl, Hr. repeat split. cbn [rows tree mroot].
        destruct (fold_left (fun acc kv0 => bset acc (fst kv0) (snd kv0)) (kv :: kvs') rw) eqn:E;
          [exfalso; eapply fold_bset_nonempty; [|exact E]; discriminate|reflexivity].
    - (* remove batch *)
      destruct ks as [|k0 ks'].
      + split; [reflexivity|]. repeat split; assumption.
      + split; [reflexivity|]. rewrite Hl, Hr. apply settle_inv.
  Qed.

  Definition SInv (st : sstate) (sp : spec_state) : Prop :=
    forall pk, TabInv (sget st pk) (spec_get sp pk).

  Lemma SInv_init : SInv [] [].
  Proof. intro pk. apply TabInv_empty. Qed.

  Lemma sstep_spec st sp op :
    SInv st sp ->
    let '(st', r) := sstep H st op in
    let '(sp', r') := spec_sstep sp op in
    r = r' /\ SInv st' sp'.
  Proof.
    intros Hinv. unfold sstep, spec_sstep.
    pose proof (sstep_tab_spec _ _ op (Hinv (op_pk op))) as Ht.
    destruct (sstep_tab H (sget st (op_pk op)) op) as [t' r].
    destruct (spec_rows_step (spec_get sp (op_pk op)) op) as [rw' r'].
    destruct Ht as [-> Ht]. split; [reflexivity|].
    intro pk. unfold sget, spec_get. destruct (N.eq_dec (op_pk op) pk) as [<-|Hne].
    - rewrite !alookup_aset_same. exact Ht.
    - rewrite !alookup_aset_other by exact Hne. apply Hinv.
  Qed.

  Lemma s_root_spec st sp pk : SInv st sp -> s_root st pk = root_of_rows H (spec_get sp pk).
  Proof. intros Hinv. unfold s_root. apply TabInv_root. apply Hinv. Qed.

  Theorem sparse_exact_all pks ops : forall st sp,
    SInv st sp -> sparse_okb H pks sp ops (srun_obs H pks st ops) = true.
  Proof.
    induction ops as [|op r IH]; intros st sp Hinv; cbn [srun_obs sparse_okb]; [reflexivity|].
    pose proof (sstep_spec st sp op Hinv) as Hs.
    destruct (sstep H st op) as [st' rs]. cbn [sparse_okb].
    destruct (spec_sstep sp op) as [sp' r']. destruct Hs as [-> Hinv'].
    rewrite (proj2 (sres_eqb_eq r' r') eq_refl).
    replace (map (s_root st') pks) with (map (fun pk => root_of_rows H (spec_get sp' pk)) pks).
    - rewrite (proj2 (roots_eqb_eq _ _) eq_refl). cbn. now apply IH.
    - apply map_ext. intro pk. symmetry. now apply s_root_spec.
  Qed.

  (* frame: an operation on one primary key changes neither the rows nor the recorded root
     of any other primary key *)
  Theorem sparse_frame_all st op pk :
    pk <> op_pk op ->
    sget (fst (sstep H st op)) pk = sget st pk /\ s_root (fst (sstep H st op)) pk = s_root st pk.
  Proof.
    intros Hne. unfold sstep. destruct (sstep_tab H (sget st (op_pk op)) op) as [t' r]. cbn [fst].
    assert (E : sget (aset st (op_pk op) t') pk = sget st pk).
    { unfold sget. rewrite alookup_aset_other by congruence. reflexivity. }
    split; [exact E|]. unfold s_root. now rewrite E.
  Qed.

  (* meaning of the checker: every observed result is the plain-table result and every
     observed root is the from-scratch root of the specification rows *)
  Fixpoint SparseSpec (pks : list N) (sp : spec_state) (ops : list sop)
           (obs : list (sres * list bytes)) : Prop :=
    match ops, obs with
    | [], [] => True
    | op :: ops', (r, roots) :: obs' =>
        r = snd (spec_sstep sp op) /\
        roots = map (fun pk => root_of_rows H (spec_get (fst (spec_sstep sp op)) pk)) pks /\
        SparseSpec pks (fst (spec_sstep sp op)) ops' obs'
    | _, _ => False
    end.

  Theorem sparse_okb_sound_all pks ops : forall sp obs,
    sparse_okb H pks sp ops obs = true <-> SparseSpec pks sp ops obs.
  Proof.
    induction ops as [|op r IH]; intros sp [|[rs roots] obs]; cbn [sparse_okb SparseSpec];
      try (split; [discriminate|tauto]); try tauto.
    destruct (spec_sstep sp op) as [sp' r'] eqn:E. cbn [fst snd].
    rewrite !andb_true_iff, sres_eqb_eq, roots_eqb_eq, IH. tauto.
  Qed.

End SparseProofs.

(* non-vacuity: a history mixing single and batched operations over two primary keys *)
Example sparse_nonvacuous :
  map fst (srun_obs (fun x => x) [1; 2] []
     [SInsert 1 [1] [5]; SInit 1 [([2], [6])]; SInit 2 [([2], [6]); ([3], [7])];
      SReplace 2 [2] [8]; STake 1 [1]; SRemoveBatch 2 [[2]; [3]]; STake 2 [9]])
  = [SOk; SErr; SOk; SOkSome [6]; SOkSome [5]; SOk; SOkNone].
Proof. vm_compute. reflexivity. Qed.
