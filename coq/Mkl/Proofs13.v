(* Proofs for C13: the Merklized (dense) blueprint is append-only and exact. *)
From FC Require Import Mkl.Model.
From Coq Require Import ZifyBool ZifyN ZifyNat.
Open Scope N_scope.

(* ---------- association lists ---------- *)

Lemma alookup_aset {A} (l : list (N * A)) k v k' :
  alookup (aset l k v) k' = if k =? k' then Some v else alookup l k'.
Proof.
  induction l as [|[k0 v0] r IH]; cbn.
  - reflexivity.
  - destruct (k0 =? k) eqn:E0; cbn.
    + assert (k0 = k) by lia. subst k0. destruct (k =? k'); reflexivity.
    + rewrite IH. destruct (k0 =? k') eqn:E1; [|reflexivity].
      assert (k0 = k') by lia. subst k0. now rewrite N.eqb_sym, E0.
Qed.

Lemma alookup_In {A} (l : list (N * A)) k v : In (k, v) l -> alookup l k <> None.
Proof.
  induction l as [|[k0 v0] r IH]; cbn; [tauto|].
  intros [E|Hin].
  - injection E as -> ->. now rewrite N.eqb_refl.
  - destruct (k0 =? k); [discriminate|]. now apply IH.
Qed.

Lemma bytes_eqb_refl b : bytes_eqb b b = true.
Proof. induction b as [|x b IH]; cbn; [reflexivity|]. now rewrite N.eqb_refl, IH. Qed.

Lemma bytes_eqb_eq a : forall b, bytes_eqb a b = true <-> a = b.
Proof.
  induction a as [|x a IH]; intros [|y b]; cbn; split; intro Hh; try discriminate; try reflexivity.
  - apply andb_true_iff in Hh. destruct Hh as [H1 H2]. apply N.eqb_eq in H1. apply IH in H2. now subst.
  - injection Hh as -> ->. now rewrite N.eqb_refl, bytes_eqb_refl.
Qed.

Lemma md_eqb_eq a b : md_eqb a b = true <-> a = b.
Proof.
  destruct a as [[v r]|], b as [[v' r']|]; cbn; split; intro Hh; try discriminate; try reflexivity.
  - apply andb_true_iff in Hh. destruct Hh as [H1 H2]. apply N.eqb_eq in H1. apply bytes_eqb_eq in H2. now subst.
  - injection Hh as -> ->. now rewrite N.eqb_refl, bytes_eqb_refl.
Qed.

Lemma res_eqb_refl r : res_eqb r r = true.
Proof. destruct r; cbn; try reflexivity. apply N.eqb_refl. Qed.

Lemma res_eqb_eq a b : res_eqb a b = true <-> a = b.
Proof.
  destruct a, b; cbn; split; intro Hh; try discriminate; try reflexivity.
  - apply N.eqb_eq in Hh. now subst.
  - injection Hh as ->. apply N.eqb_refl.
Qed.

Section DenseProofs.
  Variable H : bytes -> bytes.
  Notation root := (binary_root H).

  (* ---------- the log ---------- *)

  Lemma stored_app lg k leaf k' : stored (lg ++ [(k, leaf)]) k' = stored lg k' || (k =? k').
  Proof. unfold stored. rewrite existsb_app. cbn. now rewrite orb_false_r. Qed.

  Lemma last_index_app lg k leaf k' : forall i acc,
    last_index (lg ++ [(k, leaf)]) k' i acc =
    if k =? k' then Some (i + length lg)%nat else last_index lg k' i acc.
  Proof.
    induction lg as [|[k0 l0] r IH]; intros i acc; cbn.
    - destruct (k =? k'); [f_equal; lia|reflexivity].
    - rewrite IH. destruct (k =? k'); [f_equal; lia|reflexivity].
  Qed.

  Lemma last_index_bound lg k : forall i acc j,
    last_index lg k i acc = Some j ->
    (forall a, acc = Some a -> (a < i)%nat) -> (j < i + length lg)%nat.
  Proof.
    induction lg as [|[k0 l0] r IH]; intros i acc j Hj Hacc; cbn in *.
    - specialize (Hacc j Hj). lia.
    - apply IH in Hj.
      + lia.
      + intros a Ha. destruct (k0 =? k).
        * injection Ha as <-. lia.
        * specialize (Hacc a Ha). lia.
  Qed.

  Lemma last_index_stored lg k : stored lg k = false -> forall i acc, last_index lg k i acc = acc.
  Proof.
    unfold stored. induction lg as [|[k0 l0] r IH]; intros Hs i acc; cbn in *; [reflexivity|].
    apply orb_false_iff in Hs. destruct Hs as [H1 H2]. rewrite H1. now apply IH.
  Qed.

  Lemma expected_prim_app lg k leaf k' :
    expected_prim H (lg ++ [(k, leaf)]) k' =
    if k =? k' then Some (N.of_nat (S (length lg)), root (map snd lg ++ [leaf]))
    else expected_prim H lg k'.
  Proof.
    unfold expected_prim. rewrite last_index_app. destruct (k =? k') eqn:E.
    - cbn [Nat.add]. rewrite map_app. cbn [map snd].
      rewrite firstn_all2; [reflexivity|]. rewrite app_length, map_length. cbn. lia.
    - destruct (last_index lg k' 0 None) as [j|] eqn:Ej; [|reflexivity].
      assert (Hb : (j < 0 + length lg)%nat).
      { eapply last_index_bound; [exact Ej|]. intros a Ha. discriminate. }
      rewrite map_app. rewrite firstn_app. rewrite map_length.
      replace (S j - length lg)%nat with O by lia. cbn [firstn]. now rewrite app_nil_r.
  Qed.

  Lemma expected_prim_not_stored lg k : stored lg k = false -> expected_prim H lg k = None.
  Proof. intros Hs. unfold expected_prim. now rewrite last_index_stored. Qed.

  Lemma log_latest_app lg k leaf :
    log_latest H (lg ++ [(k, leaf)]) = Some (N.of_nat (S (length lg)), root (map snd lg ++ [leaf])).
  Proof.
    unfold log_latest. destruct (lg ++ [(k, leaf)]) eqn:E.
    - destruct lg; discriminate.
    - rewrite <- E. rewrite app_length, map_app. cbn. do 2 f_equal. lia.
  Qed.

  (* ---------- the coupling invariant between model state and log ---------- *)

  Definition isSome {A} (o : option A) : bool := match o with Some _ => true | None => false end.

  Record DInv (st : dstate) (lg : log) : Prop := {
    inv_leaves : leaves st = map snd lg;
    inv_latest : latest st = log_latest H lg;
    inv_prim : forall k, alookup (prim st) k = expected_prim H lg k;
    inv_tbl : forall k, stored lg k = isSome (alookup (tbl st) k)
  }.

  Lemma DInv_init : DInv dinit [].
  Proof. constructor; reflexivity. Qed.

  Lemma insert_into_tree_inv st lg k leaf vid :
    DInv st lg ->
    DInv (insert_into_tree H (with_tbl st (aset (tbl st) k vid)) k leaf) (lg ++ [(k, leaf)]).
  Proof.
    intros [Hl Hla Hp Ht].
    assert (Hbase : firstn (N.to_nat match latest st with Some (v, _) => v | None => 0 end) (leaves st)
                    = map snd lg).
    { rewrite Hla, Hl. unfold log_latest. destruct lg as [|e lg']; [reflexivity|].
      rewrite firstn_all2; [reflexivity|]. rewrite map_length. lia. }
    constructor; unfold insert_into_tree, with_tbl; cbn [tbl prim latest leaves].
    - rewrite Hbase. now rewrite map_app.
    - rewrite Hbase, log_latest_app. rewrite app_length, map_length. cbn. do 2 f_equal. lia.
    - intro k'. rewrite Hbase, alookup_aset, expected_prim_app, Hp.
      rewrite app_length, map_length. cbn [length]. destruct (k =? k'); [|reflexivity].
      do 2 f_equal. lia.
    - intro k'. rewrite stored_app, alookup_aset, Ht.
      destruct (k =? k'); cbn; [now rewrite orb_true_r|now rewrite orb_false_r].
  Qed.

  (* a failed replace has overwritten the table row but no metadata *)
  Lemma overwrite_inv st lg k vid :
    DInv st lg -> stored lg k = true -> DInv (with_tbl st (aset (tbl st) k vid)) lg.
  Proof.
    intros [Hl Hla Hp Ht] Hs. constructor; unfold with_tbl; cbn [tbl prim latest leaves]; auto.
    intro k'. rewrite alookup_aset. destruct (k =? k') eqn:E; [|apply Ht].
    assert (k = k') by lia. subst k'. exact Hs.
  Qed.

  Lemma replace_spec st lg k v :
    DInv st lg ->
    let '(st', r) := m_replace H st k v in
    if stored lg k then r = RErr /\ DInv st' lg /\ prim st' = prim st /\ latest st' = latest st /\ leaves st' = leaves st
    else r = ROkNone /\ DInv st' (lg ++ [(k, snd v)]).
  Proof.
    intros Hinv. unfold m_replace. pose proof (inv_tbl _ _ Hinv k) as Ht.
    destruct (alookup (tbl st) k) eqn:E; cbn in Ht; rewrite Ht.
    - split; [reflexivity|]. split; [now apply overwrite_inv|]. repeat split.
    - split; [reflexivity|]. now apply insert_into_tree_inv.
  Qed.

  Lemma remove_spec st lg k : DInv st lg -> m_remove st k = negb (stored lg k).
  Proof.
    intros Hinv. unfold m_remove. rewrite (inv_tbl _ _ Hinv k). destruct (alookup (tbl st) k); reflexivity.
  Qed.

  Lemma insert_batch_spec kvs : forall st lg,
    DInv st lg ->
    let '(st', r) := m_insert_batch H st kvs in
    let '(lg', ok) := spec_insert_batch lg kvs in
    r = (if ok then ROk else RErr) /\ DInv st' lg'.
  Proof.
    induction kvs as [|[k v] r IH]; intros st lg Hinv; cbn [m_insert_batch spec_insert_batch].
    - split; [reflexivity|exact Hinv].
    - pose proof (replace_spec st lg k v Hinv) as Hr.
      destruct (m_replace H st k v) as [st1 r1]. destruct (stored lg k).
      + destruct Hr as (-> & Hinv1 & _). split; [reflexivity|exact Hinv1].
      + destruct Hr as (-> & Hinv1). apply IH. exact Hinv1.
  Qed.

  Lemma remove_batch_spec ks : forall st lg,
    DInv st lg ->
    m_remove_batch st ks = (st, if existsb (stored lg) ks then RErr else ROk).
  Proof.
    induction ks as [|k r IH]; intros st lg Hinv; cbn [m_remove_batch existsb]; [reflexivity|].
    rewrite (remove_spec _ _ _ Hinv). destruct (stored lg k); cbn; [reflexivity|]. now apply IH.
  Qed.

  (* one operation: unless it is an insert onto a stored key, the model does exactly what
     the specification log says, and the invariant is kept *)
  Lemma dstep_spec st lg op lg' r' :
    DInv st lg -> spec_step lg op = Some (lg', r') ->
    let '(st', r) := dstep H st op in r = r' /\ DInv st' lg'.
  Proof.
    intros Hinv Hspec. destruct op as [k v|k v|k|k|kvs|ks]; cbn [dstep spec_step] in *.
    - destruct (stored lg k) eqn:Es; [discriminate|]. injection Hspec as <- <-.
      unfold m_put. split; [reflexivity|]. now apply insert_into_tree_inv.
    - pose proof (replace_spec st lg k v Hinv) as Hr. destruct (m_replace H st k v) as [st1 r1].
      destruct (stored lg k); injection Hspec as <- <-.
      + destruct Hr as (-> & Hinv1 & _). now split.
      + destruct Hr as (-> & Hinv1). now split.
    - unfold m_take. rewrite (remove_spec _ _ _ Hinv).
      destruct (stored lg k); injection Hspec as <- <-; cbn; now split.
    - unfold m_delete. rewrite (remove_spec _ _ _ Hinv).
      destruct (stored lg k); injection Hspec as <- <-; cbn; now split.
    - pose proof (insert_batch_spec kvs st lg Hinv) as Hb.
      destruct (m_insert_batch H st kvs) as [st1 r1]. destruct (spec_insert_batch lg kvs) as [lg1 ok].
      injection Hspec as <- <-. exact Hb.
    - rewrite (remove_batch_spec ks st lg Hinv).
      destruct (existsb (stored lg) ks); injection Hspec as <- <-; now split.
  Qed.

  (* ---------- histories ---------- *)

  (* the specification log of a history; None if some insert targets a stored key *)
  Fixpoint spec_log (lg : log) (ops : list dop) : option log :=
    match ops with
    | [] => Some lg
    | op :: r => match spec_step lg op with
                 | None => None
                 | Some (lg', _) => spec_log lg' r
                 end
    end.

  Lemma drun_spec ops : forall st lg lgf,
    DInv st lg -> spec_log lg ops = Some lgf ->
    let '(obs, fin) := drun H st ops in
    spec_check H lg ops obs = (1, lgf) /\ DInv fin lgf.
  Proof.
    induction ops as [|op r IH]; intros st lg lgf Hinv Hlog; cbn [drun spec_check spec_log] in *.
    - injection Hlog as <-. now split.
    - destruct (spec_step lg op) as [[lg1 r1]|] eqn:Es; [|discriminate].
      pose proof (dstep_spec st lg op lg1 r1 Hinv Es) as Hstep.
      destruct (dstep H st op) as [st1 rs]. destruct Hstep as [-> Hinv1].
      specialize (IH st1 lg1 lgf Hinv1 Hlog). destruct (drun H st1 r) as [obs fin].
      destruct IH as [Hc Hf].
      rewrite res_eqb_refl. rewrite (inv_latest _ _ Hinv1).
      replace (md_eqb (log_latest H lg1) (log_latest H lg1)) with true
        by (symmetry; now apply md_eqb_eq).
      cbn. now split.
  Qed.

  Lemma prim_okb_spec lg rows :
    prim_okb H lg rows = true <-> forall k, alookup rows k = expected_prim H lg k.
  Proof.
    unfold prim_okb. rewrite andb_true_iff, !forallb_forall. split.
    - intros [H1 H2] k. destruct (stored lg k) eqn:Es.
      + apply md_eqb_eq. apply H1.
        (* k is among the distinct keys *)
        assert (Hd : forall lg0 seen, (stored lg0 k = true \/ In k seen) -> In k (distinct_keys lg0 seen)).
        { induction lg0 as [|[k0 l0] r IH]; intros seen [Hs|Hs]; cbn in *; try discriminate; auto.
          - destruct (existsb (N.eqb k0) seen) eqn:Ee.
            + apply IH. destruct (k0 =? k) eqn:Ek; [|now left].
              right. assert (k0 = k) by lia. subst k0.
              apply existsb_exists in Ee. destruct Ee as [x [Hx Hxe]]. assert (k = x) by lia. now subst.
            + apply IH. destruct (k0 =? k) eqn:Ek; [|now left].
              right. left. lia.
          - destruct (existsb (N.eqb k0) seen); apply IH; right; [exact Hs|now right]. }
        apply Hd. now left.
      + rewrite expected_prim_not_stored by exact Es.
        destruct (alookup rows k) as [v|] eqn:El; [|reflexivity].
        exfalso.
        assert (Hin : exists v', In (k, v') rows).
        { clear -El. induction rows as [|[k0 v0] r IH]; cbn in El; [discriminate|].
          destruct (k0 =? k) eqn:Ek.
          - assert (k0 = k) by lia. subst k0. exists v0. now left.
          - destruct (IH El) as [v' Hv']. exists v'. now right. }
        destruct Hin as [v' Hv']. specialize (H2 _ Hv'). cbn in H2. congruence.
    - intro Hall. split.
      + intros k _. apply md_eqb_eq. apply Hall.
      + intros [k v] Hin. cbn. destruct (stored lg k) eqn:Es; [reflexivity|].
        exfalso. apply (alookup_In rows k v Hin). rewrite Hall. now apply expected_prim_not_stored.
  Qed.

  Theorem dense_exact_all ops lgf :
    spec_log [] ops = Some lgf ->
    let '(obs, fin) := drun H dinit ops in
    dense_okb H ops obs (prim fin) = 1.
  Proof.
    intros Hlog. pose proof (drun_spec ops dinit [] lgf DInv_init Hlog) as Hr.
    destruct (drun H dinit ops) as [obs fin]. destruct Hr as [Hc Hinv].
    unfold dense_okb. rewrite Hc.
    replace (prim_okb H lgf (prim fin)) with true; [reflexivity|].
    symmetry. apply prim_okb_spec. apply (inv_prim _ _ Hinv).
  Qed.

  (* operations on a stored key fail and leave every metadata row unchanged *)
  Theorem dense_protected_all st lg k v :
    DInv st lg -> stored lg k = true ->
    (let '(st', r) := m_replace H st k v in
     r = RErr /\ prim st' = prim st /\ latest st' = latest st /\ leaves st' = leaves st) /\
    m_take st k = (st, RErr) /\ m_delete st k = (st, RErr).
  Proof.
    intros Hinv Hs. split; [|split].
    - pose proof (replace_spec st lg k v Hinv) as Hr. destruct (m_replace H st k v) as [st1 r1].
      rewrite Hs in Hr. tauto.
    - unfold m_take. rewrite (remove_spec _ _ _ Hinv), Hs. reflexivity.
    - unfold m_delete. rewrite (remove_spec _ _ _ Hinv), Hs. reflexivity.
  Qed.

  (* with distinct keys, Primary(k) is the root over the first (position of k)+1 leaves *)
  Lemma reachable_inv ops : forall st lg lgf,
    DInv st lg -> spec_log lg ops = Some lgf -> DInv (snd (drun H st ops)) lgf.
  Proof.
    intros st lg lgf Hinv Hlog. pose proof (drun_spec ops st lg lgf Hinv Hlog) as Hr.
    destruct (drun H st ops) as [obs fin]. cbn. tauto.
  Qed.

End DenseProofs.

(* The statement "an insert onto an already stored key is rejected" is false of the model
   (and of the code): witness with the identity function as the hash. *)
Lemma dense_dup_insert_refuted :
  exists ops, spec_log [] ops = None /\
    let '(obs, fin) := drun (fun x => x) dinit ops in
    map fst obs = [ROk; ROk] /\ alookup (prim fin) 0 = Some (2, binary_root (fun x => x) [[7]; [9]]).
Proof.
  exists [DInsert 0 (1, [7]); DInsert 0 (2, [9])]. vm_compute. repeat split; reflexivity.
Qed.

(* non-vacuity: a concrete history with failed overwrites satisfies the hypothesis *)
Example dense_nonvacuous :
  spec_log [] [DInsert 0 (1, [7]); DReplace 0 (2, [8]); DInsertBatch [(1, (3, [9])); (0, (4, [1]))]; DRemove 1]
  = Some [(0, [7]); (1, [9])].
Proof. vm_compute. reflexivity. Qed.
