(* Executable model of the merklized storage blueprints:
     crates/storage/src/blueprint/merklized.rs  (C13, dense/binary tree, table FuelBlocks)
     crates/storage/src/blueprint/sparse.rs     (C14, sparse tree, Merkleized<Table>)
   driven through StorageMutate / StorageBatchMutate of StructuredStorage.
   fuel-merkle's trees are specified by the from-scratch roots of Common/Merkle.v. *)
From FC Require Export Common.T Common.Sha256 Common.Merkle.
Open Scope N_scope.

(* ------------------------------------------------------------------ *)
(* association lists keyed by N                                        *)

Fixpoint alookup {A} (l : list (N * A)) (k : N) : option A :=
  match l with
  | [] => None
  | (k', v) :: r => if k' =? k then Some v else alookup r k
  end.
Fixpoint aset {A} (l : list (N * A)) (k : N) (v : A) : list (N * A) :=
  match l with
  | [] => [(k, v)]
  | (k', v') :: r => if k' =? k then (k, v) :: r else (k', v') :: aset r k v
  end.
Fixpoint aremove {A} (l : list (N * A)) (k : N) : list (N * A) :=
  match l with
  | [] => []
  | (k', v') :: r => if k' =? k then r else (k', v') :: aremove r k
  end.
(* insertion sort by key, for canonical dumps *)
Fixpoint ainsert_sorted {A} (kv : N * A) (l : list (N * A)) : list (N * A) :=
  match l with
  | [] => [kv]
  | x :: r => if fst kv <=? fst x then kv :: l else x :: ainsert_sorted kv r
  end.
Definition asort {A} (l : list (N * A)) : list (N * A) := fold_right ainsert_sorted [] l.

(* ------------------------------------------------------------------ *)
(* C13: Merklized (dense)                                              *)

Section Dense.
  Variable H : bytes -> bytes.

  (* a value = (identity of the stored value, bytes fed to the tree by the ValueEncoder) *)
  Definition dval := (N * bytes)%type.

  Record dstate := {
    tbl : list (N * N);                 (* key -> value id *)
    prim : list (N * (N * bytes));      (* DenseMetadataKey::Primary(key) -> (version, root) *)
    latest : option (N * bytes);        (* DenseMetadataKey::Latest *)
    leaves : list bytes                 (* the tree's leaves (nodes table), in push order *)
  }.
  Definition dinit : dstate := {| tbl := []; prim := []; latest := None; leaves := [] |}.

  Inductive res := ROk | ROkNone | ROkSome (vid : N) | RErr.

  Definition insert_into_tree (st : dstate) (k : N) (leaf : bytes) : dstate :=
    let prev_version := match latest st with Some (v, _) => v | None => 0 end in
    let base := firstn (N.to_nat prev_version) (leaves st) in     (* MerkleTree::load(version) *)
    let lv := base ++ [leaf] in
    let md := (N.of_nat (length lv), binary_root H lv) in
    {| tbl := tbl st; prim := aset (prim st) k md; latest := Some md; leaves := lv |}.

  Definition with_tbl (st : dstate) (t : list (N * N)) : dstate :=
    {| tbl := t; prim := prim st; latest := latest st; leaves := leaves st |}.

  (* Merklized::remove: error if the key exists *)
  Definition m_remove (st : dstate) (k : N) : bool :=    (* true = Ok *)
    match alookup (tbl st) k with Some _ => false | None => true end.

  Definition m_put (st : dstate) (k : N) (v : dval) : dstate * res :=
    (insert_into_tree (with_tbl st (aset (tbl st) k (fst v))) k (snd v), ROk).

  Definition m_replace (st : dstate) (k : N) (v : dval) : dstate * res :=
    let prev := alookup (tbl st) k in
    let st1 := with_tbl st (aset (tbl st) k (fst v)) in
    match prev with
    | Some _ => (st1, RErr)                       (* remove() sees the just-written key *)
    | None => (insert_into_tree st1 k (snd v), ROkNone)
    end.

  Definition m_take (st : dstate) (k : N) : dstate * res :=
    if m_remove st k then (st, ROkNone) else (st, RErr).

  Definition m_delete (st : dstate) (k : N) : dstate * res :=
    if m_remove st k then (st, ROk) else (st, RErr).

  Fixpoint m_insert_batch (st : dstate) (kvs : list (N * dval)) : dstate * res :=
    match kvs with
    | [] => (st, ROk)
    | (k, v) :: r =>
        match m_replace st k v with
        | (st', RErr) => (st', RErr)
        | (st', _) => m_insert_batch st' r
        end
    end.

  Fixpoint m_remove_batch (st : dstate) (ks : list N) : dstate * res :=
    match ks with
    | [] => (st, ROk)
    | k :: r => if m_remove st k then m_remove_batch st r else (st, RErr)
    end.

  Inductive dop :=
  | DInsert (k : N) (v : dval)
  | DReplace (k : N) (v : dval)
  | DTake (k : N)
  | DRemove (k : N)
  | DInsertBatch (kvs : list (N * dval))
  | DRemoveBatch (ks : list N).

  Definition dstep (st : dstate) (op : dop) : dstate * res :=
    match op with
    | DInsert k v => m_put st k v
    | DReplace k v => m_replace st k v
    | DTake k => m_take st k
    | DRemove k => m_delete st k
    | DInsertBatch kvs => m_insert_batch st kvs
    | DRemoveBatch ks => m_remove_batch st ks
    end.

  (* observation of one op: result and the Latest row afterwards *)
  Definition dobs := (res * option (N * bytes))%type.

  Fixpoint drun (st : dstate) (ops : list dop) : list dobs * dstate :=
    match ops with
    | [] => ([], st)
    | op :: r => let '(st', rs) := dstep st op in
                 let '(obs, fin) := drun st' r in
                 ((rs, latest st') :: obs, fin)
    end.

  (* ---------------- the specification checker (Pcheck of C13) ----------------
     It replays the log of successful tree insertions implied by the operations and
     the observed results, and demands after every operation that Latest is the root
     over the whole log, that remove/replace/take of a stored key fail, and at the end
     that Primary(k) is the root over the log prefix ending at k's insertion.
     Result code: 1 ok; 2 an insert onto an already stored key was accepted;
     0 any other failure. *)

  Definition log := list (N * bytes).      (* (key, leaf) in push order *)
  Definition stored (lg : log) (k : N) : bool := existsb (fun e => fst e =? k) lg.
  Definition log_latest (lg : log) : option (N * bytes) :=
    match lg with
    | [] => None
    | _ => Some (N.of_nat (length lg), binary_root H (map snd lg))
    end.

  Definition res_eqb (a b : res) : bool :=
    match a, b with
    | ROk, ROk | ROkNone, ROkNone | RErr, RErr => true
    | ROkSome x, ROkSome y => x =? y
    | _, _ => false
    end.
  Fixpoint bytes_eqb (a b : bytes) : bool :=
    match a, b with
    | [], [] => true
    | x :: a', y :: b' => (x =? y) && bytes_eqb a' b'
    | _, _ => false
    end.
  Definition md_eqb (a b : option (N * bytes)) : bool :=
    match a, b with
    | None, None => true
    | Some (v, r), Some (v', r') => (v =? v') && bytes_eqb r r'
    | _, _ => false
    end.

  (* expected effect of a batch insert on the log: replace one by one, stop at the
     first stored key *)
  Fixpoint spec_insert_batch (lg : log) (kvs : list (N * dval)) : log * bool :=   (* (log', ok) *)
    match kvs with
    | [] => (lg, true)
    | (k, v) :: r => if stored lg k then (lg, false) else spec_insert_batch (lg ++ [(k, snd v)]) r
    end.

  Definition spec_step (lg : log) (op : dop) : option (log * res) :=   (* None = finding class 2 *)
    match op with
    | DInsert k v => if stored lg k then None else Some (lg ++ [(k, snd v)], ROk)
    | DReplace k v => if stored lg k then Some (lg, RErr) else Some (lg ++ [(k, snd v)], ROkNone)
    | DTake k => if stored lg k then Some (lg, RErr) else Some (lg, ROkNone)
    | DRemove k => if stored lg k then Some (lg, RErr) else Some (lg, ROk)
    | DInsertBatch kvs => let '(lg', ok) := spec_insert_batch lg kvs in
                          Some (lg', if ok then ROk else RErr)
    | DRemoveBatch ks => if existsb (stored lg) ks then Some (lg, RErr) else Some (lg, ROk)
    end.

  Fixpoint spec_check (lg : log) (ops : list dop) (obs : list dobs) : N * log :=
    match ops, obs with
    | [], [] => (1, lg)
    | op :: ops', (r, lt) :: obs' =>
        match spec_step lg op with
        | None => (2, lg)
        | Some (lg', r') =>
            if res_eqb r r' && md_eqb lt (log_latest lg') then spec_check lg' ops' obs' else (0, lg)
        end
    | _, _ => (0, lg)
    end.

  Fixpoint last_index (lg : log) (k : N) (i : nat) (acc : option nat) : option nat :=
    match lg with
    | [] => acc
    | (k', _) :: r => last_index r k (S i) (if k' =? k then Some i else acc)
    end.

  Definition expected_prim (lg : log) (k : N) : option (N * bytes) :=
    match last_index lg k 0 None with
    | None => None
    | Some i => Some (N.of_nat (S i), binary_root H (firstn (S i) (map snd lg)))
    end.

  Fixpoint distinct_keys (lg : log) (seen : list N) : list N :=
    match lg with
    | [] => seen
    | (k, _) :: r => if existsb (N.eqb k) seen then distinct_keys r seen else distinct_keys r (k :: seen)
    end.

  (* the dumped Primary rows are exactly the expected ones: every stored key has its
     expected row and there is no row for a key that was never stored *)
  Definition prim_okb (lg : log) (rows : list (N * (N * bytes))) : bool :=
    forallb (fun k => md_eqb (alookup rows k) (expected_prim lg k)) (distinct_keys lg []) &&
    forallb (fun row => stored lg (fst row)) rows.

  Definition dense_okb (ops : list dop) (obs : list dobs) (rows : list (N * (N * bytes))) : N :=
    match spec_check [] ops obs with
    | (1, lg) => if prim_okb lg rows then 1 else 0
    | (c, _) => c
    end.

End Dense.

(* ------------------------------------------------------------------ *)
(* C14: Sparse                                                         *)

Section SparseBp.
  Variable H : bytes -> bytes.

  (* entries are (key bytes, value bytes); byte strings compared structurally *)
  Fixpoint blookup (l : list (bytes * bytes)) (k : bytes) : option bytes :=
    match l with
    | [] => None
    | (k', v) :: r => if bytes_eqb k' k then Some v else blookup r k
    end.
  Fixpoint bset (l : list (bytes * bytes)) (k v : bytes) : list (bytes * bytes) :=
    match l with
    | [] => [(k, v)]
    | (k', v') :: r => if bytes_eqb k' k then (k, v) :: r else (k', v') :: bset r k v
    end.
  Fixpoint bremove (l : list (bytes * bytes)) (k : bytes) : list (bytes * bytes) :=
    match l with
    | [] => []
    | (k', v') :: r => if bytes_eqb k' k then r else (k', v') :: bremove r k
    end.

  (* per primary key (= table/column id): the plain table rows, the rows of the tree and
     the metadata root.  [tree] is what the fuel-merkle tree stored under [root] contains;
     the library is specified by: root of a tree with entries E = sparse_root E. *)
  Record ptab := { rows : list (bytes * bytes); tree : list (bytes * bytes); mroot : option bytes }.
  Definition pempty : ptab := {| rows := []; tree := []; mroot := None |}.
  Definition sstate := list (N * ptab).
  Definition sget (st : sstate) (pk : N) : ptab :=
    match alookup st pk with Some t => t | None => pempty end.

  Definition tree_root (es : list (bytes * bytes)) : bytes := sparse_root H es.

  (* MerkleTree::load(root): the default (absent) metadata loads the empty tree *)
  Definition loaded (t : ptab) : list (bytes * bytes) :=
    match mroot t with Some _ => tree t | None => [] end.

  (* after a removal: an empty tree removes the metadata row *)
  Definition settle (rw tr : list (bytes * bytes)) : ptab :=
    match tr with
    | [] => {| rows := rw; tree := []; mroot := None |}
    | _ => {| rows := rw; tree := tr; mroot := Some (tree_root tr) |}
    end.

  Definition s_insert_into_tree (t : ptab) (k v : bytes) : ptab :=
    let tr := bset (loaded t) k v in
    {| rows := rows t; tree := tr; mroot := Some (tree_root tr) |}.

  Definition s_remove_from_tree (t : ptab) (k : bytes) : ptab :=
    match mroot t with
    | None => t
    | Some _ => settle (rows t) (bremove (tree t) k)
    end.

  Definition with_rows (t : ptab) (r : list (bytes * bytes)) : ptab :=
    {| rows := r; tree := tree t; mroot := mroot t |}.

  Inductive sres := SOk | SOkNone | SOkSome (v : bytes) | SErr.

  Inductive sop :=
  | SInsert (pk : N) (k v : bytes)
  | SReplace (pk : N) (k v : bytes)
  | STake (pk : N) (k : bytes)
  | SRemove (pk : N) (k : bytes)
  | SInit (pk : N) (kvs : list (bytes * bytes))
  | SInsertBatch (pk : N) (kvs : list (bytes * bytes))
  | SRemoveBatch (pk : N) (ks : list bytes).

  Definition op_pk (op : sop) : N :=
    match op with
    | SInsert pk _ _ | SReplace pk _ _ | STake pk _ | SRemove pk _
    | SInit pk _ | SInsertBatch pk _ | SRemoveBatch pk _ => pk
    end.

  Definition sstep_tab (t : ptab) (op : sop) : ptab * sres :=
    match op with
    | SInsert _ k v => (s_insert_into_tree (with_rows t (bset (rows t) k v)) k v, SOk)
    | SReplace _ k v =>
        let prev := blookup (rows t) k in
        (s_insert_into_tree (with_rows t (bset (rows t) k v)) k v,
         match prev with Some p => SOkSome p | None => SOkNone end)
    | STake _ k =>
        let prev := blookup (rows t) k in
        (s_remove_from_tree (with_rows t (bremove (rows t) k)) k,
         match prev with Some p => SOkSome p | None => SOkNone end)
    | SRemove _ k => (s_remove_from_tree (with_rows t (bremove (rows t) k)) k, SOk)
    | SInit _ kvs =>
        match kvs with
        | [] => (t, SOk)
        | _ =>
            match mroot t with
            | Some _ => (t, SErr)                      (* "already initialized" *)
            | None =>
                (* nodes_from_set builds the tree of the set alone; rows are batch-written *)
                let tr := fold_left (fun acc kv => bset acc (fst kv) (snd kv)) kvs [] in
                let rw := fold_left (fun acc kv => bset acc (fst kv) (snd kv)) kvs (rows t) in
                ({| rows := rw; tree := tr; mroot := Some (tree_root tr) |}, SOk)
            end
        end
    | SInsertBatch _ kvs =>
        match kvs with
        | [] => (t, SOk)
        | _ =>
            let tr := fold_left (fun acc kv => bset acc (fst kv) (snd kv)) kvs (loaded t) in
            let rw := fold_left (fun acc kv => bset acc (fst kv) (snd kv)) kvs (rows t) in
            ({| rows := rw; tree := tr; mroot := Some (tree_root tr) |}, SOk)
        end
    | SRemoveBatch _ ks =>
        match ks with
        | [] => (t, SOk)
        | _ => (settle (fold_left bremove ks (rows t)) (fold_left bremove ks (loaded t)), SOk)
        end
    end.

  Definition sstep (st : sstate) (op : sop) : sstate * sres :=
    let pk := op_pk op in
    let '(t', r) := sstep_tab (sget st pk) op in
    (aset st pk t', r).

  (* MerkleRootStorage::root : stored root or the empty root *)
  Definition s_root (st : sstate) (pk : N) : bytes :=
    match mroot (sget st pk) with Some r => r | None => zero32 end.

  (* ---------------- the specification (Pcheck of C14) ----------------
     A flat map per primary key with plain table semantics; the recorded root of every
     primary key must be the from-scratch sparse root of that key's current rows. *)
  Definition spec_state := list (N * list (bytes * bytes)).
  Definition spec_get (sp : spec_state) (pk : N) : list (bytes * bytes) :=
    match alookup sp pk with Some r => r | None => [] end.
  Definition root_of_rows (rw : list (bytes * bytes)) : bytes :=
    match rw with [] => zero32 | _ => sparse_root H rw end.

  Definition spec_rows_step (rw : list (bytes * bytes)) (op : sop) : list (bytes * bytes) * sres :=
    match op with
    | SInsert _ k v => (bset rw k v, SOk)
    | SReplace _ k v => (bset rw k v, match blookup rw k with Some p => SOkSome p | None => SOkNone end)
    | STake _ k => (bremove rw k, match blookup rw k with Some p => SOkSome p | None => SOkNone end)
    | SRemove _ k => (bremove rw k, SOk)
    | SInit _ kvs =>
        match kvs, rw with
        | [], _ => (rw, SOk)
        | _, [] => (fold_left (fun acc kv => bset acc (fst kv) (snd kv)) kvs [], SOk)
        | _, _ => (rw, SErr)
        end
    | SInsertBatch _ kvs => (fold_left (fun acc kv => bset acc (fst kv) (snd kv)) kvs rw, SOk)
    | SRemoveBatch _ ks => (fold_left bremove ks rw, SOk)
    end.

  Definition spec_sstep (sp : spec_state) (op : sop) : spec_state * sres :=
    let pk := op_pk op in
    let '(rw, r) := spec_rows_step (spec_get sp pk) op in
    (aset sp pk rw, r).

  Definition sres_eqb (a b : sres) : bool :=
    match a, b with
    | SOk, SOk | SOkNone, SOkNone | SErr, SErr => true
    | SOkSome x, SOkSome y => bytes_eqb x y
    | _, _ => false
    end.
  Fixpoint roots_eqb (a b : list bytes) : bool :=
    match a, b with
    | [], [] => true
    | x :: a', y :: b' => bytes_eqb x y && roots_eqb a' b'
    | _, _ => false
    end.

  (* observation per op: (result, roots of all watched primary keys afterwards) *)
  Fixpoint sparse_okb (pks : list N) (sp : spec_state) (ops : list sop)
           (obs : list (sres * list bytes)) : bool :=
    match ops, obs with
    | [], [] => true
    | op :: ops', (r, roots) :: obs' =>
        let '(sp', r') := spec_sstep sp op in
        sres_eqb r r' && roots_eqb roots (map (fun pk => root_of_rows (spec_get sp' pk)) pks) &&
        sparse_okb pks sp' ops' obs'
    | _, _ => false
    end.

  Fixpoint srun_obs (pks : list N) (st : sstate) (ops : list sop) : list (sres * list bytes) :=
    match ops with
    | [] => []
    | op :: r => let '(st', rs) := sstep st op in
                 (rs, map (s_root st') pks) :: srun_obs pks st' r
    end.

End SparseBp.

(* ------------------------------------------------------------------ *)
(* T codecs and entry point                                            *)

Definition tBytes (b : bytes) : T := L (map tN b).
Definition getBytes (t : T) : option bytes := getListN t.

Definition res_T (r : res) : T :=
  match r with ROk => L [I 0] | ROkNone => L [I 1] | ROkSome v => L [I 2; tN v] | RErr => L [I 3] end.
Definition T_res (t : T) : option res :=
  match t with
  | L [I 0%Z] => Some ROk
  | L [I 1%Z] => Some ROkNone
  | L [I 2%Z; v] => option_map ROkSome (getN v)
  | L [I 3%Z] => Some RErr
  | _ => None
  end.
Definition md_T (m : option (N * bytes)) : T :=
  match m with None => L [] | Some (v, r) => L [tN v; tBytes r] end.
Definition T_md (t : T) : option (option (N * bytes)) :=
  match t with
  | L [] => Some None
  | L [v; r] => match getN v, getBytes r with Some v, Some r => Some (Some (v, r)) | _, _ => None end
  | _ => None
  end.
Definition T_dval (t : T) : option dval :=
  match t with
  | L [vid; leaf] => match getN vid, getBytes leaf with Some a, Some b => Some (a, b) | _, _ => None end
  | _ => None
  end.
Definition T_kv (t : T) : option (N * dval) :=
  match t with
  | L [k; v] => match getN k, T_dval v with Some k, Some v => Some (k, v) | _, _ => None end
  | _ => None
  end.
Definition T_dop (t : T) : option dop :=
  match t with
  | L [I 0%Z; k; v] => match getN k, T_dval v with Some k, Some v => Some (DInsert k v) | _, _ => None end
  | L [I 1%Z; k; v] => match getN k, T_dval v with Some k, Some v => Some (DReplace k v) | _, _ => None end
  | L [I 2%Z; k] => option_map DTake (getN k)
  | L [I 3%Z; k] => option_map DRemove (getN k)
  | L [I 4%Z; L kvs] => option_map DInsertBatch (mapM T_kv kvs)
  | L [I 5%Z; ks] => option_map DRemoveBatch (getListN ks)
  | _ => None
  end.
Definition dobs_T (o : dobs) : T := L [res_T (fst o); md_T (snd o)].
Definition T_dobs (t : T) : option dobs :=
  match t with
  | L [r; m] => match T_res r, T_md m with Some r, Some m => Some (r, m) | _, _ => None end
  | _ => None
  end.
Definition prow_T (r : N * (N * bytes)) : T := L [tN (fst r); tN (fst (snd r)); tBytes (snd (snd r))].
Definition T_prow (t : T) : option (N * (N * bytes)) :=
  match t with
  | L [k; v; r] => match getN k, getN v, getBytes r with
                   | Some k, Some v, Some r => Some (k, (v, r)) | _, _, _ => None end
  | _ => None
  end.
Definition trow_T (r : N * N) : T := L [tN (fst r); tN (snd r)].

Definition main13 (input observed : T) : T :=
  match input with
  | L ops =>
      match mapM T_dop ops with
      | Some ops =>
          let '(obs, fin) := drun sha256 (dinit) ops in
          let model := L [L (map dobs_T obs); L (map prow_T (asort (prim fin))); L (map trow_T (asort (tbl fin)))] in
          let pc := match observed with
                    | L [L o; L rows; _] =>
                        match mapM T_dobs o, mapM T_prow rows with
                        | Some o, Some rows => dense_okb sha256 ops o rows
                        | _, _ => 0
                        end
                    | _ => 0
                    end in
          L [model; tN pc]
      | None => tErr 2
      end
  | _ => tErr 1
  end.

Definition sres_T (r : sres) : T :=
  match r with SOk => L [I 0] | SOkNone => L [I 1] | SOkSome v => L [I 2; tBytes v] | SErr => L [I 3] end.
Definition T_bkv (t : T) : option (bytes * bytes) :=
  match t with
  | L [k; v] => match getBytes k, getBytes v with Some k, Some v => Some (k, v) | _, _ => None end
  | _ => None
  end.
Definition T_sop (t : T) : option sop :=
  match t with
  | L [I 0%Z; pk; k; v] => match getN pk, getBytes k, getBytes v with
                          | Some pk, Some k, Some v => Some (SInsert pk k v) | _, _, _ => None end
  | L [I 1%Z; pk; k; v] => match getN pk, getBytes k, getBytes v with
                          | Some pk, Some k, Some v => Some (SReplace pk k v) | _, _, _ => None end
  | L [I 2%Z; pk; k] => match getN pk, getBytes k with Some pk, Some k => Some (STake pk k) | _, _ => None end
  | L [I 3%Z; pk; k] => match getN pk, getBytes k with Some pk, Some k => Some (SRemove pk k) | _, _ => None end
  | L [I 4%Z; pk; L kvs] => match getN pk, mapM T_bkv kvs with
                           | Some pk, Some kvs => Some (SInit pk kvs) | _, _ => None end
  | L [I 5%Z; pk; L kvs] => match getN pk, mapM T_bkv kvs with
                           | Some pk, Some kvs => Some (SInsertBatch pk kvs) | _, _ => None end
  | L [I 6%Z; pk; L ks] => match getN pk, mapM getBytes ks with
                          | Some pk, Some ks => Some (SRemoveBatch pk ks) | _, _ => None end
  | _ => None
  end.

Definition T_sres (t : T) : option sres :=
  match t with
  | L [I 0%Z] => Some SOk
  | L [I 1%Z] => Some SOkNone
  | L [I 2%Z; v] => option_map SOkSome (getBytes v)
  | L [I 3%Z] => Some SErr
  | _ => None
  end.
Definition sobs_T (o : sres * list bytes) : T := L [sres_T (fst o); L (map tBytes (snd o))].
Definition T_sobs (t : T) : option (sres * list bytes) :=
  match t with
  | L [r; L roots] => match T_sres r, mapM getBytes roots with
                      | Some r, Some roots => Some (r, roots) | _, _ => None end
  | _ => None
  end.

(* input: (pks ops) *)
Definition main14 (input observed : T) : T :=
  match input with
  | L [pks; L ops] =>
      match getListN pks, mapM T_sop ops with
      | Some pks, Some ops =>
          let model := L (map sobs_T (srun_obs sha256 pks [] ops)) in
          let pc := match observed with
                    | L o => match mapM T_sobs o with
                             | Some o => sparse_okb sha256 pks [] ops o
                             | None => false
                             end
                    | _ => false
                    end in
          L [model; tB pc]
      | _, _ => tErr 2
      end
  | _ => tErr 1
  end.

Definition main_T (req : T) : T :=
  match req with
  | L [I 13%Z; input; observed] => main13 input observed
  | L [I 14%Z; input; observed] => main14 input observed
  | _ => tErr 0
  end.
