From FC Require Import Mkl.Model.
Require Extraction.
Require Import ExtrOcamlBasic.
Extraction "mkl_model.ml" main_T.
