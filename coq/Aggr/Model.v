(* C43: record-level model of the block aggregator's fuel <-> protobuf conversions
     crates/services/block_aggregator_api/src/blocks/old_block_source/convertor_adapter/
        fuel_to_proto_conversions.rs   (proto_input_from_input, proto_output_from_output,
                                        proto_utxo_id_from_utxo_id, proto_tx_pointer,
                                        proto_policies_from_policies)
        proto_to_fuel_conversions.rs   (input_from_proto_input, output_from_proto_output,
                                        utxo_id_from_proto, tx_pointer_from_proto,
                                        policies_from_proto_policies)
   and of StorageDB::store_block's height rule (db/storage_db.rs).

   MODELLED: all 7 input variants, all 5 output variants (with utxo id / tx pointer inlined),
   policies, as carried by a Script transaction; the rule by which fuel_block_from_protobuf
   recomputes the outbox message ids (per transaction, non-reverted only) that regenerate the
   header.  NOT modelled: the header fields themselves (compared on the implementation), the other
   fields of the six transaction variants (script bytes, receipts root, witnesses, storage
   slots, upgrade purpose, mint/blob/upload bodies), receipts.

   A message is (variant tag, list of fields); a field is a number or a byte string.  The
   per-variant SCHEMA lists the fields in the order of the protobuf struct with, for every
   field, how the two conversions treat it:
     KNum fmax pmax : integer; fuel type has max fmax, proto type max pmax.  to_proto widens
                      (`u32::from`, `.into()`), from_proto narrows with a CHECK (`try_from`)
     KFix n         : fixed byte array (Bytes32, Address, AssetId, ContractId, Nonce) written
                      as bytes; from_proto checks the length (`try_from(slice)`)
     KVar           : Vec<u8>, copied
     KZeroNum / KEmptyBytes : proto-only field written as 0 / empty, ignored on the way back
   Executable definitions only. *)
From FC Require Export Common.T.
Open Scope N_scope.

Inductive fkind := KNum (fmax pmax : N) | KFix (n : nat) | KVar | KZeroNum | KEmptyBytes.
Inductive fval := VNum (n : N) | VBytes (b : list N).

Definition u16 := KNum u16max u32max.      (* u16 in fuel, u32 on the wire *)
Definition u32 := KNum u32max u32max.
Definition u64 := KNum u64max u64max.
Definition b32 := KFix 32.

Definition utxo := [b32; u16].             (* UtxoId { tx_id, output_index } *)
Definition txp := [u32; u16].              (* TxPointer { block_height, tx_index } *)

(* ProtoInput variants, fields in protobuf order *)
Definition input_schema (tag : N) : option (list fkind) :=
  match tag with
  | 0 => Some (utxo ++ [b32; u64; b32] ++ txp ++ [u16; KZeroNum; KEmptyBytes; KEmptyBytes])  (* CoinSigned *)
  | 1 => Some (utxo ++ [b32; u64; b32] ++ txp ++ [KZeroNum; u64; KVar; KVar])                (* CoinPredicate *)
  | 2 => Some (utxo ++ [b32; b32] ++ txp ++ [b32])                                           (* Contract *)
  | 3 => Some [b32; b32; u64; b32; u16; KZeroNum; KEmptyBytes; KEmptyBytes; KEmptyBytes]     (* MessageCoinSigned *)
  | 4 => Some [b32; b32; u64; b32; KZeroNum; u64; KEmptyBytes; KVar; KVar]                   (* MessageCoinPredicate *)
  | 5 => Some [b32; b32; u64; b32; u16; KZeroNum; KVar; KEmptyBytes; KEmptyBytes]            (* MessageDataSigned *)
  | 6 => Some [b32; b32; u64; b32; KZeroNum; u64; KVar; KVar; KVar]                          (* MessageDataPredicate *)
  | _ => None
  end.

Definition output_schema (tag : N) : option (list fkind) :=
  match tag with
  | 0 => Some [b32; u64; b32]          (* Coin { to, amount, asset_id } *)
  | 1 => Some [u16; b32; b32]          (* Contract { input_index, balance_root, state_root } *)
  | 2 => Some [b32; u64; b32]          (* Change *)
  | 3 => Some [b32; u64; b32]          (* Variable *)
  | 4 => Some [b32; b32]               (* ContractCreated { contract_id, state_root } *)
  | _ => None
  end.

(* fuel -> proto : one field list *)
Fixpoint to_proto_fields (ks : list fkind) (vs : list fval) : list fval :=
  match ks with
  | [] => []
  | KZeroNum :: kr => VNum 0 :: to_proto_fields kr vs
  | KEmptyBytes :: kr => VBytes [] :: to_proto_fields kr vs
  | _ :: kr => match vs with
               | v :: vr => v :: to_proto_fields kr vr
               | [] => []
               end
  end.

(* proto -> fuel : Some fields, or None = Error::Serialization *)
Fixpoint from_proto_fields (ks : list fkind) (ps : list fval) : option (list fval) :=
  match ks, ps with
  | [], [] => Some []
  | KNum fmax _ :: kr, VNum n :: pr =>
      if n <=? fmax then option_map (cons (VNum n)) (from_proto_fields kr pr) else None
  | KFix len :: kr, VBytes b :: pr =>
      if Nat.eqb (length b) len then option_map (cons (VBytes b)) (from_proto_fields kr pr) else None
  | KVar :: kr, VBytes b :: pr => option_map (cons (VBytes b)) (from_proto_fields kr pr)
  | KZeroNum :: kr, VNum _ :: pr => from_proto_fields kr pr
  | KEmptyBytes :: kr, VBytes _ :: pr => from_proto_fields kr pr
  | _, _ => None
  end.

(* well-formed fuel value of a schema: what the Rust types guarantee *)
Fixpoint wf_fields (ks : list fkind) (vs : list fval) : bool :=
  match ks with
  | [] => match vs with [] => true | _ => false end
  | KZeroNum :: kr | KEmptyBytes :: kr => wf_fields kr vs
  | KNum fmax pmax :: kr =>
      match vs with VNum n :: vr => (n <=? fmax) && (fmax <=? pmax) && wf_fields kr vr | _ => false end
  | KFix len :: kr =>
      match vs with VBytes b :: vr => Nat.eqb (length b) len && wf_fields kr vr | _ => false end
  | KVar :: kr =>
      match vs with VBytes _ :: vr => wf_fields kr vr | _ => false end
  end.

Definition msg := (N * list fval)%type.

Definition to_proto (schema : N -> option (list fkind)) (m : msg) : msg :=
  match schema (fst m) with
  | Some ks => (fst m, to_proto_fields ks (snd m))
  | None => m
  end.
Definition from_proto (schema : N -> option (list fkind)) (p : msg) : option msg :=
  match schema (fst p) with
  | Some ks => option_map (fun vs => (fst p, vs)) (from_proto_fields ks (snd p))
  | None => None
  end.
Definition wf_msg (schema : N -> option (list fkind)) (m : msg) : bool :=
  match schema (fst m) with Some ks => wf_fields ks (snd m) | None => false end.

(* ---- policies: Policies { bits, values: [u64; 6] } <-> ProtoPolicies { bits, values } ---- *)
Definition policies := list (option N).         (* Tip, WitnessLimit, Maturity, MaxFee, Expiration, Owner *)

Fixpoint pol_bits (i : N) (p : policies) : N :=
  match p with
  | [] => 0
  | o :: r => (match o with Some _ => 2 ^ i | None => 0 end) + pol_bits (i + 1) r
  end.
Definition pol_to_proto (p : policies) : N * list N :=
  (pol_bits 0 p, map (fun o => match o with Some v => v | None => 0 end) p).

Fixpoint pol_from (i : N) (n : nat) (bits : N) (values : list N) : policies :=
  match n with
  | O => []
  | S n' => (if N.testbit bits i then nth_error values (N.to_nat i) else None)
            :: pol_from (i + 1) n' bits values
  end.
(* None = the `expect` on PoliciesBits::from_bits panics (unknown bit set) *)
Definition pol_from_proto (bits : N) (values : list N) : option policies :=
  if bits <? 64 then Some (pol_from 0 6 bits values) else None.

Definition wf_policies (p : policies) : bool :=
  Nat.eqb (length p) 6 &&
  forallb (fun o => match o with Some v => v <=? u64max | None => true end) p.

(* ---- a Script transaction's modelled part ---- *)
Record stx := mkTx { t_pol : policies; t_in : list msg; t_out : list msg }.
Record ptx := mkPtx { p_bits : N; p_vals : list N; p_in : list msg; p_out : list msg }.

Definition tx_to_proto (t : stx) : ptx :=
  let '(b, v) := pol_to_proto (t_pol t) in
  mkPtx b v (map (to_proto input_schema) (t_in t)) (map (to_proto output_schema) (t_out t)).

Inductive res (A : Type) := ROk (a : A) | RErr | RPanic.
Arguments ROk {A} a. Arguments RErr {A}. Arguments RPanic {A}.

(* tx_from_proto_tx: policies first (may panic), then inputs, then outputs (first error wins) *)
Definition tx_from_proto (p : ptx) : res stx :=
  match pol_from_proto (p_bits p) (p_vals p) with
  | None => RPanic
  | Some pol =>
      match mapM (from_proto input_schema) (p_in p) with
      | None => RErr
      | Some ins =>
          match mapM (from_proto output_schema) (p_out p) with
          | None => RErr
          | Some outs => ROk (mkTx pol ins outs)
          end
      end
  end.

Definition wf_tx (t : stx) : bool :=
  wf_policies (t_pol t) && forallb (wf_msg input_schema) (t_in t) &&
  forallb (wf_msg output_schema) (t_out t).

(* ---- StorageDB::store_block ---- *)
(* current height (LatestBlock) -> requested height -> accepted? *)
Definition store_accepts (cur : option N) (h : N) : bool :=
  match cur with
  | None => true                                        (* first block: any height *)
  | Some c => match checked_add u32max c 1 with         (* current_height.succ() *)
              | None => true                            (* current = u32::MAX: no check at all *)
              | Some next => h =? next
              end
  end.
Definition store_block (cur : option N) (h : N) : option N * bool :=
  if store_accepts cur h then (Some h, true) else (cur, false).

Fixpoint store_run (cur : option N) (hs : list N) : list (bool * option N) :=
  match hs with
  | [] => []
  | h :: r => let '(c', ok) := store_block cur h in (ok, c') :: store_run c' r
  end.

(* Pcheck of the store part on an observed trace *)
Fixpoint store_okb (cur : option N) (hs : list N) (obs : list (bool * option N)) : bool :=
  match hs, obs with
  | [], [] => true
  | h :: r, (ok, c') :: o' =>
      Bool.eqb ok (store_accepts cur h) &&
      (match c', (if ok then Some h else cur) with
       | None, None => true
       | Some a, Some b => a =? b
       | _, _ => false
       end) && store_okb c' r o'
  | _, _ => false
  end.

(* ---- outbox message ids of a block (fuel_block_from_protobuf) ----
   The header's generated fields (message_receipt_count, message_outbox_root, hence the
   application hash and the block id) are not copied from the proto message: they are
   regenerated from the message ids recomputed from the decoded receipts.  A receipt is
   abstracted to what the rule looks at. *)
Inductive rkind := RcReturn | RcRevert | RcPanic | RcMessageOut (id : N) | RcScriptResult.

Definition is_revert (r : rkind) : bool :=        (* matches!(r, Receipt::Revert{..} | Receipt::Panic{..}) *)
  match r with RcRevert | RcPanic => true | _ => false end.
Definition message_id (r : rkind) : option N :=   (* r.message_id() *)
  match r with RcMessageOut id => Some id | _ => None end.
Fixpoint filter_map {A B} (f : A -> option B) (l : list A) : list B :=
  match l with
  | [] => []
  | x :: r => match f x with Some y => y :: filter_map f r | None => filter_map f r end
  end.

(* the loop of the code:  for receipts in &receipts { let reverted = receipts.iter().any(..);
                           if !reverted { msg_ids.extend(receipts.iter().filter_map(message_id)) } } *)
Fixpoint recompute_loop (msg_ids : list N) (rss : list (list rkind)) : list N :=
  match rss with
  | [] => msg_ids
  | rs :: r =>
      let reverted := existsb is_revert rs in
      recompute_loop (if reverted then msg_ids else msg_ids ++ filter_map message_id rs) r
  end.
Definition recomputed_ids (rss : list (list rkind)) : list N := recompute_loop [] rss.

(* what the block producer puts into the header: per transaction, the ids of its MessageOut
   receipts unless that very transaction reverted or panicked *)
Definition producer_ids (rss : list (list rkind)) : list N :=
  flat_map (fun rs => if existsb is_revert rs then [] else filter_map message_id rs) rss.

Definition T_rkind (t : T) : option rkind :=
  match t with
  | L [I 0%Z] => Some RcReturn | L [I 1%Z] => Some RcRevert | L [I 2%Z] => Some RcPanic
  | L [I 3%Z; id] => option_map RcMessageOut (getN id)
  | L [I 4%Z] => Some RcScriptResult
  | _ => None
  end.
Definition T_rss (t : T) : option (list (list rkind)) :=
  match getL t with
  | Some l => mapM (fun x => match getL x with Some rs => mapM T_rkind rs | None => None end) l
  | None => None
  end.

(* ---- T codecs ---- *)
Definition fval_T (v : fval) : T := match v with VNum n => tN n | VBytes b => tListN b end.
Definition T_fval (t : T) : option fval :=
  match t with
  | I _ => option_map VNum (getN t)
  | L _ => option_map VBytes (getListN t)
  end.
Definition msg_T (m : msg) : T := L [tN (fst m); L (map fval_T (snd m))].
Definition T_msg (t : T) : option msg :=
  match t with
  | L [tag; L fs] => match getN tag, mapM T_fval fs with
                     | Some tag, Some fs => Some (tag, fs)
                     | _, _ => None
                     end
  | _ => None
  end.
Definition T_policies (t : T) : option policies :=
  match getL t with Some l => mapM getOptN l | None => None end.
Definition policies_T (p : policies) : T := L (map tOptN p).

Definition T_stx (pol ins outs : T) : option stx :=
  match T_policies pol, getL ins, getL outs with
  | Some pol, Some ins, Some outs =>
      match mapM T_msg ins, mapM T_msg outs with
      | Some ins, Some outs => Some (mkTx pol ins outs)
      | _, _ => None
      end
  | _, _, _ => None
  end.
Definition ptx_T (p : ptx) : T :=
  L [tN (p_bits p); tListN (p_vals p); L (map msg_T (p_in p)); L (map msg_T (p_out p))].
Definition T_ptx (t : T) : option ptx :=
  match t with
  | L [b; v; L ins; L outs] =>
      match getN b, getListN v, mapM T_msg ins, mapM T_msg outs with
      | Some b, Some v, Some ins, Some outs => Some (mkPtx b v ins outs)
      | _, _, _, _ => None
      end
  | _ => None
  end.
Definition stx_T (t : stx) : T :=
  L [policies_T (t_pol t); L (map msg_T (t_in t)); L (map msg_T (t_out t))].
Definition res_T (r : res stx) : T :=
  match r with
  | ROk t => L [I 1; stx_T t]
  | RErr => L [I 0]
  | RPanic => L [I (-777)]
  end.

Definition fval_eqb (a b : fval) : bool := T_eqb (fval_T a) (fval_T b).
Definition stx_eqb (a b : stx) : bool := T_eqb (stx_T a) (stx_T b).

(* overrides of a proto message: set field [pos] of input/output [idx] (or bits when kind 2) *)
Definition set_field (m : msg) (pos : nat) (v : N) : msg :=
  (fst m, (fix go (l : list fval) (i : nat) :=
             match l, i with
             | [], _ => []
             | _ :: r, O => VNum v :: r
             | x :: r, S i' => x :: go r i'
             end) (snd m) pos).
Fixpoint set_msg (l : list msg) (idx pos : nat) (v : N) : list msg :=
  match l, idx with
  | [], _ => []
  | m :: r, O => set_field m pos v :: r
  | m :: r, S i' => m :: set_msg r i' pos v
  end.
Definition apply_override (p : ptx) (o : N * N * N * N) : ptx :=
  let '(kind, idx, pos, v) := o in
  match kind with
  | 0 => mkPtx (p_bits p) (p_vals p) (set_msg (p_in p) (N.to_nat idx) (N.to_nat pos) v) (p_out p)
  | 1 => mkPtx (p_bits p) (p_vals p) (p_in p) (set_msg (p_out p) (N.to_nat idx) (N.to_nat pos) v)
  | _ => mkPtx v (p_vals p) (p_in p) (p_out p)
  end.
Definition T_override (t : T) : option (N * N * N * N) :=
  match t with
  | L [a; b; c; d] => match getN a, getN b, getN c, getN d with
                      | Some a, Some b, Some c, Some d => Some (a, b, c, d)
                      | _, _, _, _ => None
                      end
  | _ => None
  end.

Definition T_store_obs (t : T) : option (bool * option N) :=
  match t with
  | L [ok; c] => match getB ok, getOptN c with
                 | Some ok, Some c => Some (ok, c)
                 | _, _ => None
                 end
  | _ => None
  end.

(* requests:
   (0 (heights))                       store sequence on an empty database
   (1 policies inputs outputs)         to_proto of a generated transaction; observed =
                                       (proto seen through the visitor, round-trip flag)
   (2 policies inputs outputs (overrides))   from_proto of the overridden proto message
   (3 height ((receipts of tx 0) (receipts of tx 1) ..))   whole-block round trip *)
Definition main43 (input observed : T) : T :=
  match input with
  | L [I 0%Z; hs] =>
      match getListN hs with
      | Some hs =>
          let model := L (map (fun oc => L [tB (fst oc); tOptN (snd oc)]) (store_run None hs)) in
          let pc := match observed with
                    | L obs => match mapM T_store_obs obs with
                               | Some obs => store_okb None hs obs
                               | None => false
                               end
                    | _ => false
                    end in
          L [model; tB pc]
      | None => tErr 2
      end
  | L [I 1%Z; pol; ins; outs] =>
      match T_stx pol ins outs with
      | Some t =>
          let model := L [ptx_T (tx_to_proto t); tB true] in
          (* Pcheck: the implementation's own round trip succeeded, and the MODEL's
             from_proto applied to the IMPLEMENTATION's proto message gives the input back *)
          let pc := match observed with
                    | L [p; I 1%Z] =>
                        match T_ptx p with
                        | Some p => match tx_from_proto p with
                                    | ROk t' => negb (wf_tx t) || stx_eqb t t'
                                    | _ => negb (wf_tx t)
                                    end
                        | None => false
                        end
                    | _ => false
                    end in
          L [model; tB pc]
      | None => tErr 3
      end
  | L [I 2%Z; pol; ins; outs; L ovs] =>
      match T_stx pol ins outs, mapM T_override ovs with
      | Some t, Some ovs =>
          let p := fold_left apply_override ovs (tx_to_proto t) in
          let model := res_T (tx_from_proto p) in
          L [model; tB (T_eqb model observed)]
      | _, _ => tErr 4
      end
  | L [I 3%Z; height; rss] =>
      (* whole block through the real convert_block / fuel_block_from_protobuf: observed =
         (ok, block equal, receipts equal, original message_receipt_count, round-tripped
          message_receipt_count, message_outbox_root equal, block id equal) *)
      match getN height, T_rss rss with
      | Some _, Some rss =>
          let c := tN (N.of_nat (length (recomputed_ids rss))) in
          let model := L [tB true; tB true; tB true; c; c; tB true; tB true] in
          L [model; tB (T_eqb model observed)]
      | _, _ => tErr 5
      end
  | _ => tErr 1
  end.

Definition main_T (req : T) : T :=
  match req with
  | L [I 43%Z; input; observed] => main43 input observed
  | _ => tErr 0
  end.
