(* Property theorems of the Aggr cluster (C43). Nothing but statements, [exact], and
   Print Assumptions. *)
From FC Require Import Aggr.Model Aggr.Proofs.
Open Scope N_scope.

(* from_proto (to_proto x) = Ok x for the modelled part of a transaction: policies, every
   input (all 7 variants: CoinSigned, CoinPredicate, Contract, MessageCoinSigned,
   MessageCoinPredicate, MessageDataSigned, MessageDataPredicate; UtxoId and TxPointer inlined)
   and every output (all 5 variants), with the u16/u32 -> u32/u64 widenings and the checked
   narrowings.  wf_tx = what the Rust types guarantee (numbers fit the fuel field's width,
   fixed arrays have their length, 6 policy slots).
   NOT covered: block header, the remaining fields of the six transaction variants, receipts. *)
Theorem from_proto_to_proto : forall t, wf_tx t = true -> tx_from_proto (tx_to_proto t) = ROk t.
Proof. exact tx_roundtrip. Qed.
Print Assumptions from_proto_to_proto.

Theorem from_proto_to_proto_message : forall schema m, wf_msg schema m = true ->
  from_proto schema (to_proto schema m) = Some m.
Proof. exact msg_roundtrip. Qed.
Print Assumptions from_proto_to_proto_message.

(* a proto integer that does not fit the fuel field is rejected, never truncated *)
Theorem narrowing_is_checked : forall fmax pmax kr n pr, fmax < n ->
  from_proto_fields (KNum fmax pmax :: kr) (VNum n :: pr) = None.
Proof. exact narrowing_checked. Qed.
Print Assumptions narrowing_is_checked.

(* StorageDB::store_block: a block is accepted iff it is the first one, or the current height
   is u32::MAX (succ() is None: the code then accepts ANY height -- stated as the code has it),
   or its height is current + 1; along every sequence of stores. *)
Theorem store_contiguous : forall hs cur,
  (forall c, cur = Some c -> c <= u32max) -> Forall (fun h => h <= u32max) hs ->
  contig cur hs.
Proof. exact store_run_contiguous. Qed.
Print Assumptions store_contiguous.

Theorem store_accepts_iff : forall cur h,
  (forall c, cur = Some c -> c <= u32max) ->
  (store_accepts cur h = true <->
   cur = None \/ cur = Some u32max \/ exists c, cur = Some c /\ h = c + 1).
Proof. exact store_accepts_spec. Qed.
Print Assumptions store_accepts_iff.

(* the store checker evaluated on the implementation's trace means "equal to the model's run" *)
Theorem store_checker_sound : forall hs cur obs,
  store_okb cur hs obs = true <-> obs = store_run cur hs.
Proof. exact store_okb_sound. Qed.
Print Assumptions store_checker_sound.

(* fuel_block_from_protobuf regenerates the header (message_receipt_count, message_outbox_root,
   application hash, block id) from recomputed outbox message ids: for EVERY assignment of
   receipts to transactions the ids recomputed by the loop of the code are the producer's
   (per transaction: the MessageOut ids unless that very transaction reverted or panicked). *)
Theorem outbox_ids_recomputed : forall rss, recomputed_ids rss = producer_ids rss.
Proof. exact recomputed_ids_producer. Qed.
Print Assumptions outbox_ids_recomputed.
