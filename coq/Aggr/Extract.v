From FC Require Import Aggr.Model.
Require Extraction.
Require Import ExtrOcamlBasic.
Extraction "aggr_model.ml" main_T.
