(* C43: proofs about the conversion model and the store rule (Aggr/Model.v). *)
From FC Require Import Aggr.Model.
From Coq Require Import ZifyBool ZifyN ZifyNat Lia.
Open Scope N_scope.

Lemma fields_roundtrip : forall ks vs, wf_fields ks vs = true ->
  from_proto_fields ks (to_proto_fields ks vs) = Some vs.
Proof.
  induction ks as [|k ks IH]; intros vs H.
  - destruct vs; [reflexivity|discriminate].
  - destruct k as [fmax pmax|len| | |]; cbn [wf_fields to_proto_fields from_proto_fields] in *.
    + destruct vs as [|[n|b] vr]; try discriminate.
      apply andb_true_iff in H. destruct H as [H H3]. apply andb_true_iff in H. destruct H as [H1 H2].
      cbn [from_proto_fields]. rewrite H1. rewrite (IH _ H3). reflexivity.
    + destruct vs as [|[n|b] vr]; try discriminate.
      apply andb_true_iff in H. destruct H as [H1 H2].
      cbn [from_proto_fields]. rewrite H1. rewrite (IH _ H2). reflexivity.
    + destruct vs as [|[n|b] vr]; try discriminate.
      cbn [from_proto_fields]. rewrite (IH _ H). reflexivity.
    + apply IH. exact H.
    + apply IH. exact H.
Qed.

Lemma msg_roundtrip : forall schema m, wf_msg schema m = true ->
  from_proto schema (to_proto schema m) = Some m.
Proof.
  intros schema [tag vs] H. unfold wf_msg, to_proto, from_proto in *. cbn [fst snd] in *.
  destruct (schema tag) as [ks|] eqn:E; [|discriminate].
  cbn [fst snd]. rewrite E. rewrite (fields_roundtrip _ _ H). reflexivity.
Qed.

Lemma mapM_roundtrip : forall schema ms, forallb (wf_msg schema) ms = true ->
  mapM (from_proto schema) (map (to_proto schema) ms) = Some ms.
Proof.
  induction ms as [|m ms IH]; intro H; [reflexivity|].
  cbn [forallb] in H. apply andb_true_iff in H. destruct H as [H1 H2].
  cbn [map mapM]. rewrite (msg_roundtrip _ _ H1), (IH H2). reflexivity.
Qed.

Lemma policies_roundtrip : forall p, length p = 6%nat ->
  pol_from_proto (fst (pol_to_proto p)) (snd (pol_to_proto p)) = Some p.
Proof.
  intros p H.
  destruct p as [|a [|b [|c [|d [|e [|f [|g p]]]]]]]; try discriminate.
  destruct a, b, c, d, e, f; reflexivity.
Qed.

Lemma tx_roundtrip : forall t, wf_tx t = true -> tx_from_proto (tx_to_proto t) = ROk t.
Proof.
  intros [pol ins outs] H. unfold wf_tx in H. cbn [t_pol t_in t_out] in H.
  apply andb_true_iff in H. destruct H as [H Ho]. apply andb_true_iff in H. destruct H as [Hp Hi].
  unfold wf_policies in Hp. apply andb_true_iff in Hp. destruct Hp as [Hl _].
  apply Nat.eqb_eq in Hl.
  unfold tx_to_proto, tx_from_proto. cbn [t_pol t_in t_out].
  pose proof (policies_roundtrip pol Hl) as Hr.
  destruct (pol_to_proto pol) as [b v]. cbn [fst snd p_bits p_vals p_in p_out] in *.
  rewrite Hr. rewrite (mapM_roundtrip _ _ Hi), (mapM_roundtrip _ _ Ho). reflexivity.
Qed.

(* every schema entry widens: fuel max <= proto max, so to_proto never truncates *)
Definition widening (k : fkind) : bool :=
  match k with KNum fmax pmax => fmax <=? pmax | _ => true end.
Lemma schemas_widen :
  forallb (fun tag => match input_schema tag with Some ks => forallb widening ks | None => true end)
          [0;1;2;3;4;5;6;7] = true /\
  forallb (fun tag => match output_schema tag with Some ks => forallb widening ks | None => true end)
          [0;1;2;3;4;5] = true.
Proof. split; vm_compute; reflexivity. Qed.

(* narrowing is checked: a proto number above the fuel maximum is an error, never truncated *)
Lemma narrowing_checked : forall fmax pmax kr n pr, fmax < n ->
  from_proto_fields (KNum fmax pmax :: kr) (VNum n :: pr) = None.
Proof.
  intros. cbn [from_proto_fields]. destruct (N.leb_spec n fmax); [lia|reflexivity].
Qed.

(* ---- store ---- *)
Lemma store_accepts_spec : forall cur h,
  (forall c, cur = Some c -> c <= u32max) ->
  (store_accepts cur h = true <->
   cur = None \/ cur = Some u32max \/ exists c, cur = Some c /\ h = c + 1).
Proof.
  intros cur h Hb. unfold store_accepts, checked_add.
  destruct cur as [c|].
  - specialize (Hb c eq_refl). destruct (N.leb_spec (c + 1) u32max).
    + rewrite N.eqb_eq. split.
      * intro. right. right. exists c. auto.
      * intros [H1|[H1|(c' & H1 & H2)]]; try discriminate.
        -- inversion H1. unfold u32max in *. lia.
        -- inversion H1. subst. reflexivity.
    + split; [|reflexivity]. intro. right. left. f_equal. unfold u32max in *. lia.
  - split; [left; reflexivity|reflexivity].
Qed.

Lemma store_block_state : forall cur h,
  fst (store_block cur h) = if snd (store_block cur h) then Some h else cur.
Proof. intros. unfold store_block. destruct (store_accepts cur h); reflexivity. Qed.

Definition oN_eqb (a b : option N) : bool :=
  match a, b with None, None => true | Some x, Some y => x =? y | _, _ => false end.

Lemma store_okb_sound : forall hs cur obs,
  store_okb cur hs obs = true <-> obs = store_run cur hs.
Proof.
  induction hs as [|h hs IH]; intros cur obs.
  - destruct obs; cbn; split; intro; try reflexivity; try discriminate.
  - destruct obs as [|[ok c'] obs]; cbn [store_okb store_run].
    + split; [discriminate|]. unfold store_block. destruct (store_accepts cur h); discriminate.
    + unfold store_block. rewrite !andb_true_iff, IH.
      destruct (store_accepts cur h) eqn:E.
      * split.
        -- intros [[H1 H2] H3]. destruct ok; [|discriminate].
           destruct c' as [c'|]; [|discriminate]. apply N.eqb_eq in H2. subst. reflexivity.
        -- intro H. inversion H; subst. repeat split; auto. apply N.eqb_refl.
      * split.
        -- intros [[H1 H2] H3]. destruct ok; [discriminate|].
           destruct c' as [c'|], cur as [c|]; try discriminate;
             try (apply N.eqb_eq in H2); subst; reflexivity.
        -- intro H. inversion H; subst. repeat split; auto.
           destruct cur; [apply N.eqb_refl|reflexivity].
Qed.

Lemma store_block_ok : forall cur h, snd (store_block cur h) = store_accepts cur h.
Proof. intros. unfold store_block. destruct (store_accepts cur h); reflexivity. Qed.

(* heights of a whole run: every store is accepted exactly when it is the first block, or the
   height counter is exhausted, or it extends the current height by one *)
Fixpoint contig (cur : option N) (hs : list N) : Prop :=
  match hs with
  | [] => True
  | h :: r =>
      (snd (store_block cur h) = true <->
       cur = None \/ cur = Some u32max \/ exists c, cur = Some c /\ h = c + 1) /\
      contig (fst (store_block cur h)) r
  end.

Lemma store_run_contiguous : forall hs cur,
  (forall c, cur = Some c -> c <= u32max) -> Forall (fun h => h <= u32max) hs ->
  contig cur hs.
Proof.
  induction hs as [|h hs IH]; intros cur Hb Hf; cbn [contig]; [exact Logic.I|].
  inversion Hf; subst. split.
  - rewrite store_block_ok. apply store_accepts_spec. exact Hb.
  - apply IH; auto. intros c Hc. rewrite store_block_state in Hc.
    destruct (snd (store_block cur h)); [inversion Hc; subst; auto|apply Hb; exact Hc].
Qed.

(* non-vacuity: a well-formed transaction with a predicate coin input and a contract output *)
Definition b32v (x : N) : fval := VBytes (repeat x 32).
Example demo43 :
  let t := mkTx [Some 5; None; Some 7; None; None; Some 1]
                [(1, [b32v 1; VNum 65535; b32v 2; VNum 9; b32v 3; VNum 4294967295; VNum 65535;
                      VNum 77; VBytes [1;2;3]; VBytes []])]
                [(1, [VNum 65535; b32v 4; b32v 5])] in
  wf_tx t = true /\ tx_from_proto (tx_to_proto t) = ROk t /\
  tx_from_proto (apply_override (tx_to_proto t) (0, 0, 1, 65536)) = RErr /\
  tx_from_proto (apply_override (tx_to_proto t) (2, 0, 0, 64)) = RPanic.
Proof. vm_compute. repeat split; reflexivity. Qed.

(* ---------- outbox message ids ---------- *)
Lemma recompute_loop_spec : forall rss acc, recompute_loop acc rss = acc ++ producer_ids rss.
Proof.
  induction rss as [|rs rss IH]; intro acc; cbn [recompute_loop producer_ids flat_map].
  - symmetry. apply app_nil_r.
  - rewrite IH. fold (producer_ids rss). destruct (existsb is_revert rs).
    + reflexivity.
    + rewrite app_assoc. reflexivity.
Qed.

Lemma recomputed_ids_producer : forall rss, recomputed_ids rss = producer_ids rss.
Proof. intro rss. unfold recomputed_ids. apply recompute_loop_spec. Qed.

(* HISTORY / what the rule must not be: the revert test hoisted over the whole block (one
   reverted transaction suppresses the messages of every other one) differs from the producer
   as soon as one transaction reverts and another one sends a message *)
Definition hoisted_ids (rss : list (list rkind)) : list N :=
  if existsb is_revert (concat rss) then [] else filter_map message_id (concat rss).
Example hoisted_ids_differs :
  producer_ids [[RcMessageOut 1; RcScriptResult]; [RcRevert; RcScriptResult]] = [1] /\
  hoisted_ids [[RcMessageOut 1; RcScriptResult]; [RcRevert; RcScriptResult]] = [].
Proof. split; reflexivity. Qed.
