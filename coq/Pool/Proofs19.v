(* C19: admission. *)
From FC Require Import Pool.Model Pool.ProofsBase Pool.ProofsCore Pool.ProofsRemoval Pool.ProofsOps Pool.ProofsInsert.
From Coq Require Import ZifyBool ZifyN ZifyNat.
Open Scope N_scope.

(* a rejected insertion leaves the pool untouched *)
Lemma insert_error_unchanged : forall p d t p' r, pool_insert p d t = (p', r) -> r <> IOk -> p' = p.
Proof.
  intros p d t p' r H Hr. unfold pool_insert in H.
  destruct (lru_mem (KTx (t_id t)) (s_lru (p_spent p)) || memN (t_id t) (d_txs d)).
  - inversion H; reflexivity.
  - destruct (can_insert_transaction p d t); inversion H; subst; [congruence | reflexivity].
Qed.

(* what a successful validate_inputs establishes for every input *)
Definition input_ok (g : graph) (d : db) (e : extracted) (s : spent) (uv : bool) (i : input) : Prop :=
  match i with
  | ICoin u ow am asid =>
      match aget utxo_eqb u (g_coins g) with
      | Some nid => exists n o, get_node g nid = Some n /\
                                nth_error (t_outs (n_tx n)) (N.to_nat (snd u)) = Some o /\
                                check_spend o ow am asid = None
      | None => uv = true ->
                lru_mem (KUtxo u) (s_lru s) = false /\
                (aget utxo_eqb u (d_coins d) = Some (ow, am, asid) \/
                 (aget utxo_eqb u (d_coins d) = None /\ coin_exists e u ow am asid = true))
      end
  | IMsg n am => uv = true -> lru_mem (KMsg n) (s_lru s) = false /\ aget N.eqb n (d_msgs d) = Some am
  | IContract cid => amem N.eqb cid (g_contracts g) = true \/ memN cid (d_contracts d) = true \/
                     contract_exists e cid = true
  end.

Lemma validate_missing_not_ok : forall g d e s uv ins b, validate_inputs g d e s uv ins (Some b) <> VOk.
Proof.
  intros g d e s uv. induction ins as [|i r IH]; intros b; cbn [validate_inputs]; [discriminate|].
  destruct i as [u ow am asid | n am | cid].
  - destruct (aget utxo_eqb u (g_coins g)) as [nid|].
    + destruct (get_node g nid) as [nd|]; [|discriminate].
      destruct (nth_error (t_outs (n_tx nd)) (N.to_nat (snd u))) as [o|]; [|discriminate].
      destruct (check_spend o ow am asid); [discriminate | apply IH].
    + destruct uv; [|apply IH].
      destruct (lru_mem (KUtxo u) (s_lru s)); [discriminate|].
      destruct (aget utxo_eqb u (d_coins d)) as [[[o a'] s']|].
      * destruct ((o =? ow) && (a' =? am) && (s' =? asid)); [apply IH | discriminate].
      * destruct (coin_exists e u ow am asid); apply IH.
  - destruct uv; [|apply IH].
    destruct (lru_mem (KMsg n) (s_lru s)); [discriminate|].
    destruct (aget N.eqb n (d_msgs d)) as [a'|]; [|discriminate].
    destruct (a' =? am); [apply IH | discriminate].
  - destruct (amem N.eqb cid (g_contracts g)); [apply IH|].
    destruct (memN cid (d_contracts d)); [apply IH|].
    destruct (contract_exists e cid); apply IH.
Qed.

Lemma validate_ok : forall g d e s uv ins, validate_inputs g d e s uv ins None = VOk ->
  Forall (input_ok g d e s uv) ins.
Proof.
  intros g d e s uv. induction ins as [|i r IH]; intros H; [constructor|].
  cbn [validate_inputs] in H. destruct i as [u ow am asid | n am | cid].
  - destruct (aget utxo_eqb u (g_coins g)) as [nid|] eqn:Eg.
    + destruct (get_node g nid) as [nd|] eqn:En; [|discriminate].
      destruct (nth_error (t_outs (n_tx nd)) (N.to_nat (snd u))) as [o|] eqn:Eo; [|discriminate].
      destruct (check_spend o ow am asid) eqn:Ec; [discriminate|].
      constructor; [|apply IH; exact H]. unfold input_ok. rewrite Eg. exists nd, o. repeat split; assumption.
    + destruct uv.
      * destruct (lru_mem (KUtxo u) (s_lru s)) eqn:El; [discriminate|].
        destruct (aget utxo_eqb u (d_coins d)) as [[[o a'] s']|] eqn:Ed.
        -- destruct ((o =? ow) && (a' =? am) && (s' =? asid)) eqn:Em; [|discriminate].
           constructor; [|apply IH; exact H]. unfold input_ok. rewrite Eg. intros _. split; [exact El|].
           left. apply andb_true_iff in Em. destruct Em as [Em E3]. apply andb_true_iff in Em. destruct Em as [E1 E2].
           apply N.eqb_eq in E1, E2, E3. subst. exact Ed.
        -- destruct (coin_exists e u ow am asid) eqn:Ee.
           ++ constructor; [|apply IH; exact H]. unfold input_ok. rewrite Eg. intros _. split; [exact El|].
              right. split; [exact Ed | exact Ee].
           ++ exfalso. eapply validate_missing_not_ok. exact H.
      * constructor; [|apply IH; exact H]. unfold input_ok. rewrite Eg. discriminate.
  - destruct uv.
    + destruct (lru_mem (KMsg n) (s_lru s)) eqn:El; [discriminate|].
      destruct (aget N.eqb n (d_msgs d)) as [a'|] eqn:Ed; [|discriminate].
      destruct (a' =? am) eqn:Em; [|discriminate]. apply N.eqb_eq in Em. subst.
      constructor; [|apply IH; exact H]. unfold input_ok. intros _. split; [exact El | exact Ed].
    + constructor; [|apply IH; exact H]. unfold input_ok. discriminate.
  - destruct (amem N.eqb cid (g_contracts g)) eqn:E1.
    { constructor; [|apply IH; exact H]. unfold input_ok. left. exact E1. }
    destruct (memN cid (d_contracts d)) eqn:E2.
    { constructor; [|apply IH; exact H]. unfold input_ok. right. left. exact E2. }
    destruct (contract_exists e cid) eqn:E3.
    { constructor; [|apply IH; exact H]. unfold input_ok. right. right. exact E3. }
    exfalso. eapply validate_missing_not_ok. exact H.
Qed.

(* everything an accepted insertion implies *)
Definition Admissible (p : pool) (d : db) (t : tx) : Prop :=
  t_gas t <> 0 /\
  amem N.eqb (t_id t) (p_txmap p) = false /\
  lru_mem (KTx (t_id t)) (s_lru (p_spent p)) = false /\
  memN (t_id t) (d_txs d) = false /\
  (forall b, t_blob t = Some b -> memN b (d_blobs d) = false) /\
  Forall (input_ok (p_g p) d (p_eo p) (p_spent p) (cfg_utxo_validation (p_cfg p))) (t_ins t) /\
  exists colls, find_collisions (p_cm p) t = Good colls /\
    (* strictly better tip/gas ratio than every collided subtree *)
    (forall c, In c colls -> exists n, get_node (p_g p) c = Some n /\
                 n_ctip n * t_gas t < t_tip t * n_cgas n).

Lemma can_insert_not_ok : forall p d t, can_insert_transaction p d t <> inr IOk.
Proof.
  intros p d t. unfold can_insert_transaction.
  destruct (t_gas t =? 0); [discriminate|].
  destruct (amem N.eqb (t_id t) (p_txmap p)); [discriminate|].
  destruct (match t_blob t with Some b => memN b (d_blobs d) | None => false end); [discriminate|].
  destruct (validate_inputs (p_g p) d (p_eo p) (p_spent p) (cfg_utxo_validation (p_cfg p)) (t_ins t) None);
    try discriminate.
  destruct (find_collisions (p_cm p) t) as [colls|]; [|discriminate].
  destruct (can_store (p_g p) (cfg_max_chain (p_cfg p)) t) as [[direct all]|]; [|discriminate].
  destruct (existsb (fun c => memN c all) colls); [discriminate|].
  destruct (check_collision_requirements (p_g p) t match all with [] => false | _ => true end colls); [discriminate|].
  match goal with |- (if ?b then _ else _) <> _ => destruct b end; [discriminate|].
  destruct (match all with [] => false | _ => true end); [discriminate|].
  match goal with |- match ?x with _ => _ end <> _ => destruct x end; discriminate.
Qed.

Lemma insert_accept_facts : forall p d t p', pool_insert p d t = (p', IOk) ->
  Admissible p d t /\
  exists ci, can_insert_transaction p d t = inl ci /\ p' = do_insert p t ci.
Proof.
  intros p d t p' H. unfold pool_insert in H.
  destruct (lru_mem (KTx (t_id t)) (s_lru (p_spent p)) || memN (t_id t) (d_txs d)) eqn:E0; [inversion H|].
  apply orb_false_iff in E0. destruct E0 as [E01 E02].
  destruct (can_insert_transaction p d t) as [ci|e] eqn:E;
    [|inversion H; subst; exfalso; exact (can_insert_not_ok _ _ _ E)].
  inversion H; subst. split; [|exists ci; split; reflexivity].
  unfold can_insert_transaction in E.
  destruct (t_gas t =? 0) eqn:Eg; [discriminate|]. apply N.eqb_neq in Eg.
  destruct (amem N.eqb (t_id t) (p_txmap p)) eqn:Em; [discriminate|].
  destruct (match t_blob t with Some b => memN b (d_blobs d) | None => false end) eqn:Eb; [discriminate|].
  destruct (validate_inputs (p_g p) d (p_eo p) (p_spent p) (cfg_utxo_validation (p_cfg p)) (t_ins t) None) eqn:Ev;
    try discriminate.
  destruct (find_collisions (p_cm p) t) as [colls|] eqn:Ef; [|discriminate].
  destruct (can_store (p_g p) (cfg_max_chain (p_cfg p)) t) as [[direct all]|]; [|discriminate].
  destruct (existsb (fun c => memN c all) colls); [discriminate|].
  destruct (check_collision_requirements (p_g p) t match all with [] => false | _ => true end colls) eqn:Ec; [discriminate|].
  unfold Admissible. split; [exact Eg|]. split; [exact Em|]. split; [exact E01|]. split; [exact E02|].
  split; [|split].
  - intros b Hb. rewrite Hb in Eb. exact Eb.
  - apply validate_ok. exact Ev.
  - exists colls. split; [exact Ef|]. intros c Hc.
    unfold check_collision_requirements in Ec.
    destruct (match all with [] => false | _ => true end && (1 <? lenN colls)); [discriminate|].
    destruct (forallb _ colls) eqn:Ea; [|discriminate].
    rewrite forallb_forall in Ea. specialize (Ea c Hc).
    destruct (get_node (p_g p) c) as [n|]; [|discriminate]. exists n. split; [reflexivity|].
    unfold ratio_gtb, ratio_ltb in Ea. lia.
Qed.

(* the collided transactions are gone after an accepted insertion, the new one is stored *)
Lemma insert_evicts_collisions : forall p d t p', CoreInv p -> pool_insert p d t = (p', IOk) ->
  In t (txs (p_g p')) /\
  forall colls, find_collisions (p_cm p) t = Good colls ->
    forall c, In c colls -> c <> t_id t -> ~ In c (tids (txs (p_g p'))).
Proof.
  intros p d t p' [HC _] H. destruct (insert_accept_facts _ _ _ _ H) as [_ [ci [E1 E2]]].
  destruct (can_insert_facts _ _ _ _ E1) as [F1 F2]. subst p'.
  unfold do_insert.
  fold (rsu_fold (ci_remove ci ++ ci_collisions ci) (p, [])).
  destruct (rsu_fold_core (ci_remove ci ++ ci_collisions ci) p [] HC) as [C1 [C2 C3]].
  destruct (rsu_fold (ci_remove ci ++ ci_collisions ci) (p, [])) as [p1 removed]. cbn [fst] in *.
  unfold update_stats. cbn [p_g]. rewrite store_txs. split.
  - apply in_or_app. right. left. reflexivity.
  - intros colls Hf c Hc Hne. rewrite F2 in Hf. inversion Hf; subst colls.
    unfold tids. rewrite map_app. cbn [map]. intros Hin. apply in_app_or in Hin.
    destruct Hin as [Hin|[Hin|[]]]; [|congruence].
    apply (C2 c); [apply in_or_app; right; exact Hc | exact Hin].
Qed.

(* ---- the spent-inputs LRU ---- *)
Lemma lru_mem_In : forall k l, lru_mem k l = true <-> In k l.
Proof.
  unfold lru_mem. intros k l. rewrite existsb_exists. split.
  - intros [y [H1 H2]]. destruct k, y; cbn [key_eqb] in H2; try discriminate.
    + apply N.eqb_eq in H2. subst. exact H1.
    + apply utxo_eqb_eq in H2. subst. exact H1.
    + apply N.eqb_eq in H2. subst. exact H1.
  - intros H. exists k. split; [exact H|]. destruct k; cbn [key_eqb]; [apply N.eqb_refl | apply utxo_eqb_refl | apply N.eqb_refl].
Qed.

Lemma key_eqb_eq : forall a b, key_eqb a b = true <-> a = b.
Proof.
  intros a b. destruct a, b; cbn [key_eqb]; split; intros H; try discriminate; try (inversion H; fail).
  - apply N.eqb_eq in H. subst. reflexivity.
  - inversion H. apply N.eqb_refl.
  - apply utxo_eqb_eq in H. subst. reflexivity.
  - inversion H. apply utxo_eqb_refl.
  - apply N.eqb_eq in H. subst. reflexivity.
  - inversion H. apply N.eqb_refl.
Qed.

Lemma take_all {A} : forall n (l : list A), (length l <= n)%nat -> take n l = l.
Proof.
  induction n as [|n IH]; intros l H; destruct l as [|x r]; cbn [take length] in *; try reflexivity; try lia.
  f_equal. apply IH. lia.
Qed.

Lemma lru_pop_length : forall k l, (length (lru_pop k l) <= length l)%nat.
Proof.
  intros. unfold lru_pop. induction l as [|x r IH]; cbn [filter length]; [lia|].
  destruct (negb (key_eqb x k)); cbn [length]; lia.
Qed.

(* a put does not evict while the cache is not full *)
Lemma lru_put_keeps : forall cap k k' l, lenN l < cap -> In k l -> In k (lru_put cap k' l).
Proof.
  intros cap k k' l Hlen Hin. unfold lru_put.
  rewrite take_all.
  - destruct (key_eqb k k') eqn:E.
    + apply key_eqb_eq in E. subst. left. reflexivity.
    + right. unfold lru_pop. apply filter_In. split; [exact Hin|].
      destruct (key_eqb k k') eqn:E2; [congruence | reflexivity].
  - cbn [length]. pose proof (lru_pop_length k' l). unfold lenN in Hlen. lia.
Qed.

Lemma lru_put_new : forall cap k l, 0 < cap -> In k (lru_put cap k l).
Proof.
  intros cap k l H. unfold lru_put. destruct (N.to_nat cap) eqn:E; [lia|]. cbn [take]. left. reflexivity.
Qed.

Lemma lru_put_length : forall cap k l, lenN l < cap -> lenN (lru_put cap k l) <= lenN l + 1.
Proof.
  intros cap k l H. unfold lru_put. rewrite take_all.
  - unfold lenN. cbn [length]. pose proof (lru_pop_length k l). lia.
  - cbn [length]. pose proof (lru_pop_length k l). unfold lenN in H. lia.
Qed.

(* extraction records every key of the handed-out transaction when there is room for them *)
Lemma puts_keep : forall cap ks l k, lenN l + lenN ks <= cap -> In k l -> In k (puts cap ks l).
Proof.
  intros cap. unfold puts. induction ks as [|x r IH]; intros l k Hlen Hin; cbn [fold_left]; [exact Hin|].
  unfold lenN in *. cbn [length] in Hlen. apply IH.
  - pose proof (lru_put_length cap x l). unfold lenN in H. lia.
  - apply lru_put_keeps; [unfold lenN; lia | exact Hin].
Qed.

Lemma puts_length : forall cap ks l, lenN l + lenN ks <= cap -> lenN (puts cap ks l) <= lenN l + lenN ks.
Proof.
  intros cap. unfold puts. induction ks as [|x r IH]; intros l Hlen; cbn [fold_left].
  - unfold lenN. cbn [length]. lia.
  - unfold lenN in *. cbn [length] in *.
    pose proof (lru_put_length cap x l). unfold lenN in H.
    specialize (IH (lru_put cap x l)). lia.
Qed.

Lemma puts_record : forall cap ks l k, lenN l + lenN ks <= cap -> In k ks -> In k (puts cap ks l).
Proof.
  intros cap. induction ks as [|x r IH]; intros l k Hlen Hin; [destruct Hin|].
  unfold puts in *. cbn [fold_left]. unfold lenN in *. cbn [length] in Hlen.
  pose proof (lru_put_length cap x l) as HL. unfold lenN in HL.
  destruct Hin as [E|Hin].
  - subst x. apply (puts_keep cap r (lru_put cap k l) k); [unfold lenN; lia|].
    apply lru_put_new. lia.
  - apply IH; [lia | exact Hin].
Qed.

Lemma maybe_spend_records : forall s id ins k,
  lenN (s_lru s) + lenN (input_keys ins) + 1 <= s_cap s ->
  In k (KTx id :: input_keys ins) -> In k (s_lru (maybe_spend_inputs s id ins)).
Proof.
  intros s id ins k Hlen Hin. unfold maybe_spend_inputs. cbn [s_lru].
  pose proof (puts_length (s_cap s) (input_keys ins) (s_lru s)) as HL.
  destruct Hin as [E|Hin].
  - subst k. apply lru_put_new. lia.
  - apply lru_put_keeps; [lia|]. apply puts_record; [lia | exact Hin].
Qed.

(* ---- the refutation of the unconditional statement (finding P1) ---- *)
(* model-level trace check: the insertion checks of C19 evaluated on the model's own run *)
Fixpoint model_trace (w : worker) (ops : list op) : list tstep :=
  match ops with
  | [] => []
  | o :: r =>
      let '(w', res) := step w o in
      mkStep w o (match res with RInsert IOk => true | _ => false end)
             (match res with RExtract ns => map n_id ns | _ => match o with OpBlock _ ids => ids | _ => [] end end)
             [] [] w' :: model_trace w' r
  end.

Definition p1_db : db := mkDb [((100, 0), (1, 10, 1)); ((101, 0), (1, 10, 1))] [] [] [] [].
Definition p1_t1 : tx := mkTx 1 [ICoin (100, 0) 1 10 1; ICoin (101, 0) 1 10 1] [] None 5 10 1 10.
Definition p1_t2 : tx := mkTx 2 [ICoin (100, 0) 1 10 1] [] None 5 10 1 10.
Definition p1_ops : list op := [OpInsert p1_t1; OpExtract (mkCons 0 100 10 100 []); OpInsert p1_t2].
Definition p1_cfg : config := mkCfg 1 100 100 3 true.

(* max_txs = 1, LRU capacity 2: extracting t1 (two coin inputs) puts three keys, the first coin is
   evicted at once; t2 spending that coin - handed out, not settled - is then accepted *)
Example p1_witness :
  check19 [] (model_trace (worker_new p1_cfg p1_db 0) p1_ops) = false /\
  map snd (run (worker_new p1_cfg p1_db 0) p1_ops) =
    [RInsert IOk;
     RExtract [mkNode p1_t1 5 10 10 1 0];
     RInsert IOk].
Proof. vm_compute. split; reflexivity. Qed.
