(* C17 over histories, graph level: the structural invariant [GraphInv] of the dependency graph
   (no dangling edge, every dependency strictly older than its dependent, creator caches point to
   stored creators, positive max_gas) is kept by every function of the graph storage. *)
From FC Require Import Pool.Model Pool.ProofsBase Pool.ProofsCore Pool.ProofsRemoval Pool.ProofsOps
  Pool.ProofsInsert Pool.ProofsCheck Pool.Proofs18b Pool.Proofs20.
From Coq Require Import ZifyBool ZifyN ZifyNat.
Open Scope N_scope.

(* the part of a node that never changes: transaction and creation instant *)
Definition ncore (n : node) : tx * N := (n_tx n, n_seq n).
Definition core_nodes (g : graph) : list (tx * N) := map ncore (g_nodes g).

Record GraphInv (s : N) (g : graph) : Prop := mkGI {
  gi_edges_nodup : NoDup (g_edges g);
  gi_edges : forall a b, In (a, b) (g_edges g) ->
     has_node g a = true /\ has_node g b = true /\ seq_of g a < seq_of g b;
  gi_coins : forall u v, In (u, v) (g_coins g) ->
     exists n, get_node g v = Some n /\ In u (coin_outputs (n_tx n));
  gi_contracts : forall c v, In (c, v) (g_contracts g) ->
     exists n, get_node g v = Some n /\ In c (created_contracts (n_tx n));
  gi_nodes : forall n, In n (g_nodes g) -> 0 < t_gas (n_tx n) /\ n_seq n < s }.

(* ---- find / filter / map ---- *)
Lemma find_filter_imp {A} : forall (p q : A -> bool) l, (forall x, p x = true -> q x = true) ->
  find p (filter q l) = find p l.
Proof.
  intros p q l H. induction l as [|a r IH]; cbn [filter find]; [reflexivity|].
  destruct (q a) eqn:Eq; cbn [find].
  - destruct (p a); [reflexivity | exact IH].
  - destruct (p a) eqn:Ep; [apply H in Ep; congruence | exact IH].
Qed.

Lemma find_filter_none {A} : forall (p q : A -> bool) l, (forall x, p x = true -> q x = false) ->
  find p (filter q l) = None.
Proof.
  intros p q l H. induction l as [|a r IH]; cbn [filter find]; [reflexivity|].
  destruct (q a) eqn:Eq; cbn [find]; [|exact IH].
  destruct (p a) eqn:Ep; [apply H in Ep; congruence | exact IH].
Qed.

Lemma find_app {A} : forall (p : A -> bool) l1 l2,
  find p (l1 ++ l2) = match find p l1 with Some x => Some x | None => find p l2 end.
Proof.
  intros p l1 l2. induction l1 as [|a r IH]; cbn [app find]; [reflexivity|].
  destruct (p a); [reflexivity | exact IH].
Qed.

Lemma n_id_core : forall a b, ncore a = ncore b -> n_id a = n_id b.
Proof. intros a b H. unfold ncore in H. inversion H. unfold n_id. congruence. Qed.

Lemma find_core : forall id l l', map ncore l = map ncore l' ->
  match find (fun n => n_id n =? id) l, find (fun n => n_id n =? id) l' with
  | Some n, Some n' => ncore n = ncore n'
  | None, None => True
  | _, _ => False
  end.
Proof.
  intros id. induction l as [|a r IH]; intros [|a' r'] H; cbn [map] in H; try discriminate.
  - exact Logic.I.
  - assert (H1 : ncore a = ncore a') by (exact (f_equal (hd (ncore a)) H)).
    assert (H2 : map ncore r = map ncore r') by (exact (f_equal (@tl _) H)).
    cbn [find]. rewrite (n_id_core a a' H1).
    destruct (n_id a' =? id); [exact H1 | apply IH; exact H2].
Qed.

Lemma get_node_core : forall g g' id, core_nodes g = core_nodes g' ->
  match get_node g id, get_node g' id with
  | Some n, Some n' => ncore n = ncore n'
  | None, None => True
  | _, _ => False
  end.
Proof. intros g g' id H. unfold get_node. apply find_core. exact H. Qed.

Lemma has_node_core : forall g g' id, core_nodes g = core_nodes g' -> has_node g' id = has_node g id.
Proof.
  intros g g' id H. unfold has_node. pose proof (get_node_core g g' id H) as C.
  destruct (get_node g id), (get_node g' id); try reflexivity; contradiction.
Qed.

Lemma seq_of_core : forall g g' id, core_nodes g = core_nodes g' -> seq_of g' id = seq_of g id.
Proof.
  intros g g' id H. unfold seq_of. pose proof (get_node_core g g' id H) as C.
  destruct (get_node g id), (get_node g' id); try reflexivity; try contradiction.
  unfold ncore in C. inversion C. congruence.
Qed.

Lemma GraphInv_ext : forall s g g', core_nodes g = core_nodes g' -> g_edges g = g_edges g' ->
  g_coins g = g_coins g' -> g_contracts g = g_contracts g' -> GraphInv s g -> GraphInv s g'.
Proof.
  intros s g g' Hn He Hc Hk [I1 I2 I3 I4 I5]. constructor.
  - rewrite <- He. exact I1.
  - intros a b Hin. rewrite <- He in Hin. rewrite !(has_node_core g g' _ Hn), !(seq_of_core g g' _ Hn).
    apply I2. exact Hin.
  - intros u v Hin. rewrite <- Hc in Hin. destruct (I3 u v Hin) as [n [G1 G2]].
    pose proof (get_node_core g g' v Hn) as C. rewrite G1 in C.
    destruct (get_node g' v) as [n'|]; [|contradiction]. exists n'. split; [reflexivity|].
    unfold ncore in C. inversion C. congruence.
  - intros c v Hin. rewrite <- Hk in Hin. destruct (I4 c v Hin) as [n [G1 G2]].
    pose proof (get_node_core g g' v Hn) as C. rewrite G1 in C.
    destruct (get_node g' v) as [n'|]; [|contradiction]. exists n'. split; [reflexivity|].
    unfold ncore in C. inversion C. congruence.
  - intros n' Hin. assert (Hc' : In (ncore n') (core_nodes g)).
    { rewrite Hn. unfold core_nodes. apply in_map. exact Hin. }
    unfold core_nodes in Hc'. apply in_map_iff in Hc'. destruct Hc' as [n [E Hn']].
    unfold ncore in E. inversion E. destruct (I5 n Hn') as [A B]. split; congruence.
Qed.

(* ---- association-list entries ---- *)
Section Entries.
  Context {K V : Type} (eqb : K -> K -> bool).
  Hypothesis eqb_eq : forall a b, eqb a b = true <-> a = b.

  Lemma In_adel : forall k v k0 (m : list (K * V)), In (k, v) (adel eqb k0 m) <-> In (k, v) m /\ k <> k0.
  Proof.
    intros k v k0 m. unfold adel. rewrite filter_In. cbn [fst]. rewrite negb_true_iff.
    split; intros [H1 H2]; (split; [exact H1|]).
    - intros E. subst. rewrite (proj2 (eqb_eq k0 k0) eq_refl) in H2. discriminate.
    - destruct (eqb k k0) eqn:E; [|reflexivity]. apply eqb_eq in E. contradiction.
  Qed.

  Lemma In_aset : forall k v k0 v0 (m : list (K * V)), In (k, v) (aset eqb k0 v0 m) ->
    In (k, v) m \/ (k = k0 /\ v = v0).
  Proof.
    intros k v k0 v0 m. induction m as [|[k' v'] r IH]; cbn [aset In].
    - intros [H|[]]. inversion H. right. split; reflexivity.
    - destruct (eqb k' k0) eqn:E; cbn [In].
      + apply eqb_eq in E. subst k'. intros [H|H]; [inversion H; right; split; reflexivity | left; right; exact H].
      + intros [H|H]; [left; left; exact H|]. destruct (IH H) as [H1|H1]; [left; right; exact H1 | right; exact H1].
  Qed.
End Entries.

Lemma map_snd_enum_from {A} : forall (l : list A) i, map snd (enum_from i l) = l.
Proof. induction l as [|x r IH]; intros i; cbn [enum_from map snd]; [reflexivity | rewrite IH; reflexivity]. Qed.

Definition coin_keys (id : N) (l : list (N * output)) : list utxo :=
  flat_map (fun io => match snd io with OCoin _ _ _ => [(id, fst io)] | _ => [] end) l.
Definition created_keys (l : list output) : list N :=
  flat_map (fun o => match o with OCreated c => [c] | _ => [] end) l.

Lemma clear_fold_sub : forall id (l : list (N * output)) (c : list (utxo * N)) (k : list (N * N)) (c' : list (utxo * N)) (k' : list (N * N)),
  fold_left (fun acc io =>
    let '(c, k) := acc in
    match snd io with
    | OCoin _ _ _ => (adel utxo_eqb (id, fst io) c, k)
    | OCreated cid => (c, adel N.eqb cid k)
    | _ => (c, k)
    end) l (c, k) = (c', k') ->
  (forall u v, In (u, v) c' -> In (u, v) c /\ ~ In u (coin_keys id l)) /\
  (forall x v, In (x, v) k' -> In (x, v) k /\ ~ In x (created_keys (map snd l))).
Proof.
  intros id. induction l as [|[i o] r IH]; intros c k c' k' H; cbn [fold_left] in H.
  - inversion H; subst. split; intros ? ? Hin; (split; [exact Hin | intros []]).
  - unfold coin_keys, created_keys in *. cbn [map flat_map snd fst] in *.
    destruct o; apply IH in H; destruct H as [H1 H2]; split.
    + intros u v Hin. destruct (H1 u v Hin) as [A B]. apply (In_adel utxo_eqb utxo_eqb_eq) in A.
      destruct A as [A A']. split; [exact A|]. cbn [app In]. intros [E|E]; [congruence | contradiction].
    + intros x v Hin. destruct (H2 x v Hin) as [A B]. split; [exact A | exact B].
    + intros u v Hin. destruct (H1 u v Hin) as [A B]. split; [exact A | exact B].
    + intros x v Hin. destruct (H2 x v Hin) as [A B]. split; [exact A | exact B].
    + intros u v Hin. destruct (H1 u v Hin) as [A B]. split; [exact A | exact B].
    + intros x v Hin. destruct (H2 x v Hin) as [A B]. split; [exact A | exact B].
    + intros u v Hin. destruct (H1 u v Hin) as [A B]. split; [exact A | exact B].
    + intros x v Hin. destruct (H2 x v Hin) as [A B]. split; [exact A | exact B].
    + intros u v Hin. destruct (H1 u v Hin) as [A B]. split; [exact A | exact B].
    + intros x v Hin. destruct (H2 x v Hin) as [A B]. apply (In_adel N.eqb N.eqb_eq) in A.
      destruct A as [A A']. split; [exact A|]. cbn [app In]. intros [E|E]; [congruence | contradiction].
Qed.

Lemma clear_cache_sub : forall t c k c' k', clear_cache (t_id t) (t_outs t) c k = (c', k') ->
  (forall u v, In (u, v) c' -> In (u, v) c /\ ~ In u (coin_outputs t)) /\
  (forall x v, In (x, v) k' -> In (x, v) k /\ ~ In x (created_contracts t)).
Proof.
  intros t c k c' k' H. unfold clear_cache in H. apply clear_fold_sub in H.
  unfold enum in H. rewrite map_snd_enum_from in H. exact H.
Qed.

Lemma cache_fold_sub : forall id (l : list (N * output)) (c : list (utxo * N)) (k : list (N * N)) (c' : list (utxo * N)) (k' : list (N * N)),
  fold_left (fun acc io =>
    let '(c, k) := acc in
    match snd io with
    | OCoin _ _ _ => (aset utxo_eqb (id, fst io) id c, k)
    | OCreated cid => (c, aset N.eqb cid id k)
    | _ => (c, k)
    end) l (c, k) = (c', k') ->
  (forall u v, In (u, v) c' -> In (u, v) c \/ (v = id /\ In u (coin_keys id l))) /\
  (forall x v, In (x, v) k' -> In (x, v) k \/ (v = id /\ In x (created_keys (map snd l)))).
Proof.
  intros id. induction l as [|[i o] r IH]; intros c k c' k' H; cbn [fold_left] in H.
  - inversion H; subst. split; intros ? ? Hin; left; exact Hin.
  - unfold coin_keys, created_keys in *. cbn [map flat_map snd fst] in *.
    destruct o; apply IH in H; destruct H as [H1 H2]; split.
    + intros u v Hin. destruct (H1 u v Hin) as [A|[A B]].
      * apply (In_aset utxo_eqb utxo_eqb_eq) in A. destruct A as [A|[A A']]; [left; exact A|].
        right. split; [exact A'|]. cbn [app In]. left. congruence.
      * right. split; [exact A|]. cbn [app In]. right. exact B.
    + exact H2.
    + exact H1.
    + exact H2.
    + exact H1.
    + exact H2.
    + exact H1.
    + exact H2.
    + exact H1.
    + intros x v Hin. destruct (H2 x v Hin) as [A|[A B]].
      * apply (In_aset N.eqb N.eqb_eq) in A. destruct A as [A|[A A']]; [left; exact A|].
        right. split; [exact A'|]. cbn [app In]. left. congruence.
      * right. split; [exact A|]. cbn [app In]. right. exact B.
Qed.

Lemma cache_tx_infos_sub : forall t c k c' k', cache_tx_infos (t_id t) (t_outs t) c k = (c', k') ->
  (forall u v, In (u, v) c' -> In (u, v) c \/ (v = t_id t /\ In u (coin_outputs t))) /\
  (forall x v, In (x, v) k' -> In (x, v) k \/ (v = t_id t /\ In x (created_contracts t))).
Proof.
  intros t c k c' k' H. unfold cache_tx_infos in H. apply cache_fold_sub in H.
  unfold enum in H. rewrite map_snd_enum_from in H. exact H.
Qed.

(* ---- remove_single ---- *)
Lemma remove_single_some : forall g id g' n, remove_single g id = (g', Some n) ->
  get_node g id = Some n /\
  exists c k, clear_cache id (t_outs (n_tx n)) (g_coins g) (g_contracts g) = (c, k) /\
  g' = mkGraph (filter (fun m => negb (n_id m =? id)) (g_nodes g))
               (filter (fun e => negb (fst e =? id) && negb (snd e =? id)) (g_edges g)) c k.
Proof.
  unfold remove_single. intros g id g' n H. destruct (get_node g id) as [m|] eqn:E; [|inversion H].
  destruct (clear_cache id (t_outs (n_tx m)) (g_coins g) (g_contracts g)) as [c k] eqn:C.
  inversion H; subst. split; [reflexivity|]. exists c, k. split; [exact C | reflexivity].
Qed.

Lemma get_node_filter_other : forall g id a c e k, a <> id ->
  get_node (mkGraph (filter (fun m => negb (n_id m =? id)) (g_nodes g)) e c k) a = get_node g a.
Proof.
  intros g id a c e k Hne. unfold get_node. cbn [g_nodes]. apply find_filter_imp.
  intros x Hx. apply N.eqb_eq in Hx. apply negb_true_iff, N.eqb_neq. congruence.
Qed.

Lemma get_node_filter_same : forall g id c e k,
  get_node (mkGraph (filter (fun m => negb (n_id m =? id)) (g_nodes g)) e c k) id = None.
Proof.
  intros g id c e k. unfold get_node. cbn [g_nodes]. apply find_filter_none.
  intros x Hx. rewrite Hx. reflexivity.
Qed.

Lemma remove_single_inv : forall s g id, GraphInv s g -> GraphInv s (fst (remove_single g id)).
Proof.
  intros s g id HI. destruct (remove_single g id) as [g' o] eqn:R. cbn [fst]. destruct o as [n|].
  - destruct (remove_single_some _ _ _ _ R) as [Hg [c [k [C E]]]]. subst g'.
    destruct HI as [I1 I2 I3 I4 I5].
    pose proof (get_node_some _ _ _ Hg) as [Hn Hid]. unfold n_id in Hid.
    rewrite <- Hid in C. apply clear_cache_sub in C. destruct C as [C1 C2].
    constructor; cbn [g_edges g_coins g_contracts g_nodes].
    + apply NoDup_filter. exact I1.
    + intros a b Hin. apply filter_In in Hin. destruct Hin as [Hin Hf]. cbn [fst snd] in Hf.
      apply andb_true_iff in Hf. destruct Hf as [Fa Fb].
      apply negb_true_iff, N.eqb_neq in Fa, Fb.
      unfold has_node, seq_of. rewrite !get_node_filter_other by assumption. apply I2. exact Hin.
    + intros u v Hin. destruct (C1 u v Hin) as [A B]. destruct (I3 u v A) as [m [G1 G2]].
      assert (v <> id). { intros ->. rewrite Hg in G1. inversion G1; subst m. contradiction. }
      exists m. rewrite get_node_filter_other by assumption. split; assumption.
    + intros x v Hin. destruct (C2 x v Hin) as [A B]. destruct (I4 x v A) as [m [G1 G2]].
      assert (v <> id). { intros ->. rewrite Hg in G1. inversion G1; subst m. contradiction. }
      exists m. rewrite get_node_filter_other by assumption. split; assumption.
    + intros m Hm. apply filter_In in Hm. apply I5. tauto.
  - apply remove_single_spec in R. destruct R as [-> _]. exact HI.
Qed.

Lemma remove_single_edges_sub : forall g id, incl (g_edges (fst (remove_single g id))) (g_edges g).
Proof.
  intros g id. destruct (remove_single g id) as [g' o] eqn:R. cbn [fst]. destruct o as [n|].
  - destruct (remove_single_some _ _ _ _ R) as [_ [c [k [_ E]]]]. subst g'. cbn [g_edges].
    intros e He. apply filter_In in He. tauto.
  - apply remove_single_spec in R. destruct R as [-> _]. apply incl_refl.
Qed.

(* ---- reduce_up only touches cumulative fields ---- *)
Lemma upd_node_core : forall g id f, (forall n, ncore (f n) = ncore n) ->
  core_nodes (upd_node g id f) = core_nodes g.
Proof.
  intros g id f Hf. unfold core_nodes, upd_node. cbn [g_nodes]. rewrite map_map. apply map_ext.
  intros n. destruct (n_id n =? id); [apply Hf | reflexivity].
Qed.

Lemma reduce_up_core : forall fuel g work rem,
  core_nodes (reduce_up fuel g work rem) = core_nodes g /\
  g_edges (reduce_up fuel g work rem) = g_edges g /\
  g_coins (reduce_up fuel g work rem) = g_coins g /\
  g_contracts (reduce_up fuel g work rem) = g_contracts g.
Proof.
  induction fuel as [|f IH]; intros g work rem; cbn [reduce_up]; [repeat split; reflexivity|].
  destruct work as [|id rest]; [repeat split; reflexivity|].
  destruct (has_node g id); [|apply IH].
  destruct (IH (upd_node g id (reduce_node rem)) (parents g id ++ rest) rem) as [A [B [C D]]].
  rewrite A, B, C, D. split; [|repeat split; reflexivity].
  apply upd_node_core. intros n. reflexivity.
Qed.

Lemma reduce_up_inv : forall s fuel g work rem, GraphInv s g -> GraphInv s (reduce_up fuel g work rem).
Proof.
  intros s fuel g work rem HI. destruct (reduce_up_core fuel g work rem) as [A [B [C D]]].
  eapply GraphInv_ext; [symmetry; exact A | symmetry; exact B | symmetry; exact C | symmetry; exact D | exact HI].
Qed.

(* ---- bfs / remove_subtree ---- *)
Lemma bfs_inv : forall s fuel g q acc, GraphInv s g -> GraphInv s (fst (fst (bfs fuel g q acc))).
Proof.
  intros s. induction fuel as [|f IH]; intros g q acc HI; cbn [bfs]; [exact HI|].
  destruct q as [|r q]; [exact HI|].
  pose proof (remove_single_inv s g r HI) as H1.
  destruct (remove_single g r) as [g1 [n|]]; cbn [fst] in *; [|exact HI].
  apply IH. apply reduce_up_inv. exact H1.
Qed.

Lemma remove_subtree_inv : forall s g root, GraphInv s g -> GraphInv s (fst (fst (remove_subtree g root))).
Proof.
  intros s g root HI. unfold remove_subtree. destruct (has_node g root); [apply bfs_inv; exact HI | exact HI].
Qed.

Lemma bfs_edges_sub : forall fuel g q acc, incl (g_edges (fst (fst (bfs fuel g q acc)))) (g_edges g).
Proof.
  induction fuel as [|f IH]; intros g q acc; cbn [bfs]; [apply incl_refl|].
  destruct q as [|r q]; [apply incl_refl|].
  pose proof (remove_single_edges_sub g r) as H1.
  destruct (remove_single g r) as [g1 [n|]]; cbn [fst] in *; [|apply incl_refl].
  eapply incl_tran; [apply IH|]. destruct (reduce_up_core (fuel_up g1) g1 (parents g r) n) as [_ [B _]].
  rewrite B. exact H1.
Qed.

Lemma children_In : forall g a b, In b (children g a) <-> In (a, b) (g_edges g).
Proof.
  intros g a b. unfold children. rewrite in_map_iff. split.
  - intros [[x y] [E H]]. cbn [snd] in E. subst y. apply filter_In in H. destruct H as [H1 H2].
    cbn [fst] in H2. apply N.eqb_eq in H2. subst x. exact H1.
  - intros H. exists (a, b). split; [reflexivity|]. apply filter_In. split; [exact H|]. cbn [fst]. apply N.eqb_refl.
Qed.

Lemma parents_In : forall g a b, In a (parents g b) <-> In (a, b) (g_edges g).
Proof.
  intros g a b. unfold parents. rewrite in_map_iff. split.
  - intros [[x y] [E H]]. cbn [fst] in E. subst x. apply filter_In in H. destruct H as [H1 H2].
    cbn [snd] in H2. apply N.eqb_eq in H2. subst y. exact H1.
  - intros H. exists (a, b). split; [reflexivity|]. apply filter_In. split; [exact H|]. cbn [snd]. apply N.eqb_refl.
Qed.

(* everything a bfs removes satisfies any predicate that holds of the queue and is closed under edges *)
Lemma bfs_closed : forall (P : N -> Prop) fuel g q acc g' rm pan, bfs fuel g q acc = (g', rm, pan) ->
  (forall x, In x q -> P x) -> (forall a b, In (a, b) (g_edges g) -> P a -> P b) ->
  forall n, In n rm -> In n acc \/ P (n_id n).
Proof.
  intros P. induction fuel as [|f IH]; intros g q acc g' rm pan H Hq Hc n Hn; cbn [bfs] in H.
  - inversion H; subst. left. apply in_rev. exact Hn.
  - destruct q as [|r q].
    + inversion H; subst. left. apply in_rev. exact Hn.
    + pose proof (remove_single_edges_sub g r) as Hs.
      destruct (remove_single g r) as [g1 [m|]] eqn:R; cbn [fst] in Hs.
      * destruct (remove_single_some _ _ _ _ R) as [Hg _]. apply get_node_some in Hg. destruct Hg as [_ Hid].
        destruct (reduce_up_core (fuel_up g1) g1 (parents g r) m) as [_ [B _]].
        destruct (IH _ _ _ _ _ _ H) with (n := n) as [A|A].
        -- intros x Hx. apply in_app_or in Hx. destruct Hx as [Hx|Hx]; [apply Hq; right; exact Hx|].
           apply children_In in Hx. apply (Hc r x Hx). apply Hq. left. reflexivity.
        -- rewrite B. intros a b Hab. apply Hc. apply Hs. exact Hab.
        -- exact Hn.
        -- destruct A as [A|A]; [subst n; right; rewrite Hid; apply Hq; left; reflexivity | left; exact A].
        -- right. exact A.
      * inversion H; subst. left. apply in_rev. exact Hn.
Qed.

Lemma remove_subtree_desc : forall g root g' rm pan, remove_subtree g root = (g', rm, pan) ->
  incl (g_edges g') (g_edges g) /\ forall n, In n rm -> n_id n = root \/ Reach g root (n_id n).
Proof.
  intros g root g' rm pan H. unfold remove_subtree in H. destruct (has_node g root).
  - split.
    + pose proof (bfs_edges_sub (S (length (g_nodes g) + length (g_edges g))) g [root] []) as E.
      rewrite H in E. exact E.
    + intros n Hn.
      destruct (bfs_closed (fun x => x = root \/ Reach g root x) _ _ _ _ _ _ _ H) with (n := n) as [A|A].
      * intros x [E|[]]. left. congruence.
      * intros a b Hab [E|E]; right; [subst a; apply reach_edge; exact Hab|].
        eapply reach_trans; [exact E | apply reach_edge; exact Hab].
      * exact Hn.
      * destruct A.
      * exact A.
  - inversion H; subst. split; [apply incl_refl | intros n []].
Qed.

(* ---- the selection: one pass, the loop ---- *)
Lemma pass_inv : forall s cs keys ps, GraphInv s (ps_g ps) -> GraphInv s (ps_g (pass cs keys ps)).
Proof.
  intros s cs. induction keys as [|k r IH]; intros ps HI; cbn [pass]; [exact HI|].
  destruct ((ps_nb ps =? 0) || (ps_gas ps =? 0) || (ps_space ps =? 0)); [exact HI|].
  destruct (get_node (ps_g ps) (k_id k)) as [n|].
  - destruct (touches_excluded (k_excluded cs) (n_tx n)); [apply IH; exact HI|].
    destruct (t_price (n_tx n) <? k_min_price cs); [apply IH; exact HI|].
    destruct ((ps_gas ps <? t_gas (n_tx n)) || (ps_space ps <? t_size (n_tx n))); [apply IH; exact HI|].
    apply IH. cbn [ps_g]. apply remove_single_inv. exact HI.
  - apply IH. cbn [ps_g]. exact HI.
Qed.

Lemma fold_exec_remove_sorted : forall ks l, sorted_keys l = true -> denpos l ->
  sorted_keys (fold_left (fun l k => exec_remove k l) ks l) = true /\
  denpos (fold_left (fun l k => exec_remove k l) ks l).
Proof.
  induction ks as [|k r IH]; intros l Hs Hd; cbn [fold_left]; [split; assumption|].
  destruct (exec_remove_sorted_all k l Hs Hd) as [A B]. apply IH; assumption.
Qed.

Lemma key_of_den : forall s g d n, GraphInv s g -> get_node g d = Some n -> 0 < k_den (key_of n).
Proof.
  intros s g d n HI Hg. apply get_node_some in Hg. destruct Hg as [Hn _].
  destruct (gi_nodes s g HI n Hn) as [A _]. exact A.
Qed.

Lemma gather_promote_sorted : forall s g ds (acc : list ekey * bool), GraphInv s g ->
  sorted_keys (fst acc) = true -> denpos (fst acc) ->
  let r := fold_left (fun acc d =>
             match get_node g d with
             | Some n => (exec_insert (key_of n) (fst acc), snd acc)
             | None => (fst acc, true)
             end) ds acc in
  sorted_keys (fst r) = true /\ denpos (fst r).
Proof.
  intros s g ds. induction ds as [|d r IH]; intros acc HI Hs Hd; cbn [fold_left]; [split; assumption|].
  destruct (get_node g d) as [n|] eqn:E.
  - destruct (exec_insert_sorted_all (key_of n) (fst acc) Hs Hd (key_of_den s g d n HI E)) as [A B].
    apply IH; cbn [fst]; assumption.
  - apply IH; cbn [fst]; assumption.
Qed.

Lemma gather_loop_inv : forall s cs fuel st, GraphInv s (gs_g st) ->
  sorted_keys (gs_exec st) = true -> denpos (gs_exec st) ->
  GraphInv s (gs_g (gather_loop fuel cs st)) /\
  sorted_keys (gs_exec (gather_loop fuel cs st)) = true /\ denpos (gs_exec (gather_loop fuel cs st)).
Proof.
  intros s cs. induction fuel as [|f IH]; intros st HI Hs Hd; cbn [gather_loop]; [split; [assumption | split; assumption]|].
  destruct ((gs_gas st =? 0) || (gs_nb st =? 0) || (gs_space st =? 0)); [split; [assumption | split; assumption]|].
  destruct (gs_exec st) as [|k0 ks] eqn:Ex; [rewrite Ex; split; [assumption | split; assumption]|].
  match goal with |- context [pass cs (k0 :: ks) ?q] =>
    pose proof (pass_inv s cs (k0 :: ks) q HI) as HP;
    remember (pass cs (k0 :: ks) q) as pp eqn:Epp end.
  destruct (fold_exec_remove_sorted (ps_remove pp) (k0 :: ks) Hs Hd) as [S1 D1].
  destruct (ps_clean pp) eqn:Ec; [destruct (ps_promote pp) eqn:Ep|].
  - cbn [gs_g gs_exec]. split; [assumption | split; assumption].
  - destruct (fold_exec_remove_sorted [] _ S1 D1) as [S2 D2].
    pose proof (gather_promote_sorted s (ps_g pp) (n :: l) (_, ps_panic pp) HP S2 D2) as G. cbv zeta in G.
    match goal with |- context [fold_left ?f ?l (?e, ps_panic pp)] => destruct (fold_left f l (e, ps_panic pp)) as [ex3 pan] end.
    cbn [fst] in G. destruct G as [S3 D3]. apply IH; cbn [gs_g gs_exec]; assumption.
  - destruct (fold_exec_remove_sorted (e :: l) _ S1 D1) as [S2 D2].
    pose proof (gather_promote_sorted s (ps_g pp) (ps_promote pp) (_, ps_panic pp) HP S2 D2) as G. cbv zeta in G.
    match goal with |- context [fold_left ?f ?l (?e, ps_panic pp)] => destruct (fold_left f l (e, ps_panic pp)) as [ex3 pan] end.
    cbn [fst] in G. destruct G as [S3 D3]. apply IH; cbn [gs_g gs_exec]; assumption.
Qed.

Lemma gather_inv : forall s cs g ex, GraphInv s g -> sorted_keys ex = true -> denpos ex ->
  GraphInv s (gs_g (gather_best_txs cs g ex)) /\
  sorted_keys (gs_exec (gather_best_txs cs g ex)) = true /\ denpos (gs_exec (gather_best_txs cs g ex)).
Proof. intros. unfold gather_best_txs. apply gather_loop_inv; cbn [gs_g gs_exec]; assumption. Qed.

(* ---- store_transaction ---- *)
Lemma find_map_core : forall id (f : node -> node) l, (forall n, ncore (f n) = ncore n) ->
  find (fun n => n_id n =? id) (map f l) = option_map f (find (fun n => n_id n =? id) l).
Proof.
  intros id f l Hf. induction l as [|a r IH]; cbn [map find option_map]; [reflexivity|].
  rewrite (n_id_core _ _ (Hf a)). destruct (n_id a =? id); [reflexivity | exact IH].
Qed.

Lemma get_node_store : forall g t direct all s a,
  let g' := store g t direct all s in
  (forall n, get_node g a = Some n -> exists n', get_node g' a = Some n' /\ ncore n' = ncore n) /\
  (get_node g a = None -> a <> t_id t -> get_node g' a = None) /\
  (get_node g a = None -> a = t_id t -> get_node g' a = Some (mkNode t (t_tip t) (t_gas t) (t_size t) 1 s)).
Proof.
  intros g t direct all s a. unfold store.
  destruct (cache_tx_infos (t_id t) (t_outs t) (g_coins g) (g_contracts g)) as [c k]. cbv zeta.
  unfold get_node. cbn [g_nodes]. rewrite find_app.
  match goal with |- context [map ?f (g_nodes g)] => set (bump := f) end.
  assert (Hb : forall n, ncore (bump n) = ncore n).
  { intros n. unfold bump. destruct (memN (n_id n) all); reflexivity. }
  rewrite (find_map_core a bump (g_nodes g) Hb).
  destruct (find (fun n => n_id n =? a) (g_nodes g)) as [n|]; cbn [option_map].
  - split; [|split; intros; discriminate]. intros m E. inversion E; subst. exists (bump m). split; [reflexivity | apply Hb].
  - split; [intros; discriminate|]. cbn [find]. unfold n_id at 1 2. cbn [n_tx].
    split; intros _ Ha.
    + apply N.eqb_neq in Ha. rewrite N.eqb_sym, Ha. reflexivity.
    + subst a. rewrite N.eqb_refl. reflexivity.
Qed.

Lemma NoDup_map_pair : forall (l : list N) (y : N), NoDup l -> NoDup (map (fun d => (d, y)) l).
Proof.
  intros l y H. induction H as [|x r Hx Hr IH]; cbn [map]; constructor; [|exact IH].
  intros Hin. apply in_map_iff in Hin. destruct Hin as [d [E Hd]]. inversion E; subst. contradiction.
Qed.

Lemma store_fields : forall g t direct all s, exists c k bump,
  cache_tx_infos (t_id t) (t_outs t) (g_coins g) (g_contracts g) = (c, k) /\
  (forall n, ncore (bump n) = ncore n) /\
  store g t direct all s =
    mkGraph (map bump (g_nodes g) ++ [mkNode t (t_tip t) (t_gas t) (t_size t) 1 s])
            (g_edges g ++ map (fun d => (d, t_id t)) direct) c k.
Proof.
  intros g t direct all s. unfold store.
  destruct (cache_tx_infos (t_id t) (t_outs t) (g_coins g) (g_contracts g)) as [c k].
  exists c, k. eexists. split; [reflexivity|]. split; [|reflexivity].
  intros n. cbv beta. destruct (memN (n_id n) all); reflexivity.
Qed.

Lemma store_inv : forall s g t direct all, GraphInv s g -> has_node g (t_id t) = false ->
  NoDup direct -> (forall d, In d direct -> has_node g d = true) -> 0 < t_gas t ->
  GraphInv (s + 1) (store g t direct all s).
Proof.
  intros s g t direct all [I1 I2 I3 I4 I5] Hfresh Hnd Hdir Hgas.
  assert (Hfresh' : get_node g (t_id t) = None).
  { unfold has_node in Hfresh. destruct (get_node g (t_id t)); [discriminate | reflexivity]. }
  assert (HG : forall a n, get_node g a = Some n ->
                 exists n', get_node (store g t direct all s) a = Some n' /\ ncore n' = ncore n).
  { intros a n E. destruct (get_node_store g t direct all s a) as [G1 _]. cbv zeta in G1. apply G1. exact E. }
  assert (HN : forall a, has_node g a = true -> has_node (store g t direct all s) a = true /\
                         seq_of (store g t direct all s) a = seq_of g a).
  { intros a Ha. unfold has_node in Ha. destruct (get_node g a) as [n|] eqn:E; [|discriminate].
    destruct (HG a n E) as [n' [G2 G3]]. unfold has_node, seq_of. rewrite G2, E. split; [reflexivity|].
    unfold ncore in G3. inversion G3. reflexivity. }
  assert (HT : get_node (store g t direct all s) (t_id t) = Some (mkNode t (t_tip t) (t_gas t) (t_size t) 1 s)).
  { destruct (get_node_store g t direct all s (t_id t)) as [_ [_ G3]]. apply G3; [exact Hfresh' | reflexivity]. }
  destruct (store_fields g t direct all s) as [c [k [bump [C [Hb E]]]]].
  apply cache_tx_infos_sub in C. destruct C as [C1 C2].
  constructor.
  - rewrite E. cbn [g_edges]. apply NoDup_app_both; [exact I1 | apply NoDup_map_pair; exact Hnd|].
    intros [a b] H1 H2. apply in_map_iff in H2. destruct H2 as [d [E' _]]. inversion E'; subst.
    destruct (I2 _ _ H1) as [_ [Hb' _]]. congruence.
  - intros a b Hin. rewrite E in Hin. cbn [g_edges] in Hin. apply in_app_or in Hin. destruct Hin as [Hin|Hin].
    + destruct (I2 a b Hin) as [A [B L]]. destruct (HN a A) as [A1 A2]. destruct (HN b B) as [B1 B2].
      split; [exact A1|]. split; [exact B1|]. rewrite A2, B2. exact L.
    + apply in_map_iff in Hin. destruct Hin as [d [E' Hd]]. inversion E'; subst a b.
      destruct (HN d (Hdir d Hd)) as [A1 A2]. split; [exact A1|].
      unfold has_node, seq_of at 2. rewrite HT. split; [reflexivity|]. cbn [n_seq]. rewrite A2.
      pose proof (Hdir d Hd) as Hh. unfold has_node in Hh. unfold seq_of.
      destruct (get_node g d) as [n|] eqn:E''; [|discriminate].
      apply get_node_some in E''. destruct E'' as [E'' _]. apply (I5 n E'').
  - intros u v Hin. rewrite E in Hin. cbn [g_coins] in Hin. destruct (C1 u v Hin) as [A|[A B]].
    + destruct (I3 u v A) as [n [G1 G2]]. destruct (HG v n G1) as [n' [G3 G4]].
      unfold ncore in G4. inversion G4. exists n'. split; [exact G3 | congruence].
    + subst v. eexists. split; [exact HT | cbn [n_tx]; exact B].
  - intros x v Hin. rewrite E in Hin. cbn [g_contracts] in Hin. destruct (C2 x v Hin) as [A|[A B]].
    + destruct (I4 x v A) as [n [G1 G2]]. destruct (HG v n G1) as [n' [G3 G4]].
      unfold ncore in G4. inversion G4. exists n'. split; [exact G3 | congruence].
    + subst v. eexists. split; [exact HT | cbn [n_tx]; exact B].
  - intros n Hn. rewrite E in Hn. cbn [g_nodes] in Hn. apply in_app_or in Hn. destruct Hn as [Hn|[Hn|[]]].
    + apply in_map_iff in Hn. destruct Hn as [m [E' Hm]]. destruct (I5 m Hm) as [A B].
      subst n. pose proof (Hb m) as Hc. unfold ncore in Hc. inversion Hc as [[Hc1 Hc2]].
      rewrite Hc1, Hc2. split; [exact A | lia].
    + subst n. cbn [n_tx n_seq]. split; [exact Hgas | lia].
Qed.
