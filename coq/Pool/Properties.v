(* Property theorems of the Pool cluster (C16..C21). Nothing but statements, [exact], and
   Print Assumptions. *)
From FC Require Import Pool.Model Pool.ProofsBase Pool.ProofsCore Pool.ProofsRemoval Pool.ProofsOps
  Pool.ProofsInsert Pool.ProofsCheck Pool.Proofs18 Pool.Proofs18b Pool.Proofs19 Pool.Proofs20 Pool.Proofs20b Pool.Proofs21
  Pool.ProofsHist1 Pool.ProofsHistC Pool.ProofsHist2 Pool.ProofsHist3 Pool.ProofsHist4 Pool.ProofsHist5
  Pool.ProofsHist6.
Open Scope N_scope.

(* ------------------------------------------------------------------ *)
(* C16. After ANY sequence of worker operations (insert with collisions / replacements /
   dependencies / limit eviction, extraction, block import with preconfirmation rollback,
   preconfirmations, expiry, database changes), starting from the empty pool: the ids of the
   stored transactions are unique, no two stored transactions spend the same coin or message,
   create the same contract or upload the same blob, and current_gas / current_bytes_size /
   tx_id_to_storage_id.len() / the last TxPoolStats equal the sums over the stored transactions.
   Hypothesis [Fits]: the true totals fit u64 (the counters are saturating). *)
Theorem no_conflicts_all_histories : forall cfg d h ops,
  Forall (fun wr => Fits (w_pool (fst wr))) (run (worker_new cfg d h) ops) ->
  Forall (fun wr => let p := w_pool (fst wr) in
            NoDup (tids (txs (p_g p))) /\ NoConflict (txs (p_g p)) /\ AccountingExact p)
         (run (worker_new cfg d h) ops).
Proof. exact no_conflicts_run. Qed.
Print Assumptions no_conflicts_all_histories.

(* one step, from any state satisfying the core invariant (not only reachable ones) *)
Theorem core_inv_step : forall w o, CoreInv (w_pool w) -> Fits (w_pool (fst (step w o))) ->
  CoreInv (w_pool (fst (step w o))).
Proof. exact step_core. Qed.
Print Assumptions core_inv_step.

Theorem core_inv_no_conflict : forall p, CoreInv p ->
  NoDup (tids (txs (p_g p))) /\ NoConflict (txs (p_g p)) /\ AccountingExact p.
Proof. exact core_inv_no_conflict_all. Qed.
Print Assumptions core_inv_no_conflict.

(* soundness of the checker evaluated on the implementation's dumped state *)
Theorem pool_invb_no_conflict : forall ex p, pool_invb_gen ex p = true ->
  NoDup (tids (txs (p_g p))) /\ NoConflict (txs (p_g p)) /\
  p_gas p = sumN (map t_gas (txs (p_g p))) /\ p_bytes p = sumN (map t_size (txs (p_g p))) /\
  p_stats p = (lenN (p_txmap p), p_bytes p, p_gas p).
Proof. exact pool_invb_c16. Qed.
Print Assumptions pool_invb_no_conflict.

Theorem no_conflictb_sound : forall l, no_conflictb l = true <-> ForallOrdPairs Disjoint_keys l.
Proof. exact no_conflictb_iff. Qed.
Print Assumptions no_conflictb_sound.

(* ------------------------------------------------------------------ *)
(* C17 (partial: admission-level guarantees; the history-level statements - parents before
   children in an extraction, cascade of removals, chain bound and diamond-freeness of every
   reachable graph - are part of [pool_invb]/[step17], evaluated on every implementation and model
   trace, and are NOT proved as an inductive invariant here).
   can_store_transaction accepts a transaction only if its set of pool ancestors [all] was walked
   without meeting any ancestor twice (no diamond: [NoDup all], closed under parents), has fewer
   than max_txs_chain_count elements, and every ancestor has room for one more dependent and is
   not a blob. *)
Theorem can_store_bounds_partial : forall g maxc t direct all, can_store g maxc t = Good (direct, all) ->
  NoDup all /\ (all = [] \/ lenN all < maxc) /\ (forall x, In x direct -> In x all) /\
  (forall x n, In x all -> get_node g x = Some n ->
               n_cnt n < maxc /\ is_blob (n_tx n) = false /\ forall y, In y (parents g x) -> In y all).
Proof. exact can_store_bounds_all. Qed.
Print Assumptions can_store_bounds_partial.

(* a subtree removal removes its root, only stored transactions, each once; the stored set
   shrinks by exactly the removed ids *)
Theorem remove_subtree_exact : forall g root g' rm pan, remove_subtree g root = (g', rm, pan) ->
  Rem g g' rm /\ ~ In root (tids (txs g')).
Proof. exact remove_subtree_rem. Qed.
Print Assumptions remove_subtree_exact.

(* meaning of the graph checkers of C17 that are evaluated on every trace *)
Theorem inv_edges_sound_acyclic : forall g, inv_edges g = true -> forall a, ~ Reach g a a.
Proof. exact inv_edges_acyclic. Qed.
Print Assumptions inv_edges_sound_acyclic.

Theorem cascadeb_sound : forall s, cascadeb s = true <->
  forall p c, In (p, c) (g_edges (pre_g s)) -> has_node (post_g s) p = false ->
              ~ In p (included s) -> has_node (post_g s) c = false.
Proof. exact cascadeb_spec. Qed.
Print Assumptions cascadeb_sound.

Theorem parents_first_sound : forall g xs seen, parents_first g seen xs = true ->
  forall l1 x l2, xs = l1 ++ x :: l2 -> forall p, In p (parents g x) -> In p seen \/ In p l1.
Proof. exact parents_first_spec. Qed.
Print Assumptions parents_first_sound.

(* ---- C17 over ALL histories (induction over the operation list, no hypothesis) ----
   In every pool state reachable from the empty pool by ANY list of worker operations the checker
   [inv_edges] holds (no duplicate edge, both ends of every edge are stored, the dependency was
   created strictly before the dependent), i.e.: no dangling edge, every parent of a stored
   transaction is stored, the dependency graph is acyclic, and the creator caches
   (coins_creators / contracts_creators) only name stored transactions. *)
Theorem graph_wellformed_all_histories : forall cfg d h ops,
  Forall (fun wr => let g := p_g (w_pool (fst wr)) in
            inv_edges g = true /\
            (forall a b, In (a, b) (g_edges g) -> In a (tids (txs g)) /\ In b (tids (txs g))) /\
            (forall id p, In p (parents g id) -> In p (tids (txs g))) /\
            (forall a, ~ Reach g a a) /\
            (forall u v, In (u, v) (g_coins g) -> In v (tids (txs g))) /\
            (forall c v, In (c, v) (g_contracts g) -> In v (tids (txs g))))
         (run (worker_new cfg d h) ops).
Proof. exact graph_wellformed_run. Qed.
Print Assumptions graph_wellformed_all_histories.

(* the invariant behind it is kept by one step from ANY state satisfying it (not only reachable
   ones), and holds of the empty pool *)
Theorem hist_inv_step : forall w o, HInv (w_pool w) -> HInv (w_pool (fst (step w o))).
Proof. exact step_hinv. Qed.
Print Assumptions hist_inv_step.

Theorem hist_inv_initial : forall cfg, HInv (pool_new cfg).
Proof. exact hinv_init. Qed.
Print Assumptions hist_inv_initial.

Theorem hist_inv_meaning : forall p, HInv p ->
  GraphInv (p_seq p) (p_g p) /\
  (forall id, has_node (p_g p) id = true -> amem N.eqb id (p_txmap p) = true) /\
  sorted_keys (p_exec p) = true /\ denpos (p_exec p) /\
  (forall id n, get_node (p_g p) id = Some n -> n_cnt n <= N.max 1 (cfg_max_chain (p_cfg p))).
Proof.
  intros p H. exact (conj (hi_graph p H) (conj (hi_cover p H) (conj (proj1 (hi_exec p H))
                      (conj (proj2 (hi_exec p H)) (hi_chain p H))))).
Qed.
Print Assumptions hist_inv_meaning.

(* ---- the chain bound over ALL histories: in every reachable state the counter
   number_dependents_in_chain of every stored transaction is at most max_txs_chain_count (at most 1
   if that is configured as 0, since a transaction without pool dependencies is always accepted).
   The bound is on the COUNTER (the quantity the admission check reads); that the counter equals the
   real number of dependents is false in general (K-C17-stale-cumulative-after-lru-overflow) and is
   not claimed. *)
Theorem chain_bound_all_histories : forall cfg d h ops,
  Forall (fun wr => let p := w_pool (fst wr) in
            forall id n, get_node (p_g p) id = Some n -> n_cnt n <= N.max 1 (cfg_max_chain (p_cfg p)))
         (run (worker_new cfg d h) ops).
Proof. exact chain_bound_run. Qed.
Print Assumptions chain_bound_all_histories.

(* ---- the cascade over ALL histories (PARTIAL: under the hypothesis that the model's panic flag is
   still false after the operation; the flag records an expect() / debug_assert!() of the
   implementation failing - a subtree removal meeting an already removed node, a committed id without
   node, a promoted id without node - and is part of [pool_invb], i.e. checked on every trace; for the
   subtree removal this is proved for every reachable state by diamond_free_all_histories below,
   which yields the unconditional cascade_all_histories; this conditional version holds from any
   state satisfying HInv, reachable or not).
   In every history, for every operation: an edge of the graph before the operation whose
   dependency left the pool without being one of the operation's included transactions (handed
   out, committed by the block, preconfirmed) has lost its dependent too: removal cascades to all
   dependents.  This is exactly the checker [cascadeb] on the model's own trace. *)
Theorem cascade_all_histories_partial : forall cfg d h ops,
  Forall (fun s => p_panic (w_pool (ts_post s)) = false -> cascadeb s = true)
         (model_trace (worker_new cfg d h) ops).
Proof. exact cascade_run. Qed.
Print Assumptions cascade_all_histories_partial.

(* one step from ANY state satisfying the invariant *)
Theorem cascade_step_partial : forall w o, HInv (w_pool w) -> p_panic (w_pool (fst (step w o))) = false ->
  forall a b, In (a, b) (g_edges (p_g (w_pool w))) ->
    has_node (p_g (w_pool (fst (step w o)))) a = false ->
    ~ In a (incl_ids w o (snd (step w o))) ->
    has_node (p_g (w_pool (fst (step w o)))) b = false.
Proof. exact step_cascade. Qed.
Print Assumptions cascade_step_partial.

(* the subtree removal: if it does not panic, the root and every dependent of a removed
   transaction are removed *)
Theorem remove_subtree_cascades_partial : forall s g root g' rm, GraphInv s g ->
  remove_subtree g root = (g', rm, false) ->
  has_node g' root = false /\
  forall a b, In (a, b) (g_edges g) -> has_node g' a = false -> has_node g' b = false.
Proof. exact remove_subtree_cascade. Qed.
Print Assumptions remove_subtree_cascades_partial.

(* ---- diamond-freeness and the cascade over ALL histories, WITHOUT hypothesis ----
   In every reachable state two distinct children of one stored transaction never have a common
   descendant-or-self (no diamond below any node: can_store_transaction refuses a transaction whose
   ancestor walk meets a node twice), and therefore the subtree removal started at ANY root never
   meets an already removed node (its panic flag is false). *)
Theorem diamond_free_all_histories : forall cfg d h ops,
  Forall (fun wr => let g := p_g (w_pool (fst wr)) in
            (forall r c1 c2 y, In (r, c1) (g_edges g) -> In (r, c2) (g_edges g) -> c1 <> c2 ->
               (c1 = y \/ Reach g c1 y) -> (c2 = y \/ Reach g c2 y) -> False) /\
            forall root, snd (remove_subtree g root) = false)
         (run (worker_new cfg d h) ops).
Proof. exact diamond_free_run. Qed.
Print Assumptions diamond_free_all_histories.

(* Removal cascades to all dependents, in every history, for every operation, no hypothesis: the
   checker [cascadeb] holds on every step of the model's own trace - an edge of the graph before
   the operation whose dependency left the pool without being one of the operation's included
   transactions (handed out, committed by the block, preconfirmed) has lost its dependent too.
   (This supersedes cascade_all_histories_partial for reachable states.) *)
Theorem cascade_all_histories : forall cfg d h ops,
  Forall (fun s => cascadeb s = true) (model_trace (worker_new cfg d h) ops).
Proof. exact cascade_run_all. Qed.
Print Assumptions cascade_all_histories.

(* one step from ANY state satisfying HInv and diamond-freeness; both are kept by the step *)
Theorem hist_inv2_step : forall w o, Inv2 (w_pool w) -> Inv2 (w_pool (fst (step w o))).
Proof. exact (fun w o H => proj1 (step_inv2 w o H)). Qed.
Print Assumptions hist_inv2_step.

Theorem cascade_step : forall w o, Inv2 (w_pool w) ->
  forall a b, In (a, b) (g_edges (p_g (w_pool w))) ->
    has_node (p_g (w_pool (fst (step w o)))) a = false ->
    ~ In a (incl_ids w o (snd (step w o))) ->
    has_node (p_g (w_pool (fst (step w o)))) b = false.
Proof. exact step_cascade2. Qed.
Print Assumptions cascade_step.

(* ---- parents before children, over ALL histories ----
   From every reachable state and for every constraint value, the list handed out by
   extract_transactions_for_block contains every pool parent of a transaction before the
   transaction itself (the checker [parents_first] of step17 / extraction_okb). *)
Theorem extraction_parents_first_all_histories : forall cfg d h ops,
  Forall (fun wr => forall cs,
            parents_first (p_g (w_pool (fst wr))) []
              (map n_id (snd (extract_transactions_for_block (w_pool (fst wr)) cs))) = true)
         (run (worker_new cfg d h) ops).
Proof. exact extraction_parents_first_run. Qed.
Print Assumptions extraction_parents_first_all_histories.

(* all the history invariants together (HInv, diamond-freeness, executable keys exact) are kept by
   one step from ANY state satisfying them *)
Theorem hist_inv3_step : forall w o, Inv3 (w_pool w) -> Inv3 (w_pool (fst (step w o))).
Proof. exact step_inv3. Qed.
Print Assumptions hist_inv3_step.

(* ------------------------------------------------------------------ *)
(* C18. For EVERY pool state satisfying the core invariant and every constraint value, the
   transactions handed out: total max_gas, total size and count within the limits, each pays at
   least the minimal gas price and touches no excluded contract, pairwise distinct and
   conflict-free, were stored in the pool and none of them remains in it. *)
Theorem extraction_respects : forall p cs, CoreInv p ->
  let res := map n_tx (snd (extract_transactions_for_block p cs)) in
  sumN (map t_gas res) <= k_max_gas cs /\ sumN (map t_size res) <= k_max_size cs /\
  lenN res <= k_max_txs cs /\ Forall (tx_allowed cs) res /\
  NoDup (tids res) /\ NoConflict res /\
  (forall t, In t res -> In t (txs (p_g p)) /\
             ~ In (t_id t) (tids (txs (p_g (fst (extract_transactions_for_block p cs)))))).
Proof. exact extraction_all. Qed.
Print Assumptions extraction_respects.

(* the limits hold for any graph / executable list whatsoever (no invariant needed) *)
Theorem gather_best_txs_respects : forall cs g ex,
  let res := map n_tx (gs_result (gather_best_txs cs g ex)) in
  sumN (map t_gas res) <= k_max_gas cs /\ sumN (map t_size res) <= k_max_size cs /\
  lenN res <= k_max_txs cs /\ Forall (tx_allowed cs) res.
Proof. exact gather_respects. Qed.
Print Assumptions gather_best_txs_respects.

(* within one pass over a sorted executable list the selected keys are sorted, i.e. handed out in
   non-increasing (tip+1)/max_gas order (sortedness of the list itself is part of pool_invb) *)
Theorem ratio_order_partial : forall cs keys ps, sorted_keys keys = true -> ps_clean ps = [] ->
  sorted_keys (ps_clean (pass cs keys ps)) = true.
Proof. exact pass_ratio_order. Qed.
Print Assumptions ratio_order_partial.

Theorem sorted_keys_ratio : forall a b, key_before a b = true ->
  ratio_ltb (k_num a) (k_den a) (k_num b) (k_den b) = false.
Proof. exact key_before_ratio. Qed.
Print Assumptions sorted_keys_ratio.

(* the order of the executable list is transitive on keys with positive max_gas, and the two
   operations by which every pool function changes the list keep it sorted (building blocks of the
   sortedness invariant; its preservation by every operation is not assembled) *)
Theorem key_order_transitive : forall a b c, 0 < k_den a -> 0 < k_den b -> 0 < k_den c ->
  key_before a b = true -> key_before b c = true -> key_before a c = true.
Proof.
  intros a b c Ha Hb Hc H1 H2. apply key_before_KB.
  exact (KB_trans a b c Ha Hb Hc (proj1 (key_before_KB a b) H1) (proj1 (key_before_KB b c) H2)).
Qed.
Print Assumptions key_order_transitive.

Theorem exec_insert_keeps_sorted_partial : forall k l, sorted_keys l = true -> denpos l -> 0 < k_den k ->
  sorted_keys (exec_insert k l) = true /\ denpos (exec_insert k l).
Proof. exact exec_insert_sorted_all. Qed.
Print Assumptions exec_insert_keeps_sorted_partial.

Theorem exec_remove_keeps_sorted_partial : forall k l, sorted_keys l = true -> denpos l ->
  sorted_keys (exec_remove k l) = true /\ denpos (exec_remove k l).
Proof. exact exec_remove_sorted_all. Qed.
Print Assumptions exec_remove_keeps_sorted_partial.

(* ---- C18 over ALL histories: the executable list is sorted (and every key has positive
   max_gas) in every reachable state, so [ratio_order_partial] applies to every reachable state
   without its sortedness hypothesis ---- *)
Theorem exec_sorted_all_histories : forall cfg d h ops,
  Forall (fun wr => sorted_keys (p_exec (w_pool (fst wr))) = true /\ denpos (p_exec (w_pool (fst wr))))
         (run (worker_new cfg d h) ops).
Proof. exact exec_sorted_run. Qed.
Print Assumptions exec_sorted_all_histories.

Theorem ratio_order_all_histories : forall cfg d h ops,
  Forall (fun wr => forall cs ps, ps_clean ps = [] ->
            sorted_keys (ps_clean (pass cs (p_exec (w_pool (fst wr))) ps)) = true)
         (run (worker_new cfg d h) ops).
Proof. exact ratio_order_run. Qed.
Print Assumptions ratio_order_all_histories.

(* every key of the executable list, in every reachable state, is exactly the key (tip+1, max_gas,
   creation instant, id) of a STORED transaction that has NO dependency in the pool: only
   transactions whose parents all left the pool are offered to the selection *)
Theorem exec_exact_all_histories : forall cfg d h ops,
  Forall (fun wr => let p := w_pool (fst wr) in
            forall k, In k (p_exec p) ->
              exists n, get_node (p_g p) (k_id k) = Some n /\ k = key_of n /\
                        has_dependencies (p_g p) (k_id k) = false)
         (run (worker_new cfg d h) ops).
Proof. exact exec_exact_run. Qed.
Print Assumptions exec_exact_all_histories.

(* ... and conversely every stored transaction without dependency in the pool has its key in the
   executable list, in every reachable state: the selection is offered exactly the parentless
   transactions *)
Theorem exec_complete_all_histories : forall cfg d h ops,
  Forall (fun wr => let p := w_pool (fst wr) in
            forall id, has_node (p_g p) id = true -> has_dependencies (p_g p) id = false ->
                       In id (map k_id (p_exec p)))
         (run (worker_new cfg d h) ops).
Proof. exact exec_complete_run. Qed.
Print Assumptions exec_complete_all_histories.

(* together: clause 10 of the checker pool_invb - the executable list is sorted, its keys are exact
   keys of parentless stored transactions, every parentless stored transaction is in it - holds in
   every state reachable by any list of operations *)
Theorem inv_exec_all_histories : forall cfg d h ops,
  Forall (fun wr => inv_exec (p_g (w_pool (fst wr))) (p_exec (w_pool (fst wr))) = true)
         (run (worker_new cfg d h) ops).
Proof. exact inv_exec_run. Qed.
Print Assumptions inv_exec_all_histories.

(* ------------------------------------------------------------------ *)
(* C19. An accepted insertion implies: max_gas > 0, id not pooled, not recorded as spent, not
   in the database, blob not taken, every input passed validate_inputs (pool-created coin: output
   matches; otherwise, with utxo validation: not in the spent cache and present with equal fields
   in the database or in the extracted outputs; message: not spent, known, equal; contract:
   known), and a strictly better tip/gas ratio than the cumulative ratio of every collided
   transaction; a rejected insertion leaves the pool unchanged. *)
Theorem insert_rejects : forall p d t p', pool_insert p d t = (p', IOk) ->
  Admissible p d t /\ exists ci, can_insert_transaction p d t = inl ci /\ p' = do_insert p t ci.
Proof. exact insert_accept_facts. Qed.
Print Assumptions insert_rejects.

Theorem insert_rejection_is_noop : forall p d t p' r, pool_insert p d t = (p', r) -> r <> IOk -> p' = p.
Proof. exact insert_error_unchanged. Qed.
Print Assumptions insert_rejection_is_noop.

Theorem collision_rule : forall p d t p', CoreInv p -> pool_insert p d t = (p', IOk) ->
  In t (txs (p_g p')) /\
  forall colls, find_collisions (p_cm p) t = Good colls ->
    forall c, In c colls -> c <> t_id t -> ~ In c (tids (txs (p_g p'))).
Proof. exact insert_evicts_collisions. Qed.
Print Assumptions collision_rule.

(* "handed out and not yet settled": REFUTED without a bound on the LRU (finding P1):
   max_txs = 1 (capacity 2), extraction of a two-input transaction evicts its first coin from the
   cache, a second transaction spending that coin is accepted. *)
Theorem handed_out_inputs_rejected_refuted : exists cfg d h ops,
  check19 [] (model_trace (worker_new cfg d h) ops) = false.
Proof. exists p1_cfg, p1_db, 0, p1_ops. exact (proj1 p1_witness). Qed.
Print Assumptions handed_out_inputs_rejected_refuted.

(* ... and what holds while the LRU does not overflow (lru_not_overflowed: room for the keys):
   an extraction records the id and every coin/message input of the handed-out transaction, a
   put into a non-full cache evicts nothing, and [insert_rejects] rejects every transaction whose
   id or input is in the cache.  (The assembly of these three facts into an invariant over all
   histories is not proved.) *)
Theorem handed_out_inputs_recorded_partial : forall s id ins k,
  lenN (s_lru s) + lenN (input_keys ins) + 1 <= s_cap s ->
  In k (KTx id :: input_keys ins) -> In k (s_lru (maybe_spend_inputs s id ins)).
Proof. exact maybe_spend_records. Qed.
Print Assumptions handed_out_inputs_recorded_partial.

Theorem lru_put_no_eviction_partial : forall cap k k' l, lenN l < cap -> In k l -> In k (lru_put cap k' l).
Proof. exact lru_put_keeps. Qed.
Print Assumptions lru_put_no_eviction_partial.

(* ------------------------------------------------------------------ *)
(* C20. *)
Theorem late_preconf_noop : forall w id kind h outs, kind <> PSqueezed -> h <= w_height w ->
  process_preconfirmed_transaction w id kind h outs = w.
Proof. exact late_preconf_noop_all. Qed.
Print Assumptions late_preconf_noop.

Theorem block_included_leave : forall w h ids id, CoreInv (w_pool w) -> In id ids ->
  ~ In id (tids (txs (p_g (w_pool (process_block w h ids))))).
Proof. exact block_included_leave_all. Qed.
Print Assumptions block_included_leave.

(* a rolled back preconfirmation: outputs withdrawn, not recorded as spent (may be resubmitted),
   only removals happen to the pool *)
Theorem rollback_clears : forall p id,
  let p' := rollback_preconfirmed_transaction p id in
  amem N.eqb id (e_by_tx (p_eo p')) = false /\ amem N.eqb id (e_coins (p_eo p')) = false /\
  lru_mem (KTx id) (s_lru (p_spent p')) = false /\ amem N.eqb id (s_tentative (p_spent p')) = false.
Proof. exact rollback_clears_all. Qed.
Print Assumptions rollback_clears.

(* after the rollback of a preconfirmed transaction no pool transaction spends one of its coin
   outputs: its dependents are evicted (from every state satisfying the core invariant) *)
Theorem rollback_evicts_dependents : forall p id, Core (core_of p) ->
  forall x, In x (txs (p_g (rollback_preconfirmed_transaction p id))) ->
  forall i, In (id, i) (coin_inputs x) -> i < 65535 -> False.
Proof. exact rollback_evicts_dependents_all. Qed.
Print Assumptions rollback_evicts_dependents.

Theorem block_preserves_core : forall w h ids, CoreInv (w_pool w) -> CoreInv (w_pool (process_block w h ids)).
Proof. exact process_block_inv. Qed.
Print Assumptions block_preserves_core.

(* ------------------------------------------------------------------ *)
(* C21. For EVERY worker operation from EVERY state (no invariant needed):
   - insert accepted: the evicted transactions (collided subtrees, limit eviction) are removed and
     reported in one squeezed-out call right after the Submitted status; rejected: pool unchanged;
   - extraction / block import / preconfirmation / expiry: the transactions leaving the pool split
     into [inc] (handed out, committed by the block, preconfirmed - all among the operation's
     included ids, never reported) and [rep] whose ids are exactly the ids reported as squeezed
     out during the operation.
   [leaves_exactly_once]: such a split means every stored transaction either stays, or left as
   included, or left and was reported - exactly one of them, and no id is reported twice. *)
Theorem squeezed_exactly_once : forall w o, step_reports w o.
Proof. exact step_reports_all. Qed.
Print Assumptions squeezed_exactly_once.

Theorem leaves_exactly_once : forall p p' inc rep, Leaves p p' inc rep ->
  NoDup (map n_id inc ++ map n_id rep) /\
  (exists evs, p_log p' = p_log p ++ evs /\ sq_ids evs = map n_id rep) /\
  forall x, In x (txs (p_g p)) ->
    (In x (txs (p_g p')) /\ ~ In (t_id x) (map n_id inc) /\ ~ In (t_id x) (map n_id rep)) \/
    (~ In x (txs (p_g p')) /\ (In (t_id x) (map n_id inc) \/ In (t_id x) (map n_id rep))).
Proof. exact Leaves_exactly_once_all. Qed.
Print Assumptions leaves_exactly_once.

Theorem expiry_reports_exactly : forall ids p reason,
  exists removed,
    p_log (remove_transactions_and_dependents p ids reason) = p_log p ++ squeezed_event reason removed /\
    Rem (p_g p) (p_g (remove_transactions_and_dependents p ids reason)) removed.
Proof. exact rtd_reports. Qed.
Print Assumptions expiry_reports_exactly.

Theorem removed_exactly_once : forall g g' rm, Rem g g' rm ->
  NoDup (map n_id rm) /\
  forall x, In x (txs g) -> (In x (txs g') /\ ~ In (t_id x) (map n_id rm)) \/
                            (~ In x (txs g') /\ In (t_id x) (map n_id rm)).
Proof. exact Rem_exactly_once. Qed.
Print Assumptions removed_exactly_once.
