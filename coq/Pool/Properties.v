(* Property theorems of the Pool cluster (C16..C21). Nothing but statements, [exact], and
   Print Assumptions. *)
From FC Require Import Pool.Model Pool.ProofsBase Pool.ProofsCore Pool.ProofsRemoval Pool.ProofsOps
  Pool.ProofsInsert Pool.ProofsCheck.
Open Scope N_scope.

(* ------------------------------------------------------------------ *)
(* C16. After ANY sequence of worker operations (insert with collisions / replacements /
   dependencies / limit eviction, extraction, block import with preconfirmation rollback,
   preconfirmations, expiry, database changes), starting from the empty pool: the ids of the
   stored transactions are unique, no two stored transactions spend the same coin or message,
   create the same contract or upload the same blob, and current_gas / current_bytes_size /
   tx_id_to_storage_id.len() / the last TxPoolStats equal the sums over the stored transactions.
   Hypothesis [Fits]: the true totals fit u64 (the counters are saturating). *)
Theorem no_conflicts_all_histories : forall cfg d h ops,
  Forall (fun wr => Fits (w_pool (fst wr))) (run (worker_new cfg d h) ops) ->
  Forall (fun wr => let p := w_pool (fst wr) in
            NoDup (tids (txs (p_g p))) /\ NoConflict (txs (p_g p)) /\ AccountingExact p)
         (run (worker_new cfg d h) ops).
Proof. exact no_conflicts_run. Qed.
Print Assumptions no_conflicts_all_histories.

(* one step, from any state satisfying the core invariant (not only reachable ones) *)
Theorem core_inv_step : forall w o, CoreInv (w_pool w) -> Fits (w_pool (fst (step w o))) ->
  CoreInv (w_pool (fst (step w o))).
Proof. exact step_core. Qed.
Print Assumptions core_inv_step.

Theorem core_inv_no_conflict : forall p, CoreInv p ->
  NoDup (tids (txs (p_g p))) /\ NoConflict (txs (p_g p)) /\ AccountingExact p.
Proof. exact core_inv_no_conflict_all. Qed.
Print Assumptions core_inv_no_conflict.

(* soundness of the checker evaluated on the implementation's dumped state *)
Theorem pool_invb_no_conflict : forall p, pool_invb p = true ->
  NoDup (tids (txs (p_g p))) /\ NoConflict (txs (p_g p)) /\
  p_gas p = sumN (map t_gas (txs (p_g p))) /\ p_bytes p = sumN (map t_size (txs (p_g p))) /\
  p_stats p = (lenN (p_txmap p), p_bytes p, p_gas p).
Proof. exact pool_invb_c16. Qed.
Print Assumptions pool_invb_no_conflict.

Theorem no_conflictb_sound : forall l, no_conflictb l = true <-> ForallOrdPairs Disjoint_keys l.
Proof. exact no_conflictb_iff. Qed.
Print Assumptions no_conflictb_sound.
