(* C18: the order of the executable list is a strict total order and insertion / removal keep the list sorted. *)
From FC Require Import Pool.Model Pool.ProofsBase.
From Coq Require Import ZifyBool ZifyN ZifyNat Lia Psatz.
Open Scope N_scope.

Definition KB (a b : ekey) : Prop :=
  k_num b * k_den a < k_num a * k_den b \/
  (k_num b * k_den a = k_num a * k_den b /\
   (k_seq a < k_seq b \/ (k_seq a = k_seq b /\ k_id b < k_id a))).

Lemma key_before_KB : forall a b, key_before a b = true <-> KB a b.
Proof.
  intros a b. unfold key_before, ratio_ltb, KB.
  destruct (k_num b * k_den a <? k_num a * k_den b) eqn:E1.
  - split; [intros _; left; lia | reflexivity].
  - destruct (k_num a * k_den b <? k_num b * k_den a) eqn:E2.
    + split; [discriminate | intros [H|[H _]]; lia].
    + destruct (k_seq a <? k_seq b) eqn:E3.
      * split; [intros _; right; split; [lia | left; lia] | reflexivity].
      * destruct (k_seq b <? k_seq a) eqn:E4.
        -- split; [discriminate | intros [H|[_ [H|[H _]]]]; lia].
        -- split.
           ++ intros H. right. split; [lia|]. right. split; lia.
           ++ intros [H|[_ [H|[_ H]]]]; lia.
Qed.

Lemma ratio_trans_lt : forall na da nb db nc dc, 0 < da -> 0 < db -> 0 < dc ->
  nb * da < na * db -> nc * db <= nb * dc -> nc * da < na * dc.
Proof.
  intros. 
  assert (nc * db * da <= nb * dc * da) by nia.
  assert (nb * da * dc < na * db * dc) by nia.
  assert (nc * da * db < na * dc * db) by nia.
  nia.
Qed.
Lemma ratio_trans_le : forall na da nb db nc dc, 0 < da -> 0 < db -> 0 < dc ->
  nb * da <= na * db -> nc * db < nb * dc -> nc * da < na * dc.
Proof.
  intros.
  assert (nc * db * da < nb * dc * da) by nia.
  assert (nb * da * dc <= na * db * dc) by nia.
  assert (nc * da * db < na * dc * db) by nia.
  nia.
Qed.
Lemma ratio_trans_eq : forall na da nb db nc dc, 0 < da -> 0 < db -> 0 < dc ->
  nb * da = na * db -> nc * db = nb * dc -> nc * da = na * dc.
Proof.
  intros.
  assert (nc * db * da = nb * dc * da) by nia.
  assert (nb * da * dc = na * db * dc) by nia.
  assert (nc * da * db = na * dc * db) by nia.
  nia.
Qed.

Lemma KB_trans : forall a b c, 0 < k_den a -> 0 < k_den b -> 0 < k_den c -> KB a b -> KB b c -> KB a c.
Proof.
  intros a b c Ha Hb Hc [H1|[H1 S1]] [H2|[H2 S2]]; unfold KB.
  - left. apply (ratio_trans_lt (k_num a) (k_den a) (k_num b) (k_den b) (k_num c) (k_den c)); try assumption; lia.
  - left. apply (ratio_trans_lt (k_num a) (k_den a) (k_num b) (k_den b) (k_num c) (k_den c)); try assumption; lia.
  - left. apply (ratio_trans_le (k_num a) (k_den a) (k_num b) (k_den b) (k_num c) (k_den c)); try assumption; lia.
  - right. split; [apply (ratio_trans_eq (k_num a) (k_den a) (k_num b) (k_den b) (k_num c) (k_den c)); assumption | lia].
Qed.

Definition denpos (l : list ekey) : Prop := Forall (fun k => 0 < k_den k) l.

Lemma sorted_keys_filter : forall f l, sorted_keys l = true -> sorted_keys (filter f l) = true.
Proof.
  intros f. induction l as [|x r IH]; cbn [sorted_keys filter]; intros H; [reflexivity|].
  apply andb_true_iff in H. destruct H as [H1 H2]. destruct (f x); cbn [sorted_keys]; [|apply IH; exact H2].
  apply andb_true_iff. split; [|apply IH; exact H2].
  rewrite forallb_forall in *. intros y Hy. apply filter_In in Hy. apply H1. tauto.
Qed.

Lemma exec_place_In : forall k l y, In y (exec_place k l) <-> y = k \/ In y l.
Proof.
  intros k. induction l as [|x r IH]; intros y; cbn [exec_place In].
  - split; [intros [H|[]]; left; congruence | intros [H|[]]; left; congruence].
  - destruct (key_before k x); cbn [In]; [split; intros [H|H]; try (left; congruence); tauto|].
    rewrite IH. tauto.
Qed.

Lemma exec_place_sorted : forall k l, sorted_keys l = true -> denpos l -> 0 < k_den k ->
  (forall x, In x l -> key_same x k = false) -> sorted_keys (exec_place k l) = true.
Proof.
  intros k. induction l as [|x r IH]; intros Hs Hd Hk Hne; cbn [exec_place sorted_keys]; [reflexivity|].
  cbn [sorted_keys] in Hs. apply andb_true_iff in Hs. destruct Hs as [H1 H2].
  inversion Hd as [|? ? Hx Hr]; subst. rewrite forallb_forall in H1.
  destruct (key_before k x) eqn:E.
  - cbn [sorted_keys forallb]. rewrite E. cbn [andb]. apply andb_true_iff. split.
    + apply forallb_forall. intros y Hy. apply key_before_KB.
      eapply (KB_trans k x y); [exact Hk | exact Hx | | apply key_before_KB; exact E | apply key_before_KB; apply H1; exact Hy].
      unfold denpos in Hr. rewrite Forall_forall in Hr. apply Hr. exact Hy.
    + apply andb_true_iff. split; [apply forallb_forall; exact H1 | exact H2].
  - apply andb_true_iff. split.
    + apply forallb_forall. intros y Hy. apply exec_place_In in Hy. destruct Hy as [Hy|Hy]; [|apply H1; exact Hy].
      subst y. specialize (Hne x (or_introl eq_refl)). unfold key_same in Hne. rewrite E in Hne.
      destruct (key_before x k); [reflexivity | discriminate].
    + apply IH; [exact H2 | exact Hr | exact Hk | intros y Hy; apply Hne; right; exact Hy].
Qed.

Lemma exec_insert_sorted_all : forall k l, sorted_keys l = true -> denpos l -> 0 < k_den k ->
  sorted_keys (exec_insert k l) = true /\ denpos (exec_insert k l).
Proof.
  intros k l Hs Hd Hk. unfold exec_insert, exec_remove.
  assert (Hd' : denpos (filter (fun x => negb (key_same x k)) l)).
  { unfold denpos in *. rewrite Forall_forall in *. intros x Hx. apply filter_In in Hx. apply Hd. tauto. }
  split.
  - apply exec_place_sorted; [apply sorted_keys_filter; exact Hs | exact Hd' | exact Hk|].
    intros x Hx. apply filter_In in Hx. destruct Hx as [_ Hx]. apply negb_true_iff in Hx. exact Hx.
  - unfold denpos in *. rewrite Forall_forall in *. intros y Hy. apply exec_place_In in Hy.
    destruct Hy as [Hy|Hy]; [subst; exact Hk | apply Hd'; exact Hy].
Qed.

Lemma exec_remove_sorted_all : forall k l, sorted_keys l = true -> denpos l ->
  sorted_keys (exec_remove k l) = true /\ denpos (exec_remove k l).
Proof.
  intros k l Hs Hd. unfold exec_remove. split; [apply sorted_keys_filter; exact Hs|].
  unfold denpos in *. rewrite Forall_forall in *. intros x Hx. apply filter_In in Hx. apply Hd. tauto.
Qed.
