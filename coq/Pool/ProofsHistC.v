(* C17 over histories: the dependents-in-chain counter.  Removals never increase the counter
   number_dependents_in_chain of a stored transaction ([CntLe]); hence a bound on it ([Chain]) is
   kept by every removal function of the graph storage. *)
From FC Require Import Pool.Model Pool.ProofsBase Pool.ProofsCore Pool.ProofsRemoval Pool.ProofsOps
  Pool.ProofsInsert Pool.ProofsCheck Pool.Proofs18b Pool.Proofs20 Pool.ProofsHist1.
From Coq Require Import ZifyBool ZifyN ZifyNat.
Open Scope N_scope.

Definition CntLe (g' g : graph) : Prop :=
  forall id n', get_node g' id = Some n' -> exists n, get_node g id = Some n /\ n_cnt n' <= n_cnt n.
Definition Chain (M : N) (g : graph) : Prop :=
  forall id n, get_node g id = Some n -> n_cnt n <= M.

Lemma CntLe_refl : forall g, CntLe g g.
Proof. intros g id n H. exists n. split; [exact H | lia]. Qed.

Lemma CntLe_trans : forall g2 g1 g, CntLe g2 g1 -> CntLe g1 g -> CntLe g2 g.
Proof.
  intros g2 g1 g H2 H1 id n2 E2. destruct (H2 id n2 E2) as [n1 [E1 L1]]. destruct (H1 id n1 E1) as [n [E L]].
  exists n. split; [exact E | lia].
Qed.

Lemma Chain_le : forall M g g', CntLe g' g -> Chain M g -> Chain M g'.
Proof. intros M g g' H C id n' E. destruct (H id n' E) as [n [E0 L]]. specialize (C id n E0). lia. Qed.

Lemma remove_single_cntle : forall g id, CntLe (fst (remove_single g id)) g.
Proof.
  intros g id. destruct (remove_single g id) as [g' [n|]] eqn:R; cbn [fst].
  - destruct (remove_single_some _ _ _ _ R) as [_ [c [k [_ E]]]]. subst g'. intros a n' Ha.
    destruct (N.eq_dec a id) as [->|Hne].
    + rewrite get_node_filter_same in Ha. discriminate.
    + rewrite get_node_filter_other in Ha by exact Hne. exists n'. split; [exact Ha | lia].
  - apply remove_single_spec in R. destruct R as [-> _]. apply CntLe_refl.
Qed.

Lemma upd_node_get : forall g id f a, (forall n, ncore (f n) = ncore n) ->
  get_node (upd_node g id f) a = option_map (fun m => if n_id m =? id then f m else m) (get_node g a).
Proof.
  intros g id f a Hf. unfold get_node, upd_node. cbn [g_nodes]. apply find_map_core.
  intros n. destruct (n_id n =? id); [apply Hf | reflexivity].
Qed.

Lemma reduce_up_cntle : forall fuel g work rem, CntLe (reduce_up fuel g work rem) g.
Proof.
  induction fuel as [|f IH]; intros g work rem; cbn [reduce_up]; [apply CntLe_refl|].
  destruct work as [|id rest]; [apply CntLe_refl|].
  destruct (has_node g id); [|apply IH].
  eapply CntLe_trans; [apply IH|]. intros a n' Ha.
  rewrite upd_node_get in Ha by (intros n; reflexivity).
  destruct (get_node g a) as [m|]; [|discriminate]. cbn [option_map] in Ha. exists m. split; [reflexivity|].
  inversion Ha; subst. destruct (n_id m =? id); [|lia]. unfold reduce_node, sat_sub. cbn [n_cnt]. lia.
Qed.

Lemma bfs_cntle : forall fuel g q acc, CntLe (fst (fst (bfs fuel g q acc))) g.
Proof.
  induction fuel as [|f IH]; intros g q acc; cbn [bfs]; [apply CntLe_refl|].
  destruct q as [|r q]; [apply CntLe_refl|].
  pose proof (remove_single_cntle g r) as H1.
  destruct (remove_single g r) as [g1 [n|]]; cbn [fst] in *; [|apply CntLe_refl].
  eapply CntLe_trans; [apply IH|]. eapply CntLe_trans; [apply reduce_up_cntle | exact H1].
Qed.

Lemma remove_subtree_cntle : forall g root, CntLe (fst (fst (remove_subtree g root))) g.
Proof.
  intros g root. unfold remove_subtree. destruct (has_node g root); [apply bfs_cntle | apply CntLe_refl].
Qed.

Lemma pass_cntle : forall cs keys ps, CntLe (ps_g (pass cs keys ps)) (ps_g ps).
Proof.
  intros cs. induction keys as [|k r IH]; intros ps; cbn [pass]; [apply CntLe_refl|].
  destruct ((ps_nb ps =? 0) || (ps_gas ps =? 0) || (ps_space ps =? 0)); [apply CntLe_refl|].
  destruct (get_node (ps_g ps) (k_id k)) as [n|].
  - destruct (touches_excluded (k_excluded cs) (n_tx n)); [apply IH|].
    destruct (t_price (n_tx n) <? k_min_price cs); [apply IH|].
    destruct ((ps_gas ps <? t_gas (n_tx n)) || (ps_space ps <? t_size (n_tx n))); [apply IH|].
    match goal with |- CntLe (ps_g (pass cs r ?q)) _ => eapply CntLe_trans; [exact (IH q)|] end.
    cbn [ps_g]. apply remove_single_cntle.
  - match goal with |- CntLe (ps_g (pass cs r ?q)) _ => exact (IH q) end.
Qed.

Lemma gather_loop_cntle : forall cs fuel st, CntLe (gs_g (gather_loop fuel cs st)) (gs_g st).
Proof.
  intros cs. induction fuel as [|f IH]; intros st; cbn [gather_loop]; [apply CntLe_refl|].
  destruct ((gs_gas st =? 0) || (gs_nb st =? 0) || (gs_space st =? 0)); [apply CntLe_refl|].
  destruct (gs_exec st) as [|k0 ks] eqn:Ex; [apply CntLe_refl|].
  match goal with |- context [pass cs (k0 :: ks) ?q] =>
    pose proof (pass_cntle cs (k0 :: ks) q) as PK;
    remember (pass cs (k0 :: ks) q) as pp eqn:Epp end.
  cbn [ps_g] in PK.
  destruct (ps_clean pp) eqn:Ec; [destruct (ps_promote pp) eqn:Ep|].
  - cbn [gs_g]. exact PK.
  - match goal with |- context [fold_left ?f ?l (?e, ps_panic pp)] => destruct (fold_left f l (e, ps_panic pp)) as [ex3 pan] end.
    match goal with |- CntLe (gs_g (gather_loop f cs ?q)) _ => eapply CntLe_trans; [exact (IH q) | exact PK] end.
  - match goal with |- context [fold_left ?f ?l (?e, ps_panic pp)] => destruct (fold_left f l (e, ps_panic pp)) as [ex3 pan] end.
    match goal with |- CntLe (gs_g (gather_loop f cs ?q)) _ => eapply CntLe_trans; [exact (IH q) | exact PK] end.
Qed.

Lemma gather_cntle : forall cs g ex, CntLe (gs_g (gather_best_txs cs g ex)) g.
Proof. intros. unfold gather_best_txs. apply (gather_loop_cntle cs _ (mkGather g ex _ _ _ [] false)). Qed.

(* store_transaction: an ancestor with room gets one more dependent, the new node has one *)
Lemma store_chain : forall M g t direct all s, Chain M g -> 1 <= M ->
  (forall x n, In x all -> get_node g x = Some n -> n_cnt n < M) ->
  Chain M (store g t direct all s).
Proof.
  intros M g t direct all s HC HM Hall a n' Ha.
  destruct (store_fields g t direct all s) as [c [k [bump [_ [_ E]]]]].
  destruct (get_node g a) as [n|] eqn:Eg.
  - unfold store in Ha.
    destruct (cache_tx_infos (t_id t) (t_outs t) (g_coins g) (g_contracts g)) as [c0 k0].
    unfold get_node in Ha, Eg. cbn [g_nodes] in Ha. rewrite find_app in Ha.
    match type of Ha with context [map ?f (g_nodes g)] => set (bump0 := f) in * end.
    assert (Hb : forall m, ncore (bump0 m) = ncore m).
    { intros m. unfold bump0. destruct (memN (n_id m) all); reflexivity. }
    rewrite (find_map_core a bump0 (g_nodes g) Hb), Eg in Ha. cbn [option_map] in Ha. inversion Ha; subst n'.
    assert (Hid : n_id n = a). { apply find_some in Eg. destruct Eg as [_ Eg]. apply N.eqb_eq in Eg. exact Eg. }
    unfold bump0. destruct (memN (n_id n) all) eqn:Em.
    + cbn [n_cnt]. apply memN_In in Em. rewrite Hid in Em.
      assert (n_cnt n < M) by (apply (Hall a n Em); exact Eg). unfold sat_add. lia.
    + apply (HC a n). exact Eg.
  - destruct (N.eq_dec a (t_id t)) as [->|Hne].
    + destruct (get_node_store g t direct all s (t_id t)) as [_ [_ G3]]. cbv zeta in G3.
      rewrite (G3 Eg eq_refl) in Ha. inversion Ha; subst n'. cbn [n_cnt]. exact HM.
    + destruct (get_node_store g t direct all s a) as [_ [G2 _]]. cbv zeta in G2.
      rewrite (G2 Eg Hne) in Ha. discriminate.
Qed.
