(* Basic lemmas: membership, association lists, filters, sums. *)
From FC Require Import Pool.Model.
From Coq Require Import ZifyBool ZifyN ZifyNat Permutation.
Open Scope N_scope.

Lemma memN_In : forall x l, memN x l = true <-> In x l.
Proof.
  unfold memN. intros x l. rewrite existsb_exists. split.
  - intros [y [H1 H2]]. apply N.eqb_eq in H2. subst. exact H1.
  - intros H. exists x. split; [exact H | apply N.eqb_refl].
Qed.

Lemma memN_false : forall x l, memN x l = false <-> ~ In x l.
Proof.
  intros. rewrite <- memN_In. destruct (memN x l); split; intros; try congruence;
  try (exfalso; apply H; reflexivity).
Qed.

Lemma memN_app : forall x a b, memN x (a ++ b) = memN x a || memN x b.
Proof. intros. unfold memN. apply existsb_app. Qed.

Lemma nodupN_NoDup : forall l, nodupN l = true <-> NoDup l.
Proof.
  induction l as [|x r IH]; cbn [nodupN].
  - split; [constructor | reflexivity].
  - rewrite andb_true_iff, negb_true_iff, memN_false, IH. split.
    + intros [H1 H2]. constructor; assumption.
    + intros H. inversion H; subst. split; assumption.
Qed.

Lemma utxo_eqb_eq : forall a b, utxo_eqb a b = true <-> a = b.
Proof.
  intros [a1 a2] [b1 b2]. unfold utxo_eqb. cbn [fst snd].
  rewrite andb_true_iff, !N.eqb_eq. split.
  - intros [-> ->]. reflexivity.
  - intros H. inversion H. split; reflexivity.
Qed.

Lemma utxo_eqb_refl : forall a, utxo_eqb a a = true.
Proof. intros. apply utxo_eqb_eq. reflexivity. Qed.

Lemma memU_In : forall x l, memU x l = true <-> In x l.
Proof.
  unfold memU. intros x l. rewrite existsb_exists. split.
  - intros [y [H1 H2]]. apply utxo_eqb_eq in H2. subst. exact H1.
  - intros H. exists x. split; [exact H | apply utxo_eqb_refl].
Qed.

(* ---- association lists over a decidable key ---- *)
Section AssocLemmas.
  Context {K V : Type} (eqb : K -> K -> bool).
  Hypothesis eqb_eq : forall a b, eqb a b = true <-> a = b.

  Lemma eqb_refl' : forall a, eqb a a = true.
  Proof. intros. apply eqb_eq. reflexivity. Qed.

  Lemma eqb_neq : forall a b, eqb a b = false <-> a <> b.
  Proof.
    intros. rewrite <- eqb_eq. destruct (eqb a b); split; intros; try congruence;
    try (exfalso; apply H; reflexivity).
  Qed.

  Lemma aget_adel_same : forall k (m : list (K * V)), aget eqb k (adel eqb k m) = None.
  Proof.
    intros k m. unfold adel. induction m as [|[k' v] r IH]; cbn [filter aget fst]; [reflexivity|].
    destruct (eqb k' k) eqn:E; cbn [negb].
    - exact IH.
    - cbn [aget]. rewrite E. exact IH.
  Qed.

  Lemma aget_adel_other : forall k k' (m : list (K * V)), k <> k' ->
    aget eqb k (adel eqb k' m) = aget eqb k m.
  Proof.
    intros k k' m Hne. unfold adel. induction m as [|[k2 v] r IH]; cbn [filter aget fst]; [reflexivity|].
    destruct (eqb k2 k') eqn:E; cbn [negb].
    - apply eqb_eq in E. subst k2.
      assert (eqb k' k = false) by (apply eqb_neq; congruence). rewrite H. exact IH.
    - cbn [aget]. rewrite IH. reflexivity.
  Qed.

  Lemma aget_aset_same : forall k v (m : list (K * V)), aget eqb k (aset eqb k v m) = Some v.
  Proof.
    intros k v m. induction m as [|[k' v'] r IH]; cbn [aset aget].
    - rewrite eqb_refl'. reflexivity.
    - destruct (eqb k' k) eqn:E; cbn [aget]; rewrite E; [reflexivity | exact IH].
  Qed.

  Lemma aget_aset_other : forall k k' v (m : list (K * V)), k <> k' ->
    aget eqb k (aset eqb k' v m) = aget eqb k m.
  Proof.
    intros k k' v m Hne. induction m as [|[k2 v2] r IH]; cbn [aset aget].
    - assert (eqb k' k = false) by (apply eqb_neq; congruence). rewrite H. reflexivity.
    - destruct (eqb k2 k') eqn:E; cbn [aget].
      + apply eqb_eq in E. subst k2.
        assert (eqb k' k = false) by (apply eqb_neq; congruence). rewrite H. reflexivity.
      + rewrite IH. reflexivity.
  Qed.

  Lemma aget_In : forall k v (m : list (K * V)), aget eqb k m = Some v -> In (k, v) m.
  Proof.
    intros k v m. induction m as [|[k' v'] r IH]; cbn [aget]; [discriminate|].
    destruct (eqb k' k) eqn:E.
    - intros H. inversion H; subst. apply eqb_eq in E. subst. left. reflexivity.
    - intros H. right. apply IH. exact H.
  Qed.

  Lemma aget_None_keys : forall k (m : list (K * V)), aget eqb k m = None <-> ~ In k (map fst m).
  Proof.
    intros k m. induction m as [|[k' v'] r IH]; cbn [aget map fst In].
    - split; [intros _ H; exact H | reflexivity].
    - destruct (eqb k' k) eqn:E.
      + apply eqb_eq in E. subst. split; [discriminate | intros H; exfalso; apply H; left; reflexivity].
      + apply eqb_neq in E. rewrite IH. split.
        * intros H [H1|H1]; [congruence | apply H; exact H1].
        * intros H H1. apply H. right. exact H1.
  Qed.

  Lemma keys_adel : forall k (m : list (K * V)) x, In x (map fst (adel eqb k m)) <-> (In x (map fst m) /\ x <> k).
  Proof.
    intros k m x. unfold adel. induction m as [|[k' v'] r IH]; cbn [filter map fst In].
    - tauto.
    - destruct (eqb k' k) eqn:E; cbn [negb].
      + apply eqb_eq in E. subst. rewrite IH. split; [tauto|]. intros [[H|H] H2]; [congruence|tauto].
      + apply eqb_neq in E. cbn [map fst In]. rewrite IH. split.
        * intros [H|H]; [subst; tauto | tauto].
        * tauto.
  Qed.

  Lemma NoDup_keys_adel : forall k (m : list (K * V)), NoDup (map fst m) -> NoDup (map fst (adel eqb k m)).
  Proof.
    intros k m. unfold adel. induction m as [|[k' v'] r IH]; cbn [filter map fst]; intros H.
    - constructor.
    - inversion H; subst. destruct (eqb k' k) eqn:E; cbn [negb].
      + apply IH. assumption.
      + cbn [map fst]. constructor; [| apply IH; assumption].
        intros Hin. apply (keys_adel k r k') in Hin. tauto.
  Qed.

  Lemma keys_aset : forall k v (m : list (K * V)) x, In x (map fst (aset eqb k v m)) <-> (In x (map fst m) \/ x = k).
  Proof.
    intros k v m x. induction m as [|[k' v'] r IH]; cbn [aset map fst In].
    - split; [intros [H|[]]; right; congruence | intros [[]|H]; left; congruence].
    - destruct (eqb k' k) eqn:E; cbn [map fst In].
      + apply eqb_eq in E. subst. split; [tauto|]. intros [H|H]; [tauto | left; congruence].
      + rewrite IH. tauto.
  Qed.

  Lemma NoDup_keys_aset : forall k v (m : list (K * V)), NoDup (map fst m) -> NoDup (map fst (aset eqb k v m)).
  Proof.
    intros k v m. induction m as [|[k' v'] r IH]; cbn [aset map fst]; intros H.
    - constructor; [intros [] | constructor].
    - inversion H; subst. destruct (eqb k' k) eqn:E; cbn [map fst].
      + constructor; assumption.
      + constructor; [| apply IH; assumption].
        intros Hin. apply keys_aset in Hin. destruct Hin as [Hin|Hin]; [tauto|].
        apply eqb_neq in E. congruence.
  Qed.

  Lemma length_adel_present : forall k (m : list (K * V)), NoDup (map fst m) -> In k (map fst m) ->
    S (length (adel eqb k m)) = length m.
  Proof.
    intros k m. unfold adel. induction m as [|[k' v'] r IH]; cbn [filter map fst In length]; intros Hnd Hin.
    - destruct Hin.
    - inversion Hnd; subst. destruct (eqb k' k) eqn:E; cbn [negb].
      + apply eqb_eq in E. subst. f_equal.
        assert (Hf : filter (fun e : K * V => negb (eqb (fst e) k)) r = r).
        { clear - H1 eqb_eq. induction r as [|[k2 v2] r IH]; cbn [filter fst]; [reflexivity|].
          cbn [map fst In] in H1.
          assert (eqb k2 k = false).
          { destruct (eqb k2 k) eqn:E; [|reflexivity]. apply eqb_eq in E. subst. exfalso. apply H1. left. reflexivity. }
          rewrite H. cbn [negb]. f_equal. apply IH. intros Hx. apply H1. right. exact Hx. }
        rewrite Hf. reflexivity.
      + apply eqb_neq in E. cbn [length]. f_equal. apply IH; [assumption|].
        destruct Hin as [Hin|Hin]; [congruence | exact Hin].
  Qed.

  Lemma adel_absent : forall k (m : list (K * V)), ~ In k (map fst m) -> adel eqb k m = m.
  Proof.
    intros k m. unfold adel. induction m as [|[k' v'] r IH]; cbn [filter map fst In]; intros H; [reflexivity|].
    assert (eqb k' k = false).
    { apply eqb_neq. intros ->. apply H. left. reflexivity. }
    rewrite H0. cbn [negb]. f_equal. apply IH. intros Hx. apply H. right. exact Hx.
  Qed.

  Lemma length_aset_absent : forall k v (m : list (K * V)), ~ In k (map fst m) ->
    length (aset eqb k v m) = S (length m).
  Proof.
    intros k v m. induction m as [|[k' v'] r IH]; cbn [aset map fst In length]; intros H; [reflexivity|].
    assert (eqb k' k = false).
    { apply eqb_neq. intros ->. apply H. left. reflexivity. }
    rewrite H0. cbn [length]. f_equal. apply IH. intros Hx. apply H. right. exact Hx.
  Qed.
End AssocLemmas.

Lemma amem_spec {V} : forall k (m : list (N * V)), amem N.eqb k m = true <-> In k (map fst m).
Proof.
  intros. unfold amem. destruct (aget N.eqb k m) eqn:E.
  - split; [intros _ | reflexivity].
    apply (aget_In N.eqb N.eqb_eq) in E. apply in_map_iff. exists (k, v). split; [reflexivity | exact E].
  - apply (aget_None_keys N.eqb N.eqb_eq) in E. split; [discriminate | intros H; exfalso; apply E; exact H].
Qed.

(* ---- sums ---- *)
Lemma sumN_app : forall a b, sumN (a ++ b) = sumN a + sumN b.
Proof.
  induction a as [|x r IH]; intros; [reflexivity|].
  unfold sumN in *. cbn [app fold_right]. rewrite IH. lia.
Qed.

Lemma filter_filter {A} : forall (f g : A -> bool) l,
  filter f (filter g l) = filter (fun x => g x && f x) l.
Proof.
  induction l as [|x r IH]; cbn [filter]; [reflexivity|].
  destruct (g x); cbn [filter andb]; [destruct (f x); rewrite IH; reflexivity | exact IH].
Qed.

Lemma filter_true {A} : forall (f : A -> bool) l, (forall x, In x l -> f x = true) -> filter f l = l.
Proof.
  induction l as [|x r IH]; intros H; cbn [filter]; [reflexivity|].
  rewrite (H x (or_introl eq_refl)). f_equal. apply IH. intros y Hy. apply H. right. exact Hy.
Qed.

Lemma map_filter_comm {A B} : forall (f : A -> B) (p : B -> bool) l,
  map f (filter (fun x => p (f x)) l) = filter p (map f l).
Proof.
  induction l as [|x r IH]; cbn [filter map]; [reflexivity|].
  destruct (p (f x)); cbn [map]; rewrite IH; reflexivity.
Qed.

Lemma NoDup_app_one {A} : forall (l : list A) x, NoDup l -> ~ In x l -> NoDup (l ++ [x]).
Proof.
  induction l as [|y r IH]; intros x Hnd Hx; cbn [app].
  - constructor; [intros [] | constructor].
  - inversion Hnd; subst. constructor.
    + intros H. apply in_app_or in H. destruct H as [H|[H|[]]]; [tauto|].
      subst. apply Hx. left. reflexivity.
    + apply IH; [assumption|]. intros H. apply Hx. right. exact H.
Qed.

Lemma NoDup_app_both {A} : forall (a b : list A), NoDup a -> NoDup b ->
  (forall x, In x a -> In x b -> False) -> NoDup (a ++ b).
Proof.
  induction a as [|x r IH]; intros b Ha Hb Hd; cbn [app]; [exact Hb|].
  inversion Ha; subst. constructor.
  - intros H. apply in_app_or in H. destruct H as [H|H]; [tauto|]. apply (Hd x); [left; reflexivity | exact H].
  - apply IH; [assumption | assumption |]. intros y Hy1 Hy2. apply (Hd y); [right; exact Hy1 | exact Hy2].
Qed.
