(* The core invariant of the pool (C16): unique ids, no two pool transactions conflict, the
   collision indexes know every key of every pool transaction, tx_id_to_storage_id = node ids,
   exact accounting.  Abstract removal / insertion steps preserve it. *)
From FC Require Import Pool.Model Pool.ProofsBase.
From Coq Require Import ZifyBool ZifyN ZifyNat.
Open Scope N_scope.

Definition txs (g : graph) : list tx := map n_tx (g_nodes g).
Definition tids (l : list tx) : list N := map t_id l.

(* ---- pairwise ---- *)
Lemma pairwise_filter {A} : forall (f : A -> A -> bool) (p : A -> bool) l,
  pairwise f l = true -> pairwise f (filter p l) = true.
Proof.
  induction l as [|x r IH]; cbn [pairwise filter]; intros H; [reflexivity|].
  apply andb_true_iff in H. destruct H as [H1 H2]. destruct (p x); cbn [pairwise].
  - apply andb_true_iff. split; [| apply IH; exact H2].
    rewrite forallb_forall in *. intros y Hy. apply filter_In in Hy. apply H1. tauto.
  - apply IH. exact H2.
Qed.

Lemma pairwise_snoc {A} : forall (f : A -> A -> bool) l t,
  pairwise f l = true -> (forall x, In x l -> f x t = true) -> pairwise f (l ++ [t]) = true.
Proof.
  induction l as [|x r IH]; cbn [pairwise app]; intros t H Hall; [reflexivity|].
  apply andb_true_iff in H. destruct H as [H1 H2]. apply andb_true_iff. split.
  - rewrite forallb_app. apply andb_true_iff. split; [exact H1|].
    cbn [forallb]. rewrite Hall; [reflexivity | left; reflexivity].
  - apply IH; [exact H2|]. intros y Hy. apply Hall. right. exact Hy.
Qed.

Lemma pairwise_In {A} : forall (f : A -> A -> bool) l a b,
  pairwise f l = true -> In a l -> In b l -> a = b \/ f a b = true \/ f b a = true.
Proof.
  induction l as [|x r IH]; cbn [pairwise In]; intros a b H Ha Hb; [destruct Ha|].
  apply andb_true_iff in H. destruct H as [H1 H2]. rewrite forallb_forall in H1.
  destruct Ha as [Ha|Ha], Hb as [Hb|Hb]; subst.
  - left. reflexivity.
  - right. left. apply H1. exact Hb.
  - right. right. apply H1. exact Ha.
  - apply IH; assumption.
Qed.

(* the meaning of tx_compatible *)
Definition Disjoint_keys (a b : tx) : Prop :=
  (forall u, In u (coin_inputs a) -> ~ In u (coin_inputs b)) /\
  (forall m, In m (msg_inputs a) -> ~ In m (msg_inputs b)) /\
  (forall k, In k (created_contracts a) -> ~ In k (created_contracts b)) /\
  (forall x, t_blob a = Some x -> t_blob b <> Some x).

Lemma disjointN_spec : forall a b, disjointN a b = true <-> (forall x, In x a -> ~ In x b).
Proof.
  intros. unfold disjointN. rewrite forallb_forall. split; intros H x Hx.
  - specialize (H x Hx). apply negb_true_iff, memN_false in H. exact H.
  - apply negb_true_iff, memN_false. apply H. exact Hx.
Qed.

Lemma memU_false : forall x l, memU x l = false <-> ~ In x l.
Proof.
  intros. rewrite <- memU_In. destruct (memU x l); split; intros; try congruence;
  try (exfalso; apply H; reflexivity).
Qed.

Lemma disjointU_spec : forall a b, disjointU a b = true <-> (forall x, In x a -> ~ In x b).
Proof.
  intros. unfold disjointU. rewrite forallb_forall. split; intros H x Hx.
  - specialize (H x Hx). apply negb_true_iff, memU_false in H. exact H.
  - apply negb_true_iff, memU_false. apply H. exact Hx.
Qed.

Lemma tx_compatible_spec : forall a b, tx_compatible a b = true <-> Disjoint_keys a b.
Proof.
  intros. unfold tx_compatible, Disjoint_keys.
  rewrite !andb_true_iff, disjointU_spec, !disjointN_spec. unfold blob_list.
  split.
  - intros [[[H1 H2] H3] H4]. repeat split; try assumption.
    intros x Hx Hb. destruct (t_blob a); [|discriminate]. inversion Hx; subst.
    rewrite Hb in H4. apply (H4 x); left; reflexivity.
  - intros [H1 [H2 [H3 H4]]]. repeat split; try assumption.
    intros x Hx Hb. destruct (t_blob a) as [ba|]; [|destruct Hx].
    destruct Hx as [Hx|[]]. subst. destruct (t_blob b) as [bb|]; [|destruct Hb].
    destruct Hb as [Hb|[]]. subst. apply (H4 x); reflexivity.
Qed.

Lemma Disjoint_keys_sym : forall a b, Disjoint_keys a b -> Disjoint_keys b a.
Proof.
  unfold Disjoint_keys. intros a b [H1 [H2 [H3 H4]]]. repeat split; intros x Hx Hy.
  - apply (H1 x); assumption.
  - apply (H2 x); assumption.
  - apply (H3 x); assumption.
  - apply (H4 x); assumption.
Qed.

Lemma nc_disjoint : forall l a b, no_conflictb l = true -> In a l -> In b l ->
  t_id a <> t_id b -> Disjoint_keys a b.
Proof.
  intros l a b H Ha Hb Hne. unfold no_conflictb in H.
  destruct (pairwise_In _ _ _ _ H Ha Hb) as [E|[E|E]].
  - subst. congruence.
  - apply tx_compatible_spec. exact E.
  - apply Disjoint_keys_sym, tx_compatible_spec. exact E.
Qed.

(* ---- the indexes of the collision manager after on_removed / on_stored ---- *)
Definition del_all {K V} (eqb : K -> K -> bool) (ks : list K) (m : list (K * V)) : list (K * V) :=
  fold_left (fun m k => adel eqb k m) ks m.
Definition set_all {K V} (eqb : K -> K -> bool) (v : V) (ks : list K) (m : list (K * V)) : list (K * V) :=
  fold_left (fun m k => aset eqb k v m) ks m.

Lemma removed_inputs_fold : forall id ins c,
  let c' := fold_left (fun c i =>
              match i with
              | ICoin u _ _ _ => mkCman (c_msgs c) (adel utxo_eqb u (c_coins c)) (c_creators c) (c_users c) (c_blobs c)
              | IMsg n _ => mkCman (adel N.eqb n (c_msgs c)) (c_coins c) (c_creators c) (c_users c) (c_blobs c)
              | IContract cid => mkCman (c_msgs c) (c_coins c) (c_creators c) (users_remove cid id (c_users c)) (c_blobs c)
              end) ins c in
  c_coins c' = del_all utxo_eqb (flat_map (fun i => match i with ICoin u _ _ _ => [u] | _ => [] end) ins) (c_coins c) /\
  c_msgs c' = del_all N.eqb (flat_map (fun i => match i with IMsg n _ => [n] | _ => [] end) ins) (c_msgs c) /\
  c_creators c' = c_creators c /\ c_blobs c' = c_blobs c.
Proof.
  intros id ins. induction ins as [|i r IH]; intros c; cbn [fold_left flat_map].
  - unfold del_all. cbn. repeat split; reflexivity.
  - specialize (IH (match i with
              | ICoin u _ _ _ => mkCman (c_msgs c) (adel utxo_eqb u (c_coins c)) (c_creators c) (c_users c) (c_blobs c)
              | IMsg n _ => mkCman (adel N.eqb n (c_msgs c)) (c_coins c) (c_creators c) (c_users c) (c_blobs c)
              | IContract cid => mkCman (c_msgs c) (c_coins c) (c_creators c) (users_remove cid id (c_users c)) (c_blobs c)
              end)).
    cbv zeta in IH. destruct IH as [I1 [I2 [I3 I4]]].
    cbv zeta. rewrite I1, I2, I3, I4. unfold del_all.
    destruct i; cbn [app fold_left c_coins c_msgs c_creators c_blobs]; repeat split; reflexivity.
Qed.

Lemma removed_outputs_fold : forall outs c,
  let c' := fold_left (fun c o =>
              match o with
              | OCreated cid => mkCman (c_msgs c) (c_coins c) (adel N.eqb cid (c_creators c)) (c_users c) (c_blobs c)
              | _ => c
              end) outs c in
  c_coins c' = c_coins c /\ c_msgs c' = c_msgs c /\ c_blobs c' = c_blobs c /\
  c_creators c' = del_all N.eqb (flat_map (fun o => match o with OCreated k => [k] | _ => [] end) outs) (c_creators c).
Proof.
  induction outs as [|o r IH]; intros c; cbn [fold_left flat_map].
  - unfold del_all. cbn. repeat split; reflexivity.
  - specialize (IH (match o with
              | OCreated cid => mkCman (c_msgs c) (c_coins c) (adel N.eqb cid (c_creators c)) (c_users c) (c_blobs c)
              | _ => c
              end)).
    cbv zeta in IH. destruct IH as [I1 [I2 [I3 I4]]]. cbv zeta. rewrite I1, I2, I3, I4. unfold del_all.
    destruct o; cbn [app fold_left c_coins c_msgs c_creators c_blobs]; repeat split; reflexivity.
Qed.

Lemma on_removed_cm_fields : forall c t,
  c_coins (on_removed_cm c t) = del_all utxo_eqb (coin_inputs t) (c_coins c) /\
  c_msgs (on_removed_cm c t) = del_all N.eqb (msg_inputs t) (c_msgs c) /\
  c_creators (on_removed_cm c t) = del_all N.eqb (created_contracts t) (c_creators c) /\
  c_blobs (on_removed_cm c t) = del_all N.eqb (blob_list t) (c_blobs c).
Proof.
  intros c t. unfold on_removed_cm.
  set (c0 := match t_blob t with
             | Some b => mkCman (c_msgs c) (c_coins c) (c_creators c) (c_users c) (adel N.eqb b (c_blobs c))
             | None => c end).
  destruct (removed_outputs_fold (t_outs t)
              (fold_left (fun c i =>
                 match i with
                 | ICoin u _ _ _ => mkCman (c_msgs c) (adel utxo_eqb u (c_coins c)) (c_creators c) (c_users c) (c_blobs c)
                 | IMsg n _ => mkCman (adel N.eqb n (c_msgs c)) (c_coins c) (c_creators c) (c_users c) (c_blobs c)
                 | IContract cid => mkCman (c_msgs c) (c_coins c) (c_creators c) (users_remove cid (t_id t) (c_users c)) (c_blobs c)
                 end) (t_ins t) c0)) as [O1 [O2 [O3 O4]]].
  destruct (removed_inputs_fold (t_id t) (t_ins t) c0) as [I1 [I2 [I3 I4]]].
  cbv zeta in *. rewrite O1, O2, O3, O4, I1, I2, I3, I4.
  unfold coin_inputs, msg_inputs, created_contracts, blob_list, c0.
  destruct (t_blob t); cbn [c_coins c_msgs c_creators c_blobs del_all fold_left]; repeat split; reflexivity.
Qed.

Lemma stored_inputs_fold : forall id ins c,
  let c' := fold_left (fun c i =>
              match i with
              | ICoin u _ _ _ => mkCman (c_msgs c) (aset utxo_eqb u id (c_coins c)) (c_creators c) (c_users c) (c_blobs c)
              | IMsg n _ => mkCman (aset N.eqb n id (c_msgs c)) (c_coins c) (c_creators c) (c_users c) (c_blobs c)
              | IContract cid => mkCman (c_msgs c) (c_coins c) (c_creators c) (users_push cid id (c_users c)) (c_blobs c)
              end) ins c in
  c_coins c' = set_all utxo_eqb id (flat_map (fun i => match i with ICoin u _ _ _ => [u] | _ => [] end) ins) (c_coins c) /\
  c_msgs c' = set_all N.eqb id (flat_map (fun i => match i with IMsg n _ => [n] | _ => [] end) ins) (c_msgs c) /\
  c_creators c' = c_creators c /\ c_blobs c' = c_blobs c.
Proof.
  intros id ins. induction ins as [|i r IH]; intros c; cbn [fold_left flat_map].
  - unfold set_all. cbn. repeat split; reflexivity.
  - specialize (IH (match i with
              | ICoin u _ _ _ => mkCman (c_msgs c) (aset utxo_eqb u id (c_coins c)) (c_creators c) (c_users c) (c_blobs c)
              | IMsg n _ => mkCman (aset N.eqb n id (c_msgs c)) (c_coins c) (c_creators c) (c_users c) (c_blobs c)
              | IContract cid => mkCman (c_msgs c) (c_coins c) (c_creators c) (users_push cid id (c_users c)) (c_blobs c)
              end)).
    cbv zeta in IH. destruct IH as [I1 [I2 [I3 I4]]].
    cbv zeta. rewrite I1, I2, I3, I4. unfold set_all.
    destruct i; cbn [app fold_left c_coins c_msgs c_creators c_blobs]; repeat split; reflexivity.
Qed.

Lemma stored_outputs_fold : forall id outs c,
  let c' := fold_left (fun c o =>
              match o with
              | OCreated cid => mkCman (c_msgs c) (c_coins c) (aset N.eqb cid id (c_creators c)) (c_users c) (c_blobs c)
              | _ => c
              end) outs c in
  c_coins c' = c_coins c /\ c_msgs c' = c_msgs c /\ c_blobs c' = c_blobs c /\
  c_creators c' = set_all N.eqb id (flat_map (fun o => match o with OCreated k => [k] | _ => [] end) outs) (c_creators c).
Proof.
  intros id. induction outs as [|o r IH]; intros c; cbn [fold_left flat_map].
  - unfold set_all. cbn. repeat split; reflexivity.
  - specialize (IH (match o with
              | OCreated cid => mkCman (c_msgs c) (c_coins c) (aset N.eqb cid id (c_creators c)) (c_users c) (c_blobs c)
              | _ => c
              end)).
    cbv zeta in IH. destruct IH as [I1 [I2 [I3 I4]]]. cbv zeta. rewrite I1, I2, I3, I4. unfold set_all.
    destruct o; cbn [app fold_left c_coins c_msgs c_creators c_blobs]; repeat split; reflexivity.
Qed.

Lemma on_stored_fields : forall c t,
  c_coins (on_stored_transaction c t) = set_all utxo_eqb (t_id t) (coin_inputs t) (c_coins c) /\
  c_msgs (on_stored_transaction c t) = set_all N.eqb (t_id t) (msg_inputs t) (c_msgs c) /\
  c_creators (on_stored_transaction c t) = set_all N.eqb (t_id t) (created_contracts t) (c_creators c) /\
  c_blobs (on_stored_transaction c t) = set_all N.eqb (t_id t) (blob_list t) (c_blobs c).
Proof.
  intros c t. unfold on_stored_transaction.
  set (c0 := match t_blob t with
             | Some b => mkCman (c_msgs c) (c_coins c) (c_creators c) (c_users c) (aset N.eqb b (t_id t) (c_blobs c))
             | None => c end).
  destruct (stored_outputs_fold (t_id t) (t_outs t)
              (fold_left (fun c i =>
                 match i with
                 | ICoin u _ _ _ => mkCman (c_msgs c) (aset utxo_eqb u (t_id t) (c_coins c)) (c_creators c) (c_users c) (c_blobs c)
                 | IMsg n _ => mkCman (aset N.eqb n (t_id t) (c_msgs c)) (c_coins c) (c_creators c) (c_users c) (c_blobs c)
                 | IContract cid => mkCman (c_msgs c) (c_coins c) (c_creators c) (users_push cid (t_id t) (c_users c)) (c_blobs c)
                 end) (t_ins t) c0)) as [O1 [O2 [O3 O4]]].
  destruct (stored_inputs_fold (t_id t) (t_ins t) c0) as [I1 [I2 [I3 I4]]].
  cbv zeta in *. rewrite O1, O2, O3, O4, I1, I2, I3, I4.
  unfold coin_inputs, msg_inputs, created_contracts, blob_list, c0.
  destruct (t_blob t); cbn [c_coins c_msgs c_creators c_blobs set_all fold_left]; repeat split; reflexivity.
Qed.

Section FoldAssoc.
  Context {K V : Type} (eqb : K -> K -> bool).
  Hypothesis eqb_eq : forall a b, eqb a b = true <-> a = b.

  Lemma aget_del_all_other : forall ks k (m : list (K * V)), ~ In k ks ->
    aget eqb k (del_all eqb ks m) = aget eqb k m.
  Proof.
    unfold del_all. induction ks as [|x r IH]; intros k m H; cbn [fold_left]; [reflexivity|].
    rewrite IH; [| intros Hx; apply H; right; exact Hx].
    apply (aget_adel_other eqb eqb_eq). intros ->. apply H. left. reflexivity.
  Qed.

  Lemma aget_set_all_other : forall ks v k (m : list (K * V)), ~ In k ks ->
    aget eqb k (set_all eqb v ks m) = aget eqb k m.
  Proof.
    unfold set_all. induction ks as [|x r IH]; intros v k m H; cbn [fold_left]; [reflexivity|].
    rewrite IH; [| intros Hx; apply H; right; exact Hx].
    apply (aget_aset_other eqb eqb_eq). intros ->. apply H. left. reflexivity.
  Qed.

  Lemma aget_set_all_in : forall ks v k (m : list (K * V)), In k ks ->
    aget eqb k (set_all eqb v ks m) = Some v.
  Proof.
    unfold set_all. induction ks as [|x r IH]; intros v k m H; cbn [fold_left]; [destruct H|].
    destruct (existsb (fun y => eqb y k) r) eqn:E.
    - apply existsb_exists in E. destruct E as [y [Hy1 Hy2]]. apply eqb_eq in Hy2. subst.
      apply IH. exact Hy1.
    - assert (Hn : ~ In k r).
      { intros Hin. assert (existsb (fun y => eqb y k) r = true).
        { apply existsb_exists. exists k. split; [exact Hin | apply eqb_eq; reflexivity]. }
        congruence. }
      fold (set_all eqb v r (aset eqb x v m)). rewrite aget_set_all_other by assumption.
      destruct H as [H|H]; [subst | contradiction]. apply (aget_aset_same eqb eqb_eq).
  Qed.
End FoldAssoc.

(* ---- the abstract core state ---- *)
Definition core := (list tx * cman * list (N * N) * N * N)%type.

Definition cm_complete (l : list tx) (c : cman) : Prop :=
  forall t, In t l ->
    (forall u, In u (coin_inputs t) -> aget utxo_eqb u (c_coins c) = Some (t_id t)) /\
    (forall m, In m (msg_inputs t) -> aget N.eqb m (c_msgs c) = Some (t_id t)) /\
    (forall k, In k (created_contracts t) -> aget N.eqb k (c_creators c) = Some (t_id t)) /\
    (forall b, t_blob t = Some b -> aget N.eqb b (c_blobs c) = Some (t_id t)).

Definition Core (st : core) : Prop :=
  let '(l, c, m, gas, bytes) := st in
  NoDup (tids l) /\ no_conflictb l = true /\ cm_complete l c /\
  NoDup (map fst m) /\ (forall id, In id (map fst m) <-> In id (tids l)) /\
  gas = sumN (map t_gas l) /\ bytes = sumN (map t_size l).

Definition rm_core (st : core) (t : tx) : core :=
  let '(l, c, m, gas, bytes) := st in
  (filter (fun x => negb (t_id x =? t_id t)) l, on_removed_cm c t, adel N.eqb (t_id t) m,
   sat_sub gas (t_gas t), sat_sub bytes (t_size t)).

Definition ins_core (st : core) (t : tx) : core :=
  let '(l, c, m, gas, bytes) := st in
  (l ++ [t], on_stored_transaction c t, aset N.eqb (t_id t) (t_id t) m,
   sat_add u64max gas (t_gas t), sat_add u64max bytes (t_size t)).

Lemma tids_filter : forall id l,
  tids (filter (fun x => negb (t_id x =? id)) l) = filter (fun i => negb (i =? id)) (tids l).
Proof. intros. unfold tids. apply (map_filter_comm t_id (fun i => negb (i =? id))). Qed.

Lemma In_tids_filter : forall id l x,
  In x (tids (filter (fun y => negb (t_id y =? id)) l)) <-> (In x (tids l) /\ x <> id).
Proof.
  intros. rewrite tids_filter, filter_In, negb_true_iff, N.eqb_neq. tauto.
Qed.

Lemma sum_filter_remove : forall (f : tx -> N) l t, NoDup (tids l) -> In t l ->
  sumN (map f (filter (fun x => negb (t_id x =? t_id t)) l)) + f t = sumN (map f l).
Proof.
  intros f l t. induction l as [|x r IH]; intros Hnd Hin; [destruct Hin|].
  cbn [tids map] in Hnd. inversion Hnd; subst. cbn [filter].
  destruct Hin as [Hin|Hin].
  - subst x. rewrite N.eqb_refl. cbn [negb].
    rewrite filter_true.
    + unfold sumN. cbn [map fold_right]. lia.
    + intros y Hy. apply negb_true_iff, N.eqb_neq. intros E. apply H1. rewrite <- E.
      apply in_map. exact Hy.
  - assert (t_id x <> t_id t).
    { intros E. apply H1. rewrite E. apply in_map. exact Hin. }
    apply N.eqb_neq in H. rewrite H. cbn [negb map]. unfold sumN in *. cbn [fold_right].
    specialize (IH H2 Hin). lia.
Qed.

Lemma rm_core_inv : forall st t, Core st -> In t (fst (fst (fst (fst st)))) -> Core (rm_core st t).
Proof.
  intros [[[[l c] m] gas] bytes] t HC Hin. cbn [fst] in Hin. unfold Core, rm_core in *.
  destruct HC as [Hnd [Hnc [Hcm [Hmd [Hmk [Hg Hb]]]]]].
  destruct (on_removed_cm_fields c t) as [F1 [F2 [F3 F4]]].
  repeat split.
  - rewrite tids_filter. apply NoDup_filter. exact Hnd.
  - apply pairwise_filter. exact Hnc.
  - intros u Hu. rewrite F1. apply filter_In in H. destruct H as [Hx Hne].
    apply negb_true_iff, N.eqb_neq in Hne.
    rewrite (aget_del_all_other utxo_eqb utxo_eqb_eq).
    + apply (Hcm t0 Hx). exact Hu.
    + destruct (nc_disjoint l t0 t Hnc Hx Hin Hne) as [D _]. apply D. exact Hu.
  - intros u Hu. rewrite F2. apply filter_In in H. destruct H as [Hx Hne].
    apply negb_true_iff, N.eqb_neq in Hne.
    rewrite (aget_del_all_other N.eqb N.eqb_eq).
    + apply (Hcm t0 Hx). exact Hu.
    + destruct (nc_disjoint l t0 t Hnc Hx Hin Hne) as [_ [D _]]. apply D. exact Hu.
  - intros u Hu. rewrite F3. apply filter_In in H. destruct H as [Hx Hne].
    apply negb_true_iff, N.eqb_neq in Hne.
    rewrite (aget_del_all_other N.eqb N.eqb_eq).
    + apply (Hcm t0 Hx). exact Hu.
    + destruct (nc_disjoint l t0 t Hnc Hx Hin Hne) as [_ [_ [D _]]]. apply D. exact Hu.
  - intros u Hu. rewrite F4. apply filter_In in H. destruct H as [Hx Hne].
    apply negb_true_iff, N.eqb_neq in Hne.
    rewrite (aget_del_all_other N.eqb N.eqb_eq).
    + apply (Hcm t0 Hx). exact Hu.
    + destruct (nc_disjoint l t0 t Hnc Hx Hin Hne) as [_ [_ [_ D]]].
      unfold blob_list. destruct (t_blob t) as [bt|] eqn:Eb; [|intros []].
      intros [E|[]]. subst. apply (D u Hu); first [reflexivity | exact Eb].
  - apply (NoDup_keys_adel N.eqb N.eqb_eq). exact Hmd.
  - intros H. apply (keys_adel N.eqb N.eqb_eq) in H. apply In_tids_filter. rewrite <- Hmk. exact H.
  - intros H. apply In_tids_filter in H. apply (keys_adel N.eqb N.eqb_eq). rewrite Hmk. exact H.
  - unfold sat_sub. pose proof (sum_filter_remove t_gas l t Hnd Hin). lia.
  - unfold sat_sub. pose proof (sum_filter_remove t_size l t Hnd Hin). lia.
Qed.

Definition rm_all (st : core) (ts : list tx) : core := fold_left rm_core ts st.

Lemma rm_core_txs : forall st t,
  fst (fst (fst (fst (rm_core st t)))) = filter (fun x => negb (t_id x =? t_id t)) (fst (fst (fst (fst st)))).
Proof. intros [[[[l c] m] gas] bytes] t. reflexivity. Qed.

Lemma rm_all_inv : forall ts st, Core st -> NoDup (tids ts) ->
  (forall t, In t ts -> In t (fst (fst (fst (fst st))))) -> Core (rm_all st ts).
Proof.
  unfold rm_all. induction ts as [|t r IH]; intros st HC Hnd Hin; cbn [fold_left]; [exact HC|].
  cbn [tids map] in Hnd. inversion Hnd; subst.
  apply IH.
  - apply rm_core_inv; [exact HC | apply Hin; left; reflexivity].
  - exact H2.
  - intros x Hx. rewrite rm_core_txs. apply filter_In. split; [apply Hin; right; exact Hx|].
    apply negb_true_iff, N.eqb_neq. intros E. apply H1. rewrite <- E. apply in_map. exact Hx.
Qed.

(* components of rm_all *)
Lemma rm_all_components : forall ts l c m gas bytes,
  rm_all (l, c, m, gas, bytes) ts =
  (filter (fun x => negb (memN (t_id x) (tids ts))) l,
   fold_left on_removed_cm ts c,
   fold_left (fun m t => adel N.eqb (t_id t) m) ts m,
   fold_left (fun g t => sat_sub g (t_gas t)) ts gas,
   fold_left (fun b t => sat_sub b (t_size t)) ts bytes).
Proof.
  unfold rm_all. induction ts as [|t r IH]; intros; cbn [fold_left tids map].
  - rewrite filter_true; [reflexivity | intros; reflexivity].
  - unfold rm_core at 2. rewrite IH. rewrite filter_filter.
    assert (E : filter (fun x => negb (t_id x =? t_id t) && negb (memN (t_id x) (tids r))) l =
                filter (fun x => negb (memN (t_id x) (t_id t :: map t_id r))) l).
    { apply filter_ext. intros x. unfold memN, tids. cbn [existsb]. rewrite negb_orb. reflexivity. }
    rewrite E. reflexivity.
Qed.

(* insertion *)
Lemma ins_core_inv : forall st t, Core st ->
  ~ In (t_id t) (tids (fst (fst (fst (fst st))))) ->
  (forall x, In x (fst (fst (fst (fst st)))) -> Disjoint_keys x t) ->
  (let '(l, c, m, gas, bytes) := st in
   gas + t_gas t <= u64max /\ bytes + t_size t <= u64max) ->
  Core (ins_core st t).
Proof.
  intros [[[[l c] m] gas] bytes] t HC Hfresh Hdis Hfit. cbn [fst] in *. unfold Core, ins_core in *.
  destruct HC as [Hnd [Hnc [Hcm [Hmd [Hmk [Hg Hb]]]]]].
  destruct (on_stored_fields c t) as [F1 [F2 [F3 F4]]].
  repeat split.
  - unfold tids. rewrite map_app. cbn [map]. apply NoDup_app_one; assumption.
  - apply pairwise_snoc; [exact Hnc|]. intros x Hx. apply tx_compatible_spec. apply Hdis. exact Hx.
  - intros u Hu. rewrite F1. apply in_app_or in H. destruct H as [Hx|[Hx|[]]].
    + rewrite (aget_set_all_other utxo_eqb utxo_eqb_eq).
      * apply (Hcm t0 Hx). exact Hu.
      * destruct (Hdis t0 Hx) as [D _]. apply D. exact Hu.
    + subst t0. apply (aget_set_all_in utxo_eqb utxo_eqb_eq). exact Hu.
  - intros u Hu. rewrite F2. apply in_app_or in H. destruct H as [Hx|[Hx|[]]].
    + rewrite (aget_set_all_other N.eqb N.eqb_eq).
      * apply (Hcm t0 Hx). exact Hu.
      * destruct (Hdis t0 Hx) as [_ [D _]]. apply D. exact Hu.
    + subst t0. apply (aget_set_all_in N.eqb N.eqb_eq). exact Hu.
  - intros u Hu. rewrite F3. apply in_app_or in H. destruct H as [Hx|[Hx|[]]].
    + rewrite (aget_set_all_other N.eqb N.eqb_eq).
      * apply (Hcm t0 Hx). exact Hu.
      * destruct (Hdis t0 Hx) as [_ [_ [D _]]]. apply D. exact Hu.
    + subst t0. apply (aget_set_all_in N.eqb N.eqb_eq). exact Hu.
  - intros u Hu. rewrite F4. apply in_app_or in H. destruct H as [Hx|[Hx|[]]].
    + rewrite (aget_set_all_other N.eqb N.eqb_eq).
      * apply (Hcm t0 Hx). exact Hu.
      * destruct (Hdis t0 Hx) as [_ [_ [_ D]]]. unfold blob_list.
        destruct (t_blob t) as [bt|] eqn:Eb; [|intros []]. intros [E|[]]. subst.
        apply (D u Hu); first [reflexivity | exact Eb].
    + subst t0. apply (aget_set_all_in N.eqb N.eqb_eq). unfold blob_list. rewrite Hu. left. reflexivity.
  - apply (NoDup_keys_aset N.eqb N.eqb_eq). exact Hmd.
  - intros H. apply (keys_aset N.eqb N.eqb_eq) in H. unfold tids. rewrite map_app. apply in_or_app.
    cbn [map In]. destruct H as [H|H]; [left; apply Hmk; exact H | right; left; congruence].
  - intros H. unfold tids in H. rewrite map_app in H. apply in_app_or in H.
    apply (keys_aset N.eqb N.eqb_eq). cbn [map In] in H.
    destruct H as [H|[H|[]]]; [left; apply Hmk; exact H | right; congruence].
  - rewrite map_app, sumN_app. unfold sat_add, sumN at 2. cbn [map fold_right]. lia.
  - rewrite map_app, sumN_app. unfold sat_add, sumN at 2. cbn [map fold_right]. lia.
Qed.
