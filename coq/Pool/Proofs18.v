(* C18: what gather_best_txs / extract_transactions_for_block hand out. *)
From FC Require Import Pool.Model Pool.ProofsBase Pool.ProofsCore Pool.ProofsRemoval Pool.ProofsOps Pool.ProofsInsert.
From Coq Require Import ZifyBool ZifyN ZifyNat.
Open Scope N_scope.

Definition tx_allowed (cs : constraints) (t : tx) : Prop :=
  k_min_price cs <= t_price t /\ touches_excluded (k_excluded cs) t = false.

(* the budget invariant of the selection loop *)
Definition Budget (cs : constraints) (res : list node) (gas space nb : N) : Prop :=
  sumN (map (fun n => t_gas (n_tx n)) res) + gas <= k_max_gas cs /\
  sumN (map (fun n => t_size (n_tx n)) res) + space <= k_max_size cs /\
  lenN res + nb <= k_max_txs cs /\
  Forall (fun n => tx_allowed cs (n_tx n)) res.

Lemma lenN_app_one {A} : forall (l : list A) x, lenN (l ++ [x]) = lenN l + 1.
Proof. intros. unfold lenN. rewrite app_length. cbn [length]. lia. Qed.

Lemma pass_budget : forall cs keys ps,
  Budget cs (ps_result ps) (ps_gas ps) (ps_space ps) (ps_nb ps) ->
  Budget cs (ps_result (pass cs keys ps)) (ps_gas (pass cs keys ps)) (ps_space (pass cs keys ps))
         (ps_nb (pass cs keys ps)).
Proof.
  intros cs. induction keys as [|k r IH]; intros ps HB; cbn [pass]; [exact HB|].
  destruct ((ps_nb ps =? 0) || (ps_gas ps =? 0) || (ps_space ps =? 0)) eqn:Ez; [exact HB|].
  destruct (get_node (ps_g ps) (k_id k)) as [n|]; [|apply IH; exact HB].
  destruct (touches_excluded (k_excluded cs) (n_tx n)) eqn:Et; [apply IH; exact HB|].
  destruct (t_price (n_tx n) <? k_min_price cs) eqn:Ep; [apply IH; exact HB|].
  destruct ((ps_gas ps <? t_gas (n_tx n)) || (ps_space ps <? t_size (n_tx n))) eqn:Ef; [apply IH; exact HB|].
  apply IH. cbn [ps_result ps_gas ps_space ps_nb].
  destruct HB as [B1 [B2 [B3 B4]]]. unfold Budget, sat_sub.
  rewrite !map_app, !sumN_app, lenN_app_one. unfold sumN at 2 4. cbn [map fold_right].
  repeat split; try lia.
  apply Forall_app. split; [exact B4|]. constructor; [|constructor]. unfold tx_allowed. split; [lia | exact Et].
Qed.

Lemma gather_loop_budget : forall cs fuel s,
  Budget cs (gs_result s) (gs_gas s) (gs_space s) (gs_nb s) ->
  let s' := gather_loop fuel cs s in
  Budget cs (gs_result s') (gs_gas s') (gs_space s') (gs_nb s').
Proof.
  intros cs. induction fuel as [|f IH]; intros s HB; cbn [gather_loop]; [exact HB|].
  destruct ((gs_gas s =? 0) || (gs_nb s =? 0) || (gs_space s =? 0)); [exact HB|].
  destruct (gs_exec s) as [|k0 ks] eqn:Ex; [exact HB|].
  match goal with |- context [pass cs (k0 :: ks) ?q] =>
    pose proof (pass_budget cs (k0 :: ks) q HB) as HP end.
  match goal with |- context [pass cs (k0 :: ks) ?q] =>
    remember (pass cs (k0 :: ks) q) as pp eqn:Epp end.
  cbv zeta.
  destruct (ps_clean pp) eqn:Ec; [destruct (ps_promote pp) eqn:Ep|].
  - cbn [gs_result gs_gas gs_space gs_nb]. exact HP.
  - match goal with |- context [fold_left ?f ?l (?e, ps_panic pp)] => destruct (fold_left f l (e, ps_panic pp)) as [ex3 pan] end.
    apply IH. cbn [gs_result gs_gas gs_space gs_nb]. exact HP.
  - match goal with |- context [fold_left ?f ?l (?e, ps_panic pp)] => destruct (fold_left f l (e, ps_panic pp)) as [ex3 pan] end.
    apply IH. cbn [gs_result gs_gas gs_space gs_nb]. exact HP.
Qed.

Lemma gather_respects : forall cs g ex,
  let res := map n_tx (gs_result (gather_best_txs cs g ex)) in
  sumN (map t_gas res) <= k_max_gas cs /\ sumN (map t_size res) <= k_max_size cs /\
  lenN res <= k_max_txs cs /\ Forall (tx_allowed cs) res.
Proof.
  intros cs g ex. unfold gather_best_txs.
  match goal with |- context [gather_loop ?f cs ?q] =>
    assert (HB : Budget cs (gs_result q) (gs_gas q) (gs_space q) (gs_nb q)) end.
  { unfold Budget, lenN, sumN. cbn [gs_result gs_gas gs_space gs_nb map length fold_right N.of_nat].
    split; [lia|]. split; [lia|]. split; [lia|]. constructor. }
  apply gather_loop_budget with (fuel := S (length (g_nodes g))) in HB. cbv zeta in HB.
  destruct HB as [B1 [B2 [B3 B4]]]. cbv zeta. rewrite !map_map. unfold lenN in *. rewrite map_length.
  repeat split; try lia. apply Forall_map. exact B4.
Qed.

(* the pool's extraction hands out exactly gather_best_txs's result, and removes it *)
Lemma extract_result : forall p cs,
  snd (extract_transactions_for_block p cs) = gs_result (gather_best_txs cs (p_g p) (p_exec p)).
Proof. reflexivity. Qed.

Lemma fold_uor_g : forall (F : pool -> node -> pool), (forall p n, p_g (F p n) = p_g p) ->
  forall rs p0, p_g (fold_left (fun p n => update_on_removal (F p n) [n]) rs p0) = p_g p0.
Proof.
  intros F HF. induction rs as [|n r IH]; intros p0; cbn [fold_left]; [reflexivity|].
  rewrite IH. destruct (update_on_removal_fields [n] (F p0 n)) as [I1 _]. cbv zeta in I1. rewrite I1. apply HF.
Qed.

Lemma extract_graph : forall p cs,
  p_g (fst (extract_transactions_for_block p cs)) = gs_g (gather_best_txs cs (p_g p) (p_exec p)).
Proof.
  intros. unfold extract_transactions_for_block. cbn [fst update_stats p_g].
  rewrite (fold_uor_g (fun p n => with_spent (with_eo p (new_extracted_transaction (p_eo p) (n_tx n)))
                                    (maybe_spend_inputs (p_spent p) (t_id (n_tx n)) (t_ins (n_tx n)))))
    by (intros; reflexivity).
  reflexivity.
Qed.

Lemma extracted_leave : forall p cs n, In n (snd (extract_transactions_for_block p cs)) ->
  In (n_tx n) (txs (p_g p)) /\
  ~ In (n_id n) (tids (txs (p_g (fst (extract_transactions_for_block p cs))))).
Proof.
  intros p cs n Hn. rewrite extract_result in Hn. rewrite extract_graph.
  destruct (gather_rem cs (p_g p) (p_exec p)) as [R1 [R2 R3]].
  rewrite Forall_forall in R2. split; [apply R2; exact Hn|].
  rewrite R1. unfold tids. intros Hin. apply in_map_iff in Hin. destruct Hin as [x [Hx1 Hx2]].
  apply filter_In in Hx2. destruct Hx2 as [_ Hx2]. apply negb_true_iff, memN_false in Hx2.
  apply Hx2. rewrite Hx1. apply in_map. exact Hn.
Qed.

Lemma extracted_distinct : forall p cs,
  NoDup (map n_id (snd (extract_transactions_for_block p cs))).
Proof.
  intros. rewrite extract_result. destruct (gather_rem cs (p_g p) (p_exec p)) as [_ [_ R3]]. exact R3.
Qed.

Lemma extraction_all : forall p cs, CoreInv p ->
  let res := map n_tx (snd (extract_transactions_for_block p cs)) in
  sumN (map t_gas res) <= k_max_gas cs /\ sumN (map t_size res) <= k_max_size cs /\
  lenN res <= k_max_txs cs /\ Forall (tx_allowed cs) res /\
  NoDup (tids res) /\ NoConflict res /\
  (forall t, In t res -> In t (txs (p_g p)) /\
             ~ In (t_id t) (tids (txs (p_g (fst (extract_transactions_for_block p cs)))))).
Proof.
  intros p cs HI. cbv zeta. rewrite extract_result.
  destruct (gather_respects cs (p_g p) (p_exec p)) as [G1 [G2 [G3 G4]]]. cbv zeta in *.
  split; [exact G1|]. split; [exact G2|]. split; [exact G3|]. split; [exact G4|].
  assert (Hin : forall t, In t (map n_tx (gs_result (gather_best_txs cs (p_g p) (p_exec p)))) ->
                In t (txs (p_g p)) /\
                ~ In (t_id t) (tids (txs (p_g (fst (extract_transactions_for_block p cs)))))).
  { intros t Ht. apply in_map_iff in Ht. destruct Ht as [n [Hn1 Hn2]]. subst t.
    apply (extracted_leave p cs n). rewrite extract_result. exact Hn2. }
  split; [|split; [|exact Hin]].
  - unfold tids. rewrite map_map. pose proof (extracted_distinct p cs) as D. rewrite extract_result in D. exact D.
  - destruct (core_inv_no_conflict_all p HI) as [_ [NC _]].
    intros a b Ha Hb Hne. apply NC; [apply Hin; exact Ha | apply Hin; exact Hb | exact Hne].
Qed.

(* ---- ordering within one pass ---- *)
Inductive sublist {A} : list A -> list A -> Prop :=
| sub_nil : forall l, sublist [] l
| sub_take : forall x a b, sublist a b -> sublist (x :: a) (x :: b)
| sub_skip : forall x a b, sublist a b -> sublist a (x :: b).

Lemma sublist_In {A} : forall (a b : list A), sublist a b -> forall x, In x a -> In x b.
Proof.
  induction 1; intros y Hy.
  - destruct Hy.
  - destruct Hy as [Hy|Hy]; [left; exact Hy | right; apply IHsublist; exact Hy].
  - right. apply IHsublist. exact Hy.
Qed.

Lemma sorted_sublist : forall a b, sublist a b -> sorted_keys b = true -> sorted_keys a = true.
Proof.
  induction 1; intros Hs; cbn [sorted_keys] in *.
  - reflexivity.
  - apply andb_true_iff in Hs. destruct Hs as [H1 H2]. apply andb_true_iff. split; [|apply IHsublist; exact H2].
    rewrite forallb_forall in *. intros y Hy. apply H1. eapply sublist_In; eassumption.
  - apply andb_true_iff in Hs. destruct Hs as [_ H2]. apply IHsublist. exact H2.
Qed.

Lemma pass_clean_sublist : forall cs keys ps,
  exists sel new, ps_clean (pass cs keys ps) = ps_clean ps ++ sel /\
                  ps_result (pass cs keys ps) = ps_result ps ++ new /\
                  sublist sel keys /\ map k_id sel = map n_id new.
Proof.
  intros cs. induction keys as [|k r IH]; intros ps; cbn [pass].
  - exists [], []. rewrite !app_nil_r. repeat split; constructor.
  - destruct ((ps_nb ps =? 0) || (ps_gas ps =? 0) || (ps_space ps =? 0)).
    { exists [], []. rewrite !app_nil_r. repeat split; constructor. }
    assert (Skip : forall q, ps_clean q = ps_clean ps -> ps_result q = ps_result ps ->
              exists sel new, ps_clean (pass cs r q) = ps_clean ps ++ sel /\
                ps_result (pass cs r q) = ps_result ps ++ new /\
                sublist sel (k :: r) /\ map k_id sel = map n_id new).
    { intros q Hc Hr. destruct (IH q) as [sel [new [S1 [S2 [S3 S4]]]]]. exists sel, new. rewrite <- Hc, <- Hr.
      split; [exact S1|]. split; [exact S2|]. split; [constructor; exact S3 | exact S4]. }
    destruct (get_node (ps_g ps) (k_id k)) as [n|] eqn:E; [|apply Skip; reflexivity].
    destruct (touches_excluded (k_excluded cs) (n_tx n)); [apply Skip; reflexivity|].
    destruct (t_price (n_tx n) <? k_min_price cs); [apply Skip; reflexivity|].
    destruct ((ps_gas ps <? t_gas (n_tx n)) || (ps_space ps <? t_size (n_tx n))); [apply Skip; reflexivity|].
    match goal with |- context [pass cs r ?q] => destruct (IH q) as [sel [new [S1 [S2 [S3 S4]]]]] end.
    cbn [ps_clean ps_result] in S1, S2. exists (k :: sel), (n :: new). split; [|split; [|split]].
    + rewrite S1, <- app_assoc. reflexivity.
    + rewrite S2, <- app_assoc. reflexivity.
    + constructor. exact S3.
    + cbn [map]. rewrite S4. apply get_node_some in E. destruct E as [_ E]. rewrite E. reflexivity.
Qed.

Lemma key_before_ratio : forall a b, key_before a b = true ->
  ratio_ltb (k_num a) (k_den a) (k_num b) (k_den b) = false.
Proof.
  intros a b H. unfold key_before, ratio_ltb in *.
  destruct (k_num b * k_den a <? k_num a * k_den b) eqn:E1; [lia|].
  destruct (k_num a * k_den b <? k_num b * k_den a) eqn:E2; [discriminate | reflexivity].
Qed.

Lemma pass_ratio_order : forall cs keys ps, sorted_keys keys = true -> ps_clean ps = [] ->
  sorted_keys (ps_clean (pass cs keys ps)) = true.
Proof.
  intros cs keys ps Hs Hc. destruct (pass_clean_sublist cs keys ps) as [sel [new [S1 [_ [S3 _]]]]].
  rewrite S1, Hc. cbn [app]. eapply sorted_sublist; eassumption.
Qed.
