From FC Require Import Pool.Model.
Require Extraction.
Require Import ExtrOcamlBasic.
Extraction "pool_model.ml" main_T.
