(* C20: the pool transactions spending coins created by a rolled-back preconfirmation are evicted. *)
From FC Require Import Pool.Model Pool.ProofsBase Pool.ProofsCore Pool.ProofsRemoval Pool.ProofsOps
  Pool.ProofsInsert Pool.Proofs20.
From Coq Require Import ZifyBool ZifyN ZifyNat.
Open Scope N_scope.

Lemma insert_by_idx_In : forall x y l, In y (insert_by_idx x l) <-> y = x \/ In y l.
Proof.
  intros x y. induction l as [|z r IH]; cbn [insert_by_idx In].
  - split; [intros [H|[]]; left; congruence | intros [H|[]]; left; congruence].
  - destruct (fst x <? fst z); cbn [In]; [split; intros [H|H]; try (left; congruence); tauto|].
    rewrite IH. tauto.
Qed.

Lemma fold_insert_In : forall es acc y,
  In y (fold_left (fun acc (e : utxo * N) => insert_by_idx (snd (fst e), snd e) acc) es acc) <->
  In y acc \/ exists e, In e es /\ y = (snd (fst e), snd e).
Proof.
  induction es as [|e r IH]; intros acc y; cbn [fold_left].
  - split; [tauto | intros [H|[e [[] _]]]; exact H].
  - rewrite IH, insert_by_idx_In. split.
    + intros [[H|H]|[e' [H1 H2]]]; [right; exists e; split; [left; reflexivity | exact H] | tauto |
                                    right; exists e'; split; [right; exact H1 | exact H2]].
    + intros [H|[e' [[H1|H1] H2]]]; [tauto | subst; tauto | right; exists e'; tauto].
Qed.

Lemma get_coins_spenders_complete : forall c id i v,
  aget utxo_eqb (id, i) (c_coins c) = Some v -> i < 65535 -> In v (get_coins_spenders c id).
Proof.
  intros c id i v H Hi. unfold get_coins_spenders. apply in_map_iff. exists (i, v). split; [reflexivity|].
  apply fold_insert_In. right. exists ((id, i), v). split; [|reflexivity].
  apply filter_In. split; [apply (aget_In utxo_eqb utxo_eqb_eq); exact H|].
  cbn [fst snd]. rewrite N.eqb_refl. cbn [andb]. lia.
Qed.

Lemma evict_removes_spenders : forall deps p reason, Core (core_of p) ->
  let p' := fold_left (fun p dep =>
              let '(p', r) := remove_subtree_and_update p dep in
              add_log p' (squeezed_event reason r)) deps p in
  Core (core_of p') /\ Sub p' p /\ forall d, In d deps -> ~ In d (tids (txs (p_g p'))).
Proof.
  induction deps as [|d r IH]; intros p reason HC; cbn [fold_left].
  - split; [exact HC|]. split; [apply Sub_refl | intros ? []].
  - destruct (remove_subtree_and_update p d) as [p1 rm] eqn:R.
    destruct (rsu_core _ _ _ _ R HC) as [C1 [C2 [C3 _]]].
    assert (C1' : Core (core_of (add_log p1 (squeezed_event reason rm)))) by exact C1.
    destruct (IH (add_log p1 (squeezed_event reason rm)) reason C1') as [I1 [I2 I3]]. cbv zeta in *.
    split; [exact I1|]. split.
    + intros x Hx. apply C3. apply (I2 x Hx).
    + intros y [E|Hy]; [|apply I3; exact Hy]. subst y.
      eapply (Sub_not_in _ (add_log p1 (squeezed_event reason rm))); [exact I2 | exact C2].
Qed.

Lemma contract_users_fold_sub : forall created q,
  Sub (fold_left (fun p cid =>
              if contract_created_in_pool (p_cm p) cid then p
              else fold_left (fun p user =>
                     match aget N.eqb user (p_txmap p) with
                     | None => p
                     | Some sid =>
                         let '(p', r) := remove_subtree_and_update p sid in
                         add_log p' (squeezed_event R_ROLLBACK r)
                     end) (get_contract_users (p_cm p) cid) p) created q) q.
Proof.
  induction created as [|cid r IH]; intros q; cbn [fold_left]; [apply Sub_refl|].
  eapply Sub_trans; [apply IH|].
  destruct (contract_created_in_pool (p_cm q) cid); [apply Sub_refl|].
  generalize (get_contract_users (p_cm q) cid) as users. intros users. generalize q as q0.
  induction users as [|u us IHu]; intros q0; cbn [fold_left]; [apply Sub_refl|].
  eapply Sub_trans; [apply IHu|].
  destruct (aget N.eqb u (p_txmap q0)) as [sid|]; [|apply Sub_refl].
  pose proof (rsu_sub q0 sid) as S. destruct (remove_subtree_and_update q0 sid) as [p' rm]. exact S.
Qed.

(* after the rollback of a preconfirmed transaction no pool transaction spends one of its coins *)
Lemma rollback_evicts_dependents_all : forall p id, Core (core_of p) ->
  forall x, In x (txs (p_g (rollback_preconfirmed_transaction p id))) ->
  forall i, In (id, i) (coin_inputs x) -> i < 65535 -> False.
Proof.
  intros p id HC x Hx i Hin Hi. unfold rollback_preconfirmed_transaction in Hx.
  set (p1 := with_spent (with_eo p (new_executed_transaction (p_eo p) id)) (unspend_preconfirmed (p_spent p) id)) in *.
  assert (HC1 : Core (core_of p1)) by exact HC.
  destruct (evict_removes_spenders (get_coins_spenders (p_cm p1) id) p1 R_ROLLBACK HC1) as [E1 [E2 E3]].
  cbv zeta in *. fold (evict_coin_dependents p1 id R_ROLLBACK) in *.
  set (pe := evict_coin_dependents p1 id R_ROLLBACK) in *.
  pose proof (contract_users_fold_sub (contracts_created_by (p_eo p) id) pe) as S.
  assert (Hxe : In x (txs (p_g pe))) by (apply S; exact Hx).
  pose proof (E2 x Hxe) as Hx1.
  unfold core_of, Core in HC1. destruct HC1 as [_ [_ [Hcm _]]].
  destruct (Hcm x Hx1) as [K1 _]. specialize (K1 (id, i) Hin).
  apply (E3 (t_id x)); [eapply get_coins_spenders_complete; eassumption|].
  unfold tids. apply in_map. exact Hxe.
Qed.
