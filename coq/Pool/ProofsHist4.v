(* C17 over histories: diamond-freeness below every node ([DF]: two children of one transaction
   never share a descendant) is an invariant of every reachable graph; with it the subtree removal
   never meets a vanished node, so the cascade holds in every history WITHOUT any hypothesis on
   the panic flag. *)
From FC Require Import Pool.Model Pool.ProofsBase Pool.ProofsCore Pool.ProofsRemoval Pool.ProofsOps
  Pool.ProofsInsert Pool.ProofsCheck Pool.Proofs18 Pool.Proofs18b Pool.Proofs19 Pool.Proofs20 Pool.Proofs21
  Pool.ProofsHist1 Pool.ProofsHistC Pool.ProofsHist2 Pool.ProofsHist3.
From Coq Require Import ZifyBool ZifyN ZifyNat.
Open Scope N_scope.

(* [AncS g x a]: x is a or an ancestor of a (equivalently: a is x or a descendant of x) *)
Definition AncS (g : graph) (x a : N) : Prop := x = a \/ Reach g x a.

Definition DF (g : graph) : Prop :=
  forall r c1 c2 y, In (r, c1) (g_edges g) -> In (r, c2) (g_edges g) -> c1 <> c2 ->
    AncS g c1 y -> AncS g c2 y -> False.

Lemma AncS_mono : forall g g' x a, incl (g_edges g') (g_edges g) -> AncS g' x a -> AncS g x a.
Proof. intros g g' x a Hs [H|H]; [left; exact H | right; eapply Reach_mono; eassumption]. Qed.

Lemma DF_sub : forall g g', incl (g_edges g') (g_edges g) -> DF g -> DF g'.
Proof.
  intros g g' Hs D r c1 c2 y H1 H2 Hne A1 A2.
  apply (D r c1 c2 y); [apply Hs; exact H1 | apply Hs; exact H2 | exact Hne | |]; eapply AncS_mono; eassumption.
Qed.

Lemma AncS_step : forall g a b y, In (a, b) (g_edges g) -> AncS g b y -> AncS g a y.
Proof.
  intros g a b y Hab [<-|H]; right; [apply reach_edge; exact Hab|].
  eapply reach_trans; [apply reach_edge; exact Hab | exact H].
Qed.

Lemma Reach_last : forall g y b, Reach g y b -> exists p, In (p, b) (g_edges g) /\ AncS g y p.
Proof.
  intros g y b R. induction R as [a b Hab | a m b R1 _ _ IH2].
  - exists a. split; [exact Hab | left; reflexivity].
  - destruct IH2 as [p [Hp [E|Hr]]]; exists p; (split; [exact Hp|]); right; [subst; exact R1|].
    eapply reach_trans; eassumption.
Qed.

Lemma Reach_first : forall g x b, Reach g x b -> exists c, In (x, c) (g_edges g).
Proof.
  intros g x b R. induction R as [a b Hab | a m b _ IH1 _ _]; [exists b; exact Hab | exact IH1].
Qed.

(* ---- the subtree removal never meets a vanished node ---- *)
Definition QInv (g : graph) (q : list N) : Prop :=
  NoDup q /\ (forall x, In x q -> has_node g x = true) /\
  (forall x z y, In x q -> In z q -> x <> z -> AncS g x y -> AncS g z y -> False).

Lemma NoDup_children : forall g r, NoDup (g_edges g) -> NoDup (children g r).
Proof.
  intros g r H. unfold children.
  assert (G : forall l, NoDup l -> NoDup (map snd (filter (fun e : N * N => fst e =? r) l))).
  { induction l as [|[a b] l IH]; intros Hl; cbn [filter map]; [constructor|].
    inversion Hl; subst. cbn [fst]. destruct (a =? r) eqn:E; [|apply IH; assumption].
    cbn [map snd]. constructor; [|apply IH; assumption].
    intros Hin. apply in_map_iff in Hin. destruct Hin as [[a' b'] [E' Hf]]. cbn [snd] in E'. subst b'.
    apply filter_In in Hf. destruct Hf as [Hf1 Hf2]. cbn [fst] in Hf2. apply N.eqb_eq in E, Hf2. subst. contradiction. }
  apply G. exact H.
Qed.

Lemma remove_single_present : forall g r, has_node g r = true ->
  exists g1 n, remove_single g r = (g1, Some n).
Proof.
  intros g r H. unfold remove_single. unfold has_node in H. destruct (get_node g r) as [n|]; [|discriminate].
  destruct (clear_cache r (t_outs (n_tx n)) (g_coins g) (g_contracts g)) as [c k]. eexists. exists n. reflexivity.
Qed.

Lemma bfs_nopanic : forall s fuel g q acc, GraphInv s g -> DF g -> QInv g q ->
  snd (bfs fuel g q acc) = false.
Proof.
  intros s. induction fuel as [|f IH]; intros g q acc HG HD [Q1 [Q2 Q3]]; cbn [bfs]; [reflexivity|].
  destruct q as [|r q]; [reflexivity|].
  destruct (remove_single_present g r (Q2 r (or_introl eq_refl))) as [g1 [n R]]. rewrite R.
  pose proof (remove_single_inv s g r HG) as HG1. pose proof (remove_single_edges_sub g r) as HS1.
  rewrite R in HG1, HS1. cbn [fst] in HG1, HS1.
  destruct (reduce_up_core (fuel_up g1) g1 (parents g r) n) as [RC [RE _]].
  set (g2 := reduce_up (fuel_up g1) g1 (parents g r) n) in *.
  assert (HS2 : incl (g_edges g2) (g_edges g)) by (rewrite RE; exact HS1).
  apply IH.
  - apply reduce_up_inv. exact HG1.
  - eapply DF_sub; eassumption.
  - inversion Q1 as [|? ? Hr Hq]; subst.
    assert (Hch : forall c, In c (children g r) -> has_node g c = true /\ c <> r /\ AncS g r c).
    { intros c Hc. apply children_In in Hc. destruct (gi_edges s g HG r c Hc) as [_ [Hb L]].
      split; [exact Hb|]. split; [intros ->; lia | right; apply reach_edge; exact Hc]. }
    split; [|split].
    + apply NoDup_app_both; [exact Hq | apply NoDup_children; apply (gi_edges_nodup s g HG)|].
      intros c H1 H2. destruct (Hch c H2) as [_ [Hne Ha]].
      apply (Q3 r c c); [left; reflexivity | right; exact H1 | congruence | exact Ha | left; reflexivity].
    + intros x Hx. rewrite (has_node_core g1 g2 x (eq_sym RC)).
      apply (has_node_rs _ _ _ _ x R). apply in_app_or in Hx. destruct Hx as [Hx|Hx].
      * split; [apply Q2; right; exact Hx | intros ->; contradiction].
      * destruct (Hch x Hx) as [A [B _]]. split; assumption.
    + intros x z y Hx Hz Hne Ax Az.
      apply (AncS_mono g g2 _ _ HS2) in Ax. apply (AncS_mono g g2 _ _ HS2) in Az.
      apply in_app_or in Hx. apply in_app_or in Hz.
      destruct Hx as [Hx|Hx], Hz as [Hz|Hz].
      * apply (Q3 x z y); [right; exact Hx | right; exact Hz | exact Hne | exact Ax | exact Az].
      * assert (x <> r) by (intros ->; contradiction).
        apply (Q3 x r y); [right; exact Hx | left; reflexivity | assumption | exact Ax|].
        apply children_In in Hz. eapply AncS_step; eassumption.
      * assert (z <> r) by (intros ->; contradiction).
        apply (Q3 r z y); [left; reflexivity | right; exact Hz | congruence | | exact Az].
        apply children_In in Hx. eapply AncS_step; eassumption.
      * apply children_In in Hx, Hz. apply (HD r x z y); assumption.
Qed.

Lemma remove_subtree_nopanic : forall s g root, GraphInv s g -> DF g -> snd (remove_subtree g root) = false.
Proof.
  intros s g root HG HD. unfold remove_subtree. destruct (has_node g root) eqn:E; [|reflexivity].
  apply (bfs_nopanic s); [exact HG | exact HD|]. split; [|split].
  - constructor; [intros [] | constructor].
  - intros x [<-|[]]. exact E.
  - intros x z y [<-|[]] [<-|[]] Hne. contradiction.
Qed.

(* ---- the graph of the pool only changes by single removals of included ids and subtree removals ---- *)
Inductive GSteps (S : N -> Prop) : graph -> graph -> Prop :=
| gs_refl : forall g, GSteps S g g
| gs_single : forall g id g2, S id -> GSteps S (fst (remove_single g id)) g2 -> GSteps S g g2
| gs_subtree : forall g root g2, GSteps S (fst (fst (remove_subtree g root))) g2 -> GSteps S g g2.

Lemma GSteps_trans : forall S g g1 g2, GSteps S g g1 -> GSteps S g1 g2 -> GSteps S g g2.
Proof.
  intros S g g1 g2 H. induction H as [g | g id g' Hs _ IH | g root g' _ IH]; intros H2.
  - exact H2.
  - eapply gs_single; [exact Hs | apply IH; exact H2].
  - eapply gs_subtree. apply IH. exact H2.
Qed.

Lemma GSteps_sound : forall S s g g', GSteps S g g' -> GraphInv s g -> DF g ->
  KeepG S g g' /\ GraphInv s g' /\ DF g' /\ incl (g_edges g') (g_edges g).
Proof.
  intros S s g g' H. induction H as [g | g id g' Hs _ IH | g root g' _ IH]; intros HG HD.
  - split; [apply KeepG_refl|]. split; [exact HG|]. split; [exact HD | apply incl_refl].
  - pose proof (remove_single_edges_sub g id) as HS.
    destruct (IH (remove_single_inv s g id HG) (DF_sub _ _ HS HD)) as [K [G' [D' S']]].
    split; [eapply KeepG_trans; [apply remove_single_keep; exact Hs | exact K]|].
    split; [exact G'|]. split; [exact D' | eapply incl_tran; eassumption].
  - pose proof (remove_subtree_nopanic s g root HG HD) as NP.
    pose proof (remove_subtree_inv s g root HG) as HG1.
    destruct (remove_subtree g root) as [[g1 rm] pan] eqn:E. cbn [fst snd] in *. subst pan.
    destruct (remove_subtree_desc _ _ _ _ _ E) as [HS _].
    destruct (IH HG1 (DF_sub _ _ HS HD)) as [K [G' [D' S']]].
    split; [eapply KeepG_trans; [eapply remove_subtree_keep; exact E | exact K]|].
    split; [exact G'|]. split; [exact D' | eapply incl_tran; eassumption].
Qed.

Definition PS (S : N -> Prop) (p p' : pool) : Prop := GSteps S (p_g p) (p_g p').

Lemma PS_refl : forall S p, PS S p p. Proof. intros. apply gs_refl. Qed.
Lemma PS_trans : forall S p p1 p2, PS S p p1 -> PS S p1 p2 -> PS S p p2.
Proof. intros S p p1 p2. apply GSteps_trans. Qed.
Lemma PS_same : forall S p q, p_g q = p_g p -> PS S p q.
Proof. intros S p q E. unfold PS. rewrite E. apply gs_refl. Qed.

Lemma rsu_ps : forall S p root, PS S p (fst (remove_subtree_and_update p root)).
Proof.
  intros S p root. destruct (remove_subtree_and_update p root) as [p' rm] eqn:R. cbn [fst].
  destruct (rsu_graph _ _ _ _ R) as [pan [RS _]]. unfold PS. eapply gs_subtree. rewrite RS. cbn [fst]. apply gs_refl.
Qed.

Lemma commit_stored_graph : forall p id tentative,
  p_g (fst (commit_stored p id tentative)) = fst (remove_single (p_g p) id).
Proof.
  intros p id tentative. unfold commit_stored.
  destruct (remove_single (p_g (with_txmap p (adel N.eqb id (p_txmap p)))) id) as [g o] eqn:R.
  cbn [with_txmap p_g] in R. rewrite R. cbn [fst]. destruct o as [n|]; cbn [fst].
  - match goal with |- p_g (update_on_removal ?q [n]) = _ => destruct (uor_panic_g [n] q) as [_ U] end.
    rewrite U. reflexivity.
  - apply remove_single_spec in R. destruct R as [-> _]. reflexivity.
Qed.

Lemma commit_stored_ps : forall (S : N -> Prop) p id tentative, S id -> PS S p (fst (commit_stored p id tentative)).
Proof.
  intros S p id tentative HS. unfold PS. rewrite commit_stored_graph. eapply gs_single; [exact HS | apply gs_refl].
Qed.

Lemma process_committed_ps : forall (S : N -> Prop) ids p, (forall id, In id ids -> S id) ->
  PS S p (process_committed_transactions p ids).
Proof.
  intros S ids p HS. unfold process_committed_transactions.
  match goal with |- context [fold_left ?f ids (p, [])] => set (F := f) end.
  assert (G : forall ids acc, (forall id, In id ids -> S id) -> PS S (fst acc) (fst (fold_left F ids acc))).
  { induction ids0 as [|id r IH]; intros [q prom] Hs; cbn [fold_left]; [apply PS_refl|].
    eapply PS_trans; [|apply IH; intros x Hx; apply Hs; right; exact Hx].
    unfold F at 1. cbn [fst].
    destruct (amem N.eqb id (p_txmap (with_spent q (spend_inputs_by_tx_id (p_spent q) id)))).
    - pose proof (commit_stored_ps S (with_spent q (spend_inputs_by_tx_id (p_spent q) id)) id false
                    (Hs id (or_introl eq_refl))) as Cm.
      destruct (commit_stored (with_spent q (spend_inputs_by_tx_id (p_spent q) id)) id false) as [p' pr].
      cbn [fst] in *. exact Cm.
    - cbn [fst]. apply PS_same. reflexivity. }
  specialize (G ids (p, []) HS). destruct (fold_left F ids (p, [])) as [p1 prom]. cbn [fst] in G.
  eapply PS_trans; [exact G|]. apply PS_same. cbn [update_stats p_g]. apply (proj1 (promote_frame prom p1)).
Qed.

Lemma preconf_committed_ps : forall (S : N -> Prop) p id, S id ->
  PS S p (process_preconfirmed_committed_transaction p id).
Proof.
  intros S p id HS. unfold process_preconfirmed_committed_transaction.
  set (s0 := if amem N.eqb id (p_txmap p) then p_spent p else move_spender_to_tentative (p_spent p) id).
  set (p0 := with_spent p (spend_inputs_by_tx_id s0 id)).
  destruct (amem N.eqb id (p_txmap p0)).
  - pose proof (commit_stored_ps S p0 id true HS) as Cm.
    destruct (commit_stored p0 id true) as [p1 pr]. cbn [fst] in Cm.
    eapply PS_trans; [exact Cm|]. apply PS_same. cbn [update_stats p_g].
    clear. revert p1. induction pr as [|d r IH]; intros p1; cbn [fold_left]; [reflexivity|].
    rewrite IH. destruct (get_node (p_g p1) d); reflexivity.
  - apply PS_same. reflexivity.
Qed.

Lemma rtd_ps : forall S ids p reason, PS S p (remove_transactions_and_dependents p ids reason).
Proof.
  intros S ids p reason. unfold remove_transactions_and_dependents.
  match goal with |- context [fold_left ?f ids (p, [])] => set (F := f) end.
  assert (G : forall ids acc, PS S (fst acc) (fst (fold_left F ids acc))).
  { induction ids0 as [|id r IH]; intros [q rem]; cbn [fold_left]; [apply PS_refl|].
    eapply PS_trans; [|apply IH]. unfold F at 1. cbn [fst].
    destruct (amem N.eqb id (p_txmap q)); [|apply PS_refl].
    pose proof (rsu_ps S (with_txmap q (adel N.eqb id (p_txmap q))) id) as Cm.
    destruct (remove_subtree_and_update (with_txmap q (adel N.eqb id (p_txmap q))) id) as [p' r']. cbn [fst] in *.
    exact Cm. }
  specialize (G ids (p, [])). destruct (fold_left F ids (p, [])) as [p1 removed]. cbn [fst] in G.
  eapply PS_trans; [exact G | apply PS_same; reflexivity].
Qed.

Lemma evict_ps : forall S p id reason, PS S p (evict_coin_dependents p id reason).
Proof.
  intros S p id reason. unfold evict_coin_dependents.
  generalize (get_coins_spenders (p_cm p) id) as deps. intros deps. revert p.
  induction deps as [|d r IH]; intros p; cbn [fold_left]; [apply PS_refl|].
  eapply PS_trans; [|apply IH]. pose proof (rsu_ps S p d) as Cm.
  destruct (remove_subtree_and_update p d) as [p' rm]. cbn [fst] in Cm.
  eapply PS_trans; [exact Cm | apply PS_same; reflexivity].
Qed.

Lemma remove_skipped_ps : forall S p id, PS S p (remove_skipped_transaction p id).
Proof.
  intros S p id. unfold remove_skipped_transaction.
  set (p0 := if amem N.eqb id (p_txmap p) then remove_transactions_and_dependents p [id] R_SKIPPED else p).
  set (p1 := with_spent (with_eo p0 (new_executed_transaction (p_eo p0) id)) (unspend_inputs (p_spent p0) id)).
  assert (K0 : PS S p p0) by (unfold p0; destruct (amem N.eqb id (p_txmap p)); [apply rtd_ps | apply PS_refl]).
  assert (K1 : PS S p0 p1) by (apply PS_same; reflexivity).
  eapply PS_trans; [exact K0|]. eapply PS_trans; [exact K1|].
  eapply PS_trans; [apply evict_ps|]. apply PS_same; reflexivity.
Qed.

Lemma rollback_ps : forall S p id, PS S p (rollback_preconfirmed_transaction p id).
Proof.
  intros S p id. unfold rollback_preconfirmed_transaction.
  generalize (contracts_created_by (p_eo p) id) as created. intros created.
  assert (H2 : PS S p (evict_coin_dependents
                 (with_spent (with_eo p (new_executed_transaction (p_eo p) id)) (unspend_preconfirmed (p_spent p) id))
                 id R_ROLLBACK)).
  { eapply PS_trans; [|apply evict_ps]. apply PS_same; reflexivity. }
  revert H2. generalize (evict_coin_dependents
                 (with_spent (with_eo p (new_executed_transaction (p_eo p) id)) (unspend_preconfirmed (p_spent p) id))
                 id R_ROLLBACK) as p2.
  intros p2 H2.
  match goal with |- PS S p (update_stats ?q) => assert (K : PS S p q) end.
  { revert p2 H2. induction created as [|cid r IH]; intros p2 H2; cbn [fold_left]; [exact H2|].
    apply IH. destruct (contract_created_in_pool (p_cm p2) cid); [exact H2|].
    generalize (get_contract_users (p_cm p2) cid) as users. intros users. revert p2 H2.
    induction users as [|u us IHu]; intros p2 H2; cbn [fold_left]; [exact H2|].
    apply IHu. destruct (aget N.eqb u (p_txmap p2)) as [sid|]; [|exact H2].
    pose proof (rsu_ps S p2 sid) as Cm.
    destruct (remove_subtree_and_update p2 sid) as [p' rm]. cbn [fst] in Cm.
    eapply PS_trans; [exact H2|]. eapply PS_trans; [exact Cm | apply PS_same; reflexivity]. }
  eapply PS_trans; [exact K | apply PS_same; reflexivity].
Qed.

Lemma process_block_ps : forall (S : N -> Prop) w h ids, (forall id, In id ids -> S id) ->
  PS S (w_pool w) (w_pool (process_block w h ids)).
Proof.
  intros S w h ids HS. unfold process_block.
  pose proof (process_committed_ps S ids (w_pool w) HS) as H1.
  set (p1 := process_committed_transactions (w_pool w) ids) in *.
  assert (H2 : PS S (w_pool w) (with_eo p1 (fold_left new_executed_transaction ids (p_eo p1)))).
  { eapply PS_trans; [exact H1 | apply PS_same; reflexivity]. }
  revert H2. generalize (with_eo p1 (fold_left new_executed_transaction ids (p_eo p1))) as p2.
  generalize (w_tent w) at 2 as tent0.
  generalize (sortN (map fst (filter (fun e : N * list N => fst e <=? h) (w_tent w)))) as stale.
  induction stale as [|s r IH]; intros tent0 p2 H2; cbn [fold_left].
  - exact H2.
  - destruct (aget N.eqb s tent0) as [txs0|]; [|apply IH; exact H2].
    apply IH. generalize (sortN txs0) as l. intros l. revert p2 H2.
    induction l as [|id l IHl]; intros p2 H2; cbn [fold_left]; [exact H2|].
    apply IHl. eapply PS_trans; [exact H2|].
    destruct (memN id ids); [apply PS_same; reflexivity | apply rollback_ps].
Qed.

Lemma preconf_tx_ps : forall w id kind h outs,
  PS (fun x => In x (preconf_incl w id kind h)) (w_pool w)
     (w_pool (process_preconfirmed_transaction w id kind h outs)).
Proof.
  intros w id kind h outs. unfold process_preconfirmed_transaction, preconf_incl.
  destruct kind.
  - destruct (h <=? w_height w); [apply PS_refl|].
    destruct outs; cbn [w_pool]; (eapply PS_trans; [apply preconf_committed_ps; left; reflexivity|]);
      [apply PS_same; reflexivity | apply PS_refl].
  - destruct (h <=? w_height w); [apply PS_refl|].
    destruct outs; cbn [w_pool]; (eapply PS_trans; [apply preconf_committed_ps; left; reflexivity|]);
      [apply PS_same; reflexivity | apply PS_refl].
  - cbn [with_pool w_pool]. apply remove_skipped_ps.
Qed.

Lemma rsu_fold_ps : forall S roots p rem, PS S p (fst (rsu_fold roots (p, rem))).
Proof.
  intros S. unfold rsu_fold. induction roots as [|root r IH]; intros p rem; cbn [fold_left]; [apply PS_refl|].
  pose proof (rsu_ps S p root) as Cm.
  destruct (remove_subtree_and_update p root) as [p' rm]. cbn [fst] in Cm.
  eapply PS_trans; [exact Cm | apply IH].
Qed.

(* ---- extraction ---- *)
Lemma pass_gsteps : forall (S : N -> Prop) cs keys ps,
  (forall n, In n (ps_result (pass cs keys ps)) -> S (n_id n)) ->
  GSteps S (ps_g ps) (ps_g (pass cs keys ps)).
Proof.
  intros S cs. induction keys as [|k r IH]; intros ps HS; cbn [pass] in *; [apply gs_refl|].
  destruct ((ps_nb ps =? 0) || (ps_gas ps =? 0) || (ps_space ps =? 0)); [apply gs_refl|].
  destruct (get_node (ps_g ps) (k_id k)) as [n|] eqn:E.
  - destruct (touches_excluded (k_excluded cs) (n_tx n)); [apply IH; exact HS|].
    destruct (t_price (n_tx n) <? k_min_price cs); [apply IH; exact HS|].
    destruct ((ps_gas ps <? t_gas (n_tx n)) || (ps_space ps <? t_size (n_tx n))); [apply IH; exact HS|].
    match type of HS with forall m, In m (ps_result (pass cs r ?q)) -> _ => set (q0 := q) in * end.
    assert (Sn : S (k_id k)).
    { apply get_node_some in E. destruct E as [_ E]. rewrite <- E. apply HS.
      apply pass_result_mono. unfold q0. cbn [ps_result]. apply in_or_app. right. left. reflexivity. }
    eapply gs_single; [exact Sn|]. exact (IH q0 HS).
  - match goal with |- GSteps S _ (ps_g (pass cs r ?q)) => exact (IH q HS) end.
Qed.

Lemma gather_loop_gsteps : forall (S : N -> Prop) cs fuel st,
  (forall n, In n (gs_result (gather_loop fuel cs st)) -> S (n_id n)) ->
  GSteps S (gs_g st) (gs_g (gather_loop fuel cs st)).
Proof.
  intros S cs. induction fuel as [|f IH]; intros st; cbn [gather_loop]; [intros _; apply gs_refl|].
  destruct ((gs_gas st =? 0) || (gs_nb st =? 0) || (gs_space st =? 0)); [intros _; apply gs_refl|].
  destruct (gs_exec st) as [|k0 ks] eqn:Ex; [intros _; apply gs_refl|].
  match goal with |- context [pass cs (k0 :: ks) ?q] =>
    pose proof (pass_gsteps S cs (k0 :: ks) q) as PK;
    remember (pass cs (k0 :: ks) q) as pp eqn:Epp end.
  cbn [ps_g] in PK.
  destruct (ps_clean pp) eqn:Ec; [destruct (ps_promote pp) eqn:Ep|].
  - cbn [gs_g gs_result]. intros HS. apply PK. exact HS.
  - match goal with |- context [fold_left ?f ?l (?e, ps_panic pp)] => destruct (fold_left f l (e, ps_panic pp)) as [ex3 pan] end.
    match goal with |- context [gather_loop f cs ?q] => set (q1 := q) end.
    intros HS. eapply GSteps_trans; [apply PK | apply (IH q1); exact HS].
    intros m Hm. apply HS. apply gather_loop_result_mono. unfold q1. cbn [gs_result]. exact Hm.
  - match goal with |- context [fold_left ?f ?l (?e, ps_panic pp)] => destruct (fold_left f l (e, ps_panic pp)) as [ex3 pan] end.
    match goal with |- context [gather_loop f cs ?q] => set (q1 := q) end.
    intros HS. eapply GSteps_trans; [apply PK | apply (IH q1); exact HS].
    intros m Hm. apply HS. apply gather_loop_result_mono. unfold q1. cbn [gs_result]. exact Hm.
Qed.

Lemma extract_ps : forall p cs,
  PS (fun x => In x (map n_id (snd (extract_transactions_for_block p cs)))) p
     (fst (extract_transactions_for_block p cs)).
Proof.
  intros p cs. unfold PS. rewrite extract_graph, extract_result. unfold gather_best_txs.
  match goal with |- GSteps ?S0 _ (gs_g (gather_loop ?f cs ?q)) =>
    exact (gather_loop_gsteps S0 cs f q (fun n Hn => in_map n_id _ n Hn)) end.
Qed.

(* ---- what the ancestor walk of can_store_transaction guarantees: no ancestor is met twice ---- *)
Lemma parents_none : forall s g x, GraphInv s g -> get_node g x = None -> parents g x = [].
Proof.
  intros s g x HG Hn. destruct (parents g x) as [|p l] eqn:E; [reflexivity|].
  assert (Hp : In p (parents g x)) by (rewrite E; left; reflexivity).
  apply parents_In in Hp. destruct (gi_edges s g HG p x Hp) as [_ [Hb _]].
  unfold has_node in Hb. rewrite Hn in Hb. discriminate.
Qed.

Lemma all_deps_disj : forall s fuel g maxc stack all res, GraphInv s g ->
  all_deps fuel g maxc stack all = Good res ->
  (forall x y, In x stack -> AncS g y x -> ~ In y all) /\
  (forall l1 x l2 z l3 y, stack = l1 ++ x :: l2 ++ z :: l3 -> AncS g y x -> AncS g y z -> False).
Proof.
  intros s. induction fuel as [|f IH]; intros g maxc stack all res HG H; cbn [all_deps] in H; [discriminate|].
  destruct stack as [|nid rest].
  - split; [intros x y []|]. intros l1 x l2 z l3 y E. destruct l1; discriminate.
  - destruct (memN nid all) eqn:Em; [discriminate|]. apply memN_false in Em.
    destruct (maxc <=? lenN (all ++ [nid])); [discriminate|].
    assert (Hrec : all_deps f g maxc (parents g nid ++ rest) (all ++ [nid]) = Good res).
    { destruct (get_node g nid) as [n|] eqn:En.
      - destruct (maxc <=? n_cnt n); [discriminate|]. destruct (is_blob (n_tx n)); [discriminate|]. exact H.
      - rewrite (parents_none s g nid HG En). exact H. }
    destruct (IH _ _ _ _ _ HG Hrec) as [A' B'].
    split.
    + intros x y Hx Hy Hin. destruct Hx as [Hx|Hx].
      * subst x. destruct Hy as [Hy|Hr]; [subst y; contradiction|].
        destruct (Reach_last _ _ _ Hr) as [p [Hp Ap]]. apply parents_In in Hp.
        apply (A' p y); [apply in_or_app; left; exact Hp | exact Ap | apply in_or_app; left; exact Hin].
      * apply (A' x y); [apply in_or_app; right; exact Hx | exact Hy | apply in_or_app; left; exact Hin].
    + intros l1 x l2 z l3 y E Ax Az. destruct l1 as [|a l1]; cbn [app] in E.
      * assert (E1 : nid = x) by (exact (f_equal (hd nid) E)).
        assert (E2 : rest = l2 ++ z :: l3) by (exact (f_equal (@tl _) E)). subst x.
        destruct Ax as [Hy|Hr].
        -- subst y. apply (A' z nid); [|exact Az | apply in_or_app; right; left; reflexivity].
           apply in_or_app. right. rewrite E2. apply in_or_app. right. left. reflexivity.
        -- destruct (Reach_last _ _ _ Hr) as [p [Hp Ap]]. apply parents_In in Hp.
           apply in_split in Hp. destruct Hp as [m1 [m2 Hp]].
           apply (B' m1 p (m2 ++ l2) z l3 y); [|exact Ap | exact Az].
           rewrite Hp, E2, <- !app_assoc. reflexivity.
      * assert (E2 : rest = l1 ++ x :: l2 ++ z :: l3) by (exact (f_equal (@tl _) E)).
        apply (B' (parents g nid ++ l1) x l2 z l3 y); [|exact Ax | exact Az].
        rewrite E2, app_assoc. reflexivity.
Qed.

Lemma direct_disjoint : forall s g maxc t direct all, GraphInv s g ->
  can_store g maxc t = Good (direct, all) ->
  forall d1 d2 y, In d1 direct -> In d2 direct -> d1 <> d2 -> AncS g y d1 -> AncS g y d2 -> False.
Proof.
  intros s g maxc t direct all HG H. unfold can_store in H.
  destruct (direct_deps g maxc (t_ins t) []) as [dd|]; [|discriminate].
  destruct (all_deps _ g maxc dd []) as [aa|] eqn:E; [|discriminate]. inversion H; subst.
  destruct (all_deps_disj s _ _ _ _ _ _ HG E) as [_ B].
  intros d1 d2 y H1 H2 Hne A1 A2. apply in_split in H1. destruct H1 as [l1 [l2 E1]].
  rewrite E1 in H2. apply in_app_or in H2. destruct H2 as [H2|[H2|H2]]; [|congruence|].
  - apply in_split in H2. destruct H2 as [m1 [m2 E2]].
    apply (B m1 d2 m2 d1 l2 y); [|exact A2 | exact A1]. rewrite E1, E2, <- app_assoc. reflexivity.
  - apply in_split in H2. destruct H2 as [m1 [m2 E2]].
    apply (B l1 d1 m1 d2 m2 y); [|exact A1 | exact A2]. rewrite E1, E2. reflexivity.
Qed.

(* ---- storing a new leaf keeps the graph diamond-free ---- *)
Section StoreDF.
  Context (s : N) (g : graph) (t : tx) (direct all : list N).
  Hypothesis HG : GraphInv s g.
  Hypothesis HD : DF g.
  Hypothesis Hfresh : has_node g (t_id t) = false.
  Hypothesis Hdir : forall d, In d direct -> has_node g d = true.
  Hypothesis Hdisj : forall d1 d2 y, In d1 direct -> In d2 direct -> d1 <> d2 ->
    AncS g y d1 -> AncS g y d2 -> False.

  Let g' := store g t direct all s.

  Lemma sd_edge : forall a b, In (a, b) (g_edges g') ->
    (In (a, b) (g_edges g) /\ a <> t_id t /\ b <> t_id t) \/ (b = t_id t /\ In a direct /\ a <> t_id t).
  Proof.
    intros a b H. unfold g' in H. destruct (store_fields g t direct all s) as [c [k [bump [_ [_ E]]]]].
    rewrite E in H. cbn [g_edges] in H. apply in_app_or in H. destruct H as [H|H].
    - left. split; [exact H|]. destruct (gi_edges s g HG a b H) as [Ha [Hb _]]. split; intros ->; congruence.
    - right. apply in_map_iff in H. destruct H as [d [Ed Hd]]. inversion Ed; subst. split; [reflexivity|].
      split; [exact Hd|]. intros Et. rewrite Et in Hd. apply Hdir in Hd. congruence.
  Qed.

  Lemma sd_src : forall a b, Reach g' a b -> a <> t_id t.
  Proof.
    intros a b R. destruct (Reach_first _ _ _ R) as [c Hc]. destruct (sd_edge a c Hc) as [[_ [H _]]|[_ [_ H]]]; exact H.
  Qed.

  Lemma sd_old : forall a b, Reach g' a b -> b <> t_id t -> Reach g a b.
  Proof.
    intros a b R. induction R as [a b Hab | a m b R1 IH1 R2 IH2]; intros Hb.
    - destruct (sd_edge a b Hab) as [[H _]|[H _]]; [apply reach_edge; exact H | contradiction].
    - eapply reach_trans; [apply IH1; eapply sd_src; exact R2 | apply IH2; exact Hb].
  Qed.

  Lemma sd_anc_old : forall a y, AncS g' a y -> y <> t_id t -> AncS g a y.
  Proof. intros a y [H|H] Hy; [left; exact H | right; apply sd_old; assumption]. Qed.

  Lemma sd_new : forall a, Reach g' a (t_id t) -> exists d, In d direct /\ AncS g a d.
  Proof.
    intros a R. destruct (Reach_last _ _ _ R) as [p [Hp Ap]].
    destruct (sd_edge p (t_id t) Hp) as [[_ [_ H]]|[_ [Hd Hne]]]; [contradiction|].
    exists p. split; [exact Hd | apply sd_anc_old; assumption].
  Qed.

  Lemma store_df : DF g'.
  Proof.
    intros r c1 c2 y H1 H2 Hne A1 A2.
    destruct (sd_edge r c1 H1) as [[O1 [Hr1 Hc1]]|[E1 [Hd1 Hr1]]];
    destruct (sd_edge r c2 H2) as [[O2 [Hr2 Hc2]]|[E2 [Hd2 Hr2]]].
    - (* both edges old *)
      destruct (N.eq_dec y (t_id t)) as [Ey|Ey].
      + subst y.
        assert (R1 : Reach g' c1 (t_id t)) by (destruct A1 as [A1|A1]; [contradiction | exact A1]).
        assert (R2 : Reach g' c2 (t_id t)) by (destruct A2 as [A2|A2]; [contradiction | exact A2]).
        destruct (sd_new c1 R1) as [d1 [D1 B1]]. destruct (sd_new c2 R2) as [d2 [D2 B2]].
        destruct (N.eq_dec d1 d2) as [Ed|Ed].
        * subst d2. apply (HD r c1 c2 d1); assumption.
        * exact (Hdisj d1 d2 r D1 D2 Ed (AncS_step g r c1 d1 O1 B1) (AncS_step g r c2 d2 O2 B2)).
      + apply (HD r c1 c2 y); try assumption; apply sd_anc_old; assumption.
    - (* c2 is the new leaf *)
      subst c2. assert (Ey : y = t_id t).
      { destruct A2 as [A2|A2]; [symmetry; exact A2 | exfalso; exact (sd_src _ _ A2 eq_refl)]. }
      subst y. assert (R1 : Reach g' c1 (t_id t)) by (destruct A1 as [A1|A1]; [contradiction | exact A1]).
      destruct (sd_new c1 R1) as [d1 [D1 B1]].
      assert (Hrd : r <> d1).
      { intros ->. assert (Rc : Reach g d1 d1).
        { destruct B1 as [B1|B1]; [subst c1; apply reach_edge; exact O1|].
          eapply reach_trans; [apply reach_edge; exact O1 | exact B1]. }
        exact (inv_edges_acyclic g (GraphInv_inv_edges s g HG) d1 Rc). }
      apply (Hdisj r d1 r Hd2 D1 Hrd); [left; reflexivity | exact (AncS_step g r c1 d1 O1 B1)].
    - (* c1 is the new leaf *)
      subst c1. assert (Ey : y = t_id t).
      { destruct A1 as [A1|A1]; [symmetry; exact A1 | exfalso; exact (sd_src _ _ A1 eq_refl)]. }
      subst y. assert (R2 : Reach g' c2 (t_id t)) by (destruct A2 as [A2|A2]; [contradiction | exact A2]).
      destruct (sd_new c2 R2) as [d2 [D2 B2]].
      assert (Hrd : r <> d2).
      { intros ->. assert (Rc : Reach g d2 d2).
        { destruct B2 as [B2|B2]; [subst c2; apply reach_edge; exact O2|].
          eapply reach_trans; [apply reach_edge; exact O2 | exact B2]. }
        exact (inv_edges_acyclic g (GraphInv_inv_edges s g HG) d2 Rc). }
      apply (Hdisj r d2 r Hd1 D2 Hrd); [left; reflexivity | exact (AncS_step g r c2 d2 O2 B2)].
    - congruence.
  Qed.
End StoreDF.

(* ---- the invariant with diamond-freeness, kept by every operation ---- *)
Definition Inv2 (p : pool) : Prop := HInv p /\ DF (p_g p).

Lemma ps_inv2 : forall S p p', Inv2 p -> PS S p p' -> DF (p_g p') /\ EdgeKeep S (p_g p) (p_g p').
Proof.
  intros S p p' [HI HD] H.
  destruct (GSteps_sound S (p_seq p) _ _ H (hi_graph p HI) HD) as [[KE _] [_ [D' _]]]. split; assumption.
Qed.

Lemma do_insert_inv2 : forall p d t ci, Inv2 p -> can_insert_transaction p d t = inl ci ->
  DF (p_g (do_insert p t ci)) /\ EdgeKeep (fun _ => False) (p_g p) (p_g (do_insert p t ci)).
Proof.
  intros p d t ci [HI HD] Hci. destruct (can_insert_facts2 _ _ _ _ Hci) as [Hgas [Hfresh [Hcs [Hcoll Hrm]]]].
  pose proof (hi_graph p HI) as A. pose proof (hi_cover p HI) as B.
  destruct (can_store_direct_ok _ _ _ _ _ _ A Hcs) as [Dnd Dh].
  destruct (can_store_bounds_all _ _ _ _ _ Hcs) as [_ [_ [Dsub _]]].
  pose proof (all_closed _ _ _ _ _ _ A Hcs) as Hclosed.
  pose proof (direct_disjoint _ _ _ _ _ _ A Hcs) as Hdisj.
  pose proof (rsu_fold_ps (fun _ => False) (ci_remove ci ++ ci_collisions ci) p []) as PSf. unfold PS in PSf.
  unfold do_insert.
  fold (rsu_fold (ci_remove ci ++ ci_collisions ci) (p, [])).
  destruct (rsu_fold_hinv (ci_remove ci ++ ci_collisions ci) p [] HI) as [H1 [Hseq _]].
  destruct (rsu_fold_leaves (ci_remove ci ++ ci_collisions ci) p []) as [more [M1 [M2 _]]].
  destruct (rsu_fold_desc (ci_remove ci ++ ci_collisions ci) p []) as [_ Hdesc].
  destruct (rsu_fold (ci_remove ci ++ ci_collisions ci) (p, [])) as [p1 removed]. cbn [fst snd app] in *.
  subst removed.
  destruct (GSteps_sound _ (p_seq p) _ _ PSf A HD) as [[KE KM] [G1 [D1 S1]]].
  assert (Hdir : forall x, In x (ci_direct ci) -> has_node (p_g p1) x = true).
  { intros x Hx. eapply Rem_kept; [exact M2 | apply Dh; exact Hx|]. intros Hin.
    apply in_map_iff in Hin. destruct Hin as [n [En Hn]].
    destruct (Hdesc n Hn) as [[]|[r0 [Hr0 Hd]]].
    assert (Hall : In r0 (ci_all ci)).
    { destruct Hd as [Hd|Hd]; [rewrite <- Hd, En; apply Dsub; exact Hx|].
      eapply Hclosed; [exact Hd | rewrite En; apply Dsub; exact Hx]. }
    apply in_app_or in Hr0. destruct Hr0 as [Hr0|Hr0].
    - destruct Hrm as [Hrm|Hrm]; [rewrite Hrm in Hall; destruct Hall | rewrite Hrm in Hr0; destruct Hr0].
    - apply (Hcoll r0 Hr0). exact Hall. }
  assert (Hfresh1 : has_node (p_g p1) (t_id t) = false).
  { destruct (has_node (p_g p1) (t_id t)) eqn:E; [|reflexivity].
    apply (Rem_mono _ _ _ _ M2) in E. apply B in E. congruence. }
  cbn [update_stats p_g]. split.
  - rewrite Hseq. apply (store_df (p_seq p) (p_g p1) t (ci_direct ci) (ci_all ci) G1 D1 Hfresh1 Hdir).
    intros d1 d2 y X1 X2 Xne Y1 Y2. apply (Hdisj d1 d2 y X1 X2 Xne); eapply AncS_mono; eassumption.
  - intros a b Hab Hb. destruct (gi_edges _ _ A a b Hab) as [_ [Hb0 _]].
    assert (Hne : b <> t_id t). { intros ->. apply B in Hb0. congruence. }
    assert (Hb1 : has_node (p_g p1) b = true).
    { apply has_node_In. apply has_node_In in Hb. rewrite store_txs in Hb. unfold tids in *.
      rewrite map_app in Hb. apply in_app_or in Hb. cbn [map In] in Hb.
      destruct Hb as [Hb|[Hb|[]]]; [exact Hb | congruence]. }
    destruct (KE a b Hab Hb1) as [[]|Hin]. right.
    destruct (store_fields (p_g p1) t (ci_direct ci) (ci_all ci) (p_seq p1)) as [c [k [bump [_ [_ E]]]]].
    rewrite E. cbn [g_edges]. apply in_or_app. left. exact Hin.
Qed.

Lemma step_inv2 : forall w o, Inv2 (w_pool w) ->
  Inv2 (w_pool (fst (step w o))) /\
  EdgeKeep (fun x => In x (incl_ids w o (snd (step w o)))) (p_g (w_pool w)) (p_g (w_pool (fst (step w o)))).
Proof.
  intros w o I2. pose proof (step_hinv w o (proj1 I2)) as SH.
  assert (Gen : forall S, PS S (w_pool w) (w_pool (fst (step w o))) ->
                  Inv2 (w_pool (fst (step w o))) /\ EdgeKeep S (p_g (w_pool w)) (p_g (w_pool (fst (step w o))))).
  { intros S P. destruct (ps_inv2 S _ _ I2 P) as [D K]. split; [split; assumption | exact K]. }
  destruct o; cbn [step] in *.
  - unfold worker_insert in *. destruct (pool_insert (w_pool w) (w_db w) t) as [p r] eqn:E.
    cbn [fst snd with_pool w_pool incl_ids] in *. unfold pool_insert in E.
    destruct (lru_mem (KTx (t_id t)) (s_lru (p_spent (w_pool w))) || memN (t_id t) (d_txs (w_db w)));
      [inversion E; subst; split; [exact I2 | apply EdgeKeep_refl]|].
    destruct (can_insert_transaction (w_pool w) (w_db w) t) as [ci|e] eqn:C; inversion E; subst;
      [|split; [exact I2 | apply EdgeKeep_refl]].
    destruct (do_insert_inv2 _ _ _ _ I2 C) as [D K]. split; [split; assumption|].
    intros a b Hab Hb. destruct (K a b Hab Hb) as [[]|H]. right. exact H.
  - pose proof (extract_ps (w_pool w) cs) as P.
    destruct (extract_transactions_for_block (w_pool w) cs) as [p ns]. cbn [fst snd with_pool w_pool incl_ids] in *.
    apply Gen. exact P.
  - cbn [fst snd incl_ids] in *. apply Gen. apply process_block_ps. intros id H. exact H.
  - cbn [fst snd incl_ids] in *. apply Gen. apply preconf_tx_ps.
  - cbn [fst snd with_pool w_pool incl_ids] in *. apply Gen. apply rtd_ps.
  - cbn [fst snd w_pool]. split; [exact I2 | apply EdgeKeep_refl].
Qed.

Lemma inv2_init : forall cfg, Inv2 (pool_new cfg).
Proof. intros cfg. split; [apply hinv_init|]. intros r c1 c2 y []. Qed.

Lemma run_inv2 : forall ops w, Inv2 (w_pool w) -> Forall (fun wr => Inv2 (w_pool (fst wr))) (run w ops).
Proof.
  induction ops as [|o r IH]; intros w HI; cbn [run]; [constructor|].
  pose proof (proj1 (step_inv2 w o HI)) as Cm. destruct (step w o) as [w' res]. cbn [fst] in Cm.
  constructor; [exact Cm | apply IH; exact Cm].
Qed.

Lemma step_cascade2 : forall w o, Inv2 (w_pool w) ->
  forall a b, In (a, b) (g_edges (p_g (w_pool w))) ->
    has_node (p_g (w_pool (fst (step w o)))) a = false ->
    ~ In a (incl_ids w o (snd (step w o))) ->
    has_node (p_g (w_pool (fst (step w o)))) b = false.
Proof.
  intros w o HI a b Hab Ha Hinc. destruct (step_inv2 w o HI) as [[SH _] K].
  destruct (has_node (p_g (w_pool (fst (step w o)))) b) eqn:Hb; [|reflexivity].
  destruct (K a b Hab Hb) as [H|H]; [contradiction|].
  destruct (gi_edges _ _ (hi_graph _ SH) a b H) as [Ha' _]. congruence.
Qed.

Lemma model_trace_cascade2 : forall ops w, Inv2 (w_pool w) ->
  Forall (fun s => cascadeb s = true) (model_trace w ops).
Proof.
  induction ops as [|o r IH]; intros w HI; cbn [model_trace]; [constructor|].
  pose proof (step_cascade2 w o HI) as SC. pose proof (proj1 (step_inv2 w o HI)) as SH.
  destruct (step w o) as [w' res] eqn:E. cbn [fst snd] in SC, SH. constructor; [|apply IH; exact SH].
  apply cascadeb_spec. unfold pre_g, post_g, included.
  cbn [ts_pre ts_post ts_op ts_ids]. intros a b Hab Ha Hinc. apply (SC a b Hab Ha).
  intros Hin. apply Hinc. destruct o; cbn [incl_ids] in Hin; cbn [step] in E; exact Hin.
Qed.

Theorem cascade_run_all : forall cfg d h ops,
  Forall (fun s => cascadeb s = true) (model_trace (worker_new cfg d h) ops).
Proof. intros. apply model_trace_cascade2. apply inv2_init. Qed.

Theorem diamond_free_run : forall cfg d h ops,
  Forall (fun wr => let g := p_g (w_pool (fst wr)) in
            DF g /\ forall root, snd (remove_subtree g root) = false)
         (run (worker_new cfg d h) ops).
Proof.
  intros cfg d h ops. pose proof (run_inv2 ops (worker_new cfg d h) (inv2_init cfg)) as H.
  rewrite Forall_forall in *. intros wr Hwr. destruct (H wr Hwr) as [HI HD]. split; [exact HD|].
  intros root. eapply remove_subtree_nopanic; [apply (hi_graph _ HI) | exact HD].
Qed.

(* non-vacuity: a diamond is refused at admission (transaction 4 spends outputs of 2 and 3, both
   children of 1), so the graph stays diamond-free; removing 1 then removes 2 and 3 without panic *)
Definition d_t1 : tx := mkTx 1 [ICoin (100, 0) 1 10 1] [OCoin 1 10 1; OCoin 1 10 1] None 5 10 1 10.
Definition d_t2 : tx := mkTx 2 [ICoin (1, 0) 1 10 1] [OCoin 1 10 1] None 5 10 1 10.
Definition d_t3 : tx := mkTx 3 [ICoin (1, 1) 1 10 1] [OCoin 1 10 1] None 5 10 1 10.
Definition d_t4 : tx := mkTx 4 [ICoin (2, 0) 1 10 1; ICoin (3, 0) 1 10 1] [] None 5 10 1 10.
Example diamond_nontrivial :
  map (fun s => (g_edges (post_g s), node_ids (post_g s), p_panic (w_pool (ts_post s)), cascadeb s, ts_ok s))
      (model_trace (worker_new (mkCfg 8 1000 1000 6 true) ex_db 0)
         [OpInsert d_t1; OpInsert d_t2; OpInsert d_t3; OpInsert d_t4; OpExpire [1]])
  = [([], [1], false, true, true); ([(1, 2)], [1; 2], false, true, true);
     ([(1, 2); (1, 3)], [1; 2; 3], false, true, true); ([(1, 2); (1, 3)], [1; 2; 3], false, true, false);
     ([], [], false, true, false)].
Proof. vm_compute. reflexivity. Qed.
