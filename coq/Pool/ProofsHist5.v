(* C17 / C18 over histories: every key of the executable list is the key of a stored transaction
   that has no dependency in the pool ([EE]); this is kept by every operation.  Consequence: an
   extraction hands out parents before children. *)
From FC Require Import Pool.Model Pool.ProofsBase Pool.ProofsCore Pool.ProofsRemoval Pool.ProofsOps
  Pool.ProofsInsert Pool.ProofsCheck Pool.Proofs18 Pool.Proofs18b Pool.Proofs19 Pool.Proofs20 Pool.Proofs21
  Pool.ProofsHist1 Pool.ProofsHistC Pool.ProofsHist2 Pool.ProofsHist3 Pool.ProofsHist4.
From Coq Require Import ZifyBool ZifyN ZifyNat.
Open Scope N_scope.

Lemma key_of_core : forall a b, ncore a = ncore b -> key_of a = key_of b.
Proof.
  intros a b H. unfold key_of. rewrite (n_id_core a b H). unfold ncore in H. inversion H as [[H1 H2]].
  rewrite H1, H2. reflexivity.
Qed.

(* ---- removals keep the core (transaction, creation instant) of the remaining nodes ---- *)
Definition CoreLe (g' g : graph) : Prop :=
  forall id n', get_node g' id = Some n' -> exists n, get_node g id = Some n /\ ncore n' = ncore n.

Lemma CoreLe_refl : forall g, CoreLe g g.
Proof. intros g id n H. exists n. split; [exact H | reflexivity]. Qed.

Lemma CoreLe_trans : forall g2 g1 g, CoreLe g2 g1 -> CoreLe g1 g -> CoreLe g2 g.
Proof.
  intros g2 g1 g H2 H1 id n2 E2. destruct (H2 id n2 E2) as [n1 [E1 L1]]. destruct (H1 id n1 E1) as [n [E L]].
  exists n. split; [exact E | congruence].
Qed.

Lemma CoreLe_core : forall g g', core_nodes g = core_nodes g' -> CoreLe g' g.
Proof.
  intros g g' H id n' E. pose proof (get_node_core g g' id H) as C. rewrite E in C.
  destruct (get_node g id) as [n|]; [|contradiction]. exists n. split; [reflexivity | symmetry; exact C].
Qed.

Lemma remove_single_corele : forall g id, CoreLe (fst (remove_single g id)) g.
Proof.
  intros g id. destruct (remove_single g id) as [g' [n|]] eqn:R; cbn [fst].
  - destruct (remove_single_some _ _ _ _ R) as [_ [c [k [_ E]]]]. subst g'. intros a n' Ha.
    destruct (N.eq_dec a id) as [->|Hne].
    + rewrite get_node_filter_same in Ha. discriminate.
    + rewrite get_node_filter_other in Ha by exact Hne. exists n'. split; [exact Ha | reflexivity].
  - apply remove_single_spec in R. destruct R as [-> _]. apply CoreLe_refl.
Qed.

Lemma reduce_up_corele : forall fuel g work rem, CoreLe (reduce_up fuel g work rem) g.
Proof.
  intros. apply CoreLe_core. symmetry. apply (proj1 (reduce_up_core fuel g work rem)).
Qed.

Definition RmP (g0 : graph) (n : node) : Prop :=
  exists n0, get_node g0 (n_id n) = Some n0 /\ ncore n = ncore n0.

Lemma bfs_corele : forall g0 fuel g q acc g' rm pan, bfs fuel g q acc = (g', rm, pan) ->
  CoreLe g g0 -> (forall n, In n acc -> RmP g0 n) ->
  CoreLe g' g0 /\ forall n, In n rm -> RmP g0 n.
Proof.
  intros g0. induction fuel as [|f IH]; intros g q acc g' rm pan H HC HA; cbn [bfs] in H.
  - inversion H; subst. split; [exact HC | intros n Hn; apply HA; apply in_rev; exact Hn].
  - destruct q as [|r q].
    + inversion H; subst. split; [exact HC | intros n Hn; apply HA; apply in_rev; exact Hn].
    + pose proof (remove_single_corele g r) as H1.
      destruct (remove_single g r) as [g1 [m|]] eqn:R; cbn [fst] in H1.
      * destruct (remove_single_some _ _ _ _ R) as [Hg _].
        apply (IH _ _ _ _ _ _ H).
        -- eapply CoreLe_trans; [apply reduce_up_corele|]. eapply CoreLe_trans; eassumption.
        -- intros n [<-|Hn]; [|apply HA; exact Hn]. destruct (HC r m Hg) as [n0 [E0 C0]].
           apply get_node_some in Hg. destruct Hg as [_ Hid]. exists n0. rewrite Hid. split; assumption.
      * inversion H; subst. split; [exact HC | intros n Hn; apply HA; apply in_rev; exact Hn].
Qed.

Lemma remove_subtree_corele : forall g root g' rm pan, remove_subtree g root = (g', rm, pan) ->
  CoreLe g' g /\ forall n, In n rm -> RmP g n.
Proof.
  intros g root g' rm pan H. unfold remove_subtree in H. destruct (has_node g root).
  - apply (bfs_corele g) in H; [exact H | apply CoreLe_refl | intros n []].
  - inversion H; subst. split; [apply CoreLe_refl | intros n []].
Qed.

Lemma pass_corele : forall g0 cs keys ps, CoreLe (ps_g ps) g0 -> (forall n, In n (ps_result ps) -> RmP g0 n) ->
  CoreLe (ps_g (pass cs keys ps)) g0 /\ forall n, In n (ps_result (pass cs keys ps)) -> RmP g0 n.
Proof.
  intros g0 cs. induction keys as [|k r IH]; intros ps HC HA; cbn [pass]; [split; assumption|].
  destruct ((ps_nb ps =? 0) || (ps_gas ps =? 0) || (ps_space ps =? 0)); [split; assumption|].
  destruct (get_node (ps_g ps) (k_id k)) as [n|] eqn:E.
  - destruct (touches_excluded (k_excluded cs) (n_tx n)); [apply IH; assumption|].
    destruct (t_price (n_tx n) <? k_min_price cs); [apply IH; assumption|].
    destruct ((ps_gas ps <? t_gas (n_tx n)) || (ps_space ps <? t_size (n_tx n))); [apply IH; assumption|].
    apply IH; cbn [ps_g ps_result].
    + eapply CoreLe_trans; [apply remove_single_corele | exact HC].
    + intros m Hm. apply in_app_or in Hm. destruct Hm as [Hm|[<-|[]]]; [apply HA; exact Hm|].
      destruct (HC _ _ E) as [n0 [E0 C0]]. apply get_node_some in E. destruct E as [_ Hid].
      exists n0. rewrite Hid. split; assumption.
  - apply IH; cbn [ps_g ps_result]; assumption.
Qed.

Lemma parents_nil_sub : forall g g' x, incl (g_edges g') (g_edges g) -> parents g x = [] -> parents g' x = [].
Proof.
  intros g g' x Hs H. destruct (parents g' x) as [|p l] eqn:E; [reflexivity|].
  assert (Hp : In p (parents g' x)) by (rewrite E; left; reflexivity).
  apply parents_In in Hp. apply Hs in Hp. apply parents_In in Hp. rewrite H in Hp. destruct Hp.
Qed.

(* ---- the executable keys ---- *)
Definition EE (g : graph) (ex : list ekey) : Prop :=
  forall k, In k ex -> exists n, get_node g (k_id k) = Some n /\ k = key_of n /\ parents g (k_id k) = [].

Lemma EE_shrink : forall g g' ex ex', EE g ex -> CoreLe g' g -> incl (g_edges g') (g_edges g) ->
  (forall k, In k ex' -> In k ex /\ has_node g' (k_id k) = true) -> EE g' ex'.
Proof.
  intros g g' ex ex' HE HC HS Hk k Hin. destruct (Hk k Hin) as [Hin0 Hh].
  destruct (HE k Hin0) as [n0 [G0 [K0 P0]]]. unfold has_node in Hh.
  destruct (get_node g' (k_id k)) as [n'|] eqn:G'; [|discriminate].
  destruct (HC _ _ G') as [n [G C]]. rewrite G0 in G. inversion G; subst n.
  exists n'. split; [reflexivity|]. split; [rewrite K0; symmetry; apply key_of_core; exact C|].
  eapply parents_nil_sub; eassumption.
Qed.

Lemma key_before_irrefl : forall k, key_before k k = false.
Proof.
  intros k. destruct (key_before k k) eqn:E; [|reflexivity]. apply key_before_KB in E.
  unfold KB in E. lia.
Qed.

Lemma key_same_refl : forall k, key_same k k = true.
Proof. intros k. unfold key_same. rewrite key_before_irrefl. reflexivity. Qed.

Lemma In_fold_exec_remove_nodes : forall (rm : list node) l k,
  In k (fold_left (fun l n => exec_remove (key_of n) l) rm l) ->
  In k l /\ forall n, In n rm -> key_same k (key_of n) = false.
Proof.
  induction rm as [|m r IH]; intros l k H; cbn [fold_left] in H; [split; [exact H | intros n []]|].
  apply IH in H. destruct H as [H1 H2]. unfold exec_remove in H1. apply filter_In in H1. destruct H1 as [H1 H3].
  apply negb_true_iff in H3. split; [exact H1|]. intros n [<-|Hn]; [exact H3 | apply H2; exact Hn].
Qed.

Lemma In_fold_exec_remove_keys : forall (ks : list ekey) l k,
  In k (fold_left (fun l k0 => exec_remove k0 l) ks l) ->
  In k l /\ forall k0, In k0 ks -> key_same k k0 = false.
Proof.
  induction ks as [|m r IH]; intros l k H; cbn [fold_left] in H; [split; [exact H | intros n []]|].
  apply IH in H. destruct H as [H1 H2]. unfold exec_remove in H1. apply filter_In in H1. destruct H1 as [H1 H3].
  apply negb_true_iff in H3. split; [exact H1|]. intros n [<-|Hn]; [exact H3 | apply H2; exact Hn].
Qed.

(* graph shrunk by a removal described by [Rem], then the keys of the removed nodes deleted *)
Lemma EE_uor : forall g g' rm ex, EE g ex -> CoreLe g' g -> incl (g_edges g') (g_edges g) ->
  Rem g g' rm -> (forall n, In n rm -> RmP g n) ->
  EE g' (fold_left (fun l n => exec_remove (key_of n) l) rm ex).
Proof.
  intros g g' rm ex HE HC HS HR HP. eapply EE_shrink; [exact HE | exact HC | exact HS|].
  intros k Hk. apply In_fold_exec_remove_nodes in Hk. destruct Hk as [Hin Hns]. split; [exact Hin|].
  destruct (HE k Hin) as [n0 [G0 [K0 _]]].
  eapply Rem_kept; [exact HR | unfold has_node; rewrite G0; reflexivity|].
  intros Hid. apply in_map_iff in Hid. destruct Hid as [n [En Hn]].
  destruct (HP n Hn) as [n1 [G1 C1]]. rewrite En, G0 in G1. inversion G1; subst n1.
  specialize (Hns n Hn). rewrite (key_of_core n n0 C1), <- K0, key_same_refl in Hns. discriminate.
Qed.

Lemma EE_exec_remove : forall g ex k0, EE g ex -> EE g (exec_remove k0 ex).
Proof. intros g ex k0 H k Hk. unfold exec_remove in Hk. apply filter_In in Hk. apply H. tauto. Qed.

Lemma EE_exec_insert : forall g ex d n, EE g ex -> get_node g d = Some n -> parents g d = [] ->
  EE g (exec_insert (key_of n) ex).
Proof.
  intros g ex d n H Hg Hp k Hk. unfold exec_insert in Hk. apply exec_place_In in Hk. destruct Hk as [->|Hk].
  - pose proof (get_node_some _ _ _ Hg) as [_ Hid].
    assert (Hk : k_id (key_of n) = d) by (unfold k_id, key_of; cbn [snd]; exact Hid).
    rewrite Hk. exists n. split; [exact Hg|]. split; [reflexivity | exact Hp].
  - apply (EE_exec_remove g ex (key_of n) H). exact Hk.
Qed.

Lemma GSteps_edges_sub : forall S g g', GSteps S g g' -> incl (g_edges g') (g_edges g).
Proof.
  intros S g g' H. induction H as [g | g id g' _ _ IH | g root g' _ IH]; [apply incl_refl | |].
  - eapply incl_tran; [exact IH | apply remove_single_edges_sub].
  - eapply incl_tran; [exact IH|]. destruct (remove_subtree g root) as [[g1 rm] pan] eqn:E. cbn [fst].
    apply (proj1 (remove_subtree_desc _ _ _ _ _ E)).
Qed.

Lemma pass_edges_sub : forall cs keys ps, incl (g_edges (ps_g (pass cs keys ps))) (g_edges (ps_g ps)).
Proof.
  intros. apply (GSteps_edges_sub (fun _ => True)). apply pass_gsteps. intros; exact Logic.I.
Qed.

Lemma has_deps_false : forall g d, has_dependencies g d = false -> parents g d = [].
Proof. intros g d H. unfold has_dependencies in H. destruct (parents g d); [reflexivity | discriminate]. Qed.

(* ---- pool level ---- *)
Definition EEp (p : pool) : Prop := EE (p_g p) (p_exec p).

Lemma rsu_ee : forall p root, EEp p -> EEp (fst (remove_subtree_and_update p root)).
Proof.
  intros p root HE. unfold remove_subtree_and_update.
  destruct (remove_subtree (p_g p) root) as [[g rm] pan] eqn:E. cbn [fst]. unfold EEp.
  destruct (uor_panic_g rm (with_g p g)) as [_ U2].
  cbn [set_panic p_g p_exec]. rewrite U2, uor_exec. cbn [with_g p_g p_exec].
  destruct (remove_subtree_corele _ _ _ _ _ E) as [HC HP].
  destruct (remove_subtree_desc _ _ _ _ _ E) as [HS _].
  destruct (remove_subtree_rem _ _ _ _ _ E) as [HR _].
  eapply EE_uor; eassumption.
Qed.

Lemma commit_stored_ee : forall p id tentative, EEp p ->
  EEp (fst (commit_stored p id tentative)) /\
  forall d, In d (snd (commit_stored p id tentative)) -> parents (p_g (fst (commit_stored p id tentative))) d = [].
Proof.
  intros p id tentative HE. unfold commit_stored.
  pose proof (remove_single_corele (p_g p) id) as HC. pose proof (remove_single_edges_sub (p_g p) id) as HS.
  destruct (remove_single (p_g (with_txmap p (adel N.eqb id (p_txmap p)))) id) as [g o] eqn:R.
  cbn [with_txmap p_g] in R. rewrite R in HC, HS. cbn [fst] in HC, HS. destruct o as [n|]; cbn [fst snd].
  - match goal with |- EEp (update_on_removal ?q [n]) /\ _ => destruct (uor_panic_g [n] q) as [_ U2];
      pose proof (uor_exec [n] q) as U3 end.
    cbn [with_spent with_eo with_g with_txmap p_g p_exec fold_left] in U2, U3. split.
    + unfold EEp. rewrite U2, U3.
      destruct (remove_single_spec _ _ _ _ R) as [S1 S2]. pose proof (get_node_some _ _ _ S1) as [_ Hid].
      apply (EE_uor (p_g p) g [n] (p_exec p) HE HC HS).
      * eapply Rem_step with (g1 := g) (g2 := g); [rewrite Hid; exact S1 | rewrite Hid; exact S2 | reflexivity | apply Rem_nil].
      * intros m [<-|[]]. exists n. rewrite Hid. split; [exact S1 | reflexivity].
    + intros d Hd. apply filter_In in Hd. destruct Hd as [_ Hd]. apply negb_true_iff in Hd.
      apply has_deps_false. exact Hd.
  - split; [exact HE | intros d []].
Qed.

Lemma promote_ee : forall ids p, EEp p -> (forall d, In d ids -> parents (p_g p) d = []) -> EEp (promote p ids).
Proof.
  unfold promote. induction ids as [|d r IH]; intros p HE HP; cbn [fold_left]; [exact HE|].
  destruct (get_node (p_g p) d) as [n|] eqn:E.
  - apply IH.
    + unfold EEp. cbn [with_exec p_g p_exec]. eapply EE_exec_insert; [exact HE | exact E | apply HP; left; reflexivity].
    + intros x Hx. cbn [with_exec p_g]. apply HP. right. exact Hx.
  - apply IH; [exact HE | intros x Hx; cbn [set_panic p_g]; apply HP; right; exact Hx].
Qed.

Lemma process_committed_ee : forall ids p, EEp p -> EEp (process_committed_transactions p ids).
Proof.
  intros ids p HE. unfold process_committed_transactions.
  match goal with |- context [fold_left ?f ids (p, [])] => set (F := f) end.
  assert (G : forall ids acc, EEp (fst acc) -> (forall d, In d (snd acc) -> parents (p_g (fst acc)) d = []) ->
              EEp (fst (fold_left F ids acc)) /\
              (forall d, In d (snd (fold_left F ids acc)) -> parents (p_g (fst (fold_left F ids acc))) d = [])).
  { induction ids0 as [|id r IH]; intros [q prom] Hq Hp; cbn [fold_left]; [split; assumption|].
    cbn [fst snd] in Hq, Hp. unfold F at 2 4 6. 
    destruct (amem N.eqb id (p_txmap (with_spent q (spend_inputs_by_tx_id (p_spent q) id)))).
    - pose proof (commit_stored_ee (with_spent q (spend_inputs_by_tx_id (p_spent q) id)) id false Hq) as [C1 C2].
      pose proof (commit_stored_graph (with_spent q (spend_inputs_by_tx_id (p_spent q) id)) id false) as CG.
      destruct (commit_stored (with_spent q (spend_inputs_by_tx_id (p_spent q) id)) id false) as [p' pr].
      cbn [fst snd] in *. apply IH; cbn [fst snd]; [exact C1|].
      intros d Hd. apply in_app_or in Hd. destruct Hd as [Hd|Hd]; [|apply C2; exact Hd].
      eapply parents_nil_sub; [|apply Hp; exact Hd]. rewrite CG. cbn [with_spent p_g]. apply remove_single_edges_sub.
    - apply IH; cbn [fst snd]; assumption. }
  destruct (G ids (p, []) HE (fun d (H : In d []) => match H with end)) as [G1 G2].
  destruct (fold_left F ids (p, [])) as [p1 prom]. cbn [fst snd] in G1, G2.
  apply (promote_ee prom p1 G1 G2).
Qed.

Lemma preconf_committed_ee : forall p id, EEp p -> EEp (process_preconfirmed_committed_transaction p id).
Proof.
  intros p id HE. unfold process_preconfirmed_committed_transaction.
  set (s0 := if amem N.eqb id (p_txmap p) then p_spent p else move_spender_to_tentative (p_spent p) id).
  set (p0 := with_spent p (spend_inputs_by_tx_id s0 id)).
  assert (H0 : EEp p0) by exact HE.
  destruct (amem N.eqb id (p_txmap p0)); [|exact H0].
  pose proof (commit_stored_ee p0 id true H0) as [C1 C2].
  destruct (commit_stored p0 id true) as [p1 pr]. cbn [fst snd] in C1, C2.
  match goal with |- EEp (update_stats ?q) => assert (K : EEp q); [|exact K] end.
  revert p1 C1 C2. induction pr as [|d r IH]; intros p1 C1 C2; cbn [fold_left]; [exact C1|].
  destruct (get_node (p_g p1) d) as [n|] eqn:E.
  - apply IH.
    + unfold EEp. cbn [with_exec p_g p_exec]. eapply EE_exec_insert; [exact C1 | exact E | apply C2; left; reflexivity].
    + intros x Hx. cbn [with_exec p_g]. apply C2. right. exact Hx.
  - apply IH; [exact C1 | intros x Hx; apply C2; right; exact Hx].
Qed.

Lemma rtd_ee : forall ids p reason, EEp p -> EEp (remove_transactions_and_dependents p ids reason).
Proof.
  intros ids p reason HE. unfold remove_transactions_and_dependents.
  match goal with |- context [fold_left ?f ids (p, [])] => set (F := f) end.
  assert (G : forall ids acc, EEp (fst acc) -> EEp (fst (fold_left F ids acc))).
  { induction ids0 as [|id r IH]; intros [q rem] Hq; cbn [fold_left]; [exact Hq|].
    apply IH. unfold F at 1. cbn [fst] in Hq. destruct (amem N.eqb id (p_txmap q)); [|exact Hq].
    pose proof (rsu_ee (with_txmap q (adel N.eqb id (p_txmap q))) id Hq) as Cm.
    destruct (remove_subtree_and_update (with_txmap q (adel N.eqb id (p_txmap q))) id) as [p' r']. exact Cm. }
  specialize (G ids (p, []) HE). destruct (fold_left F ids (p, [])) as [p1 removed]. exact G.
Qed.

Lemma evict_ee : forall p id reason, EEp p -> EEp (evict_coin_dependents p id reason).
Proof.
  intros p id reason HE. unfold evict_coin_dependents.
  generalize (get_coins_spenders (p_cm p) id) as deps. intros deps. revert p HE.
  induction deps as [|d r IH]; intros p HE; cbn [fold_left]; [exact HE|].
  apply IH. pose proof (rsu_ee p d HE) as Cm.
  destruct (remove_subtree_and_update p d) as [p' rm]. exact Cm.
Qed.

Lemma remove_skipped_ee : forall p id, EEp p -> EEp (remove_skipped_transaction p id).
Proof.
  intros p id HE. unfold remove_skipped_transaction.
  match goal with |- EEp (update_stats ?q) => assert (K : EEp q); [|exact K] end.
  apply evict_ee.
  match goal with |- EEp (with_spent (with_eo ?q _) _) => assert (K : EEp q); [|exact K] end.
  destruct (amem N.eqb id (p_txmap p)); [apply rtd_ee; exact HE | exact HE].
Qed.

Lemma rollback_ee : forall p id, EEp p -> EEp (rollback_preconfirmed_transaction p id).
Proof.
  intros p id HE. unfold rollback_preconfirmed_transaction.
  match goal with |- EEp (update_stats ?q) => assert (K : EEp q); [|exact K] end.
  generalize (contracts_created_by (p_eo p) id) as created. intros created.
  assert (H2 : EEp (evict_coin_dependents
                 (with_spent (with_eo p (new_executed_transaction (p_eo p) id)) (unspend_preconfirmed (p_spent p) id))
                 id R_ROLLBACK)).
  { apply evict_ee. exact HE. }
  revert H2. generalize (evict_coin_dependents
                 (with_spent (with_eo p (new_executed_transaction (p_eo p) id)) (unspend_preconfirmed (p_spent p) id))
                 id R_ROLLBACK) as p2.
  induction created as [|cid r IH]; intros p2 H2; cbn [fold_left]; [exact H2|].
  apply IH. destruct (contract_created_in_pool (p_cm p2) cid); [exact H2|].
  generalize (get_contract_users (p_cm p2) cid) as users. intros users. revert p2 H2.
  induction users as [|u us IHu]; intros p2 H2; cbn [fold_left]; [exact H2|].
  apply IHu. destruct (aget N.eqb u (p_txmap p2)) as [sid|]; [|exact H2].
  pose proof (rsu_ee p2 sid H2) as Cm.
  destruct (remove_subtree_and_update p2 sid) as [p' rm]. exact Cm.
Qed.

Lemma process_block_ee : forall w h ids, EEp (w_pool w) -> EEp (w_pool (process_block w h ids)).
Proof.
  intros w h ids HI. unfold process_block.
  pose proof (process_committed_ee ids (w_pool w) HI) as H1.
  set (p1 := process_committed_transactions (w_pool w) ids) in *.
  assert (H2 : EEp (with_eo p1 (fold_left new_executed_transaction ids (p_eo p1)))) by exact H1.
  revert H2. generalize (with_eo p1 (fold_left new_executed_transaction ids (p_eo p1))) as p2.
  generalize (w_tent w) at 2 as tent0.
  generalize (sortN (map fst (filter (fun e : N * list N => fst e <=? h) (w_tent w)))) as stale.
  induction stale as [|s r IH]; intros tent0 p2 H2; cbn [fold_left].
  - exact H2.
  - destruct (aget N.eqb s tent0) as [txs0|]; [|apply IH; exact H2].
    apply IH. generalize (sortN txs0) as l. intros l. revert p2 H2.
    induction l as [|id l IHl]; intros p2 H2; cbn [fold_left]; [exact H2|].
    apply IHl. destruct (memN id ids); [exact H2 | apply rollback_ee; exact H2].
Qed.

Lemma preconf_tx_ee : forall w id kind h outs, EEp (w_pool w) ->
  EEp (w_pool (process_preconfirmed_transaction w id kind h outs)).
Proof.
  intros w id kind h outs HI. unfold process_preconfirmed_transaction.
  destruct kind.
  - destruct (h <=? w_height w); [exact HI|].
    destruct outs; cbn [w_pool]; exact (preconf_committed_ee _ id HI).
  - destruct (h <=? w_height w); [exact HI|].
    destruct outs; cbn [w_pool]; exact (preconf_committed_ee _ id HI).
  - cbn [with_pool w_pool]. apply remove_skipped_ee. exact HI.
Qed.

(* ---- extraction ---- *)
Lemma pass_keeps_others : forall cs keys ps, EE (ps_g ps) keys -> ps_clean ps = [] ->
  forall k, In k keys -> (forall k0, In k0 (ps_clean (pass cs keys ps)) -> key_same k k0 = false) ->
  has_node (ps_g (pass cs keys ps)) (k_id k) = true.
Proof.
  intros cs keys ps HE Hc k Hk Hns.
  destruct (pass_clean_sublist cs keys ps) as [sel [new1 [C1 [R1 [SL M]]]]].
  destruct (pass_rem cs keys ps) as [new2 [R2 HR]].
  assert (new1 = new2) by (rewrite R1 in R2; apply app_inv_head in R2; exact R2). subst new2.
  rewrite Hc in C1. cbn [app] in C1. rewrite C1 in Hns.
  destruct (HE k Hk) as [n0 [G0 [K0 _]]].
  eapply Rem_kept; [exact HR | unfold has_node; rewrite G0; reflexivity|].
  rewrite <- M. intros Hin. apply in_map_iff in Hin. destruct Hin as [k0 [Eid Hk0]].
  destruct (HE k0 (sublist_In _ _ SL k0 Hk0)) as [n1 [G1 [K1 _]]]. rewrite Eid, G0 in G1. inversion G1; subst n1.
  specialize (Hns k0 Hk0). rewrite K0, K1, key_same_refl in Hns. discriminate.
Qed.

Lemma GSteps_corele : forall S g g', GSteps S g g' -> CoreLe g' g.
Proof.
  intros S g g' H. induction H as [g | g id g' _ _ IH | g root g' _ IH]; [apply CoreLe_refl | |].
  - eapply CoreLe_trans; [exact IH | apply remove_single_corele].
  - eapply CoreLe_trans; [exact IH|]. destruct (remove_subtree g root) as [[g1 rm] pan] eqn:E. cbn [fst].
    apply (proj1 (remove_subtree_corele _ _ _ _ _ E)).
Qed.

Lemma pass_corele_only : forall cs keys ps, CoreLe (ps_g (pass cs keys ps)) (ps_g ps).
Proof.
  intros. apply (GSteps_corele (fun _ => True)). apply pass_gsteps. intros; exact Logic.I.
Qed.

Lemma gather_iter_ee : forall cs exec ps0 ex', EE (ps_g ps0) exec -> ps_clean ps0 = [] ->
  (forall k, In k ex' -> In k exec /\ forall k0, In k0 (ps_clean (pass cs exec ps0)) -> key_same k k0 = false) ->
  EE (ps_g (pass cs exec ps0)) ex'.
Proof.
  intros cs exec ps0 ex' HE Hc Hk.
  eapply EE_shrink; [exact HE | apply pass_corele_only | apply pass_edges_sub |].
  intros k Hin. destruct (Hk k Hin) as [H1 H2]. split; [exact H1|]. apply pass_keeps_others; assumption.
Qed.

Lemma pass_promote_parentless : forall cs keys ps,
  (forall d, In d (ps_promote ps) -> parents (ps_g ps) d = []) ->
  forall d, In d (ps_promote (pass cs keys ps)) -> parents (ps_g (pass cs keys ps)) d = [].
Proof.
  intros cs. induction keys as [|k r IH]; intros ps HP; cbn [pass]; [exact HP|].
  destruct ((ps_nb ps =? 0) || (ps_gas ps =? 0) || (ps_space ps =? 0)); [exact HP|].
  destruct (get_node (ps_g ps) (k_id k)) as [n|] eqn:E.
  - destruct (touches_excluded (k_excluded cs) (n_tx n)); [apply IH; exact HP|].
    destruct (t_price (n_tx n) <? k_min_price cs); [apply IH; exact HP|].
    destruct ((ps_gas ps <? t_gas (n_tx n)) || (ps_space ps <? t_size (n_tx n))); [apply IH; exact HP|].
    apply IH. cbn [ps_promote ps_g]. intros d Hd. apply in_app_or in Hd. destruct Hd as [Hd|Hd].
    + eapply parents_nil_sub; [apply remove_single_edges_sub | apply HP; exact Hd].
    + apply filter_In in Hd. destruct Hd as [_ Hd]. apply negb_true_iff in Hd. apply has_deps_false. exact Hd.
  - apply IH. cbn [ps_promote ps_g]. exact HP.
Qed.

Lemma gather_promote_ee : forall g ds (acc : list ekey * bool), EE g (fst acc) ->
  (forall d, In d ds -> parents g d = []) ->
  EE g (fst (fold_left (fun acc d =>
               match get_node g d with
               | Some n => (exec_insert (key_of n) (fst acc), snd acc)
               | None => (fst acc, true)
               end) ds acc)).
Proof.
  intros g. induction ds as [|d r IH]; intros acc HE HP; cbn [fold_left]; [exact HE|].
  apply IH; [|intros x Hx; apply HP; right; exact Hx].
  destruct (get_node g d) as [n|] eqn:E; cbn [fst]; [|exact HE].
  eapply EE_exec_insert; [exact HE | exact E | apply HP; left; reflexivity].
Qed.

Lemma gather_loop_ee : forall cs fuel st, EE (gs_g st) (gs_exec st) ->
  EE (gs_g (gather_loop fuel cs st)) (gs_exec (gather_loop fuel cs st)).
Proof.
  intros cs. induction fuel as [|f IH]; intros st HE; cbn [gather_loop]; [exact HE|].
  destruct ((gs_gas st =? 0) || (gs_nb st =? 0) || (gs_space st =? 0)); [exact HE|].
  destruct (gs_exec st) as [|k0 ks] eqn:Ex; [rewrite Ex; exact HE|].
  match goal with |- context [pass cs (k0 :: ks) ?q] =>
    pose proof (gather_iter_ee cs (k0 :: ks) q) as GI;
    pose proof (pass_promote_parentless cs (k0 :: ks) q (fun d (H : In d []) => match H with end)) as PP;
    remember (pass cs (k0 :: ks) q) as pp eqn:Epp end.
  cbn [ps_g ps_clean] in GI. specialize (fun ex' => GI ex' HE eq_refl).
  destruct (ps_clean pp) eqn:Ec; [destruct (ps_promote pp) eqn:Ep|].
  - cbn [gs_g gs_exec]. apply GI. intros k Hk. apply In_fold_exec_remove_keys in Hk.
    split; [apply Hk | intros k1 []].
  - match goal with |- context [fold_left ?f ?l (?e, ps_panic pp)] =>
      pose proof (gather_promote_ee (ps_g pp) l (e, ps_panic pp)) as GP;
      destruct (fold_left f l (e, ps_panic pp)) as [ex3 pan] end.
    apply IH. cbn [gs_g gs_exec fst] in *. apply GP; [|exact PP].
    apply GI. intros k Hk. cbn [fold_left] in Hk. apply In_fold_exec_remove_keys in Hk.
    split; [apply Hk | intros k1 []].
  - match goal with |- context [fold_left ?f ?l (?e0, ps_panic pp)] =>
      pose proof (gather_promote_ee (ps_g pp) l (e0, ps_panic pp)) as GP;
      destruct (fold_left f l (e0, ps_panic pp)) as [ex3 pan] end.
    apply IH. cbn [gs_g gs_exec fst] in *. apply GP; [|exact PP].
    apply GI. intros k Hk. apply In_fold_exec_remove_keys in Hk. destruct Hk as [Hk1 Hk2].
    apply In_fold_exec_remove_keys in Hk1. split; [apply Hk1 | exact Hk2].
Qed.

Lemma extract_fold_ee : forall (F : pool -> node -> pool),
  (forall p n, p_g (F p n) = p_g p /\ p_exec (F p n) = p_exec p) ->
  forall rs p0, EEp p0 -> EEp (fold_left (fun p n => update_on_removal (F p n) [n]) rs p0).
Proof.
  intros F HF. induction rs as [|n r IH]; intros p0 H0; cbn [fold_left]; [exact H0|].
  apply IH. unfold EEp. destruct (uor_panic_g [n] (F p0 n)) as [_ U2]. rewrite U2, uor_exec.
  destruct (HF p0 n) as [F1 F2]. rewrite F1, F2. cbn [fold_left]. apply EE_exec_remove. exact H0.
Qed.

Lemma extract_ee : forall p cs, EEp p -> EEp (fst (extract_transactions_for_block p cs)).
Proof.
  intros p cs HE. unfold extract_transactions_for_block. cbn [fst].
  match goal with |- EEp (update_stats ?q) => assert (K : EEp q); [|exact K] end.
  apply (extract_fold_ee
           (fun p n => with_spent (with_eo p (new_extracted_transaction (p_eo p) (n_tx n)))
                                  (maybe_spend_inputs (p_spent p) (t_id (n_tx n)) (t_ins (n_tx n))))).
  - intros q n. split; reflexivity.
  - unfold EEp. cbn [set_panic with_exec with_g p_g p_exec]. unfold gather_best_txs.
    match goal with |- EE (gs_g (gather_loop ?f cs ?q)) _ => apply (gather_loop_ee cs f q) end. exact HE.
Qed.

(* ---- insertion ---- *)
Lemma rsu_fold_ee : forall roots p rem, EEp p -> EEp (fst (rsu_fold roots (p, rem))).
Proof.
  unfold rsu_fold. induction roots as [|root r IH]; intros p rem HE; cbn [fold_left]; [exact HE|].
  pose proof (rsu_ee p root HE) as Cm.
  destruct (remove_subtree_and_update p root) as [p' rm]. cbn [fst] in Cm. apply IH. exact Cm.
Qed.

Lemma do_insert_ee : forall p d t ci, HInv p -> EEp p -> can_insert_transaction p d t = inl ci ->
  EEp (do_insert p t ci).
Proof.
  intros p d t ci HI HE Hci. destruct (can_insert_facts2 _ _ _ _ Hci) as [_ [Hfresh [Hcs _]]].
  pose proof (hi_cover p HI) as B.
  destruct (can_store_bounds_all _ _ _ _ _ Hcs) as [_ [_ [Dsub _]]].
  pose proof (rsu_fold_ee (ci_remove ci ++ ci_collisions ci) p [] HE) as E1.
  unfold do_insert.
  fold (rsu_fold (ci_remove ci ++ ci_collisions ci) (p, [])).
  destruct (rsu_fold_hinv (ci_remove ci ++ ci_collisions ci) p [] HI) as [H1 _].
  destruct (rsu_fold_leaves (ci_remove ci ++ ci_collisions ci) p []) as [more [_ [M2 _]]].
  destruct (rsu_fold (ci_remove ci ++ ci_collisions ci) (p, [])) as [p1 removed]. cbn [fst snd] in *.
  pose proof (hi_graph p1 H1) as A1.
  assert (Hfresh1 : has_node (p_g p1) (t_id t) = false).
  { destruct (has_node (p_g p1) (t_id t)) eqn:E; [|reflexivity].
    apply (Rem_mono _ _ _ _ M2) in E. apply B in E. congruence. }
  assert (Hnone : get_node (p_g p1) (t_id t) = None).
  { unfold has_node in Hfresh1. destruct (get_node (p_g p1) (t_id t)); [discriminate | reflexivity]. }
  set (g' := store (p_g p1) t (ci_direct ci) (ci_all ci) (p_seq p1)).
  assert (Hed : forall a b, In (a, b) (g_edges g') ->
                  In (a, b) (g_edges (p_g p1)) \/ (b = t_id t /\ In a (ci_direct ci))).
  { intros a b H. unfold g' in H.
    destruct (store_fields (p_g p1) t (ci_direct ci) (ci_all ci) (p_seq p1)) as [c [k [bump [_ [_ E]]]]].
    rewrite E in H. cbn [g_edges] in H. apply in_app_or in H. destruct H as [H|H]; [left; exact H|].
    right. apply in_map_iff in H. destruct H as [x [Ex Hx]]. inversion Ex; subst. split; [reflexivity | exact Hx]. }
  assert (EEg : EE g' (p_exec p1)).
  { intros k Hk. destruct (E1 k Hk) as [n [G [K P]]].
    destruct (get_node_store (p_g p1) t (ci_direct ci) (ci_all ci) (p_seq p1) (k_id k)) as [GS _]. cbv zeta in GS.
    destruct (GS n G) as [n' [G' C']]. exists n'. split; [exact G'|]. split; [rewrite K; symmetry; apply key_of_core; exact C'|].
    destruct (parents g' (k_id k)) as [|q l] eqn:Ep; [reflexivity|].
    assert (Hq : In q (parents g' (k_id k))) by (rewrite Ep; left; reflexivity).
    apply parents_In in Hq. destruct (Hed _ _ Hq) as [Hq'|[Hq' _]].
    - apply parents_In in Hq'. rewrite P in Hq'. destruct Hq'.
    - rewrite Hq' in G. congruence. }
  unfold EEp. cbn [update_stats p_g p_exec]. fold g'.
  destruct (ci_all ci) as [|a0 al] eqn:Eall; [|exact EEg].
  eapply EE_exec_insert with (d := t_id t); [exact EEg | |].
  - destruct (get_node_store (p_g p1) t (ci_direct ci) [] (p_seq p1) (t_id t)) as [_ [_ GS]]. cbv zeta in GS.
    unfold g'. apply GS; [exact Hnone | reflexivity].
  - destruct (parents g' (t_id t)) as [|q l] eqn:Ep; [reflexivity|].
    assert (Hq : In q (parents g' (t_id t))) by (rewrite Ep; left; reflexivity).
    apply parents_In in Hq. destruct (Hed _ _ Hq) as [Hq'|[_ Hq']].
    + destruct (gi_edges _ _ A1 _ _ Hq') as [_ [Hb _]]. congruence.
    + apply Dsub in Hq'. destruct Hq'.
Qed.

(* ---- all operations ---- *)
Definition Inv3 (p : pool) : Prop := Inv2 p /\ EEp p.

Lemma step_ee : forall w o, HInv (w_pool w) -> EEp (w_pool w) -> EEp (w_pool (fst (step w o))).
Proof.
  intros w o HI HE. destruct o; cbn [step].
  - unfold worker_insert. destruct (pool_insert (w_pool w) (w_db w) t) as [p r] eqn:E.
    cbn [fst with_pool w_pool]. unfold pool_insert in E.
    destruct (lru_mem (KTx (t_id t)) (s_lru (p_spent (w_pool w))) || memN (t_id t) (d_txs (w_db w)));
      [inversion E; subst; exact HE|].
    destruct (can_insert_transaction (w_pool w) (w_db w) t) as [ci|e] eqn:C; inversion E; subst; [|exact HE].
    eapply do_insert_ee; eassumption.
  - pose proof (extract_ee (w_pool w) cs HE) as Cm.
    destruct (extract_transactions_for_block (w_pool w) cs) as [p ns]. exact Cm.
  - cbn [fst]. apply process_block_ee. exact HE.
  - cbn [fst]. apply preconf_tx_ee. exact HE.
  - cbn [fst with_pool w_pool]. apply rtd_ee. exact HE.
  - exact HE.
Qed.

Lemma step_inv3 : forall w o, Inv3 (w_pool w) -> Inv3 (w_pool (fst (step w o))).
Proof.
  intros w o [I2 HE]. split; [apply (proj1 (step_inv2 w o I2)) | apply step_ee; [exact (proj1 I2) | exact HE]].
Qed.

Lemma inv3_init : forall cfg, Inv3 (pool_new cfg).
Proof. intros cfg. split; [apply inv2_init | intros k []]. Qed.

Lemma run_inv3 : forall ops w, Inv3 (w_pool w) -> Forall (fun wr => Inv3 (w_pool (fst wr))) (run w ops).
Proof.
  induction ops as [|o r IH]; intros w HI; cbn [run]; [constructor|].
  pose proof (step_inv3 w o HI) as Cm. destruct (step w o) as [w' res]. cbn [fst] in Cm.
  constructor; [exact Cm | apply IH; exact Cm].
Qed.

Theorem exec_exact_run : forall cfg d h ops,
  Forall (fun wr => let p := w_pool (fst wr) in
            forall k, In k (p_exec p) ->
              exists n, get_node (p_g p) (k_id k) = Some n /\ k = key_of n /\ has_dependencies (p_g p) (k_id k) = false)
         (run (worker_new cfg d h) ops).
Proof.
  intros cfg d h ops. pose proof (run_inv3 ops (worker_new cfg d h) (inv3_init cfg)) as H.
  rewrite Forall_forall in *. intros wr Hwr. cbv zeta. intros k Hk. destruct (H wr Hwr) as [_ HE].
  destruct (HE k Hk) as [n [G [K P]]]. exists n. split; [exact G|]. split; [exact K|].
  unfold has_dependencies. rewrite P. reflexivity.
Qed.

(* ---- parents before children in an extraction ---- *)
Definition PFI (g : graph) (ids : list N) : Prop :=
  forall l1 x l2, ids = l1 ++ x :: l2 -> forall p, In p (parents g x) -> In p l1.

Lemma PFI_snoc : forall g ids x, PFI g ids -> (forall p, In p (parents g x) -> In p ids) -> PFI g (ids ++ [x]).
Proof.
  intros g ids x H Hx l1 y l2 E p Hp. destruct (exists_last (l := y :: l2)) as [l2' [z E2]]; [discriminate|].
  assert (E' : ids ++ [x] = (l1 ++ l2') ++ [z]) by (rewrite E, E2, app_assoc; reflexivity).
  apply app_inj_tail in E'. destruct E' as [E1 Ez]. subst z.
  destruct l2' as [|y' l2'']; cbn [app] in E2; injection E2 as Ey El.
  - rewrite app_nil_r in E1. rewrite <- E1. apply Hx. rewrite <- Ey. exact Hp.
  - rewrite Ey in Hp. apply (H l1 y' l2'' E1 p Hp).
Qed.

Lemma parents_first_complete : forall g xs seen,
  (forall l1 x l2, xs = l1 ++ x :: l2 -> forall p, In p (parents g x) -> In p seen \/ In p l1) ->
  parents_first g seen xs = true.
Proof.
  intros g. induction xs as [|x r IH]; intros seen H; cbn [parents_first]; [reflexivity|].
  apply andb_true_iff. split.
  - apply forallb_forall. intros p Hp. apply memN_In.
    destruct (H [] x r eq_refl p Hp) as [A|[]]. exact A.
  - apply IH. intros l1 y l2 E p Hp. destruct (H (x :: l1) y l2) with (p := p) as [A|[A|A]].
    + rewrite E. reflexivity.
    + exact Hp.
    + left. right. exact A.
    + left. left. exact A.
    + right. exact A.
Qed.

Lemma pass_pf : forall g0 cs keys ps,
  KeepG (fun x => In x (map n_id (ps_result ps))) g0 (ps_g ps) ->
  (forall k, In k keys -> parents (ps_g ps) (k_id k) = []) ->
  PFI g0 (map n_id (ps_result ps)) ->
  KeepG (fun x => In x (map n_id (ps_result (pass cs keys ps)))) g0 (ps_g (pass cs keys ps)) /\
  PFI g0 (map n_id (ps_result (pass cs keys ps))).
Proof.
  intros g0 cs. induction keys as [|k r IH]; intros ps HK HP HF; cbn [pass]; [split; assumption|].
  destruct ((ps_nb ps =? 0) || (ps_gas ps =? 0) || (ps_space ps =? 0)); [split; assumption|].
  assert (HPr : forall k', In k' r -> parents (ps_g ps) (k_id k') = []) by (intros k' Hk'; apply HP; right; exact Hk').
  destruct (get_node (ps_g ps) (k_id k)) as [n|] eqn:E.
  - destruct (touches_excluded (k_excluded cs) (n_tx n)); [apply IH; assumption|].
    destruct (t_price (n_tx n) <? k_min_price cs); [apply IH; assumption|].
    destruct ((ps_gas ps <? t_gas (n_tx n)) || (ps_space ps <? t_size (n_tx n))); [apply IH; assumption|].
    pose proof (get_node_some _ _ _ E) as [_ Hid].
    apply IH; cbn [ps_g ps_result]; rewrite ?map_app; cbn [map].
    + eapply KeepG_trans.
      * eapply KeepG_weaken; [|exact HK]. intros x Hx. apply in_or_app. left. exact Hx.
      * apply remove_single_keep. apply in_or_app. right. left. exact Hid.
    + intros k' Hk'. eapply parents_nil_sub; [apply remove_single_edges_sub | apply HPr; exact Hk'].
    + apply PFI_snoc; [exact HF|]. intros p Hp. apply parents_In in Hp. rewrite Hid in Hp.
      destruct HK as [KE _]. destruct (KE p (k_id k) Hp) as [Hs|Hin]; [unfold has_node; rewrite E; reflexivity | exact Hs|].
      apply parents_In in Hin. rewrite (HP k (or_introl eq_refl)) in Hin. destruct Hin.
  - apply IH; cbn [ps_g ps_result]; assumption.
Qed.

Definition GInv (g0 : graph) (st : gather_state) : Prop :=
  EE (gs_g st) (gs_exec st) /\
  KeepG (fun x => In x (map n_id (gs_result st))) g0 (gs_g st) /\
  PFI g0 (map n_id (gs_result st)).

Lemma gather_loop_pf : forall g0 cs fuel st, GInv g0 st -> GInv g0 (gather_loop fuel cs st).
Proof.
  intros g0 cs. induction fuel as [|f IH]; intros st [HE [HK HF]]; cbn [gather_loop];
    [split; [|split]; assumption|].
  destruct ((gs_gas st =? 0) || (gs_nb st =? 0) || (gs_space st =? 0)); [split; [|split]; assumption|].
  destruct (gs_exec st) as [|k0 ks] eqn:Ex; [split; [rewrite Ex; exact HE | split; assumption]|].
  assert (HPar : forall k, In k (k0 :: ks) -> parents (gs_g st) (k_id k) = []).
  { intros k Hk. destruct (HE k Hk) as [n [_ [_ P]]]. exact P. }
  match goal with |- context [pass cs (k0 :: ks) ?q] =>
    pose proof (gather_iter_ee cs (k0 :: ks) q) as GI;
    pose proof (pass_promote_parentless cs (k0 :: ks) q (fun d (H : In d []) => match H with end)) as PP;
    pose proof (pass_pf g0 cs (k0 :: ks) q HK HPar HF) as [PK PFp];
    remember (pass cs (k0 :: ks) q) as pp eqn:Epp end.
  cbn [ps_g ps_clean] in GI. specialize (fun ex' => GI ex' HE eq_refl).
  destruct (ps_clean pp) eqn:Ec; [destruct (ps_promote pp) eqn:Ep|].
  - cbn [gs_g gs_exec]. split; [|split; cbn [gs_g gs_result]; assumption]. cbn [gs_g gs_exec].
    apply GI. intros k Hk. apply In_fold_exec_remove_keys in Hk.
    split; [apply Hk | intros k1 []].
  - match goal with |- context [fold_left ?f ?l (?e, ps_panic pp)] =>
      pose proof (gather_promote_ee (ps_g pp) l (e, ps_panic pp)) as GP;
      destruct (fold_left f l (e, ps_panic pp)) as [ex3 pan] end.
    apply IH. split; [|split; cbn [gs_g gs_result]; assumption]. cbn [gs_g gs_exec fst] in *. apply GP; [|exact PP].
    apply GI. intros k Hk. cbn [fold_left] in Hk. apply In_fold_exec_remove_keys in Hk.
    split; [apply Hk | intros k1 []].
  - match goal with |- context [fold_left ?f ?l (?e0, ps_panic pp)] =>
      pose proof (gather_promote_ee (ps_g pp) l (e0, ps_panic pp)) as GP;
      destruct (fold_left f l (e0, ps_panic pp)) as [ex3 pan] end.
    apply IH. split; [|split; cbn [gs_g gs_result]; assumption]. cbn [gs_g gs_exec fst] in *. apply GP; [|exact PP].
    apply GI. intros k Hk. apply In_fold_exec_remove_keys in Hk. destruct Hk as [Hk1 Hk2].
    apply In_fold_exec_remove_keys in Hk1. split; [apply Hk1 | exact Hk2].
Qed.

Lemma extract_parents_first : forall p cs, EEp p ->
  parents_first (p_g p) [] (map n_id (snd (extract_transactions_for_block p cs))) = true.
Proof.
  intros p cs HE. rewrite extract_result. unfold gather_best_txs.
  match goal with |- context [gather_loop ?f cs ?q] =>
    assert (GI : GInv (p_g p) (gather_loop f cs q)) end.
  { apply gather_loop_pf. split; [exact HE|]. cbn [gs_g gs_result map]. split; [apply KeepG_refl|].
    intros l1 x l2 E. destruct l1; discriminate. }
  destruct GI as [_ [_ PF]]. apply parents_first_complete. intros l1 x l2 E q Hq. right. eapply PF; eassumption.
Qed.

Theorem extraction_parents_first_run : forall cfg d h ops,
  Forall (fun wr => forall cs,
            parents_first (p_g (w_pool (fst wr))) []
              (map n_id (snd (extract_transactions_for_block (w_pool (fst wr)) cs))) = true)
         (run (worker_new cfg d h) ops).
Proof.
  intros cfg d h ops. pose proof (run_inv3 ops (worker_new cfg d h) (inv3_init cfg)) as H.
  rewrite Forall_forall in *. intros wr Hwr cs. apply extract_parents_first. apply (H wr Hwr).
Qed.

(* non-vacuity: parent 1 and child 2 handed out by one extraction, in this order *)
Example parents_first_nontrivial :
  let w := fst (fst (step (fst (step (worker_new (mkCfg 4 100 100 3 true) ex_db 0) (OpInsert ex_t1))) (OpInsert ex_t2)), 0) in
  (g_edges (p_g (w_pool w)), map k_id (p_exec (w_pool w)),
   map n_id (snd (extract_transactions_for_block (w_pool w) (mkCons 0 100 10 100 []))))
  = ([(1, 2)], [1], [1; 2]).
Proof. vm_compute. reflexivity. Qed.
