(* Meaning of the decidable checkers evaluated on implementation traces. *)
From FC Require Import Pool.Model Pool.ProofsBase Pool.ProofsCore Pool.ProofsRemoval Pool.ProofsOps Pool.ProofsInsert.
From Coq Require Import ZifyBool ZifyN ZifyNat.
Open Scope N_scope.

Lemma node_ids_tids : forall g, node_ids g = tids (txs g).
Proof. intros. unfold node_ids, tids, txs. rewrite map_map. reflexivity. Qed.

(* C16: what pool_invb = true says about conflicts and accounting *)
Lemma pool_invb_c16 : forall ex p, pool_invb_gen ex p = true ->
  NoDup (tids (txs (p_g p))) /\ NoConflict (txs (p_g p)) /\
  p_gas p = sumN (map t_gas (txs (p_g p))) /\ p_bytes p = sumN (map t_size (txs (p_g p))) /\
  p_stats p = (lenN (p_txmap p), p_bytes p, p_gas p).
Proof.
  intros ex p H. unfold pool_invb_gen in H.
  repeat match goal with Hx : _ && _ = true |- _ => apply andb_true_iff in Hx; destruct Hx end.
  match goal with Hi : inv_ids p = true |- _ => unfold inv_ids in Hi;
    repeat (apply andb_true_iff in Hi; destruct Hi as [Hi ?]); apply nodupN_NoDup in Hi;
    rewrite node_ids_tids in Hi; rename Hi into Hnd end.
  split; [exact Hnd|]. split.
  - intros a b Ha Hb Hne. eapply nc_disjoint; [|exact Ha | exact Hb | exact Hne].
    unfold txs. assumption.
  - match goal with Hacc : inv_accounting p = true |- _ => unfold inv_accounting in Hacc;
      apply andb_true_iff in Hacc; destruct Hacc as [Hacc Hst];
      apply andb_true_iff in Hacc; destruct Hacc as [Hg Hb] end.
    apply N.eqb_eq in Hg, Hb. unfold txs. rewrite !map_map. split; [exact Hg|]. split; [exact Hb|].
    destruct (p_stats p) as [[c s] gs].
    apply andb_true_iff in Hst. destruct Hst as [Hst S3].
    apply andb_true_iff in Hst. destruct Hst as [S1 S2].
    apply N.eqb_eq in S1, S2, S3. subst. reflexivity.
Qed.

(* the boolean no-conflict test is exactly pairwise key-disjointness *)
Lemma no_conflictb_iff : forall l, no_conflictb l = true <->
  ForallOrdPairs Disjoint_keys l.
Proof.
  unfold no_conflictb. induction l as [|x r IH]; cbn [pairwise].
  - split; [constructor | reflexivity].
  - rewrite andb_true_iff, IH, forallb_forall. split.
    + intros [H1 H2]. constructor; [|exact H2]. apply Forall_forall. intros y Hy.
      apply tx_compatible_spec. apply H1. exact Hy.
    + intros H. inversion H; subst. split; [|assumption]. intros y Hy. apply tx_compatible_spec.
      rewrite Forall_forall in H2. apply H2. exact Hy.
Qed.

(* ---- C17: meaning of the graph checkers ---- *)
Inductive Reach (g : graph) : N -> N -> Prop :=
| reach_edge : forall a b, In (a, b) (g_edges g) -> Reach g a b
| reach_trans : forall a b c, Reach g a b -> Reach g b c -> Reach g a c.

(* inv_edges: every dependency is strictly older than its dependent, hence no cycle *)
Lemma inv_edges_older : forall g, inv_edges g = true ->
  forall a b, Reach g a b -> seq_of g a < seq_of g b.
Proof.
  intros g H. unfold inv_edges in H. apply andb_true_iff in H. destruct H as [_ H].
  rewrite forallb_forall in H. induction 1 as [a b Hin | a b c _ IH1 _ IH2].
  - specialize (H (a, b) Hin). cbn [fst snd] in H.
    apply andb_true_iff in H. destruct H as [_ H]. lia.
  - lia.
Qed.

Lemma inv_edges_acyclic : forall g, inv_edges g = true -> forall a, ~ Reach g a a.
Proof. intros g H a R. pose proof (inv_edges_older g H a a R). lia. Qed.

(* cascadeb: a transaction that left without being included took all its dependents with it *)
Lemma cascadeb_spec : forall s, cascadeb s = true <->
  forall p c, In (p, c) (g_edges (pre_g s)) -> has_node (post_g s) p = false ->
              ~ In p (included s) -> has_node (post_g s) c = false.
Proof.
  intros s. unfold cascadeb. rewrite forallb_forall. split.
  - intros H p c Hin Hp Hi. specialize (H (p, c) Hin). cbn [fst snd] in H.
    apply orb_true_iff in H. destruct H as [H|H].
    + apply orb_true_iff in H. destruct H as [H|H]; [congruence|]. apply memN_In in H. contradiction.
    + apply negb_true_iff in H. exact H.
  - intros H [p c] Hin. cbn [fst snd]. destruct (has_node (post_g s) p) eqn:Ep; [reflexivity|].
    destruct (memN p (included s)) eqn:Ei; [reflexivity|]. cbn [orb].
    apply negb_true_iff. apply (H p c); [exact Hin | exact Ep | apply memN_false; exact Ei].
Qed.

(* parents_first: every pool parent of an extracted transaction was handed out before it *)
Lemma parents_first_spec : forall g xs seen, parents_first g seen xs = true ->
  forall l1 x l2, xs = l1 ++ x :: l2 -> forall p, In p (parents g x) -> In p seen \/ In p l1.
Proof.
  intros g. induction xs as [|y r IH]; intros seen H l1 x l2 E p Hp.
  - destruct l1; discriminate.
  - cbn [parents_first] in H. apply andb_true_iff in H. destruct H as [H1 H2].
    destruct l1 as [|z l1]; cbn [app] in E; inversion E; subst.
    + left. rewrite forallb_forall in H1. apply memN_In. apply H1. exact Hp.
    + destruct (IH (z :: seen) H2 l1 x l2 eq_refl p Hp) as [[Hs|Hs]|Hs].
      * right. left. exact Hs.
      * left. exact Hs.
      * right. right. exact Hs.
Qed.
