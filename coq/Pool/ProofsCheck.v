(* Meaning of the decidable checkers evaluated on implementation traces. *)
From FC Require Import Pool.Model Pool.ProofsBase Pool.ProofsCore Pool.ProofsRemoval Pool.ProofsOps Pool.ProofsInsert.
From Coq Require Import ZifyBool ZifyN ZifyNat.
Open Scope N_scope.

Lemma node_ids_tids : forall g, node_ids g = tids (txs g).
Proof. intros. unfold node_ids, tids, txs. rewrite map_map. reflexivity. Qed.

(* C16: what pool_invb = true says about conflicts and accounting *)
Lemma pool_invb_c16 : forall p, pool_invb p = true ->
  NoDup (tids (txs (p_g p))) /\ NoConflict (txs (p_g p)) /\
  p_gas p = sumN (map t_gas (txs (p_g p))) /\ p_bytes p = sumN (map t_size (txs (p_g p))) /\
  p_stats p = (lenN (p_txmap p), p_bytes p, p_gas p).
Proof.
  intros p H. unfold pool_invb in H.
  repeat match goal with Hx : _ && _ = true |- _ => apply andb_true_iff in Hx; destruct Hx end.
  match goal with Hi : inv_ids p = true |- _ => unfold inv_ids in Hi;
    repeat (apply andb_true_iff in Hi; destruct Hi as [Hi ?]); apply nodupN_NoDup in Hi;
    rewrite node_ids_tids in Hi; rename Hi into Hnd end.
  split; [exact Hnd|]. split.
  - intros a b Ha Hb Hne. eapply nc_disjoint; [|exact Ha | exact Hb | exact Hne].
    unfold txs. assumption.
  - match goal with Hacc : inv_accounting p = true |- _ => unfold inv_accounting in Hacc;
      apply andb_true_iff in Hacc; destruct Hacc as [Hacc Hst];
      apply andb_true_iff in Hacc; destruct Hacc as [Hg Hb] end.
    apply N.eqb_eq in Hg, Hb. unfold txs. rewrite !map_map. split; [exact Hg|]. split; [exact Hb|].
    destruct (p_stats p) as [[c s] gs].
    apply andb_true_iff in Hst. destruct Hst as [Hst S3].
    apply andb_true_iff in Hst. destruct Hst as [S1 S2].
    apply N.eqb_eq in S1, S2, S3. subst. reflexivity.
Qed.

(* the boolean no-conflict test is exactly pairwise key-disjointness *)
Lemma no_conflictb_iff : forall l, no_conflictb l = true <->
  ForallOrdPairs Disjoint_keys l.
Proof.
  unfold no_conflictb. induction l as [|x r IH]; cbn [pairwise].
  - split; [constructor | reflexivity].
  - rewrite andb_true_iff, IH, forallb_forall. split.
    + intros [H1 H2]. constructor; [|exact H2]. apply Forall_forall. intros y Hy.
      apply tx_compatible_spec. apply H1. exact Hy.
    + intros H. inversion H; subst. split; [|assumption]. intros y Hy. apply tx_compatible_spec.
      rewrite Forall_forall in H2. apply H2. exact Hy.
Qed.
