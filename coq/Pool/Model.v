(* Executable model of fuel-core-txpool (crates/services/txpool_v2/src):
     storage/graph.rs                     GraphStorage
     collision_manager/basic.rs           BasicCollisionManager
     pool/collisions.rs                   check_collision_requirements / is_better_than_collision
     selection_algorithms/ratio_tip_gas.rs RatioTipGasSelection
     spent_inputs.rs, extracted_outputs.rs
     pool.rs                              Pool
     pool_worker.rs                       PoolWorker::{insert, extract_block_transactions, process_block,
                                          process_preconfirmed_transaction, remove_expired_transactions}
   Storage indexes (petgraph NodeIndex) are identified with transaction ids.  Hash maps are
   association lists; dumps are sorted.  u64/usize arithmetic is explicit (saturating).
   Covered transaction kinds: any transaction seen as (id, inputs Coin/Message/Contract, outputs
   Coin/Change/Variable/Contract/ContractCreated, optional blob id, tip, max_gas, max_gas_price, size).
   Not modelled: black list (empty), pending pool (disabled: max_pending_pool_size_percentage = 0),
   metrics, wall-clock (creation instants are a counter). *)
From FC Require Export Common.T.
Open Scope N_scope.

(* ------------------------------------------------------------------ *)
(* Data                                                                *)

Definition utxo := (N * N)%type.                      (* (tx id, output index) *)
Definition utxo_eqb (a b : utxo) : bool := (fst a =? fst b) && (snd a =? snd b).

Inductive input :=
| ICoin (u : utxo) (owner amount asset : N)
| IMsg (nonce amount : N)
| IContract (cid : N).

Inductive output :=
| OCoin (owner amount asset : N)
| OChange (owner amount asset : N)
| OVariable (owner amount asset : N)
| OContract
| OCreated (cid : N).

Record tx := mkTx {
  t_id : N; t_ins : list input; t_outs : list output; t_blob : option N;
  t_tip : N; t_gas : N; t_price : N; t_size : N }.

Inductive key := KTx (id : N) | KUtxo (u : utxo) | KMsg (n : N).
Definition key_eqb (a b : key) : bool :=
  match a, b with
  | KTx x, KTx y => x =? y
  | KUtxo x, KUtxo y => utxo_eqb x y
  | KMsg x, KMsg y => x =? y
  | _, _ => false
  end.

(* association lists *)
Section Assoc.
  Context {K V : Type} (eqb : K -> K -> bool).
  Fixpoint aget (k : K) (m : list (K * V)) : option V :=
    match m with
    | [] => None
    | (k', v) :: r => if eqb k' k then Some v else aget k r
    end.
  Definition amem (k : K) (m : list (K * V)) : bool :=
    match aget k m with Some _ => true | None => false end.
  Definition adel (k : K) (m : list (K * V)) : list (K * V) :=
    filter (fun e => negb (eqb (fst e) k)) m.
  (* HashMap::insert: replace the value of an existing key, else add *)
  Fixpoint aset (k : K) (v : V) (m : list (K * V)) : list (K * V) :=
    match m with
    | [] => [(k, v)]
    | (k', v') :: r => if eqb k' k then (k', v) :: r else (k', v') :: aset k v r
    end.
End Assoc.

Definition memN (x : N) (l : list N) : bool := existsb (N.eqb x) l.
Definition addN (x : N) (l : list N) : list N := if memN x l then l else l ++ [x].
Definition delN (x : N) (l : list N) : list N := filter (fun y => negb (y =? x)) l.
Fixpoint dedupN (l : list N) : list N :=
  match l with [] => [] | x :: r => if memN x r then dedupN r else x :: dedupN r end.
Definition lenN {A} (l : list A) : N := N.of_nat (length l).

Fixpoint enum_from {A} (i : N) (l : list A) : list (N * A) :=
  match l with [] => [] | x :: r => (i, x) :: enum_from (i + 1) r end.
Definition enum {A} (l : list A) : list (N * A) := enum_from 0 l.

(* error codes of an insertion (variant tags; reasons that depend on hash-map
   iteration order in the implementation are collapsed into one tag) *)
Definition E_DUP : N := 1.        Definition E_GASZERO : N := 2.
Definition E_BLOBTAKEN : N := 4.  Definition E_UTXOSPENT : N := 5.
Definition E_MSGSPENT : N := 6.   Definition E_COINMISMATCH : N := 7.
Definition E_MSGMISMATCH : N := 8. Definition E_MSGUNKNOWN : N := 9.
Definition E_WRONGOWNER : N := 10. Definition E_WRONGAMOUNT : N := 11.
Definition E_WRONGASSET : N := 12. Definition E_CONTRACTOUT : N := 13.
Definition E_CHANGEVAR : N := 14. Definition E_COLLIDED : N := 15.
Definition E_MULTICOLL : N := 16. Definition E_COLLDEP : N := 17.
Definition E_DEPENDENCY : N := 18. Definition E_LIMIT : N := 19.
Definition E_UTXONOTFOUND : N := 20. Definition E_CONTRACTMISSING : N := 21.
Definition E_FUEL : N := 98.

Inductive res (A : Type) := Good (a : A) | Bad (e : N).
Arguments Good {A} a. Arguments Bad {A} e.

(* ------------------------------------------------------------------ *)
(* GraphStorage                                                        *)

Record node := mkNode {
  n_tx : tx; n_ctip : N; n_cgas : N; n_cbytes : N; n_cnt : N; n_seq : N }.
Definition n_id (n : node) : N := t_id (n_tx n).

Record graph := mkGraph {
  g_nodes : list node;                (* insertion order *)
  g_edges : list (N * N);             (* (dependency, dependent) *)
  g_coins : list (utxo * N);          (* coins_creators *)
  g_contracts : list (N * N) }.       (* contracts_creators *)

Definition g_empty : graph := mkGraph [] [] [] [].

Definition get_node (g : graph) (id : N) : option node :=
  find (fun n => n_id n =? id) (g_nodes g).
Definition has_node (g : graph) (id : N) : bool :=
  match get_node g id with Some _ => true | None => false end.
Definition parents (g : graph) (id : N) : list N :=
  map fst (filter (fun e => snd e =? id) (g_edges g)).
Definition children (g : graph) (id : N) : list N :=
  map snd (filter (fun e => fst e =? id) (g_edges g)).
Definition has_dependencies (g : graph) (id : N) : bool :=
  match parents g id with [] => false | _ => true end.

(* node_weight_mut: update the node(s) stored under [id] in place *)
Definition upd_node (g : graph) (id : N) (f : node -> node) : graph :=
  mkGraph (map (fun m => if n_id m =? id then f m else m) (g_nodes g))
          (g_edges g) (g_coins g) (g_contracts g).

(* clear_cache *)
Definition clear_cache (id : N) (outs : list output) (coins : list (utxo * N))
  (contracts : list (N * N)) : list (utxo * N) * list (N * N) :=
  fold_left (fun acc io =>
    let '(c, k) := acc in
    match snd io with
    | OCoin _ _ _ => (adel utxo_eqb (id, fst io) c, k)
    | OCreated cid => (c, adel N.eqb cid k)
    | _ => (c, k)
    end) (enum outs) (coins, contracts).

(* cache_tx_infos *)
Definition cache_tx_infos (id : N) (outs : list output) (coins : list (utxo * N))
  (contracts : list (N * N)) : list (utxo * N) * list (N * N) :=
  fold_left (fun acc io =>
    let '(c, k) := acc in
    match snd io with
    | OCoin _ _ _ => (aset utxo_eqb (id, fst io) id c, k)
    | OCreated cid => (c, aset N.eqb cid id k)
    | _ => (c, k)
    end) (enum outs) (coins, contracts).

(* graph.remove_node + clear_cache  (Storage::remove_transaction / RatioTipGas storage remove) *)
Definition remove_single (g : graph) (id : N) : graph * option node :=
  match get_node g id with
  | None => (g, None)
  | Some n =>
      let '(c, k) := clear_cache id (t_outs (n_tx n)) (g_coins g) (g_contracts g) in
      (mkGraph (filter (fun m => negb (n_id m =? id)) (g_nodes g))
               (filter (fun e => negb (fst e =? id) && negb (snd e =? id)) (g_edges g))
               c k, Some n)
  end.

Definition reduce_node (rem n : node) : node :=
  mkNode (n_tx n) (sat_sub (n_ctip n) (n_ctip rem)) (sat_sub (n_cgas n) (n_cgas rem))
         (sat_sub (n_cbytes n) (n_cbytes rem)) (sat_sub (n_cnt n) (n_cnt rem)) (n_seq n).

(* reduce_dependencies_cumulative_gas_tip_and_chain_count, as a work list *)
Fixpoint reduce_up (fuel : nat) (g : graph) (work : list N) (rem : node) : graph :=
  match fuel with
  | O => g
  | S f =>
      match work with
      | [] => g
      | id :: rest =>
          if has_node g id
          then reduce_up f (upd_node g id (reduce_node rem)) (parents g id ++ rest) rem
          else reduce_up f g rest rem
      end
  end.
Definition fuel_up (g : graph) : nat := S (length (g_nodes g)) * S (length (g_edges g)).

(* bfs: returns (graph, removed nodes in removal order, panicked) *)
Fixpoint bfs (fuel : nat) (g : graph) (queue : list N) (acc : list node) : graph * list node * bool :=
  match fuel with
  | O => (g, rev acc, false)
  | S f =>
      match queue with
      | [] => (g, rev acc, false)
      | r :: q =>
          let deps := children g r in
          let pars := parents g r in
          match remove_single g r with
          | (_, None) => (g, rev acc, true)         (* expect() on a vanished node *)
          | (g1, Some n) =>
              let g2 := reduce_up (fuel_up g1) g1 pars n in
              bfs f g2 (q ++ deps) (n :: acc)
          end
      end
  end.
Definition remove_subtree (g : graph) (root : N) : graph * list node * bool :=
  if has_node g root
  then bfs (S (length (g_nodes g) + length (g_edges g))) g [root] []
  else (g, [], false).

(* check_if_coin_input_can_spend_output *)
Definition check_spend (o : output) (owner amount asset : N) : option N :=
  match o with
  | OCoin to am asid =>
      if negb (to =? owner) then Some E_WRONGOWNER
      else if negb (am =? amount) then Some E_WRONGAMOUNT
      else if negb (asid =? asset) then Some E_WRONGASSET
      else None
  | OContract => Some E_CONTRACTOUT
  | OChange _ _ _ => Some E_CHANGEVAR
  | OVariable _ _ _ => Some E_CHANGEVAR
  | OCreated _ => Some E_CONTRACTOUT
  end.

(* collect_transaction_direct_dependencies *)
Fixpoint direct_deps (g : graph) (maxc : N) (ins : list input) (acc : list N) : res (list N) :=
  match ins with
  | [] => Good acc
  | i :: r =>
      let found := match i with
                   | ICoin u _ _ _ => aget utxo_eqb u (g_coins g)
                   | IMsg _ _ => None
                   | IContract cid => aget N.eqb cid (g_contracts g)
                   end in
      match found with
      | None => direct_deps g maxc r acc
      | Some nid =>
          let acc' := addN nid acc in
          if maxc <=? lenN acc' then Bad E_DEPENDENCY else direct_deps g maxc r acc'
      end
  end.

Definition is_blob (t : tx) : bool := match t_blob t with Some _ => true | None => false end.

(* the ancestor walk of can_store_transaction *)
Fixpoint all_deps (fuel : nat) (g : graph) (maxc : N) (stack all : list N) : res (list N) :=
  match fuel with
  | O => Bad E_FUEL
  | S f =>
      match stack with
      | [] => Good all
      | nid :: rest =>
          if memN nid all then Bad E_DEPENDENCY              (* diamond *)
          else
            let all' := all ++ [nid] in
            if maxc <=? lenN all' then Bad E_DEPENDENCY       (* chain too big *)
            else match get_node g nid with
                 | None => all_deps f g maxc rest all'
                 | Some n =>
                     if maxc <=? n_cnt n then Bad E_DEPENDENCY
                     else if is_blob (n_tx n) then Bad E_DEPENDENCY
                     else all_deps f g maxc (parents g nid ++ rest) all'
                 end
      end
  end.

(* can_store_transaction: (direct dependencies, all dependencies) *)
Definition can_store (g : graph) (maxc : N) (t : tx) : res (list N * list N) :=
  match direct_deps g maxc (t_ins t) [] with
  | Bad e => Bad e
  | Good direct =>
      match all_deps (S (S (length (t_ins t) + length (g_edges g)))) g maxc direct [] with
      | Bad e => Bad e
      | Good all => Good (direct, all)
      end
  end.

(* store_transaction *)
Definition store (g : graph) (t : tx) (direct all : list N) (seq : N) : graph :=
  let bump (n : node) : node :=
    if memN (n_id n) all
    then mkNode (n_tx n) (sat_add u64max (n_ctip n) (t_tip t)) (sat_add u64max (n_cgas n) (t_gas t))
                (sat_add u64max (n_cbytes n) (t_size t)) (sat_add u64max (n_cnt n) 1) (n_seq n)
    else n in
  let nd := mkNode t (t_tip t) (t_gas t) (t_size t) 1 seq in
  let '(c, k) := cache_tx_infos (t_id t) (t_outs t) (g_coins g) (g_contracts g) in
  mkGraph (map bump (g_nodes g) ++ [nd])
          (g_edges g ++ map (fun d => (d, t_id t)) direct) c k.

(* ------------------------------------------------------------------ *)
(* Persistent storage (the mock database), SpentInputs, ExtractedOutputs *)

Record db := mkDb {
  d_coins : list (utxo * (N * N * N));
  d_msgs : list (N * N);               (* nonce -> amount *)
  d_contracts : list N;
  d_blobs : list N;
  d_txs : list N }.

Record spent := mkSpent {
  s_lru : list key;                    (* most recently used first *)
  s_cap : N;
  s_spenders : list (N * list key);    (* spender_of_inputs *)
  s_tentative : list (N * list key) }. (* tentative_spent *)

Definition lru_mem (k : key) (l : list key) : bool := existsb (key_eqb k) l.
Definition lru_pop (k : key) (l : list key) : list key := filter (fun x => negb (key_eqb x k)) l.
Fixpoint take {A} (n : nat) (l : list A) : list A :=
  match n, l with
  | O, _ => []
  | _, [] => []
  | S m, x :: r => x :: take m r
  end.
(* LruCache::put *)
Definition lru_put (cap : N) (k : key) (l : list key) : list key :=
  take (N.to_nat cap) (k :: lru_pop k l).

Definition input_keys (ins : list input) : list key :=
  flat_map (fun i => match i with
                     | ICoin u _ _ _ => [KUtxo u]
                     | IMsg n _ => [KMsg n]
                     | IContract _ => []
                     end) ins.

Definition puts (cap : N) (ks : list key) (l : list key) : list key :=
  fold_left (fun l k => lru_put cap k l) ks l.

Definition maybe_spend_inputs (s : spent) (id : N) (ins : list input) : spent :=
  let ks := input_keys ins in
  mkSpent (lru_put (s_cap s) (KTx id) (puts (s_cap s) ks (s_lru s))) (s_cap s)
          (aset N.eqb id ks (s_spenders s)) (s_tentative s).

Definition spend_inputs_by_tx_id (s : spent) (id : N) : spent :=
  let l1 := lru_put (s_cap s) (KTx id) (s_lru s) in
  match aget N.eqb id (s_spenders s) with
  | None => mkSpent l1 (s_cap s) (s_spenders s) (s_tentative s)
  | Some ks => mkSpent (puts (s_cap s) ks l1) (s_cap s) (adel N.eqb id (s_spenders s)) (s_tentative s)
  end.

Definition spend_inputs (s : spent) (id : N) (ins : list input) : spent :=
  spend_inputs_by_tx_id
    (mkSpent (puts (s_cap s) (input_keys ins) (s_lru s)) (s_cap s) (s_spenders s) (s_tentative s)) id.

Definition move_spender_to_tentative (s : spent) (id : N) : spent :=
  match aget N.eqb id (s_spenders s) with
  | None => s
  | Some ks => mkSpent (s_lru s) (s_cap s) (s_spenders s) (aset N.eqb id ks (s_tentative s))
  end.

Definition pops (ks : list key) (l : list key) : list key :=
  fold_left (fun l k => lru_pop k l) ks l.

Definition unspend_inputs (s : spent) (id : N) : spent :=
  let l1 := lru_pop (KTx id) (s_lru s) in
  match aget N.eqb id (s_spenders s) with
  | None => mkSpent l1 (s_cap s) (s_spenders s) (s_tentative s)
  | Some ks => mkSpent (pops ks l1) (s_cap s) (adel N.eqb id (s_spenders s)) (s_tentative s)
  end.

Definition record_tentative_spend (s : spent) (id : N) (ins : list input) : spent :=
  mkSpent (s_lru s) (s_cap s) (s_spenders s) (aset N.eqb id (input_keys ins) (s_tentative s)).

Definition confirm_tentative_spend (s : spent) (id : N) : spent :=
  mkSpent (s_lru s) (s_cap s) (s_spenders s) (adel N.eqb id (s_tentative s)).

Definition unspend_preconfirmed (s : spent) (id : N) : spent :=
  let l1 := lru_pop (KTx id) (s_lru s) in
  match aget N.eqb id (s_tentative s) with
  | None => mkSpent l1 (s_cap s) (s_spenders s) (s_tentative s)
  | Some ks => mkSpent (pops ks l1) (s_cap s) (s_spenders s) (adel N.eqb id (s_tentative s))
  end.

Record extracted := mkExtracted {
  e_created : list (N * N);                       (* contract id -> tx id *)
  e_by_tx : list (N * list N);                    (* tx id -> contract ids *)
  e_coins : list (N * list (N * (N * N * N))) }.  (* tx id -> output index -> (to, amount, asset) *)

Definition e_empty : extracted := mkExtracted [] [] [].

Definition by_tx_push (id cid : N) (m : list (N * list N)) : list (N * list N) :=
  match aget N.eqb id m with
  | None => aset N.eqb id [cid] m
  | Some l => aset N.eqb id (l ++ [cid]) m
  end.
Definition coins_insert (id idx : N) (d : N * N * N) (m : list (N * list (N * (N * N * N))))
  : list (N * list (N * (N * N * N))) :=
  match aget N.eqb id m with
  | None => aset N.eqb id [(idx, d)] m
  | Some l => aset N.eqb id (aset N.eqb idx d l) m
  end.
Definition coins_remove (u : utxo) (m : list (N * list (N * (N * N * N))))
  : list (N * list (N * (N * N * N))) :=
  match aget N.eqb (fst u) m with
  | None => m
  | Some l => aset N.eqb (fst u) (adel N.eqb (snd u) l) m
  end.

(* new_extracted_transaction *)
Definition new_extracted_transaction (e : extracted) (t : tx) : extracted :=
  let e1 := fold_left (fun e io =>
              match snd io with
              | OCreated cid => mkExtracted (aset N.eqb cid (t_id t) (e_created e))
                                            (by_tx_push (t_id t) cid (e_by_tx e)) (e_coins e)
              | OCoin to am asid => mkExtracted (e_created e) (e_by_tx e)
                                      (coins_insert (t_id t) (fst io) (to, am, asid) (e_coins e))
              | _ => e
              end) (enum (t_outs t)) e in
  fold_left (fun e i =>
    match i with
    | ICoin u _ _ _ => mkExtracted (e_created e) (e_by_tx e) (coins_remove u (e_coins e))
    | _ => e
    end) (t_ins t) e1.

(* new_extracted_outputs (resolved outputs of a preconfirmation) *)
Definition new_extracted_outputs (e : extracted) (outs : list (utxo * output)) : extracted :=
  fold_left (fun e uo =>
    let '(u, o) := uo in
    match o with
    | OCreated cid => mkExtracted (aset N.eqb cid (fst u) (e_created e))
                                  (by_tx_push (fst u) cid (e_by_tx e)) (e_coins e)
    | OCoin to am asid | OChange to am asid | OVariable to am asid =>
        mkExtracted (e_created e) (e_by_tx e) (coins_insert (fst u) (snd u) (to, am, asid) (e_coins e))
    | OContract => e
    end) outs e.

(* new_executed_transaction = new_skipped_transaction *)
Definition new_executed_transaction (e : extracted) (id : N) : extracted :=
  let created := match aget N.eqb id (e_by_tx e) with
                 | None => e_created e
                 | Some cids => fold_left (fun m cid => adel N.eqb cid m) cids (e_created e)
                 end in
  mkExtracted created (adel N.eqb id (e_by_tx e)) (adel N.eqb id (e_coins e)).

Definition contracts_created_by (e : extracted) (id : N) : list N :=
  match aget N.eqb id (e_by_tx e) with Some l => l | None => [] end.
Definition contract_exists (e : extracted) (cid : N) : bool := amem N.eqb cid (e_created e).
Definition coin_exists (e : extracted) (u : utxo) (owner amount asset : N) : bool :=
  match aget N.eqb (fst u) (e_coins e) with
  | None => false
  | Some l => match aget N.eqb (snd u) l with
              | None => false
              | Some (a, am, asid) => (a =? owner) && (am =? amount) && (asid =? asset)
              end
  end.

(* ------------------------------------------------------------------ *)
(* validate_inputs                                                     *)

Inductive vres := VOk | VErr (e : N) | VMissing (first_is_utxo : bool).

Fixpoint validate_inputs (g : graph) (d : db) (e : extracted) (s : spent) (utxo_validation : bool)
  (ins : list input) (missing : option bool) : vres :=
  match ins with
  | [] => match missing with None => VOk | Some b => VMissing b end
  | i :: r =>
      let miss (b : bool) := match missing with None => Some b | Some x => Some x end in
      match i with
      | ICoin u owner amount asset =>
          match aget utxo_eqb u (g_coins g) with
          | Some nid =>
              match get_node g nid with
              | None => VErr 99
              | Some n =>
                  match nth_error (t_outs (n_tx n)) (N.to_nat (snd u)) with
                  | None => VErr 97                      (* index out of bounds: panic in the code *)
                  | Some o => match check_spend o owner amount asset with
                              | Some err => VErr err
                              | None => validate_inputs g d e s utxo_validation r missing
                              end
                  end
              end
          | None =>
              if utxo_validation then
                if lru_mem (KUtxo u) (s_lru s) then VErr E_UTXOSPENT
                else match aget utxo_eqb u (d_coins d) with
                     | Some (o, am, asid) =>
                         if (o =? owner) && (am =? amount) && (asid =? asset)
                         then validate_inputs g d e s utxo_validation r missing
                         else VErr E_COINMISMATCH
                     | None =>
                         if coin_exists e u owner amount asset
                         then validate_inputs g d e s utxo_validation r missing
                         else validate_inputs g d e s utxo_validation r (miss true)
                     end
              else validate_inputs g d e s utxo_validation r missing
          end
      | IMsg nonce amount =>
          if utxo_validation then
            if lru_mem (KMsg nonce) (s_lru s) then VErr E_MSGSPENT
            else match aget N.eqb nonce (d_msgs d) with
                 | Some am => if am =? amount
                              then validate_inputs g d e s utxo_validation r missing
                              else VErr E_MSGMISMATCH
                 | None => VErr E_MSGUNKNOWN
                 end
          else validate_inputs g d e s utxo_validation r missing
      | IContract cid =>
          if amem N.eqb cid (g_contracts g) then validate_inputs g d e s utxo_validation r missing
          else if memN cid (d_contracts d) then validate_inputs g d e s utxo_validation r missing
          else if contract_exists e cid then validate_inputs g d e s utxo_validation r missing
          else validate_inputs g d e s utxo_validation r (miss false)
      end
  end.

(* ------------------------------------------------------------------ *)
(* BasicCollisionManager                                               *)

Record cman := mkCman {
  c_msgs : list (N * N);
  c_coins : list (utxo * N);
  c_creators : list (N * N);
  c_users : list (N * list N);
  c_blobs : list (N * N) }.
Definition c_empty : cman := mkCman [] [] [] [] [].

Definition opt_add (o : option N) (l : list N) : list N :=
  match o with Some x => addN x l | None => l end.

Fixpoint fc_outputs (c : cman) (id : N) (outs : list (N * output)) (acc : list N) : res (list N) :=
  match outs with
  | [] => Good acc
  | (i, o) :: r =>
      match o with
      | OCreated cid => fc_outputs c id r (opt_add (aget N.eqb cid (c_creators c)) acc)
      | OCoin _ _ _ | OChange _ _ _ | OVariable _ _ _ =>
          if amem utxo_eqb (id, i) (c_coins c) then Bad E_DUP else fc_outputs c id r acc
      | OContract => fc_outputs c id r acc
      end
  end.

(* find_collisions: the set of colliding storage ids *)
Definition find_collisions (c : cman) (t : tx) : res (list N) :=
  let a0 := match t_blob t with
            | Some b => opt_add (aget N.eqb b (c_blobs c)) []
            | None => []
            end in
  let a1 := fold_left (fun acc i =>
              match i with
              | ICoin u _ _ _ => opt_add (aget utxo_eqb u (c_coins c)) acc
              | IMsg n _ => opt_add (aget N.eqb n (c_msgs c)) acc
              | IContract _ => acc
              end) (t_ins t) a0 in
  fc_outputs c (t_id t) (enum (t_outs t)) a1.

Definition users_push (cid id : N) (m : list (N * list N)) : list (N * list N) :=
  match aget N.eqb cid m with
  | None => aset N.eqb cid [id] m
  | Some l => aset N.eqb cid (l ++ [id]) m
  end.
Definition users_remove (cid id : N) (m : list (N * list N)) : list (N * list N) :=
  match aget N.eqb cid m with
  | None => m
  | Some l => let l' := delN id l in
              match l' with [] => adel N.eqb cid m | _ => aset N.eqb cid l' m end
  end.

Definition on_stored_transaction (c : cman) (t : tx) : cman :=
  let c0 := match t_blob t with
            | Some b => mkCman (c_msgs c) (c_coins c) (c_creators c) (c_users c) (aset N.eqb b (t_id t) (c_blobs c))
            | None => c
            end in
  let c1 := fold_left (fun c i =>
              match i with
              | ICoin u _ _ _ => mkCman (c_msgs c) (aset utxo_eqb u (t_id t) (c_coins c)) (c_creators c) (c_users c) (c_blobs c)
              | IMsg n _ => mkCman (aset N.eqb n (t_id t) (c_msgs c)) (c_coins c) (c_creators c) (c_users c) (c_blobs c)
              | IContract cid => mkCman (c_msgs c) (c_coins c) (c_creators c) (users_push cid (t_id t) (c_users c)) (c_blobs c)
              end) (t_ins t) c0 in
  fold_left (fun c o =>
    match o with
    | OCreated cid => mkCman (c_msgs c) (c_coins c) (aset N.eqb cid (t_id t) (c_creators c)) (c_users c) (c_blobs c)
    | _ => c
    end) (t_outs t) c1.

Definition on_removed_cm (c : cman) (t : tx) : cman :=
  let c0 := match t_blob t with
            | Some b => mkCman (c_msgs c) (c_coins c) (c_creators c) (c_users c) (adel N.eqb b (c_blobs c))
            | None => c
            end in
  let c1 := fold_left (fun c i =>
              match i with
              | ICoin u _ _ _ => mkCman (c_msgs c) (adel utxo_eqb u (c_coins c)) (c_creators c) (c_users c) (c_blobs c)
              | IMsg n _ => mkCman (adel N.eqb n (c_msgs c)) (c_coins c) (c_creators c) (c_users c) (c_blobs c)
              | IContract cid => mkCman (c_msgs c) (c_coins c) (c_creators c) (users_remove cid (t_id t) (c_users c)) (c_blobs c)
              end) (t_ins t) c0 in
  fold_left (fun c o =>
    match o with
    | OCreated cid => mkCman (c_msgs c) (c_coins c) (adel N.eqb cid (c_creators c)) (c_users c) (c_blobs c)
    | _ => c
    end) (t_outs t) c1.

(* get_coins_spenders: BTreeMap range (tx,0)..(tx,u16::MAX), ordered by output index *)
Fixpoint insert_by_idx (x : N * N) (l : list (N * N)) : list (N * N) :=
  match l with
  | [] => [x]
  | y :: r => if fst x <? fst y then x :: l else y :: insert_by_idx x r
  end.
Definition get_coins_spenders (c : cman) (creator : N) : list N :=
  let es := filter (fun e => (fst (fst e) =? creator) && (snd (fst e) <? 65535)) (c_coins c) in
  map snd (fold_left (fun acc e => insert_by_idx (snd (fst e), snd e) acc) es []).
Definition get_contract_users (c : cman) (cid : N) : list N :=
  match aget N.eqb cid (c_users c) with Some l => l | None => [] end.
Definition contract_created_in_pool (c : cman) (cid : N) : bool := amem N.eqb cid (c_creators c).

(* ------------------------------------------------------------------ *)
(* RatioTipGasSelection                                                *)

(* Key = (ratio numerator, ratio denominator, creation sequence number, tx id) *)
Definition ekey := (N * N * N * N)%type.
Definition k_num (k : ekey) := fst (fst (fst k)).
Definition k_den (k : ekey) := snd (fst (fst k)).
Definition k_seq (k : ekey) := snd (fst k).
Definition k_id (k : ekey) := snd k.

Definition ratio_ltb (a b c d : N) : bool := a * d <? c * b.       (* a/b < c/d, b,d > 0 *)
Definition ratio_eqb (a b c d : N) : bool := a * d =? c * b.

(* [key_before a b]: a comes strictly before b in the iteration of BTreeMap<Reverse<Key>, _> *)
Definition key_before (a b : ekey) : bool :=
  if ratio_ltb (k_num b) (k_den b) (k_num a) (k_den a) then true
  else if ratio_ltb (k_num a) (k_den a) (k_num b) (k_den b) then false
  else if k_seq a <? k_seq b then true
  else if k_seq b <? k_seq a then false
  else k_id b <? k_id a.
Definition key_same (a b : ekey) : bool := negb (key_before a b) && negb (key_before b a).

Definition key_of (n : node) : ekey :=
  (sat_add u64max (t_tip (n_tx n)) 1, t_gas (n_tx n), n_seq n, n_id n).

Definition exec_remove (k : ekey) (l : list ekey) : list ekey :=
  filter (fun x => negb (key_same x k)) l.
Fixpoint exec_place (k : ekey) (l : list ekey) : list ekey :=
  match l with
  | [] => [k]
  | x :: r => if key_before k x then k :: l else x :: exec_place k r
  end.
Definition exec_insert (k : ekey) (l : list ekey) : list ekey := exec_place k (exec_remove k l).

Record constraints := mkCons {
  k_min_price : N; k_max_gas : N; k_max_txs : N; k_max_size : N; k_excluded : list N }.

Definition touches_excluded (ex : list N) (t : tx) : bool :=
  existsb (fun i => match i with IContract cid => memN cid ex | _ => false end) (t_ins t).

Record pass_state := mkPass {
  ps_g : graph; ps_gas : N; ps_space : N; ps_nb : N;
  ps_result : list node; ps_clean : list ekey; ps_remove : list ekey; ps_promote : list N;
  ps_panic : bool }.

(* one pass over the sorted executable transactions *)
Fixpoint pass (cs : constraints) (keys : list ekey) (p : pass_state) : pass_state :=
  match keys with
  | [] => p
  | k :: r =>
      if (ps_nb p =? 0) || (ps_gas p =? 0) || (ps_space p =? 0) then p
      else
        match get_node (ps_g p) (k_id k) with
        | None => pass cs r (mkPass (ps_g p) (ps_gas p) (ps_space p) (ps_nb p) (ps_result p)
                                    (ps_clean p) (ps_remove p ++ [k]) (ps_promote p) true)
        | Some n =>
            let t := n_tx n in
            if touches_excluded (k_excluded cs) t then pass cs r p
            else if t_price t <? k_min_price cs then pass cs r p
            else if (ps_gas p <? t_gas t) || (ps_space p <? t_size t) then pass cs r p
            else
              let deps := children (ps_g p) (k_id k) in
              let g1 := fst (remove_single (ps_g p) (k_id k)) in
              let prom := filter (fun d => negb (has_dependencies g1 d)) deps in
              pass cs r (mkPass g1 (sat_sub (ps_gas p) (t_gas t)) (sat_sub (ps_space p) (t_size t))
                                (sat_sub (ps_nb p) 1) (ps_result p ++ [n]) (ps_clean p ++ [k])
                                (ps_remove p) (ps_promote p ++ prom) (ps_panic p))
        end
  end.

Record gather_state := mkGather {
  gs_g : graph; gs_exec : list ekey; gs_gas : N; gs_space : N; gs_nb : N;
  gs_result : list node; gs_panic : bool }.

Fixpoint gather_loop (fuel : nat) (cs : constraints) (s : gather_state) : gather_state :=
  match fuel with
  | O => s
  | S f =>
      if (gs_gas s =? 0) || (gs_nb s =? 0) || (gs_space s =? 0) then s
      else match gs_exec s with
           | [] => s
           | _ =>
             let p := pass cs (gs_exec s)
                        (mkPass (gs_g s) (gs_gas s) (gs_space s) (gs_nb s) (gs_result s) [] [] []
                                (gs_panic s)) in
             let ex1 := fold_left (fun l k => exec_remove k l) (ps_remove p) (gs_exec s) in
             match ps_clean p, ps_promote p with
             | [], [] => mkGather (ps_g p) ex1 (ps_gas p) (ps_space p) (ps_nb p) (ps_result p) (ps_panic p)
             | _, _ =>
               let ex2 := fold_left (fun l k => exec_remove k l) (ps_clean p) ex1 in
               let '(ex3, pan) :=
                 fold_left (fun acc d =>
                   match get_node (ps_g p) d with
                   | Some n => (exec_insert (key_of n) (fst acc), snd acc)
                   | None => (fst acc, true)
                   end) (ps_promote p) (ex2, ps_panic p) in
               gather_loop f cs (mkGather (ps_g p) ex3 (ps_gas p) (ps_space p) (ps_nb p) (ps_result p) pan)
             end
           end
  end.

Definition gather_best_txs (cs : constraints) (g : graph) (exec : list ekey) : gather_state :=
  gather_loop (S (length (g_nodes g))) cs
    (mkGather g exec (k_max_gas cs) (k_max_size cs) (k_max_txs cs) [] false).

(* ------------------------------------------------------------------ *)
(* Pool                                                                *)

Record config := mkCfg {
  cfg_max_txs : N; cfg_max_gas : N; cfg_max_bytes : N; cfg_max_chain : N; cfg_utxo_validation : bool }.

(* status-manager calls: Submitted id | a squeezed-out report (reason tag, id) *)
Definition R_LESSWORTH : N := 1. Definition R_TTL : N := 2. Definition R_SKIPPED : N := 3.
Definition R_PARENT_SKIPPED : N := 4. Definition R_ROLLBACK : N := 5.
Inductive event := EvSubmitted (id : N) | EvSqueezed (batch : list (N * N)).

Record pool := mkPool {
  p_cfg : config;
  p_g : graph;
  p_cm : cman;
  p_exec : list ekey;
  p_txmap : list (N * N);            (* tx_id_to_storage_id *)
  p_eo : extracted;
  p_spent : spent;
  p_gas : N;
  p_bytes : N;
  p_stats : N * N * N;               (* last TxPoolStats sent: (tx_count, total_size, total_gas) *)
  p_seq : N;                         (* creation-instant counter *)
  p_log : list event;                (* calls to the status manager, oldest first *)
  p_panic : bool }.

Definition pool_new (cfg : config) : pool :=
  mkPool cfg g_empty c_empty [] [] e_empty
         (mkSpent [] (sat_add u64max (cfg_max_txs cfg) 1) [] []) 0 0 (0, 0, 0) 0 [] false.

Definition with_g (p : pool) (g : graph) : pool :=
  mkPool (p_cfg p) g (p_cm p) (p_exec p) (p_txmap p) (p_eo p) (p_spent p) (p_gas p) (p_bytes p)
         (p_stats p) (p_seq p) (p_log p) (p_panic p).
Definition with_spent (p : pool) (s : spent) : pool :=
  mkPool (p_cfg p) (p_g p) (p_cm p) (p_exec p) (p_txmap p) (p_eo p) s (p_gas p) (p_bytes p)
         (p_stats p) (p_seq p) (p_log p) (p_panic p).
Definition with_eo (p : pool) (e : extracted) : pool :=
  mkPool (p_cfg p) (p_g p) (p_cm p) (p_exec p) (p_txmap p) e (p_spent p) (p_gas p) (p_bytes p)
         (p_stats p) (p_seq p) (p_log p) (p_panic p).
Definition with_exec (p : pool) (x : list ekey) : pool :=
  mkPool (p_cfg p) (p_g p) (p_cm p) x (p_txmap p) (p_eo p) (p_spent p) (p_gas p) (p_bytes p)
         (p_stats p) (p_seq p) (p_log p) (p_panic p).
Definition with_txmap (p : pool) (m : list (N * N)) : pool :=
  mkPool (p_cfg p) (p_g p) (p_cm p) (p_exec p) m (p_eo p) (p_spent p) (p_gas p) (p_bytes p)
         (p_stats p) (p_seq p) (p_log p) (p_panic p).
Definition add_log (p : pool) (ev : list event) : pool :=
  mkPool (p_cfg p) (p_g p) (p_cm p) (p_exec p) (p_txmap p) (p_eo p) (p_spent p) (p_gas p) (p_bytes p)
         (p_stats p) (p_seq p) (p_log p ++ ev) (p_panic p).
Definition set_panic (p : pool) (b : bool) : pool :=
  mkPool (p_cfg p) (p_g p) (p_cm p) (p_exec p) (p_txmap p) (p_eo p) (p_spent p) (p_gas p) (p_bytes p)
         (p_stats p) (p_seq p) (p_log p) (p_panic p || b).
Definition update_stats (p : pool) : pool :=
  mkPool (p_cfg p) (p_g p) (p_cm p) (p_exec p) (p_txmap p) (p_eo p) (p_spent p) (p_gas p) (p_bytes p)
         (lenN (p_txmap p), p_bytes p, p_gas p) (p_seq p) (p_log p) (p_panic p).

(* update_components_and_caches_on_removal *)
Definition update_on_removal (p : pool) (removed : list node) : pool :=
  fold_left (fun p n =>
    let t := n_tx n in
    mkPool (p_cfg p) (p_g p) (on_removed_cm (p_cm p) t) (exec_remove (key_of n) (p_exec p))
           (adel N.eqb (t_id t) (p_txmap p)) (p_eo p) (p_spent p)
           (sat_sub (p_gas p) (t_gas t)) (sat_sub (p_bytes p) (t_size t))
           (p_stats p) (p_seq p) (p_log p) (p_panic p)) removed p.

(* storage.remove_transaction_and_dependents_subtree + update_components_and_caches_on_removal *)
Definition remove_subtree_and_update (p : pool) (root : N) : pool * list node :=
  let '(g, removed, pan) := remove_subtree (p_g p) root in
  (set_panic (update_on_removal (with_g p g) removed) pan, removed).

Definition squeezed_event (reason : N) (removed : list node) : list event :=
  match removed with
  | [] => []
  | _ => [EvSqueezed (map (fun n => (reason, n_id n)) removed)]
  end.

Definition ratio_gtb (a b c d : N) : bool := ratio_ltb c d a b.    (* a/b > c/d *)

(* check_collision_requirements *)
Definition check_collision_requirements (g : graph) (t : tx) (has_deps : bool) (colls : list N)
  : option N :=
  if has_deps && (1 <? lenN colls) then Some E_MULTICOLL
  else if forallb (fun c =>
            match get_node g c with
            | None => false
            | Some n => ratio_gtb (t_tip t) (t_gas t) (n_ctip n) (n_cgas n)
            end) colls then None
       else Some E_COLLIDED.

(* find_free_space: walk the executable transactions from the least worth one *)
Fixpoint find_free_space (p : pool) (t : tx) (all : list N) (sorted : list ekey)
  (gas_left bytes_left txs_left : N) (acc : list N) : res (list N) :=
  if negb ((cfg_max_gas (p_cfg p) <? gas_left) || (cfg_max_bytes (p_cfg p) <? bytes_left)
           || (cfg_max_txs (p_cfg p) <? txs_left))
  then Good acc
  else match sorted with
       | [] => Bad E_LIMIT
       | k :: r =>
           if memN (k_id k) all then find_free_space p t all r gas_left bytes_left txs_left acc
           else match get_node (p_g p) (k_id k) with
                | None => Bad 96          (* debug_assert!(false) *)
                | Some n =>
                    if ratio_gtb (n_ctip n) (n_cgas n) (t_tip t) (t_gas t) then Bad E_LIMIT
                    else find_free_space p t all r (sat_sub gas_left (n_cgas n))
                           (sat_sub bytes_left (n_cbytes n)) (sat_sub txs_left (n_cnt n))
                           (acc ++ [k_id k])
                end
       end.

Record can_insert := mkCan {
  ci_direct : list N; ci_all : list N; ci_remove : list N; ci_collisions : list N }.

Inductive ires := IOk | IErr (e : N) | IMissing (first_is_utxo : bool).

(* can_insert_transaction *)
Definition can_insert_transaction (p : pool) (d : db) (t : tx) : can_insert + ires :=
  if t_gas t =? 0 then inr (IErr E_GASZERO)
  else if amem N.eqb (t_id t) (p_txmap p) then inr (IErr E_DUP)
  else if match t_blob t with Some b => memN b (d_blobs d) | None => false end
       then inr (IErr E_BLOBTAKEN)
  else match validate_inputs (p_g p) d (p_eo p) (p_spent p) (cfg_utxo_validation (p_cfg p)) (t_ins t) None with
       | VErr e => inr (IErr e)
       | VMissing b => inr (IMissing b)
       | VOk =>
           match find_collisions (p_cm p) t with
           | Bad e => inr (IErr e)
           | Good colls =>
               match can_store (p_g p) (cfg_max_chain (p_cfg p)) t with
               | Bad e => inr (IErr e)
               | Good (direct, all) =>
                   if existsb (fun c => memN c all) colls then inr (IErr E_COLLDEP)
                   else
                     let has_deps := match all with [] => false | _ => true end in
                     match check_collision_requirements (p_g p) t has_deps colls with
                     | Some e => inr (IErr e)
                     | None =>
                         let gas_left := sat_add u64max (p_gas p) (t_gas t) in
                         let bytes_left := sat_add u64max (p_bytes p) (t_size t) in
                         let txs_left := sat_add u64max (lenN (p_txmap p)) 1 in
                         if (gas_left <=? cfg_max_gas (p_cfg p)) && (bytes_left <=? cfg_max_bytes (p_cfg p))
                            && (txs_left <=? cfg_max_txs (p_cfg p))
                         then inl (mkCan direct all [] colls)
                         else if has_deps then inr (IErr E_LIMIT)
                         else match find_free_space p t all (rev (p_exec p)) gas_left bytes_left txs_left [] with
                              | Bad e => inr (IErr e)
                              | Good rm => inl (mkCan direct all rm colls)
                              end
                     end
               end
           end
       end.

(* insert_inner after a successful can_insert_transaction *)
Definition do_insert (p : pool) (t : tx) (ci : can_insert) : pool :=
  let has_deps := match ci_all ci with [] => false | _ => true end in
  let '(p1, removed) :=
    fold_left (fun acc root =>
      let '(p, rem) := acc in
      let '(p', r) := remove_subtree_and_update p root in (p', rem ++ r))
      (ci_remove ci ++ ci_collisions ci) (p, []) in
  let g := store (p_g p1) t (ci_direct ci) (ci_all ci) (p_seq p1) in
  let nd := mkNode t (t_tip t) (t_gas t) (t_size t) 1 (p_seq p1) in
  let p2 := mkPool (p_cfg p1) g (on_stored_transaction (p_cm p1) t)
                   (if has_deps then p_exec p1 else exec_insert (key_of nd) (p_exec p1))
                   (aset N.eqb (t_id t) (t_id t) (p_txmap p1)) (p_eo p1) (p_spent p1)
                   (sat_add u64max (p_gas p1) (t_gas t)) (sat_add u64max (p_bytes p1) (t_size t))
                   (p_stats p1) (p_seq p1 + 1)
                   (p_log p1 ++ EvSubmitted (t_id t) :: squeezed_event R_LESSWORTH removed)
                   (p_panic p1) in
  update_stats p2.

(* Pool::insert *)
Definition pool_insert (p : pool) (d : db) (t : tx) : pool * ires :=
  if lru_mem (KTx (t_id t)) (s_lru (p_spent p)) || memN (t_id t) (d_txs d) then (p, IErr E_DUP)
  else match can_insert_transaction p d t with
       | inr e => (p, e)
       | inl ci => (do_insert p t ci, IOk)
       end.

(* Pool::extract_transactions_for_block *)
Definition extract_transactions_for_block (p : pool) (cs : constraints) : pool * list node :=
  let gs := gather_best_txs cs (p_g p) (p_exec p) in
  let p0 := set_panic (with_exec (with_g p (gs_g gs)) (gs_exec gs)) (gs_panic gs) in
  let p1 := fold_left (fun p n =>
              let t := n_tx n in
              let p' := with_spent (with_eo p (new_extracted_transaction (p_eo p) t))
                                   (maybe_spend_inputs (p_spent p) (t_id t) (t_ins t)) in
              update_on_removal p' [n]) (gs_result gs) p0 in
  (update_stats p1, gs_result gs).

(* the common part of process_committed_transactions / process_preconfirmed_committed_transaction:
   remove one stored transaction, keep its dependents; returns the dependents left without dependencies *)
Definition commit_stored (p : pool) (id : N) (tentative : bool) : pool * list N :=
  let dependents := children (p_g p) id in
  let p0 := with_txmap p (adel N.eqb id (p_txmap p)) in
  match remove_single (p_g p0) id with
  | (_, None) => (set_panic p0 true, [])
  | (g, Some n) =>
      let t := n_tx n in
      let p1 := with_eo (with_g p0 g) (new_extracted_transaction (p_eo p0) t) in
      let s1 := if tentative then record_tentative_spend (p_spent p1) id (t_ins t) else p_spent p1 in
      let p2 := with_spent p1 (spend_inputs s1 id (t_ins t)) in
      let p3 := update_on_removal p2 [n] in
      (p3, filter (fun d => negb (has_dependencies (p_g p3) d)) dependents)
  end.

Definition promote (p : pool) (ids : list N) : pool :=
  fold_left (fun p d =>
    match get_node (p_g p) d with
    | Some n => with_exec p (exec_insert (key_of n) (p_exec p))
    | None => set_panic p true                 (* debug_assert!(false) *)
    end) ids p.

(* process_committed_transactions (ids in the iteration order of the HashSet) *)
Definition process_committed_transactions (p : pool) (ids : list N) : pool :=
  let '(p1, prom) :=
    fold_left (fun acc id =>
      let '(p, prom) := acc in
      let p0 := with_spent p (spend_inputs_by_tx_id (p_spent p) id) in
      if amem N.eqb id (p_txmap p0)
      then let '(p', pr) := commit_stored p0 id false in (p', prom ++ pr)
      else (p0, prom)) ids (p, []) in
  update_stats (promote p1 prom).

(* process_preconfirmed_committed_transaction *)
Definition process_preconfirmed_committed_transaction (p : pool) (id : N) : pool :=
  let s0 := if amem N.eqb id (p_txmap p) then p_spent p else move_spender_to_tentative (p_spent p) id in
  let p0 := with_spent p (spend_inputs_by_tx_id s0 id) in
  if amem N.eqb id (p_txmap p0)
  then let '(p1, pr) := commit_stored p0 id true in
       (* promotion happens one dependent at a time, looking the node up *)
       update_stats (fold_left (fun p d =>
                       match get_node (p_g p) d with
                       | Some n => with_exec p (exec_insert (key_of n) (p_exec p))
                       | None => p
                       end) pr p1)
  else update_stats p0.

(* remove_transactions_and_dependents *)
Definition remove_transactions_and_dependents (p : pool) (ids : list N) (reason : N) : pool :=
  let '(p1, removed) :=
    fold_left (fun acc id =>
      let '(p, rem) := acc in
      if amem N.eqb id (p_txmap p)
      then let p0 := with_txmap p (adel N.eqb id (p_txmap p)) in
           let '(p', r) := remove_subtree_and_update p0 id in (p', rem ++ r)
      else (p, rem)) ids (p, []) in
  update_stats (add_log p1 (squeezed_event reason removed)).

(* eviction of the pool transactions spending coins created by [id], one report per dependent *)
Definition evict_coin_dependents (p : pool) (id : N) (reason : N) : pool :=
  fold_left (fun p dep =>
    let '(p', r) := remove_subtree_and_update p dep in
    add_log p' (squeezed_event reason r)) (get_coins_spenders (p_cm p) id) p.

(* remove_skipped_transaction *)
Definition remove_skipped_transaction (p : pool) (id : N) : pool :=
  let p0 := if amem N.eqb id (p_txmap p)
            then remove_transactions_and_dependents p [id] R_SKIPPED else p in
  let p1 := with_spent (with_eo p0 (new_executed_transaction (p_eo p0) id))
                       (unspend_inputs (p_spent p0) id) in
  update_stats (evict_coin_dependents p1 id R_PARENT_SKIPPED).

(* rollback_preconfirmed_transaction *)
Definition rollback_preconfirmed_transaction (p : pool) (id : N) : pool :=
  let created := contracts_created_by (p_eo p) id in
  let p1 := with_spent (with_eo p (new_executed_transaction (p_eo p) id))
                       (unspend_preconfirmed (p_spent p) id) in
  let p2 := evict_coin_dependents p1 id R_ROLLBACK in
  let p3 := fold_left (fun p cid =>
              if contract_created_in_pool (p_cm p) cid then p
              else fold_left (fun p user =>
                     match aget N.eqb user (p_txmap p) with
                     | None => p
                     | Some sid =>
                         let '(p', r) := remove_subtree_and_update p sid in
                         add_log p' (squeezed_event R_ROLLBACK r)
                     end) (get_contract_users (p_cm p) cid) p) created p2 in
  update_stats p3.

(* ------------------------------------------------------------------ *)
(* PoolWorker                                                          *)

Record worker := mkWorker {
  w_pool : pool;
  w_db : db;
  w_tent : list (N * list N);        (* tentative_preconfs: height -> tx ids *)
  w_height : N }.                    (* current_canonical_height *)

Inductive preconf_kind := PSuccess | PFailure | PSqueezed.

Inductive op :=
| OpInsert (t : tx)
| OpExtract (cs : constraints)
| OpBlock (height : N) (ids : list N)
| OpPreconf (id : N) (kind : preconf_kind) (height : N) (outs : option (list (utxo * output)))
| OpExpire (ids : list N)
| OpDbApply (t : tx).

Inductive opres :=
| RInsert (r : ires)
| RExtract (ns : list node)
| RNone.

Definition with_pool (w : worker) (p : pool) : worker := mkWorker p (w_db w) (w_tent w) (w_height w).

(* PoolWorker::insert (pending pool disabled: missing inputs are reported as an error) *)
Definition worker_insert (w : worker) (t : tx) : worker * opres :=
  let '(p, r) := pool_insert (w_pool w) (w_db w) t in (with_pool w p, RInsert r).

Fixpoint insert_sorted (x : N) (l : list N) : list N :=
  match l with
  | [] => [x]
  | y :: r => if x <? y then x :: l else if x =? y then l else y :: insert_sorted x r
  end.
Definition sortN (l : list N) : list N := fold_left (fun acc x => insert_sorted x acc) l [].

Definition tent_add (h id : N) (m : list (N * list N)) : list (N * list N) :=
  match aget N.eqb h m with
  | None => aset N.eqb h [id] m
  | Some l => aset N.eqb h (addN id l) m
  end.

(* PoolWorker::process_block; [ids] are the block's transaction ids in the order in which the
   implementation's HashSet iterates them (any order of the de-duplicated ids) *)
Definition process_block (w : worker) (height : N) (ids : list N) : worker :=
  let h' := N.max (w_height w) height in
  let p1 := process_committed_transactions (w_pool w) ids in
  let p2 := with_eo p1 (fold_left new_executed_transaction ids (p_eo p1)) in
  let stale := sortN (map fst (filter (fun e => fst e <=? height) (w_tent w))) in
  let '(p3, tent) :=
    fold_left (fun acc h =>
      let '(p, tent) := acc in
      match aget N.eqb h tent with
      | None => (p, tent)
      | Some txs =>
          (fold_left (fun p id =>
             if memN id ids then with_spent p (confirm_tentative_spend (p_spent p) id)
             else rollback_preconfirmed_transaction p id) (sortN txs) p,
           adel N.eqb h tent)
      end) stale (p2, w_tent w) in
  mkWorker p3 (w_db w) tent h'.

(* PoolWorker::process_preconfirmed_transaction *)
Definition process_preconfirmed_transaction (w : worker) (id : N) (kind : preconf_kind) (height : N)
  (outs : option (list (utxo * output))) : worker :=
  match kind with
  | PSqueezed => with_pool w (remove_skipped_transaction (w_pool w) id)
  | _ =>
      if height <=? w_height w then w
      else
        let p1 := process_preconfirmed_committed_transaction (w_pool w) id in
        let tent := tent_add height id (w_tent w) in
        match outs with
        | None => mkWorker p1 (w_db w) tent (w_height w)
        | Some os => mkWorker (with_eo p1 (new_extracted_outputs (p_eo p1) os)) (w_db w) tent (w_height w)
        end
  end.

(* the mock database applying a transaction (harness-side operation) *)
Definition db_apply (d : db) (t : tx) : db :=
  let coins1 := fold_left (fun m i => match i with ICoin u _ _ _ => adel utxo_eqb u m | _ => m end)
                          (t_ins t) (d_coins d) in
  let msgs1 := fold_left (fun m i => match i with IMsg n _ => adel N.eqb n m | _ => m end)
                         (t_ins t) (d_msgs d) in
  let coins2 := fold_left (fun m io =>
                  match snd io with
                  | OCoin to am asid => aset utxo_eqb (t_id t, fst io) (to, am, asid) m
                  | _ => m
                  end) (enum (t_outs t)) coins1 in
  let contracts1 := fold_left (fun l o => match o with OCreated cid => addN cid l | _ => l end)
                              (t_outs t) (d_contracts d) in
  let blobs1 := match t_blob t with Some b => addN b (d_blobs d) | None => d_blobs d end in
  mkDb coins2 msgs1 contracts1 blobs1 (addN (t_id t) (d_txs d)).

Definition step (w : worker) (o : op) : worker * opres :=
  match o with
  | OpInsert t => worker_insert w t
  | OpExtract cs =>
      let '(p, ns) := extract_transactions_for_block (w_pool w) cs in (with_pool w p, RExtract ns)
  | OpBlock h ids => (process_block w h ids, RNone)
  | OpPreconf id k h outs => (process_preconfirmed_transaction w id k h outs, RNone)
  | OpExpire ids => (with_pool w (remove_transactions_and_dependents (w_pool w) ids R_TTL), RNone)
  | OpDbApply t => (mkWorker (w_pool w) (db_apply (w_db w) t) (w_tent w) (w_height w), RNone)
  end.

Definition worker_new (cfg : config) (d : db) (height : N) : worker :=
  mkWorker (pool_new cfg) d [] height.

Fixpoint run (w : worker) (ops : list op) : list (worker * opres) :=
  match ops with
  | [] => []
  | o :: r => let '(w', res) := step w o in (w', res) :: run w' r
  end.

(* ------------------------------------------------------------------ *)
(* The decidable global invariant (PoolInv as a boolean)               *)

Fixpoint nodupN (l : list N) : bool :=
  match l with [] => true | x :: r => negb (memN x r) && nodupN r end.
Fixpoint listN_eqb (x y : list N) : bool :=
  match x, y with
  | [], [] => true
  | a :: x', b :: y' => (a =? b) && listN_eqb x' y'
  | _, _ => false
  end.
Definition sumN (l : list N) : N := fold_right N.add 0 l.
Definition same_set (a b : list N) : bool := listN_eqb (sortN a) (sortN b).

Definition node_ids (g : graph) : list N := map n_id (g_nodes g).

Definition coin_inputs (t : tx) : list utxo :=
  flat_map (fun i => match i with ICoin u _ _ _ => [u] | _ => [] end) (t_ins t).
Definition msg_inputs (t : tx) : list N :=
  flat_map (fun i => match i with IMsg n _ => [n] | _ => [] end) (t_ins t).
Definition contract_inputs (t : tx) : list N :=
  flat_map (fun i => match i with IContract c => [c] | _ => [] end) (t_ins t).
Definition created_contracts (t : tx) : list N :=
  flat_map (fun o => match o with OCreated c => [c] | _ => [] end) (t_outs t).
Definition coin_outputs (t : tx) : list utxo :=
  flat_map (fun io => match snd io with OCoin _ _ _ => [(t_id t, fst io)] | _ => [] end) (enum (t_outs t)).
Definition memU (u : utxo) (l : list utxo) : bool := existsb (utxo_eqb u) l.
Fixpoint nodupU (l : list utxo) : bool :=
  match l with [] => true | x :: r => negb (memU x r) && nodupU r end.

(* 1. ids: node ids unique, tx_id_to_storage_id is the identity on exactly the node ids *)
Definition inv_ids (p : pool) : bool :=
  nodupN (node_ids (p_g p)) && nodupN (map fst (p_txmap p)) &&
  forallb (fun e => (fst e =? snd e) && has_node (p_g p) (snd e)) (p_txmap p) &&
  forallb (fun id => amem N.eqb id (p_txmap p)) (node_ids (p_g p)).

(* 2. edges join present nodes, dependency strictly older (acyclic), no duplicate edge *)
Definition seq_of (g : graph) (id : N) : N :=
  match get_node g id with Some n => n_seq n | None => 0 end.
Definition edge_eqb (a b : N * N) : bool := (fst a =? fst b) && (snd a =? snd b).
Fixpoint nodupE (l : list (N * N)) : bool :=
  match l with [] => true | x :: r => negb (existsb (edge_eqb x) r) && nodupE r end.
Definition inv_edges (g : graph) : bool :=
  nodupE (g_edges g) &&
  forallb (fun e => has_node g (fst e) && has_node g (snd e) && (seq_of g (fst e) <? seq_of g (snd e)))
          (g_edges g).

(* 3./4. creator caches exact; every edge justified by an input; pool-created coin inputs have their edge *)
Definition justifies (parent child : tx) : bool :=
  existsb (fun u => (fst u =? t_id parent) && memU u (coin_outputs parent)) (coin_inputs child) ||
  existsb (fun c => memN c (created_contracts parent)) (contract_inputs child).
Definition inv_creators (g : graph) : bool :=
  nodupU (map fst (g_coins g)) && nodupN (map fst (g_contracts g)) &&
  forallb (fun e => match get_node g (snd e) with
                    | Some n => memU (fst e) (coin_outputs (n_tx n))
                    | None => false end) (g_coins g) &&
  forallb (fun e => match get_node g (snd e) with
                    | Some n => memN (fst e) (created_contracts (n_tx n))
                    | None => false end) (g_contracts g) &&
  forallb (fun n =>
    forallb (fun u => match aget utxo_eqb u (g_coins g) with Some i => i =? n_id n | None => false end)
            (coin_outputs (n_tx n)) &&
    forallb (fun c => match aget N.eqb c (g_contracts g) with Some i => i =? n_id n | None => false end)
            (created_contracts (n_tx n)) &&
    forallb (fun u => match aget utxo_eqb u (g_coins g) with
                      | Some p => existsb (edge_eqb (p, n_id n)) (g_edges g)
                      | None => true end) (coin_inputs (n_tx n))) (g_nodes g) &&
  forallb (fun e => match get_node g (fst e), get_node g (snd e) with
                    | Some a, Some b => justifies (n_tx a) (n_tx b)
                    | _, _ => false end) (g_edges g).

(* 5. collision-manager indexes exact *)
Definition inv_cm (g : graph) (c : cman) : bool :=
  nodupU (map fst (c_coins c)) && nodupN (map fst (c_msgs c)) &&
  nodupN (map fst (c_creators c)) && nodupN (map fst (c_blobs c)) && nodupN (map fst (c_users c)) &&
  forallb (fun e => match get_node g (snd e) with
                    | Some n => memU (fst e) (coin_inputs (n_tx n)) | None => false end) (c_coins c) &&
  forallb (fun e => match get_node g (snd e) with
                    | Some n => memN (fst e) (msg_inputs (n_tx n)) | None => false end) (c_msgs c) &&
  forallb (fun e => match get_node g (snd e) with
                    | Some n => memN (fst e) (created_contracts (n_tx n)) | None => false end) (c_creators c) &&
  forallb (fun e => match get_node g (snd e) with
                    | Some n => match t_blob (n_tx n) with Some b => b =? fst e | None => false end
                    | None => false end) (c_blobs c) &&
  forallb (fun e => negb (match snd e with [] => true | _ => false end) && nodupN (snd e) &&
                    forallb (fun id => match get_node g id with
                                       | Some n => memN (fst e) (contract_inputs (n_tx n))
                                       | None => false end) (snd e)) (c_users c) &&
  forallb (fun n =>
    let id := n_id n in
    forallb (fun u => match aget utxo_eqb u (c_coins c) with Some i => i =? id | None => false end)
            (coin_inputs (n_tx n)) &&
    forallb (fun m => match aget N.eqb m (c_msgs c) with Some i => i =? id | None => false end)
            (msg_inputs (n_tx n)) &&
    forallb (fun k => match aget N.eqb k (c_creators c) with Some i => i =? id | None => false end)
            (created_contracts (n_tx n)) &&
    forallb (fun k => memN id (get_contract_users c k)) (contract_inputs (n_tx n)) &&
    match t_blob (n_tx n) with
    | Some b => match aget N.eqb b (c_blobs c) with Some i => i =? id | None => false end
    | None => true end) (g_nodes g).

(* 6. C16: no two pool transactions conflict *)
Definition disjointN (a b : list N) : bool := forallb (fun x => negb (memN x b)) a.
Definition disjointU (a b : list utxo) : bool := forallb (fun x => negb (memU x b)) a.
Definition blob_list (t : tx) : list N := match t_blob t with Some b => [b] | None => [] end.
Definition tx_compatible (a b : tx) : bool :=
  disjointU (coin_inputs a) (coin_inputs b) && disjointN (msg_inputs a) (msg_inputs b) &&
  disjointN (created_contracts a) (created_contracts b) && disjointN (blob_list a) (blob_list b).
Fixpoint pairwise {A} (f : A -> A -> bool) (l : list A) : bool :=
  match l with [] => true | x :: r => forallb (f x) r && pairwise f r end.
Definition no_conflictb (txs : list tx) : bool := pairwise tx_compatible txs.

(* 7. accounting *)
Definition inv_accounting (p : pool) : bool :=
  (p_gas p =? sumN (map (fun n => t_gas (n_tx n)) (g_nodes (p_g p)))) &&
  (p_bytes p =? sumN (map (fun n => t_size (n_tx n)) (g_nodes (p_g p)))) &&
  (let '(c, s, gs) := p_stats p in
   (c =? lenN (p_txmap p)) && (s =? p_bytes p) && (gs =? p_gas p)).

(* 8./9. descendants / ancestors as path multisets; diamond-free = no repetition *)
Fixpoint walk (fuel : nat) (next : N -> list N) (work acc : list N) : list N * bool :=
  match fuel with
  | O => (acc, match work with [] => true | _ => false end)
  | S f => match work with
           | [] => (acc, true)
           | x :: r => walk f next (next x ++ r) (x :: acc)
           end
  end.
Definition desc_of (g : graph) (id : N) : list N * bool :=
  walk (S (S (length (g_nodes g)))) (children g) [id] [].
Definition anc_of (g : graph) (id : N) : list N * bool :=
  walk (S (S (length (g_nodes g)))) (parents g) [id] [].
Definition sum_over (g : graph) (f : tx -> N) (ids : list N) : N :=
  sumN (map (fun id => match get_node g id with Some n => f (n_tx n) | None => 0 end) ids).
(* shape: diamond-free below and above every node, chain bounds *)
Definition inv_shape (g : graph) (maxc : N) : bool :=
  forallb (fun n =>
    let '(ds, done) := desc_of g (n_id n) in
    let '(ans, adone) := anc_of g (n_id n) in
    done && nodupN ds && adone && nodupN ans &&
    (n_cnt n <=? maxc) && (lenN ans <=? maxc)) (g_nodes g).
(* the cumulative fields are exactly the sums over the descendants *)
Definition inv_cum_exact (g : graph) : bool :=
  forallb (fun n =>
    let ds := fst (desc_of g (n_id n)) in
    (n_cnt n =? lenN ds) && (n_ctip n =? sum_over g t_tip ds) &&
    (n_cgas n =? sum_over g t_gas ds) && (n_cbytes n =? sum_over g t_size ds)) (g_nodes g).
Definition inv_cumulative (g : graph) (maxc : N) : bool := inv_shape g maxc && inv_cum_exact g.

(* 10. executable = nodes without dependencies, sorted, keys exact *)
Fixpoint sorted_keys (l : list ekey) : bool :=
  match l with
  | [] => true
  | x :: r => forallb (key_before x) r && sorted_keys r
  end.
Definition inv_exec (g : graph) (ex : list ekey) : bool :=
  sorted_keys ex &&
  forallb (fun k => match get_node g (k_id k) with
                    | Some n => key_same k (key_of n) && negb (has_dependencies g (k_id k))
                    | None => false end) ex &&
  forallb (fun n => has_dependencies g (n_id n) || memN (n_id n) (map k_id ex)) (g_nodes g).

(* [exact]: also require the cumulative tip/gas/bytes/count fields to be exact *)
Definition pool_invb_gen (exact : bool) (p : pool) : bool :=
  inv_ids p && inv_edges (p_g p) && inv_creators (p_g p) && inv_cm (p_g p) (p_cm p) &&
  no_conflictb (map n_tx (g_nodes (p_g p))) && inv_accounting p &&
  (inv_shape (p_g p) (cfg_max_chain (p_cfg p)) && (negb exact || inv_cum_exact (p_g p))) &&
  inv_exec (p_g p) (p_exec p) &&
  (lenN (s_lru (p_spent p)) <=? s_cap (p_spent p)) && negb (p_panic p).
Definition pool_invb (p : pool) : bool := pool_invb_gen true p.

(* ------------------------------------------------------------------ *)
(* T codecs                                                            *)

Fixpoint T_cmp (a b : T) {struct a} : comparison :=
  match a, b with
  | I x, I y => Z.compare x y
  | I _, L _ => Lt
  | L _, I _ => Gt
  | L xs, L ys =>
      (fix go (xs ys : list T) : comparison :=
         match xs, ys with
         | [], [] => Eq
         | [], _ :: _ => Lt
         | _ :: _, [] => Gt
         | x :: xs', y :: ys' => match T_cmp x y with Eq => go xs' ys' | c => c end
         end) xs ys
  end.
Fixpoint insertT (x : T) (l : list T) : list T :=
  match l with
  | [] => [x]
  | y :: r => match T_cmp x y with Gt => y :: insertT x r | _ => x :: l end
  end.
Definition sortT (l : list T) : list T := fold_left (fun acc x => insertT x acc) l [].
Definition sortedL (l : list T) : T := L (sortT l).

Definition utxo_T (u : utxo) : T := L [tN (fst u); tN (snd u)].
Definition key_T (k : key) : T :=
  match k with
  | KTx id => L [I 0; tN id]
  | KUtxo u => L [I 1; tN (fst u); tN (snd u)]
  | KMsg n => L [I 2; tN n]
  end.

Definition getNN (t : T) : option (N * N) :=
  match t with L [a; b] => match getN a, getN b with Some a, Some b => Some (a, b) | _, _ => None end
  | _ => None end.
Definition getNNN (t : T) : option (N * N * N) :=
  match t with
  | L [a; b; c] => match getN a, getN b, getN c with
                   | Some a, Some b, Some c => Some (a, b, c) | _, _, _ => None end
  | _ => None end.
Definition T_key (t : T) : option key :=
  match t with
  | L [I 0%Z; id] => option_map KTx (getN id)
  | L [I 1%Z; a; b] => match getN a, getN b with Some a, Some b => Some (KUtxo (a, b)) | _, _ => None end
  | L [I 2%Z; n] => option_map KMsg (getN n)
  | _ => None
  end.
Definition getList {A} (f : T -> option A) (t : T) : option (list A) :=
  match t with L l => mapM f l | I _ => None end.
Definition getPair {A B} (f : T -> option A) (g : T -> option B) (t : T) : option (A * B) :=
  match t with
  | L [a; b] => match f a, g b with Some a, Some b => Some (a, b) | _, _ => None end
  | _ => None
  end.

Definition T_input (t : T) : option input :=
  match t with
  | L [I 0%Z; u; o; a; s] =>
      match getNN u, getN o, getN a, getN s with
      | Some u, Some o, Some a, Some s => Some (ICoin u o a s) | _, _, _, _ => None end
  | L [I 1%Z; n; a] => match getN n, getN a with Some n, Some a => Some (IMsg n a) | _, _ => None end
  | L [I 2%Z; c] => option_map IContract (getN c)
  | _ => None
  end.
Definition T_output (t : T) : option output :=
  match t with
  | L [I k; o; a; s] =>
      match getN o, getN a, getN s with
      | Some o, Some a, Some s =>
          match k with
          | 0%Z => Some (OCoin o a s) | 1%Z => Some (OChange o a s) | 2%Z => Some (OVariable o a s)
          | _ => None end
      | _, _, _ => None end
  | L [I 3%Z] => Some OContract
  | L [I 4%Z; c] => option_map OCreated (getN c)
  | _ => None
  end.
Definition T_tx (t : T) : option tx :=
  match t with
  | L [id; ins; outs; blob; tip; gas; price; size] =>
      match getN id, getList T_input ins, getList T_output outs, getOptN blob,
            getN tip, getN gas, getN price, getN size with
      | Some id, Some ins, Some outs, Some blob, Some tip, Some gas, Some price, Some size =>
          Some (mkTx id ins outs blob tip gas price size)
      | _, _, _, _, _, _, _, _ => None
      end
  | _ => None
  end.
Definition T_db (t : T) : option db :=
  match t with
  | L [coins; msgs; contracts; blobs; txs] =>
      match getList (getPair getNN getNNN) coins, getList getNN msgs, getListN contracts,
            getListN blobs, getListN txs with
      | Some c, Some m, Some k, Some b, Some x => Some (mkDb c m k b x)
      | _, _, _, _, _ => None
      end
  | _ => None
  end.
Definition T_cfg (t : T) : option (config * N) :=
  match t with
  | L [a; b; c; d; e; h] =>
      match getN a, getN b, getN c, getN d, getB e, getN h with
      | Some a, Some b, Some c, Some d, Some e, Some h => Some (mkCfg a b c d e, h)
      | _, _, _, _, _, _ => None
      end
  | _ => None
  end.

Fixpoint find_tx (table : list tx) (id : N) : option tx :=
  match table with
  | [] => None
  | t :: r => if t_id t =? id then Some t else find_tx r id
  end.

Definition T_op (table : list tx) (t : T) : option op :=
  match t with
  | L [I 0%Z; idx] => match getN idx with
                      | Some i => option_map OpInsert (nth_error table (N.to_nat i))
                      | None => None end
  | L [I 1%Z; mp; mg; mt; ms; ex] =>
      match getN mp, getN mg, getN mt, getN ms, getListN ex with
      | Some mp, Some mg, Some mt, Some ms, Some ex => Some (OpExtract (mkCons mp mg mt ms ex))
      | _, _, _, _, _ => None end
  | L [I 2%Z; h; ids] =>
      match getN h, getListN ids with Some h, Some ids => Some (OpBlock h ids) | _, _ => None end
  | L [I 3%Z; id; kind; h; outs] =>
      match getN id, getN h with
      | Some id, Some h =>
          let k := match kind with I 0%Z => Some PSuccess | I 1%Z => Some PFailure
                                | I 2%Z => Some PSqueezed | _ => None end in
          let os := match outs with
                    | L [] => Some None
                    | L [l] => option_map Some (getList (getPair getNN T_output) l)
                    | _ => None end in
          match k, os with Some k, Some os => Some (OpPreconf id k h os) | _, _ => None end
      | _, _ => None end
  | L [I 4%Z; ids] => option_map OpExpire (getListN ids)
  | L [I 5%Z; idx] => match getN idx with
                      | Some i => option_map OpDbApply (nth_error table (N.to_nat i))
                      | None => None end
  | _ => None
  end.

(* ---- dump of a worker state ---- *)
Definition rank_of (g : graph) (n : node) : N :=
  lenN (filter (fun m => n_seq m <? n_seq n) (g_nodes g)).
Definition pairNN_T (e : N * N) : T := L [tN (fst e); tN (snd e)].
Definition keyed_T {A} (f : A -> T) (e : N * A) : T := L [tN (fst e); f (snd e)].

Definition dump_T (w : worker) : T :=
  let p := w_pool w in let g := p_g p in let c := p_cm p in let s := p_spent p in let e := p_eo p in
  L [ sortedL (map (fun n => L [tN (n_id n); tN (n_ctip n); tN (n_cgas n); tN (n_cbytes n);
                               tN (n_cnt n); tN (rank_of g n)]) (g_nodes g));
      sortedL (map pairNN_T (g_edges g));
      sortedL (map (fun e => L [utxo_T (fst e); tN (snd e)]) (g_coins g));
      sortedL (map pairNN_T (g_contracts g));
      sortedL (map pairNN_T (c_msgs c));
      sortedL (map (fun e => L [utxo_T (fst e); tN (snd e)]) (c_coins c));
      sortedL (map pairNN_T (c_creators c));
      sortedL (map (keyed_T tListN) (c_users c));
      sortedL (map pairNN_T (c_blobs c));
      tListN (map k_id (p_exec p));
      sortedL (map pairNN_T (p_txmap p));
      L [tN (p_gas p); tN (p_bytes p)];
      (let '(a, b, d) := p_stats p in L [tN a; tN b; tN d]);
      L (map key_T (s_lru s));
      tN (s_cap s);
      sortedL (map (keyed_T (fun ks => L (map key_T ks))) (s_spenders s));
      sortedL (map (keyed_T (fun ks => L (map key_T ks))) (s_tentative s));
      sortedL (map pairNN_T (e_created e));
      sortedL (map (keyed_T tListN) (e_by_tx e));
      sortedL (map (keyed_T (fun l => sortedL (map (fun x =>
                 let '(i, (a, b, d)) := x in L [tN i; tN a; tN b; tN d]) l))) (e_coins e));
      sortedL (map (keyed_T (fun l => tListN (sortN l))) (w_tent w));
      tN (w_height w) ].

Definition ires_T (r : ires) : T :=
  match r with
  | IOk => L [I 0]
  | IErr e => L [I 1; tN e]
  | IMissing true => L [I 1; tN E_UTXONOTFOUND]
  | IMissing false => L [I 1; tN E_CONTRACTMISSING]
  end.

(* the status-manager calls of one operation, flattened: (submitted ids, sorted (reason id)) *)
Fixpoint drop {A} (n : nat) (l : list A) : list A :=
  match n, l with O, _ => l | _, [] => [] | S m, _ :: r => drop m r end.
Definition log_T (evs : list event) : T :=
  L [ tListN (flat_map (fun e => match e with EvSubmitted id => [id] | _ => [] end) evs);
      sortedL (flat_map (fun e => match e with EvSqueezed b => map pairNN_T b | _ => [] end) evs) ].

Definition opres_T (o : op) (r : opres) : T :=
  match r with
  | RInsert r => ires_T r
  | RExtract ns => tListN (map n_id ns)
  | RNone => match o with OpBlock _ ids => tListN ids | _ => L [] end
  end.

(* class flag of the known finding of C19: an accepted insertion whose id or one of whose
   input keys was seen in the spent-inputs LRU (or in its spender / tentative maps) after an earlier
   operation and is no longer in the LRU *)
Definition stale_accept (ever : list key) (w : worker) (o : op) (r : opres) : bool :=
  match o, r with
  | OpInsert t, RInsert IOk =>
      existsb (fun k => lru_mem k ever && negb (lru_mem k (s_lru (p_spent (w_pool w)))))
              (KTx (t_id t) :: input_keys (t_ins t))
  | _, _ => false
  end.
Definition ever_add (ever : list key) (w : worker) : list key :=
  let s := p_spent (w_pool w) in
  fold_left (fun acc k => if lru_mem k acc then acc else k :: acc)
    (s_lru s ++ flat_map (fun e => KTx (fst e) :: snd e) (s_spenders s)
             ++ flat_map (fun e => KTx (fst e) :: snd e) (s_tentative s)) ever.

Definition obs_T (ever : list key) (w w' : worker) (o : op) (r : opres) : T :=
  L [ opres_T o r;
      log_T (drop (length (p_log (w_pool w))) (p_log (w_pool w')));
      dump_T w';
      tB (stale_accept ever w o r) ].

(* the block's ids in the implementation's iteration order, read from the observation when it is
   a permutation of the de-duplicated ids (resolution of the HashSet nondeterminism) *)
Definition choose_order (ids : list N) (ob : T) : list N :=
  match ob with
  | L (perm :: _) =>
      match getListN perm with
      | Some pm => if nodupN pm && same_set pm ids then pm else dedupN ids
      | None => dedupN ids
      end
  | _ => dedupN ids
  end.

Fixpoint run_T (ever : list key) (w : worker) (ops : list op) (obs : list T) : list T * bool :=
  match ops with
  | [] => ([], false)
  | o :: r =>
      let ob := match obs with x :: _ => x | [] => L [] end in
      let o' := match o with OpBlock h ids => OpBlock h (choose_order ids ob) | _ => o end in
      let '(w', res) := step w o' in
      let '(rest, pan) := run_T (ever_add ever w') w' r (tl obs) in
      (obs_T ever w w' o' res :: rest, p_panic (w_pool w') || pan)
  end.

(* ---- decoding an implementation dump back into a worker state ---- *)
Definition T_node (table : list tx) (t : T) : option node :=
  match t with
  | L [id; a; b; c; d; r] =>
      match getN id, getN a, getN b, getN c, getN d, getN r with
      | Some id, Some a, Some b, Some c, Some d, Some r =>
          match find_tx table id with
          | Some x => Some (mkNode x a b c d r)
          | None => None
          end
      | _, _, _, _, _, _ => None
      end
  | _ => None
  end.
Definition T_keyed {A} (f : T -> option A) (t : T) : option (N * A) := getPair getN f t.
Definition T_coins_entry (t : T) : option (N * (N * N * N)) :=
  match t with
  | L [i; a; b; c] => match getN i, getN a, getN b, getN c with
                      | Some i, Some a, Some b, Some c => Some (i, (a, b, c))
                      | _, _, _, _ => None end
  | _ => None
  end.

Definition T_dump (cfg : config) (d : db) (table : list tx) (t : T) : option worker :=
  match t with
  | L [nodes; edges; gcoins; gcontracts; msgs; coins; creators; users; blobs; exec; txmap;
       L [gas; bytes]; stats; lru; cap; spenders; tentative; ecreated; ebytx; ecoins; tent; height] =>
      match getList (T_node table) nodes, getList getNN edges, getList (getPair getNN getN) gcoins,
            getList getNN gcontracts, getList getNN msgs, getList (getPair getNN getN) coins,
            getList getNN creators, getList (T_keyed getListN) users, getList getNN blobs,
            getListN exec, getList getNN txmap with
      | Some nodes, Some edges, Some gcoins, Some gcontracts, Some msgs, Some coins,
        Some creators, Some users, Some blobs, Some exec, Some txmap =>
          match getN gas, getN bytes, getNNN stats, getList T_key lru, getN cap,
                getList (T_keyed (getList T_key)) spenders, getList (T_keyed (getList T_key)) tentative,
                getList getNN ecreated, getList (T_keyed getListN) ebytx,
                getList (T_keyed (getList T_coins_entry)) ecoins,
                getList (T_keyed getListN) tent, getN height with
          | Some gas, Some bytes, Some stats, Some lru, Some cap, Some spenders, Some tentative,
            Some ecreated, Some ebytx, Some ecoins, Some tent, Some height =>
              let g := mkGraph nodes edges gcoins gcontracts in
              let ex := map (fun id => match get_node g id with
                                       | Some n => key_of n
                                       | None => (0, 1, 0, id) end) exec in
              Some (mkWorker
                      (mkPool cfg g (mkCman msgs coins creators users blobs) ex txmap
                              (mkExtracted ecreated ebytx ecoins)
                              (mkSpent lru cap spenders tentative) gas bytes stats 0 [] false)
                      d tent height)
          | _, _, _, _, _, _, _, _, _, _, _, _ => None
          end
      | _, _, _, _, _, _, _, _, _, _, _ => None
      end
  | _ => None
  end.

(* ------------------------------------------------------------------ *)
(* Decidable per-operation checkers (the Pchecks), evaluated on decoded traces *)

Record tstep := mkStep {
  ts_pre : worker; ts_op : op; ts_ok : bool;        (* insert accepted *)
  ts_ids : list N;                                  (* extract result / block order *)
  ts_squeezed : list (N * N); ts_submitted : list N; ts_post : worker }.

Definition included (s : tstep) : list N :=
  match ts_op s with
  | OpExtract _ => ts_ids s
  | OpBlock _ ids => ids
  | OpPreconf id PSqueezed _ _ => []
  | OpPreconf id _ h _ => if h <=? w_height (ts_pre s) then [] else [id]
  | _ => []
  end.
Definition pre_g (s : tstep) : graph := p_g (w_pool (ts_pre s)).
Definition post_g (s : tstep) : graph := p_g (w_pool (ts_post s)).

(* C16 *)
Definition step16 (s : tstep) : bool := pool_invb_gen false (w_pool (ts_post s)).

(* C17 *)
Fixpoint parents_first (g : graph) (seen xs : list N) : bool :=
  match xs with
  | [] => true
  | x :: r => forallb (fun p => memN p seen) (parents g x) && parents_first g (x :: seen) r
  end.
Definition cascadeb (s : tstep) : bool :=
  forallb (fun e => has_node (post_g s) (fst e) || memN (fst e) (included s)
                    || negb (has_node (post_g s) (snd e))) (g_edges (pre_g s)).
Definition step17 (s : tstep) : bool :=
  pool_invb (w_pool (ts_post s)) && cascadeb s &&
  match ts_op s with OpExtract _ => parents_first (pre_g s) [] (ts_ids s) | _ => true end.

(* C18 *)
Definition lookup_nodes (g : graph) (ids : list N) : option (list node) :=
  mapM (get_node g) ids.
Definition extraction_okb (cs : constraints) (pre : pool) (post : graph) (ids : list N) : bool :=
  match lookup_nodes (p_g pre) ids with
  | None => false
  | Some ns =>
      let txs := map n_tx ns in
      (sumN (map t_gas txs) <=? k_max_gas cs) && (sumN (map t_size txs) <=? k_max_size cs) &&
      (lenN txs <=? k_max_txs cs) &&
      forallb (fun t => (k_min_price cs <=? t_price t) && negb (touches_excluded (k_excluded cs) t)) txs &&
      no_conflictb txs && nodupN ids && parents_first (p_g pre) [] ids &&
      forallb (fun id => negb (has_node post id)) ids &&
      sorted_keys (map key_of (filter (fun n => memN (n_id n) (map k_id (p_exec pre))) ns))
  end.
Definition step18 (s : tstep) : bool :=
  match ts_op s with
  | OpExtract cs => extraction_okb cs (w_pool (ts_pre s)) (post_g s) (ts_ids s)
  | _ => true
  end.

(* C19 *)
Definition outstanding := list (N * list key).
Definition out_keys (o : outstanding) : list key := flat_map snd o.
Definition out_step (o : outstanding) (s : tstep) : outstanding :=
  match ts_op s with
  | OpExtract _ =>
      o ++ flat_map (fun id => match get_node (pre_g s) id with
                               | Some n => [(id, input_keys (t_ins (n_tx n)))]
                               | None => [] end) (ts_ids s)
  | OpBlock h ids =>
      let rolled := flat_map (fun e => if fst e <=? h then snd e else []) (w_tent (ts_pre s)) in
      filter (fun e => negb (memN (fst e) ids) && negb (memN (fst e) rolled)) o
  | OpPreconf id PSqueezed _ _ => filter (fun e => negb (fst e =? id)) o
  | _ => o
  end.

Definition must_reject (w : worker) (o : outstanding) (t : tx) : bool :=
  let p := w_pool w in let d := w_db w in let lru := s_lru (p_spent p) in
  (t_gas t =? 0) ||
  amem N.eqb (t_id t) (p_txmap p) || lru_mem (KTx (t_id t)) lru || memN (t_id t) (d_txs d) ||
  memN (t_id t) (map fst o) ||
  (cfg_utxo_validation (p_cfg p) &&
   existsb (fun k => lru_mem k (out_keys o)) (input_keys (t_ins t))) ||
  (cfg_utxo_validation (p_cfg p) &&
   existsb (fun i =>
     match i with
     | ICoin u ow am asid =>
         match aget utxo_eqb u (g_coins (p_g p)) with
         | Some nid =>
             match get_node (p_g p) nid with
             | Some n => match nth_error (t_outs (n_tx n)) (N.to_nat (snd u)) with
                         | Some out => match check_spend out ow am asid with Some _ => true | None => false end
                         | None => true end
             | None => true end
         | None =>
             lru_mem (KUtxo u) lru ||
             match aget utxo_eqb u (d_coins d) with
             | Some (o', a', s') => negb ((o' =? ow) && (a' =? am) && (s' =? asid))
             | None => negb (coin_exists (p_eo p) u ow am asid)
             end
         end
     | IMsg n am =>
         lru_mem (KMsg n) lru ||
         match aget N.eqb n (d_msgs d) with Some a' => negb (a' =? am) | None => true end
     | IContract _ => false
     end) (t_ins t)).

Definition collisions_of (g : graph) (t : tx) : list node :=
  filter (fun n => negb (tx_compatible t (n_tx n))) (g_nodes g).

Definition insert_okb (pre post : worker) (o : outstanding) (t : tx) (accepted : bool) : bool :=
  let gp := p_g (w_pool pre) in let gq := p_g (w_pool post) in
  if accepted then
    negb (must_reject pre o t) && has_node gq (t_id t) &&
    forallb (fun c =>
      ratio_gtb (t_tip t) (t_gas t) (n_ctip c) (n_cgas c) &&
      forallb (fun d => negb (has_node gq d)) (fst (desc_of gp (n_id c)))) (collisions_of gp t) &&
    (* every evicted transaction belongs to a collided subtree, or to the subtree of a less
       worth executable transaction when the pool limits were hit *)
    forallb (fun n =>
      has_node gq (n_id n) ||
      existsb (fun c => memN (n_id n) (fst (desc_of gp (n_id c)))) (collisions_of gp t) ||
      existsb (fun k => match get_node gp (k_id k) with
                        | Some r => memN (n_id n) (fst (desc_of gp (k_id k))) &&
                                    negb (ratio_gtb (n_ctip r) (n_cgas r) (t_tip t) (t_gas t))
                        | None => false end) (p_exec (w_pool pre))) (g_nodes gp)
  else T_eqb (dump_T pre) (dump_T post).
Definition step19 (o : outstanding) (s : tstep) : bool :=
  match ts_op s with
  | OpInsert t => insert_okb (ts_pre s) (ts_post s) o t (ts_ok s)
  | _ => true
  end.

(* C20 *)
Definition lru_full (w : worker) : bool :=
  s_cap (p_spent (w_pool w)) <=? lenN (s_lru (p_spent (w_pool w))).
Definition block_okb (pre post : worker) (h : N) (ids : list N) : bool :=
  let pp := w_pool pre in let pq := w_pool post in
  forallb (fun id => negb (has_node (p_g pq) id) && negb (amem N.eqb id (p_txmap pq))) ids &&
  (lru_full post || negb (cfg_utxo_validation (p_cfg pp)) ||
   forallb (fun id => match get_node (p_g pp) id with
                      | Some n => forallb (fun k => lru_mem k (s_lru (p_spent pq)))
                                          (KTx id :: input_keys (t_ins (n_tx n)))
                      | None => true end) ids) &&
  forallb (fun e =>
    if fst e <=? h then
      negb (amem N.eqb (fst e) (w_tent post)) &&
      forallb (fun t =>
        memN t ids ||
        (negb (amem N.eqb t (e_by_tx (p_eo pq))) && negb (amem N.eqb t (e_coins (p_eo pq))) &&
         negb (lru_mem (KTx t) (s_lru (p_spent pq))) &&
         negb (amem N.eqb t (s_tentative (p_spent pq))) &&
         match get_coins_spenders (p_cm pq) t with [] => true | _ => false end)) (snd e)
    else true) (w_tent pre) &&
  (w_height post =? N.max (w_height pre) h).
Definition step20 (s : tstep) : bool :=
  match ts_op s with
  | OpBlock h ids => block_okb (ts_pre s) (ts_post s) h ids
  | OpPreconf id PSqueezed _ _ => true
  | OpPreconf id _ h _ =>
      if h <=? w_height (ts_pre s)
      then T_eqb (dump_T (ts_pre s)) (dump_T (ts_post s)) &&
           match ts_squeezed s, ts_submitted s with [], [] => true | _, _ => false end
      else negb (has_node (post_g s) id) && amem N.eqb h (w_tent (ts_post s))
  | _ => true
  end.

(* C21 *)
Definition step21 (s : tstep) : bool :=
  let left := filter (fun id => negb (has_node (post_g s) id) && negb (memN id (included s)))
                     (node_ids (pre_g s)) in
  let sq := map snd (ts_squeezed s) in
  nodupN sq && same_set left sq && (lenN left =? lenN sq) &&
  forallb (fun id => negb (memN id sq)) (included s).

(* ---- decoding the observed trace ---- *)
Definition T_obs (cfg : config) (table : list tx) (pre : worker) (o : op) (t : T) : option tstep :=
  match t with
  | L [res; L [subm; sq]; dump; _] =>
      let d' := match o with OpDbApply x => db_apply (w_db pre) x | _ => w_db pre end in
      match T_dump cfg d' table dump, getListN subm, getList getNN sq with
      | Some post, Some subm, Some sq =>
          let ok := match res with L [I 0%Z] => true | _ => false end in
          let ids := match o with
                     | OpExtract _ | OpBlock _ _ => match getListN res with Some l => l | None => [] end
                     | _ => [] end in
          let o' := match o with OpBlock h _ => OpBlock h ids | _ => o end in
          Some (mkStep pre o' ok ids sq subm post)
      | _, _, _ => None
      end
  | _ => None
  end.

Fixpoint decode_trace (cfg : config) (table : list tx) (pre : worker) (ops : list op) (obs : list T)
  : option (list tstep) :=
  match ops, obs with
  | [], [] => Some []
  | o :: r, t :: obs' =>
      match T_obs cfg table pre o t with
      | Some s => match decode_trace cfg table (ts_post s) r obs' with
                  | Some l => Some (s :: l)
                  | None => None end
      | None => None
      end
  | _, _ => None
  end.

(* block ops must report a permutation of the de-duplicated ids *)
Definition perm_okb (ops : list op) (tr : list tstep) : bool :=
  forallb (fun os => match fst os with
                     | OpBlock _ ids => nodupN (ts_ids (snd os)) && same_set (ts_ids (snd os)) ids
                     | _ => true end) (combine ops tr).

Fixpoint check19 (o : outstanding) (tr : list tstep) : bool :=
  match tr with
  | [] => true
  | s :: r => step19 o s && check19 (out_step o s) r
  end.

Definition pcheck (tag : Z) (ops : list op) (tr : list tstep) : bool :=
  perm_okb ops tr &&
  match tag with
  | 16%Z => forallb step16 tr
  | 17%Z => forallb step17 tr
  | 18%Z => forallb step18 tr
  | 19%Z => check19 [] tr
  | 20%Z => forallb step20 tr
  | 21%Z => forallb step21 tr
  | _ => false
  end.

(* diagnostics (tag 99): the conjuncts of pool_invb after every step of the observed trace *)
Definition inv_bits (p : pool) : T :=
  L (map tB [inv_ids p; inv_edges (p_g p); inv_creators (p_g p); inv_cm (p_g p) (p_cm p);
             no_conflictb (map n_tx (g_nodes (p_g p))); inv_accounting p;
             inv_shape (p_g p) (cfg_max_chain (p_cfg p)); inv_cum_exact (p_g p); inv_exec (p_g p) (p_exec p);
             (lenN (s_lru (p_spent p)) <=? s_cap (p_spent p)); negb (p_panic p)]).
Fixpoint bits19 (o : outstanding) (tr : list tstep) : list T :=
  match tr with
  | [] => []
  | s :: r =>
      L [tB (step19 o s);
         match ts_op s with
         | OpInsert t => L [tB (ts_ok s); tB (must_reject (ts_pre s) o t);
                            tB (memN (t_id t) (map fst o));
                            tB (existsb (fun k => lru_mem k (out_keys o)) (input_keys (t_ins t)));
                            tB (T_eqb (dump_T (ts_pre s)) (dump_T (ts_post s)))]
         | _ => L [] end] :: bits19 (out_step o s) r
  end.
Definition diag_T (tr : list tstep) : T :=
  L (map (fun sb => let s := fst sb in L [inv_bits (w_pool (ts_post s)); tB (step17 s); tB (step18 s); tB (step20 s); tB (step21 s); snd sb]) (combine tr (bits19 [] tr))).

Definition main_T (req : T) : T :=
  match req with
  | L [I tag; L [cfg; d; L txs; L ops]; observed] =>
      match T_cfg cfg, T_db d, mapM T_tx txs with
      | Some (cfg, h0), Some d, Some table =>
          match mapM (T_op table) ops with
          | Some ops =>
              let w0 := worker_new cfg d h0 in
              let obs := match observed with L (_ :: l) => l | _ => [] end in
              let '(outs, pan) := run_T [] w0 ops obs in
              let model := if pan then L [I (-777)] else L (dump_T w0 :: outs) in
              let pc :=
                match observed with
                | L (d0 :: l) =>
                    T_eqb d0 (dump_T w0) &&
                    match decode_trace cfg table w0 ops l with
                    | Some tr => pcheck tag ops tr
                    | None => false
                    end
                | _ => false
                end in
              if (tag =? 99)%Z
              then match observed with
                   | L (d0 :: l) => match decode_trace cfg table w0 ops l with
                                    | Some tr => L [diag_T tr; I 0] | None => L [L []; I 0] end
                   | _ => L [L []; I 0] end
              else L [model; tB pc]
          | None => tErr 3
          end
      | _, _, _ => tErr 2
      end
  | _ => tErr 1
  end.
