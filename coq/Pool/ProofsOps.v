(* Every pool / worker operation preserves the core invariant. *)
From FC Require Import Pool.Model Pool.ProofsBase Pool.ProofsCore Pool.ProofsRemoval.
From Coq Require Import ZifyBool ZifyN ZifyNat.
Open Scope N_scope.

(* ---- composition of removals ---- *)
Lemma Rem_app : forall g g1 g2 a b, Rem g g1 a -> Rem g1 g2 b -> Rem g g2 (a ++ b).
Proof.
  intros g g1 g2 a b [A1 [A2 A3]] [B1 [B2 B3]]. unfold Rem.
  assert (Hsub : forall x, In x (txs g1) -> In x (txs g) /\ ~ In (t_id x) (map n_id a)).
  { intros x Hx. rewrite A1 in Hx. apply filter_In in Hx. destruct Hx as [Hx Hn].
    apply negb_true_iff, memN_false in Hn. split; assumption. }
  repeat split.
  - rewrite B1, A1, filter_filter. apply filter_ext. intros x. rewrite map_app, memN_app, negb_orb. reflexivity.
  - apply Forall_app. split; [exact A2|]. rewrite Forall_forall in *. intros n Hn. apply Hsub. apply B2. exact Hn.
  - rewrite map_app. apply NoDup_app_both; [exact A3 | exact B3|].
    intros x Hxa Hxb. apply in_map_iff in Hxb. destruct Hxb as [n [Hn1 Hn2]].
    rewrite Forall_forall in B2. specialize (B2 n Hn2). apply Hsub in B2. unfold n_id in *.
    subst x. tauto.
Qed.

(* ---- one pass of the selection ---- *)
Lemma pass_rem : forall cs keys ps,
  exists new, ps_result (pass cs keys ps) = ps_result ps ++ new /\ Rem (ps_g ps) (ps_g (pass cs keys ps)) new.
Proof.
  intros cs. induction keys as [|k r IH]; intros ps; cbn [pass].
  - exists []. rewrite app_nil_r. split; [reflexivity | apply Rem_nil].
  - destruct ((ps_nb ps =? 0) || (ps_gas ps =? 0) || (ps_space ps =? 0)).
    { exists []. rewrite app_nil_r. split; [reflexivity | apply Rem_nil]. }
    destruct (get_node (ps_g ps) (k_id k)) as [n|] eqn:E.
    + destruct (touches_excluded (k_excluded cs) (n_tx n)); [apply IH|].
      destruct (t_price (n_tx n) <? k_min_price cs); [apply IH|].
      destruct ((ps_gas ps <? t_gas (n_tx n)) || (ps_space ps <? t_size (n_tx n))); [apply IH|].
      match goal with |- context [pass cs r ?q] => destruct (IH q) as [new [H1 H2]] end.
      cbn [ps_result ps_g] in H1, H2.
      exists (n :: new). split.
      * rewrite H1. rewrite <- app_assoc. reflexivity.
      * destruct (remove_single (ps_g ps) (k_id k)) as [g1 o] eqn:R.
        pose proof (remove_single_spec _ _ _ _ R) as S. rewrite E in S. destruct o as [n'|].
        -- destruct S as [S1 S2]. inversion S1; subst n'. cbn [fst] in *.
           pose proof (get_node_some _ _ _ E) as [_ Hid].
           eapply Rem_step with (g1 := g1) (g2 := g1); [rewrite Hid; exact E | rewrite Hid; exact S2 | reflexivity | exact H2].
        -- destruct S as [_ S]. discriminate.
    + match goal with |- context [pass cs r ?q] => destruct (IH q) as [new [H1 H2]] end.
      cbn [ps_result ps_g] in H1, H2. exists new. split; assumption.
Qed.

Lemma gather_loop_rem : forall cs fuel s,
  exists new, gs_result (gather_loop fuel cs s) = gs_result s ++ new /\
              Rem (gs_g s) (gs_g (gather_loop fuel cs s)) new.
Proof.
  intros cs. induction fuel as [|f IH]; intros s; cbn [gather_loop].
  - exists []. rewrite app_nil_r. split; [reflexivity | apply Rem_nil].
  - destruct ((gs_gas s =? 0) || (gs_nb s =? 0) || (gs_space s =? 0)).
    { exists []. rewrite app_nil_r. split; [reflexivity | apply Rem_nil]. }
    destruct (gs_exec s) as [|k0 ks] eqn:Ex.
    { exists []. rewrite app_nil_r. split; [reflexivity | apply Rem_nil]. }
    match goal with |- context [pass cs (k0 :: ks) ?q] =>
      pose proof (pass_rem cs (k0 :: ks) q) as HP end.
    match goal with |- context [pass cs (k0 :: ks) ?q] =>
      remember (pass cs (k0 :: ks) q) as pp eqn:Epp end.
    destruct HP as [new [P1 P2]].
    cbn [ps_result ps_g] in P1, P2.
    destruct (ps_clean pp) eqn:Ec; [destruct (ps_promote pp) eqn:Ep|].
    + exists new. cbn [gs_result gs_g]. split; assumption.
    + match goal with |- context [fold_left ?f ?l (?e, ps_panic pp)] => destruct (fold_left f l (e, ps_panic pp)) as [ex3 pan] end.
      match goal with |- context [gather_loop f cs ?q] => destruct (IH q) as [new2 [G1 G2]] end.
      cbn [gs_result gs_g] in G1, G2. exists (new ++ new2). split.
      * rewrite G1, P1, app_assoc. reflexivity.
      * eapply Rem_app; eassumption.
    + match goal with |- context [fold_left ?f ?l (?e, ps_panic pp)] => destruct (fold_left f l (e, ps_panic pp)) as [ex3 pan] end.
      match goal with |- context [gather_loop f cs ?q] => destruct (IH q) as [new2 [G1 G2]] end.
      cbn [gs_result gs_g] in G1, G2. exists (new ++ new2). split.
      * rewrite G1, P1, app_assoc. reflexivity.
      * eapply Rem_app; eassumption.
Qed.

Lemma gather_rem : forall cs g ex,
  Rem g (gs_g (gather_best_txs cs g ex)) (gs_result (gather_best_txs cs g ex)).
Proof.
  intros. unfold gather_best_txs.
  match goal with |- context [gather_loop ?f cs ?q] => destruct (gather_loop_rem cs f q) as [new [G1 G2]] end.
  cbn [gs_result gs_g app] in G1, G2. rewrite G1. exact G2.
Qed.

(* ---- removal of the index entries only (the graph was already updated) ---- *)
Definition core_rm_cm (st : core) (t : tx) : core :=
  let '(l, c, m, gas, bytes) := st in
  (l, on_removed_cm c t, adel N.eqb (t_id t) m, sat_sub gas (t_gas t), sat_sub bytes (t_size t)).

Lemma uor_single_core : forall q n, core_of (update_on_removal q [n]) = core_rm_cm (core_of q) (n_tx n).
Proof. reflexivity. Qed.

Lemma fold_core_rm_cm : forall ts l c m gas bytes,
  fold_left core_rm_cm ts (l, c, m, gas, bytes) =
  (l, fold_left on_removed_cm ts c, fold_left (fun m t => adel N.eqb (t_id t) m) ts m,
   fold_left (fun g t => sat_sub g (t_gas t)) ts gas, fold_left (fun b t => sat_sub b (t_size t)) ts bytes).
Proof.
  induction ts as [|t r IH]; intros; cbn [fold_left]; [reflexivity|].
  unfold core_rm_cm at 2. apply IH.
Qed.

Lemma extract_fold_core : forall (F : pool -> node -> pool),
  (forall p n, core_of (F p n) = core_of p) ->
  forall rs p0,
  core_of (fold_left (fun p n => update_on_removal (F p n) [n]) rs p0) =
  fold_left core_rm_cm (map n_tx rs) (core_of p0).
Proof.
  intros F HF. induction rs as [|n r IH]; intros p0; cbn [fold_left map]; [reflexivity|].
  rewrite IH, uor_single_core, HF. reflexivity.
Qed.

Lemma extract_core : forall p cs, Core (core_of p) ->
  Core (core_of (fst (extract_transactions_for_block p cs))).
Proof.
  intros p cs HC. unfold extract_transactions_for_block. cbn [fst]. rewrite core_of_update_stats.
  pose proof (gather_rem cs (p_g p) (p_exec p)) as HR.
  set (gs := gather_best_txs cs (p_g p) (p_exec p)) in *.
  rewrite (extract_fold_core
             (fun p n => with_spent (with_eo p (new_extracted_transaction (p_eo p) (n_tx n)))
                                    (maybe_spend_inputs (p_spent p) (t_id (n_tx n)) (t_ins (n_tx n)))))
    by (intros; reflexivity).
  unfold core_of at 1. cbn [set_panic with_exec with_g p_g p_cm p_txmap p_gas p_bytes].
  rewrite fold_core_rm_cm.
  destruct (Rem_side _ _ _ HR) as [S1 S2]. destruct HR as [R1 _].
  pose proof (rm_all_inv (map n_tx (gs_result gs)) (core_of p) HC S1 S2) as HI.
  unfold core_of in HI. rewrite rm_all_components in HI. rewrite R1.
  unfold tids in HI. rewrite map_map in HI. exact HI.
Qed.

(* ---- commit of a stored transaction ---- *)
Lemma adel_idem {V} : forall k (m : list (N * V)), adel N.eqb k (adel N.eqb k m) = adel N.eqb k m.
Proof.
  intros. unfold adel. rewrite filter_filter. apply filter_ext. intros x.
  destruct (negb (fst x =? k)); reflexivity.
Qed.

Lemma commit_stored_core : forall p id tentative, Core (core_of p) ->
  In id (tids (txs (p_g p))) -> Core (core_of (fst (commit_stored p id tentative))).
Proof.
  intros p id tentative HC Hin. unfold commit_stored.
  destruct (remove_single (p_g (with_txmap p (adel N.eqb id (p_txmap p)))) id) as [g o] eqn:R.
  pose proof (remove_single_spec _ _ _ _ R) as S. cbn [with_txmap p_g] in S. destruct o as [n|].
  - destruct S as [S1 S2]. cbn [fst]. rewrite uor_single_core, core_of_with_spent, core_of_with_eo.
    pose proof (get_node_some _ _ _ S1) as [Hn Hid].
    assert (E : core_rm_cm (core_of (with_g (with_txmap p (adel N.eqb id (p_txmap p))) g)) (n_tx n)
                = rm_core (core_of p) (n_tx n)).
    { unfold core_of, core_rm_cm, rm_core. cbn [with_g with_txmap p_g p_cm p_txmap p_gas p_bytes].
      rewrite S2. unfold n_id in Hid. rewrite Hid, adel_idem. reflexivity. }
    rewrite E. apply rm_core_inv; [exact HC|]. unfold core_of. cbn [fst]. unfold txs. apply in_map. exact Hn.
  - destruct S as [_ S]. exfalso. apply has_node_In in Hin. unfold has_node in Hin. rewrite S in Hin. discriminate.
Qed.

Lemma commit_stored_frame : forall p id tentative,
  p_cfg (fst (commit_stored p id tentative)) = p_cfg p.
Proof.
  intros. unfold commit_stored.
  destruct (remove_single (p_g (with_txmap p (adel N.eqb id (p_txmap p)))) id) as [g [n|]]; reflexivity.
Qed.

Lemma Core_txmap_ids : forall p id, Core (core_of p) ->
  (amem N.eqb id (p_txmap p) = true <-> In id (tids (txs (p_g p)))).
Proof.
  intros p id HC. unfold core_of, Core in HC. destruct HC as [_ [_ [_ [_ [Hk _]]]]].
  rewrite amem_spec. apply Hk.
Qed.

Lemma promote_core : forall ids p, core_of (promote p ids) = core_of p.
Proof.
  unfold promote. induction ids as [|d r IH]; intros p; cbn [fold_left]; [reflexivity|].
  rewrite IH. destruct (get_node (p_g p) d); reflexivity.
Qed.

Lemma process_committed_core : forall ids p, Core (core_of p) ->
  Core (core_of (process_committed_transactions p ids)).
Proof.
  intros ids p HC. unfold process_committed_transactions.
  match goal with |- context [fold_left ?f ids (p, [])] => set (F := f) end.
  assert (G : forall ids acc, Core (core_of (fst acc)) -> Core (core_of (fst (fold_left F ids acc)))).
  { induction ids0 as [|id r IH]; intros [q prom] Hq; cbn [fold_left]; [exact Hq|].
    apply IH. unfold F at 1. cbn [fst] in Hq.
    destruct (amem N.eqb id (p_txmap (with_spent q (spend_inputs_by_tx_id (p_spent q) id)))) eqn:Em.
    - pose proof (commit_stored_core (with_spent q (spend_inputs_by_tx_id (p_spent q) id)) id false) as C.
      destruct (commit_stored (with_spent q (spend_inputs_by_tx_id (p_spent q) id)) id false) as [p' pr].
      cbn [fst] in *. apply C; [exact Hq|].
      apply (Core_txmap_ids (with_spent q (spend_inputs_by_tx_id (p_spent q) id))); assumption.
    - cbn [fst]. exact Hq. }
  specialize (G ids (p, []) HC). destruct (fold_left F ids (p, [])) as [p1 prom]. cbn [fst] in G.
  rewrite core_of_update_stats, promote_core. exact G.
Qed.

Lemma preconf_committed_core : forall p id, Core (core_of p) ->
  Core (core_of (process_preconfirmed_committed_transaction p id)).
Proof.
  intros p id HC. unfold process_preconfirmed_committed_transaction.
  set (s0 := if amem N.eqb id (p_txmap p) then p_spent p else move_spender_to_tentative (p_spent p) id).
  set (p0 := with_spent p (spend_inputs_by_tx_id s0 id)).
  destruct (amem N.eqb id (p_txmap p0)) eqn:Em.
  - pose proof (commit_stored_core p0 id true) as C.
    destruct (commit_stored p0 id true) as [p1 pr]. cbn [fst] in C.
    rewrite core_of_update_stats.
    assert (G : forall pr q, core_of (fold_left (fun p d => match get_node (p_g p) d with
                       | Some n => with_exec p (exec_insert (key_of n) (p_exec p))
                       | None => p end) pr q) = core_of q).
    { induction pr0 as [|d r IH]; intros q; cbn [fold_left]; [reflexivity|].
      rewrite IH. destruct (get_node (p_g q) d); reflexivity. }
    rewrite G. apply C; [exact HC|]. apply (Core_txmap_ids p0); assumption.
  - rewrite core_of_update_stats. exact HC.
Qed.

(* ---- removals with dependents ---- *)
Lemma rtd_core : forall ids p reason, Core (core_of p) ->
  Core (core_of (remove_transactions_and_dependents p ids reason)).
Proof.
  intros ids p reason HC. unfold remove_transactions_and_dependents.
  match goal with |- context [fold_left ?f ids (p, [])] => set (F := f) end.
  assert (G : forall ids acc, Core (core_of (fst acc)) -> Core (core_of (fst (fold_left F ids acc)))).
  { induction ids0 as [|id r IH]; intros [q rem] Hq; cbn [fold_left]; [exact Hq|].
    apply IH. unfold F at 1. cbn [fst] in Hq. destruct (amem N.eqb id (p_txmap q)) eqn:Em; [|exact Hq].
    (* deleting the map entry first, then the subtree (which deletes it again) *)
    destruct (remove_subtree_and_update (with_txmap q (adel N.eqb id (p_txmap q))) id) as [p' r'] eqn:R.
    cbn [fst]. unfold remove_subtree_and_update in R. cbn [with_txmap p_g] in R.
    destruct (remove_subtree (p_g q) id) as [[g removed] pan] eqn:E. inversion R; subst.
    rewrite core_of_set_panic.
    apply remove_subtree_rem in E. destruct E as [HR Hroot].
    pose proof (removal_core q g r' HR) as RC.
    assert (Hin : In id (map n_id r')).
    { apply (Core_txmap_ids q) in Em; [|exact Hq].
      destruct HR as [R1 _]. rewrite R1 in Hroot.
      destruct (memN id (map n_id r')) eqn:Ex; [apply memN_In; exact Ex|]. exfalso. apply Hroot.
      unfold tids in *. apply in_map_iff in Em. destruct Em as [x [Hx1 Hx2]]. apply in_map_iff.
      exists x. split; [exact Hx1|]. apply filter_In. split; [exact Hx2|]. rewrite Hx1, Ex. reflexivity. }
    assert (EQ : core_of (update_on_removal (with_g (with_txmap q (adel N.eqb id (p_txmap q))) g) r') =
                 core_of (update_on_removal (with_g q g) r')).
    { unfold core_of.
      destruct (update_on_removal_fields r' (with_g (with_txmap q (adel N.eqb id (p_txmap q))) g))
        as [I1 [_ [_ [_ [_ [_ [_ [_ [I9 [I10 [I11 I12]]]]]]]]]]].
      destruct (update_on_removal_fields r' (with_g q g))
        as [J1 [_ [_ [_ [_ [_ [_ [_ [J9 [J10 [J11 J12]]]]]]]]]]].
      cbv zeta in *. rewrite I1, I9, I10, I11, I12, J1, J9, J10, J11, J12.
      cbn [with_g with_txmap p_g p_cm p_txmap p_gas p_bytes]. do 3 f_equal.
      (* adel id commutes with the fold of adel, and is absorbed since id is among them *)
      clear - Hin. revert Hin. generalize (p_txmap q) as m. induction r' as [|n r IH]; intros m Hin; [destruct Hin|].
      cbn [map fold_left]. cbn [map In] in Hin.
      destruct (N.eq_dec (n_id n) id) as [E|E].
      - unfold n_id in E. rewrite E, adel_idem. reflexivity.
      - destruct Hin as [Hin|Hin]; [contradiction|].
        assert (C : adel N.eqb (t_id (n_tx n)) (adel N.eqb id m) = adel N.eqb id (adel N.eqb (t_id (n_tx n)) m)).
        { unfold adel. rewrite !filter_filter. apply filter_ext. intros x. apply andb_comm. }
        rewrite C. apply IH. exact Hin. }
    rewrite EQ. apply removal_core_inv; assumption. }
  specialize (G ids (p, []) HC). destruct (fold_left F ids (p, [])) as [p1 removed]. cbn [fst] in G.
  rewrite core_of_update_stats, core_of_add_log. exact G.
Qed.

Lemma rsu_core_only : forall p root, Core (core_of p) ->
  Core (core_of (fst (remove_subtree_and_update p root))).
Proof.
  intros p root HC. destruct (remove_subtree_and_update p root) as [p' rm] eqn:R.
  cbn [fst]. apply (rsu_core _ _ _ _ R HC).
Qed.

Lemma evict_core : forall p id reason, Core (core_of p) ->
  Core (core_of (evict_coin_dependents p id reason)).
Proof.
  intros p id reason HC. unfold evict_coin_dependents.
  generalize (get_coins_spenders (p_cm p) id) as deps. intros deps. revert p HC.
  induction deps as [|d r IH]; intros p HC; cbn [fold_left]; [exact HC|].
  apply IH. pose proof (rsu_core_only p d HC) as C.
  destruct (remove_subtree_and_update p d) as [p' rm]. cbn [fst] in C. rewrite core_of_add_log. exact C.
Qed.

Lemma remove_skipped_core : forall p id, Core (core_of p) ->
  Core (core_of (remove_skipped_transaction p id)).
Proof.
  intros p id HC. unfold remove_skipped_transaction. rewrite core_of_update_stats.
  apply evict_core. rewrite core_of_with_spent, core_of_with_eo.
  destruct (amem N.eqb id (p_txmap p)); [apply rtd_core; exact HC | exact HC].
Qed.

Lemma rollback_core : forall p id, Core (core_of p) ->
  Core (core_of (rollback_preconfirmed_transaction p id)).
Proof.
  intros p id HC. unfold rollback_preconfirmed_transaction. rewrite core_of_update_stats.
  generalize (contracts_created_by (p_eo p) id) as created. intros created.
  assert (H2 : Core (core_of (evict_coin_dependents
                 (with_spent (with_eo p (new_executed_transaction (p_eo p) id)) (unspend_preconfirmed (p_spent p) id))
                 id R_ROLLBACK))).
  { apply evict_core. rewrite core_of_with_spent, core_of_with_eo. exact HC. }
  revert H2. generalize (evict_coin_dependents
                 (with_spent (with_eo p (new_executed_transaction (p_eo p) id)) (unspend_preconfirmed (p_spent p) id))
                 id R_ROLLBACK) as p2.
  induction created as [|cid r IH]; intros p2 H2; cbn [fold_left]; [exact H2|].
  apply IH. destruct (contract_created_in_pool (p_cm p2) cid); [exact H2|].
  generalize (get_contract_users (p_cm p2) cid) as users. intros users. revert p2 H2.
  induction users as [|u us IHu]; intros p2 H2; cbn [fold_left]; [exact H2|].
  apply IHu. destruct (aget N.eqb u (p_txmap p2)) as [sid|]; [|exact H2].
  pose proof (rsu_core_only p2 sid H2) as C.
  destruct (remove_subtree_and_update p2 sid) as [p' rm]. cbn [fst] in C. rewrite core_of_add_log. exact C.
Qed.
