(* C17 / C18 over histories, pool level: the invariant [HInv] (graph structure, every stored id is
   in tx_id_to_storage_id, the executable list is sorted with positive max_gas) holds initially and
   is kept by EVERY worker operation; hence it holds in every reachable state. *)
From FC Require Import Pool.Model Pool.ProofsBase Pool.ProofsCore Pool.ProofsRemoval Pool.ProofsOps
  Pool.ProofsInsert Pool.ProofsCheck Pool.Proofs18 Pool.Proofs18b Pool.Proofs19 Pool.Proofs20 Pool.Proofs21
  Pool.ProofsHist1 Pool.ProofsHistC.
From Coq Require Import ZifyBool ZifyN ZifyNat.
Open Scope N_scope.

Definition Cover (g : graph) (m : list (N * N)) : Prop :=
  forall id, has_node g id = true -> amem N.eqb id m = true.
Definition ExecOk (l : list ekey) : Prop := sorted_keys l = true /\ denpos l.

Record HInv (p : pool) : Prop := mkHI {
  hi_graph : GraphInv (p_seq p) (p_g p);
  hi_cover : Cover (p_g p) (p_txmap p);
  hi_exec : ExecOk (p_exec p);
  hi_chain : Chain (N.max 1 (cfg_max_chain (p_cfg p))) (p_g p) }.

Lemma HInv_frame : forall p q, p_cfg q = p_cfg p -> p_g q = p_g p -> p_seq q = p_seq p ->
  p_txmap q = p_txmap p -> p_exec q = p_exec p -> HInv p -> HInv q.
Proof. intros p q E0 E1 E2 E3 E4 [A B C D]. constructor; rewrite ?E0, ?E1, ?E2, ?E3, ?E4; assumption. Qed.

Lemma HInv_with_spent : forall p s, HInv p -> HInv (with_spent p s).
Proof. intros p s H. apply (HInv_frame p); [reflexivity..|exact H]. Qed.
Lemma HInv_with_eo : forall p e, HInv p -> HInv (with_eo p e).
Proof. intros p e H. apply (HInv_frame p); [reflexivity..|exact H]. Qed.
Lemma HInv_set_panic : forall p b, HInv p -> HInv (set_panic p b).
Proof. intros p b H. apply (HInv_frame p); [reflexivity..|exact H]. Qed.
Lemma HInv_add_log : forall p l, HInv p -> HInv (add_log p l).
Proof. intros p l H. apply (HInv_frame p); [reflexivity..|exact H]. Qed.
Lemma HInv_update_stats : forall p, HInv p -> HInv (update_stats p).
Proof. intros p H. apply (HInv_frame p); [reflexivity..|exact H]. Qed.

(* ---- membership in the id map ---- *)
Lemma amem_adel_other : forall k k' (m : list (N * N)), k <> k' -> amem N.eqb k (adel N.eqb k' m) = amem N.eqb k m.
Proof. intros. unfold amem. rewrite (aget_adel_other N.eqb N.eqb_eq) by assumption. reflexivity. Qed.

Lemma amem_fold_adel : forall (ts : list tx) id (m : list (N * N)), ~ In id (map t_id ts) ->
  amem N.eqb id (fold_left (fun m t => adel N.eqb (t_id t) m) ts m) = amem N.eqb id m.
Proof.
  induction ts as [|t r IH]; intros id m H; cbn [fold_left]; [reflexivity|].
  cbn [map In] in H. rewrite IH by tauto. apply amem_adel_other. intros E. apply H. left. congruence.
Qed.

Lemma amem_aset : forall k k' v (m : list (N * N)), amem N.eqb k m = true \/ k = k' ->
  amem N.eqb k (aset N.eqb k' v m) = true.
Proof.
  intros k k' v m H. apply amem_spec. apply (keys_aset N.eqb N.eqb_eq).
  destruct H as [H|H]; [left; apply amem_spec; exact H | right; exact H].
Qed.

(* ---- update_on_removal ---- *)
Lemma uor_exec : forall rm p, p_exec (update_on_removal p rm) =
  fold_left (fun l n => exec_remove (key_of n) l) rm (p_exec p).
Proof.
  unfold update_on_removal. induction rm as [|n r IH]; intros p; cbn [fold_left]; [reflexivity|].
  rewrite IH. reflexivity.
Qed.

Lemma fold_exec_remove_nodes_ok : forall (rm : list node) l, ExecOk l ->
  ExecOk (fold_left (fun l n => exec_remove (key_of n) l) rm l).
Proof.
  induction rm as [|n r IH]; intros l [Hs Hd]; cbn [fold_left]; [split; assumption|].
  apply IH. apply exec_remove_sorted_all; assumption.
Qed.

Lemma uor_hinv : forall q rm, HInv q -> (forall n, In n rm -> has_node (p_g q) (n_id n) = false) ->
  HInv (update_on_removal q rm).
Proof.
  intros q rm [A B C D] Hgone.
  destruct (update_on_removal_fields rm q) as [I1 [I2 [_ [_ [_ [I6 [_ [_ [_ [I10 _]]]]]]]]]]. cbv zeta in *.
  constructor.
  - rewrite I1, I6. exact A.
  - rewrite I1, I10. intros id Hid. rewrite amem_fold_adel; [apply B; exact Hid|].
    rewrite map_map. intros Hin. apply in_map_iff in Hin. destruct Hin as [n [E Hn]].
    specialize (Hgone n Hn). unfold n_id in Hgone. rewrite E in Hgone. congruence.
  - rewrite uor_exec. apply fold_exec_remove_nodes_ok. exact C.
  - rewrite I1, I2. exact D.
Qed.

Lemma Rem_mono : forall g g' rm id, Rem g g' rm -> has_node g' id = true -> has_node g id = true.
Proof.
  intros g g' rm id [R1 _] H. apply has_node_In. apply has_node_In in H. rewrite R1 in H.
  unfold tids in *. apply in_map_iff in H. destruct H as [x [E Hx]]. apply filter_In in Hx.
  apply in_map_iff. exists x. tauto.
Qed.

Lemma Rem_gone : forall g g' rm n, Rem g g' rm -> In n rm -> has_node g' (n_id n) = false.
Proof.
  intros g g' rm n [R1 _] Hn. apply has_node_false. rewrite R1. unfold tids. intros H.
  apply in_map_iff in H. destruct H as [x [E Hx]]. apply filter_In in Hx. destruct Hx as [_ Hx].
  apply negb_true_iff, memN_false in Hx. apply Hx. rewrite E. apply in_map. exact Hn.
Qed.

Lemma Rem_kept : forall g g' rm id, Rem g g' rm -> has_node g id = true -> ~ In id (map n_id rm) ->
  has_node g' id = true.
Proof.
  intros g g' rm id [R1 _] H Hn. apply has_node_In. apply has_node_In in H. rewrite R1.
  unfold tids in *. apply in_map_iff in H. destruct H as [x [E Hx]]. apply in_map_iff. exists x.
  split; [exact E|]. apply filter_In. split; [exact Hx|]. apply negb_true_iff, memN_false. rewrite E. exact Hn.
Qed.

(* ---- remove_subtree_and_update ---- *)
Lemma rsu_graph : forall p root p' rm, remove_subtree_and_update p root = (p', rm) ->
  exists pan, remove_subtree (p_g p) root = (p_g p', rm, pan) /\ p_seq p' = p_seq p /\ p_cfg p' = p_cfg p.
Proof.
  unfold remove_subtree_and_update. intros p root p' rm H.
  destruct (remove_subtree (p_g p) root) as [[g removed] pan] eqn:E. inversion H; subst.
  destruct (update_on_removal_fields rm (with_g p g)) as [I1 [I2 [_ [_ [_ [I6 _]]]]]]. cbv zeta in *.
  exists pan. cbn [set_panic p_g p_seq p_cfg]. rewrite I1, I2, I6. split; [|split]; reflexivity.
Qed.

Lemma rsu_hinv_gen : forall q root q' rm, remove_subtree_and_update q root = (q', rm) ->
  GraphInv (p_seq q) (p_g q) -> ExecOk (p_exec q) ->
  Chain (N.max 1 (cfg_max_chain (p_cfg q))) (p_g q) ->
  (forall id, has_node (p_g q) id = true -> id = root \/ amem N.eqb id (p_txmap q) = true) ->
  HInv q'.
Proof.
  unfold remove_subtree_and_update. intros q root q' rm H HG HE HCh HC.
  destruct (remove_subtree (p_g q) root) as [[g removed] pan] eqn:E. inversion H; subst. clear H.
  pose proof (remove_subtree_inv (p_seq q) (p_g q) root HG) as HG'. rewrite E in HG'. cbn [fst] in HG'.
  pose proof (remove_subtree_cntle (p_g q) root) as HL. rewrite E in HL. cbn [fst] in HL.
  apply remove_subtree_rem in E. destruct E as [HR Hroot].
  apply HInv_set_panic. apply uor_hinv.
  - constructor; cbn [with_g p_g p_seq p_txmap p_exec p_cfg]; [exact HG' | | exact HE | eapply Chain_le; eassumption].
    intros id Hid. destruct (HC id (Rem_mono _ _ _ _ HR Hid)) as [->|Hm]; [|exact Hm].
    apply has_node_In in Hid. contradiction.
  - intros n Hn. cbn [with_g p_g]. eapply Rem_gone; eassumption.
Qed.

Lemma rsu_hinv : forall p root, HInv p -> HInv (fst (remove_subtree_and_update p root)).
Proof.
  intros p root [A B C D]. destruct (remove_subtree_and_update p root) as [p' rm] eqn:R. cbn [fst].
  eapply rsu_hinv_gen; [exact R | exact A | exact C | exact D|]. intros id Hid. right. apply B. exact Hid.
Qed.

(* ---- commit of a stored transaction, promotion ---- *)
Lemma has_node_rs : forall g id g' n x, remove_single g id = (g', Some n) ->
  (has_node g' x = true <-> has_node g x = true /\ x <> id).
Proof.
  intros g id g' n x R. apply remove_single_spec in R. destruct R as [_ R].
  rewrite !has_node_In, R. apply In_tids_filter.
Qed.

Lemma commit_stored_hinv : forall p id tentative, HInv p -> HInv (fst (commit_stored p id tentative)).
Proof.
  intros p id tentative [A B C D]. unfold commit_stored.
  pose proof (remove_single_inv (p_seq p) (p_g p) id A) as HG.
  pose proof (remove_single_cntle (p_g p) id) as HL.
  destruct (remove_single (p_g (with_txmap p (adel N.eqb id (p_txmap p)))) id) as [g o] eqn:R.
  cbn [with_txmap p_g] in R. rewrite R in HG, HL. cbn [fst] in HG, HL. destruct o as [n|]; cbn [fst].
  - apply uor_hinv.
    + apply HInv_with_spent, HInv_with_eo.
      constructor; cbn [with_g with_txmap p_g p_seq p_txmap p_exec p_cfg];
        [exact HG | | exact C | eapply Chain_le; eassumption].
      intros x Hx. apply (has_node_rs _ _ _ _ x R) in Hx. destruct Hx as [Hx Hne].
      rewrite amem_adel_other by exact Hne. apply B. exact Hx.
    + intros m [E|[]]. subst m. cbn [with_spent with_eo with_g p_g].
      destruct (remove_single_spec _ _ _ _ R) as [S1 _]. apply get_node_some in S1. destruct S1 as [_ S1].
      rewrite S1. destruct (has_node g id) eqn:Hh; [|reflexivity].
      apply (has_node_rs _ _ _ _ id R) in Hh. destruct Hh as [_ Hh]. contradiction.
  - apply HInv_set_panic. apply remove_single_spec in R. destruct R as [-> R].
    constructor; cbn [with_txmap p_g p_seq p_txmap p_exec p_cfg]; [exact A | | exact C | exact D].
    intros x Hx. rewrite amem_adel_other; [apply B; exact Hx|].
    intros ->. unfold has_node in Hx. rewrite R in Hx. discriminate.
Qed.

Lemma exec_insert_node_ok : forall p d n, HInv p -> get_node (p_g p) d = Some n ->
  HInv (with_exec p (exec_insert (key_of n) (p_exec p))).
Proof.
  intros p d n [A B [C1 C2] D] Hg. constructor; cbn [with_exec p_g p_seq p_txmap p_exec p_cfg]; try assumption.
  apply exec_insert_sorted_all; [exact C1 | exact C2 | eapply key_of_den; eassumption].
Qed.

Lemma promote_hinv : forall ids p, HInv p -> HInv (promote p ids).
Proof.
  unfold promote. induction ids as [|d r IH]; intros p H; cbn [fold_left]; [exact H|].
  apply IH. destruct (get_node (p_g p) d) as [n|] eqn:E.
  - eapply exec_insert_node_ok; eassumption.
  - apply HInv_set_panic. exact H.
Qed.

Lemma process_committed_hinv : forall ids p, HInv p -> HInv (process_committed_transactions p ids).
Proof.
  intros ids p HI. unfold process_committed_transactions.
  match goal with |- context [fold_left ?f ids (p, [])] => set (F := f) end.
  assert (G : forall ids acc, HInv (fst acc) -> HInv (fst (fold_left F ids acc))).
  { induction ids0 as [|id r IH]; intros [q prom] Hq; cbn [fold_left]; [exact Hq|].
    apply IH. unfold F at 1. cbn [fst] in Hq.
    destruct (amem N.eqb id (p_txmap (with_spent q (spend_inputs_by_tx_id (p_spent q) id)))).
    - pose proof (commit_stored_hinv (with_spent q (spend_inputs_by_tx_id (p_spent q) id)) id false
                    (HInv_with_spent _ _ Hq)) as Cm.
      destruct (commit_stored (with_spent q (spend_inputs_by_tx_id (p_spent q) id)) id false) as [p' pr].
      cbn [fst] in *. exact Cm.
    - cbn [fst]. apply HInv_with_spent. exact Hq. }
  specialize (G ids (p, []) HI). destruct (fold_left F ids (p, [])) as [p1 prom]. cbn [fst] in G.
  apply HInv_update_stats, promote_hinv. exact G.
Qed.

Lemma preconf_committed_hinv : forall p id, HInv p -> HInv (process_preconfirmed_committed_transaction p id).
Proof.
  intros p id HI. unfold process_preconfirmed_committed_transaction.
  set (s0 := if amem N.eqb id (p_txmap p) then p_spent p else move_spender_to_tentative (p_spent p) id).
  set (p0 := with_spent p (spend_inputs_by_tx_id s0 id)).
  assert (H0 : HInv p0) by (apply HInv_with_spent; exact HI).
  destruct (amem N.eqb id (p_txmap p0)).
  - pose proof (commit_stored_hinv p0 id true H0) as Cm.
    destruct (commit_stored p0 id true) as [p1 pr]. cbn [fst] in Cm. apply HInv_update_stats.
    revert p1 Cm. induction pr as [|d r IH]; intros p1 Cm; cbn [fold_left]; [exact Cm|].
    apply IH. destruct (get_node (p_g p1) d) as [n|] eqn:E; [|exact Cm].
    eapply exec_insert_node_ok; eassumption.
  - apply HInv_update_stats. exact H0.
Qed.

(* ---- removals with dependents ---- *)
Lemma rtd_hinv : forall ids p reason, HInv p -> HInv (remove_transactions_and_dependents p ids reason).
Proof.
  intros ids p reason HI. unfold remove_transactions_and_dependents.
  match goal with |- context [fold_left ?f ids (p, [])] => set (F := f) end.
  assert (G : forall ids acc, HInv (fst acc) -> HInv (fst (fold_left F ids acc))).
  { induction ids0 as [|id r IH]; intros [q rem] Hq; cbn [fold_left]; [exact Hq|].
    apply IH. unfold F at 1. cbn [fst] in Hq. destruct (amem N.eqb id (p_txmap q)); [|exact Hq].
    destruct (remove_subtree_and_update (with_txmap q (adel N.eqb id (p_txmap q))) id) as [p' r'] eqn:R.
    cbn [fst]. destruct Hq as [A B C D].
    eapply rsu_hinv_gen; [exact R | exact A | exact C | exact D|].
    cbn [with_txmap p_g p_txmap]. intros x Hx. destruct (N.eq_dec x id) as [E|E]; [left; exact E|].
    right. rewrite amem_adel_other by exact E. apply B. exact Hx. }
  specialize (G ids (p, []) HI). destruct (fold_left F ids (p, [])) as [p1 removed]. cbn [fst] in G.
  apply HInv_update_stats, HInv_add_log. exact G.
Qed.

Lemma evict_hinv : forall p id reason, HInv p -> HInv (evict_coin_dependents p id reason).
Proof.
  intros p id reason HI. unfold evict_coin_dependents.
  generalize (get_coins_spenders (p_cm p) id) as deps. intros deps. revert p HI.
  induction deps as [|d r IH]; intros p HI; cbn [fold_left]; [exact HI|].
  apply IH. pose proof (rsu_hinv p d HI) as Cm.
  destruct (remove_subtree_and_update p d) as [p' rm]. cbn [fst] in Cm. apply HInv_add_log. exact Cm.
Qed.

Lemma remove_skipped_hinv : forall p id, HInv p -> HInv (remove_skipped_transaction p id).
Proof.
  intros p id HI. unfold remove_skipped_transaction. apply HInv_update_stats, evict_hinv.
  apply HInv_with_spent, HInv_with_eo.
  destruct (amem N.eqb id (p_txmap p)); [apply rtd_hinv; exact HI | exact HI].
Qed.

Lemma rollback_hinv : forall p id, HInv p -> HInv (rollback_preconfirmed_transaction p id).
Proof.
  intros p id HI. unfold rollback_preconfirmed_transaction. apply HInv_update_stats.
  generalize (contracts_created_by (p_eo p) id) as created. intros created.
  assert (H2 : HInv (evict_coin_dependents
                 (with_spent (with_eo p (new_executed_transaction (p_eo p) id)) (unspend_preconfirmed (p_spent p) id))
                 id R_ROLLBACK)).
  { apply evict_hinv, HInv_with_spent, HInv_with_eo. exact HI. }
  revert H2. generalize (evict_coin_dependents
                 (with_spent (with_eo p (new_executed_transaction (p_eo p) id)) (unspend_preconfirmed (p_spent p) id))
                 id R_ROLLBACK) as p2.
  induction created as [|cid r IH]; intros p2 H2; cbn [fold_left]; [exact H2|].
  apply IH. destruct (contract_created_in_pool (p_cm p2) cid); [exact H2|].
  generalize (get_contract_users (p_cm p2) cid) as users. intros users. revert p2 H2.
  induction users as [|u us IHu]; intros p2 H2; cbn [fold_left]; [exact H2|].
  apply IHu. destruct (aget N.eqb u (p_txmap p2)) as [sid|]; [|exact H2].
  pose proof (rsu_hinv p2 sid H2) as Cm.
  destruct (remove_subtree_and_update p2 sid) as [p' rm]. cbn [fst] in Cm. apply HInv_add_log. exact Cm.
Qed.

(* ---- extraction ---- *)
Lemma extract_fold_hinv : forall (F : pool -> node -> pool),
  (forall p n, p_cfg (F p n) = p_cfg p /\ p_g (F p n) = p_g p /\ p_seq (F p n) = p_seq p /\
               p_txmap (F p n) = p_txmap p /\ p_exec (F p n) = p_exec p) ->
  forall rs p0, HInv p0 -> (forall n, In n rs -> has_node (p_g p0) (n_id n) = false) ->
  HInv (fold_left (fun p n => update_on_removal (F p n) [n]) rs p0).
Proof.
  intros F HF. induction rs as [|n r IH]; intros p0 H0 Hg; cbn [fold_left]; [exact H0|].
  destruct (HF p0 n) as [F0 [F1 [F2 [F3 F4]]]].
  assert (HFp : HInv (F p0 n)) by (apply (HInv_frame p0); assumption).
  apply IH.
  - apply uor_hinv; [exact HFp|]. intros m [E|[]]. subst m. rewrite F1. apply Hg. left. reflexivity.
  - intros m Hm. destruct (update_on_removal_fields [n] (F p0 n)) as [I1 _]. cbv zeta in I1.
    rewrite I1, F1. apply Hg. right. exact Hm.
Qed.

Lemma extract_hinv : forall p cs, HInv p -> HInv (fst (extract_transactions_for_block p cs)).
Proof.
  intros p cs [A B [C1 C2] D]. unfold extract_transactions_for_block. cbn [fst]. apply HInv_update_stats.
  pose proof (gather_rem cs (p_g p) (p_exec p)) as HR.
  destruct (gather_inv (p_seq p) cs (p_g p) (p_exec p) A C1 C2) as [G1 [G2 G3]].
  set (gs := gather_best_txs cs (p_g p) (p_exec p)) in *.
  apply (extract_fold_hinv
           (fun p n => with_spent (with_eo p (new_extracted_transaction (p_eo p) (n_tx n)))
                                  (maybe_spend_inputs (p_spent p) (t_id (n_tx n)) (t_ins (n_tx n))))).
  - intros q n. repeat split; reflexivity.
  - apply HInv_set_panic. constructor; cbn [with_exec with_g p_g p_seq p_txmap p_exec p_cfg].
    + exact G1.
    + intros id Hid. apply B. eapply Rem_mono; eassumption.
    + split; assumption.
    + eapply Chain_le; [apply gather_cntle | exact D].
  - intros n Hn. cbn [set_panic with_exec with_g p_g]. eapply Rem_gone; eassumption.
Qed.

(* ---- insertion ---- *)
Lemma can_insert_facts2 : forall p d t ci, can_insert_transaction p d t = inl ci ->
  t_gas t <> 0 /\ amem N.eqb (t_id t) (p_txmap p) = false /\
  can_store (p_g p) (cfg_max_chain (p_cfg p)) t = Good (ci_direct ci, ci_all ci) /\
  (forall c, In c (ci_collisions ci) -> ~ In c (ci_all ci)) /\
  (ci_all ci = [] \/ ci_remove ci = []).
Proof.
  intros p d t ci H. unfold can_insert_transaction in H.
  destruct (t_gas t =? 0) eqn:Eg; [discriminate|]. apply N.eqb_neq in Eg.
  destruct (amem N.eqb (t_id t) (p_txmap p)) eqn:Em; [discriminate|].
  destruct (match t_blob t with Some b => memN b (d_blobs d) | None => false end); [discriminate|].
  destruct (validate_inputs (p_g p) d (p_eo p) (p_spent p) (cfg_utxo_validation (p_cfg p)) (t_ins t) None);
    try discriminate.
  destruct (find_collisions (p_cm p) t) as [colls|] eqn:Ef; [|discriminate].
  destruct (can_store (p_g p) (cfg_max_chain (p_cfg p)) t) as [[direct all]|] eqn:Ec; [|discriminate].
  destruct (existsb (fun c => memN c all) colls) eqn:Ex; [discriminate|].
  assert (Hcoll : forall c, In c colls -> ~ In c all).
  { intros c Hc Ha. assert (existsb (fun c => memN c all) colls = true).
    { apply existsb_exists. exists c. split; [exact Hc | apply memN_In; exact Ha]. }
    congruence. }
  destruct (check_collision_requirements (p_g p) t match all with [] => false | _ => true end colls); [discriminate|].
  match type of H with (if ?b then _ else _) = _ => destruct b end.
  - inversion H; subst. cbn [ci_direct ci_all ci_collisions ci_remove].
    split; [exact Eg|]. split; [reflexivity|]. split; [reflexivity|]. split; [exact Hcoll | right; reflexivity].
  - destruct all as [|a0 all']; [|discriminate].
    match type of H with match ?x with _ => _ end = _ => destruct x end; [|discriminate].
    inversion H; subst. cbn [ci_direct ci_all ci_collisions ci_remove].
    split; [exact Eg|]. split; [reflexivity|]. split; [reflexivity|]. split; [exact Hcoll | left; reflexivity].
Qed.

Lemma addN_NoDup : forall x l, NoDup l -> NoDup (addN x l).
Proof.
  intros x l H. unfold addN. destruct (memN x l) eqn:E; [exact H|].
  apply NoDup_app_one; [exact H | apply memN_false; exact E].
Qed.

Lemma direct_deps_ok : forall s g maxc ins acc r, GraphInv s g -> direct_deps g maxc ins acc = Good r ->
  NoDup acc -> (forall x, In x acc -> has_node g x = true) ->
  NoDup r /\ (forall x, In x r -> has_node g x = true).
Proof.
  intros s g maxc ins. induction ins as [|i rest IH]; intros acc r HG H Hnd Hh; cbn [direct_deps] in H.
  - inversion H; subst. split; assumption.
  - match type of H with match ?f with _ => _ end = _ => destruct f as [nid|] eqn:Ef end; [|eapply IH; eassumption].
    destruct (maxc <=? lenN (addN nid acc)); [discriminate|].
    eapply IH; [exact HG | exact H | apply addN_NoDup; exact Hnd|].
    intros x Hx. apply addN_In in Hx. destruct Hx as [Hx|Hx]; [apply Hh; exact Hx|]. subst x.
    destruct i as [u o a b| |cid]; [| discriminate |].
    + apply (aget_In utxo_eqb utxo_eqb_eq) in Ef. destruct (gi_coins s g HG _ _ Ef) as [n [G1 _]].
      unfold has_node. rewrite G1. reflexivity.
    + apply (aget_In N.eqb N.eqb_eq) in Ef. destruct (gi_contracts s g HG _ _ Ef) as [n [G1 _]].
      unfold has_node. rewrite G1. reflexivity.
Qed.

Lemma can_store_direct_ok : forall s g maxc t direct all, GraphInv s g ->
  can_store g maxc t = Good (direct, all) ->
  NoDup direct /\ (forall x, In x direct -> has_node g x = true).
Proof.
  intros s g maxc t direct all HG H. unfold can_store in H.
  destruct (direct_deps g maxc (t_ins t) []) as [dd|] eqn:E; [|discriminate].
  destruct (all_deps _ g maxc dd []) as [aa|]; [|discriminate]. inversion H; subst.
  eapply direct_deps_ok; [exact HG | exact E | constructor | intros x []].
Qed.

(* the set of ancestors accepted by can_store is closed under dependencies *)
Lemma all_closed : forall s g maxc t direct all, GraphInv s g ->
  can_store g maxc t = Good (direct, all) ->
  forall a x, Reach g a x -> In x all -> In a all.
Proof.
  intros s g maxc t direct all HG H a x R. destruct (can_store_bounds_all _ _ _ _ _ H) as [_ [_ [_ Hc]]].
  induction R as [a b Hab | a b c _ IH1 _ IH2]; intros Hin.
  - destruct (gi_edges s g HG a b Hab) as [_ [Hb _]]. unfold has_node in Hb.
    destruct (get_node g b) as [n|] eqn:E; [|discriminate].
    destruct (Hc b n Hin E) as [_ [_ Hp]]. apply Hp. apply parents_In. exact Hab.
  - apply IH1, IH2. exact Hin.
Qed.

Lemma Reach_mono : forall g g' a b, incl (g_edges g') (g_edges g) -> Reach g' a b -> Reach g a b.
Proof.
  intros g g' a b Hs R. induction R as [a b Hab | a b c _ IH1 _ IH2].
  - apply reach_edge. apply Hs. exact Hab.
  - eapply reach_trans; eassumption.
Qed.

Lemma rsu_fold_hinv : forall roots p rem, HInv p ->
  HInv (fst (rsu_fold roots (p, rem))) /\ p_seq (fst (rsu_fold roots (p, rem))) = p_seq p /\
  p_cfg (fst (rsu_fold roots (p, rem))) = p_cfg p /\
  CntLe (p_g (fst (rsu_fold roots (p, rem)))) (p_g p).
Proof.
  unfold rsu_fold. induction roots as [|root r IH]; intros p rem HI; cbn [fold_left fst].
  { split; [exact HI|]. split; [reflexivity|]. split; [reflexivity | apply CntLe_refl]. }
  pose proof (rsu_hinv p root HI) as Cm.
  destruct (remove_subtree_and_update p root) as [p' rm] eqn:R. cbn [fst] in Cm.
  destruct (rsu_graph _ _ _ _ R) as [pan [RS [Hs Hc]]].
  pose proof (remove_subtree_cntle (p_g p) root) as HL. rewrite RS in HL. cbn [fst] in HL.
  destruct (IH p' (rem ++ rm) Cm) as [I1 [I2 [I3 I4]]]. split; [exact I1|]. split; [congruence|].
  split; [congruence | eapply CntLe_trans; eassumption].
Qed.

Lemma rsu_fold_desc : forall roots p rem,
  incl (g_edges (p_g (fst (rsu_fold roots (p, rem))))) (g_edges (p_g p)) /\
  forall n, In n (snd (rsu_fold roots (p, rem))) ->
    In n rem \/ exists r, In r roots /\ (n_id n = r \/ Reach (p_g p) r (n_id n)).
Proof.
  unfold rsu_fold. induction roots as [|root r IH]; intros p rem; cbn [fold_left fst snd].
  - split; [apply incl_refl | intros n Hn; left; exact Hn].
  - destruct (remove_subtree_and_update p root) as [p' rm] eqn:R.
    destruct (rsu_graph _ _ _ _ R) as [pan [RS _]]. apply remove_subtree_desc in RS. destruct RS as [E1 E2].
    destruct (IH p' (rem ++ rm)) as [I1 I2]. split; [eapply incl_tran; eassumption|].
    intros n Hn. destruct (I2 n Hn) as [Hin|[r0 [Hr0 Hd]]].
    + apply in_app_or in Hin. destruct Hin as [Hin|Hin]; [left; exact Hin|].
      right. exists root. split; [left; reflexivity | apply E2; exact Hin].
    + right. exists r0. split; [right; exact Hr0|].
      destruct Hd as [Hd|Hd]; [left; exact Hd | right; eapply Reach_mono; eassumption].
Qed.

Lemma do_insert_hinv : forall p d t ci, HInv p -> can_insert_transaction p d t = inl ci ->
  HInv (do_insert p t ci).
Proof.
  intros p d t ci HI Hci. destruct (can_insert_facts2 _ _ _ _ Hci) as [Hgas [Hfresh [Hcs [Hcoll Hrm]]]].
  pose proof HI as [A B C D].
  destruct (can_store_direct_ok _ _ _ _ _ _ A Hcs) as [Dnd Dh].
  destruct (can_store_bounds_all _ _ _ _ _ Hcs) as [_ [_ [Dsub Dcnt]]].
  pose proof (all_closed _ _ _ _ _ _ A Hcs) as Hclosed.
  unfold do_insert.
  fold (rsu_fold (ci_remove ci ++ ci_collisions ci) (p, [])).
  destruct (rsu_fold_hinv (ci_remove ci ++ ci_collisions ci) p [] HI) as [H1 [Hseq [Hcfg Hle]]].
  destruct (rsu_fold_leaves (ci_remove ci ++ ci_collisions ci) p []) as [more [M1 [M2 _]]].
  destruct (rsu_fold_desc (ci_remove ci ++ ci_collisions ci) p []) as [_ Hdesc].
  destruct (rsu_fold (ci_remove ci ++ ci_collisions ci) (p, [])) as [p1 removed]. cbn [fst snd app] in *.
  subst removed. destruct H1 as [A1 B1 [C1 C1'] D1].
  (* the direct dependencies survive the evictions *)
  assert (Hdir : forall x, In x (ci_direct ci) -> has_node (p_g p1) x = true).
  { intros x Hx. eapply Rem_kept; [exact M2 | apply Dh; exact Hx|]. intros Hin.
    apply in_map_iff in Hin. destruct Hin as [n [En Hn]].
    destruct (Hdesc n Hn) as [[]|[r0 [Hr0 Hd]]].
    assert (Hall : In r0 (ci_all ci)).
    { destruct Hd as [Hd|Hd]; [rewrite <- Hd, En; apply Dsub; exact Hx|].
      eapply Hclosed; [exact Hd | rewrite En; apply Dsub; exact Hx]. }
    apply in_app_or in Hr0. destruct Hr0 as [Hr0|Hr0].
    - destruct Hrm as [Hrm|Hrm]; [rewrite Hrm in Hall; destruct Hall | rewrite Hrm in Hr0; destruct Hr0].
    - apply (Hcoll r0 Hr0). exact Hall. }
  assert (Hfresh1 : has_node (p_g p1) (t_id t) = false).
  { destruct (has_node (p_g p1) (t_id t)) eqn:E; [|reflexivity].
    apply (Rem_mono _ _ _ _ M2) in E. apply B in E. congruence. }
  apply HInv_update_stats. constructor; cbn [p_g p_seq p_txmap p_exec p_cfg].
  - apply store_inv; [exact A1 | exact Hfresh1 | exact Dnd | exact Hdir | lia].
  - intros id Hid. apply amem_aset. apply has_node_In in Hid. rewrite store_txs in Hid.
    unfold tids in Hid. rewrite map_app in Hid. apply in_app_or in Hid. cbn [map In] in Hid.
    destruct Hid as [Hid|[Hid|[]]]; [left; apply B1; apply has_node_In; exact Hid | right; congruence].
  - destruct (ci_all ci); [|split; assumption].
    apply exec_insert_sorted_all; [exact C1 | exact C1'|]. unfold key_of, k_den. cbn [n_tx fst snd]. lia.
  - apply store_chain; [exact D1 | lia|]. intros x n Hx Hn.
    destruct (Hle x n Hn) as [n0 [Hn0 L]]. destruct (Dcnt x n0 Hx Hn0) as [Lt _]. rewrite Hcfg. lia.
Qed.

Lemma pool_insert_hinv : forall p d t, HInv p -> HInv (fst (pool_insert p d t)).
Proof.
  intros p d t HI. unfold pool_insert.
  destruct (lru_mem (KTx (t_id t)) (s_lru (p_spent p)) || memN (t_id t) (d_txs d)); [exact HI|].
  destruct (can_insert_transaction p d t) as [ci|e] eqn:E; [|exact HI].
  cbn [fst]. eapply do_insert_hinv; eassumption.
Qed.

(* ---- worker operations ---- *)
Lemma process_block_hinv : forall w h ids, HInv (w_pool w) -> HInv (w_pool (process_block w h ids)).
Proof.
  intros w h ids HI. unfold process_block.
  pose proof (process_committed_hinv ids (w_pool w) HI) as H1.
  set (p1 := process_committed_transactions (w_pool w) ids) in *.
  assert (H2 : HInv (with_eo p1 (fold_left new_executed_transaction ids (p_eo p1)))) by (apply HInv_with_eo; exact H1).
  revert H2. generalize (with_eo p1 (fold_left new_executed_transaction ids (p_eo p1))) as p2.
  generalize (w_tent w) at 2 as tent0.
  generalize (sortN (map fst (filter (fun e : N * list N => fst e <=? h) (w_tent w)))) as stale.
  induction stale as [|s r IH]; intros tent0 p2 H2; cbn [fold_left].
  - exact H2.
  - destruct (aget N.eqb s tent0) as [txs0|]; [|apply IH; exact H2].
    apply IH. generalize (sortN txs0) as l. intros l. revert p2 H2.
    induction l as [|id l IHl]; intros p2 H2; cbn [fold_left]; [exact H2|].
    apply IHl. destruct (memN id ids); [apply HInv_with_spent; exact H2 | apply rollback_hinv; exact H2].
Qed.

Lemma preconf_tx_hinv : forall w id kind h outs, HInv (w_pool w) ->
  HInv (w_pool (process_preconfirmed_transaction w id kind h outs)).
Proof.
  intros w id kind h outs HI. unfold process_preconfirmed_transaction.
  destruct kind.
  - destruct (h <=? w_height w); [exact HI|].
    destruct outs; cbn [w_pool]; [apply HInv_with_eo|]; apply preconf_committed_hinv; exact HI.
  - destruct (h <=? w_height w); [exact HI|].
    destruct outs; cbn [w_pool]; [apply HInv_with_eo|]; apply preconf_committed_hinv; exact HI.
  - cbn [with_pool w_pool]. apply remove_skipped_hinv. exact HI.
Qed.

Lemma step_hinv : forall w o, HInv (w_pool w) -> HInv (w_pool (fst (step w o))).
Proof.
  intros w o HI. destruct o; cbn [step].
  - unfold worker_insert. pose proof (pool_insert_hinv (w_pool w) (w_db w) t HI) as Cm.
    destruct (pool_insert (w_pool w) (w_db w) t) as [p r]. cbn [fst with_pool w_pool] in *. exact Cm.
  - pose proof (extract_hinv (w_pool w) cs HI) as Cm.
    destruct (extract_transactions_for_block (w_pool w) cs) as [p ns]. cbn [fst with_pool w_pool] in *. exact Cm.
  - cbn [fst]. apply process_block_hinv. exact HI.
  - cbn [fst]. apply preconf_tx_hinv. exact HI.
  - cbn [fst with_pool w_pool]. apply rtd_hinv. exact HI.
  - cbn [fst w_pool]. exact HI.
Qed.

Lemma hinv_init : forall cfg, HInv (pool_new cfg).
Proof.
  intros cfg. constructor; cbn [pool_new p_g p_seq p_txmap p_exec].
  - constructor; cbn [g_empty g_edges g_coins g_contracts g_nodes].
    + constructor.
    + intros a b [].
    + intros u v [].
    + intros c v [].
    + intros n [].
  - intros id H. discriminate.
  - split; [reflexivity | constructor].
  - intros id n H. discriminate.
Qed.

Lemma run_hinv : forall ops w, HInv (w_pool w) -> Forall (fun wr => HInv (w_pool (fst wr))) (run w ops).
Proof.
  induction ops as [|o r IH]; intros w HI; cbn [run]; [constructor|].
  pose proof (step_hinv w o HI) as Cm. destruct (step w o) as [w' res]. cbn [fst] in Cm.
  constructor; [exact Cm | apply IH; exact Cm].
Qed.

(* ---- what the invariant says ---- *)
Lemma edge_eqb_eq : forall a b, edge_eqb a b = true <-> a = b.
Proof.
  intros [a1 a2] [b1 b2]. unfold edge_eqb. cbn [fst snd]. rewrite andb_true_iff, !N.eqb_eq.
  split; [intros [-> ->]; reflexivity | intros H; inversion H; split; reflexivity].
Qed.

Lemma nodupE_NoDup : forall l, nodupE l = true <-> NoDup l.
Proof.
  induction l as [|x r IH]; cbn [nodupE].
  - split; [constructor | reflexivity].
  - rewrite andb_true_iff, negb_true_iff, IH. split.
    + intros [H1 H2]. constructor; [|exact H2]. intros Hin.
      assert (existsb (edge_eqb x) r = true) by (apply existsb_exists; exists x; split; [exact Hin | apply edge_eqb_eq; reflexivity]).
      congruence.
    + intros H. inversion H; subst. split; [|assumption].
      destruct (existsb (edge_eqb x) r) eqn:E; [|reflexivity]. apply existsb_exists in E.
      destruct E as [y [Hy1 Hy2]]. apply edge_eqb_eq in Hy2. subst y. contradiction.
Qed.

Lemma GraphInv_inv_edges : forall s g, GraphInv s g -> inv_edges g = true.
Proof.
  intros s g [I1 I2 _ _ _]. unfold inv_edges. apply andb_true_iff. split; [apply nodupE_NoDup; exact I1|].
  apply forallb_forall. intros [a b] Hin. cbn [fst snd]. destruct (I2 a b Hin) as [A [B L]].
  rewrite A, B. cbn [andb]. lia.
Qed.

Definition GraphWellFormed (g : graph) : Prop :=
  inv_edges g = true /\
  (forall a b, In (a, b) (g_edges g) -> In a (tids (txs g)) /\ In b (tids (txs g))) /\
  (forall id p, In p (parents g id) -> In p (tids (txs g))) /\
  (forall a, ~ Reach g a a) /\
  (forall u v, In (u, v) (g_coins g) -> In v (tids (txs g))) /\
  (forall c v, In (c, v) (g_contracts g) -> In v (tids (txs g))).

Lemma HInv_wellformed : forall p, HInv p -> GraphWellFormed (p_g p).
Proof.
  intros p HI. pose proof (hi_graph p HI) as A. pose proof (GraphInv_inv_edges _ _ A) as E. destruct A as [I1 I2 I3 I4 I5].
  split; [exact E|]. split; [|split; [|split; [|split]]].
  - intros a b Hin. destruct (I2 a b Hin) as [Ha [Hb _]]. split; apply has_node_In; assumption.
  - intros id q Hq. apply parents_In in Hq. destruct (I2 q id Hq) as [Ha _]. apply has_node_In. exact Ha.
  - apply inv_edges_acyclic. exact E.
  - intros u v Hin. destruct (I3 u v Hin) as [n [G _]]. apply has_node_In. unfold has_node. rewrite G. reflexivity.
  - intros c v Hin. destruct (I4 c v Hin) as [n [G _]]. apply has_node_In. unfold has_node. rewrite G. reflexivity.
Qed.

Theorem graph_wellformed_run : forall cfg d h ops,
  Forall (fun wr => GraphWellFormed (p_g (w_pool (fst wr)))) (run (worker_new cfg d h) ops).
Proof.
  intros cfg d h ops. pose proof (run_hinv ops (worker_new cfg d h) (hinv_init cfg)) as H.
  rewrite Forall_forall in *. intros wr Hwr. apply HInv_wellformed. apply H. exact Hwr.
Qed.

Theorem exec_sorted_run : forall cfg d h ops,
  Forall (fun wr => sorted_keys (p_exec (w_pool (fst wr))) = true /\ denpos (p_exec (w_pool (fst wr))))
         (run (worker_new cfg d h) ops).
Proof.
  intros cfg d h ops. pose proof (run_hinv ops (worker_new cfg d h) (hinv_init cfg)) as H.
  rewrite Forall_forall in *. intros wr Hwr. exact (hi_exec _ (H wr Hwr)).
Qed.

Theorem ratio_order_run : forall cfg d h ops,
  Forall (fun wr => forall cs ps, ps_clean ps = [] ->
            sorted_keys (ps_clean (pass cs (p_exec (w_pool (fst wr))) ps)) = true)
         (run (worker_new cfg d h) ops).
Proof.
  intros cfg d h ops. pose proof (exec_sorted_run cfg d h ops) as H.
  rewrite Forall_forall in *. intros wr Hwr cs ps Hc. apply pass_ratio_order; [|exact Hc].
  apply (H wr Hwr).
Qed.

(* the dependents-in-chain counter of every stored transaction is bounded by max_txs_chain_count
   (by 1 when that is configured as 0: a transaction without pool dependencies is always accepted) *)
Theorem chain_bound_run : forall cfg d h ops,
  Forall (fun wr => let p := w_pool (fst wr) in
            forall id n, get_node (p_g p) id = Some n -> n_cnt n <= N.max 1 (cfg_max_chain (p_cfg p)))
         (run (worker_new cfg d h) ops).
Proof.
  intros cfg d h ops. pose proof (run_hinv ops (worker_new cfg d h) (hinv_init cfg)) as H.
  rewrite Forall_forall in *. intros wr Hwr. exact (hi_chain _ (H wr Hwr)).
Qed.

(* non-vacuity: the history of ProofsInsert.ex_ops builds a dependency edge, replaces, extracts *)
Example hist_nontrivial :
  map (fun wr => (g_edges (p_g (w_pool (fst wr))), map k_id (p_exec (w_pool (fst wr)))))
      (run (worker_new (mkCfg 4 100 100 3 true) ex_db 0) [OpInsert ex_t1; OpInsert ex_t2])
  = [([], [1]); ([(1, 2)], [1])].
Proof. vm_compute. reflexivity. Qed.

(* non-vacuity of the chain bound: max_txs_chain_count = 2; the counter of transaction 1 reaches 2
   with its dependent 2, and the grand-child 3 is rejected (dependency error) *)
Definition c_t2 : tx := mkTx 2 [ICoin (1, 0) 1 10 1] [OCoin 1 10 1] None 5 10 1 10.
Definition c_t3 : tx := mkTx 3 [ICoin (2, 0) 1 10 1] [] None 5 10 1 10.
Example chain_nontrivial :
  map (fun wr => (map (fun n => (n_id n, n_cnt n)) (g_nodes (p_g (w_pool (fst wr)))),
                  match snd wr with RInsert IOk => 0 | RInsert (IErr e) => e | _ => 77 end))
      (run (worker_new (mkCfg 4 100 100 2 true) ex_db 0) [OpInsert ex_t1; OpInsert c_t2; OpInsert c_t3])
  = [([(1, 1)], 0); ([(1, 2); (2, 1)], 0); ([(1, 2); (2, 1)], E_DEPENDENCY)].
Proof. vm_compute. reflexivity. Qed.
