(* C17 over histories: the cascade.  An edge of the dependency graph disappears only together with
   its dependent, or when its dependency is one of the operation's included transactions
   (handed out / committed / preconfirmed).  With the no-dangling-edge invariant this is the
   checker [cascadeb]: a transaction that leaves without being included takes every dependent with it.
   Hypothesis: the model's panic flag is still false after the operation (the flag records an
   expect()/debug_assert!() of the implementation failing, e.g. the subtree removal meeting a
   vanished node, after which the model stops the removal like the implementation would). *)
From FC Require Import Pool.Model Pool.ProofsBase Pool.ProofsCore Pool.ProofsRemoval Pool.ProofsOps
  Pool.ProofsInsert Pool.ProofsCheck Pool.Proofs18 Pool.Proofs18b Pool.Proofs19 Pool.Proofs20 Pool.Proofs21
  Pool.ProofsHist1 Pool.ProofsHist2.
From Coq Require Import ZifyBool ZifyN ZifyNat.
Open Scope N_scope.

Definition EdgeKeep (S : N -> Prop) (g g' : graph) : Prop :=
  forall a b, In (a, b) (g_edges g) -> has_node g' b = true -> S a \/ In (a, b) (g_edges g').
Definition KeepG (S : N -> Prop) (g g' : graph) : Prop :=
  EdgeKeep S g g' /\ forall id, has_node g' id = true -> has_node g id = true.

Lemma KeepG_refl : forall S g, KeepG S g g.
Proof. intros S g. split; [intros a b H _; right; exact H | intros id H; exact H]. Qed.

Lemma KeepG_trans : forall S g g1 g2, KeepG S g g1 -> KeepG S g1 g2 -> KeepG S g g2.
Proof.
  intros S g g1 g2 [E1 M1] [E2 M2]. split.
  - intros a b Hab Hb. destruct (E1 a b Hab (M2 b Hb)) as [H|H]; [left; exact H|]. apply E2; assumption.
  - intros id H. apply M1, M2. exact H.
Qed.

Lemma KeepG_weaken : forall (S S' : N -> Prop) g g', (forall x, S x -> S' x) -> KeepG S g g' -> KeepG S' g g'.
Proof.
  intros S S' g g' HS [E M]. split; [|exact M].
  intros a b Hab Hb. destruct (E a b Hab Hb) as [H|H]; [left; apply HS; exact H | right; exact H].
Qed.

Lemma KeepG_core : forall S g g', core_nodes g = core_nodes g' -> g_edges g = g_edges g' -> KeepG S g g'.
Proof.
  intros S g g' Hn He. split.
  - intros a b Hab _. right. rewrite <- He. exact Hab.
  - intros id H. rewrite <- (has_node_core g g' id Hn). exact H.
Qed.

Lemma remove_single_keep : forall (S : N -> Prop) g id, S id -> KeepG S g (fst (remove_single g id)).
Proof.
  intros S g id HS. destruct (remove_single g id) as [g' [n|]] eqn:R; cbn [fst].
  - destruct (remove_single_some _ _ _ _ R) as [_ [c [k [_ E]]]]. split.
    + intros a b Hab Hb. apply (has_node_rs _ _ _ _ b R) in Hb. destruct Hb as [_ Hb].
      destruct (N.eq_dec a id) as [->|Ha]; [left; exact HS|]. right. subst g'. cbn [g_edges].
      apply filter_In. split; [exact Hab|]. cbn [fst snd].
      apply N.eqb_neq in Ha, Hb. rewrite Ha, Hb. reflexivity.
    + intros x Hx. apply (has_node_rs _ _ _ _ x R) in Hx. tauto.
  - apply remove_single_spec in R. destruct R as [-> _]. apply KeepG_refl.
Qed.

Lemma filter_length_le' {A} : forall (f : A -> bool) l, (length (filter f l) <= length l)%nat.
Proof. intros f l. induction l as [|y r IH]; cbn [filter length]; [lia|]. destruct (f y); cbn [length]; lia. Qed.

Lemma filter_length_lt {A} : forall (f : A -> bool) l x, In x l -> f x = false ->
  (length (filter f l) < length l)%nat.
Proof.
  intros f l x. induction l as [|y r IH]; intros Hin Hf; [destruct Hin|]. cbn [filter length].
  destruct Hin as [->|Hin].
  - rewrite Hf. pose proof (filter_length_le' f r). lia.
  - specialize (IH Hin Hf). destruct (f y); cbn [length]; lia.
Qed.

(* a subtree removal that does not panic removes the whole subtree *)
Lemma bfs_keep : forall S fuel g q acc g' rm, bfs fuel g q acc = (g', rm, false) ->
  (length (g_nodes g) < fuel)%nat ->
  (forall x, In x q -> has_node g' x = false) /\ KeepG S g g'.
Proof.
  intros S. induction fuel as [|f IH]; intros g q acc g' rm H Hf; [lia|]. cbn [bfs] in H.
  destruct q as [|r q].
  - inversion H; subst. split; [intros x [] | apply KeepG_refl].
  - destruct (remove_single g r) as [g1 [n|]] eqn:R; [|discriminate].
    destruct (remove_single_some _ _ _ _ R) as [Hg [c [k [_ E1]]]].
    destruct (reduce_up_core (fuel_up g1) g1 (parents g r) n) as [RC [RE _]].
    assert (Hlen : (length (g_nodes (reduce_up (fuel_up g1) g1 (parents g r) n)) < f)%nat).
    { assert (L : length (g_nodes (reduce_up (fuel_up g1) g1 (parents g r) n)) = length (g_nodes g1)).
      { rewrite <- (map_length ncore), <- (map_length ncore (g_nodes g1)). unfold core_nodes in RC. rewrite RC. reflexivity. }
      rewrite L. subst g1. cbn [g_nodes]. apply get_node_some in Hg. destruct Hg as [Hn Hid].
      pose proof (filter_length_lt (fun m => negb (n_id m =? r)) (g_nodes g) n Hn) as Hl.
      cbv beta in Hl. rewrite Hid, N.eqb_refl in Hl. specialize (Hl eq_refl). lia. }
    destruct (IH _ _ _ _ _ H Hlen) as [Q [KE KM]].
    assert (M1 : forall id, has_node g' id = true -> has_node g id = true /\ id <> r).
    { intros id Hid. apply KM in Hid. rewrite (has_node_core g1 _ id (eq_sym RC)) in Hid.
      apply (has_node_rs _ _ _ _ id R) in Hid. exact Hid. }
    assert (Hr : has_node g' r = false).
    { destruct (has_node g' r) eqn:Er; [|reflexivity]. apply M1 in Er. destruct Er as [_ Er]. contradiction. }
    split.
    + intros x [<-|Hx]; [exact Hr | apply Q; apply in_or_app; left; exact Hx].
    + split.
      * intros a b Hab Hb. destruct (N.eq_dec a r) as [->|Ha].
        { assert (Hc : has_node g' b = false) by (apply Q; apply in_or_app; right; apply children_In; exact Hab).
          congruence. }
        destruct (M1 b Hb) as [_ Hbr].
        apply KE; [|exact Hb]. rewrite RE. subst g1. cbn [g_edges]. apply filter_In. split; [exact Hab|].
        cbn [fst snd]. apply N.eqb_neq in Ha, Hbr. rewrite Ha, Hbr. reflexivity.
      * intros id Hid. apply M1 in Hid. tauto.
Qed.

Lemma remove_subtree_keep : forall S g root g' rm, remove_subtree g root = (g', rm, false) -> KeepG S g g'.
Proof.
  intros S g root g' rm H. unfold remove_subtree in H. destruct (has_node g root).
  - apply (bfs_keep S) in H; [tauto | lia].
  - inversion H; subst. apply KeepG_refl.
Qed.

(* ---- pool level: if the panic flag is false afterwards, it was false before and edges are kept ---- *)
Definition Keep (S : N -> Prop) (p p' : pool) : Prop :=
  p_panic p' = false -> p_panic p = false /\ KeepG S (p_g p) (p_g p').

Lemma Keep_refl : forall S p, Keep S p p.
Proof. intros S p H. split; [exact H | apply KeepG_refl]. Qed.

Lemma Keep_trans : forall S p p1 p2, Keep S p p1 -> Keep S p1 p2 -> Keep S p p2.
Proof.
  intros S p p1 p2 K1 K2 H. destruct (K2 H) as [H1 G2]. destruct (K1 H1) as [H0 G1].
  split; [exact H0 | eapply KeepG_trans; eassumption].
Qed.

Lemma Keep_same : forall S p q, p_g q = p_g p -> p_panic q = p_panic p -> Keep S p q.
Proof. intros S p q E1 E2 H. rewrite E1. split; [congruence | apply KeepG_refl]. Qed.

Lemma Keep_set_panic : forall S p b, Keep S p (set_panic p b).
Proof.
  intros S p b H. cbn [set_panic p_panic p_g] in *. apply orb_false_iff in H. split; [tauto | apply KeepG_refl].
Qed.

Lemma uor_panic_g : forall rm q, p_panic (update_on_removal q rm) = p_panic q /\ p_g (update_on_removal q rm) = p_g q.
Proof.
  intros rm q. destruct (update_on_removal_fields rm q) as [I1 [_ [_ [_ [_ [_ [_ [I8 _]]]]]]]]. cbv zeta in *.
  split; assumption.
Qed.

Lemma rsu_keep : forall S p root, Keep S p (fst (remove_subtree_and_update p root)).
Proof.
  intros S p root. unfold remove_subtree_and_update.
  destruct (remove_subtree (p_g p) root) as [[g rm] pan] eqn:E. cbn [fst]. intros H.
  destruct (uor_panic_g rm (with_g p g)) as [U1 U2].
  cbn [set_panic p_panic p_g] in *. rewrite U1 in H. rewrite U2. cbn [with_g p_panic p_g] in *.
  apply orb_false_iff in H. destruct H as [H1 H2]. subst pan. split; [exact H1|].
  eapply remove_subtree_keep. exact E.
Qed.

Lemma commit_stored_keep : forall (S : N -> Prop) p id tentative, S id -> Keep S p (fst (commit_stored p id tentative)).
Proof.
  intros S p id tentative HS. unfold commit_stored.
  pose proof (remove_single_keep S (p_g p) id HS) as K.
  destruct (remove_single (p_g (with_txmap p (adel N.eqb id (p_txmap p)))) id) as [g o] eqn:R.
  cbn [with_txmap p_g] in R. rewrite R in K. cbn [fst] in K. destruct o as [n|]; cbn [fst]; intros H.
  - match type of H with p_panic (update_on_removal ?q [n]) = _ => destruct (uor_panic_g [n] q) as [U1 U2] end.
    rewrite U1 in H. rewrite U2. cbn [with_spent with_eo with_g with_txmap p_panic p_g] in *.
    split; [exact H | exact K].
  - cbn [set_panic p_panic] in H. rewrite orb_true_r in H. discriminate.
Qed.

Lemma promote_keep : forall S ids p, Keep S p (promote p ids).
Proof.
  intros S. unfold promote. induction ids as [|d r IH]; intros p; cbn [fold_left]; [apply Keep_refl|].
  eapply Keep_trans; [|apply IH]. destruct (get_node (p_g p) d).
  - apply Keep_same; reflexivity.
  - apply Keep_set_panic.
Qed.

Lemma process_committed_keep : forall (S : N -> Prop) ids p, (forall id, In id ids -> S id) ->
  Keep S p (process_committed_transactions p ids).
Proof.
  intros S ids p HS. unfold process_committed_transactions.
  match goal with |- context [fold_left ?f ids (p, [])] => set (F := f) end.
  assert (G : forall ids acc, (forall id, In id ids -> S id) -> Keep S (fst acc) (fst (fold_left F ids acc))).
  { induction ids0 as [|id r IH]; intros [q prom] Hs; cbn [fold_left]; [apply Keep_refl|].
    eapply Keep_trans; [|apply IH; intros x Hx; apply Hs; right; exact Hx].
    unfold F at 1. cbn [fst].
    destruct (amem N.eqb id (p_txmap (with_spent q (spend_inputs_by_tx_id (p_spent q) id)))).
    - pose proof (commit_stored_keep S (with_spent q (spend_inputs_by_tx_id (p_spent q) id)) id false
                    (Hs id (or_introl eq_refl))) as Cm.
      destruct (commit_stored (with_spent q (spend_inputs_by_tx_id (p_spent q) id)) id false) as [p' pr].
      cbn [fst] in *. exact Cm.
    - cbn [fst]. apply Keep_same; reflexivity. }
  specialize (G ids (p, []) HS). destruct (fold_left F ids (p, [])) as [p1 prom]. cbn [fst] in G.
  eapply Keep_trans; [exact G|]. eapply Keep_trans; [apply promote_keep|]. apply Keep_same; reflexivity.
Qed.

Lemma preconf_committed_keep : forall (S : N -> Prop) p id, S id ->
  Keep S p (process_preconfirmed_committed_transaction p id).
Proof.
  intros S p id HS. unfold process_preconfirmed_committed_transaction.
  set (s0 := if amem N.eqb id (p_txmap p) then p_spent p else move_spender_to_tentative (p_spent p) id).
  set (p0 := with_spent p (spend_inputs_by_tx_id s0 id)).
  assert (K0 : Keep S p p0) by (apply Keep_same; reflexivity).
  destruct (amem N.eqb id (p_txmap p0)).
  - pose proof (commit_stored_keep S p0 id true HS) as Cm.
    destruct (commit_stored p0 id true) as [p1 pr]. cbn [fst] in Cm.
    eapply Keep_trans; [exact K0|]. eapply Keep_trans; [exact Cm|].
    eapply Keep_trans; [|apply Keep_same with (p := fold_left (fun p d => match get_node (p_g p) d with
                       | Some n => with_exec p (exec_insert (key_of n) (p_exec p))
                       | None => p end) pr p1); reflexivity].
    clear. revert p1. induction pr as [|d r IH]; intros p1; cbn [fold_left]; [apply Keep_refl|].
    eapply Keep_trans; [|apply IH]. destruct (get_node (p_g p1) d); [apply Keep_same; reflexivity | apply Keep_refl].
  - eapply Keep_trans; [exact K0 | apply Keep_same; reflexivity].
Qed.

Lemma rtd_keep : forall S ids p reason, Keep S p (remove_transactions_and_dependents p ids reason).
Proof.
  intros S ids p reason. unfold remove_transactions_and_dependents.
  match goal with |- context [fold_left ?f ids (p, [])] => set (F := f) end.
  assert (G : forall ids acc, Keep S (fst acc) (fst (fold_left F ids acc))).
  { induction ids0 as [|id r IH]; intros [q rem]; cbn [fold_left]; [apply Keep_refl|].
    eapply Keep_trans; [|apply IH]. unfold F at 1. cbn [fst].
    destruct (amem N.eqb id (p_txmap q)); [|apply Keep_refl].
    pose proof (rsu_keep S (with_txmap q (adel N.eqb id (p_txmap q))) id) as Cm.
    destruct (remove_subtree_and_update (with_txmap q (adel N.eqb id (p_txmap q))) id) as [p' r']. cbn [fst] in *.
    eapply Keep_trans; [|exact Cm]. apply Keep_same; reflexivity. }
  specialize (G ids (p, [])). destruct (fold_left F ids (p, [])) as [p1 removed]. cbn [fst] in G.
  eapply Keep_trans; [exact G | apply Keep_same; reflexivity].
Qed.

Lemma evict_keep : forall S p id reason, Keep S p (evict_coin_dependents p id reason).
Proof.
  intros S p id reason. unfold evict_coin_dependents.
  generalize (get_coins_spenders (p_cm p) id) as deps. intros deps. revert p.
  induction deps as [|d r IH]; intros p; cbn [fold_left]; [apply Keep_refl|].
  eapply Keep_trans; [|apply IH]. pose proof (rsu_keep S p d) as Cm.
  destruct (remove_subtree_and_update p d) as [p' rm]. cbn [fst] in Cm.
  eapply Keep_trans; [exact Cm | apply Keep_same; reflexivity].
Qed.

Lemma remove_skipped_keep : forall S p id, Keep S p (remove_skipped_transaction p id).
Proof.
  intros S p id. unfold remove_skipped_transaction.
  set (p0 := if amem N.eqb id (p_txmap p) then remove_transactions_and_dependents p [id] R_SKIPPED else p).
  set (p1 := with_spent (with_eo p0 (new_executed_transaction (p_eo p0) id)) (unspend_inputs (p_spent p0) id)).
  assert (K0 : Keep S p p0) by (unfold p0; destruct (amem N.eqb id (p_txmap p)); [apply rtd_keep | apply Keep_refl]).
  assert (K1 : Keep S p0 p1) by (apply Keep_same; reflexivity).
  eapply Keep_trans; [exact K0|]. eapply Keep_trans; [exact K1|].
  eapply Keep_trans; [apply evict_keep|]. apply Keep_same; reflexivity.
Qed.

Lemma rollback_keep : forall S p id, Keep S p (rollback_preconfirmed_transaction p id).
Proof.
  intros S p id. unfold rollback_preconfirmed_transaction.
  generalize (contracts_created_by (p_eo p) id) as created. intros created.
  assert (H2 : Keep S p (evict_coin_dependents
                 (with_spent (with_eo p (new_executed_transaction (p_eo p) id)) (unspend_preconfirmed (p_spent p) id))
                 id R_ROLLBACK)).
  { eapply Keep_trans; [|apply evict_keep]. apply Keep_same; reflexivity. }
  revert H2. generalize (evict_coin_dependents
                 (with_spent (with_eo p (new_executed_transaction (p_eo p) id)) (unspend_preconfirmed (p_spent p) id))
                 id R_ROLLBACK) as p2.
  intros p2 H2.
  match goal with |- Keep S p (update_stats ?q) => assert (K : Keep S p q) end.
  { revert p2 H2. induction created as [|cid r IH]; intros p2 H2; cbn [fold_left]; [exact H2|].
    apply IH. destruct (contract_created_in_pool (p_cm p2) cid); [exact H2|].
    generalize (get_contract_users (p_cm p2) cid) as users. intros users. revert p2 H2.
    induction users as [|u us IHu]; intros p2 H2; cbn [fold_left]; [exact H2|].
    apply IHu. destruct (aget N.eqb u (p_txmap p2)) as [sid|]; [|exact H2].
    pose proof (rsu_keep S p2 sid) as Cm.
    destruct (remove_subtree_and_update p2 sid) as [p' rm]. cbn [fst] in Cm.
    eapply Keep_trans; [exact H2|]. eapply Keep_trans; [exact Cm | apply Keep_same; reflexivity]. }
  eapply Keep_trans; [exact K | apply Keep_same; reflexivity].
Qed.

Lemma process_block_keep : forall (S : N -> Prop) w h ids, (forall id, In id ids -> S id) ->
  Keep S (w_pool w) (w_pool (process_block w h ids)).
Proof.
  intros S w h ids HS. unfold process_block.
  pose proof (process_committed_keep S ids (w_pool w) HS) as H1.
  set (p1 := process_committed_transactions (w_pool w) ids) in *.
  assert (H2 : Keep S (w_pool w) (with_eo p1 (fold_left new_executed_transaction ids (p_eo p1)))).
  { eapply Keep_trans; [exact H1 | apply Keep_same; reflexivity]. }
  revert H2. generalize (with_eo p1 (fold_left new_executed_transaction ids (p_eo p1))) as p2.
  generalize (w_tent w) at 2 as tent0.
  generalize (sortN (map fst (filter (fun e : N * list N => fst e <=? h) (w_tent w)))) as stale.
  induction stale as [|s r IH]; intros tent0 p2 H2; cbn [fold_left].
  - exact H2.
  - destruct (aget N.eqb s tent0) as [txs0|]; [|apply IH; exact H2].
    apply IH. generalize (sortN txs0) as l. intros l. revert p2 H2.
    induction l as [|id l IHl]; intros p2 H2; cbn [fold_left]; [exact H2|].
    apply IHl. eapply Keep_trans; [exact H2|].
    destruct (memN id ids); [apply Keep_same; reflexivity | apply rollback_keep].
Qed.

Definition preconf_incl (w : worker) (id : N) (kind : preconf_kind) (h : N) : list N :=
  match kind with PSqueezed => [] | _ => if h <=? w_height w then [] else [id] end.

Lemma preconf_tx_keep : forall w id kind h outs,
  Keep (fun x => In x (preconf_incl w id kind h)) (w_pool w)
       (w_pool (process_preconfirmed_transaction w id kind h outs)).
Proof.
  intros w id kind h outs. unfold process_preconfirmed_transaction, preconf_incl.
  destruct kind.
  - destruct (h <=? w_height w); [apply Keep_refl|].
    destruct outs; cbn [w_pool]; (eapply Keep_trans; [apply preconf_committed_keep; left; reflexivity|]);
      [apply Keep_same; reflexivity | apply Keep_refl].
  - destruct (h <=? w_height w); [apply Keep_refl|].
    destruct outs; cbn [w_pool]; (eapply Keep_trans; [apply preconf_committed_keep; left; reflexivity|]);
      [apply Keep_same; reflexivity | apply Keep_refl].
  - cbn [with_pool w_pool]. apply remove_skipped_keep.
Qed.

(* ---- extraction: no panic hypothesis is needed ---- *)
Lemma pass_result_mono : forall cs keys ps n, In n (ps_result ps) -> In n (ps_result (pass cs keys ps)).
Proof.
  intros cs keys ps n H. destruct (pass_rem cs keys ps) as [new [E _]]. rewrite E. apply in_or_app. left. exact H.
Qed.

Lemma pass_keep : forall (S : N -> Prop) cs keys ps,
  (forall n, In n (ps_result (pass cs keys ps)) -> S (n_id n)) ->
  KeepG S (ps_g ps) (ps_g (pass cs keys ps)).
Proof.
  intros S cs. induction keys as [|k r IH]; intros ps HS; cbn [pass] in *; [apply KeepG_refl|].
  destruct ((ps_nb ps =? 0) || (ps_gas ps =? 0) || (ps_space ps =? 0)); [apply KeepG_refl|].
  destruct (get_node (ps_g ps) (k_id k)) as [n|] eqn:E.
  - destruct (touches_excluded (k_excluded cs) (n_tx n)); [apply IH; exact HS|].
    destruct (t_price (n_tx n) <? k_min_price cs); [apply IH; exact HS|].
    destruct ((ps_gas ps <? t_gas (n_tx n)) || (ps_space ps <? t_size (n_tx n))); [apply IH; exact HS|].
    match type of HS with forall m, In m (ps_result (pass cs r ?q)) -> _ => set (q0 := q) in * end.
    assert (Sn : S (k_id k)).
    { apply get_node_some in E. destruct E as [_ E]. rewrite <- E. apply HS.
      apply pass_result_mono. unfold q0. cbn [ps_result]. apply in_or_app. right. left. reflexivity. }
    eapply KeepG_trans; [apply (remove_single_keep S (ps_g ps) (k_id k) Sn)|].
    apply (IH q0). exact HS.
  - match goal with |- KeepG S _ (ps_g (pass cs r ?q)) => exact (IH q HS) end.
Qed.

Lemma gather_loop_result_mono : forall cs fuel st n, In n (gs_result st) ->
  In n (gs_result (gather_loop fuel cs st)).
Proof.
  intros cs fuel st n H. destruct (gather_loop_rem cs fuel st) as [new [E _]]. rewrite E.
  apply in_or_app. left. exact H.
Qed.

Lemma gather_loop_keep : forall (S : N -> Prop) cs fuel st,
  (forall n, In n (gs_result (gather_loop fuel cs st)) -> S (n_id n)) ->
  KeepG S (gs_g st) (gs_g (gather_loop fuel cs st)).
Proof.
  intros S cs. induction fuel as [|f IH]; intros st; cbn [gather_loop]; [intros _; apply KeepG_refl|].
  destruct ((gs_gas st =? 0) || (gs_nb st =? 0) || (gs_space st =? 0)); [intros _; apply KeepG_refl|].
  destruct (gs_exec st) as [|k0 ks] eqn:Ex; [intros _; apply KeepG_refl|].
  match goal with |- context [pass cs (k0 :: ks) ?q] =>
    pose proof (pass_keep S cs (k0 :: ks) q) as PK;
    remember (pass cs (k0 :: ks) q) as pp eqn:Epp end.
  cbn [ps_g] in PK.
  destruct (ps_clean pp) eqn:Ec; [destruct (ps_promote pp) eqn:Ep|].
  - cbn [gs_g gs_result]. intros HS. apply PK. exact HS.
  - match goal with |- context [fold_left ?f ?l (?e, ps_panic pp)] => destruct (fold_left f l (e, ps_panic pp)) as [ex3 pan] end.
    match goal with |- context [gather_loop f cs ?q] => set (q1 := q) end.
    intros HS. eapply KeepG_trans; [apply PK | apply (IH q1); exact HS].
    intros m Hm. apply HS. apply gather_loop_result_mono. unfold q1. cbn [gs_result]. exact Hm.
  - match goal with |- context [fold_left ?f ?l (?e, ps_panic pp)] => destruct (fold_left f l (e, ps_panic pp)) as [ex3 pan] end.
    match goal with |- context [gather_loop f cs ?q] => set (q1 := q) end.
    intros HS. eapply KeepG_trans; [apply PK | apply (IH q1); exact HS].
    intros m Hm. apply HS. apply gather_loop_result_mono. unfold q1. cbn [gs_result]. exact Hm.
Qed.

Lemma extract_keep : forall p cs,
  KeepG (fun x => In x (map n_id (snd (extract_transactions_for_block p cs))))
        (p_g p) (p_g (fst (extract_transactions_for_block p cs))).
Proof.
  intros p cs. rewrite extract_graph, extract_result. unfold gather_best_txs.
  match goal with |- KeepG ?S0 _ (gs_g (gather_loop ?f cs ?q)) =>
    exact (gather_loop_keep S0 cs f q (fun n Hn => in_map n_id _ n Hn)) end.
Qed.

(* ---- insertion ---- *)
Lemma rsu_fold_keep : forall S roots p rem, Keep S p (fst (rsu_fold roots (p, rem))).
Proof.
  intros S. unfold rsu_fold. induction roots as [|root r IH]; intros p rem; cbn [fold_left]; [apply Keep_refl|].
  pose proof (rsu_keep S p root) as Cm.
  destruct (remove_subtree_and_update p root) as [p' rm]. cbn [fst] in Cm.
  eapply Keep_trans; [exact Cm | apply IH].
Qed.

Lemma do_insert_edgekeep : forall p d t ci, HInv p -> can_insert_transaction p d t = inl ci ->
  p_panic (do_insert p t ci) = false ->
  EdgeKeep (fun _ => False) (p_g p) (p_g (do_insert p t ci)).
Proof.
  intros p d t ci HI Hci Hp. pose proof (hi_graph p HI) as A. pose proof (hi_cover p HI) as B.
  destruct (can_insert_facts2 _ _ _ _ Hci) as [_ [Hfresh _]].
  unfold do_insert in *.
  fold (rsu_fold (ci_remove ci ++ ci_collisions ci) (p, [])) in *.
  pose proof (rsu_fold_keep (fun _ => False) (ci_remove ci ++ ci_collisions ci) p []) as K.
  destruct (rsu_fold (ci_remove ci ++ ci_collisions ci) (p, [])) as [p1 removed]. cbn [fst] in K.
  cbn [update_stats p_panic p_g] in *. destruct (K Hp) as [_ [KE KM]].
  intros a b Hab Hb. destruct (gi_edges _ _ A a b Hab) as [_ [Hb0 _]].
  assert (Hne : b <> t_id t). { intros ->. apply B in Hb0. congruence. }
  assert (Hb1 : has_node (p_g p1) b = true).
  { apply has_node_In. apply has_node_In in Hb. rewrite store_txs in Hb. unfold tids in *.
    rewrite map_app in Hb. apply in_app_or in Hb. cbn [map In] in Hb.
    destruct Hb as [Hb|[Hb|[]]]; [exact Hb | congruence]. }
  destruct (KE a b Hab Hb1) as [[]|Hin]. right.
  destruct (store_fields (p_g p1) t (ci_direct ci) (ci_all ci) (p_seq p1)) as [c [k [bump [_ [_ E]]]]].
  rewrite E. cbn [g_edges]. apply in_or_app. left. exact Hin.
Qed.

(* ---- one step of the worker ---- *)
Definition incl_ids (w : worker) (o : op) (res : opres) : list N :=
  match o with
  | OpExtract _ => match res with RExtract ns => map n_id ns | _ => [] end
  | OpBlock _ ids => ids
  | OpPreconf id kind h _ => preconf_incl w id kind h
  | _ => []
  end.

Lemma EdgeKeep_refl : forall S g, EdgeKeep S g g.
Proof. intros S g a b H _. right. exact H. Qed.

Lemma step_edgekeep : forall w o, HInv (w_pool w) -> p_panic (w_pool (fst (step w o))) = false ->
  EdgeKeep (fun x => In x (incl_ids w o (snd (step w o)))) (p_g (w_pool w)) (p_g (w_pool (fst (step w o)))).
Proof.
  intros w o HI Hp. destruct o; cbn [step] in *.
  - unfold worker_insert in *. destruct (pool_insert (w_pool w) (w_db w) t) as [p r] eqn:E.
    cbn [fst snd with_pool w_pool incl_ids] in *. unfold pool_insert in E.
    destruct (lru_mem (KTx (t_id t)) (s_lru (p_spent (w_pool w))) || memN (t_id t) (d_txs (w_db w)));
      [inversion E; subst; apply EdgeKeep_refl|].
    destruct (can_insert_transaction (w_pool w) (w_db w) t) as [ci|e] eqn:C; inversion E; subst; [|apply EdgeKeep_refl].
    intros a b Hab Hb. destruct (do_insert_edgekeep _ _ _ _ HI C Hp a b Hab Hb) as [[]|H]. right. exact H.
  - pose proof (extract_keep (w_pool w) cs) as K.
    destruct (extract_transactions_for_block (w_pool w) cs) as [p ns]. cbn [fst snd with_pool w_pool incl_ids] in *.
    exact (proj1 K).
  - cbn [fst snd incl_ids] in *.
    exact (proj1 (proj2 (process_block_keep (fun x => In x ids) w height ids (fun id H => H) Hp))).
  - cbn [fst snd incl_ids] in *. exact (proj1 (proj2 (preconf_tx_keep w id kind height outs Hp))).
  - cbn [fst snd with_pool w_pool incl_ids] in *.
    exact (proj1 (proj2 (rtd_keep (fun x => In x []) ids (w_pool w) R_TTL Hp))).
  - cbn [fst snd w_pool]. apply EdgeKeep_refl.
Qed.

Lemma step_cascade : forall w o, HInv (w_pool w) -> p_panic (w_pool (fst (step w o))) = false ->
  forall a b, In (a, b) (g_edges (p_g (w_pool w))) ->
    has_node (p_g (w_pool (fst (step w o)))) a = false ->
    ~ In a (incl_ids w o (snd (step w o))) ->
    has_node (p_g (w_pool (fst (step w o)))) b = false.
Proof.
  intros w o HI Hp a b Hab Ha Hinc.
  destruct (has_node (p_g (w_pool (fst (step w o)))) b) eqn:Hb; [|reflexivity].
  destruct (step_edgekeep w o HI Hp a b Hab Hb) as [H|H]; [contradiction|].
  pose proof (hi_graph _ (step_hinv w o HI)) as A. destruct (gi_edges _ _ A a b H) as [Ha' _]. congruence.
Qed.

Lemma model_trace_cascade : forall ops w, HInv (w_pool w) ->
  Forall (fun s => p_panic (w_pool (ts_post s)) = false -> cascadeb s = true) (model_trace w ops).
Proof.
  induction ops as [|o r IH]; intros w HI; cbn [model_trace]; [constructor|].
  pose proof (step_cascade w o HI) as SC. pose proof (step_hinv w o HI) as SH.
  destruct (step w o) as [w' res] eqn:E. cbn [fst snd] in SC, SH. constructor; [|apply IH; exact SH].
  cbn [ts_post]. intros Hp. apply cascadeb_spec. unfold pre_g, post_g, included.
  cbn [ts_pre ts_post ts_op ts_ids]. intros a b Hab Ha Hinc. apply (SC Hp a b Hab Ha).
  intros Hin. apply Hinc. destruct o; cbn [incl_ids] in Hin; cbn [step] in E; exact Hin.
Qed.

Theorem cascade_run : forall cfg d h ops,
  Forall (fun s => p_panic (w_pool (ts_post s)) = false -> cascadeb s = true)
         (model_trace (worker_new cfg d h) ops).
Proof. intros. apply model_trace_cascade. apply hinv_init. Qed.

(* non-vacuity: a dependency edge 1 -> 2 exists when transaction 1 expires; 2 leaves with it, the
   panic flag stays false *)
Example cascade_nontrivial :
  map (fun s => (g_edges (pre_g s), node_ids (post_g s), p_panic (w_pool (ts_post s)), cascadeb s))
      (model_trace (worker_new (mkCfg 4 100 100 3 true) ex_db 0) [OpInsert ex_t1; OpInsert ex_t2; OpExpire [1]])
  = [([], [1], false, true); ([], [1; 2], false, true); ([(1, 2)], [], false, true)].
Proof. vm_compute. reflexivity. Qed.

(* the subtree removal itself: when it does not panic, the root and every transitive dependent of
   a removed transaction are gone *)
Lemma remove_subtree_cascade : forall s g root g' rm, GraphInv s g ->
  remove_subtree g root = (g', rm, false) ->
  has_node g' root = false /\
  forall a b, In (a, b) (g_edges g) -> has_node g' a = false -> has_node g' b = false.
Proof.
  intros s g root g' rm HG H. split.
  - apply remove_subtree_rem in H. destruct H as [_ H]. apply has_node_false. exact H.
  - intros a b Hab Ha. destruct (has_node g' b) eqn:Hb; [|reflexivity].
    pose proof (remove_subtree_inv s g root HG) as HG'. rewrite H in HG'. cbn [fst] in HG'.
    destruct (remove_subtree_keep (fun _ => False) _ _ _ _ H) as [KE _].
    destruct (KE a b Hab Hb) as [[]|Hin]. destruct (gi_edges _ _ HG' a b Hin) as [Ha' _]. congruence.
Qed.
