(* What the removal functions of the graph storage do to the set of stored transactions. *)
From FC Require Import Pool.Model Pool.ProofsBase Pool.ProofsCore.
From Coq Require Import ZifyBool ZifyN ZifyNat.
Open Scope N_scope.

Definition Rem (g g' : graph) (rm : list node) : Prop :=
  txs g' = filter (fun x => negb (memN (t_id x) (map n_id rm))) (txs g) /\
  Forall (fun n => In (n_tx n) (txs g)) rm /\ NoDup (map n_id rm).

Lemma Rem_nil : forall g, Rem g g [].
Proof.
  intros g. unfold Rem. cbn [map]. repeat split.
  - rewrite filter_true; [reflexivity | intros; reflexivity].
  - constructor.
  - constructor.
Qed.

Lemma get_node_some : forall g id n, get_node g id = Some n -> In n (g_nodes g) /\ n_id n = id.
Proof.
  unfold get_node. intros g id n H. apply find_some in H. destruct H as [H1 H2].
  apply N.eqb_eq in H2. split; assumption.
Qed.

Lemma has_node_In : forall g id, has_node g id = true <-> In id (tids (txs g)).
Proof.
  intros g id. unfold has_node, txs, tids. rewrite map_map. split.
  - destruct (get_node g id) eqn:E; [|discriminate]. intros _.
    apply get_node_some in E. destruct E as [E1 E2]. apply in_map_iff. exists n. split; assumption.
  - intros H. apply in_map_iff in H. destruct H as [n [H1 H2]].
    unfold get_node. destruct (find (fun n0 => n_id n0 =? id) (g_nodes g)) eqn:E; [reflexivity|].
    exfalso. pose proof (find_none _ _ E n H2) as Hf. cbv beta in Hf. unfold n_id in Hf.
    rewrite H1, N.eqb_refl in Hf. discriminate.
Qed.

Lemma has_node_false : forall g id, has_node g id = false <-> ~ In id (tids (txs g)).
Proof.
  intros. rewrite <- has_node_In. destruct (has_node g id); split; intros; try congruence;
  try (exfalso; apply H; reflexivity).
Qed.

Lemma txs_filter_nodes : forall id l,
  map n_tx (filter (fun m => negb (n_id m =? id)) l) = filter (fun x => negb (t_id x =? id)) (map n_tx l).
Proof. intros. apply (map_filter_comm n_tx (fun x => negb (t_id x =? id))). Qed.

Lemma remove_single_spec : forall g id g' o, remove_single g id = (g', o) ->
  match o with
  | Some n => get_node g id = Some n /\ txs g' = filter (fun x => negb (t_id x =? id)) (txs g)
  | None => g' = g /\ get_node g id = None
  end.
Proof.
  unfold remove_single. intros g id g' o H. destruct (get_node g id) eqn:E.
  - destruct (clear_cache id (t_outs (n_tx n)) (g_coins g) (g_contracts g)) as [c k].
    inversion H; subst. split; [reflexivity|]. unfold txs. cbn [g_nodes]. apply txs_filter_nodes.
  - inversion H; subst. split; reflexivity.
Qed.

Lemma upd_node_txs : forall g id f, (forall n, n_tx (f n) = n_tx n) -> txs (upd_node g id f) = txs g.
Proof.
  intros g id f Hf. unfold txs, upd_node. cbn [g_nodes]. rewrite map_map. apply map_ext.
  intros n. destruct (n_id n =? id); [apply Hf | reflexivity].
Qed.

Lemma reduce_up_txs : forall fuel g work rem, txs (reduce_up fuel g work rem) = txs g.
Proof.
  induction fuel as [|f IH]; intros g work rem; cbn [reduce_up]; [reflexivity|].
  destruct work as [|id rest]; [reflexivity|].
  destruct (has_node g id).
  - rewrite IH. apply upd_node_txs. intros n. reflexivity.
  - apply IH.
Qed.

Lemma memN_cons : forall x a l, memN x (a :: l) = (x =? a) || memN x l.
Proof. intros. reflexivity. Qed.

Lemma Rem_step : forall g g1 g2 g' n rm,
  get_node g (n_id n) = Some n ->
  txs g1 = filter (fun x => negb (t_id x =? n_id n)) (txs g) ->
  txs g2 = txs g1 -> Rem g2 g' rm -> Rem g g' (n :: rm).
Proof.
  intros g g1 g2 g' n rm Hget H1 H2 [R1 [R2 R3]]. unfold Rem.
  assert (Hsub : forall x, In x (txs g2) -> In x (txs g) /\ t_id x <> n_id n).
  { intros x Hx. rewrite H2, H1 in Hx. apply filter_In in Hx. destruct Hx as [Hx Hne].
    apply negb_true_iff, N.eqb_neq in Hne. split; assumption. }
  repeat split.
  - rewrite R1, H2, H1, filter_filter. apply filter_ext. intros x. cbn [map].
    rewrite memN_cons, negb_orb. reflexivity.
  - constructor.
    + apply get_node_some in Hget. unfold txs. apply in_map. tauto.
    + rewrite Forall_forall in *. intros m Hm. apply Hsub. apply R2. exact Hm.
  - cbn [map]. constructor; [|exact R3].
    intros Hin. apply in_map_iff in Hin. destruct Hin as [m [Hm1 Hm2]].
    rewrite Forall_forall in R2. specialize (R2 m Hm2). apply Hsub in R2.
    unfold n_id in *. tauto.
Qed.

Lemma bfs_rem : forall fuel g q acc g' rm pan, bfs fuel g q acc = (g', rm, pan) ->
  exists rm2, rm = rev acc ++ rm2 /\ Rem g g' rm2.
Proof.
  induction fuel as [|f IH]; intros g q acc g' rm pan H; cbn [bfs] in H.
  - inversion H; subst. exists []. rewrite app_nil_r. split; [reflexivity | apply Rem_nil].
  - destruct q as [|r q].
    + inversion H; subst. exists []. rewrite app_nil_r. split; [reflexivity | apply Rem_nil].
    + destruct (remove_single g r) as [g1 o] eqn:E. pose proof (remove_single_spec _ _ _ _ E) as S.
      destruct o as [n|].
      * destruct S as [S1 S2]. apply IH in H. destruct H as [rm2 [H1 H2]].
        exists (n :: rm2). split.
        -- rewrite H1. cbn [rev]. rewrite <- app_assoc. reflexivity.
        -- pose proof (get_node_some _ _ _ S1) as [_ Hid]. subst r.
           eapply Rem_step; [exact S1 | exact S2 | apply reduce_up_txs | exact H2].
      * inversion H; subst. exists []. rewrite app_nil_r. split; [reflexivity | apply Rem_nil].
Qed.

Lemma remove_subtree_rem : forall g root g' rm pan, remove_subtree g root = (g', rm, pan) ->
  Rem g g' rm /\ ~ In root (tids (txs g')).
Proof.
  unfold remove_subtree. intros g root g' rm pan H. destruct (has_node g root) eqn:Hn.
  - cbn [bfs] in H. destruct (remove_single g root) as [g1 o] eqn:E.
    pose proof (remove_single_spec _ _ _ _ E) as S. destruct o as [n|].
    + destruct S as [S1 S2]. apply bfs_rem in H. destruct H as [rm2 [H1 H2]].
      cbn [rev app] in H1. subst rm.
      pose proof (get_node_some _ _ _ S1) as [_ Hid]. subst root.
      assert (R : Rem g g' (n :: rm2)).
      { eapply Rem_step; [exact S1 | exact S2 | apply reduce_up_txs | exact H2]. }
      split; [exact R|]. destruct R as [R1 _]. rewrite R1. unfold tids. intros Hin.
      apply in_map_iff in Hin. destruct Hin as [x [Hx1 Hx2]]. apply filter_In in Hx2.
      destruct Hx2 as [_ Hx2]. cbn [map] in Hx2. rewrite memN_cons, Hx1, N.eqb_refl in Hx2. discriminate.
    + destruct S as [_ S]. unfold has_node in Hn. rewrite S in Hn. discriminate.
  - inversion H; subst. split; [apply Rem_nil | apply has_node_false; exact Hn].
Qed.

(* ---- update_on_removal ---- *)
Definition core_of (p : pool) : core := (txs (p_g p), p_cm p, p_txmap p, p_gas p, p_bytes p).

Lemma update_on_removal_fields : forall removed p,
  let p' := update_on_removal p removed in
  p_g p' = p_g p /\ p_cfg p' = p_cfg p /\ p_eo p' = p_eo p /\ p_spent p' = p_spent p /\
  p_stats p' = p_stats p /\ p_seq p' = p_seq p /\ p_log p' = p_log p /\ p_panic p' = p_panic p /\
  p_cm p' = fold_left on_removed_cm (map n_tx removed) (p_cm p) /\
  p_txmap p' = fold_left (fun m t => adel N.eqb (t_id t) m) (map n_tx removed) (p_txmap p) /\
  p_gas p' = fold_left (fun g t => sat_sub g (t_gas t)) (map n_tx removed) (p_gas p) /\
  p_bytes p' = fold_left (fun b t => sat_sub b (t_size t)) (map n_tx removed) (p_bytes p).
Proof.
  unfold update_on_removal. induction removed as [|n r IH]; intros p; cbn [fold_left map].
  - repeat split; reflexivity.
  - match goal with |- context [fold_left ?f r ?q] => specialize (IH q) end.
    cbv zeta in IH. destruct IH as [I1 [I2 [I3 [I4 [I5 [I6 [I7 [I8 [I9 [I10 [I11 I12]]]]]]]]]]].
    cbv zeta. rewrite I1, I2, I3, I4, I5, I6, I7, I8, I9, I10, I11, I12.
    cbn [p_g p_cfg p_eo p_spent p_stats p_seq p_log p_panic p_cm p_txmap p_gas p_bytes].
    repeat split; reflexivity.
Qed.

(* a graph removal described by Rem, followed by update_on_removal of the removed nodes, is the
   abstract removal of those transactions *)
Lemma removal_core : forall p g' rm, Rem (p_g p) g' rm ->
  core_of (update_on_removal (with_g p g') rm) = rm_all (core_of p) (map n_tx rm).
Proof.
  intros p g' rm [R1 _]. unfold core_of.
  destruct (update_on_removal_fields rm (with_g p g')) as [I1 [_ [_ [_ [_ [_ [_ [_ [I9 [I10 [I11 I12]]]]]]]]]]].
  cbv zeta in *. rewrite I1, I9, I10, I11, I12. cbn [with_g p_g p_cm p_txmap p_gas p_bytes].
  rewrite rm_all_components. rewrite R1. unfold tids. rewrite map_map. reflexivity.
Qed.

Lemma Rem_side : forall g g' rm, Rem g g' rm ->
  NoDup (tids (map n_tx rm)) /\ (forall t, In t (map n_tx rm) -> In t (txs g)).
Proof.
  intros g g' rm [_ [R2 R3]]. split.
  - unfold tids. rewrite map_map. exact R3.
  - intros t Ht. apply in_map_iff in Ht. destruct Ht as [n [Hn1 Hn2]]. subst.
    rewrite Forall_forall in R2. apply R2. exact Hn2.
Qed.

Lemma removal_core_inv : forall p g' rm, Core (core_of p) -> Rem (p_g p) g' rm ->
  Core (core_of (update_on_removal (with_g p g') rm)).
Proof.
  intros p g' rm HC HR. rewrite (removal_core p g' rm HR).
  destruct (Rem_side _ _ _ HR) as [S1 S2].
  apply rm_all_inv; [exact HC | exact S1 | exact S2].
Qed.

Lemma core_of_set_panic : forall p b, core_of (set_panic p b) = core_of p.
Proof. reflexivity. Qed.
Lemma core_of_add_log : forall p l, core_of (add_log p l) = core_of p.
Proof. reflexivity. Qed.
Lemma core_of_with_eo : forall p e, core_of (with_eo p e) = core_of p.
Proof. reflexivity. Qed.
Lemma core_of_with_spent : forall p s, core_of (with_spent p s) = core_of p.
Proof. reflexivity. Qed.
Lemma core_of_with_exec : forall p x, core_of (with_exec p x) = core_of p.
Proof. reflexivity. Qed.
Lemma core_of_update_stats : forall p, core_of (update_stats p) = core_of p.
Proof. reflexivity. Qed.

(* remove_subtree_and_update *)
Lemma rsu_core : forall p root p' rm, remove_subtree_and_update p root = (p', rm) ->
  Core (core_of p) ->
  Core (core_of p') /\ ~ In root (tids (txs (p_g p'))) /\
  (forall x, In x (txs (p_g p')) -> In x (txs (p_g p))) /\
  p_cfg p' = p_cfg p /\ p_eo p' = p_eo p /\ p_spent p' = p_spent p.
Proof.
  unfold remove_subtree_and_update. intros p root p' rm H HC.
  destruct (remove_subtree (p_g p) root) as [[g removed] pan] eqn:E.
  inversion H; subst. apply remove_subtree_rem in E. destruct E as [HR Hroot].
  destruct (update_on_removal_fields rm (with_g p g)) as [I1 [I2 [I3 [I4 _]]]]. cbv zeta in *.
  split; [| split; [| split; [| split; [| split]]]].
  - rewrite core_of_set_panic. apply removal_core_inv; assumption.
  - cbn [set_panic p_g]. rewrite I1. exact Hroot.
  - cbn [set_panic p_g]. rewrite I1. cbn [with_g p_g]. destruct HR as [R1 _]. rewrite R1.
    intros x Hx. apply filter_In in Hx. tauto.
  - cbn [set_panic p_cfg]. rewrite I2. reflexivity.
  - cbn [set_panic p_eo]. rewrite I3. reflexivity.
  - cbn [set_panic p_spent]. rewrite I4. reflexivity.
Qed.
