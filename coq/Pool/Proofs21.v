(* C21: for every operation, from every state: the transactions that leave the pool are exactly
   the included ones plus the ones reported as squeezed out, each once, never both. *)
From FC Require Import Pool.Model Pool.ProofsBase Pool.ProofsCore Pool.ProofsRemoval Pool.ProofsOps
  Pool.ProofsInsert Pool.Proofs18 Pool.Proofs19 Pool.Proofs20.
From Coq Require Import ZifyBool ZifyN ZifyNat Permutation.
Open Scope N_scope.

Definition sq_ids (evs : list event) : list N :=
  flat_map (fun e => match e with EvSqueezed b => map snd b | _ => [] end) evs.

(* [inc]: nodes that left because they were included (extracted / committed);
   [rep]: nodes that left and were reported as squeezed out *)
Definition Leaves (p p' : pool) (inc rep : list node) : Prop :=
  Rem (p_g p) (p_g p') (inc ++ rep) /\
  exists evs, p_log p' = p_log p ++ evs /\ sq_ids evs = map n_id rep.

Lemma memN_perm : forall a b x, Permutation a b -> memN x a = memN x b.
Proof.
  intros a b x H. destruct (memN x a) eqn:E1, (memN x b) eqn:E2; try reflexivity.
  - apply memN_In in E1. apply memN_false in E2. exfalso. apply E2. eapply Permutation_in; eassumption.
  - apply memN_In in E2. apply memN_false in E1. exfalso. apply E1.
    eapply Permutation_in; [apply Permutation_sym|]; eassumption.
Qed.

Lemma Rem_perm : forall g g' a b, Permutation a b -> Rem g g' a -> Rem g g' b.
Proof.
  intros g g' a b HP [R1 [R2 R3]]. unfold Rem. repeat split.
  - rewrite R1. apply filter_ext. intros x. f_equal. apply memN_perm. apply Permutation_map. exact HP.
  - eapply Permutation_Forall; eassumption.
  - eapply Permutation_NoDup; [apply Permutation_map; exact HP | exact R3].
Qed.

Lemma sq_ids_app : forall a b, sq_ids (a ++ b) = sq_ids a ++ sq_ids b.
Proof. intros. unfold sq_ids. apply flat_map_app. Qed.

Lemma Leaves_refl : forall p, Leaves p p [] [].
Proof.
  intros p. split; [apply Rem_nil|]. exists []. rewrite app_nil_r. split; reflexivity.
Qed.

Lemma Leaves_trans : forall p p1 p2 i1 r1 i2 r2,
  Leaves p p1 i1 r1 -> Leaves p1 p2 i2 r2 -> Leaves p p2 (i1 ++ i2) (r1 ++ r2).
Proof.
  intros p p1 p2 i1 r1 i2 r2 [A1 [e1 [A2 A3]]] [B1 [e2 [B2 B3]]]. split.
  - eapply Rem_perm; [| eapply Rem_app; eassumption].
    rewrite <- !app_assoc. apply Permutation_app_head. rewrite !app_assoc. apply Permutation_app_tail.
    apply Permutation_app_comm.
  - exists (e1 ++ e2). split.
    + rewrite B2, A2, app_assoc. reflexivity.
    + rewrite sq_ids_app, A3, B3, map_app. reflexivity.
Qed.

Lemma sq_ids_squeezed_event : forall reason rm, sq_ids (squeezed_event reason rm) = map n_id rm.
Proof. intros. apply squeezed_event_ids. Qed.

(* a subtree removal followed by its report *)
Lemma rsu_leaves : forall p root p' rm reason, remove_subtree_and_update p root = (p', rm) ->
  Leaves p (add_log p' (squeezed_event reason rm)) [] rm.
Proof.
  intros p root p' rm reason R. destruct (rsu_frame _ _ _ _ R) as [R1 [_ [_ [R4 _]]]].
  split; [exact R1|]. exists (squeezed_event reason rm). cbn [add_log p_log]. rewrite R4.
  split; [reflexivity | apply sq_ids_squeezed_event].
Qed.

Lemma evict_leaves : forall p id reason, exists rep, Leaves p (evict_coin_dependents p id reason) [] rep.
Proof.
  intros p id reason. unfold evict_coin_dependents.
  generalize (get_coins_spenders (p_cm p) id) as deps. intros deps. revert p.
  induction deps as [|d r IH]; intros p; cbn [fold_left].
  - exists []. apply Leaves_refl.
  - destruct (remove_subtree_and_update p d) as [p' rm] eqn:R.
    destruct (IH (add_log p' (squeezed_event reason rm))) as [rep H].
    exists (rm ++ rep).
    exact (Leaves_trans p _ _ [] rm [] rep (rsu_leaves _ _ _ _ reason R) H).
Qed.

Lemma rtd_leaves : forall ids p reason, exists rep,
  Leaves p (remove_transactions_and_dependents p ids reason) [] rep.
Proof.
  intros ids p reason. destruct (rtd_reports ids p reason) as [removed [H1 H2]].
  exists removed. split; [exact H2|]. exists (squeezed_event reason removed).
  split; [exact H1 | apply sq_ids_squeezed_event].
Qed.

Lemma remove_skipped_leaves : forall p id, exists rep, Leaves p (remove_skipped_transaction p id) [] rep.
Proof.
  intros p id. unfold remove_skipped_transaction.
  set (p0 := if amem N.eqb id (p_txmap p) then remove_transactions_and_dependents p [id] R_SKIPPED else p).
  assert (H0 : exists rep, Leaves p p0 [] rep).
  { unfold p0. destruct (amem N.eqb id (p_txmap p)); [apply rtd_leaves | exists []; apply Leaves_refl]. }
  destruct H0 as [r0 H0].
  set (p1 := with_spent (with_eo p0 (new_executed_transaction (p_eo p0) id)) (unspend_inputs (p_spent p0) id)).
  destruct (evict_leaves p1 id R_PARENT_SKIPPED) as [r1 H1].
  exists (r0 ++ r1). exact (Leaves_trans p p0 _ [] r0 [] r1 H0 H1).
Qed.

Lemma rollback_leaves : forall p id, exists rep, Leaves p (rollback_preconfirmed_transaction p id) [] rep.
Proof.
  intros p id. unfold rollback_preconfirmed_transaction.
  generalize (contracts_created_by (p_eo p) id) as created. intros created.
  set (p1 := with_spent (with_eo p (new_executed_transaction (p_eo p) id)) (unspend_preconfirmed (p_spent p) id)).
  destruct (evict_leaves p1 id R_ROLLBACK) as [r1 H1].
  assert (G : forall created q r, Leaves p q [] r ->
    exists rep, Leaves p (fold_left (fun p cid =>
              if contract_created_in_pool (p_cm p) cid then p
              else fold_left (fun p user =>
                     match aget N.eqb user (p_txmap p) with
                     | None => p
                     | Some sid =>
                         let '(p', r) := remove_subtree_and_update p sid in
                         add_log p' (squeezed_event R_ROLLBACK r)
                     end) (get_contract_users (p_cm p) cid) p) created q) [] rep).
  { induction created0 as [|cid r IH]; intros q rq Hq; cbn [fold_left]; [exists rq; exact Hq|].
    destruct (contract_created_in_pool (p_cm q) cid); [eapply IH; exact Hq|].
    assert (U : forall users q r, Leaves p q [] r -> exists rep,
              Leaves p (fold_left (fun p user =>
                     match aget N.eqb user (p_txmap p) with
                     | None => p
                     | Some sid =>
                         let '(p', r) := remove_subtree_and_update p sid in
                         add_log p' (squeezed_event R_ROLLBACK r)
                     end) users q) [] rep).
    { induction users as [|u us IHu]; intros q' r' Hq'; cbn [fold_left]; [exists r'; exact Hq'|].
      destruct (aget N.eqb u (p_txmap q')) as [sid|]; [|eapply IHu; exact Hq'].
      destruct (remove_subtree_and_update q' sid) as [p' rm] eqn:R.
      eapply (IHu _ (r' ++ rm)).
      exact (Leaves_trans p q' _ [] r' [] rm Hq' (rsu_leaves _ _ _ _ R_ROLLBACK R)). }
    destruct (U (get_contract_users (p_cm q) cid) q rq Hq) as [rep' Hrep'].
    eapply IH. exact Hrep'. }
  destruct (G created (evict_coin_dependents p1 id R_ROLLBACK) r1 H1) as [rep Hrep].
  exists rep. exact Hrep.
Qed.

(* commits: the committed transaction leaves as "included" *)
Lemma commit_stored_leaves : forall p id tentative, exists inc,
  Leaves p (fst (commit_stored p id tentative)) inc [] /\ forall n, In n inc -> n_id n = id.
Proof.
  intros p id tentative. unfold commit_stored.
  destruct (remove_single (p_g (with_txmap p (adel N.eqb id (p_txmap p)))) id) as [g o] eqn:R.
  pose proof (remove_single_spec _ _ _ _ R) as S. cbn [with_txmap p_g] in S. destruct o as [n|]; cbn [fst].
  - destruct S as [S1 S2]. pose proof (get_node_some _ _ _ S1) as [_ Hid].
    exists [n]. split; [|intros m [E|[]]; rewrite <- E; exact Hid].
    match goal with |- Leaves p (update_on_removal ?q [n]) _ _ =>
      destruct (update_on_removal_fields [n] q) as [I1 [_ [_ [_ [_ [_ [I7 _]]]]]]] end.
    cbv zeta in I1, I7. split.
    + rewrite I1. cbn [with_spent with_eo with_g p_g app].
      eapply Rem_step with (g1 := g) (g2 := g); [rewrite Hid; exact S1 | rewrite Hid; exact S2 | reflexivity | apply Rem_nil].
    + exists []. rewrite I7, app_nil_r. split; reflexivity.
  - exists []. split; [|intros ? []]. exact (Leaves_refl p).
Qed.

Lemma promote_frame : forall ids p, p_g (promote p ids) = p_g p /\ p_log (promote p ids) = p_log p.
Proof.
  unfold promote. induction ids as [|d r IH]; intros p; cbn [fold_left]; [split; reflexivity|].
  destruct (IH (match get_node (p_g p) d with
                | Some n => with_exec p (exec_insert (key_of n) (p_exec p))
                | None => set_panic p true end)) as [I1 I2].
  rewrite I1, I2. destruct (get_node (p_g p) d); split; reflexivity.
Qed.

Lemma Leaves_frame : forall p p' q' inc rep, p_g q' = p_g p' -> p_log q' = p_log p' ->
  Leaves p p' inc rep -> Leaves p q' inc rep.
Proof. intros p p' q' inc rep Hg Hl [H1 H2]. split; [rewrite Hg; exact H1 | rewrite Hl; exact H2]. Qed.

Lemma process_committed_leaves : forall ids p, exists inc,
  Leaves p (process_committed_transactions p ids) inc [] /\ forall n, In n inc -> In (n_id n) ids.
Proof.
  intros ids p. unfold process_committed_transactions.
  match goal with |- context [fold_left ?f ids (p, [])] => set (F := f) end.
  assert (G : forall ids acc i0, Leaves p (fst acc) i0 [] ->
              exists inc, Leaves p (fst (fold_left F ids acc)) (i0 ++ inc) [] /\
                          forall n, In n inc -> In (n_id n) ids).
  { induction ids0 as [|id r IH]; intros [q prom] i0 Hq; cbn [fold_left fst] in *.
    - exists []. rewrite app_nil_r. split; [exact Hq | intros ? []].
    - set (q0 := with_spent q (spend_inputs_by_tx_id (p_spent q) id)).
      assert (Step : exists inc1, Leaves p (fst (F (q, prom) id)) (i0 ++ inc1) [] /\
                                  forall n, In n inc1 -> n_id n = id).
      { unfold F. fold q0. destruct (amem N.eqb id (p_txmap q0)).
        - destruct (commit_stored_leaves q0 id false) as [inc1 [C1 C2]].
          destruct (commit_stored q0 id false) as [p' pr]. cbn [fst] in *.
          exists inc1. split; [|exact C2].
          pose proof (Leaves_trans p q0 p' i0 [] inc1 [] Hq C1) as T. cbn [app] in T. exact T.
        - exists []. cbn [fst]. rewrite app_nil_r. split; [exact Hq | intros ? []]. }
      destruct Step as [inc1 [S1 S2]]. destruct (F (q, prom) id) as [q1 prom1]. cbn [fst] in S1.
      destruct (IH (q1, prom1) (i0 ++ inc1) S1) as [inc2 [I1 I2]]. exists (inc1 ++ inc2).
      rewrite app_assoc. split; [exact I1|]. intros n Hn. apply in_app_or in Hn.
      destruct Hn as [Hn|Hn]; [left; symmetry; apply S2; exact Hn | right; apply I2; exact Hn]. }
  destruct (G ids (p, []) [] (Leaves_refl p)) as [inc [G1 G2]].
  destruct (fold_left F ids (p, [])) as [p1 prom]. cbn [fst app] in *. exists inc. split; [|exact G2].
  destruct (promote_frame prom p1) as [P1 P2].
  eapply Leaves_frame; [| | exact G1]; unfold update_stats; cbn [p_g p_log]; assumption.
Qed.

Lemma preconf_committed_leaves : forall p id, exists inc,
  Leaves p (process_preconfirmed_committed_transaction p id) inc [] /\ forall n, In n inc -> n_id n = id.
Proof.
  intros p id. unfold process_preconfirmed_committed_transaction.
  set (s0 := if amem N.eqb id (p_txmap p) then p_spent p else move_spender_to_tentative (p_spent p) id).
  set (p0 := with_spent p (spend_inputs_by_tx_id s0 id)).
  destruct (amem N.eqb id (p_txmap p0)).
  - destruct (commit_stored_leaves p0 id true) as [inc [C1 C2]].
    destruct (commit_stored p0 id true) as [p1 pr]. cbn [fst] in C1. exists inc. split; [|exact C2].
    assert (G : forall pr q, p_g (fold_left (fun p d => match get_node (p_g p) d with
                       | Some n => with_exec p (exec_insert (key_of n) (p_exec p))
                       | None => p end) pr q) = p_g q /\
                     p_log (fold_left (fun p d => match get_node (p_g p) d with
                       | Some n => with_exec p (exec_insert (key_of n) (p_exec p))
                       | None => p end) pr q) = p_log q).
    { induction pr0 as [|d r IH]; intros q; cbn [fold_left]; [split; reflexivity|].
      destruct (IH (match get_node (p_g q) d with
                    | Some n => with_exec q (exec_insert (key_of n) (p_exec q)) | None => q end)) as [I1 I2].
      rewrite I1, I2. destruct (get_node (p_g q) d); split; reflexivity. }
    destruct (G pr p1) as [G1 G2].
    eapply Leaves_frame; [| | exact C1]; unfold update_stats; cbn [p_g p_log]; assumption.
  - exists []. split; [exact (Leaves_refl p) | intros ? []].
Qed.

(* extraction: the handed-out transactions leave as "included", nothing is reported *)
Lemma fold_uor_log : forall (F : pool -> node -> pool), (forall p n, p_log (F p n) = p_log p) ->
  forall rs p0, p_log (fold_left (fun p n => update_on_removal (F p n) [n]) rs p0) = p_log p0.
Proof.
  intros F HF. induction rs as [|n r IH]; intros p0; cbn [fold_left]; [reflexivity|].
  rewrite IH. destruct (update_on_removal_fields [n] (F p0 n)) as [_ [_ [_ [_ [_ [_ [I7 _]]]]]]].
  cbv zeta in I7. rewrite I7. apply HF.
Qed.

Lemma extract_leaves : forall p cs,
  Leaves p (fst (extract_transactions_for_block p cs)) (snd (extract_transactions_for_block p cs)) [].
Proof.
  intros p cs. split.
  - rewrite app_nil_r, extract_graph, extract_result. apply gather_rem.
  - exists []. rewrite app_nil_r. split; [|reflexivity].
    unfold extract_transactions_for_block. cbn [fst update_stats p_log].
    rewrite (fold_uor_log (fun p n => with_spent (with_eo p (new_extracted_transaction (p_eo p) (n_tx n)))
                                    (maybe_spend_inputs (p_spent p) (t_id (n_tx n)) (t_ins (n_tx n)))))
      by (intros; reflexivity).
    reflexivity.
Qed.

Lemma process_block_leaves : forall w h ids, exists inc rep,
  Leaves (w_pool w) (w_pool (process_block w h ids)) inc rep /\ forall n, In n inc -> In (n_id n) ids.
Proof.
  intros w h ids. unfold process_block.
  destruct (process_committed_leaves ids (w_pool w)) as [inc [P1 P2]].
  set (p1 := process_committed_transactions (w_pool w) ids) in *.
  assert (H2 : exists rep, Leaves (w_pool w) (with_eo p1 (fold_left new_executed_transaction ids (p_eo p1))) inc rep)
    by (exists []; exact P1).
  revert H2. generalize (with_eo p1 (fold_left new_executed_transaction ids (p_eo p1))) as p2.
  generalize (w_tent w) at 2 as tent0.
  generalize (sortN (map fst (filter (fun e : N * list N => fst e <=? h) (w_tent w)))) as stale.
  induction stale as [|s r IH]; intros tent0 p2 [rep H2]; cbn [fold_left].
  - exists inc, rep. cbn [w_pool]. split; [exact H2 | exact P2].
  - destruct (aget N.eqb s tent0) as [txs0|]; [|apply IH; exists rep; exact H2].
    apply IH. generalize (sortN txs0) as l. intros l. revert p2 rep H2.
    induction l as [|t l IHl]; intros p2 rep H2; cbn [fold_left]; [exists rep; exact H2|].
    destruct (memN t ids).
    + apply (IHl _ rep). exact H2.
    + destruct (rollback_leaves p2 t) as [r2 R2].
      apply (IHl _ (rep ++ r2)).
      pose proof (Leaves_trans _ _ _ inc rep [] r2 H2 R2) as T. rewrite app_nil_r in T. exact T.
Qed.

Lemma preconf_tx_leaves : forall w id kind h outs, exists inc rep,
  Leaves (w_pool w) (w_pool (process_preconfirmed_transaction w id kind h outs)) inc rep /\
  forall n, In n inc -> n_id n = id.
Proof.
  intros w id kind h outs. unfold process_preconfirmed_transaction.
  assert (Late : exists inc rep, Leaves (w_pool w) (w_pool w) inc rep /\ forall n, In n inc -> n_id n = id).
  { exists [], []. split; [apply Leaves_refl | intros ? []]. }
  assert (Commit : forall outs', exists inc rep,
            Leaves (w_pool w) (w_pool (match outs' with
               | None => mkWorker (process_preconfirmed_committed_transaction (w_pool w) id) (w_db w)
                                  (tent_add h id (w_tent w)) (w_height w)
               | Some os => mkWorker (with_eo (process_preconfirmed_committed_transaction (w_pool w) id)
                              (new_extracted_outputs (p_eo (process_preconfirmed_committed_transaction (w_pool w) id)) os))
                              (w_db w) (tent_add h id (w_tent w)) (w_height w) end)) inc rep /\
            forall n, In n inc -> n_id n = id).
  { intros outs'. destruct (preconf_committed_leaves (w_pool w) id) as [inc [C1 C2]].
    exists inc, []. destruct outs'; cbn [w_pool]; split; try exact C2; exact C1. }
  destruct kind.
  - destruct (h <=? w_height w); [exact Late | apply Commit].
  - destruct (h <=? w_height w); [exact Late | apply Commit].
  - destruct (remove_skipped_leaves (w_pool w) id) as [rep H]. exists [], rep. cbn [with_pool w_pool].
    split; [exact H | intros ? []].
Qed.

(* insertion: evicted transactions are reported in one squeezed-out call, after the submission *)
Lemma rsu_fold_leaves : forall roots p rem, exists more,
  snd (rsu_fold roots (p, rem)) = rem ++ more /\
  Rem (p_g p) (p_g (fst (rsu_fold roots (p, rem)))) more /\
  p_log (fst (rsu_fold roots (p, rem))) = p_log p.
Proof.
  unfold rsu_fold. induction roots as [|root r IH]; intros p rem; cbn [fold_left].
  - exists []. rewrite app_nil_r. split; [reflexivity|]. split; [apply Rem_nil | reflexivity].
  - destruct (remove_subtree_and_update p root) as [p' rm] eqn:R.
    destruct (rsu_frame _ _ _ _ R) as [R1 [_ [_ [R4 _]]]].
    destruct (IH p' (rem ++ rm)) as [more [M1 [M2 M3]]]. exists (rm ++ more).
    split; [rewrite M1, <- app_assoc; reflexivity|]. split; [eapply Rem_app; eassumption | congruence].
Qed.

Lemma do_insert_reports : forall p t ci, exists g1 rm,
  Rem (p_g p) g1 rm /\ txs (p_g (do_insert p t ci)) = txs g1 ++ [t] /\
  p_log (do_insert p t ci) = p_log p ++ EvSubmitted (t_id t) :: squeezed_event R_LESSWORTH rm.
Proof.
  intros p t ci. unfold do_insert.
  fold (rsu_fold (ci_remove ci ++ ci_collisions ci) (p, [])).
  destruct (rsu_fold_leaves (ci_remove ci ++ ci_collisions ci) p []) as [more [M1 [M2 M3]]].
  destruct (rsu_fold (ci_remove ci ++ ci_collisions ci) (p, [])) as [p1 removed]. cbn [fst snd app] in *.
  subst removed. exists (p_g p1), more. split; [exact M2|].
  unfold update_stats. cbn [p_g p_log]. rewrite store_txs, M3. split; reflexivity.
Qed.

Definition included_ids (o : op) (r : opres) : list N :=
  match o, r with
  | OpExtract _, RExtract ns => map n_id ns
  | OpBlock _ ids, _ => ids
  | OpPreconf id _ _ _, _ => [id]
  | _, _ => []
  end.

(* the statement for one step of the worker, from ANY state *)
Definition step_reports (w : worker) (o : op) : Prop :=
  let '(w', res) := step w o in
  match o, res with
  | OpInsert t, RInsert IOk =>
      exists g1 rm, Rem (p_g (w_pool w)) g1 rm /\ txs (p_g (w_pool w')) = txs g1 ++ [t] /\
        p_log (w_pool w') = p_log (w_pool w) ++ EvSubmitted (t_id t) :: squeezed_event R_LESSWORTH rm
  | OpInsert _, _ => w_pool w' = w_pool w
  | OpDbApply _, _ => w_pool w' = w_pool w
  | _, _ => exists inc rep, Leaves (w_pool w) (w_pool w') inc rep /\
                            forall n, In n inc -> In (n_id n) (included_ids o res)
  end.

Lemma step_reports_all : forall w o, step_reports w o.
Proof.
  intros w o. unfold step_reports. destruct o; cbn [step].
  - unfold worker_insert. destruct (pool_insert (w_pool w) (w_db w) t) as [p r] eqn:E.
    destruct r as [|e|b].
    + destruct (insert_accept_facts _ _ _ _ E) as [_ [ci [_ Hci]]]. subst p. cbn [with_pool w_pool].
      apply do_insert_reports.
    + cbn [with_pool w_pool]. eapply insert_error_unchanged; [exact E | discriminate].
    + cbn [with_pool w_pool]. eapply insert_error_unchanged; [exact E | discriminate].
  - pose proof (extract_leaves (w_pool w) cs) as H.
    destruct (extract_transactions_for_block (w_pool w) cs) as [p ns]. cbn [fst snd with_pool w_pool] in *.
    exists ns, []. split; [exact H|]. intros n Hn. cbn [included_ids]. apply in_map. exact Hn.
  - destruct (process_block_leaves w height ids) as [inc [rep [H1 H2]]]. exists inc, rep. split; [exact H1|].
    exact H2.
  - destruct (preconf_tx_leaves w id kind height outs) as [inc [rep [H1 H2]]]. exists inc, rep.
    split; [exact H1|]. intros n Hn. cbn [included_ids]. left. symmetry. apply H2. exact Hn.
  - destruct (rtd_leaves ids (w_pool w) R_TTL) as [rep H]. exists [], rep. cbn [with_pool w_pool].
    split; [exact H | intros ? []].
  - reflexivity.
Qed.

(* what [Leaves] means: a partition of the transactions that left, each reported at most once *)
Lemma Leaves_exactly_once_all : forall p p' inc rep, Leaves p p' inc rep ->
  NoDup (map n_id inc ++ map n_id rep) /\
  (exists evs, p_log p' = p_log p ++ evs /\ sq_ids evs = map n_id rep) /\
  forall x, In x (txs (p_g p)) ->
    (In x (txs (p_g p')) /\ ~ In (t_id x) (map n_id inc) /\ ~ In (t_id x) (map n_id rep)) \/
    (~ In x (txs (p_g p')) /\ (In (t_id x) (map n_id inc) \/ In (t_id x) (map n_id rep))).
Proof.
  intros p p' inc rep [HR HL]. destruct (Rem_exactly_once _ _ _ HR) as [E1 E2].
  rewrite map_app in E1. split; [exact E1|]. split; [exact HL|].
  intros x Hx. destruct (E2 x Hx) as [[A B]|[A B]]; rewrite map_app, in_app_iff in B.
  - left. split; [exact A|]. split; intros H; apply B; [left | right]; exact H.
  - right. split; [exact A | exact B].
Qed.
