(* C18 over histories: completeness of the executable list - every stored transaction without
   dependency in the pool has its key in the executable list ([EC]); kept by every operation. *)
From FC Require Import Pool.Model Pool.ProofsBase Pool.ProofsCore Pool.ProofsRemoval Pool.ProofsOps
  Pool.ProofsInsert Pool.ProofsCheck Pool.Proofs18 Pool.Proofs18b Pool.Proofs19 Pool.Proofs20 Pool.Proofs21
  Pool.ProofsHist1 Pool.ProofsHistC Pool.ProofsHist2 Pool.ProofsHist3 Pool.ProofsHist4 Pool.ProofsHist5.
From Coq Require Import ZifyBool ZifyN ZifyNat.
Open Scope N_scope.

(* [pend]: ids waiting for their promotion *)
Definition EC (g : graph) (ex : list ekey) (pend : list N) : Prop :=
  forall id, has_node g id = true -> parents g id = [] -> In id (map k_id ex) \/ In id pend.

Lemma key_same_id : forall a b, key_same a b = true -> k_id a = k_id b.
Proof.
  intros a b H. unfold key_same in H. apply andb_true_iff in H. destruct H as [H1 H2].
  apply negb_true_iff in H1, H2.
  assert (N1 : ~ KB a b) by (intros K; apply key_before_KB in K; congruence).
  assert (N2 : ~ KB b a) by (intros K; apply key_before_KB in K; congruence).
  unfold KB in N1, N2.
  set (x := k_num b * k_den a) in *. set (y := k_num a * k_den b) in *. lia.
Qed.

Lemma exec_remove_keeps_id : forall id k0 ex, In id (map k_id ex) -> id <> k_id k0 ->
  In id (map k_id (exec_remove k0 ex)).
Proof.
  intros id k0 ex H Hne. apply in_map_iff in H. destruct H as [k [E Hk]]. apply in_map_iff. exists k.
  split; [exact E|]. unfold exec_remove. apply filter_In. split; [exact Hk|]. apply negb_true_iff.
  destruct (key_same k k0) eqn:Ks; [|reflexivity]. apply key_same_id in Ks. congruence.
Qed.

Lemma fold_remove_nodes_keeps_id : forall (rm : list node) ex id, In id (map k_id ex) ->
  (forall n, In n rm -> id <> n_id n) ->
  In id (map k_id (fold_left (fun l n => exec_remove (key_of n) l) rm ex)).
Proof.
  induction rm as [|m r IH]; intros ex id H Hne; cbn [fold_left]; [exact H|].
  apply IH; [|intros n Hn; apply Hne; right; exact Hn].
  apply exec_remove_keeps_id; [exact H|]. unfold key_of, k_id. cbn [snd]. apply Hne. left. reflexivity.
Qed.

Lemma fold_remove_keys_keeps_id : forall (ks : list ekey) ex id, In id (map k_id ex) ->
  (forall k0, In k0 ks -> id <> k_id k0) ->
  In id (map k_id (fold_left (fun l k0 => exec_remove k0 l) ks ex)).
Proof.
  induction ks as [|m r IH]; intros ex id H Hne; cbn [fold_left]; [exact H|].
  apply IH; [|intros n Hn; apply Hne; right; exact Hn].
  apply exec_remove_keeps_id; [exact H | apply Hne; left; reflexivity].
Qed.

Lemma exec_insert_ids : forall k ex id, In id (map k_id ex) \/ id = k_id k -> In id (map k_id (exec_insert k ex)).
Proof.
  intros k ex id H. unfold exec_insert. destruct (N.eq_dec id (k_id k)) as [E|E].
  - apply in_map_iff. exists k. split; [symmetry; exact E | apply exec_place_In; left; reflexivity].
  - destruct H as [H|H]; [|contradiction]. pose proof (exec_remove_keeps_id id k ex H E) as H1.
    apply in_map_iff in H1. destruct H1 as [k1 [E1 H1]]. apply in_map_iff. exists k1. split; [exact E1|].
    apply exec_place_In. right. exact H1.
Qed.

Lemma k_id_key_of : forall n, k_id (key_of n) = n_id n.
Proof. intros n. reflexivity. Qed.

(* a node without parents after a removal had only removed parents before *)
Lemma KeepG_parentless : forall (S : N -> Prop) g g' id, KeepG S g g' -> has_node g' id = true ->
  parents g' id = [] -> forall a, In a (parents g id) -> S a.
Proof.
  intros S g g' id [KE _] Hh Hp a Ha. apply parents_In in Ha. destruct (KE a id Ha Hh) as [H|H]; [exact H|].
  apply parents_In in H. rewrite Hp in H. destruct H.
Qed.

Lemma parents_nil_or : forall g id, parents g id = [] \/ exists a, In a (parents g id).
Proof. intros g id. destruct (parents g id) as [|a l]; [left; reflexivity | right; exists a; left; reflexivity]. Qed.

(* ---- the invariants of the previous files for each pool function ---- *)
Lemma inv2_of : forall S p p', Inv2 p -> HInv p' -> PS S p p' -> Inv2 p'.
Proof. intros S p p' I2 H P. split; [exact H | exact (proj1 (ps_inv2 S p p' I2 P))]. Qed.

Lemma rsu_inv2 : forall p root, Inv2 p -> Inv2 (fst (remove_subtree_and_update p root)).
Proof. intros p root I2. eapply (inv2_of (fun _ => True)); [exact I2 | apply rsu_hinv; apply I2 | apply rsu_ps]. Qed.

Lemma commit_stored_inv2 : forall p id t, Inv2 p -> Inv2 (fst (commit_stored p id t)).
Proof.
  intros p id t I2. eapply (inv2_of (fun _ => True)); [exact I2 | apply commit_stored_hinv; apply I2|].
  apply commit_stored_ps. exact Logic.I.
Qed.

(* ---- removal of a subtree ---- *)
Lemma rsu_ec : forall s p root pend, GraphInv s (p_g p) -> DF (p_g p) -> EC (p_g p) (p_exec p) pend ->
  EC (p_g (fst (remove_subtree_and_update p root))) (p_exec (fst (remove_subtree_and_update p root))) pend.
Proof.
  intros s p root pend HG HD HE. unfold remove_subtree_and_update.
  pose proof (remove_subtree_nopanic s (p_g p) root HG HD) as NP.
  destruct (remove_subtree (p_g p) root) as [[g rm] pan] eqn:E. cbn [fst snd] in *. subst pan.
  destruct (uor_panic_g rm (with_g p g)) as [_ U2].
  cbn [set_panic p_g p_exec]. rewrite U2, uor_exec. cbn [with_g p_g p_exec].
  pose proof (remove_subtree_keep (fun _ => False) _ _ _ _ E) as K.
  destruct (remove_subtree_rem _ _ _ _ _ E) as [HR _].
  intros id Hh Hp.
  assert (Hp0 : parents (p_g p) id = []).
  { destruct (parents_nil_or (p_g p) id) as [H|[a Ha]]; [exact H|].
    destruct (KeepG_parentless _ _ _ _ K Hh Hp a Ha). }
  destruct (HE id (proj2 K id Hh) Hp0) as [H|H]; [left | right; exact H].
  apply fold_remove_nodes_keeps_id; [exact H|]. intros n Hn Eid.
  pose proof (Rem_gone _ _ _ _ HR Hn) as Hg. rewrite <- Eid in Hg. congruence.
Qed.

Lemma commit_stored_ec : forall p id tentative pend, EC (p_g p) (p_exec p) pend ->
  EC (p_g (fst (commit_stored p id tentative))) (p_exec (fst (commit_stored p id tentative)))
     (pend ++ snd (commit_stored p id tentative)).
Proof.
  intros p id tentative pend HE. unfold commit_stored.
  pose proof (remove_single_keep (fun x => x = id) (p_g p) id eq_refl) as K.
  destruct (remove_single (p_g (with_txmap p (adel N.eqb id (p_txmap p)))) id) as [g o] eqn:R.
  cbn [with_txmap p_g] in R. rewrite R in K. cbn [fst] in K. destruct o as [n|]; cbn [fst snd].
  - match goal with |- EC (p_g (update_on_removal ?q [n])) _ _ => destruct (uor_panic_g [n] q) as [_ U2];
      pose proof (uor_exec [n] q) as U3 end.
    cbn [with_spent with_eo with_g with_txmap p_g p_exec fold_left] in U2, U3. rewrite U2, U3.
    destruct (remove_single_spec _ _ _ _ R) as [S1 _]. pose proof (get_node_some _ _ _ S1) as [_ Hid].
    intros id0 Hh Hp.
    assert (Hne : id0 <> id) by (apply (has_node_rs _ _ _ _ id0 R) in Hh; tauto).
    destruct (parents_nil_or (p_g p) id0) as [Hp0|[a Ha]].
    + destruct (HE id0 (proj2 K id0 Hh) Hp0) as [H|H]; [left | right; apply in_or_app; left; exact H].
      apply exec_remove_keeps_id; [exact H|]. rewrite k_id_key_of, Hid. exact Hne.
    + right. apply in_or_app. right. apply filter_In. split.
      * pose proof (KeepG_parentless _ _ _ _ K Hh Hp a Ha) as Ea. cbv beta in Ea. subst a.
        apply children_In. apply parents_In. exact Ha.
      * apply negb_true_iff. unfold has_dependencies. rewrite Hp. reflexivity.
  - rewrite app_nil_r. apply remove_single_spec in R. destruct R as [-> _]. exact HE.
Qed.

Lemma promote_ec : forall ids p more, EC (p_g p) (p_exec p) (ids ++ more) ->
  EC (p_g (promote p ids)) (p_exec (promote p ids)) more.
Proof.
  unfold promote. induction ids as [|d r IH]; intros p more HE; cbn [fold_left]; [exact HE|].
  apply IH. destruct (get_node (p_g p) d) as [n|] eqn:E; cbn [with_exec set_panic p_g p_exec].
  - intros id Hh Hp. destruct (HE id Hh Hp) as [H|[H|H]].
    + left. apply exec_insert_ids. left. exact H.
    + left. apply exec_insert_ids. right. subst id. apply get_node_some in E. destruct E as [_ E]. symmetry. exact E.
    + right. exact H.
  - intros id Hh Hp. destruct (HE id Hh Hp) as [H|[H|H]]; [left; exact H | | right; exact H].
    subst id. unfold has_node in Hh. rewrite E in Hh. discriminate.
Qed.

Lemma process_committed_ec : forall ids p, EC (p_g p) (p_exec p) [] ->
  EC (p_g (process_committed_transactions p ids)) (p_exec (process_committed_transactions p ids)) [].
Proof.
  intros ids p HE. unfold process_committed_transactions.
  match goal with |- context [fold_left ?f ids (p, [])] => set (F := f) end.
  assert (G : forall ids acc, EC (p_g (fst acc)) (p_exec (fst acc)) (snd acc) ->
              EC (p_g (fst (fold_left F ids acc))) (p_exec (fst (fold_left F ids acc))) (snd (fold_left F ids acc))).
  { induction ids0 as [|id r IH]; intros [q prom] Hq; cbn [fold_left]; [exact Hq|].
    apply IH. unfold F at 1 2 3. cbn [fst snd] in Hq.
    destruct (amem N.eqb id (p_txmap (with_spent q (spend_inputs_by_tx_id (p_spent q) id)))).
    - pose proof (commit_stored_ec (with_spent q (spend_inputs_by_tx_id (p_spent q) id)) id false prom Hq) as Cm.
      destruct (commit_stored (with_spent q (spend_inputs_by_tx_id (p_spent q) id)) id false) as [p' pr].
      cbn [fst snd] in *. exact Cm.
    - cbn [fst snd]. exact Hq. }
  specialize (G ids (p, []) HE). destruct (fold_left F ids (p, [])) as [p1 prom]. cbn [fst snd] in G.
  cbn [update_stats p_g p_exec]. apply promote_ec. rewrite app_nil_r. exact G.
Qed.

Lemma preconf_committed_ec : forall p id, EC (p_g p) (p_exec p) [] ->
  EC (p_g (process_preconfirmed_committed_transaction p id)) (p_exec (process_preconfirmed_committed_transaction p id)) [].
Proof.
  intros p id HE. unfold process_preconfirmed_committed_transaction.
  set (s0 := if amem N.eqb id (p_txmap p) then p_spent p else move_spender_to_tentative (p_spent p) id).
  set (p0 := with_spent p (spend_inputs_by_tx_id s0 id)).
  assert (H0 : EC (p_g p0) (p_exec p0) []) by exact HE.
  destruct (amem N.eqb id (p_txmap p0)); [|exact H0].
  pose proof (commit_stored_ec p0 id true [] H0) as Cm.
  destruct (commit_stored p0 id true) as [p1 pr]. cbn [fst snd app] in Cm. cbn [update_stats p_g p_exec].
  assert (G : forall pr p1 more, EC (p_g p1) (p_exec p1) (pr ++ more) ->
    let q := fold_left (fun p d => match get_node (p_g p) d with
                       | Some n => with_exec p (exec_insert (key_of n) (p_exec p))
                       | None => p end) pr p1 in EC (p_g q) (p_exec q) more).
  { clear. induction pr as [|d r IH]; intros p1 more HE; cbn [fold_left]; [exact HE|].
    apply IH. destruct (get_node (p_g p1) d) as [n|] eqn:E; cbn [with_exec p_g p_exec].
    - intros id Hh Hp. destruct (HE id Hh Hp) as [H|[H|H]].
      + left. apply exec_insert_ids. left. exact H.
      + left. apply exec_insert_ids. right. subst id. apply get_node_some in E. destruct E as [_ E]. symmetry. exact E.
      + right. exact H.
    - intros id Hh Hp. destruct (HE id Hh Hp) as [H|[H|H]]; [left; exact H | | right; exact H].
      subst id. unfold has_node in Hh. rewrite E in Hh. discriminate. }
  apply (G pr p1 []). rewrite app_nil_r. exact Cm.
Qed.

(* ---- the combined invariant ---- *)
Definition J (p : pool) : Prop := Inv2 p /\ EC (p_g p) (p_exec p) [].

Lemma J_frame : forall p q, p_cfg q = p_cfg p -> p_g q = p_g p -> p_seq q = p_seq p ->
  p_txmap q = p_txmap p -> p_exec q = p_exec p -> J p -> J q.
Proof.
  intros p q E0 E1 E2 E3 E4 [[HI HD] HE]. split; [split|].
  - apply (HInv_frame p); assumption.
  - rewrite E1. exact HD.
  - rewrite E1, E4. exact HE.
Qed.

Lemma rsu_j_gen : forall q root, GraphInv (p_seq q) (p_g q) -> ExecOk (p_exec q) ->
  Chain (N.max 1 (cfg_max_chain (p_cfg q))) (p_g q) ->
  (forall id, has_node (p_g q) id = true -> id = root \/ amem N.eqb id (p_txmap q) = true) ->
  DF (p_g q) -> EC (p_g q) (p_exec q) [] ->
  J (fst (remove_subtree_and_update q root)).
Proof.
  intros q root HG HX HCh HC HD HE.
  pose proof (rsu_ec (p_seq q) q root [] HG HD HE) as EC'.
  destruct (remove_subtree_and_update q root) as [q' rm] eqn:R. cbn [fst] in *.
  split; [split|exact EC'].
  - eapply rsu_hinv_gen; eassumption.
  - destruct (rsu_graph _ _ _ _ R) as [pan [RS _]]. apply remove_subtree_desc in RS.
    eapply DF_sub; [apply RS | exact HD].
Qed.

Lemma rsu_j : forall p root, J p -> J (fst (remove_subtree_and_update p root)).
Proof.
  intros p root [[HI HD] HE]. apply rsu_j_gen; try assumption.
  - apply (hi_graph p HI).
  - apply (hi_exec p HI).
  - apply (hi_chain p HI).
  - intros id Hid. right. apply (hi_cover p HI). exact Hid.
Qed.

Lemma rtd_j : forall ids p reason, J p -> J (remove_transactions_and_dependents p ids reason).
Proof.
  intros ids p reason HJ. unfold remove_transactions_and_dependents.
  match goal with |- context [fold_left ?f ids (p, [])] => set (F := f) end.
  assert (G : forall ids acc, J (fst acc) -> J (fst (fold_left F ids acc))).
  { induction ids0 as [|id r IH]; intros [q rem] Hq; cbn [fold_left]; [exact Hq|].
    apply IH. unfold F at 1. cbn [fst] in Hq. destruct (amem N.eqb id (p_txmap q)); [|exact Hq].
    destruct Hq as [[HI HD] HE].
    pose proof (rsu_j_gen (with_txmap q (adel N.eqb id (p_txmap q))) id) as Cm.
    cbn [with_txmap p_g p_seq p_exec p_cfg p_txmap] in Cm.
    destruct (remove_subtree_and_update (with_txmap q (adel N.eqb id (p_txmap q))) id) as [p' r']. cbn [fst] in *.
    apply Cm; try assumption; [apply (hi_graph q HI) | apply (hi_exec q HI) | apply (hi_chain q HI) |].
    intros x Hx. destruct (N.eq_dec x id) as [E|E]; [left; exact E|].
    right. rewrite amem_adel_other by exact E. apply (hi_cover q HI). exact Hx. }
  specialize (G ids (p, []) HJ). destruct (fold_left F ids (p, [])) as [p1 removed]. cbn [fst] in G.
  apply (J_frame p1); [reflexivity..|exact G].
Qed.

Lemma evict_j : forall p id reason, J p -> J (evict_coin_dependents p id reason).
Proof.
  intros p id reason HJ. unfold evict_coin_dependents.
  generalize (get_coins_spenders (p_cm p) id) as deps. intros deps. revert p HJ.
  induction deps as [|d r IH]; intros p HJ; cbn [fold_left]; [exact HJ|].
  apply IH. pose proof (rsu_j p d HJ) as Cm.
  destruct (remove_subtree_and_update p d) as [p' rm]. cbn [fst] in Cm.
  apply (J_frame p'); [reflexivity..|exact Cm].
Qed.

Lemma remove_skipped_j : forall p id, J p -> J (remove_skipped_transaction p id).
Proof.
  intros p id HJ. unfold remove_skipped_transaction.
  set (p0 := if amem N.eqb id (p_txmap p) then remove_transactions_and_dependents p [id] R_SKIPPED else p).
  assert (H0 : J p0) by (unfold p0; destruct (amem N.eqb id (p_txmap p)); [apply rtd_j; exact HJ | exact HJ]).
  match goal with |- J (update_stats ?q) => apply (J_frame q); [reflexivity..|] end.
  apply evict_j. apply (J_frame p0); [reflexivity..|exact H0].
Qed.

Lemma rollback_j : forall p id, J p -> J (rollback_preconfirmed_transaction p id).
Proof.
  intros p id HJ. unfold rollback_preconfirmed_transaction.
  match goal with |- J (update_stats ?q) => apply (J_frame q); [reflexivity..|] end.
  generalize (contracts_created_by (p_eo p) id) as created. intros created.
  assert (H2 : J (evict_coin_dependents
                 (with_spent (with_eo p (new_executed_transaction (p_eo p) id)) (unspend_preconfirmed (p_spent p) id))
                 id R_ROLLBACK)).
  { apply evict_j. apply (J_frame p); [reflexivity..|exact HJ]. }
  revert H2. generalize (evict_coin_dependents
                 (with_spent (with_eo p (new_executed_transaction (p_eo p) id)) (unspend_preconfirmed (p_spent p) id))
                 id R_ROLLBACK) as p2.
  induction created as [|cid r IH]; intros p2 H2; cbn [fold_left]; [exact H2|].
  apply IH. destruct (contract_created_in_pool (p_cm p2) cid); [exact H2|].
  generalize (get_contract_users (p_cm p2) cid) as users. intros users. revert p2 H2.
  induction users as [|u us IHu]; intros p2 H2; cbn [fold_left]; [exact H2|].
  apply IHu. destruct (aget N.eqb u (p_txmap p2)) as [sid|]; [|exact H2].
  pose proof (rsu_j p2 sid H2) as Cm.
  destruct (remove_subtree_and_update p2 sid) as [p' rm]. cbn [fst] in Cm.
  apply (J_frame p'); [reflexivity..|exact Cm].
Qed.

Lemma process_committed_j : forall ids p, J p -> J (process_committed_transactions p ids).
Proof.
  intros ids p [I2 HE]. split.
  - eapply (inv2_of (fun _ => True)); [exact I2 | apply process_committed_hinv; apply I2|].
    apply process_committed_ps. intros; exact Logic.I.
  - apply process_committed_ec. exact HE.
Qed.

Lemma preconf_committed_j : forall p id, J p -> J (process_preconfirmed_committed_transaction p id).
Proof.
  intros p id [I2 HE]. split.
  - eapply (inv2_of (fun _ => True)); [exact I2 | apply preconf_committed_hinv; apply I2|].
    apply preconf_committed_ps. exact Logic.I.
  - apply preconf_committed_ec. exact HE.
Qed.

Lemma process_block_j : forall w h ids, J (w_pool w) -> J (w_pool (process_block w h ids)).
Proof.
  intros w h ids HI. unfold process_block.
  pose proof (process_committed_j ids (w_pool w) HI) as H1.
  set (p1 := process_committed_transactions (w_pool w) ids) in *.
  assert (H2 : J (with_eo p1 (fold_left new_executed_transaction ids (p_eo p1)))) by (apply (J_frame p1); [reflexivity..|exact H1]).
  revert H2. generalize (with_eo p1 (fold_left new_executed_transaction ids (p_eo p1))) as p2.
  generalize (w_tent w) at 2 as tent0.
  generalize (sortN (map fst (filter (fun e : N * list N => fst e <=? h) (w_tent w)))) as stale.
  induction stale as [|s r IH]; intros tent0 p2 H2; cbn [fold_left].
  - exact H2.
  - destruct (aget N.eqb s tent0) as [txs0|]; [|apply IH; exact H2].
    apply IH. generalize (sortN txs0) as l. intros l. revert p2 H2.
    induction l as [|id l IHl]; intros p2 H2; cbn [fold_left]; [exact H2|].
    apply IHl. destruct (memN id ids); [apply (J_frame p2); [reflexivity..|exact H2] | apply rollback_j; exact H2].
Qed.

Lemma preconf_tx_j : forall w id kind h outs, J (w_pool w) ->
  J (w_pool (process_preconfirmed_transaction w id kind h outs)).
Proof.
  intros w id kind h outs HI. unfold process_preconfirmed_transaction.
  destruct kind.
  - destruct (h <=? w_height w); [exact HI|].
    destruct outs; cbn [w_pool]; [|apply preconf_committed_j; exact HI].
    match goal with |- J (with_eo ?q _) => apply (J_frame q); [reflexivity..|] end. apply preconf_committed_j. exact HI.
  - destruct (h <=? w_height w); [exact HI|].
    destruct outs; cbn [w_pool]; [|apply preconf_committed_j; exact HI].
    match goal with |- J (with_eo ?q _) => apply (J_frame q); [reflexivity..|] end. apply preconf_committed_j. exact HI.
  - cbn [with_pool w_pool]. apply remove_skipped_j. exact HI.
Qed.

(* ---- extraction ---- *)
Lemma pass_mono : forall cs keys ps id, has_node (ps_g (pass cs keys ps)) id = true -> has_node (ps_g ps) id = true.
Proof.
  intros cs keys ps id H. destruct (pass_rem cs keys ps) as [new [_ HR]]. eapply Rem_mono; eassumption.
Qed.

Lemma pass_promote_complete : forall gB cs keys ps,
  (forall id, has_node (ps_g ps) id = true -> parents (ps_g ps) id = [] ->
              parents gB id = [] \/ In id (ps_promote ps)) ->
  forall id, has_node (ps_g (pass cs keys ps)) id = true -> parents (ps_g (pass cs keys ps)) id = [] ->
             parents gB id = [] \/ In id (ps_promote (pass cs keys ps)).
Proof.
  intros gB cs. induction keys as [|k r IH]; intros ps HP; cbn [pass]; [exact HP|].
  destruct ((ps_nb ps =? 0) || (ps_gas ps =? 0) || (ps_space ps =? 0)); [exact HP|].
  destruct (get_node (ps_g ps) (k_id k)) as [n|] eqn:E.
  - destruct (touches_excluded (k_excluded cs) (n_tx n)); [apply IH; exact HP|].
    destruct (t_price (n_tx n) <? k_min_price cs); [apply IH; exact HP|].
    destruct ((ps_gas ps <? t_gas (n_tx n)) || (ps_space ps <? t_size (n_tx n))); [apply IH; exact HP|].
    apply IH. cbn [ps_g ps_promote].
    pose proof (remove_single_keep (fun x => x = k_id k) (ps_g ps) (k_id k) eq_refl) as K.
    intros id Hh Hp. destruct (parents_nil_or (ps_g ps) id) as [Hp0|[a Ha]].
    + destruct (HP id (proj2 K id Hh) Hp0) as [H|H]; [left; exact H | right; apply in_or_app; left; exact H].
    + right. apply in_or_app. right. apply filter_In. split.
      * pose proof (KeepG_parentless _ _ _ _ K Hh Hp a Ha) as Ea. cbv beta in Ea. subst a.
        apply children_In. apply parents_In. exact Ha.
      * apply negb_true_iff. unfold has_dependencies. rewrite Hp. reflexivity.
  - apply IH. cbn [ps_g ps_promote]. exact HP.
Qed.

Lemma pass_remove_gone : forall cs keys ps k0, In k0 (ps_remove (pass cs keys ps)) ->
  In k0 (ps_remove ps) \/ has_node (ps_g (pass cs keys ps)) (k_id k0) = false.
Proof.
  intros cs. induction keys as [|k r IH]; intros ps k0 H; cbn [pass] in *; [left; exact H|].
  destruct ((ps_nb ps =? 0) || (ps_gas ps =? 0) || (ps_space ps =? 0)); [left; exact H|].
  destruct (get_node (ps_g ps) (k_id k)) as [n|] eqn:E.
  - destruct (touches_excluded (k_excluded cs) (n_tx n)); [apply IH; exact H|].
    destruct (t_price (n_tx n) <? k_min_price cs); [apply IH; exact H|].
    destruct ((ps_gas ps <? t_gas (n_tx n)) || (ps_space ps <? t_size (n_tx n))); [apply IH; exact H|].
    apply IH in H. cbn [ps_remove] in H. exact H.
  - match type of H with In k0 (ps_remove (pass cs r ?q)) => pose proof (IH q k0 H) as H1;
      pose proof (pass_mono cs r q (k_id k0)) as HM end.
    cbn [ps_remove ps_g] in H1, HM. destruct H1 as [H1|H1]; [|right; exact H1].
    apply in_app_or in H1. destruct H1 as [H1|[<-|[]]]; [left; exact H1|]. right.
    apply Bool.not_true_is_false. intros Hx.
    apply HM in Hx. unfold has_node in Hx. rewrite E in Hx. discriminate.
Qed.

Lemma pass_clean_gone : forall cs keys ps k0, ps_clean ps = [] -> In k0 (ps_clean (pass cs keys ps)) ->
  has_node (ps_g (pass cs keys ps)) (k_id k0) = false.
Proof.
  intros cs keys ps k0 Hc H.
  destruct (pass_clean_sublist cs keys ps) as [sel [new1 [C1 [R1 [_ M]]]]].
  destruct (pass_rem cs keys ps) as [new2 [R2 HR]].
  assert (new1 = new2) by (rewrite R1 in R2; apply app_inv_head in R2; exact R2). subst new2.
  rewrite Hc in C1. cbn [app] in C1. rewrite C1 in H.
  assert (Hin : In (k_id k0) (map n_id new1)) by (rewrite <- M; apply in_map; exact H).
  apply in_map_iff in Hin. destruct Hin as [n [En Hn]]. rewrite <- En. eapply Rem_gone; eassumption.
Qed.

Lemma gather_promote_ec : forall g ds (acc : list ekey * bool) id,
  (In id (map k_id (fst acc)) \/ (In id ds /\ has_node g id = true)) ->
  In id (map k_id (fst (fold_left (fun acc d =>
               match get_node g d with
               | Some n => (exec_insert (key_of n) (fst acc), snd acc)
               | None => (fst acc, true)
               end) ds acc))).
Proof.
  intros g. induction ds as [|d r IH]; intros acc id H; cbn [fold_left].
  - destruct H as [H|[[] _]]. exact H.
  - apply IH. destruct H as [H|[[Hd|Hd] Hh]].
    + left. destruct (get_node g d); cbn [fst]; [apply exec_insert_ids; left; exact H | exact H].
    + subst d. left. unfold has_node in Hh. destruct (get_node g id) as [n|] eqn:E; [|discriminate]. cbn [fst].
      apply exec_insert_ids. right. apply get_node_some in E. destruct E as [_ E]. rewrite k_id_key_of. symmetry. exact E.
    + right. split; assumption.
Qed.

Lemma gather_iter_ec : forall cs exec ps0 ex2 pan,
  EC (ps_g ps0) exec [] -> ps_clean ps0 = [] -> ps_remove ps0 = [] -> ps_promote ps0 = [] ->
  (forall id, In id (map k_id exec) ->
      (forall k0, In k0 (ps_remove (pass cs exec ps0)) -> id <> k_id k0) ->
      (forall k0, In k0 (ps_clean (pass cs exec ps0)) -> id <> k_id k0) -> In id (map k_id ex2)) ->
  EC (ps_g (pass cs exec ps0))
     (fst (fold_left (fun acc d =>
               match get_node (ps_g (pass cs exec ps0)) d with
               | Some n => (exec_insert (key_of n) (fst acc), snd acc)
               | None => (fst acc, true)
               end) (ps_promote (pass cs exec ps0)) (ex2, pan))) [].
Proof.
  intros cs exec ps0 ex2 pan HE Hc Hr Hpm Hex id Hh Hp. left.
  apply gather_promote_ec. cbn [fst].
  destruct (pass_promote_complete (ps_g ps0) cs exec ps0) with (id := id) as [H|H].
  - intros x _ Hx. left. exact Hx.
  - exact Hh.
  - exact Hp.
  - left. destruct (HE id (pass_mono _ _ _ _ Hh) H) as [H1|[]]. apply Hex; [exact H1 | |].
    + intros k0 Hk0 Eid. destruct (pass_remove_gone cs exec ps0 k0 Hk0) as [H2|H2]; [rewrite Hr in H2; destruct H2|].
      rewrite <- Eid in H2. congruence.
    + intros k0 Hk0 Eid. pose proof (pass_clean_gone cs exec ps0 k0 Hc Hk0) as H2. rewrite <- Eid in H2. congruence.
  - right. split; [exact H | exact Hh].
Qed.

Lemma gather_loop_ec : forall cs fuel st, EC (gs_g st) (gs_exec st) [] ->
  EC (gs_g (gather_loop fuel cs st)) (gs_exec (gather_loop fuel cs st)) [].
Proof.
  intros cs. induction fuel as [|f IH]; intros st HE; cbn [gather_loop]; [exact HE|].
  destruct ((gs_gas st =? 0) || (gs_nb st =? 0) || (gs_space st =? 0)); [exact HE|].
  destruct (gs_exec st) as [|k0 ks] eqn:Ex; [rewrite Ex; exact HE|].
  match goal with |- context [pass cs (k0 :: ks) ?q] =>
    pose proof (fun ex2 pan => gather_iter_ec cs (k0 :: ks) q ex2 pan HE eq_refl eq_refl eq_refl) as GI;
    remember (pass cs (k0 :: ks) q) as pp eqn:Epp end.
  destruct (ps_clean pp) eqn:Ec; [destruct (ps_promote pp) eqn:Ep|].
  - cbn [gs_g gs_exec].
    match goal with |- EC _ ?ex1 [] => specialize (GI ex1 (ps_panic pp)) end. cbn [fold_left fst] in GI.
    apply GI. intros id Hin Hr _. apply fold_remove_keys_keeps_id; assumption.
  - match goal with |- context [fold_left ?f ?l (?e, ps_panic pp)] =>
      specialize (GI e (ps_panic pp)); destruct (fold_left f l (e, ps_panic pp)) as [ex3 pan] eqn:EF end.
    apply IH. cbn [gs_g gs_exec]. cbn [fst] in GI. apply GI.
    intros id Hin Hr _. cbn [fold_left]. apply fold_remove_keys_keeps_id; assumption.
  - match goal with |- context [fold_left ?f ?l (?e0, ps_panic pp)] =>
      specialize (GI e0 (ps_panic pp)); destruct (fold_left f l (e0, ps_panic pp)) as [ex3 pan] eqn:EF end.
    apply IH. cbn [gs_g gs_exec]. cbn [fst] in GI. apply GI.
    intros id Hin Hr Hcl. apply fold_remove_keys_keeps_id; [|exact Hcl]. apply fold_remove_keys_keeps_id; assumption.
Qed.

Lemma extract_fold_ec : forall (F : pool -> node -> pool),
  (forall p n, p_g (F p n) = p_g p /\ p_exec (F p n) = p_exec p) ->
  forall rs p0, EC (p_g p0) (p_exec p0) [] -> (forall n, In n rs -> has_node (p_g p0) (n_id n) = false) ->
  EC (p_g (fold_left (fun p n => update_on_removal (F p n) [n]) rs p0))
     (p_exec (fold_left (fun p n => update_on_removal (F p n) [n]) rs p0)) [].
Proof.
  intros F HF. induction rs as [|n r IH]; intros p0 H0 Hg; cbn [fold_left]; [exact H0|].
  destruct (HF p0 n) as [F1 F2]. destruct (uor_panic_g [n] (F p0 n)) as [_ U2].
  pose proof (uor_exec [n] (F p0 n)) as U3. cbn [fold_left] in U3.
  apply IH.
  - rewrite U2, U3, F1, F2. intros id Hh Hp. destruct (H0 id Hh Hp) as [H|[]]. left.
    apply exec_remove_keeps_id; [exact H|]. rewrite k_id_key_of. intros Eid.
    pose proof (Hg n (or_introl eq_refl)) as Hn. rewrite <- Eid in Hn. congruence.
  - intros m Hm. rewrite U2, F1. apply Hg. right. exact Hm.
Qed.

Lemma extract_j : forall p cs, J p -> J (fst (extract_transactions_for_block p cs)).
Proof.
  intros p cs [I2 HE]. split.
  - eapply inv2_of; [exact I2 | apply extract_hinv; apply I2 | apply extract_ps].
  - unfold extract_transactions_for_block. cbn [fst update_stats p_g p_exec].
    pose proof (gather_rem cs (p_g p) (p_exec p)) as HR.
    apply (extract_fold_ec
             (fun p n => with_spent (with_eo p (new_extracted_transaction (p_eo p) (n_tx n)))
                                    (maybe_spend_inputs (p_spent p) (t_id (n_tx n)) (t_ins (n_tx n))))).
    + intros q n. split; reflexivity.
    + cbn [set_panic with_exec with_g p_g p_exec]. unfold gather_best_txs.
      match goal with |- EC (gs_g (gather_loop ?f cs ?q)) _ _ => apply (gather_loop_ec cs f q) end. exact HE.
    + intros n Hn. cbn [set_panic with_exec with_g p_g]. eapply Rem_gone; eassumption.
Qed.

(* ---- insertion ---- *)
Lemma rsu_fold_j : forall roots p rem, J p -> J (fst (rsu_fold roots (p, rem))).
Proof.
  unfold rsu_fold. induction roots as [|root r IH]; intros p rem HJ; cbn [fold_left]; [exact HJ|].
  pose proof (rsu_j p root HJ) as Cm.
  destruct (remove_subtree_and_update p root) as [p' rm]. cbn [fst] in Cm. apply IH. exact Cm.
Qed.

Lemma can_store_nodirect : forall g maxc t all, can_store g maxc t = Good ([], all) -> all = [].
Proof.
  intros g maxc t all H. unfold can_store in H.
  destruct (direct_deps g maxc (t_ins t) []) as [dd|]; [|discriminate].
  destruct (all_deps _ g maxc dd []) as [aa|] eqn:E; [|discriminate]. inversion H; subst.
  cbn [all_deps] in E. inversion E. reflexivity.
Qed.

Lemma do_insert_j : forall p d t ci, J p -> can_insert_transaction p d t = inl ci -> J (do_insert p t ci).
Proof.
  intros p d t ci HJ Hci. pose proof HJ as [[HI HD] HE]. split; [split|].
  - eapply do_insert_hinv; eassumption.
  - apply (proj1 (do_insert_inv2 p d t ci (conj HI HD) Hci)).
  - destruct (can_insert_facts2 _ _ _ _ Hci) as [_ [_ [Hcs _]]].
    pose proof (rsu_fold_j (ci_remove ci ++ ci_collisions ci) p [] HJ) as J1.
    unfold do_insert.
    fold (rsu_fold (ci_remove ci ++ ci_collisions ci) (p, [])).
    destruct (rsu_fold (ci_remove ci ++ ci_collisions ci) (p, [])) as [p1 removed]. cbn [fst] in J1.
    destruct J1 as [_ E1]. cbn [update_stats p_g p_exec].
    set (g' := store (p_g p1) t (ci_direct ci) (ci_all ci) (p_seq p1)).
    destruct (store_fields (p_g p1) t (ci_direct ci) (ci_all ci) (p_seq p1)) as [c [k [bump [_ [_ Eg]]]]].
    assert (Hsub : incl (g_edges (p_g p1)) (g_edges g')).
    { unfold g'. rewrite Eg. cbn [g_edges]. intros e He. apply in_or_app. left. exact He. }
    intros id Hh Hp. left.
    destruct (N.eq_dec id (t_id t)) as [Eid|Eid].
    + subst id. destruct (ci_all ci) as [|a0 al] eqn:Eall.
      * apply exec_insert_ids. right. reflexivity.
      * exfalso. destruct (ci_direct ci) as [|d0 dl] eqn:Edir.
        -- apply can_store_nodirect in Hcs. discriminate.
        -- assert (Hin : In (d0, t_id t) (g_edges g')).
           { unfold g'. rewrite Eg. cbn [g_edges]. apply in_or_app. right. cbn [map]. left. reflexivity. }
           apply parents_In in Hin. rewrite Hp in Hin. destruct Hin.
    + assert (Hh1 : has_node (p_g p1) id = true).
      { apply has_node_In. apply has_node_In in Hh. unfold g' in Hh. rewrite store_txs in Hh. unfold tids in *.
        rewrite map_app in Hh. apply in_app_or in Hh. cbn [map In] in Hh.
        destruct Hh as [Hh|[Hh|[]]]; [exact Hh | congruence]. }
      destruct (E1 id Hh1 (parents_nil_sub _ _ id Hsub Hp)) as [H|[]].
      destruct (ci_all ci); [apply exec_insert_ids; left; exact H | exact H].
Qed.

Lemma step_j : forall w o, J (w_pool w) -> J (w_pool (fst (step w o))).
Proof.
  intros w o HJ. destruct o; cbn [step].
  - unfold worker_insert. destruct (pool_insert (w_pool w) (w_db w) t) as [p r] eqn:E.
    cbn [fst with_pool w_pool]. unfold pool_insert in E.
    destruct (lru_mem (KTx (t_id t)) (s_lru (p_spent (w_pool w))) || memN (t_id t) (d_txs (w_db w)));
      [inversion E; subst; exact HJ|].
    destruct (can_insert_transaction (w_pool w) (w_db w) t) as [ci|e] eqn:C; inversion E; subst; [|exact HJ].
    eapply do_insert_j; eassumption.
  - pose proof (extract_j (w_pool w) cs HJ) as Cm.
    destruct (extract_transactions_for_block (w_pool w) cs) as [p ns]. exact Cm.
  - cbn [fst]. apply process_block_j. exact HJ.
  - cbn [fst]. apply preconf_tx_j. exact HJ.
  - cbn [fst with_pool w_pool]. apply rtd_j. exact HJ.
  - exact HJ.
Qed.

Lemma j_init : forall cfg, J (pool_new cfg).
Proof. intros cfg. split; [apply inv2_init|]. intros id H. discriminate. Qed.

Lemma run_j : forall ops w, J (w_pool w) -> Forall (fun wr => J (w_pool (fst wr))) (run w ops).
Proof.
  induction ops as [|o r IH]; intros w HI; cbn [run]; [constructor|].
  pose proof (step_j w o HI) as Cm. destruct (step w o) as [w' res]. cbn [fst] in Cm.
  constructor; [exact Cm | apply IH; exact Cm].
Qed.

Theorem exec_complete_run : forall cfg d h ops,
  Forall (fun wr => let p := w_pool (fst wr) in
            forall id, has_node (p_g p) id = true -> has_dependencies (p_g p) id = false ->
                       In id (map k_id (p_exec p)))
         (run (worker_new cfg d h) ops).
Proof.
  intros cfg d h ops. pose proof (run_j ops (worker_new cfg d h) (j_init cfg)) as H.
  rewrite Forall_forall in *. intros wr Hwr. cbv zeta. intros id Hh Hd. destruct (H wr Hwr) as [_ HE].
  destruct (HE id Hh (has_deps_false _ _ Hd)) as [H1|[]]. exact H1.
Qed.

(* non-vacuity: the child 2 enters the executable list when its parent 1 is committed by a block *)
Example exec_complete_nontrivial :
  map (fun wr => (node_ids (p_g (w_pool (fst wr))), map k_id (p_exec (w_pool (fst wr)))))
      (run (worker_new (mkCfg 4 100 100 3 true) ex_db 0) [OpInsert ex_t1; OpInsert ex_t2; OpBlock 1 [1]])
  = [([1], [1]); ([1; 2], [1]); ([2], [2])].
Proof. vm_compute. reflexivity. Qed.

(* ---- the checker inv_exec (clause 10 of pool_invb) holds in every reachable state ---- *)
Lemma inv_exec_of : forall p, HInv p -> EEp p -> EC (p_g p) (p_exec p) [] -> inv_exec (p_g p) (p_exec p) = true.
Proof.
  intros p HI HE HC. unfold inv_exec. apply andb_true_iff. split; [apply andb_true_iff; split|].
  - apply (proj1 (hi_exec p HI)).
  - apply forallb_forall. intros k Hk. destruct (HE k Hk) as [n [G [K P]]]. rewrite G.
    rewrite <- K, key_same_refl. unfold has_dependencies. rewrite P. reflexivity.
  - apply forallb_forall. intros n Hn. destruct (has_dependencies (p_g p) (n_id n)) eqn:Hd; [reflexivity|].
    cbn [orb]. apply memN_In.
    assert (Hh : has_node (p_g p) (n_id n) = true).
    { apply has_node_In. unfold tids, txs. rewrite map_map. apply in_map_iff. exists n. split; [reflexivity | exact Hn]. }
    destruct (HC (n_id n) Hh (has_deps_false _ _ Hd)) as [H|[]]. exact H.
Qed.

Theorem inv_exec_run : forall cfg d h ops,
  Forall (fun wr => inv_exec (p_g (w_pool (fst wr))) (p_exec (w_pool (fst wr))) = true)
         (run (worker_new cfg d h) ops).
Proof.
  intros cfg d h ops. pose proof (run_j ops (worker_new cfg d h) (j_init cfg)) as H1.
  pose proof (run_inv3 ops (worker_new cfg d h) (inv3_init cfg)) as H2.
  rewrite Forall_forall in *. intros wr Hwr. destruct (H1 wr Hwr) as [[HI _] HC]. destruct (H2 wr Hwr) as [_ HE].
  apply inv_exec_of; assumption.
Qed.
