(* C20 (reconciliation with blocks and preconfirmations), C21 (squeezed-out reports),
   C17 (admission bounds of the dependency graph). *)
From FC Require Import Pool.Model Pool.ProofsBase Pool.ProofsCore Pool.ProofsRemoval Pool.ProofsOps Pool.ProofsInsert.
From Coq Require Import ZifyBool ZifyN ZifyNat.
Open Scope N_scope.

(* ---- C20 ---- *)
Lemma late_preconf_noop_all : forall w id kind h outs, kind <> PSqueezed -> h <= w_height w ->
  process_preconfirmed_transaction w id kind h outs = w.
Proof.
  intros w id kind h outs Hk Hh. unfold process_preconfirmed_transaction.
  destruct kind; try congruence; destruct (h <=? w_height w) eqn:E; try reflexivity; lia.
Qed.

Definition Sub (p' p : pool) : Prop := forall x, In x (txs (p_g p')) -> In x (txs (p_g p)).

Lemma Sub_refl : forall p, Sub p p. Proof. intros p x H. exact H. Qed.
Lemma Sub_trans : forall a b c, Sub a b -> Sub b c -> Sub a c.
Proof. intros a b c H1 H2 x Hx. apply H2, H1. exact Hx. Qed.

Lemma rsu_frame : forall p root p' rm, remove_subtree_and_update p root = (p', rm) ->
  Rem (p_g p) (p_g p') rm /\ p_eo p' = p_eo p /\ p_spent p' = p_spent p /\ p_log p' = p_log p /\
  p_cfg p' = p_cfg p.
Proof.
  unfold remove_subtree_and_update. intros p root p' rm H.
  destruct (remove_subtree (p_g p) root) as [[g removed] pan] eqn:E. inversion H; subst.
  apply remove_subtree_rem in E. destruct E as [HR _].
  destruct (update_on_removal_fields rm (with_g p g)) as [I1 [I2 [I3 [I4 [_ [_ [I7 _]]]]]]]. cbv zeta in *.
  cbn [set_panic p_g p_eo p_spent p_log p_cfg]. rewrite I1, I2, I3, I4, I7. cbn [with_g p_g].
  repeat split; try reflexivity; apply HR.
Qed.

Lemma rsu_sub : forall p root, Sub (fst (remove_subtree_and_update p root)) p.
Proof.
  intros p root. destruct (remove_subtree_and_update p root) as [p' rm] eqn:R. cbn [fst].
  destruct (rsu_frame _ _ _ _ R) as [[R1 _] _]. intros x Hx. rewrite R1 in Hx. apply filter_In in Hx. tauto.
Qed.

Lemma evict_frame : forall p id reason,
  Sub (evict_coin_dependents p id reason) p /\
  p_eo (evict_coin_dependents p id reason) = p_eo p /\
  p_spent (evict_coin_dependents p id reason) = p_spent p.
Proof.
  intros p id reason. unfold evict_coin_dependents.
  generalize (get_coins_spenders (p_cm p) id) as deps. intros deps. revert p.
  induction deps as [|d r IH]; intros p; cbn [fold_left].
  - split; [apply Sub_refl | split; reflexivity].
  - destruct (remove_subtree_and_update p d) as [p' rm] eqn:R.
    destruct (rsu_frame _ _ _ _ R) as [_ [F1 [F2 _]]].
    pose proof (rsu_sub p d) as S. rewrite R in S. cbn [fst] in S.
    destruct (IH (add_log p' (squeezed_event reason rm))) as [I1 [I2 I3]].
    split; [|split].
    + eapply Sub_trans; [exact I1|]. exact S.
    + rewrite I2. cbn [add_log p_eo]. exact F1.
    + rewrite I3. cbn [add_log p_spent]. exact F2.
Qed.

Lemma rollback_frame : forall p id,
  let p' := rollback_preconfirmed_transaction p id in
  Sub p' p /\ p_eo p' = new_executed_transaction (p_eo p) id /\
  p_spent p' = unspend_preconfirmed (p_spent p) id.
Proof.
  intros p id. unfold rollback_preconfirmed_transaction. cbv zeta.
  generalize (contracts_created_by (p_eo p) id) as created. intros created.
  set (p1 := with_spent (with_eo p (new_executed_transaction (p_eo p) id)) (unspend_preconfirmed (p_spent p) id)).
  destruct (evict_frame p1 id R_ROLLBACK) as [E1 [E2 E3]].
  assert (G : forall created q, Sub q p /\ p_eo q = new_executed_transaction (p_eo p) id /\
                p_spent q = unspend_preconfirmed (p_spent p) id ->
    let q' := fold_left (fun p cid =>
              if contract_created_in_pool (p_cm p) cid then p
              else fold_left (fun p user =>
                     match aget N.eqb user (p_txmap p) with
                     | None => p
                     | Some sid =>
                         let '(p', r) := remove_subtree_and_update p sid in
                         add_log p' (squeezed_event R_ROLLBACK r)
                     end) (get_contract_users (p_cm p) cid) p) created q in
    Sub q' p /\ p_eo q' = new_executed_transaction (p_eo p) id /\
    p_spent q' = unspend_preconfirmed (p_spent p) id).
  { induction created0 as [|cid r IH]; intros q Hq; cbn [fold_left]; [exact Hq|].
    apply IH. destruct (contract_created_in_pool (p_cm q) cid); [exact Hq|].
    generalize (get_contract_users (p_cm q) cid) as users. intros users. revert q Hq.
    induction users as [|u us IHu]; intros q Hq; cbn [fold_left]; [exact Hq|].
    apply IHu. destruct (aget N.eqb u (p_txmap q)) as [sid|]; [|exact Hq].
    destruct (remove_subtree_and_update q sid) as [p' rm] eqn:R.
    destruct (rsu_frame _ _ _ _ R) as [_ [F1 [F2 _]]].
    pose proof (rsu_sub q sid) as S. rewrite R in S. cbn [fst] in S.
    destruct Hq as [Q1 [Q2 Q3]]. cbn [add_log p_g p_eo p_spent]. split; [|split].
    - eapply Sub_trans; eassumption.
    - rewrite F1. exact Q2.
    - rewrite F2. exact Q3. }
  specialize (G created (evict_coin_dependents p1 id R_ROLLBACK)).
  cbv zeta in G.
  assert (Pre : Sub (evict_coin_dependents p1 id R_ROLLBACK) p /\
                p_eo (evict_coin_dependents p1 id R_ROLLBACK) = new_executed_transaction (p_eo p) id /\
                p_spent (evict_coin_dependents p1 id R_ROLLBACK) = unspend_preconfirmed (p_spent p) id).
  { split; [|split].
    - eapply Sub_trans; [exact E1|]. intros x Hx. exact Hx.
    - rewrite E2. reflexivity.
    - rewrite E3. reflexivity. }
  destruct (G Pre) as [G1 [G2 G3]]. split; [exact G1 | split; [exact G2 | exact G3]].
Qed.

(* a rolled-back preconfirmation leaves no trace: its outputs are withdrawn, it is not recorded as
   spent, so it may be submitted again *)
Lemma adel_not_mem {V} : forall k (m : list (N * V)), amem N.eqb k (adel N.eqb k m) = false.
Proof. intros. unfold amem. rewrite (aget_adel_same N.eqb). reflexivity. Qed.

Lemma lru_pop_not_mem : forall k l, lru_mem k (lru_pop k l) = false.
Proof.
  intros k l. unfold lru_mem, lru_pop. induction l as [|x r IH]; cbn [filter existsb]; [reflexivity|].
  destruct (key_eqb x k) eqn:E; cbn [negb]; [exact IH|]. cbn [existsb]. rewrite IH.
  destruct (key_eqb k x) eqn:E2; [|reflexivity].
  exfalso. destruct k, x; cbn [key_eqb] in *; try discriminate.
  - rewrite N.eqb_sym in E2. congruence.
  - unfold utxo_eqb in *. rewrite (N.eqb_sym (fst u0)), (N.eqb_sym (snd u0)) in E. congruence.
  - rewrite N.eqb_sym in E2. congruence.
Qed.

Lemma lru_pop_mono : forall k k' l, lru_mem k l = false -> lru_mem k (lru_pop k' l) = false.
Proof.
  intros k k' l. unfold lru_mem, lru_pop. induction l as [|x r IH]; cbn [filter existsb]; [reflexivity|].
  intros H. apply orb_false_iff in H. destruct H as [H1 H2].
  destruct (negb (key_eqb x k')); [cbn [existsb]; rewrite H1, IH; [reflexivity | exact H2] | apply IH; exact H2].
Qed.

Lemma pops_mono : forall ks k l, lru_mem k l = false -> lru_mem k (pops ks l) = false.
Proof.
  unfold pops. induction ks as [|x r IH]; intros k l H; cbn [fold_left]; [exact H|].
  apply IH. apply lru_pop_mono. exact H.
Qed.

Lemma rollback_clears_all : forall p id,
  let p' := rollback_preconfirmed_transaction p id in
  amem N.eqb id (e_by_tx (p_eo p')) = false /\ amem N.eqb id (e_coins (p_eo p')) = false /\
  lru_mem (KTx id) (s_lru (p_spent p')) = false /\ amem N.eqb id (s_tentative (p_spent p')) = false.
Proof.
  intros p id. destruct (rollback_frame p id) as [_ [F1 F2]]. cbv zeta in *. rewrite F1, F2.
  unfold new_executed_transaction, unspend_preconfirmed. cbn [e_by_tx e_coins].
  split; [apply adel_not_mem|]. split; [apply adel_not_mem|].
  destruct (aget N.eqb id (s_tentative (p_spent p))) as [ks|] eqn:E; cbn [s_lru s_tentative].
  - split; [apply pops_mono, lru_pop_not_mem | apply adel_not_mem].
  - split; [apply lru_pop_not_mem|]. unfold amem. rewrite E. reflexivity.
Qed.

(* every transaction of an imported block leaves the pool *)
Lemma commit_stored_sub : forall p id tentative, Sub (fst (commit_stored p id tentative)) p.
Proof.
  intros p id tentative. unfold commit_stored.
  destruct (remove_single (p_g (with_txmap p (adel N.eqb id (p_txmap p)))) id) as [g o] eqn:R.
  pose proof (remove_single_spec _ _ _ _ R) as S. cbn [with_txmap p_g] in S. destruct o as [n|]; cbn [fst].
  - destruct S as [_ S2].
    destruct (update_on_removal_fields [n]
      (with_spent (with_eo (with_g (with_txmap p (adel N.eqb id (p_txmap p))) g)
         (new_extracted_transaction (p_eo (with_txmap p (adel N.eqb id (p_txmap p)))) (n_tx n)))
         (spend_inputs (if tentative then record_tentative_spend
              (p_spent (with_eo (with_g (with_txmap p (adel N.eqb id (p_txmap p))) g)
                 (new_extracted_transaction (p_eo (with_txmap p (adel N.eqb id (p_txmap p)))) (n_tx n)))) id (t_ins (n_tx n))
            else p_spent (with_eo (with_g (with_txmap p (adel N.eqb id (p_txmap p))) g)
                 (new_extracted_transaction (p_eo (with_txmap p (adel N.eqb id (p_txmap p)))) (n_tx n)))) id (t_ins (n_tx n)))))
      as [I1 _].
    cbv zeta in I1. intros x Hx. rewrite I1 in Hx. cbn [with_spent with_eo with_g p_g] in Hx.
    rewrite S2 in Hx. apply filter_In in Hx. tauto.
  - intros x Hx. exact Hx.
Qed.

Lemma commit_stored_removes : forall p id tentative,
  ~ In id (tids (txs (p_g (fst (commit_stored p id tentative))))) \/
  ~ In id (tids (txs (p_g p))).
Proof.
  intros p id tentative. unfold commit_stored.
  destruct (remove_single (p_g (with_txmap p (adel N.eqb id (p_txmap p)))) id) as [g o] eqn:R.
  pose proof (remove_single_spec _ _ _ _ R) as S. cbn [with_txmap p_g] in S. destruct o as [n|]; cbn [fst].
  - left. destruct S as [_ S2].
    match goal with |- context [update_on_removal ?q [n]] =>
      destruct (update_on_removal_fields [n] q) as [I1 _] end.
    cbv zeta in I1. rewrite I1. cbn [with_spent with_eo with_g p_g]. rewrite S2.
    intros Hin. apply In_tids_filter in Hin. tauto.
  - right. destruct S as [_ S]. apply has_node_false. unfold has_node. rewrite S. reflexivity.
Qed.

Lemma Sub_not_in : forall p' p id, Sub p' p -> ~ In id (tids (txs (p_g p))) -> ~ In id (tids (txs (p_g p'))).
Proof.
  intros p' p id HS Hn Hin. apply Hn. unfold tids in *. apply in_map_iff in Hin.
  destruct Hin as [x [H1 H2]]. apply in_map_iff. exists x. split; [exact H1 | apply HS; exact H2].
Qed.

Lemma process_committed_removes : forall ids p, Core (core_of p) ->
  Sub (process_committed_transactions p ids) p /\
  forall id, In id ids -> ~ In id (tids (txs (p_g (process_committed_transactions p ids)))).
Proof.
  intros ids p HC. unfold process_committed_transactions.
  match goal with |- context [fold_left ?f ids (p, [])] => set (F := f) end.
  assert (G : forall ids acc, Core (core_of (fst acc)) ->
              Core (core_of (fst (fold_left F ids acc))) /\ Sub (fst (fold_left F ids acc)) (fst acc) /\
              forall id, In id ids -> ~ In id (tids (txs (p_g (fst (fold_left F ids acc)))))).
  { induction ids0 as [|id r IH]; intros [q prom] Hq; cbn [fold_left].
    - split; [exact Hq|]. split; [apply Sub_refl | intros ? []].
    - cbn [fst] in Hq.
      set (q0 := with_spent q (spend_inputs_by_tx_id (p_spent q) id)).
      assert (Step : Core (core_of (fst (F (q, prom) id))) /\ Sub (fst (F (q, prom) id)) q /\
                     ~ In id (tids (txs (p_g (fst (F (q, prom) id)))))).
      { unfold F. fold q0. destruct (amem N.eqb id (p_txmap q0)) eqn:Em.
        - pose proof (commit_stored_core q0 id false) as C.
          pose proof (commit_stored_sub q0 id false) as S.
          pose proof (commit_stored_removes q0 id false) as Rm.
          destruct (commit_stored q0 id false) as [p' pr]. cbn [fst] in *.
          assert (Hin : In id (tids (txs (p_g q0)))) by (apply (Core_txmap_ids q0); assumption).
          split; [apply C; assumption|]. split; [exact S|]. destruct Rm as [Rm|Rm]; [exact Rm | contradiction].
        - cbn [fst]. split; [exact Hq|]. split; [intros x Hx; exact Hx|].
          intros Hin. apply (Core_txmap_ids q0 id Hq) in Hin. congruence. }
      destruct (F (q, prom) id) as [q1 prom1] eqn:EF. cbn [fst] in Step. destruct Step as [S1 [S2 S3]].
      destruct (IH (q1, prom1) S1) as [I1 [I2 I3]]. cbn [fst] in *.
      split; [exact I1|]. split; [eapply Sub_trans; eassumption|].
      intros x [E|Hx]; [subst x; eapply Sub_not_in; eassumption | apply I3; exact Hx]. }
  destruct (G ids (p, []) HC) as [G1 [G2 G3]]. destruct (fold_left F ids (p, [])) as [p1 prom]. cbn [fst] in *.
  assert (Eg : p_g (update_stats (promote p1 prom)) = p_g p1).
  { unfold update_stats. cbn [p_g]. clear. revert p1. unfold promote.
    induction prom as [|d r IH]; intros p1; cbn [fold_left]; [reflexivity|].
    rewrite IH. destruct (get_node (p_g p1) d); reflexivity. }
  unfold Sub. rewrite Eg. split; [exact G2 | exact G3].
Qed.

Lemma block_included_leave_all : forall w h ids id, CoreInv (w_pool w) -> In id ids ->
  ~ In id (tids (txs (p_g (w_pool (process_block w h ids))))).
Proof.
  intros w h ids id [HC _] Hin. unfold process_block.
  destruct (process_committed_removes ids (w_pool w) HC) as [_ P2].
  set (p1 := process_committed_transactions (w_pool w) ids) in *.
  assert (H2 : Sub (with_eo p1 (fold_left new_executed_transaction ids (p_eo p1))) p1) by (intros x Hx; exact Hx).
  revert H2. generalize (with_eo p1 (fold_left new_executed_transaction ids (p_eo p1))) as p2.
  generalize (w_tent w) at 2 as tent0.
  generalize (sortN (map fst (filter (fun e : N * list N => fst e <=? h) (w_tent w)))) as stale.
  assert (Fin : forall q, Sub q p1 -> ~ In id (tids (txs (p_g q)))).
  { intros q Hq. eapply Sub_not_in; [exact Hq | apply P2; exact Hin]. }
  induction stale as [|s r IH]; intros tent0 p2 H2; cbn [fold_left].
  - cbn [w_pool]. apply Fin. exact H2.
  - destruct (aget N.eqb s tent0) as [txs0|]; [|apply IH; exact H2].
    apply IH. generalize (sortN txs0) as l. intros l. revert p2 H2.
    induction l as [|t l IHl]; intros p2 H2; cbn [fold_left]; [exact H2|].
    apply IHl. destruct (memN t ids); [exact H2|].
    destruct (rollback_frame p2 t) as [R1 _]. cbv zeta in R1. eapply Sub_trans; eassumption.
Qed.

(* ---- C21: what remove_transactions_and_dependents (expiry, skipped transactions) reports ---- *)
Lemma rtd_reports : forall ids p reason,
  exists removed,
    p_log (remove_transactions_and_dependents p ids reason) = p_log p ++ squeezed_event reason removed /\
    Rem (p_g p) (p_g (remove_transactions_and_dependents p ids reason)) removed.
Proof.
  intros ids p reason. unfold remove_transactions_and_dependents.
  match goal with |- context [fold_left ?f ids (p, [])] => set (F := f) end.
  assert (G : forall ids q rem, exists more,
              snd (fold_left F ids (q, rem)) = rem ++ more /\
              Rem (p_g q) (p_g (fst (fold_left F ids (q, rem)))) more /\
              p_log (fst (fold_left F ids (q, rem))) = p_log q).
  { induction ids0 as [|id r IH]; intros q rem; cbn [fold_left].
    - exists []. rewrite app_nil_r. split; [reflexivity|]. split; [apply Rem_nil | reflexivity].
    - destruct (F (q, rem) id) as [q1 rem1] eqn:EF. unfold F in EF.
      destruct (amem N.eqb id (p_txmap q)).
      + destruct (remove_subtree_and_update (with_txmap q (adel N.eqb id (p_txmap q))) id) as [p' r'] eqn:R.
        inversion EF; subst q1 rem1.
        destruct (rsu_frame _ _ _ _ R) as [R1 [_ [_ [R4 _]]]]. cbn [with_txmap p_g p_log] in R1, R4.
        destruct (IH p' (rem ++ r')) as [more [M1 [M2 M3]]]. exists (r' ++ more).
        split; [rewrite M1, <- app_assoc; reflexivity|]. split; [eapply Rem_app; eassumption | congruence].
      + inversion EF; subst q1 rem1. apply IH. }
  destruct (G ids p []) as [more [M1 [M2 M3]]]. destruct (fold_left F ids (p, [])) as [p1 removed].
  cbn [fst snd app] in *. subst removed. exists more. unfold update_stats, add_log. cbn [p_log p_g].
  split; [rewrite M3; reflexivity | exact M2].
Qed.

(* the transactions leaving are exactly the reported ones, each once *)
Lemma Rem_exactly_once : forall g g' rm, Rem g g' rm ->
  NoDup (map n_id rm) /\
  forall x, In x (txs g) -> (In x (txs g') /\ ~ In (t_id x) (map n_id rm)) \/
                            (~ In x (txs g') /\ In (t_id x) (map n_id rm)).
Proof.
  intros g g' rm [R1 [_ R3]]. split; [exact R3|]. intros x Hx. rewrite R1.
  destruct (memN (t_id x) (map n_id rm)) eqn:E.
  - right. split; [| apply memN_In; exact E]. intros H. apply filter_In in H. rewrite E in H. destruct H. discriminate.
  - left. split; [apply filter_In; rewrite E; tauto | apply memN_false; exact E].
Qed.

Lemma squeezed_event_ids : forall reason removed,
  flat_map (fun e => match e with EvSqueezed b => map snd b | _ => [] end) (squeezed_event reason removed)
  = map n_id removed.
Proof.
  intros reason [|n r]; cbn [squeezed_event flat_map]; [reflexivity|].
  rewrite app_nil_r, map_map. reflexivity.
Qed.

(* ---- C17: what can_store_transaction guarantees ---- *)
Lemma all_deps_spec : forall fuel g maxc stack all res, all_deps fuel g maxc stack all = Good res ->
  NoDup all -> lenN all < maxc \/ all = [] ->
  NoDup res /\ (res = [] \/ lenN res < maxc) /\ (forall x, In x all -> In x res) /\
  (forall x, In x stack -> In x res) /\
  (forall x n, In x res -> ~ In x all -> get_node g x = Some n ->
               n_cnt n < maxc /\ is_blob (n_tx n) = false /\ forall y, In y (parents g x) -> In y res).
Proof.
  induction fuel as [|f IH]; intros g maxc stack all res H Hnd Hlen; cbn [all_deps] in H; [discriminate|].
  destruct stack as [|nid rest].
  - inversion H; subst. split; [exact Hnd|]. split; [destruct Hlen; [right; assumption | left; assumption]|].
    split; [tauto|]. split; [intros ? []|]. intros x n Hx Hn. contradiction.
  - destruct (memN nid all) eqn:Em; [discriminate|]. apply memN_false in Em.
    destruct (maxc <=? lenN (all ++ [nid])) eqn:El; [discriminate|].
    assert (Hnd' : NoDup (all ++ [nid])) by (apply NoDup_app_one; assumption).
    assert (Hlen' : lenN (all ++ [nid]) < maxc \/ all ++ [nid] = []) by (left; lia).
    destruct (get_node g nid) as [n|] eqn:En.
    + destruct (maxc <=? n_cnt n) eqn:Ec; [discriminate|].
      destruct (is_blob (n_tx n)) eqn:Eb; [discriminate|].
      destruct (IH _ _ _ _ _ H Hnd' Hlen') as [I1 [I2 [I3 [I4 I5]]]].
      split; [exact I1|]. split; [exact I2|]. split; [intros x Hx; apply I3, in_or_app; left; exact Hx|].
      split.
      * intros x [E|Hx]; [subst; apply I3, in_or_app; right; left; reflexivity | apply I4, in_or_app; right; exact Hx].
      * intros x m Hx Hn Hg. destruct (N.eq_dec x nid) as [E|E].
        -- subst x. rewrite En in Hg. inversion Hg; subst m. split; [lia|]. split; [exact Eb|].
           intros y Hy. apply I4, in_or_app. left. exact Hy.
        -- apply I5; [exact Hx | | exact Hg]. intros Hin. apply in_app_or in Hin.
           destruct Hin as [Hin|[Hin|[]]]; [contradiction | congruence].
    + destruct (IH _ _ _ _ _ H Hnd' Hlen') as [I1 [I2 [I3 [I4 I5]]]].
      split; [exact I1|]. split; [exact I2|]. split; [intros x Hx; apply I3, in_or_app; left; exact Hx|].
      split.
      * intros x [E|Hx]; [subst; apply I3, in_or_app; right; left; reflexivity | apply I4; exact Hx].
      * intros x m Hx Hn Hg. destruct (N.eq_dec x nid) as [E|E]; [subst; congruence|].
        apply I5; [exact Hx | | exact Hg]. intros Hin. apply in_app_or in Hin.
        destruct Hin as [Hin|[Hin|[]]]; [contradiction | congruence].
Qed.

Lemma can_store_bounds_all : forall g maxc t direct all, can_store g maxc t = Good (direct, all) ->
  NoDup all /\ (all = [] \/ lenN all < maxc) /\ (forall x, In x direct -> In x all) /\
  (forall x n, In x all -> get_node g x = Some n ->
               n_cnt n < maxc /\ is_blob (n_tx n) = false /\ forall y, In y (parents g x) -> In y all).
Proof.
  intros g maxc t direct all H. unfold can_store in H.
  destruct (direct_deps g maxc (t_ins t) []) as [dd|]; [|discriminate].
  destruct (all_deps _ g maxc dd []) as [aa|] eqn:E; [|discriminate]. inversion H; subst.
  destruct (all_deps_spec _ _ _ _ _ _ E (NoDup_nil _) (or_intror eq_refl)) as [I1 [I2 [_ [I4 I5]]]].
  split; [exact I1|]. split; [exact I2|]. split; [exact I4|].
  intros x n Hx Hg. eapply I5; [exact Hx | intros [] | exact Hg].
Qed.
