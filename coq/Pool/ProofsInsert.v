(* Insertion preserves the core invariant; worker-level operations; the run theorem (C16). *)
From FC Require Import Pool.Model Pool.ProofsBase Pool.ProofsCore Pool.ProofsRemoval Pool.ProofsOps.
From Coq Require Import ZifyBool ZifyN ZifyNat.
Open Scope N_scope.

(* ---- find_collisions finds every registered spender / creator / blob user ---- *)
Lemma addN_In : forall x y l, In x (addN y l) <-> In x l \/ x = y.
Proof.
  intros. unfold addN. destruct (memN y l) eqn:E.
  - apply memN_In in E. split; [tauto|]. intros [H|H]; [exact H | subst; exact E].
  - rewrite in_app_iff. cbn [In]. split; [intros [H|[H|[]]]; [tauto | right; congruence] | intros [H|H]; [tauto | right; left; congruence]].
Qed.

Lemma opt_add_mono : forall o l x, In x l -> In x (opt_add o l).
Proof. intros [y|] l x H; cbn [opt_add]; [apply addN_In; tauto | exact H]. Qed.

Lemma opt_add_found : forall i l, In i (opt_add (Some i) l).
Proof. intros. cbn [opt_add]. apply addN_In. tauto. Qed.

Lemma enum_from_In {A} : forall (l : list A) s x, In x l -> exists i, In (i, x) (enum_from s l).
Proof.
  induction l as [|y r IH]; intros s x H; [destruct H|]. cbn [enum_from]. destruct H as [H|H].
  - subst. exists s. left. reflexivity.
  - destruct (IH (s + 1) x H) as [i Hi]. exists i. right. exact Hi.
Qed.

Lemma fc_outputs_spec : forall c id outs acc r, fc_outputs c id outs acc = Good r ->
  (forall x, In x acc -> In x r) /\
  (forall i cid j, In (i, OCreated cid) outs -> aget N.eqb cid (c_creators c) = Some j -> In j r).
Proof.
  intros c id. induction outs as [|[i o] rest IH]; intros acc r H; cbn [fc_outputs] in H.
  - inversion H; subst. split; [tauto | intros ? ? ? []].
  - destruct o.
    + destruct (amem utxo_eqb (id, i) (c_coins c)); [discriminate|]. apply IH in H. destruct H as [H1 H2].
      split; [exact H1|]. intros i' cid j [E|Hin] Hg; [inversion E | eapply H2; eassumption].
    + destruct (amem utxo_eqb (id, i) (c_coins c)); [discriminate|]. apply IH in H. destruct H as [H1 H2].
      split; [exact H1|]. intros i' cid j [E|Hin] Hg; [inversion E | eapply H2; eassumption].
    + destruct (amem utxo_eqb (id, i) (c_coins c)); [discriminate|]. apply IH in H. destruct H as [H1 H2].
      split; [exact H1|]. intros i' cid j [E|Hin] Hg; [inversion E | eapply H2; eassumption].
    + apply IH in H. destruct H as [H1 H2].
      split; [exact H1|]. intros i' cid' j [E|Hin] Hg; [inversion E | eapply H2; eassumption].
    + apply IH in H. destruct H as [H1 H2]. split.
      * intros x Hx. apply H1. apply opt_add_mono. exact Hx.
      * intros i' cid' j [E|Hin] Hg; [| eapply H2; eassumption].
        inversion E; subst. apply H1. rewrite Hg. apply opt_add_found.
Qed.

Lemma fc_inputs_spec : forall c ins a0,
  let a1 := fold_left (fun acc i =>
              match i with
              | ICoin u _ _ _ => opt_add (aget utxo_eqb u (c_coins c)) acc
              | IMsg n _ => opt_add (aget N.eqb n (c_msgs c)) acc
              | IContract _ => acc
              end) ins a0 in
  (forall x, In x a0 -> In x a1) /\
  (forall u o a s j, In (ICoin u o a s) ins -> aget utxo_eqb u (c_coins c) = Some j -> In j a1) /\
  (forall n a j, In (IMsg n a) ins -> aget N.eqb n (c_msgs c) = Some j -> In j a1).
Proof.
  intros c. induction ins as [|i rest IH]; intros a0; cbn [fold_left].
  - split; [tauto|]. split; intros; contradiction.
  - match goal with |- context [fold_left ?f rest ?a] => destruct (IH a) as [H1 [H2 H3]] end.
    cbv zeta in *. split; [|split].
    + intros x Hx. apply H1. destruct i; [apply opt_add_mono | apply opt_add_mono |]; exact Hx.
    + intros u o a s j [E|Hin] Hg; [| eapply H2; eassumption].
      subst i. apply H1. rewrite Hg. apply opt_add_found.
    + intros n a j [E|Hin] Hg; [| eapply H3; eassumption].
      subst i. apply H1. rewrite Hg. apply opt_add_found.
Qed.

Lemma coin_inputs_In : forall t u, In u (coin_inputs t) -> exists o a s, In (ICoin u o a s) (t_ins t).
Proof.
  intros t u H. unfold coin_inputs in H. apply in_flat_map in H. destruct H as [i [H1 H2]].
  destruct i; cbn [In] in H2; try contradiction. destruct H2 as [E|[]]. subst. eauto.
Qed.
Lemma msg_inputs_In : forall t n, In n (msg_inputs t) -> exists a, In (IMsg n a) (t_ins t).
Proof.
  intros t n H. unfold msg_inputs in H. apply in_flat_map in H. destruct H as [i [H1 H2]].
  destruct i; cbn [In] in H2; try contradiction. destruct H2 as [E|[]]. subst. eauto.
Qed.
Lemma created_In : forall t k, In k (created_contracts t) -> exists i, In (i, OCreated k) (enum (t_outs t)).
Proof.
  intros t k H. unfold created_contracts in H. apply in_flat_map in H. destruct H as [o [H1 H2]].
  destruct o; cbn [In] in H2; try contradiction. destruct H2 as [E|[]]. subst. apply enum_from_In. exact H1.
Qed.

Lemma find_collisions_complete : forall c t colls, find_collisions c t = Good colls ->
  (forall u j, In u (coin_inputs t) -> aget utxo_eqb u (c_coins c) = Some j -> In j colls) /\
  (forall n j, In n (msg_inputs t) -> aget N.eqb n (c_msgs c) = Some j -> In j colls) /\
  (forall k j, In k (created_contracts t) -> aget N.eqb k (c_creators c) = Some j -> In j colls) /\
  (forall b j, t_blob t = Some b -> aget N.eqb b (c_blobs c) = Some j -> In j colls).
Proof.
  intros c t colls H. unfold find_collisions in H. apply fc_outputs_spec in H. destruct H as [O1 O2].
  match type of O1 with forall x, In x (fold_left ?f ?ins ?a0) -> _ =>
    destruct (fc_inputs_spec c ins a0) as [I1 [I2 I3]] end.
  cbv zeta in *. split; [|split; [|split]].
  - intros u j Hu Hg. apply coin_inputs_In in Hu. destruct Hu as [o [a [s Hu]]]. apply O1. eapply I2; eassumption.
  - intros n j Hn Hg. apply msg_inputs_In in Hn. destruct Hn as [a Hn]. apply O1. eapply I3; eassumption.
  - intros k j Hk Hg. apply created_In in Hk. destruct Hk as [i Hk]. eapply O2; eassumption.
  - intros b j Hb Hg. apply O1, I1. rewrite Hb, Hg. apply opt_add_found.
Qed.

(* ---- the removals of an insertion ---- *)
Definition rsu_fold (roots : list N) (acc : pool * list node) : pool * list node :=
  fold_left (fun acc root =>
      let '(p, rem) := acc in
      let '(p', r) := remove_subtree_and_update p root in (p', rem ++ r)) roots acc.

Lemma rsu_fold_core : forall roots p rem, Core (core_of p) ->
  Core (core_of (fst (rsu_fold roots (p, rem)))) /\
  (forall root, In root roots -> ~ In root (tids (txs (p_g (fst (rsu_fold roots (p, rem))))))) /\
  (forall x, In x (txs (p_g (fst (rsu_fold roots (p, rem))))) -> In x (txs (p_g p))).
Proof.
  unfold rsu_fold. induction roots as [|root r IH]; intros p rem HC; cbn [fold_left fst].
  - split; [exact HC|]. split; [intros ? [] | tauto].
  - destruct (remove_subtree_and_update p root) as [p' rm] eqn:R.
    destruct (rsu_core _ _ _ _ R HC) as [C1 [C2 [C3 _]]].
    destruct (IH p' (rem ++ rm) C1) as [I1 [I2 I3]].
    split; [exact I1|]. split.
    + intros x [E|Hx]; [| apply I2; exact Hx]. subst x. intros Hin. apply C2.
      unfold tids in *. apply in_map_iff in Hin. destruct Hin as [y [Hy1 Hy2]]. apply in_map_iff.
      exists y. split; [exact Hy1 | apply I3; exact Hy2].
    + intros x Hx. apply C3, I3. exact Hx.
Qed.

Lemma store_txs : forall g t direct all seq, txs (store g t direct all seq) = txs g ++ [t].
Proof.
  intros. unfold store. destruct (cache_tx_infos (t_id t) (t_outs t) (g_coins g) (g_contracts g)) as [c k].
  unfold txs. cbn [g_nodes]. rewrite map_app, map_map. cbn [map n_tx]. f_equal.
  apply map_ext. intros n. destruct (memN (n_id n) all); reflexivity.
Qed.

Definition Fits (p : pool) : Prop :=
  sumN (map t_gas (txs (p_g p))) <= u64max /\ sumN (map t_size (txs (p_g p))) <= u64max.

Lemma do_insert_core : forall p t ci, Core (core_of p) ->
  amem N.eqb (t_id t) (p_txmap p) = false ->
  find_collisions (p_cm p) t = Good (ci_collisions ci) ->
  Fits (do_insert p t ci) ->
  Core (core_of (do_insert p t ci)).
Proof.
  intros p t ci HC Hfresh Hfc Hfit. unfold do_insert in *.
  fold (rsu_fold (ci_remove ci ++ ci_collisions ci) (p, [])) in *.
  destruct (rsu_fold_core (ci_remove ci ++ ci_collisions ci) p [] HC) as [C1 [C2 C3]].
  destruct (rsu_fold (ci_remove ci ++ ci_collisions ci) (p, [])) as [p1 removed]. cbn [fst] in *.
  rewrite core_of_update_stats.
  match goal with |- Core (core_of ?q) =>
    assert (E : core_of q = ins_core (core_of p1) t) end.
  { unfold core_of, ins_core. cbn [p_g p_cm p_txmap p_gas p_bytes]. rewrite store_txs. reflexivity. }
  rewrite E. apply ins_core_inv.
  - exact C1.
  - unfold core_of. cbn [fst]. intros Hin.
    assert (In (t_id t) (tids (txs (p_g p)))).
    { unfold tids in *. apply in_map_iff in Hin. destruct Hin as [y [Hy1 Hy2]]. apply in_map_iff.
      exists y. split; [exact Hy1 | apply C3; exact Hy2]. }
    apply (Core_txmap_ids p (t_id t) HC) in H. congruence.
  - unfold core_of. cbn [fst]. intros x Hx.
    (* a remaining transaction sharing a key with t would be a collision, hence removed *)
    pose proof HC as HC'. unfold core_of, Core in HC'. destruct HC' as [_ [_ [Hcm _]]].
    pose proof (C3 x Hx) as Hxp. destruct (Hcm x Hxp) as [K1 [K2 [K3 K4]]].
    destruct (find_collisions_complete _ _ _ Hfc) as [F1 [F2 [F3 F4]]].
    assert (Hgone : forall j, In j (ci_collisions ci) -> j <> t_id x).
    { intros j Hj Ej. subst j. apply (C2 (t_id x)); [apply in_or_app; right; exact Hj|].
      unfold tids. apply in_map. exact Hx. }
    unfold Disjoint_keys. repeat split.
    + intros u Hu Hu'. apply (Hgone (t_id x)); [|reflexivity]. eapply F1; [exact Hu' | apply K1; exact Hu].
    + intros u Hu Hu'. apply (Hgone (t_id x)); [|reflexivity]. eapply F2; [exact Hu' | apply K2; exact Hu].
    + intros u Hu Hu'. apply (Hgone (t_id x)); [|reflexivity]. eapply F3; [exact Hu' | apply K3; exact Hu].
    + intros b Hb Hb'. apply (Hgone (t_id x)); [|reflexivity]. eapply F4; [exact Hb' | apply K4; exact Hb].
  - unfold core_of. destruct Hfit as [Hg Hb].
    unfold update_stats in Hg, Hb. cbn [p_g] in Hg, Hb. rewrite store_txs in Hg, Hb.
    rewrite map_app, sumN_app in Hg, Hb. unfold sumN at 2 in Hg. unfold sumN at 2 in Hb.
    cbn [map fold_right] in Hg, Hb.
    unfold core_of, Core in C1. destruct C1 as [_ [_ [_ [_ [_ [G B]]]]]]. rewrite G, B. lia.
Qed.

Lemma can_insert_facts : forall p d t ci, can_insert_transaction p d t = inl ci ->
  amem N.eqb (t_id t) (p_txmap p) = false /\ find_collisions (p_cm p) t = Good (ci_collisions ci).
Proof.
  intros p d t ci H. unfold can_insert_transaction in H.
  destruct (t_gas t =? 0); [discriminate|].
  destruct (amem N.eqb (t_id t) (p_txmap p)) eqn:Em; [discriminate|].
  destruct (match t_blob t with Some b => memN b (d_blobs d) | None => false end); [discriminate|].
  destruct (validate_inputs (p_g p) d (p_eo p) (p_spent p) (cfg_utxo_validation (p_cfg p)) (t_ins t) None);
    try discriminate.
  destruct (find_collisions (p_cm p) t) as [colls|] eqn:Ef; [|discriminate].
  destruct (can_store (p_g p) (cfg_max_chain (p_cfg p)) t) as [[direct all]|]; [|discriminate].
  destruct (existsb (fun c => memN c all) colls); [discriminate|].
  destruct (check_collision_requirements (p_g p) t match all with [] => false | _ => true end colls); [discriminate|].
  match type of H with (if ?b then _ else _) = _ => destruct b end.
  - inversion H; subst. split; reflexivity.
  - destruct (match all with [] => false | _ => true end); [discriminate|].
    match type of H with match ?x with _ => _ end = _ => destruct x end; [|discriminate].
    inversion H; subst. split; reflexivity.
Qed.

Definition stats_ok (p : pool) : Prop := p_stats p = (lenN (p_txmap p), p_bytes p, p_gas p).
Definition CoreInv (p : pool) : Prop := Core (core_of p) /\ stats_ok p.

Lemma stats_ok_update : forall q, stats_ok (update_stats q).
Proof. intros. reflexivity. Qed.

Lemma pool_insert_core : forall p d t, CoreInv p -> Fits (fst (pool_insert p d t)) ->
  CoreInv (fst (pool_insert p d t)).
Proof.
  intros p d t [HC HS] Hfit. unfold pool_insert in *.
  destruct (lru_mem (KTx (t_id t)) (s_lru (p_spent p)) || memN (t_id t) (d_txs d)); [split; assumption|].
  destruct (can_insert_transaction p d t) as [ci|e] eqn:E; [|split; assumption].
  cbn [fst] in *. destruct (can_insert_facts _ _ _ _ E) as [F1 F2]. split.
  - apply do_insert_core; assumption.
  - unfold do_insert.
    destruct (fold_left _ (ci_remove ci ++ ci_collisions ci) (p, [])) as [p1 removed].
    apply stats_ok_update.
Qed.

(* ---- the other pool operations also re-establish the statistics ---- *)
Lemma extract_inv : forall p cs, CoreInv p -> CoreInv (fst (extract_transactions_for_block p cs)).
Proof.
  intros p cs [HC _]. split; [apply extract_core; exact HC|].
  unfold extract_transactions_for_block. cbn [fst]. apply stats_ok_update.
Qed.

Lemma process_committed_inv : forall ids p, CoreInv p -> CoreInv (process_committed_transactions p ids).
Proof.
  intros ids p [HC _]. split; [apply process_committed_core; exact HC|].
  unfold process_committed_transactions.
  destruct (fold_left _ ids (p, [])) as [p1 prom]. apply stats_ok_update.
Qed.

Lemma preconf_committed_inv : forall p id, CoreInv p ->
  CoreInv (process_preconfirmed_committed_transaction p id).
Proof.
  intros p id [HC _]. split; [apply preconf_committed_core; exact HC|].
  unfold process_preconfirmed_committed_transaction.
  match goal with |- stats_ok (if ?b then _ else _) => destruct b end.
  - destruct (commit_stored _ id true) as [p1 pr]. apply stats_ok_update.
  - apply stats_ok_update.
Qed.

Lemma rtd_inv : forall ids p reason, CoreInv p -> CoreInv (remove_transactions_and_dependents p ids reason).
Proof.
  intros ids p reason [HC _]. split; [apply rtd_core; exact HC|].
  unfold remove_transactions_and_dependents.
  destruct (fold_left _ ids (p, [])) as [p1 removed]. apply stats_ok_update.
Qed.

Lemma remove_skipped_inv : forall p id, CoreInv p -> CoreInv (remove_skipped_transaction p id).
Proof.
  intros p id [HC _]. split; [apply remove_skipped_core; exact HC|].
  unfold remove_skipped_transaction. apply stats_ok_update.
Qed.

Lemma rollback_inv : forall p id, CoreInv p -> CoreInv (rollback_preconfirmed_transaction p id).
Proof.
  intros p id [HC _]. split; [apply rollback_core; exact HC|].
  unfold rollback_preconfirmed_transaction. apply stats_ok_update.
Qed.

Lemma CoreInv_with_eo : forall p e, CoreInv p -> CoreInv (with_eo p e).
Proof. intros p e [H1 H2]. split; assumption. Qed.
Lemma CoreInv_with_spent : forall p s, CoreInv p -> CoreInv (with_spent p s).
Proof. intros p s [H1 H2]. split; assumption. Qed.

Lemma process_block_inv : forall w h ids, CoreInv (w_pool w) -> CoreInv (w_pool (process_block w h ids)).
Proof.
  intros w h ids HI. unfold process_block.
  pose proof (process_committed_inv ids (w_pool w) HI) as H1.
  set (p1 := process_committed_transactions (w_pool w) ids) in *.
  assert (H2 : CoreInv (with_eo p1 (fold_left new_executed_transaction ids (p_eo p1)))) by (apply CoreInv_with_eo; exact H1).
  revert H2. generalize (with_eo p1 (fold_left new_executed_transaction ids (p_eo p1))) as p2.
  generalize (w_tent w) at 2 as tent0.
  generalize (sortN (map fst (filter (fun e : N * list N => fst e <=? h) (w_tent w)))) as stale.
  induction stale as [|s r IH]; intros tent0 p2 H2; cbn [fold_left].
  - exact H2.
  - destruct (aget N.eqb s tent0) as [txs0|]; [|apply IH; exact H2].
    apply IH. generalize (sortN txs0) as l. intros l. revert p2 H2.
    induction l as [|id l IHl]; intros p2 H2; cbn [fold_left]; [exact H2|].
    apply IHl. destruct (memN id ids); [apply CoreInv_with_spent; exact H2 | apply rollback_inv; exact H2].
Qed.

Lemma preconf_tx_inv : forall w id kind h outs, CoreInv (w_pool w) ->
  CoreInv (w_pool (process_preconfirmed_transaction w id kind h outs)).
Proof.
  intros w id kind h outs HI. unfold process_preconfirmed_transaction.
  destruct kind.
  - destruct (h <=? w_height w); [exact HI|].
    destruct outs; cbn [w_pool]; [apply CoreInv_with_eo|]; apply preconf_committed_inv; exact HI.
  - destruct (h <=? w_height w); [exact HI|].
    destruct outs; cbn [w_pool]; [apply CoreInv_with_eo|]; apply preconf_committed_inv; exact HI.
  - cbn [with_pool w_pool]. apply remove_skipped_inv. exact HI.
Qed.

Lemma step_core : forall w o, CoreInv (w_pool w) -> Fits (w_pool (fst (step w o))) ->
  CoreInv (w_pool (fst (step w o))).
Proof.
  intros w o HI Hfit. destruct o; cbn [step] in *.
  - unfold worker_insert in *. destruct (pool_insert (w_pool w) (w_db w) t) as [p r] eqn:E.
    cbn [fst with_pool w_pool] in *.
    pose proof (pool_insert_core (w_pool w) (w_db w) t HI) as C. rewrite E in C. apply C. exact Hfit.
  - destruct (extract_transactions_for_block (w_pool w) cs) as [p ns] eqn:E. cbn [fst with_pool w_pool].
    pose proof (extract_inv (w_pool w) cs HI) as C. rewrite E in C. exact C.
  - cbn [fst]. apply process_block_inv. exact HI.
  - cbn [fst]. apply preconf_tx_inv. exact HI.
  - cbn [fst with_pool w_pool]. apply rtd_inv. exact HI.
  - cbn [fst w_pool]. exact HI.
Qed.

Lemma core_init : forall cfg, CoreInv (pool_new cfg).
Proof.
  intros cfg. unfold CoreInv. split; [|reflexivity].
  unfold core_of, Core, pool_new. cbn [p_g p_cm p_txmap p_gas p_bytes g_empty txs g_nodes map tids].
  split; [constructor|]. split; [reflexivity|]. split; [intros t []|]. split; [constructor|].
  split; [intros; cbn [In]; tauto|]. split; reflexivity.
Qed.

Lemma run_core : forall ops w, CoreInv (w_pool w) ->
  Forall (fun wr => Fits (w_pool (fst wr))) (run w ops) ->
  Forall (fun wr => CoreInv (w_pool (fst wr))) (run w ops).
Proof.
  induction ops as [|o r IH]; intros w HI HF; cbn [run] in *; [constructor|].
  destruct (step w o) as [w' res] eqn:E. inversion HF; subst. cbn [fst] in *.
  assert (C : CoreInv (w_pool w')).
  { pose proof (step_core w o HI) as S. rewrite E in S. apply S. assumption. }
  constructor; [exact C | apply IH; assumption].
Qed.

(* ---- C16 ---- *)
Definition NoConflict (l : list tx) : Prop :=
  forall a b, In a l -> In b l -> t_id a <> t_id b -> Disjoint_keys a b.

Definition AccountingExact (p : pool) : Prop :=
  p_gas p = sumN (map t_gas (txs (p_g p))) /\ p_bytes p = sumN (map t_size (txs (p_g p))) /\
  lenN (p_txmap p) = lenN (txs (p_g p)) /\
  p_stats p = (lenN (txs (p_g p)), sumN (map t_size (txs (p_g p))), sumN (map t_gas (txs (p_g p)))).

Lemma NoDup_same_length : forall (a b : list N), NoDup a -> NoDup b -> (forall x, In x a <-> In x b) ->
  length a = length b.
Proof.
  intros a b Ha Hb H. apply Nat.le_antisymm; apply NoDup_incl_length; try assumption;
  intros x Hx; apply H; exact Hx.
Qed.

Lemma core_inv_no_conflict_all : forall p, CoreInv p ->
  NoDup (tids (txs (p_g p))) /\ NoConflict (txs (p_g p)) /\ AccountingExact p.
Proof.
  intros p [HC HS]. unfold core_of, Core in HC. destruct HC as [Hnd [Hnc [_ [Hmd [Hmk [Hg Hb]]]]]].
  split; [exact Hnd|]. split.
  - intros a b Ha Hb' Hne. eapply nc_disjoint; eassumption.
  - assert (L : lenN (p_txmap p) = lenN (txs (p_g p))).
    { unfold lenN. f_equal. rewrite <- (map_length fst (p_txmap p)).
      unfold tids in *. rewrite <- (map_length t_id (txs (p_g p))). apply NoDup_same_length; assumption. }
    unfold AccountingExact. rewrite HS, L, <- Hg, <- Hb. repeat split; assumption.
Qed.

Theorem no_conflicts_run : forall cfg d h ops,
  Forall (fun wr => Fits (w_pool (fst wr))) (run (worker_new cfg d h) ops) ->
  Forall (fun wr => let p := w_pool (fst wr) in
            NoDup (tids (txs (p_g p))) /\ NoConflict (txs (p_g p)) /\ AccountingExact p)
         (run (worker_new cfg d h) ops).
Proof.
  intros cfg d h ops HF.
  pose proof (run_core ops (worker_new cfg d h) (core_init cfg) HF) as H.
  rewrite Forall_forall in *. intros wr Hwr. apply core_inv_no_conflict_all. apply H. exact Hwr.
Qed.

(* non-vacuity: a history with a dependency, a replacement, an extraction and a block *)
Definition ex_db : db := mkDb [((100, 0), (1, 10, 1)); ((101, 0), (1, 10, 1))] [] [] [] [].
Definition ex_t1 : tx := mkTx 1 [ICoin (100, 0) 1 10 1] [OCoin 1 10 1] None 5 10 1 10.
Definition ex_t2 : tx := mkTx 2 [ICoin (1, 0) 1 10 1] [] None 5 10 1 10.
Definition ex_t3 : tx := mkTx 3 [ICoin (100, 0) 1 10 1] [] None 50 10 1 10.
Definition ex_ops : list op :=
  [OpInsert ex_t1; OpInsert ex_t2; OpInsert ex_t3; OpExtract (mkCons 0 100 10 100 []); OpBlock 1 [3]].
Example ex_run_nontrivial :
  map (fun wr => (node_ids (p_g (w_pool (fst wr))), pool_invb (w_pool (fst wr))))
      (run (worker_new (mkCfg 4 100 100 3 true) ex_db 0) ex_ops)
  = [([1], true); ([1; 2], true); ([3], true); ([], true); ([], true)].
Proof. vm_compute. reflexivity. Qed.
