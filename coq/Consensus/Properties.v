(* Property theorems of the Consensus cluster (C15). Statements, [exact], Print Assumptions. *)
From FC Require Import Consensus.Model Consensus.Proofs.
Open Scope N_scope.

(* A PoA block is accepted by the field checks iff its height is non-zero, its previous root
   is the parent's block-Merkle root, DA height and time do not decrease, the application
   hash is the hash of the application header and the transaction root/count match. *)
Theorem accept_iff_rules : forall (H : bytes -> bytes) p h txs,
  poa_verify_block_fields H p h txs = V_OK <-> Rules H p h txs.
Proof. exact poa_accept_iff_rules. Qed.
Print Assumptions accept_iff_rules.

(* The seal is accepted iff the signature recovers (oracle) to the key configured for the
   block's height and was made over this header's id. *)
Theorem consensus_iff_key : forall (H : bytes -> bytes) cfg sig h,
  verify_consensus H 1 cfg sig h = true <->
  exists k, fst sig = Some k /\ block_id H h = snd sig /\ k = expected_key cfg h.
Proof. exact poa_consensus_iff. Qed.
Print Assumptions consensus_iff_key.

(* Under an ideal hash (injective, 32-byte output): equal ids => equal headers. *)
Theorem header_binding : forall (H : bytes -> bytes),
  (forall x y, H x = H y -> x = y) ->
  forall h h', wf h -> wf h' ->
  app_hash h = application_hash_of H h -> app_hash h' = application_hash_of H h' ->
  block_id H h = block_id H h' -> h = h'.
Proof. exact header_binding_all. Qed.
Print Assumptions header_binding.

Theorem txns_root_binding : forall (H : bytes -> bytes),
  (forall x y, H x = H y -> x = y) -> (forall x, length (H x) = 32%nat) ->
  forall txs txs', length txs = length txs' -> txns_root H txs = txns_root H txs' -> txs = txs'.
Proof. exact txns_root_binding_all. Qed.
Print Assumptions txns_root_binding.

(* Any change to a header field, a transaction, or the transaction order changes the block
   id or makes the block fail the checks. *)
Theorem block_binding : forall (H : bytes -> bytes),
  (forall x y, H x = H y -> x = y) -> (forall x, length (H x) = 32%nat) ->
  forall p h txs h' txs', wf h -> wf h' ->
  poa_verify_block_fields H p h txs = V_OK -> poa_verify_block_fields H p h' txs' = V_OK ->
  block_id H h = block_id H h' -> h = h' /\ txs = txs'.
Proof. exact block_binding_all. Qed.
Print Assumptions block_binding.

Theorem pair_checker_sound : forall h0 txs0 o0 h txs o,
  pair_okb h0 txs0 o0 h txs o = true <->
  (obs_fields o0 = V_OK -> obs_fields o = V_OK -> (h0, txs0) <> (h, txs) -> obs_id o0 <> obs_id o).
Proof. exact pair_okb_spec. Qed.
Print Assumptions pair_checker_sound.
