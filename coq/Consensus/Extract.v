From FC Require Import Consensus.Model.
Require Extraction.
Require Import ExtrOcamlBasic.
Extraction "consensus_model.ml" main_T.
