(* Proofs for C15: acceptance implies the consensus rules; under an ideal (injective,
   fixed-length) hash the block id binds every header field and the transaction list. *)
From FC Require Import Consensus.Model.
From Coq Require Import ZifyBool ZifyN ZifyNat.
Open Scope N_scope.

Lemma bytes_eqb_refl b : bytes_eqb b b = true.
Proof. induction b as [|x b IH]; cbn; [reflexivity|]. now rewrite N.eqb_refl, IH. Qed.

Lemma bytes_eqb_eq a : forall b, bytes_eqb a b = true <-> a = b.
Proof.
  induction a as [|x a IH]; intros [|y b]; cbn; split; intro Hh; try discriminate; try reflexivity.
  - apply andb_true_iff in Hh. destruct Hh as [H1 H2]. apply N.eqb_eq in H1. apply IH in H2. now subst.
  - injection Hh as -> ->. now rewrite N.eqb_refl, bytes_eqb_refl.
Qed.

Lemma bytes_eqb_neq a b : bytes_eqb a b = false <-> a <> b.
Proof.
  split.
  - intros Hf Heq. apply bytes_eqb_eq in Heq. congruence.
  - intro Hne. destruct (bytes_eqb a b) eqn:E; [|reflexivity]. apply bytes_eqb_eq in E. contradiction.
Qed.

(* ---------- fixed-width big-endian encoding ---------- *)

Lemma be_length w : forall n, length (be w n) = w.
Proof. induction w as [|w IH]; intro n; cbn; [reflexivity|]. rewrite app_length, IH. cbn. lia. Qed.

Lemma app_eq_len {A} (a a' b b' : list A) :
  length a = length a' -> a ++ b = a' ++ b' -> a = a' /\ b = b'.
Proof.
  revert a'. induction a as [|x a IH]; intros [|y a'] Hl Heq; cbn in *; try discriminate.
  - now split.
  - injection Heq as -> Heq. injection Hl as Hl. destruct (IH a' Hl Heq) as [-> ->]. now split.
Qed.

Lemma app_eq_len_r {A} (a a' b b' : list A) :
  length b = length b' -> a ++ b = a' ++ b' -> a = a' /\ b = b'.
Proof.
  intros Hl Heq. apply app_eq_len; [|exact Heq].
  apply (f_equal (@length A)) in Heq. rewrite !app_length in Heq. lia.
Qed.

Lemma be_inj w : forall n m, n < 256 ^ N.of_nat w -> m < 256 ^ N.of_nat w -> be w n = be w m -> n = m.
Proof.
  induction w as [|w IH]; intros n m Hn Hm Heq.
  - cbn in Hn, Hm. lia.
  - cbn [be] in Heq. apply app_eq_len_r in Heq; [|reflexivity]. destruct Heq as [H1 H2].
    injection H2 as H2.
    assert (Hp : 256 ^ N.of_nat (S w) = 256 * 256 ^ N.of_nat w).
    { rewrite Nat2N.inj_succ, N.pow_succ_r'. reflexivity. }
    rewrite Hp in Hn, Hm.
    assert (Hd : n / 256 = m / 256).
    { apply IH; [| |exact H1]; apply N.div_lt_upper_bound; lia. }
    rewrite (N.div_mod n 256), (N.div_mod m 256) by lia. now rewrite Hd, H2.
Qed.

Section Binding.
  Variable H : bytes -> bytes.

  (* ---------- acceptance <-> rules ---------- *)

  Definition Rules (p : parent) (h : header) (txs : list bytes) : Prop :=
    height h <> 0 /\
    exists root pda ptime,
      p_root p = Some root /\ prev_root h = root /\
      p_header p = Some (pda, ptime) /\ pda <= da_height h /\ ptime <= time h /\
      app_hash h = application_hash_of H h /\
      tx_root h = txns_root H txs /\ N.of_nat (length txs) = tx_count h.

  Lemma poa_accept_iff_rules p h txs :
    poa_verify_block_fields H p h txs = V_OK <-> Rules p h txs.
  Proof.
    unfold poa_verify_block_fields, Rules, validate_transactions, V_OK, V_ZERO_HEIGHT, V_DB,
      V_PREV_ROOT, V_DA, V_TIME, V_APP_HASH, V_TXS.
    destruct (height h =? 0) eqn:Eh.
    { split; [discriminate|]. intros [Hne _]. lia. }
    destruct (p_root p) as [root|].
    2:{ split; [discriminate|]. intros (_ & r & a & b & Hr & _). discriminate. }
    destruct (bytes_eqb (prev_root h) root) eqn:Epr; cbn [negb].
    2:{ split; [discriminate|]. intros (_ & r & a & b & Hr & Hp & _). injection Hr as <-.
        apply bytes_eqb_neq in Epr. contradiction. }
    apply bytes_eqb_eq in Epr.
    destruct (p_header p) as [[pda ptime]|].
    2:{ split; [discriminate|]. intros (_ & r & a & b & _ & _ & Hh & _). discriminate. }
    destruct (da_height h <? pda) eqn:Eda.
    { split; [discriminate|]. intros (_ & r & a & b & _ & _ & Hh & Hda & _). injection Hh as <- <-. lia. }
    destruct (time h <? ptime) eqn:Et.
    { split; [discriminate|]. intros (_ & r & a & b & _ & _ & Hh & _ & Ht & _). injection Hh as <- <-. lia. }
    destruct (bytes_eqb (app_hash h) (application_hash_of H h)) eqn:Ea; cbn [negb].
    2:{ split; [discriminate|]. intros (_ & r & a & b & _ & _ & _ & _ & _ & Hah & _).
        apply bytes_eqb_neq in Ea. contradiction. }
    apply bytes_eqb_eq in Ea.
    destruct (N.of_nat (length txs) =? tx_count h) eqn:Ec; cbn [andb negb].
    2:{ split; [discriminate|]. intros (_ & r & a & b & _ & _ & _ & _ & _ & _ & _ & Hc). lia. }
    destruct (bytes_eqb (txns_root H txs) (tx_root h)) eqn:Etr; cbn [negb].
    - apply bytes_eqb_eq in Etr. split; [|reflexivity]. intros _. split; [lia|].
      exists root, pda, ptime. repeat split; auto; lia.
    - split; [discriminate|]. intros (_ & r & a & b & _ & _ & _ & _ & _ & _ & Htr & _).
      apply bytes_eqb_neq in Etr. congruence.
  Qed.

  (* ---------- consensus ---------- *)

  Definition expected_key (cfg : cconfig) (h : header) : N :=
    match cfg with CPoA key => key | CPoAV2 g ovs => address_for_height g ovs (height h) end.

  Lemma poa_consensus_iff cfg sig h :
    verify_consensus H 1 cfg sig h = true <->
    exists k, fst sig = Some k /\ block_id H h = snd sig /\ k = expected_key cfg h.
  Proof.
    unfold verify_consensus, recovered, expected_key. destruct sig as [[k|] id]; cbn [fst snd].
    - destruct (bytes_eqb (block_id H h) id) eqn:E.
      + apply bytes_eqb_eq in E. split.
        * intro Hk. exists k. repeat split; auto. destruct cfg; lia.
        * intros (k' & Hk & _ & He). injection Hk as <-. destruct cfg; lia.
      + apply bytes_eqb_neq in E. split; [discriminate|]. intros (k' & _ & Hid & _). contradiction.
    - split; [discriminate|]. intros (k' & Hk & _). discriminate.
  Qed.

  (* ---------- binding under an ideal hash ---------- *)

  Hypothesis Hinj : forall x y, H x = H y -> x = y.
  Hypothesis Hlen : forall x, length (H x) = 32%nat.

  Record wf (h : header) : Prop := {
    wf_prev : length (prev_root h) = 32%nat;
    wf_app : length (app_hash h) = 32%nat;
    wf_txr : length (tx_root h) = 32%nat;
    wf_out : length (outbox_root h) = 32%nat;
    wf_inb : length (inbox_root h) = 32%nat;
    wf_height : height h < 256 ^ 4;
    wf_time : time h < 256 ^ 8;
    wf_da : da_height h < 256 ^ 8;
    wf_cpv : cpv h < 256 ^ 4;
    wf_stf : stf h < 256 ^ 4;
    wf_txc : tx_count h < 256 ^ 2;
    wf_msgc : msg_count h < 256 ^ 4
  }.

  Lemma block_id_inj h h' : wf h -> wf h' -> block_id H h = block_id H h' ->
    prev_root h = prev_root h' /\ height h = height h' /\ time h = time h' /\ app_hash h = app_hash h'.
  Proof.
    intros W W' Hid. unfold block_id in Hid. apply Hinj in Hid.
    apply app_eq_len in Hid; [|rewrite (wf_prev _ W), (wf_prev _ W'); reflexivity].
    destruct Hid as [Hp Hid].
    apply app_eq_len in Hid; [|now rewrite !be_length]. destruct Hid as [Hh Hid].
    apply app_eq_len in Hid; [|now rewrite !be_length]. destruct Hid as [Ht Ha].
    repeat split; auto.
    - apply (be_inj 4); auto using wf_height.
    - apply (be_inj 8); auto using wf_time.
  Qed.

  Lemma application_hash_inj h h' : wf h -> wf h' ->
    application_hash_of H h = application_hash_of H h' ->
    da_height h = da_height h' /\ cpv h = cpv h' /\ stf h = stf h' /\ tx_count h = tx_count h' /\
    msg_count h = msg_count h' /\ tx_root h = tx_root h' /\ outbox_root h = outbox_root h' /\
    inbox_root h = inbox_root h'.
  Proof.
    intros W W' Ha. unfold application_hash_of in Ha. apply Hinj in Ha.
    apply app_eq_len in Ha; [|now rewrite !be_length]. destruct Ha as [H1 Ha].
    apply app_eq_len in Ha; [|now rewrite !be_length]. destruct Ha as [H2 Ha].
    apply app_eq_len in Ha; [|now rewrite !be_length]. destruct Ha as [H3 Ha].
    apply app_eq_len in Ha; [|now rewrite !be_length]. destruct Ha as [H4 Ha].
    apply app_eq_len in Ha; [|now rewrite !be_length]. destruct Ha as [H5 Ha].
    apply app_eq_len in Ha; [|rewrite (wf_txr _ W), (wf_txr _ W'); reflexivity]. destruct Ha as [H6 Ha].
    apply app_eq_len in Ha; [|rewrite (wf_out _ W), (wf_out _ W'); reflexivity]. destruct Ha as [H7 H8].
    repeat split; auto.
    - apply (be_inj 8); auto using wf_da.
    - apply (be_inj 4); auto using wf_cpv.
    - apply (be_inj 4); auto using wf_stf.
    - apply (be_inj 2); auto using wf_txc.
    - apply (be_inj 4); auto using wf_msgc.
  Qed.

  Theorem header_binding_all h h' :
    wf h -> wf h' ->
    app_hash h = application_hash_of H h -> app_hash h' = application_hash_of H h' ->
    block_id H h = block_id H h' -> h = h'.
  Proof.
    intros W W' Ha Ha' Hid.
    destruct (block_id_inj h h' W W' Hid) as (E1 & E2 & E3 & E4).
    assert (Happ : application_hash_of H h = application_hash_of H h') by congruence.
    destruct (application_hash_inj h h' W W' Happ) as (E5 & E6 & E7 & E8 & E9 & E10 & E11 & E12).
    destruct h, h'; cbn in *. congruence.
  Qed.

  (* ---------- the transaction root binds the transaction list ---------- *)

  Lemma split_pt_bounds fuel : forall k n, (1 <= k)%nat -> (k < n)%nat ->
    (k <= split_pt fuel k n < n)%nat.
  Proof.
    induction fuel as [|f IH]; intros k n Hk Hlt; cbn [split_pt]; [lia|].
    destruct (Nat.ltb (2 * k) n) eqn:E.
    - apply Nat.ltb_lt in E. specialize (IH (2 * k)%nat n ltac:(lia) E). lia.
    - lia.
  Qed.

  Lemma mth_len f x : length (mth H (S f) x) = 32%nat.
  Proof. cbn [mth]. destruct x as [|d [|d2 r]]; unfold empty_sum, leaf_sum, node_sum; apply Hlen. Qed.

  Lemma mth_inj fuel : forall l l',
    length l = length l' -> (length l < fuel)%nat -> mth H fuel l = mth H fuel l' -> l = l'.
  Proof.
    induction fuel as [|f IH]; intros l l' Hl Hf Heq; [lia|].
    destruct l as [|d [|d2 r]]; destruct l' as [|d' [|d2' r']]; cbn [length] in Hl; try discriminate.
    - reflexivity.
    - cbn [mth] in Heq. unfold leaf_sum in Heq. apply Hinj in Heq. now injection Heq as ->.
    - remember (d :: d2 :: r) as l eqn:El. remember (d' :: d2' :: r') as l' eqn:El'.
      assert (Hn : (2 <= length l)%nat) by (subst l; cbn; lia).
      assert (Hll : length l = length l') by (subst l l'; cbn; lia).
      assert (Hm : mth H (S f) l = node_sum H (mth H f (firstn (split_pt (length l) 1 (length l)) l))
                                     (mth H f (skipn (split_pt (length l) 1 (length l)) l))).
      { subst l. reflexivity. }
      assert (Hm' : mth H (S f) l' = node_sum H (mth H f (firstn (split_pt (length l') 1 (length l')) l'))
                                       (mth H f (skipn (split_pt (length l') 1 (length l')) l'))).
      { subst l'. reflexivity. }
      rewrite Hm, Hm' in Heq. rewrite <- Hll in Heq.
      set (k := split_pt (length l) 1 (length l)) in *.
      assert (Hk : (1 <= k < length l)%nat) by (apply split_pt_bounds; lia).
      unfold node_sum in Heq. apply Hinj in Heq. injection Heq as Heq.
      destruct f as [|f']; [cbn in Hf; lia|].
      apply app_eq_len in Heq; [|now rewrite !mth_len]. destruct Heq as [Ha Hb].
      apply IH in Ha; [|rewrite !firstn_length; lia|rewrite firstn_length; cbn in Hf; lia].
      apply IH in Hb; [|rewrite !skipn_length; lia|rewrite skipn_length; cbn in Hf; lia].
      rewrite <- (firstn_skipn k l), <- (firstn_skipn k l'). now rewrite Ha, Hb.
  Qed.

  Theorem txns_root_binding_all txs txs' :
    length txs = length txs' -> txns_root H txs = txns_root H txs' -> txs = txs'.
  Proof.
    intros Hl Heq. unfold txns_root, binary_root in Heq. rewrite <- Hl in Heq.
    eapply mth_inj; [exact Hl| |exact Heq]. lia.
  Qed.

  (* two blocks accepted against the same parent with equal ids are equal: any change
     to a header field, to a transaction, or to the transaction order changes the id or
     fails the checks *)
  Theorem block_binding_all p h txs h' txs' :
    wf h -> wf h' ->
    poa_verify_block_fields H p h txs = V_OK -> poa_verify_block_fields H p h' txs' = V_OK ->
    block_id H h = block_id H h' -> h = h' /\ txs = txs'.
  Proof.
    intros W W' Hv Hv' Hid.
    apply poa_accept_iff_rules in Hv. apply poa_accept_iff_rules in Hv'.
    destruct Hv as (_ & r & a & b & _ & _ & _ & _ & _ & Ha & Htr & Hc).
    destruct Hv' as (_ & r' & a' & b' & _ & _ & _ & _ & _ & Ha' & Htr' & Hc').
    assert (Hh : h = h') by (apply header_binding_all; assumption).
    split; [exact Hh|]. subst h'.
    apply txns_root_binding_all; [lia|congruence].
  Qed.

End Binding.

(* non-vacuity: a consistent header over two transactions is accepted (identity hash keeps
   the witness readable; wf is about the real 32-byte roots and is exercised by the harness) *)
Example accept_nonvacuous :
  let txs := [[1; 2]; [3]] in
  let h0 := {| prev_root := [9]; height := 5; time := 7; app_hash := []; da_height := 3; cpv := 0; stf := 1;
               tx_count := 2; msg_count := 0; tx_root := txns_root (fun x => x) txs; outbox_root := [4]; inbox_root := [6] |} in
  let h := {| prev_root := [9]; height := 5; time := 7; app_hash := application_hash_of (fun x => x) h0; da_height := 3;
              cpv := 0; stf := 1; tx_count := 2; msg_count := 0; tx_root := txns_root (fun x => x) txs;
              outbox_root := [4]; inbox_root := [6] |} in
  poa_verify_block_fields (fun x => x) {| p_root := Some [9]; p_header := Some (3, 7) |} h txs = V_OK.
Proof. vm_compute. reflexivity. Qed.

(* ---------- meaning of the pair checker ---------- *)

Lemma header_eqb_eq a b : header_eqb a b = true <-> a = b.
Proof.
  unfold header_eqb. rewrite !andb_true_iff, !bytes_eqb_eq, !N.eqb_eq. split.
  - intros H. destruct a, b; cbn in *. intuition congruence.
  - intros ->. intuition.
Qed.

Lemma txs_eqb_eq a : forall b, txs_eqb a b = true <-> a = b.
Proof.
  induction a as [|x a IH]; intros [|y b]; cbn; split; intro Hh; try discriminate; try reflexivity.
  - apply andb_true_iff in Hh. destruct Hh as [H1 H2]. apply bytes_eqb_eq in H1. apply IH in H2. now subst.
  - injection Hh as -> ->. rewrite bytes_eqb_refl. cbn. now apply IH.
Qed.

Lemma pair_okb_spec h0 txs0 o0 h txs o :
  pair_okb h0 txs0 o0 h txs o = true <->
  (obs_fields o0 = V_OK -> obs_fields o = V_OK -> (h0, txs0) <> (h, txs) -> obs_id o0 <> obs_id o).
Proof.
  unfold pair_okb, V_OK.
  destruct (bytes_eqb (obs_id o0) (obs_id o)) eqn:Eid; cbn [negb].
  - apply bytes_eqb_eq in Eid. rewrite orb_false_r, negb_true_iff.
    destruct (obs_fields o0 =? 0) eqn:E0; destruct (obs_fields o =? 0) eqn:E1; cbn [andb];
      try (split; [intros _ A B; lia|reflexivity]).
    destruct (header_eqb h0 h && txs_eqb txs0 txs) eqn:Ec; cbn [negb].
    + apply andb_true_iff in Ec. destruct Ec as [Eh Et]. apply header_eqb_eq in Eh. apply txs_eqb_eq in Et.
      subst. split; [intros _ _ _ Hne; now elim Hne|reflexivity].
    + split; [discriminate|]. intros Hh. exfalso. apply (Hh ltac:(lia) ltac:(lia)); [|exact Eid].
      intro Epair. injection Epair as -> ->.
      rewrite (proj2 (header_eqb_eq h h) eq_refl), (proj2 (txs_eqb_eq txs txs) eq_refl) in Ec. discriminate.
  - apply bytes_eqb_neq in Eid. rewrite orb_true_r. split; [intros _ _ _ _; exact Eid|reflexivity].
Qed.
