(* Executable model of block acceptance (C15):
     crates/services/consensus_module/poa/src/verifier.rs   verify_block_fields, verify_consensus
     crates/services/consensus_module/src/block_verifier.rs Verifier, verify_genesis_block_fields
     crates/types/src/blockchain/header.rs (+ header/v1.rs) ApplicationHeader::hash, ConsensusHeader::hash,
                                                            generate_txns_root, validate_transactions
     crates/chain-config/src/config/consensus.rs            PoAV2::address_for_height
   Hashes are computed concretely (SHA-256); signature recovery is an oracle: the signature was
   made by key [signer] over the id [signed_id], recovery over any other message yields no
   configured key. *)
From FC Require Export Common.T Common.Sha256 Common.Merkle.
Open Scope N_scope.

(* big-endian, fixed width *)
Fixpoint be (w : nat) (n : N) : bytes :=
  match w with
  | O => []
  | S w' => be w' (n / 256) ++ [n mod 256]
  end.

Fixpoint bytes_eqb (a b : bytes) : bool :=
  match a, b with
  | [], [] => true
  | x :: a', y :: b' => (x =? y) && bytes_eqb a' b'
  | _, _ => false
  end.

Record header := {
  prev_root : bytes; height : N; time : N; app_hash : bytes;
  da_height : N; cpv : N; stf : N; tx_count : N; msg_count : N;
  tx_root : bytes; outbox_root : bytes; inbox_root : bytes
}.

Section Hash.
  Variable H : bytes -> bytes.

  Definition application_hash_of (h : header) : bytes :=
    H (be 8 (da_height h) ++ be 4 (cpv h) ++ be 4 (stf h) ++ be 2 (tx_count h) ++ be 4 (msg_count h)
       ++ tx_root h ++ outbox_root h ++ inbox_root h).

  Definition block_id (h : header) : bytes :=
    H (prev_root h ++ be 4 (height h) ++ be 8 (time h) ++ app_hash h).

  Definition txns_root (txs : list bytes) : bytes := binary_root H txs.

  (* the code compares the root first; the conjunction is commutative and the count is tested
     first here so that the (lazy) model does not hash blocks whose count already disagrees,
     e.g. the boundary class of more than u16::MAX transactions *)
  Definition validate_transactions (h : header) (txs : list bytes) : bool :=
    (N.of_nat (length txs) =? tx_count h) && bytes_eqb (txns_root txs) (tx_root h).

  (* what the verifier reads from the database about the parent height *)
  Record parent := { p_root : option bytes; p_header : option (N * N) (* da height, time *) }.

  (* result tags of verify_block_fields *)
  Definition V_OK := 0.  Definition V_ZERO_HEIGHT := 1.  Definition V_DB := 2.
  Definition V_PREV_ROOT := 3.  Definition V_DA := 4.  Definition V_TIME := 5.
  Definition V_APP_HASH := 6.  Definition V_TXS := 7.  Definition V_GENESIS := 8.
  Definition V_UNSUPPORTED := 9.

  Definition poa_verify_block_fields (p : parent) (h : header) (txs : list bytes) : N :=
    if height h =? 0 then V_ZERO_HEIGHT else
    match p_root p with
    | None => V_DB
    | Some root =>
        if negb (bytes_eqb (prev_root h) root) then V_PREV_ROOT else
        match p_header p with
        | None => V_DB
        | Some (pda, ptime) =>
            if da_height h <? pda then V_DA else
            if time h <? ptime then V_TIME else
            if negb (bytes_eqb (app_hash h) (application_hash_of h)) then V_APP_HASH else
            if negb (validate_transactions h txs) then V_TXS else V_OK
        end
    end.

  Definition tai64_unix_epoch : N := 4611686018427387914.   (* 2^62 + 10 *)

  Definition verify_genesis_block_fields (exp_height exp_da : N) (h : header) : N :=
    if negb (bytes_eqb (prev_root h) zero32) then V_GENESIS else
    if negb (time h =? tai64_unix_epoch) then V_GENESIS else
    if negb (da_height h =? exp_da) then V_GENESIS else
    if negb (exp_height =? height h) then V_GENESIS else V_OK.

  (* consensus kinds of the sealed block: 0 genesis, 1 PoA, other = unsupported *)
  Definition verify_block_fields (kind exp_height exp_da : N) (p : parent) (h : header) (txs : list bytes) : N :=
    match kind with
    | 0 => verify_genesis_block_fields exp_height exp_da h
    | 1 => poa_verify_block_fields p h txs
    | _ => V_UNSUPPORTED
    end.

  (* ConsensusConfig: PoA { key } | PoAV2 { genesis key, overrides sorted by height } *)
  Inductive cconfig := CPoA (key : N) | CPoAV2 (genesis_key : N) (overrides : list (N * N)).

  Fixpoint last_le (ovs : list (N * N)) (h : N) (acc : option N) : option N :=
    match ovs with
    | [] => acc
    | (oh, k) :: r => if oh <=? h then last_le r h (Some k) else last_le r h acc
    end.

  Definition address_for_height (g : N) (ovs : list (N * N)) (h : N) : N :=
    match ovs with
    | [] => g
    | _ => match last_le ovs h None with Some k => k | None => g end
    end.

  (* signature oracle: (signer key, id that was signed); signer = None for an unrecoverable
     or tampered signature *)
  Definition recovered (sig : option N * bytes) (h : header) : option N :=
    match fst sig with
    | Some k => if bytes_eqb (block_id h) (snd sig) then Some k else None
    | None => None
    end.

  Definition verify_consensus (kind : N) (cfg : cconfig) (sig : option N * bytes) (h : header) : bool :=
    match kind with
    | 0 => true
    | 1 =>
        let expected := match cfg with
                        | CPoA key => key
                        | CPoAV2 g ovs => address_for_height g ovs (height h)
                        end in
        match recovered sig h with Some k => k =? expected | None => false end
    | _ => false
    end.

  (* everything the harness observes for one (header, transactions) pair *)
  Definition observe_block (kind exp_height exp_da : N) (cfg : cconfig) (p : parent)
             (sig : option N * bytes) (h : header) (txs : list bytes) : bytes * N * bool * bool :=
    (block_id h, verify_block_fields kind exp_height exp_da p h txs,
     verify_consensus kind cfg sig h, validate_transactions h txs).

  (* ---- Pcheck: on the implementation's observations ----
     per block: accepted by the field checks => the model's rules hold (model verdict OK),
                consensus accepted => the model accepts;
     per pair (original, variant), kind PoA: both accepted by the field checks and the
     content differs => the observed ids differ. *)
  Definition header_eqb (a b : header) : bool :=
    bytes_eqb (prev_root a) (prev_root b) && (height a =? height b) && (time a =? time b) &&
    bytes_eqb (app_hash a) (app_hash b) && (da_height a =? da_height b) && (cpv a =? cpv b) &&
    (stf a =? stf b) && (tx_count a =? tx_count b) && (msg_count a =? msg_count b) &&
    bytes_eqb (tx_root a) (tx_root b) && bytes_eqb (outbox_root a) (outbox_root b) &&
    bytes_eqb (inbox_root a) (inbox_root b).
  Fixpoint txs_eqb (a b : list bytes) : bool :=
    match a, b with
    | [], [] => true
    | x :: a', y :: b' => bytes_eqb x y && txs_eqb a' b'
    | _, _ => false
    end.

  Definition obs := (bytes * N * bool * bool)%type.
  Definition obs_id (o : obs) : bytes := fst (fst (fst o)).
  Definition obs_fields (o : obs) : N := snd (fst (fst o)).
  Definition obs_consensus (o : obs) : bool := snd (fst o).

  Definition block_okb (kind exp_height exp_da : N) (cfg : cconfig) (p : parent)
             (sig : option N * bytes) (h : header) (txs : list bytes) (o : obs) : bool :=
    (negb (obs_fields o =? V_OK) || (verify_block_fields kind exp_height exp_da p h txs =? V_OK)) &&
    (negb (obs_consensus o) || verify_consensus kind cfg sig h).

  Definition pair_okb (h0 : header) (txs0 : list bytes) (o0 : obs)
             (h : header) (txs : list bytes) (o : obs) : bool :=
    negb ((obs_fields o0 =? V_OK) && (obs_fields o =? V_OK) &&
          negb (header_eqb h0 h && txs_eqb txs0 txs)) ||
    negb (bytes_eqb (obs_id o0) (obs_id o)).

End Hash.

(* ------------------------------------------------------------------ *)
(* T codecs and entry point                                            *)

Definition tBytes (b : bytes) : T := L (map tN b).
Definition getBytes (t : T) : option bytes := getListN t.

Definition T_header (t : T) : option header :=
  match t with
  | L [pr; ht; tm; ah; da; cp; st; tc; mc; tr; ob; ib] =>
      match getBytes pr, getN ht, getN tm, getBytes ah, getN da, getN cp with
      | Some pr, Some ht, Some tm, Some ah, Some da, Some cp =>
          match getN st, getN tc, getN mc, getBytes tr, getBytes ob, getBytes ib with
          | Some st, Some tc, Some mc, Some tr, Some ob, Some ib =>
              Some {| prev_root := pr; height := ht; time := tm; app_hash := ah; da_height := da;
                      cpv := cp; stf := st; tx_count := tc; msg_count := mc; tx_root := tr;
                      outbox_root := ob; inbox_root := ib |}
          | _, _, _, _, _, _ => None
          end
      | _, _, _, _, _, _ => None
      end
  | _ => None
  end.

Definition T_optBytes (t : T) : option (option bytes) :=
  match t with
  | L [] => Some None
  | L [b] => option_map Some (getBytes b)
  | _ => None
  end.
Definition T_parent (t : T) : option parent :=
  match t with
  | L [r; L []] => match T_optBytes r with Some r => Some {| p_root := r; p_header := None |} | None => None end
  | L [r; L [da; tm]] =>
      match T_optBytes r, getN da, getN tm with
      | Some r, Some da, Some tm => Some {| p_root := r; p_header := Some (da, tm) |}
      | _, _, _ => None
      end
  | _ => None
  end.
Definition T_pairN (t : T) : option (N * N) :=
  match t with
  | L [a; b] => match getN a, getN b with Some a, Some b => Some (a, b) | _, _ => None end
  | _ => None
  end.
Definition T_cfg (t : T) : option cconfig :=
  match t with
  | L [I 0%Z; k] => option_map CPoA (getN k)
  | L [I 1%Z; g; L ovs] => match getN g, mapM T_pairN ovs with
                          | Some g, Some ovs => Some (CPoAV2 g ovs) | _, _ => None end
  | _ => None
  end.
Definition T_sig (t : T) : option (option N * bytes) :=
  match t with
  | L [s; id] => match getOptN s, getBytes id with Some s, Some id => Some (s, id) | _, _ => None end
  | _ => None
  end.
(* transaction lists may be run-length encoded: an item (-1 n bytes) stands for n copies *)
Fixpoint T_txs (l : list T) : option (list bytes) :=
  match l with
  | [] => Some []
  | L [I (Zneg xH); n; b] :: r =>
      match getN n, getBytes b, T_txs r with
      | Some n, Some b, Some rest => Some (repeat b (N.to_nat n) ++ rest)
      | _, _, _ => None
      end
  | x :: r =>
      match getBytes x, T_txs r with
      | Some b, Some rest => Some (b :: rest)
      | _, _ => None
      end
  end.

(* one block: (kind sig header txs) *)
Definition blk := (N * (option N * bytes) * header * list bytes)%type.
Definition T_blk (t : T) : option blk :=
  match t with
  | L [k; s; h; L txs] =>
      match getN k, T_sig s, T_header h, T_txs txs with
      | Some k, Some s, Some h, Some txs => Some (k, s, h, txs)
      | _, _, _, _ => None
      end
  | _ => None
  end.
Definition obs_T (o : obs) : T :=
  L [tBytes (obs_id o); tN (obs_fields o); tB (obs_consensus o); tB (snd o)].
Definition T_obs (t : T) : option obs :=
  match t with
  | L [id; f; c; v] => match getBytes id, getN f, getB c, getB v with
                       | Some id, Some f, Some c, Some v => Some (id, f, c, v)
                       | _, _, _, _ => None end
  | _ => None
  end.

(* input: (exp_height exp_da cfg parent (block0 variant1 ... variantN)) *)
Definition main15 (input observed : T) : T :=
  match input with
  | L [eh; eda; cfg; p; L blocks] =>
      match getN eh, getN eda, T_cfg cfg, T_parent p, mapM T_blk blocks with
      | Some eh, Some eda, Some cfg, Some p, Some blocks =>
          let ob (b : blk) := let '(k, s, h, txs) := b in observe_block sha256 k eh eda cfg p s h txs in
          let model := L (map (fun b => obs_T (ob b)) blocks) in
          let pc :=
            match observed with
            | L os =>
                match mapM T_obs os with
                | Some os =>
                    (length os =? length blocks)%nat &&
                    forallb (fun bo => let '((k, s, h, txs), o) := bo in
                                       block_okb sha256 k eh eda cfg p s h txs o) (combine blocks os) &&
                    match combine blocks os with
                    | ((k0, _, h0, txs0), o0) :: rest =>
                        forallb (fun bo => let '((k, _, h, txs), o) := bo in
                                           negb ((k0 =? 1) && (k =? 1)) || pair_okb h0 txs0 o0 h txs o) rest
                    | [] => true
                    end
                | None => false
                end
            | _ => false
            end in
          L [model; tB pc]
      | _, _, _, _, _ => tErr 2
      end
  | _ => tErr 1
  end.

Definition main_T (req : T) : T :=
  match req with
  | L [I 15%Z; input; observed] => main15 input observed
  | _ => tErr 0
  end.
