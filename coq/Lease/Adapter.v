(* Lease cluster (C25), layer 2: the adapter logic, by hand from
   crates/fuel-core/src/service/adapters/consensus_module/poa.rs (RedisLeaderLeaseAdapter) and the
   reaction of the PoA service to leader_state / publish (poa/src/service.rs try_to_produce_block,
   importer.rs: publish before the local commit).  Pure decision functions over script replies.
   Executable definitions only. *)
From FC Require Export Lease.Lua Lease.LuaScripts.
Open Scope str_scope.
Open Scope N_scope.

(* keys used by the adapter: lease_key, "{lease_key}:epoch:token", "{lease_key}:block:stream" *)
Definition lease_key : str := "poa:leader:lock".
Definition epoch_key : str := "poa:leader:lock:epoch:token".
Definition stream_key : str := "poa:leader:lock:block:stream".

(* lease_owner_token: a fresh UUID per adapter instance; here "owner-<k>" *)
Definition owner_str (o : N) : str := "owner-" +++ dec o.

(* one script invocation as issued by the adapter *)
Inductive cmd :=
| CCheck (o : N)                                  (* check_lease_owner.lua *)
| CPromote (o ttl : N)                            (* promote_leader.lua *)
| CRelease (o : N)                                (* release_lock.lua *)
| CWrite (epoch o h : N) (data : str) (ttl maxlen : N)   (* write_block.lua *)
| CLatest                                         (* read_latest_stream_entry.lua *)
| CEntries (minh count : N).                      (* read_stream_entries.lua *)

Definition cmd_script (c : cmd) : script :=
  match c with
  | CCheck _ => check_lease_owner
  | CPromote _ _ => promote_leader
  | CRelease _ => release_lock
  | CWrite _ _ _ _ _ _ => write_block
  | CLatest => read_latest_stream_entry
  | CEntries _ _ => read_stream_entries
  end.
Definition cmd_keys (c : cmd) : list str :=
  match c with
  | CCheck _ | CRelease _ => [lease_key]
  | CPromote _ _ => [lease_key; epoch_key]
  | CWrite _ _ _ _ _ _ => [stream_key; epoch_key; lease_key]
  | CLatest | CEntries _ _ => [stream_key]
  end.
Definition cmd_argv (c : cmd) : list str :=
  match c with
  | CCheck o | CRelease o => [owner_str o]
  | CPromote o ttl => [owner_str o; dec ttl]
  | CWrite e o h d ttl ml => [dec e; owner_str o; dec h; d; dec ttl; dec ml]
  | CLatest => []
  | CEntries m c => [dec m; dec c]
  end.
Definition node_exec (c : cmd) (nd : node) : reply * node :=
  run_script (cmd_script c) (cmd_keys c) (cmd_argv c) nd.

(* the fencing epoch stored on a node (0 when the key is absent) *)
Definition node_epoch (nd : node) : N :=
  match live nd epoch_key with
  | Some (mkK (DStr v) _) => match tonum v with Some n => n | None => 0 end
  | _ => 0
  end.
Definition node_owner (nd : node) : option str :=
  match live nd lease_key with
  | Some (mkK (DStr v) _) => Some v
  | _ => None
  end.
Definition node_stream (nd : node) : list entry :=
  match live nd stream_key with
  | Some (mkK (DStream s) _) => s_entries s
  | _ => []
  end.

(* ------------------------------------------------------------------------------------ *)
(* decoding of replies (redis::FromRedisValue as used at each call site; a missing reply =
   connection error / timeout) *)

Fixpoint str_contains (needle hay : str) : bool :=
  match hay with
  | SNil => str_prefix needle hay
  | SCons _ r => str_prefix needle hay || str_contains needle r
  end.

Definition dec_check (r : option reply) : bool :=
  match r with Some (RInt 1%Z) => true | _ => false end.
Definition dec_promote (r : option reply) : option N :=
  match r with
  | Some (RInt z) => if (0 <=? z)%Z then Some (Z.to_N z) else None
  | _ => None
  end.

Inductive wres := WWritten | WExists | WFenced | WErr.
Definition dec_write (r : option reply) : wres :=
  match r with
  | Some (RBulk _) | Some (RStatus _) | Some (RInt _) => WWritten
  | Some (RErr m) => if str_contains "HEIGHT_EXISTS:" m then WExists
                     else if str_contains "FENCING_ERROR:" m then WFenced else WErr
  | _ => WErr
  end.

Fixpoint bulks (l : list reply) : option (list str) :=
  match l with
  | [] => Some []
  | RBulk s :: r => match bulks r with Some rs => Some (s :: rs) | None => None end
  | _ => None
  end.
(* read_latest_stream_entry_on_node: None = Err, Some None = no entry, Some (Some h) *)
Definition dec_latest (r : option reply) : option (option N) :=
  match r with
  | Some (RArr l) =>
      match bulks l with
      | Some [hs; _] => match tonum hs with
                        | Some h => if h <=? u32max then Some (Some h) else None
                        | None => None
                        end
      | Some _ => Some None
      | None => None
      end
  | Some RNil => Some None
  | _ => None
  end.

Definition dec_entry (r : reply) : option (N * N * str) :=
  match r with
  | RArr [RInt h; RInt e; RBulk d; RBulk _] =>
      if (0 <=? h)%Z && (Z.to_N h <=? u32max) && (0 <=? e)%Z && (Z.to_N e <=? u64max)
      then Some (Z.to_N h, Z.to_N e, d) else None
  | _ => None
  end.
Definition dec_entries (r : option reply) : option (list (N * N * str)) :=
  match r with
  | Some (RArr l) => mapM dec_entry l
  | Some RNil => Some []
  | _ => None
  end.

(* ------------------------------------------------------------------------------------ *)
(* quorum, voting *)

Definition calculate_quorum (n : nat) (budget : nat) : nat :=
  Nat.min (n / 2 + 1 + budget)%nat n.

Definition count_true (l : list bool) : nat := List.length (filter (fun b => b) l).

Fixpoint maxN (l : list N) : option N :=
  match l with
  | [] => None
  | x :: r => match maxN r with Some m => Some (N.max x m) | None => Some x end
  end.

(* per node: HashMap<height, HashMap<epoch, block>>: a later stream entry with the same
   (height, epoch) replaces the earlier one *)
Fixpoint ep_insert (e : N) (b : str) (m : list (N * str)) : list (N * str) :=
  match m with
  | [] => [(e, b)]
  | (e', b') :: r => if e =? e' then (e, b) :: r else (e', b') :: ep_insert e b r
  end.
Definition at_height (h : N) (snap : list (N * N * str)) : list (N * str) :=
  fold_left (fun m x => let '(h', e, b) := x in if h' =? h then ep_insert e b m else m) snap [].

(* votes: block id -> (max epoch, count, block); the block id is the block itself here *)
Fixpoint vote (e : N) (b : str) (vs : list (str * (N * nat))) : list (str * (N * nat)) :=
  match vs with
  | [] => [(b, (e, 1%nat))]
  | (b', (me, c)) :: r =>
      if str_eqb b b' then (b', (N.max me e, S c)) :: r else (b', (me, c)) :: vote e b r
  end.
Definition tally (h : N) (snaps : list (list (N * N * str))) : list (str * (N * nat)) :=
  fold_left (fun vs snap => fold_left (fun vs x => vote (fst x) (snd x) vs) (at_height h snap) vs) snaps [].

(* max_by_key over a HashMap: among the candidates with the greatest max-epoch the choice depends
   on the iteration order; [orc] resolves it *)
Definition winner (orc : nat) (vs : list (str * (N * nat))) : option (nat * str) :=
  match maxN (map (fun v => fst (snd v)) vs) with
  | None => None
  | Some m =>
      let tied := filter (fun v => fst (snd v) =? m) vs in
      match nth_error tied (orc mod (List.length tied))%nat with
      | Some (b, (_, c)) => Some (c, b)
      | None => None
      end
  end.

Definition nodes_with_height (h : N) (snaps : list (list (N * N * str))) : nat :=
  List.length (filter (fun snap => existsb (fun x => fst (fst x) =? h) snap) snaps).

(* block payloads: "b<height>.<variant>"; height_of parses the height back (a payload that
   does not parse can never be committed: the importer checks the height) *)
Definition data_str (h v : N) : str := "b" +++ dec h +++ "." +++ dec v.
Fixpoint until_dot (s : str) : str :=
  match s with
  | SNil => SNil
  | SCons c r => if Ascii.eqb c "."%char then SNil else SCons c (until_dot r)
  end.
Definition blk_height (b : str) : option N :=
  match b with
  | SCons c r => if Ascii.eqb c "b"%char then tonum (until_dot r) else None
  | SNil => None
  end.

(* unreconciled_blocks, the loop over heights.  It stops either with a final answer or because a
   sub-quorum block must be re-proposed (I/O), after which the loop is resumed. *)
Inductive rres :=
| RDone (acc : list str)               (* Ok(reconciled) *)
| RErrC (code : N)                        (* Err (1 = fewer than a quorum of nodes answered): 3 = no entries at next height, 6 = no candidate *)
| RNeed (iter : nat) (h : N) (acc : list str) (blk : str) (pre : nat).

Fixpoint reconcile (q : nat) (orc : nat) (snaps : list (list (N * N * str)))
         (iter : nat) (h : N) (acc : list str) : rres :=
  match iter with
  | O => RDone acc
  | S it =>
      if Nat.eqb (nodes_with_height h snaps) 0 then
        match acc with [] => RErrC 3 | _ => RDone acc end
      else
        match winner orc (tally h snaps) with
        | Some (c, b) =>
            if Nat.leb q c then
              if h =? u32max then RDone (acc ++ [b])
              else reconcile q orc snaps it (h + 1) (acc ++ [b])
            else RNeed it h acc b c
        | None => match acc with [] => RErrC 6 | _ => RDone acc end
        end
  end.

(* publish_block_on_all_nodes: results are taken in arrival order until `Written` reaches the
   quorum; everything after that is abandoned (Err) *)
Fixpoint collect (q : nat) (written : nat) (arrived : list (nat * wres)) : list (nat * wres) :=
  match arrived with
  | [] => []
  | (n, w) :: r =>
      let written' := match w with WWritten => S written | _ => written end in
      if Nat.leb q written' then [(n, w)] else (n, w) :: collect q written' r
  end.
Definition count_written (l : list (nat * wres)) : nat :=
  List.length (filter (fun x => match snd x with WWritten => true | _ => false end) l).
Definition has_fenced (l : list (nat * wres)) : bool :=
  existsb (fun x => match snd x with WFenced => true | _ => false end) l.

(* repair_sub_quorum_block: None = Err (lost the lock), Some reached *)
Definition repair_decide (q pre : nat) (received : list (nat * wres)) : option bool :=
  if has_fenced received then None
  else Some (Nat.leb q (pre + count_written received)).

(* calculate_remaining_validity_millis with elapsed = 0 (assumption: the promotion round trip is
   much shorter than the lease) *)
Definition validity (ttl : N) : N := ttl - (0 + (ttl / 100 + 2)).
