(* Lease cluster, property C25: statements only.  The scripts are the ones translated from
   crates/fuel-core/redis_leader_lease_adapter_scripts/*.lua on this run (LuaScripts.v). *)
From FC Require Import Lease.Model Lease.ProofsStr Lease.ProofsRO Lease.ProofsNode Lease.ProofsWrite Lease.ProofsEpoch Lease.Proofs25 Lease.ProofsRead Lease.ProofsSys Lease.ProofsSys3.
Open Scope str_scope.
Open Scope N_scope.

(* check_lease_owner / read_latest_stream_entry / read_stream_entries never change the node,
   whatever KEYS and ARGV are *)
Theorem readonly_scripts_leave_node_unchanged : forall keys argv nd,
  snd (run_script check_lease_owner keys argv nd) = nd /\
  snd (run_script read_latest_stream_entry keys argv nd) = nd /\
  snd (run_script read_stream_entries keys argv nd) = nd.
Proof.
  exact (fun keys argv nd =>
    conj (run_script_ro check_lease_owner keys argv nd check_ro)
      (conj (run_script_ro read_latest_stream_entry keys argv nd latest_ro)
            (run_script_ro read_stream_entries keys argv nd entries_ro))).
Qed.
Print Assumptions readonly_scripts_leave_node_unchanged.

(* per node, for every script invocation the adapter can issue (any owner, ttl, epoch, height,
   payload, MAXLEN; any eviction choice of the approximate XTRIM): the node invariant is kept, the
   fencing epoch never decreases, the clock is untouched, and only write_block.lua changes the stream *)
Theorem epoch_monotone : forall c nd, node_wf nd ->
  let nd' := snd (node_exec c nd) in
  node_wf nd' /\ node_epoch nd <= node_epoch nd' /\ n_now nd' = n_now nd /\
  (match c with CWrite _ _ _ _ _ _ => True | _ => node_stream nd' = node_stream nd end).
Proof. exact step_all. Qed.
Print Assumptions epoch_monotone.

(* ... hence along every sequence of invocations and clock advances (lease expiry) *)
Theorem epoch_monotone_run : forall cs nd, node_wf nd ->
  node_wf (node_run nd cs) /\ node_epoch nd <= node_epoch (node_run nd cs).
Proof. exact run_all. Qed.
Print Assumptions epoch_monotone_run.

(* a block write requires the caller to own the unexpired lock with an epoch that is not behind
   the node's; afterwards the node's epoch is the caller's *)
Theorem write_requires_owner : forall e o p d ttl ml nd, node_wf nd ->
  dec_write (Some (fst (node_exec (CWrite e o p d ttl ml) nd))) = WWritten ->
  node_owner nd = Some (owner_str o) /\ node_epoch nd <= e /\
  node_epoch (snd (node_exec (CWrite e o p d ttl ml) nd)) = e.
Proof. exact write_owner_epoch. Qed.
Print Assumptions write_requires_owner.

(* write_block.lua changes the stream only by appending its entry (then trimming a prefix), and
   only when the early-stopping scan finds no entry of that height *)
Theorem write_only_appends : forall e o p d ttl ml nd, node_wf nd ->
  let r := fst (node_exec (CWrite e o p d ttl ml) nd) in
  let nd' := snd (node_exec (CWrite e o p d ttl ml) nd) in
  (dec_write (Some r) <> WWritten -> node_stream nd' = node_stream nd) /\
  (dec_write (Some r) = WWritten ->
     scan p (rev (heights nd)) = false /\
     exists ms sq t k, node_stream nd' = skipn k (node_stream nd ++ [mkEntry ms sq (wf_fields p d e t)]) /\
                       (n_trim nd = 0 -> k = 0%nat)).
Proof. exact write_only_append. Qed.
Print Assumptions write_only_appends.

(* at most one block per height per node UNDER the stream-order hypothesis *)
Theorem height_unique_per_node : forall e o p d ttl ml nd, node_wf nd ->
  sorted (heights nd) -> NoDup (heights nd) ->
  NoDup (heights (snd (node_exec (CWrite e o p d ttl ml) nd))).
Proof. exact heights_unique_step. Qed.
Print Assumptions height_unique_per_node.

(* the scan loop of write_block.lua, as translated, is the early-stopping reverse scan [scan] *)
Theorem write_scan_is_early_stop : forall e o p d ttl ml es, Forall wf_entry es ->
  forall v0 v1 v5 v6 v7 v8 v9 v10 nd,
  exists en',
    exec_stmt (mkCtx [stream_key; epoch_key; lease_key] [dec e; owner_str o; dec p; d; dec ttl; dec ml])
              wb_loop
              [v0; v1; VNum (Z.of_N p); VTab (map reply_to_val (map entry_reply es)); VBool false;
               v5; v6; v7; v8; v9; v10] nd
    = ((if scan p (map entry_h es) then CRet (VErrT (exists_msg p)) else CNorm), en', nd).
Proof. exact wb_loop_exec. Qed.
Print Assumptions write_scan_is_early_stop.

(* on a stream sorted by height the scan finds every height that is present (so HEIGHT_EXISTS is returned) *)
Theorem height_unique_per_node_sorted : forall p hs, sorted hs -> In p hs -> scan p (rev hs) = true.
Proof. exact scan_sorted_finds. Qed.
Print Assumptions height_unique_per_node_sorted.

(* ... and without it the statement fails: heights 2, 1 in stream order allow a second block at 2 *)
Theorem height_unique_per_node_refuted :
  map entry_h (node_stream (snd (node_exec (CWrite 1 7 2 "b2.1" 1000 100) unsorted_node))) = [2; 1; 2]
  /\ map entry_d (node_stream (snd (node_exec (CWrite 1 7 2 "b2.1" 1000 100) unsorted_node))) = ["b2.0"; "b1.0"; "b2.1"].
Proof. exact unsorted_node_two_blocks. Qed.
Print Assumptions height_unique_per_node_refuted.

(* two quorums as computed by calculate_quorum share a node outside any `budget` nodes *)
Theorem quorums_intersect : forall n q b (f g w : nat -> bool),
  (q <= cnt f n)%nat -> (q <= cnt g n)%nat -> (cnt w n <= b)%nat -> (n + b < 2 * q)%nat ->
  exists k, (k < n)%nat /\ f k = true /\ g k = true /\ w k = false.
Proof. exact quorum_intersection. Qed.
Print Assumptions quorums_intersect.

Theorem calculate_quorum_is_intersecting : forall n b,
  (n / 2 + 1 + b <= n)%nat -> (n + b < 2 * calculate_quorum n b)%nat.
Proof. exact calculate_quorum_intersects. Qed.
Print Assumptions calculate_quorum_is_intersecting.

(* every decoded item of a read_stream_entries.lua reply is an entry of the node's stream, in
   stream order and each entry at most once *)
Theorem read_entries_sound : forall m c nd items, stream_wf nd ->
  dec_entries (Some (fst (node_exec (CEntries m c) nd))) = Some items ->
  exists xs, sub xs (node_stream nd) /\ items = map triple xs.
Proof. exact entries_sound. Qed.
Print Assumptions read_entries_sound.

(* C25, the variant that holds: in every run of the transition system (any interleaving of script
   executions, lost / delayed / abandoned requests and replies, lease expiry, replica restarts,
   any arrival order of write replies, any tie-break of the vote) in which
     - every node's stream is sorted by height in every visited state   (sorted_sys),
     - no node loses its data and the approximate XTRIM never evicts    (allowed),
     - two quorums intersect                                            (n < 2q),
   no two replicas hold different committed blocks at one height.  The stream-order hypothesis is
   exactly what repair_sub_quorum_block violates (no_fork_refuted below). *)
Theorem no_fork_sorted : forall c : cfg, (c_n c < 2 * c_q c)%nat ->
  forall (reps : nat) (acts : list action),
  sorted_run c (init_sys c reps) acts ->
  has_fork (run c (init_sys c reps) acts) = false.
Proof. exact no_fork_sorted_all. Qed.
Print Assumptions no_fork_sorted.

(* C25 as stated (no two replicas commit different blocks at one height) is REFUTED for the scripts
   and the adapter as written: a schedule of the transition system, without any loss of data *)
Theorem no_fork_refuted :
  exists (c : cfg) (replicas : nat) (schedule : list mstep),
    c_q c = calculate_quorum (c_n c) 0 /\ has_fork (mrun c (init_sys c replicas) schedule) = true.
Proof. exact (ex_intro _ c3 (ex_intro _ 3%nat (ex_intro _ l1_schedule (conj eq_refl l1_forks)))). Qed.
Print Assumptions no_fork_refuted.

(* the checkers evaluated on the observations of the real adapters mean what they say *)
Theorem lease_checkers_sound : forall q chains pubs streams,
  (chains_okb chains = true <-> chains_spec chains) /\
  (pubs_okb pubs = true <-> pubs_spec pubs) /\
  (quorum_okb q streams = true <-> quorum_spec q streams).
Proof.
  exact (fun q chains pubs streams =>
    conj (chains_okb_sound chains) (conj (pubs_okb_sound pubs) (quorum_okb_sound q streams))).
Qed.
Print Assumptions lease_checkers_sound.
