(* Lease cluster: a syntactic criterion for "this Lua fragment leaves the Redis node unchanged"
   (every redis.call names, literally, one of the read-only commands), proved sound for the
   interpreter once and applied to the translated scripts by computation. *)
From FC Require Import Lease.Adapter Lease.ProofsStr.
Open Scope str_scope.

Scheme expr_ind2 := Induction for expr Sort Prop
  with exprs_ind2 := Induction for exprs Sort Prop.
Combined Scheme expr_exprs_ind from expr_ind2, exprs_ind2.

Definition ro_cmd (c : str) : bool :=
  str_eqb c "GET" || str_eqb c "XRANGE" || str_eqb c "XREVRANGE" || str_eqb c "TIME".

Fixpoint expr_ro (e : expr) : bool :=
  match e with
  | ECall FRedisCall args =>
      match args with
      | XCons (EStr c) rest => ro_cmd c && exprs_ro rest
      | _ => false
      end
  | ECall _ args => exprs_ro args
  | EIndex a b => expr_ro a && expr_ro b
  | EBin _ a b => expr_ro a && expr_ro b
  | ELen a | ENot a => expr_ro a
  | ETable items => exprs_ro items
  | _ => true
  end
with exprs_ro (es : exprs) : bool :=
  match es with
  | XNil => true
  | XCons e r => expr_ro e && exprs_ro r
  end.

Fixpoint stmt_ro (s : stmt) : bool :=
  match s with
  | SSkip | SBreak => true
  | SSeq a b => stmt_ro a && stmt_ro b
  | SLocal _ e | SAssign _ e | SReturn e | SCall e | STableInsert _ e => expr_ro e
  | SIf c t e => expr_ro c && stmt_ro t && stmt_ro e
  | SForNum _ lo hi st b => expr_ro lo && expr_ro hi && expr_ro st && stmt_ro b
  | SForIpairs _ _ e b => expr_ro e && stmt_ro b
  end.

Definition eres_node (r : eres) : node := match r with EV _ nd => nd | EFail nd => nd end.

Lemma ro_cmd_node : forall c args nd, ro_cmd c = true -> snd (redis_cmd (c :: args) nd) = nd.
Proof.
  intros c args nd H. unfold ro_cmd in H.
  repeat (apply orb_true_iff in H; destruct H as [H|H]); apply str_eqb_eq in H; subst c;
    unfold redis_cmd; cbn [str_eqb Ascii.eqb Bool.eqb andb].
  - destruct args as [|k [|]]; try reflexivity.
    destruct (live nd k) as [[[]]|]; reflexivity.
  - destruct args as [|k [|lo [|hi rest]]]; try reflexivity.
    destruct (str_eqb lo "-" && str_eqb hi "+"); [|reflexivity].
    destruct (stream_of nd k), (opt_count rest); reflexivity.
  - destruct args as [|k [|hi [|lo rest]]]; try reflexivity.
    destruct (str_eqb hi "+" && str_eqb lo "-"); [|reflexivity].
    destruct (stream_of nd k), (opt_count rest); reflexivity.
  - destruct args; reflexivity.
Qed.

Lemma apply_bin_node : forall op a b nd, eres_node (apply_bin op a b nd) = nd.
Proof.
  intros. destruct op; cbn;
    try (destruct (val_eqb a b); reflexivity);
    try (destruct a, b; reflexivity);
    try (destruct (to_str_arg a), (to_str_arg b); reflexivity); reflexivity.
Qed.

Lemma apply_fn_node : forall f args nd,
  match f with FRedisCall => False | _ => True end -> eres_node (apply_fn f args nd) = nd.
Proof.
  intros f args nd H. destruct f; try contradiction;
    destruct args as [|v [|v2 r]]; cbn; try reflexivity;
    destruct v; cbn; try reflexivity.
  - destruct (tonum s); reflexivity.
  - destruct b; reflexivity.
Qed.

Lemma redis_call_node : forall c vs nd, ro_cmd c = true ->
  eres_node (apply_fn FRedisCall (VStr c :: vs) nd) = nd.
Proof.
  intros. cbn. destruct (str_args vs); [|reflexivity].
  pose proof (ro_cmd_node c l nd H) as E.
  destruct (redis_cmd (c :: l) nd) as [r nd']. cbn in E. subst nd'. destruct r; reflexivity.
Qed.

Lemma eval_ro : forall cx,
  (forall e en nd, expr_ro e = true -> eres_node (eval_expr cx e en nd) = nd) /\
  (forall es en nd, exprs_ro es = true -> snd (eval_exprs cx es en nd) = nd).
Proof.
  intro cx. apply expr_exprs_ind; intros; simpl eval_expr; simpl eval_exprs; try reflexivity.
  - (* EIndex *)
    cbn in H1. apply andb_true_iff in H1. destruct H1 as [Ha Hb].
    specialize (H en nd Ha). destruct (eval_expr cx t en nd); cbn in H; subst; [|reflexivity].
    specialize (H0 en nd Hb). destruct (eval_expr cx i en nd); cbn in H0; subst; [|reflexivity].
    destruct v, v0; reflexivity.
  - cbn in H0. specialize (H en nd H0). destruct (eval_expr cx e en nd); cbn in H; subst; [|reflexivity].
    destruct v; reflexivity.
  - cbn in H0. specialize (H en nd H0). destruct (eval_expr cx e en nd); cbn in H; subst; reflexivity.
  - (* EBin *)
    cbn in H1. apply andb_true_iff in H1. destruct H1 as [Ha Hb].
    specialize (H en nd Ha).
    destruct op;
      try (destruct (eval_expr cx a en nd); cbn in H; subst; [|reflexivity];
           specialize (H0 en nd Hb); destruct (eval_expr cx b en nd); cbn in H0; subst; [|reflexivity];
           apply apply_bin_node).
    + destruct (eval_expr cx a en nd); cbn in H; subst; [|reflexivity].
      destruct (truthy v); [apply H0; assumption | reflexivity].
    + destruct (eval_expr cx a en nd); cbn in H; subst; [|reflexivity].
      destruct (truthy v); [reflexivity | apply H0; assumption].
  - (* ECall *)
    destruct f.
    + cbn in H0. specialize (H en nd H0). destruct (eval_exprs cx args en nd) as [[vs|] nd1]; cbn in H; subst;
        [apply apply_fn_node; exact Logic.I | reflexivity].
    + cbn in H0. specialize (H en nd H0). destruct (eval_exprs cx args en nd) as [[vs|] nd1]; cbn in H; subst;
        [apply apply_fn_node; exact Logic.I | reflexivity].
    + (* redis.call *)
      cbn in H0. destruct args as [|e0 rest]; [discriminate|]. destruct e0; try discriminate.
      apply andb_true_iff in H0. destruct H0 as [Hc Hr].
      assert (Hx : exprs_ro (XCons (EStr s) rest) = true) by (cbn; exact Hr).
      specialize (H en nd Hx). simpl eval_exprs in *. simpl eval_expr in *.
      destruct (eval_exprs cx rest en nd) as [[vs|] nd1]; cbn in H; subst; [|reflexivity].
      apply redis_call_node. assumption.
    + cbn in H0. specialize (H en nd H0). destruct (eval_exprs cx args en nd) as [[vs|] nd1]; cbn in H; subst;
        [apply apply_fn_node; exact Logic.I | reflexivity].
    + cbn in H0. specialize (H en nd H0). destruct (eval_exprs cx args en nd) as [[vs|] nd1]; cbn in H; subst;
        [apply apply_fn_node; exact Logic.I | reflexivity].
  - (* ETable *)
    cbn in H0. specialize (H en nd H0). destruct (eval_exprs cx items en nd) as [[vs|] nd1]; cbn in H; subst; reflexivity.
  - (* XCons *)
    cbn in H1. apply andb_true_iff in H1. destruct H1 as [Ha Hb].
    specialize (H en nd Ha). destruct (eval_expr cx e en nd); cbn in H; subst; [|reflexivity].
    specialize (H0 en nd Hb). destruct (eval_exprs cx es en nd) as [[vs|] nd1]; cbn in H0; subst; reflexivity.
Qed.

Definition sres_node (r : sres) : node := snd r.

Lemma loop_ro : forall body items idx en nd,
  (forall i v en nd, sres_node (body i v en nd) = nd) ->
  sres_node (loop body items idx en nd) = nd.
Proof.
  intros body items. induction items; intros; cbn; [reflexivity|].
  pose proof (H (VNum idx) a en nd) as E.
  destruct (body (VNum idx) a en nd) as [[c en'] nd']. cbn in E. subst nd'.
  destruct c; try reflexivity. apply IHitems. assumption.
Qed.

Lemma exec_ro : forall cx s en nd, stmt_ro s = true -> sres_node (exec_stmt cx s en nd) = nd.
Proof.
  intros cx s. induction s; intros en nd H; cbn [exec_stmt]; cbn in H; try reflexivity.
  - apply andb_true_iff in H. destruct H as [Ha Hb].
    specialize (IHs1 en nd Ha). destruct (exec_stmt cx s1 en nd) as [[c en1] nd1]. cbn in IHs1. subst.
    destruct c; try reflexivity. apply IHs2. assumption.
  - pose proof (proj1 (eval_ro cx) e en nd H) as E. destruct (eval_expr cx e en nd); cbn in E; subst; reflexivity.
  - pose proof (proj1 (eval_ro cx) e en nd H) as E. destruct (eval_expr cx e en nd); cbn in E; subst; reflexivity.
  - apply andb_true_iff in H. destruct H as [H He]. apply andb_true_iff in H. destruct H as [Hc Ht].
    pose proof (proj1 (eval_ro cx) c en nd Hc) as E. destruct (eval_expr cx c en nd); cbn in E; subst; [|reflexivity].
    destruct (truthy v); [apply IHs1 | apply IHs2]; assumption.
  - apply andb_true_iff in H. destruct H as [H Hb]. apply andb_true_iff in H. destruct H as [H Hst].
    apply andb_true_iff in H. destruct H as [Hlo Hhi].
    pose proof (proj1 (eval_ro cx) lo en nd Hlo) as E. destruct (eval_expr cx lo en nd) as [v1 n1|n1]; cbn in E; subst; [|reflexivity].
    destruct v1; try reflexivity.
    pose proof (proj1 (eval_ro cx) hi en nd Hhi) as E. destruct (eval_expr cx hi en nd) as [v2 n2|n2]; cbn in E; subst; [|reflexivity].
    destruct v2; try reflexivity.
    pose proof (proj1 (eval_ro cx) step en nd Hst) as E. destruct (eval_expr cx step en nd) as [v3 n3|n3]; cbn in E; subst; [|reflexivity].
    destruct v3; try reflexivity.
    destruct (z1 <=? 0)%Z; [reflexivity|].
    apply loop_ro. intros. apply IHs. assumption.
  - apply andb_true_iff in H. destruct H as [He Hb].
    pose proof (proj1 (eval_ro cx) e en nd He) as E. destruct (eval_expr cx e en nd) as [v1 n1|n1]; cbn in E; subst; [|reflexivity].
    destruct v1; try reflexivity.
    apply loop_ro. intros. apply IHs. assumption.
  - pose proof (proj1 (eval_ro cx) e en nd H) as E. destruct (eval_expr cx e en nd); cbn in E; subst; reflexivity.
  - pose proof (proj1 (eval_ro cx) e en nd H) as E. destruct (eval_expr cx e en nd); cbn in E; subst; reflexivity.
  - pose proof (proj1 (eval_ro cx) e en nd H) as E. destruct (eval_expr cx e en nd); cbn in E; subst; [|reflexivity].
    destruct (env_get slot en); reflexivity.
Qed.

Lemma run_script_ro : forall sc keys argv nd,
  stmt_ro (sc_body sc) = true -> snd (run_script sc keys argv nd) = nd.
Proof.
  intros. unfold run_script.
  pose proof (exec_ro (mkCtx keys argv) (sc_body sc) (repeat VNil (sc_slots sc)) nd H) as E.
  destruct (exec_stmt _ _ _ nd) as [[c en] nd']. cbn in E. subst. destruct c; reflexivity.
Qed.

(* the three read-only scripts, as translated today *)
Lemma check_ro : stmt_ro (sc_body check_lease_owner) = true. Proof. reflexivity. Qed.
Lemma latest_ro : stmt_ro (sc_body read_latest_stream_entry) = true. Proof. reflexivity. Qed.
Lemma entries_ro : stmt_ro (sc_body read_stream_entries) = true. Proof. reflexivity. Qed.
