(* Lease cluster: pure facts about the adapter's decision functions (voting, reconcile loop,
   collection of write results) used by the system-level invariant. *)
From Coq Require Import ZifyBool ZifyN ZifyNat Permutation.
From FC Require Import Lease.Adapter Lease.ProofsStr.
Open Scope str_scope.
Open Scope N_scope.

Definition hgt (x : N * N * str) : N := fst (fst x).

(* a snapshot (decoded read_stream_entries reply) with at most one item per height *)
Definition snap_has (snap : list (N * N * str)) (h : N) (b : str) : bool :=
  existsb (fun x => (hgt x =? h) && str_eqb (snd x) b) snap.

Lemma snap_has_in : forall snap h b, snap_has snap h b = true <-> exists e, In (h, e, b) snap.
Proof.
  intros. unfold snap_has. rewrite existsb_exists. split.
  - intros ([[h' e] d] & I & H). apply andb_true_iff in H. destruct H as [H1 H2].
    apply N.eqb_eq in H1. apply str_eqb_eq in H2. cbn in *. subst. exists e. assumption.
  - intros [e I]. exists (h, e, b). split; [assumption|]. cbn. rewrite N.eqb_refl, str_eqb_refl. reflexivity.
Qed.

Definition ah_step (h : N) (m : list (N * str)) (x : N * N * str) : list (N * str) :=
  let '(h', e, b) := x in if h' =? h then ep_insert e b m else m.

Lemma at_height_fold : forall h snap, at_height h snap = fold_left (ah_step h) snap [].
Proof. reflexivity. Qed.

Lemma ah_none : forall h snap m, (forall x, In x snap -> hgt x <> h) -> fold_left (ah_step h) snap m = m.
Proof.
  induction snap as [|[[h' e] d] r IH]; intros m H; cbn; [reflexivity|].
  destruct (N.eqb_spec h' h) as [E|E].
  - exfalso. apply (H (h', e, d)); [left; reflexivity | exact E].
  - apply IH. intros. apply H. right. assumption.
Qed.

Lemma at_height_single : forall h snap, NoDup (map hgt snap) ->
  at_height h snap = [] \/ exists e d, In (h, e, d) snap /\ at_height h snap = [(e, d)].
Proof.
  intros h snap. rewrite at_height_fold.
  induction snap as [|[[h' e] d] r IH]; intro ND; cbn; [left; reflexivity|].
  inversion ND as [|? ? NI ND']; subst.
  destruct (N.eqb_spec h' h) as [E|E].
  - subst h'. right. exists e, d. split; [left; reflexivity|].
    cbn. apply ah_none. intros x I Hx. apply NI. cbn. rewrite <- Hx. apply in_map. assumption.
  - destruct (IH ND') as [H|(e' & d' & I & H)]; [left; assumption|].
    right. exists e', d'. split; [right; assumption | assumption].
Qed.

(* counts in the vote table never exceed the number of snapshots holding that block *)
Lemma vote_bound : forall (K : str -> nat) e b vs,
  (forall b' me c, In (b', (me, c)) vs -> (c <= K b')%nat) ->
  forall b' me c, In (b', (me, c)) (vote e b vs) -> (c <= K b' + (if str_eqb b b' then 1 else 0))%nat.
Proof.
  induction vs as [|[b0 [me0 c0]] r IH]; intros H b' me c I; cbn in I.
  - destruct I as [I|[]]. inversion I; subst. rewrite str_eqb_refl. lia.
  - destruct (str_eqb b b0) eqn:E.
    + apply str_eqb_eq in E. subst b0. destruct I as [I|I].
      * inversion I; subst. rewrite str_eqb_refl. specialize (H b' me0 c0 (or_introl eq_refl)). lia.
      * specialize (H b' me c (or_intror I)). destruct (str_eqb b b'); lia.
    + destruct I as [I|I].
      * inversion I; subst. rewrite E. specialize (H b' me c (or_introl eq_refl)). lia.
      * apply (IH (fun b'0 me1 c1 I0 => H b'0 me1 c1 (or_intror I0)) b' me c I).
Qed.

Lemma vote_in : forall e b vs b' x, In (b', x) (vote e b vs) -> b' = b \/ exists y, In (b', y) vs.
Proof.
  induction vs as [|[b0 [me0 c0]] r IH]; intros b' x I; cbn in I.
  - destruct I as [I|[]]. inversion I. left. reflexivity.
  - destruct (str_eqb b b0) eqn:E.
    + destruct I as [I|I]; [inversion I; subst; right; eexists; left; reflexivity | right; eexists; right; eassumption].
    + destruct I as [I|I]; [inversion I; subst; right; eexists; left; reflexivity|].
      destruct (IH _ _ I) as [->|[y Hy]]; [left; reflexivity | right; exists y; right; assumption].
Qed.

Definition has_count (h : N) (b : str) (snaps : list (list (N * N * str))) : nat :=
  List.length (filter (fun snap => snap_has snap h b) snaps).

Lemma tally_fold_bound : forall h snaps vs (K : str -> nat),
  Forall (fun snap => NoDup (map hgt snap)) snaps ->
  (forall b me c, In (b, (me, c)) vs -> (c <= K b)%nat) ->
  forall b me c,
  In (b, (me, c)) (fold_left (fun vs snap => fold_left (fun vs x => vote (fst x) (snd x) vs) (at_height h snap) vs) snaps vs) ->
  (c <= K b + has_count h b snaps)%nat.
Proof.
  induction snaps as [|snap r IH]; intros vs K F H b me c I; cbn in I.
  - unfold has_count. cbn. specialize (H _ _ _ I). lia.
  - inversion F as [|? ? ND F']; subst.
    unfold has_count. cbn [filter].
    destruct (at_height_single h snap ND) as [E|(e & d & Hin & E)]; rewrite E in I; cbn in I.
    + specialize (IH vs K F' H b me c I). unfold has_count in IH. destruct (snap_has snap h b); cbn [Datatypes.length]; [rewrite Nat.add_succ_r; apply le_S; exact IH | exact IH].
    + specialize (IH (vote e d vs) (fun b' => (K b' + (if str_eqb d b' then 1 else 0))%nat) F'
                     (vote_bound K e d vs H) b me c I).
      unfold has_count in IH. cbn beta in IH.
      destruct (str_eqb d b) eqn:Ed.
      * apply str_eqb_eq in Ed. subst d.
        assert (S : snap_has snap h b = true) by (apply snap_has_in; exists e; assumption).
        rewrite S. cbn [Datatypes.length]. lia.
      * destruct (snap_has snap h b); cbn [Datatypes.length]; lia.
Qed.

Lemma tally_bound : forall h snaps b me c,
  Forall (fun snap => NoDup (map hgt snap)) snaps ->
  In (b, (me, c)) (tally h snaps) -> (c <= has_count h b snaps)%nat.
Proof.
  intros. unfold tally in H0.
  pose proof (tally_fold_bound h snaps [] (fun _ => O) H (fun _ _ _ (I : In _ []) => match I with end) b me c H0) as X. cbn beta in X. lia.
Qed.

Lemma vote_pos : forall e b vs,
  (forall b' me c, In (b', (me, c)) vs -> (1 <= c)%nat) ->
  forall b' me c, In (b', (me, c)) (vote e b vs) -> (1 <= c)%nat.
Proof.
  induction vs as [|[b0 [me0 c0]] r IH]; intros H b' me c I; cbn in I.
  - destruct I as [I|[]]. inversion I. lia.
  - destruct (str_eqb b b0).
    + destruct I as [I|I]; [inversion I; lia | eapply H; right; eassumption].
    + destruct I as [I|I]; [inversion I; subst; eapply H; left; reflexivity|].
      eapply IH; [|eassumption]. intros. eapply H. right. eassumption.
Qed.

Lemma tally_pos : forall h snaps b me c, In (b, (me, c)) (tally h snaps) -> (1 <= c)%nat.
Proof.
  intros h snaps. unfold tally.
  assert (G : forall vs, (forall b' me c, In (b', (me, c)) vs -> (1 <= c)%nat) ->
              forall b me c, In (b, (me, c)) (fold_left (fun vs snap => fold_left (fun vs x => vote (fst x) (snd x) vs) (at_height h snap) vs) snaps vs) -> (1 <= c)%nat).
  { induction snaps as [|snap r IH]; intros vs H b me c I; cbn in I; [eapply H; eassumption|].
    eapply IH; [|eassumption].
    clear I IH. revert vs H. induction (at_height h snap) as [|[e0 d0] l IHl]; intros vs H; cbn; [assumption|].
    apply IHl. apply vote_pos. assumption. }
  intros. eapply G; [|eassumption]. intros ? ? ? [].
Qed.

Lemma winner_in : forall orc vs c b, winner orc vs = Some (c, b) -> exists me, In (b, (me, c)) vs.
Proof.
  unfold winner. intros orc vs c b H.
  destruct (maxN (map (fun v => fst (snd v)) vs)) as [m|]; [|discriminate].
  destruct (nth_error (filter (fun v => fst (snd v) =? m) vs) (orc mod List.length (filter (fun v => fst (snd v) =? m) vs))) as [[b0 [me c0]]|] eqn:E; [|discriminate].
  inversion H; subst. apply nth_error_In in E. apply filter_In in E. destruct E as [E _]. exists me. assumption.
Qed.

(* collection of write results *)
Lemma collect_in : forall q l k x, In x (collect q k l) -> In x l.
Proof.
  induction l as [|[n w] r IH]; cbn; intros k x I; [contradiction|].
  destruct (Nat.leb q (match w with WWritten => S k | _ => k end)).
  - destruct I as [I|[]]. left. assumption.
  - destruct I as [I|I]; [left; assumption | right; eapply IH; eassumption].
Qed.

Lemma collect_nodup : forall q l k, NoDup (map fst l) -> NoDup (map fst (collect q k l)).
Proof.
  induction l as [|[n w] r IH]; cbn; intros k ND; [constructor|].
  inversion ND; subst.
  destruct (Nat.leb q (match w with WWritten => S k | _ => k end)); cbn.
  - constructor; [intros []|constructor].
  - constructor; [|apply IH; assumption].
    intro I. apply H1. apply in_map_iff in I. destruct I as ([n' w'] & E & I). cbn in E. subst.
    apply in_map_iff. exists (n, w'). split; [reflexivity|]. eapply collect_in. eassumption.
Qed.

Lemma filter_perm : forall {A} (f : A -> bool) l,
  Permutation (filter f l ++ filter (fun x => negb (f x)) l) l.
Proof.
  induction l as [|a l IH]; cbn; [constructor|].
  destruct (f a); cbn.
  - constructor. assumption.
  - apply Permutation_sym. apply Permutation_cons_app. apply Permutation_sym. assumption.
Qed.
