(* Lease cluster: facts about the private string type and decimal rendering. *)
From Coq Require Import Decimal DecimalN DecimalPos.
From FC Require Import Lease.Str.

Lemma str_eqb_refl : forall a, str_eqb a a = true.
Proof. induction a; cbn; [reflexivity|]. rewrite Ascii.eqb_refl, IHa. reflexivity. Qed.

Lemma str_eqb_eq : forall a b, str_eqb a b = true <-> a = b.
Proof.
  induction a; destruct b; cbn; split; intro H; try discriminate; try reflexivity.
  - apply andb_true_iff in H. destruct H as [H1 H2].
    apply Ascii.eqb_eq in H1. apply IHa in H2. subst. reflexivity.
  - inversion H; subst. rewrite Ascii.eqb_refl, str_eqb_refl. reflexivity.
Qed.

Lemma str_eqb_neq : forall a b, str_eqb a b = false <-> a <> b.
Proof.
  intros. split; intro H.
  - intro E. apply str_eqb_eq in E. congruence.
  - destruct (str_eqb a b) eqn:E; [|reflexivity]. apply str_eqb_eq in E. contradiction.
Qed.

Lemma uint_of_str_of_uint : forall d, uint_of_str (str_of_uint d) = Some d.
Proof. induction d; cbn; try reflexivity; rewrite IHd; reflexivity. Qed.

Lemma str_of_uint_nonnil : forall d, d <> Decimal.Nil -> str_of_uint d <> SNil.
Proof. destruct d; cbn; intros; congruence. Qed.

Lemma to_uint_nonnil : forall n, N.to_uint n <> Decimal.Nil.
Proof.
  destruct n; cbn.
  - discriminate.
  - apply Unsigned.to_uint_nonnil.
Qed.

Lemma tonum_dec : forall n, tonum (dec n) = Some n.
Proof.
  intros. unfold tonum, dec.
  pose proof (str_of_uint_nonnil _ (to_uint_nonnil n)) as H.
  destruct (str_of_uint (N.to_uint n)) eqn:E; [contradiction|].
  rewrite <- E, uint_of_str_of_uint, DecimalN.Unsigned.of_to. reflexivity.
Qed.

Lemma dec_inj : forall a b, dec a = dec b -> a = b.
Proof.
  intros a b H. pose proof (tonum_dec a) as Ha. rewrite H, tonum_dec in Ha. congruence.
Qed.
