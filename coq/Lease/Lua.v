(* Lease cluster (C25), layer 1: the Lua subset used by the six Redis scripts of the leader-lease
   adapter as a deep-embedded AST (filled in by translators/lua2coq.py -> LuaScripts.v), a model
   of ONE Redis node (str keys with expiry against a logical clock, INCR, streams), and a
   total big-step interpreter.  Loops are bounded by the data they iterate over (numeric `for`
   with a positive step, `ipairs`), so no fuel is needed: the interpreter is structurally
   recursive on the statement.  Executable definitions only. *)
From FC Require Export Lease.Str.
Open Scope str_scope.
Open Scope Z_scope.

(* ------------------------------------------------------------------------------------ *)
(* AST *)

Inductive binop := BEq | BNe | BLt | BLe | BGt | BGe | BAdd | BSub | BConcat | BAnd | BOr.
Inductive fn := FToNumber | FToString | FRedisCall | FErrorReply | FStatusReply.

Inductive expr :=
| ENil | ETrue | EFalse
| ENum (z : Z)
| EStr (s : str)
| EVar (slot : nat)
| EKeys | EArgv
| EIndex (t i : expr)
| ELen (e : expr)
| ENot (e : expr)
| EBin (op : binop) (a b : expr)
| ECall (f : fn) (args : exprs)
| ETable (items : exprs)
with exprs := XNil | XCons (e : expr) (es : exprs).

Inductive stmt :=
| SSkip
| SSeq (a b : stmt)
| SLocal (slot : nat) (e : expr)
| SAssign (slot : nat) (e : expr)
| SIf (c : expr) (t e : stmt)
| SForNum (slot : nat) (lo hi step : expr) (body : stmt)
| SForIpairs (kslot vslot : nat) (e : expr) (body : stmt)
| SBreak
| SReturn (e : expr)
| SCall (e : expr)
| STableInsert (slot : nat) (e : expr).

Record script := mkScript { sc_slots : nat; sc_body : stmt }.

(* ------------------------------------------------------------------------------------ *)
(* values; decimal strings *)

Inductive val :=
| VNil
| VBool (b : bool)
| VNum (z : Z)
| VStr (s : str)
| VTab (l : list val)          (* array-like table *)
| VErrT (s : str)           (* the table {err = s} built by redis.error_reply *)
| VOkT (s : str).           (* the table {ok = s}: status replies *)

Definition zdec (z : Z) : str :=
  match z with
  | Zneg p => "-" +++ dec (Npos p)
  | _ => dec (Z.to_N z)
  end.

Definition truthy (v : val) : bool :=
  match v with VNil => false | VBool b => b | _ => true end.

Definition val_eqb (a b : val) : option bool :=
  match a, b with
  | VNil, VNil => Some true
  | VBool x, VBool y => Some (Bool.eqb x y)
  | VNum x, VNum y => Some (Z.eqb x y)
  | VStr x, VStr y => Some (str_eqb x y)
  | VTab _, _ | _, VTab _ | VErrT _, _ | _, VErrT _ | VOkT _, _ | _, VOkT _ => None
  | _, _ => Some false
  end.

(* conversions that compute under cbn on literals *)
Fixpoint pos_nat (p : positive) : nat :=
  match p with
  | xH => 1%nat
  | xO q => (2 * pos_nat q)%nat
  | xI q => S (2 * pos_nat q)
  end.
Definition z2nat (z : Z) : nat := match z with Zpos p => pos_nat p | _ => O end.
Definition n2nat (n : N) : nat := match n with Npos p => pos_nat p | N0 => O end.

Definition nth1 (l : list val) (i : Z) : val :=
  match i with
  | Zpos p => nth (pred (pos_nat p)) l VNil
  | _ => VNil
  end.

Definition to_str_arg (v : val) : option str :=
  match v with
  | VStr s => Some s
  | VNum z => Some (zdec z)
  | _ => None
  end.

Fixpoint take_until_nil (l : list val) : list val :=
  match l with
  | [] => []
  | VNil :: _ => []
  | v :: r => v :: take_until_nil r
  end.

(* ------------------------------------------------------------------------------------ *)
(* one Redis node *)

Inductive reply :=
| RNil
| RInt (z : Z)
| RBulk (s : str)
| RStatus (s : str)
| RErr (s : str)            (* error reply built by the script / by a command *)
| RFail                        (* the script aborted with a Lua runtime error; text not modelled *)
| RArr (l : list reply).

Record entry := mkEntry { e_ms : N; e_seq : N; e_fields : list str }.
Record stream := mkStream { s_entries : list entry; s_last_ms : N; s_last_seq : N }.
Inductive kdata := DStr (s : str) | DStream (s : stream).
Record kentry := mkK { k_data : kdata; k_exp : option N }.
Record node := mkNode {
  n_kv : str -> option kentry; (* the key space, as a function: only the keys named by the scripts are ever read *)
  n_now : N;                   (* logical clock, milliseconds *)
  n_trim : N                   (* how many entries `XTRIM MAXLEN ~` may evict at most (approximate trimming
                                  is allowed to keep more than MAXLEN; it never goes below it) *)
}.

Definition kv_empty : str -> option kentry := fun _ => None.
Definition empty_node : node := mkNode kv_empty 0%N 0%N.

Definition kv_set (k : str) (e : kentry) (m : str -> option kentry) : str -> option kentry :=
  fun k' => if str_eqb k' k then Some e else m k'.
Definition kv_del (k : str) (m : str -> option kentry) : str -> option kentry :=
  fun k' => if str_eqb k' k then None else m k'.

Definition live (nd : node) (k : str) : option kentry :=
  match n_kv nd k with
  | Some e => match k_exp e with
              | Some t => if (t <=? n_now nd)%N then None else Some e
              | None => Some e
              end
  | None => None
  end.
Definition put (nd : node) (k : str) (e : kentry) : node :=
  mkNode (kv_set k e (n_kv nd)) (n_now nd) (n_trim nd).
Definition del (nd : node) (k : str) : node :=
  mkNode (kv_del k (n_kv nd)) (n_now nd) (n_trim nd).

Definition id_str (ms sq : N) : str := dec ms +++ "-" +++ dec sq.
Definition entry_reply (e : entry) : reply :=
  RArr [RBulk (id_str (e_ms e) (e_seq e)); RArr (map RBulk (e_fields e))].

Definition wrongtype : str := "WRONGTYPE Operation against a key holding the wrong kind of value".
Definition err_syntax : str := "ERR syntax error".

(* SET options: NX and PX <ms> in any order *)
Fixpoint set_opts (opts : list str) (nx : bool) (px : option N) : option (bool * option N) :=
  match opts with
  | [] => Some (nx, px)
  | o :: r =>
      if str_eqb o "NX" then set_opts r true px
      else if str_eqb o "PX" then
        match r with
        | ms :: r' => match tonum ms with
                      | Some t => if (t =? 0)%N then None else set_opts r' nx (Some t)
                      | None => None
                      end
        | [] => None
        end
      else None
  end.

Definition opt_count (rest : list str) : option (option nat) :=
  match rest with
  | [] => Some None
  | [c; n] => if str_eqb c "COUNT" then
                match tonum n with Some k => Some (Some (n2nat k)) | None => None end
              else None
  | _ => None
  end.

Definition stream_of (nd : node) (k : str) : option (option stream) :=
  match live nd k with
  | None => Some None
  | Some (mkK (DStream s) _) => Some (Some s)
  | Some _ => None
  end.

Definition redis_cmd (args : list str) (nd : node) : reply * node :=
  match args with
  | [] => (RErr "ERR empty command", nd)
  | c :: a =>
    if str_eqb c "GET" then
      match a with
      | [k] => match live nd k with
               | None => (RNil, nd)
               | Some (mkK (DStr v) _) => (RBulk v, nd)
               | Some _ => (RErr wrongtype, nd)
               end
      | _ => (RErr err_syntax, nd)
      end
    else if str_eqb c "SET" then
      match a with
      | k :: v :: opts =>
          match set_opts opts false None with
          | None => (RErr err_syntax, nd)
          | Some (nx, px) =>
              if nx && (match live nd k with Some _ => true | None => false end)
              then (RNil, nd)
              else (RStatus "OK",
                    put nd k (mkK (DStr v) (match px with Some t => Some (n_now nd + t)%N | None => None end)))
          end
      | _ => (RErr err_syntax, nd)
      end
    else if str_eqb c "INCR" then
      match a with
      | [k] => match live nd k with
               | None => (RInt 1, put nd k (mkK (DStr "1") None))
               | Some (mkK (DStr v) ex) =>
                   match tonum v with
                   | Some n => if str_eqb (dec n) v
                               then (RInt (Z.of_N (n + 1)), put nd k (mkK (DStr (dec (n + 1))) ex))
                               else (RErr "ERR value is not an integer or out of range", nd)
                   | None => (RErr "ERR value is not an integer or out of range", nd)
                   end
               | Some _ => (RErr wrongtype, nd)
               end
      | _ => (RErr err_syntax, nd)
      end
    else if str_eqb c "DEL" then
      match a with
      | [k] => match live nd k with
               | None => (RInt 0, del nd k)
               | Some _ => (RInt 1, del nd k)
               end
      | _ => (RErr err_syntax, nd)
      end
    else if str_eqb c "PEXPIRE" then
      match a with
      | [k; ms] => match tonum ms with
                   | None => (RErr "ERR value is not an integer or out of range", nd)
                   | Some t =>
                       match live nd k with
                       | None => (RInt 0, nd)
                       | Some e => if (t =? 0)%N then (RInt 1, del nd k)
                                   else (RInt 1, put nd k (mkK (k_data e) (Some (n_now nd + t)%N)))
                       end
                   end
      | _ => (RErr err_syntax, nd)
      end
    else if str_eqb c "TIME" then
      match a with
      | [] => (RArr [RBulk (dec (n_now nd / 1000)); RBulk (dec ((n_now nd mod 1000) * 1000))], nd)
      | _ => (RErr err_syntax, nd)
      end
    else if str_eqb c "XADD" then
      match a with
      | k :: star :: fields =>
          if negb (str_eqb star "*") then (RErr "ERR only auto-generated ids are modelled", nd)
          else if Nat.even (length fields) && negb (Nat.eqb (length fields) 0) then
            match stream_of nd k with
            | None => (RErr wrongtype, nd)
            | Some os =>
                let s := match os with Some s => s | None => mkStream [] 0%N 0%N end in
                let ex := match live nd k with Some e => k_exp e | None => None end in
                let '(ms, sq) := if (s_last_ms s <? n_now nd)%N then (n_now nd, 0%N)
                                 else (s_last_ms s, (s_last_seq s + 1)%N) in
                (RBulk (id_str ms sq),
                 put nd k (mkK (DStream (mkStream (s_entries s ++ [mkEntry ms sq fields]) ms sq)) ex))
            end
          else (RErr "ERR wrong number of arguments for 'xadd' command", nd)
      | _ => (RErr err_syntax, nd)
      end
    else if str_eqb c "XREVRANGE" then
      match a with
      | k :: hi :: lo :: rest =>
          if str_eqb hi "+" && str_eqb lo "-" then
            match stream_of nd k, opt_count rest with
            | Some os, Some cnt =>
                let es := rev (match os with Some s => s_entries s | None => [] end) in
                let es := match cnt with Some n => firstn n es | None => es end in
                (RArr (map entry_reply es), nd)
            | None, _ => (RErr wrongtype, nd)
            | _, None => (RErr err_syntax, nd)
            end
          else (RErr "ERR only the full range is modelled", nd)
      | _ => (RErr err_syntax, nd)
      end
    else if str_eqb c "XRANGE" then
      match a with
      | k :: lo :: hi :: rest =>
          if str_eqb lo "-" && str_eqb hi "+" then
            match stream_of nd k, opt_count rest with
            | Some os, Some cnt =>
                let es := match os with Some s => s_entries s | None => [] end in
                let es := match cnt with Some n => firstn n es | None => es end in
                (RArr (map entry_reply es), nd)
            | None, _ => (RErr wrongtype, nd)
            | _, None => (RErr err_syntax, nd)
            end
          else (RErr "ERR only the full range is modelled", nd)
      | _ => (RErr err_syntax, nd)
      end
    else if str_eqb c "XTRIM" then
      match a with
      | [k; ml; approx; n] =>
          if str_eqb ml "MAXLEN" && str_eqb approx "~" then
            match tonum n, stream_of nd k with
            | Some mx, Some (Some s) =>
                let len := N.of_nat (length (s_entries s)) in
                let excess := (len - mx)%N in
                let ev := N.min excess (n_trim nd) in
                let ex := match live nd k with Some e => k_exp e | None => None end in
                (RInt (Z.of_N ev),
                 put nd k (mkK (DStream (mkStream (skipn (N.to_nat ev) (s_entries s)) (s_last_ms s) (s_last_seq s))) ex))
            | Some _, Some None => (RInt 0, nd)
            | None, _ => (RErr "ERR value is not an integer or out of range", nd)
            | _, None => (RErr wrongtype, nd)
            end
          else (RErr err_syntax, nd)
      | _ => (RErr err_syntax, nd)
      end
    else (RErr "ERR unknown command", nd)
  end.

(* Redis reply -> Lua value (the conversion done by redis.call) *)
Fixpoint reply_to_val (r : reply) : val :=
  match r with
  | RNil => VBool false
  | RInt z => VNum z
  | RBulk s => VStr s
  | RStatus s => VOkT s
  | RErr s => VErrT s
  | RFail => VNil
  | RArr l => VTab (map reply_to_val l)
  end.

(* Lua value -> Redis reply (the conversion done when a script returns) *)
Fixpoint val_to_reply (v : val) : reply :=
  match v with
  | VNil => RNil
  | VBool false => RNil
  | VBool true => RInt 1
  | VNum z => RInt z
  | VStr s => RBulk s
  | VErrT s => RErr s
  | VOkT s => RStatus s
  | VTab l => RArr ((fix go (l : list val) : list reply :=
                       match l with
                       | [] => []
                       | VNil :: _ => []
                       | x :: r => val_to_reply x :: go r
                       end) l)
  end.

(* ------------------------------------------------------------------------------------ *)
(* interpreter *)

Definition env := list val.
Definition env_get (s : nat) (e : env) : val := nth s e VNil.
Fixpoint env_set (s : nat) (v : val) (e : env) : env :=
  match s, e with
  | O, [] => [v]
  | O, _ :: r => v :: r
  | S s', [] => VNil :: env_set s' v []
  | S s', x :: r => x :: env_set s' v r
  end.

Record ctx := mkCtx { cx_keys : list str; cx_argv : list str }.

Inductive eres := EV (v : val) (nd : node) | EFail (nd : node).

Definition cmp_num (op : binop) (x y : Z) : bool :=
  match op with
  | BLt => x <? y | BLe => x <=? y | BGt => x >? y | BGe => x >=? y | _ => false
  end.

Definition apply_bin (op : binop) (a b : val) (nd : node) : eres :=
  match op with
  | BEq => match val_eqb a b with Some r => EV (VBool r) nd | None => EFail nd end
  | BNe => match val_eqb a b with Some r => EV (VBool (negb r)) nd | None => EFail nd end
  | BLt | BLe | BGt | BGe =>
      match a, b with
      | VNum x, VNum y => EV (VBool (cmp_num op x y)) nd
      | _, _ => EFail nd
      end
  | BAdd => match a, b with VNum x, VNum y => EV (VNum (x + y)) nd | _, _ => EFail nd end
  | BSub => match a, b with VNum x, VNum y => EV (VNum (x - y)) nd | _, _ => EFail nd end
  | BConcat => match to_str_arg a, to_str_arg b with
               | Some x, Some y => EV (VStr (x +++ y)) nd
               | _, _ => EFail nd
               end
  | BAnd | BOr => EFail nd      (* short-circuit forms are handled by eval_expr *)
  end.

Fixpoint str_args (l : list val) : option (list str) :=
  match l with
  | [] => Some []
  | v :: r => match to_str_arg v, str_args r with
              | Some s, Some rs => Some (s :: rs)
              | _, _ => None
              end
  end.

Definition apply_fn (f : fn) (args : list val) (nd : node) : eres :=
  match f, args with
  | FToNumber, [v] =>
      match v with
      | VNum z => EV (VNum z) nd
      | VStr s => match tonum s with Some n => EV (VNum (Z.of_N n)) nd | None => EV VNil nd end
      | _ => EV VNil nd
      end
  | FToString, [v] =>
      match v with
      | VNum z => EV (VStr (zdec z)) nd
      | VStr s => EV (VStr s) nd
      | VNil => EV (VStr "nil") nd
      | VBool true => EV (VStr "true") nd
      | VBool false => EV (VStr "false") nd
      | _ => EFail nd
      end
  | FErrorReply, [VStr s] => EV (VErrT s) nd
  | FStatusReply, [VStr s] => EV (VOkT s) nd
  | FRedisCall, _ =>
      match str_args args with
      | Some ss => let '(r, nd') := redis_cmd ss nd in
                   match r with
                   | RErr _ => EFail nd'          (* redis.call raises the command's error *)
                   | _ => EV (reply_to_val r) nd'
                   end
      | None => EFail nd
      end
  | _, _ => EFail nd
  end.

Section Interp.
Variable cx : ctx.

Fixpoint eval_expr (e : expr) (en : env) (nd : node) {struct e} : eres :=
  match e with
  | ENil => EV VNil nd
  | ETrue => EV (VBool true) nd
  | EFalse => EV (VBool false) nd
  | ENum z => EV (VNum z) nd
  | EStr s => EV (VStr s) nd
  | EVar s => EV (env_get s en) nd
  | EKeys => EV (VTab (map VStr (cx_keys cx))) nd
  | EArgv => EV (VTab (map VStr (cx_argv cx))) nd
  | EIndex t i =>
      match eval_expr t en nd with
      | EV tv nd1 =>
          match eval_expr i en nd1 with
          | EV iv nd2 =>
              match tv, iv with
              | VTab l, VNum z => EV (nth1 l z) nd2
              | VTab _, _ => EV VNil nd2
              | _, _ => EFail nd2
              end
          | EFail nd2 => EFail nd2
          end
      | EFail nd1 => EFail nd1
      end
  | ELen a =>
      match eval_expr a en nd with
      | EV (VTab l) nd1 => EV (VNum (Z.of_nat (List.length l))) nd1
      | EV (VStr s) nd1 => EV (VNum (Z.of_nat (str_len s))) nd1
      | EV _ nd1 => EFail nd1
      | EFail nd1 => EFail nd1
      end
  | ENot a =>
      match eval_expr a en nd with
      | EV v nd1 => EV (VBool (negb (truthy v))) nd1
      | EFail nd1 => EFail nd1
      end
  | EBin BAnd a b =>
      match eval_expr a en nd with
      | EV v nd1 => if truthy v then eval_expr b en nd1 else EV v nd1
      | EFail nd1 => EFail nd1
      end
  | EBin BOr a b =>
      match eval_expr a en nd with
      | EV v nd1 => if truthy v then EV v nd1 else eval_expr b en nd1
      | EFail nd1 => EFail nd1
      end
  | EBin op a b =>
      match eval_expr a en nd with
      | EV va nd1 =>
          match eval_expr b en nd1 with
          | EV vb nd2 => apply_bin op va vb nd2
          | EFail nd2 => EFail nd2
          end
      | EFail nd1 => EFail nd1
      end
  | ECall f args =>
      match eval_exprs args en nd with
      | (Some vs, nd1) => apply_fn f vs nd1
      | (None, nd1) => EFail nd1
      end
  | ETable items =>
      match eval_exprs items en nd with
      | (Some vs, nd1) => EV (VTab vs) nd1
      | (None, nd1) => EFail nd1
      end
  end
with eval_exprs (es : exprs) (en : env) (nd : node) {struct es} : option (list val) * node :=
  match es with
  | XNil => (Some [], nd)
  | XCons e r =>
      match eval_expr e en nd with
      | EV v nd1 => match eval_exprs r en nd1 with
                    | (Some vs, nd2) => (Some (v :: vs), nd2)
                    | (None, nd2) => (None, nd2)
                    end
      | EFail nd1 => (None, nd1)
      end
  end.

Inductive ctl := CNorm | CBrk | CRet (v : val) | CFail.
Definition sres : Type := ctl * env * node.

Fixpoint loop (body : val -> val -> env -> node -> sres) (items : list val) (idx : Z)
         (en : env) (nd : node) : sres :=
  match items with
  | [] => (CNorm, en, nd)
  | v :: rest =>
      match body (VNum idx) v en nd with
      | (CNorm, en', nd') => loop body rest (idx + 1) en' nd'
      | (CBrk, en', nd') => (CNorm, en', nd')
      | r => r
      end
  end.

(* lo, lo+step, ... <= hi  for step > 0 *)
Definition zrange (lo hi step : Z) : list Z :=
  if hi <? lo then []
  else map (fun k => lo + step * Z.of_nat k) (seq 0 (z2nat ((hi - lo) / step + 1))).

Fixpoint exec_stmt (s : stmt) (en : env) (nd : node) {struct s} : sres :=
  match s with
  | SSkip => (CNorm, en, nd)
  | SSeq a b =>
      match exec_stmt a en nd with
      | (CNorm, en1, nd1) => exec_stmt b en1 nd1
      | r => r
      end
  | SLocal sl e | SAssign sl e =>
      match eval_expr e en nd with
      | EV v nd1 => (CNorm, env_set sl v en, nd1)
      | EFail nd1 => (CFail, en, nd1)
      end
  | SIf c t e =>
      match eval_expr c en nd with
      | EV v nd1 => if truthy v then exec_stmt t en nd1 else exec_stmt e en nd1
      | EFail nd1 => (CFail, en, nd1)
      end
  | SForNum sl lo hi st body =>
      match eval_expr lo en nd with
      | EV (VNum l) nd1 =>
          match eval_expr hi en nd1 with
          | EV (VNum h) nd2 =>
              match eval_expr st en nd2 with
              | EV (VNum k) nd3 =>
                  if k <=? 0 then (CFail, en, nd3)
                  else loop (fun _ v en' nd' => exec_stmt body (env_set sl v en') nd')
                            (map VNum (zrange l h k)) 1 en nd3
              | EV _ nd3 | EFail nd3 => (CFail, en, nd3)
              end
          | EV _ nd2 | EFail nd2 => (CFail, en, nd2)
          end
      | EV _ nd1 | EFail nd1 => (CFail, en, nd1)
      end
  | SForIpairs ks vs e body =>
      match eval_expr e en nd with
      | EV (VTab l) nd1 =>
          loop (fun i v en' nd' => exec_stmt body (env_set vs v (env_set ks i en')) nd')
               (take_until_nil l) 1 en nd1
      | EV _ nd1 | EFail nd1 => (CFail, en, nd1)
      end
  | SBreak => (CBrk, en, nd)
  | SReturn e =>
      match eval_expr e en nd with
      | EV v nd1 => (CRet v, en, nd1)
      | EFail nd1 => (CFail, en, nd1)
      end
  | SCall e =>
      match eval_expr e en nd with
      | EV _ nd1 => (CNorm, en, nd1)
      | EFail nd1 => (CFail, en, nd1)
      end
  | STableInsert sl e =>
      match eval_expr e en nd with
      | EV v nd1 =>
          match env_get sl en with
          | VTab l => (CNorm, env_set sl (VTab (l ++ [v])) en, nd1)
          | _ => (CFail, en, nd1)
          end
      | EFail nd1 => (CFail, en, nd1)
      end
  end.

End Interp.

(* EVAL: effects made before a runtime error persist (Redis does not roll scripts back) *)
Definition run_script (sc : script) (keys argv : list str) (nd : node) : reply * node :=
  match exec_stmt (mkCtx keys argv) (sc_body sc) (repeat VNil (sc_slots sc)) nd with
  | (CRet v, _, nd') => (val_to_reply v, nd')
  | (CNorm, _, nd') => (RNil, nd')
  | (CBrk, _, nd') => (RFail, nd')
  | (CFail, _, nd') => (RFail, nd')
  end.
